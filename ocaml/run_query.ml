(* Runner for the query-typing / getter model (C19, pure part; coq/http/Query.v).
   Input lines (tab separated, last field = what the Go harness observed):
     V <hexvalue> <obs>
     P <mode> <hexrawpath> <hexdecodedpath> <obs>
     Q <hexpath> <hexrawquery> <form> <obs>
     G <parser q|b> <hexpath> <hexrawquery> <form> <env> <obs>
   form ::= "!" (ParseForm failed) | "-" (empty) | hexk=hexv;...            *)
module Q = Model.Query
open Model.BinNums
open Common

(* Z within [-2^63, 2^63] to decimal (OCaml's native int has 63 bits only) *)
let rec i64_of_pos = function
  | Coq_xH -> 1L
  | Coq_xO p -> Int64.mul 2L (i64_of_pos p)
  | Coq_xI p -> Int64.add (Int64.mul 2L (i64_of_pos p)) 1L
let string_of_z = function
  | Z0 -> "0"
  | Zpos p -> Printf.sprintf "%Lu" (i64_of_pos p)
  | Zneg p -> "-" ^ Printf.sprintf "%Lu" (i64_of_pos p)

let show_val (r : Q.qres) : string =
  match r with
  | Q.QErr Q.EString -> "err:string"
  | Q.QErr Q.EBytes -> "err:bytes"
  | Q.QStr v -> "str:" ^ hexfield_of_bytes v
  | Q.QInt z -> "int:" ^ string_of_z z
  | Q.QFloat _ -> "float"
  | Q.QBool true -> "bool:true"
  | Q.QBool false -> "bool:false"
  | Q.QNull -> "null"
  | Q.QBytes v -> "bytes:" ^ hexfield_of_bytes v
  | Q.QLit s -> "lit:" ^ hexfield_of_bytes s

let parse_form (s : string) =
  if s = "!" then None
  else if s = "-" then Some []
  else Some (List.map (fun p ->
      let i = String.index p '=' in
      (bytes_of_hexfield (String.sub p 0 i),
       bytes_of_hexfield (String.sub p (i + 1) (String.length p - i - 1))))
    (split_on ';' s))

let show_pres (p : Q.pres) : string =
  match p with
  | Q.PRErr -> "err"
  | Q.PROk (m, Q.PNil) -> "ok:" ^ hexfield_of_bytes m ^ ":nil"
  | Q.PROk (m, Q.PMap kv) ->
    let items = List.map (fun (k, v) -> (string_of_bytes k, hexfield_of_bytes k ^ "=" ^ show_val v)) kv in
    let items = List.sort (fun (a, _) (b, _) -> compare a b) items in
    "ok:" ^ hexfield_of_bytes m ^ ":" ^ String.concat "," (List.map snd items)

let show_method (p : Q.pres) : string =
  match p with
  | Q.PRErr -> "err"
  | Q.PROk (m, _) -> "ok:" ^ hexfield_of_bytes m

let mkreq path form : Q.hreq = { Q.hq_path = path; Q.hq_form = form }

(* the JSON-RPC server behind the harness's getter, as a function of the method name *)
let srv env (m : coq_N list) (_ : Q.params) : Q.call_result =
  if env = "closed" then Q.CallFail
  else match string_of_bytes m with
    | "ok" | "a/ok" | "rpc.serverInfo" -> Q.CallOk []
    | "inv" -> Q.CallErr (z_of_int (-32602))
    | "plain" -> Q.CallErr (z_of_int (-32098))      (* errors.New: the server reports SystemError *)
    | "nf" -> Q.CallErr (z_of_int (-32601))
    | "custom" -> Q.CallErr (z_of_int 7)
    | "data" -> Q.CallErr (z_of_int (-32600))
    | "block" -> Q.CallFail     (* the harness cancels the request context: Call returns context.Canceled, not an *Error *)
    | _ -> Q.CallErr (z_of_int (-32601))

let show_getter ((st, b) : coq_Z * Q.body) : string =
  Printf.sprintf "%d:%s" (int_of_z st)
    (match b with
     | Q.BError c -> Printf.sprintf "err%d" (int_of_z c)
     | Q.BOther -> "other"
     | Q.BResult _ -> "res")

let () =
  iter_lines stdin (fun ln l ->
    match split_on '\t' l with
    | ["V"; v; obs] ->
      report_case ln ~expected:(show_val (Q.classify (bytes_of_hexfield v))) ~got:obs
    | ["P"; _; _; dec; obs] ->
      let r = mkreq (bytes_of_hexfield dec) (Some [(bytes_of_string "x", bytes_of_string "1")]) in
      let exp = "q=" ^ show_method (Q.parse_query r) ^ ",b=" ^ show_method (Q.parse_basic r) in
      report_case ln ~expected:exp ~got:obs
    | ["Q"; p; _; form; obs] ->
      let r = mkreq (bytes_of_hexfield p) (parse_form form) in
      let exp = "q=" ^ show_pres (Q.parse_query r) ^ "|b=" ^ show_pres (Q.parse_basic r) in
      report_case ln ~expected:exp ~got:obs
    | ["G"; parser; p; _; form; env; obs] ->
      let r = mkreq (bytes_of_hexfield p) (parse_form form) in
      let pr = if parser = "b" then Q.parse_basic r else Q.parse_query r in
      report_case ln ~expected:(show_getter (Q.getter_status pr (srv env))) ~got:obs
    | _ -> Printf.printf "BADLINE\t%d\n" ln);
  finish ()
