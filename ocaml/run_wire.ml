(* Runner for the wire model (C13, pure part of C02): coq/wire/Wire.v against json.go & co.
   Line formats: see harness/pure/c13.go.  Only plumbing here; every decision is a model function. *)
module J = Model.Json
module W = Model.Wire
module M = Model.Msg
open Common

let show_err = function
  | None -> "-"
  | Some e -> Printf.sprintf "%d:%s:%s" (int_of_z e.M.we_code) (hexfield_of_bytes e.M.we_msg) (hexfield_of_bytes e.M.we_data)

let show_entry (r : W.parsed_request) =
  String.concat "," [hexfield_of_bytes r.W.pr_id; hexfield_of_bytes r.W.pr_method; hexfield_of_bytes r.W.pr_params; show_err r.W.pr_error]

let canonical_parse s =
  match W.parse_requests s with
  | W.TopError e -> Printf.sprintf "T:%d:%s" (int_of_z e.M.we_code) (hexfield_of_bytes e.M.we_msg)
  | W.Parsed rs -> String.concat ";" (Printf.sprintf "R%d" (List.length rs) :: List.map show_entry rs)

let parse_err s =
  if s = "-" then None else
  match split_on ':' s with
  | [c; m; d] -> Some { M.we_code = z_of_int (int_of_string c); we_msg = bytes_of_hexfield m; we_data = bytes_of_hexfield d }
  | _ -> failwith "bad err"

(* a variant observed from Go is acceptable if it equals the canonical outcome in everything
   but the reported error, and the error lies in the member's allowed set *)
let normalise s canon variant =
  match W.parse_requests s, W.allowed_errs_msgs s with
  | W.Parsed rs, Some allowed ->
    (match split_on ';' variant with
     | hd :: entries when hd = Printf.sprintf "R%d" (List.length rs) && List.length entries = List.length rs
                          && List.length allowed = List.length rs ->
       let ok = List.for_all2 (fun (r, al) e ->
           match split_on ',' e with
           | [id; m; p; er] ->
             id = hexfield_of_bytes r.W.pr_id && m = hexfield_of_bytes r.W.pr_method && p = hexfield_of_bytes r.W.pr_params &&
             (match parse_err er with
              | None -> al = []
              | Some oe -> W.err_allowed oe al)
           | _ -> false) (List.combine rs allowed) entries in
       if ok then canon else variant
     | _ -> variant)
  | _ -> variant

let split_mode s =
  if String.length s > 0 && s.[0] = 'v' then
    let i = String.index s '_' in (String.sub s 0 (i + 1), String.sub s (i + 1) (String.length s - i - 1))
  else (String.sub s 0 1, String.sub s 1 (String.length s - 1))

exception Bad_input of string
let compact_opt raw =
  if raw = [] then [] else match J.compact raw with Some c -> c | None -> raise (Bad_input "value is not JSON")

let abs_msg s =
  match split_on ',' s with
  | [id; m; p; r; e] ->
    let (_, ph) = split_mode p and (_, rh) = split_mode r in
    { M.j_id = bytes_of_hexfield id; j_method = bytes_of_hexfield m; j_params = compact_opt (bytes_of_hexfield ph);
      j_error = parse_err e; j_result = compact_opt (bytes_of_hexfield rh); j_err = None }
  | _ -> failwith "bad msg"

let flags b =
  let f x = if x then "1" else "0" in
  f (J.valid b) ^ f (J.valid_utf8 b) ^ f (List.for_all (fun c -> int_of_n c >= 32) b)

let outcome_response id outcome =
  if outcome = "-" then W.response_marshal id None (bytes_of_string "null")
  else if outcome.[0] = 'R' then
    let (_, h) = split_mode (String.sub outcome 1 (String.length outcome - 1)) in
    W.response_marshal id None (compact_opt (bytes_of_hexfield h))
  else W.response_marshal id (parse_err (String.sub outcome 1 (String.length outcome - 1))) []

let () =
  iter_lines stdin (fun ln l ->
    try
      match split_on '\t' l with
      | ["P"; inp; obs] ->
        let s = bytes_of_hexfield inp in
        let canon = canonical_parse s in
        let vs = List.sort_uniq compare (List.map (normalise s canon) (split_on '|' obs)) in
        report_case ln ~expected:canon ~got:(String.concat "|" vs)
      | ["E"; who; batch; msgs; obs] ->
        let ms = List.map abs_msg (split_on ';' msgs) in
        (* inside the quantifier of C13: ids, raw values and error data are valid UTF-8 *)
        let in_domain = List.for_all (fun m ->
            J.valid_utf8 m.M.j_id && J.valid_utf8 m.M.j_params && J.valid_utf8 m.M.j_result &&
            (match m.M.j_error with Some e -> J.valid_utf8 e.M.we_data | None -> true)) ms in
        let enc = match who, ms with
          | "X", [m] -> (match m.M.j_error with Some e -> W.marshal_error e | None -> None)
          | "R", [m] ->
            (* the error message has been through the server's encoder and the client's decoder *)
            let fixm e = { e with M.we_msg = (match J.unmarshal_string (J.escape_string e.M.we_msg) with
                                               | Some (Some x) -> x | _ -> raise (Bad_input "message round trip")) } in
            let data_c e = (match e.M.we_data with [] -> e | d -> { e with M.we_data = compact_opt d }) in
            let err = (match m.M.j_error with
                | Some e when W.marshal_error e = None ->
                  (* data that json.Marshal rejects: the client holds what the model's parser reads from
                     the model's encoding of the server's reply (fix F16: the error without its data) *)
                  (match W.enc_msg { m with M.j_method = []; j_params = []; j_result = [] } with
                   | Some b -> (W.parse_member b).M.j_error
                   | None -> raise (Bad_input "the server's reply is lost"))
                | Some e -> Some (data_c (fixm e))
                | None -> None) in
            W.response_marshal m.M.j_id err m.M.j_result
          | "C", _ -> W.enc_msgs false ms            (* client messages never carry the batch flag *)
          | _, _ -> W.enc_msgs (batch = "1") ms in
        let exp = match enc with
          | None -> "FAIL:*"
          | Some b -> let fl = flags b in
            hexfield_of_bytes b ^ ":" ^ (if fl = "111" || not in_domain then fl else "model-" ^ fl) in
        let obs = if String.length obs >= 5 && String.sub obs 0 5 = "FAIL:" && enc = None then "FAIL:*" else obs in
        report_case ln ~expected:exp ~got:obs
      | ["B"; body; outcome; obs] ->
        let s = bytes_of_hexfield body in
        let exp = match W.parse_requests s with
          | W.TopError _ -> "500:*"
          | W.Parsed rs ->
            let bad = List.filter (fun r -> r.W.pr_error <> None) rs in
            let good = List.filter (fun r -> r.W.pr_error = None) rs in
            let res = List.map W.bridge_marshal_error bad @
                      List.map (fun r -> outcome_response r.W.pr_id outcome) (List.filter (fun r -> r.W.pr_id <> []) good) in
            let res = List.map (function Some b -> (match J.compact b with Some c -> c | None -> raise (Bad_input "uncompactable"))
                                       | None -> raise (Bad_input "marshal failed")) res in
            (match res with
             | [] -> "204:-"
             | [x] -> "200:" ^ hexfield_of_bytes x
             | xs -> "200:" ^ hex_of_string ("[" ^ String.concat "," (List.map string_of_bytes xs) ^ "]")) in
        report_case ln ~expected:exp ~got:obs
      | _ -> Printf.printf "BADLINE\t%d\n" ln
    with Bad_input m -> report_case ln ~expected:("BADINPUT " ^ m) ~got:"?");
  finish ()
