(* Runner for the framing models (C11 round trip, C12 robustness).
   The models are functions of the CONCATENATED byte stream: the cut fields of the
   case lines are ignored here.  Input lines (tab separated, last field = observed):
     R  framing cuts recs     sendobs|recvobs
     RX framing recs          sendobs|recvobs      (every cut set: same answer)
     RK framing k recs        sendobs|recvobs
     V  framing cuts stream   recvobs
     VW framing cuts stream   recvobs              (executed in a worker sub-process)
     VX framing stream        recvobs
     VK framing k stream      recvobs
     D  recs                  recvobs;sendafterclose=err|nil
     I  errtree               0|1
   See harness/pure/frame.go for the byte-spec, framing and observation syntax. *)
module FB = Model.FrameBase
module Split = Model.Split
module Hdr = Model.Hdr
module RawJson = Model.RawJson
module Direct = Model.Direct
open Common

(* ---- splitmix64, identical to harness/pure/rng.go ---- *)
let golden = 0x9e3779b97f4a7c15L
let rng_new (seed : int64) =
  let z = Int64.add (Int64.mul seed golden) 0x1234567L in
  let z = Int64.mul (Int64.logxor z (Int64.shift_right_logical z 30)) 0xbf58476d1ce4e5b9L in
  let z = Int64.mul (Int64.logxor z (Int64.shift_right_logical z 27)) 0x94d049bb133111ebL in
  ref (Int64.logxor z (Int64.shift_right_logical z 31))
let rng_next r =
  r := Int64.add !r golden;
  let z = !r in
  let z = Int64.mul (Int64.logxor z (Int64.shift_right_logical z 30)) 0xbf58476d1ce4e5b9L in
  let z = Int64.mul (Int64.logxor z (Int64.shift_right_logical z 27)) 0x94d049bb133111ebL in
  Int64.logxor z (Int64.shift_right_logical z 31)

let alpha_a =
  let b = Buffer.create 100 in
  for c = 0x20 to 0x7e do if c <> 0x22 && c <> 0x5c then Buffer.add_char b (Char.chr c) done;
  Buffer.contents b
let alpha_b =
  let b = Buffer.create 256 in
  for c = 0 to 255 do if c <> 0x0a then Buffer.add_char b (Char.chr c) done;
  Buffer.contents b
let alpha_c = String.init 256 Char.chr
let alphabet = function
  | "a" -> alpha_a | "b" -> alpha_b | "c" -> alpha_c
  | s -> failwith ("bad alphabet " ^ s)

let zbytes n seed alpha =
  let al = alphabet alpha in
  let m = Int64.of_int (String.length al) in
  let r = rng_new seed in
  String.init n (fun _ -> al.[Int64.to_int (Int64.unsigned_rem (rng_next r) m)])

let unhexf s = if s = "-" then "" else string_of_hex s

let parse_spec (s : string) : string =
  let b = Buffer.create 256 in
  List.iter (fun p ->
    if p = "-" || p = "" then ()
    else if p.[0] = 'z' then begin
      match split_on 'x' (String.sub p 1 (String.length p - 1)) with
      | [n; seed; al] -> Buffer.add_string b (zbytes (int_of_string n) (Int64.of_string ("0u" ^ seed)) al)
      | _ -> failwith "bad z part"
    end else if p.[0] = 'y' then begin
      match split_on 'x' (String.sub p 1 (String.length p - 1)) with
      | [n; u] -> let u = unhexf u in for _ = 1 to int_of_string n do Buffer.add_string b u done
      | _ -> failwith "bad y part"
    end else Buffer.add_string b (string_of_hex p))
    (split_on '+' s);
  Buffer.contents b

let parse_recs (s : string) : string list =
  if s = "." then [] else List.map parse_spec (split_on ',' s)

(* ---- observations ---- *)
let fnv1a (s : string) : int64 =
  let h = ref 0xcbf29ce484222325L in
  String.iter (fun c ->
    h := Int64.mul (Int64.logxor !h (Int64.of_int (Char.code c))) 0x100000001b3L) s;
  !h

let obs_string (s : string) : string =
  let n = String.length s in
  if n > 256 then Printf.sprintf "#%d:%016Lx" n (fnv1a s)
  else if n = 0 then "-" else hex_of_string s

let obs_bytes l = obs_string (string_of_bytes l)

let kind = function
  | FB.EEOF -> "EOF"
  | FB.EUnexpectedEOF -> "UEOF"
  | FB.EContentTypeMismatch g -> "CTM(" ^ obs_bytes g ^ ")"
  | FB.EInvalidHeader -> "IHDR"
  | FB.EMissingLength -> "MLEN"
  | FB.EInvalidLength -> "ILEN"
  | FB.EJSONSyntax -> "JSYN"
  | FB.EOther -> "OTHER"

let item = function
  | FB.IRec r -> "r" ^ obs_bytes r
  | FB.IRecErr (r, e) -> "e" ^ obs_bytes r ^ ":" ^ kind e
  | FB.IErr e -> "E:" ^ kind e
  | FB.ICrash _ -> "PANIC"
  | FB.IOutOfFuel -> "OUTOFFUEL"

let items l = String.concat "," (List.map item l)

(* ---- framings ---- *)
type framing = {
  send : Model.Bytes.bytes -> FB.send_result;
  recv_all : Model.Bytes.bytes -> FB.item list;
}

let starts p s = String.length s >= String.length p && String.sub s 0 (String.length p) = p
let after p s = String.sub s (String.length p) (String.length s - String.length p)

let split_framing b =
  let b = n_of_int b in
  { send = Split.send b; recv_all = Split.recv_all FB.cfg_fixed b }
let hdr_framing pol mt =
  { send = Hdr.send mt; recv_all = Hdr.recv_all FB.cfg_fixed pol mt N0 }

let parse_framing (s : string) : framing =
  if s = "line" then split_framing 10
  else if starts "split:" s then begin
    let b = unhexf (after "split:" s) in
    if String.length b <> 1 then failwith "bad split byte";
    split_framing (Char.code b.[0])
  end
  else if starts "strict:" s then hdr_framing Hdr.Strict (bytes_of_hexfield (after "strict:" s))
  else if starts "header:" s then hdr_framing Hdr.Optional (bytes_of_hexfield (after "header:" s))
  else if s = "lsp" then hdr_framing Hdr.Optional Hdr.lsp_mime
  else if s = "rawjson" then { send = RawJson.send; recv_all = RawJson.recv_all }
  else failwith ("bad framing " ^ s)

(* pipelined round trip: per-record send tokens, the concatenated stream, recv_all on it *)
let round_trip fr recs =
  let stream = Buffer.create 4096 in
  let toks = List.map (fun r ->
    match fr.send (bytes_of_string r) with
    | FB.Sent o -> let os = string_of_bytes o in Buffer.add_string stream os; "S" ^ obs_string os
    | FB.Refused -> "R") recs in
  let sobs = if toks = [] then "." else String.concat "," toks in
  sobs ^ "|" ^ items (fr.recv_all (bytes_of_string (Buffer.contents stream)))

let recv_only fr spec = items (fr.recv_all (bytes_of_string (parse_spec spec)))

(* ---- Direct, IsErrClosing ---- *)
let direct recs =
  let rs = List.map bytes_of_string recs in
  match Direct.dsend_all Direct.dinit rs with
  | None -> "model:send-failed"
  | Some st ->
    match Direct.dclose st with
    | Direct.DCloseCrash -> "PANIC"
    | Direct.DClosed st' ->
      let its = Direct.drecv_all (nat_of_int (List.length rs + 3)) false st' in
      let late = match Direct.dsend st' (bytes_of_string "late") with
        | Direct.DSendErr -> "err" | Direct.DSent _ -> "nil" in
      items its ^ ";sendafterclose=" ^ late

let parse_errtree (s : string) : Direct.goerr =
  let pos = ref 0 in
  let adv () = incr pos in
  let rec tree () =
    let c = s.[!pos] in
    adv ();
    match c with
    | 'n' -> Direct.GNil
    | 'c' -> Direct.GErrClosed
    | 'N' -> Direct.GNetErrClosed
    | 'e' -> Direct.GEOF
    | 'l' -> let d = Char.code s.[!pos] - 48 in adv (); Direct.GLeaf (n_of_int d)
    | 'w' -> adv (); let t = tree () in adv (); Direct.GWrap t
    | 'j' -> adv (); let a = tree () in adv (); let b = tree () in adv (); Direct.GJoin (a, b)
    | _ -> failwith "bad error tree"
  in
  (* errors.Join drops nil members and is nil when all are nil; fmt.Errorf("%w", nil) is a
     non-nil error that wraps nothing.  GNil never matches a target, so GJoin/GWrap over
     GNil give the same answer as the Go values, except for a top-level all-nil Join. *)
  let rec norm = function
    | Direct.GJoin (a, b) ->
      (match norm a, norm b with
       | Direct.GNil, Direct.GNil -> Direct.GNil
       | a', b' -> Direct.GJoin (a', b'))
    | Direct.GWrap t -> Direct.GWrap (match norm t with Direct.GNil -> Direct.GLeaf (n_of_int 99) | t' -> t')
    | e -> e in
  norm (tree ())

let is_err_closing tree =
  let e = match tree with
    | "real-netclosed" -> Direct.GWrap Direct.GNetErrClosed   (* *net.OpError wrapping net.ErrClosed *)
    | "os-errclosed" -> Direct.GLeaf (n_of_int 97)
    | "io-closedpipe" | "real-pipeclosed" -> Direct.GLeaf (n_of_int 98)
    | t -> parse_errtree t in
  if Direct.is_err_closing e then "1" else "0"

(* the models ignore the cut fields: lines that differ only there share one evaluation *)
let memo : (string, string) Hashtbl.t = Hashtbl.create 4096
let memoize key f =
  match Hashtbl.find_opt memo key with
  | Some v -> v
  | None -> let v = f () in Hashtbl.replace memo key v; v
let rt f recs = memoize ("R\t" ^ f ^ "\t" ^ recs) (fun () -> round_trip (parse_framing f) (parse_recs recs))
let rv f stream = memoize ("V\t" ^ f ^ "\t" ^ stream) (fun () -> recv_only (parse_framing f) stream)

let () =
  iter_lines stdin (fun ln l ->
    try
      match split_on '\t' l with
      | ["R"; f; _cuts; recs; obs] -> report_case ln ~expected:(rt f recs) ~got:obs
      | ["RX"; f; recs; obs] -> report_case ln ~expected:(rt f recs) ~got:obs
      | ["RK"; f; _k; recs; obs] -> report_case ln ~expected:(rt f recs) ~got:obs
      | ["DX"; f; _cuts; recs_in; recs_out; obs] ->
        (* full duplex: receiving is independent of the Sends issued meanwhile, and vice versa *)
        let fr = parse_framing f in
        let stream = Buffer.create 4096 in
        List.iter (fun r -> match fr.send (bytes_of_string r) with
          | FB.Sent o -> Buffer.add_string stream (string_of_bytes o) | FB.Refused -> ()) (parse_recs recs_in);
        let robs = items (fr.recv_all (bytes_of_string (Buffer.contents stream))) in
        let toks = List.map (fun r -> match fr.send (bytes_of_string r) with
          | FB.Sent o -> "S" ^ obs_string (string_of_bytes o) | FB.Refused -> "E") (parse_recs recs_out) in
        report_case ln ~expected:(robs ^ "#" ^ (if toks = [] then "." else String.concat "," toks)) ~got:obs
      | ["V"; f; _cuts; stream; obs] -> report_case ln ~expected:(rv f stream) ~got:obs
      | ["VW"; f; _cuts; stream; obs] -> report_case ln ~expected:(rv f stream) ~got:obs
      | ["VX"; f; stream; obs] -> report_case ln ~expected:(rv f stream) ~got:obs
      | ["VK"; f; _k; stream; obs] -> report_case ln ~expected:(rv f stream) ~got:obs
      | ["D"; recs; obs] ->
        report_case ln ~expected:(direct (parse_recs recs)) ~got:obs
      | ["I"; tree; obs] ->
        report_case ln ~expected:(is_err_closing tree) ~got:obs
      | _ -> Printf.printf "BADLINE\t%d\n" ln
    with Failure _ | Invalid_argument _ | Not_found -> Printf.printf "BADLINE\t%d\n" ln);
  finish ()
