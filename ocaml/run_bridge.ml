(* Runner for the bridge model (C18): reads scenario logs of harness/conc/bridge.go on
   stdin and, for every answer line, predicts it with Bridge.serve_table.

   Lines (tab separated; byte strings hex, "-" = empty):
     scenario <fam> <seed> <idx> <kind>
     cfg <hook 0|1> <getter 0|1> <concurrency>
     H <params> R <result> | H <params> E <code>          handler outcome per params text
     Q <req> <method> <mt> <hascs 0|1> <cs> <M|B> <batch 0|1> <members> ...   request as sent
         members: ';'-separated  id,method,params,errcode   ("-" = no member)
     A <req> <status|getter> <shape none|obj|arr|text> <objs> <started>       observed
         objs: ';'-separated  id,R,result | id,E,code ; started: ','-separated sorted params
   Everything else is ignored.  The model does not predict the body of non-2xx answers
   nor anything about the Getter: those fields are masked with "*". *)
module B = Model.Bridge
module M = Model.Msg
open Common

let z_code s = z_of_int (int_of_string s)

let parse_member s : M.jmsg =
  match split_on ',' s with
  | [id; m; p; e] ->
    { M.j_id = bytes_of_hexfield id; j_method = bytes_of_hexfield m; j_params = bytes_of_hexfield p;
      j_error = None; j_result = [];
      j_err = (if e = "0" then None else Some (B.err_code (z_code e))) }
  | _ -> failwith ("bad member " ^ s)

let show_obj (o : B.robj) =
  match o.B.ro_body with
  | B.RResult r -> Printf.sprintf "%s,R,%s" (hexfield_of_bytes o.B.ro_id) (hexfield_of_bytes r)
  | B.RError e -> Printf.sprintf "%s,E,%d" (hexfield_of_bytes o.B.ro_id) (int_of_z e.M.we_code)

(* the order of the objects in an array is not part of the property: compared as multisets *)
let show_objs = function [] -> "-" | l -> String.concat ";" (List.sort compare (List.map show_obj l))
let sort_objs s = if s = "-" then s else String.concat ";" (List.sort compare (split_on ';' s))

let show_started ps =
  match List.sort compare (List.map hexfield_of_bytes ps) with
  | [] -> "-"
  | l -> String.concat "," l

let known = [bytes_of_string "g"]

let () =
  let tbl = ref [] and qs = Hashtbl.create 16 and hook = ref false and getter = ref false in
  iter_lines stdin (fun ln l ->
    match split_on '\t' l with
    | "scenario" :: _ -> tbl := []; Hashtbl.reset qs
    | "cfg" :: h :: g :: _ -> hook := (h = "1"); getter := (g = "1")
    | ["H"; p; "R"; v] -> tbl := (bytes_of_hexfield p, B.RResult (bytes_of_hexfield v)) :: !tbl
    | ["H"; p; "E"; c] -> tbl := (bytes_of_hexfield p, B.RError (B.err_code (z_code c))) :: !tbl
    | "Q" :: n :: rest -> Hashtbl.replace qs n rest
    | ["A"; n; st; sh; objs; started] ->
      (match (try Hashtbl.find qs n with Not_found -> []) with
       | meth :: mt :: hascs :: cs :: kind :: batch :: members :: _ ->
         let ct = { B.mt_type = bytes_of_hexfield mt;
                    mt_charset = (if hascs = "1" then Some (bytes_of_hexfield cs) else None) } in
         let ms = if members = "-" then [] else List.map parse_member (split_on ';' members) in
         let body = if kind = "B" then M.InBad else M.InMsgs (batch = "1", ms) in
         let sv = B.serve_table known !tbl (n_of_int 1) (bytes_of_hexfield meth) ct !hook !getter body in
         let inv = show_started (B.invoked known sv.B.sv_specs) in
         let expected, got =
           match sv.B.sv_out with
           | B.OGetter -> "getter\t*\t*\t" ^ inv, Printf.sprintf "%s\t*\t*\t%s" st started
           | B.OGate s | B.OBadBody s ->
             Printf.sprintf "%d\t*\t*\t%s" (int_of_z s) inv, Printf.sprintf "%s\t*\t*\t%s" st started
           | B.OCrash -> "crash\t*\t*\t" ^ inv, Printf.sprintf "%s\t*\t*\t%s" st started
           | B.OResp (s, b) ->
             let shape = match b with B.BEmpty -> "none" | B.BSingle _ -> "obj" | B.BArray _ -> "arr" in
             Printf.sprintf "%d\t%s\t%s\t%s" (int_of_z s) shape (show_objs (B.shape_objs b)) inv,
             Printf.sprintf "%s\t%s\t%s\t%s" st sh (sort_objs objs) started in
         report_case ln ~expected ~got
       | _ -> Printf.printf "BADLINE\t%d\tanswer without request\n" ln)
    | _ -> ());
  finish ()
