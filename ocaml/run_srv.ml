(* Runner for the server model: replays harness logs (harness/conc) through
   Accept.accept.  One verdict line per scenario:
     OK <family> <seed> <idx> states=<n> items=<n>
     REJECT <family> <seed> <idx> item=<i> line=<lineno> <what the model expected>
     FAULT <family> <seed> <idx> <text>         (harness-side monitors)
   Every scenario, racing ones included (which are not replayed: no windows, no release lines), is also judged
   by the monitors of coq/srv/SrvMonitors.v, coq/srv/SrvMonitors2.v and coq/srv/SrvMonitors3.v (proved sound for every
   run of the model) on its environment lines and its observation lines (mon_concurrency also takes K from the cfg
   line; mon_cancel_cause is not evaluated on scenarios with an `env basectx` line: the base context of the request
   contexts ends there, a cancellation cause the model does not have):
     REJECT <family> <seed> <idx> monitor <name>                                    *)
open Common
module M = Model.SrvModel
module A = Model.Accept
module Mon = Model.SrvMonitors
module Mon2 = Model.SrvMonitors2
module Mon3 = Model.SrvMonitors3
module Msg = Model.Msg

let hx = bytes_of_hexfield
let b01 s = (s = "1")
let z_of_string s = z_of_int (int_of_string s)

let parse_member (s : string) : Msg.jmsg =
  match split_on ',' s with
  | [id; meth; params; e; result; err] ->
    let perr x = if x = "-" then None else
        (match split_on ':' x with
         | [c; m] -> Some { Msg.we_code = z_of_string c; Msg.we_msg = hx m; Msg.we_data = [] }
         | _ -> failwith "bad err") in
    { Msg.j_id = hx id; j_method = hx meth; j_params = hx params; j_error = perr e; j_result = hx result; j_err = perr err }
  | _ -> failwith ("bad member " ^ s)

let parse_rsp (s : string) : M.rsp =
  match split_on ',' s with
  | [id; "R"; raw] -> { M.r_id = hx id; r_body = M.BRes (hx raw) }
  | [id; "E"; code; msg] -> { M.r_id = hx id; r_body = M.BErr (z_of_string code, hx msg) }
  | _ -> failwith ("bad rsp " ^ s)

let parse_obs (f : string list) : M.obs =
  match f with
  | ["start"; p; c] -> M.OStart (hx p, b01 c)
  | ["gate"; p; c] -> M.OGate (hx p, b01 c)
  | ["send"; ok; batch; rs] -> M.OSend (b01 ok, b01 batch, List.map parse_rsp (split_on ';' rs))
  | ["sendreq"; ok; id; m; p] -> M.OSendReq (b01 ok, hx id, hx m, hx p)
  | ["close"] -> M.OClose
  | ["ret"; n; "ok"] -> M.ORet (nat_of_int (int_of_string n), M.AOk)
  | ["ret"; n; "unsupported"] -> M.ORet (nat_of_int (int_of_string n), M.APushUnsupported)
  | ["ret"; n; "connclosed"] -> M.ORet (nat_of_int (int_of_string n), M.AConnClosed)
  | ["ret"; n; "res"; raw] -> M.ORet (nat_of_int (int_of_string n), M.ACbRes (hx raw))
  | ["ret"; n; "err"; c; m] -> M.ORet (nat_of_int (int_of_string n), M.ACbErr (z_of_string c, hx m))
  | ["ret"; n; "ctx"; "cancel"] -> M.ORet (nat_of_int (int_of_string n), M.ACbCtx M.WCancel)
  | ["ret"; n; "ctx"; "deadline"] -> M.ORet (nat_of_int (int_of_string n), M.ACbCtx M.WDeadline)
  | ["ret"; n; "other"; _] -> M.ORet (nat_of_int (int_of_string n), M.ASendFailed)
  | ["waitret"; "none"] -> M.OWaitRet None
  | ["waitret"; "stop"] -> M.OWaitRet (Some M.SCStop)
  | ["waitret"; "closed"] -> M.OWaitRet (Some M.SCEOF)
  | ["waitret"; "other"] -> M.OWaitRet (Some M.SCOther)
  | _ -> M.OCrash M.CrAlreadyRunning  (* anything unparsable (sendbad, invalid status) can match nothing *)

let cause = function "eof" -> M.SCEOF | "closing" -> M.SCClosing | _ -> M.SCOther

(* The record's BYTES are parsed by the wire model (coq/wire/Wire.v: parse_msgs, the function the C02/C13
   theorems are about); the harness's own description of what it built is only a cross-check: a difference
   between the two is reported as PARSEDIFF (the wire model and the generator disagree about a record). *)
module W = Model.Wire
let parse_diffs : string list ref = ref []
let ambiguous = ref false
let proj_err = function None -> None | Some e -> Some (e.Msg.we_code, e.Msg.we_msg)
let proj_m (m : Msg.jmsg) =
  (Msg.fix_id m.Msg.j_id, m.Msg.j_method, m.Msg.j_params, proj_err m.Msg.j_error, m.Msg.j_result, proj_err m.Msg.j_err)
let same_inbound (a : Msg.inbound) (b : Msg.inbound) =
  match a, b with
  | Msg.InBad, Msg.InBad -> true
  | Msg.InMsgs (x, ms), Msg.InMsgs (y, ns) ->
    (x = y || ms = []) && List.length ms = List.length ns && List.for_all2 (fun m n -> proj_m m = proj_m n) ms ns
  | _, _ -> false
let wire_parse (raw : string) (described : Msg.inbound) : Msg.inbound =
  let w = W.parse_msgs (hx raw) in
  if not (same_inbound w described) then parse_diffs := raw :: !parse_diffs;
  w

let parse_env (f : string list) : M.label =
  match f with
  | ["start"] -> M.LStart
  | ["feed"; "msg"; batch; ms; raw] ->
    M.LFeed (M.FMsg (wire_parse raw (Msg.InMsgs (b01 batch, List.map parse_member (split_on ';' ms)))))
  | ["feed"; "msgeof"; batch; ms; raw] ->
    M.LFeed (M.FMsgEOF (wire_parse raw (Msg.InMsgs (b01 batch, List.map parse_member (split_on ';' ms)))))
  | ["feed"; "raw"; raw] ->
    (* an arbitrary record: the wire model alone says what it is.  A member with more than one defect may be
       reported by Go under any of them (map iteration order): such scenarios are not replayed. *)
    (match W.split_msgs (hx raw) with
     | Some (_, raws) -> if List.exists (fun r -> List.length (W.allowed_errs r) > 1) raws then ambiguous := true
     | None -> ());
    M.LFeed (M.FMsg (W.parse_msgs (hx raw)))
  | ["feed"; "bad"; raw] -> M.LFeed (M.FMsg (wire_parse raw Msg.InBad))
  | ["feed"; "empty"; raw] -> M.LFeed (M.FMsg (wire_parse raw (Msg.InMsgs (true, []))))
  | ["feed"; "err"; k] -> M.LFeed (M.FErr (cause k))
  | ["sendfault"; b] -> M.LSendFault (b01 b)
  | ["gate"; p; "res"; raw] -> M.LGate (hx p, M.ORes (hx raw))
  | ["gate"; p; "err"; c; m] -> M.LGate (hx p, M.OErr (z_of_string c, hx m))
  | ["callstop"; n] -> M.LCallStop (nat_of_int (int_of_string n))
  | ["callcancel"; n; id] -> M.LCallCancel (nat_of_int (int_of_string n), hx id)
  | ["callpush"; n; w; m; p] -> M.LCallPush (nat_of_int (int_of_string n), b01 w, hx m, hx p)
  | ["callwait"] -> M.LCallWait
  | ["cbctx"; n; "cancel"] -> M.LCbCtxEnd (nat_of_int (int_of_string n), M.WCancel)
  | ["cbctx"; n; "deadline"] -> M.LCbCtxEnd (nat_of_int (int_of_string n), M.WDeadline)
  | _ -> failwith ("bad env " ^ String.concat " " f)

let site_of = function
  | "srv.read" -> M.SRead | "srv.next" -> M.SNext | "srv.barrier" -> M.SBarrier | "srv.acquire" -> M.SAcquire
  | "srv.handled" -> M.SHandled | "srv.deliver" -> M.SDeliver | "srv.stop" -> M.SStop | "srv.cancel" -> M.SCancel
  | "srv.push" -> M.SPush | "srv.cbwatch" -> M.SCbWatch
  | s -> failwith ("unknown site " ^ s)
let site_name = function
  | M.SRead -> "srv.read" | M.SNext -> "srv.next" | M.SBarrier -> "srv.barrier" | M.SAcquire -> "srv.acquire"
  | M.SHandled -> "srv.handled" | M.SDeliver -> "srv.deliver" | M.SStop -> "srv.stop" | M.SCancel -> "srv.cancel"
  | M.SPush -> "srv.push" | M.SCbWatch -> "srv.cbwatch"

let hb = hexfield_of_bytes
let show_body = function
  | M.BRes r -> "R," ^ hb r
  | M.BErr (c, m) -> Printf.sprintf "E,%d,%s" (int_of_z c) (hb m)
  | M.BWild -> "R,*"
let show_cause = function None -> "none" | Some M.SCStop -> "stop" | Some M.SCEOF -> "closed" | Some M.SCClosing -> "closed" | Some M.SCOther -> "other"
let show_obs = function
  | M.OStart (p, c) -> Printf.sprintf "start %s %b" (hb p) c
  | M.OGate (p, c) -> Printf.sprintf "gate %s %b" (hb p) c
  | M.OSend (ok, b, rs) -> Printf.sprintf "send ok=%b batch=%b %s" ok b
                             (String.concat ";" (List.map (fun r -> hb r.M.r_id ^ "," ^ show_body r.M.r_body) rs))
  | M.OSendReq (ok, i, m, p) -> Printf.sprintf "sendreq ok=%b %s %s %s" ok (hb i) (hb m) (hb p)
  | M.OClose -> "close"
  | M.ORet (n, r) -> Printf.sprintf "ret %d %s" (int_of_nat n)
                       (match r with M.APushUnsupported -> "unsupported" | M.AConnClosed -> "connclosed" | M.AOk -> "ok"
                                   | M.ASendFailed -> "sendfailed" | M.ACbRes r -> "res " ^ hb r
                                   | M.ACbErr (c, m) -> Printf.sprintf "err %d %s" (int_of_z c) (hb m)
                                   | M.ACbCtx M.WCancel -> "ctx cancel" | M.ACbCtx M.WDeadline -> "ctx deadline")
  | M.OWaitRet c -> "waitret " ^ show_cause c
  | M.OCrash _ -> "CRASH"

type pending = { mutable items : (A.item * int) list }  (* reversed *)

(* projection per property: which observables the check for that property compares *)
let mk start ctx send sendreq close ret wait parked used calls queue running =
  { A.mk_start = start; mk_ctx = ctx; mk_send = send; mk_sendreq = sendreq; mk_close = close; mk_ret = ret;
    mk_wait = wait; mk_parked = parked; mk_used = used; mk_calls = calls; mk_queue = queue; mk_running = running }
let mask_of = function
  (*                 start ctx   send  sreq  close ret   wait  parkd used  calls queue runng *)
  | "c01" -> mk      true  false true  false false false false true  false false true  false
  | "c02" -> mk      true  false true  false false false false false false false true  true
  | "c03" -> mk      true  false false false false false false true  false false true  false
  | "c06" -> mk      true  false true  false false false false true  false false false false
  | "c07" -> mk      true  true  true  false false true  false false true  false false false
  | "c08" -> mk      true  true  true  false true  true  true  true  true  true  true  true
  | "c09" -> mk      false false true  true  false true  false false false true  false false
  | "c10" -> mk      false false true  true  true  false false false false false false false
  | _ -> A.mask_all

let () =
  let mask = ref A.mask_all in
  if Array.length Sys.argv > 1 then mask := mask_of Sys.argv.(1);
  let cfg = ref None in
  let hdr = ref "? ? ?" in
  let policy = ref "" in
  let cur : (string list * int) option ref = ref None in   (* env/rel line awaiting its observations *)
  let obs = ref [] in
  let items = ref [] in
  let faults = ref [] in
  let envs = ref [] in       (* environment labels of the scenario, reversed *)
  let allobs = ref [] in     (* observations of the scenario, reversed *)
  let basectx = ref false in (* the scenario has an `env basectx` line: request contexts end for a reason outside the model *)
  let flush_cur () =
    (match !cur with
     | Some (f, ln) ->
       let os = List.rev !obs in
       (match f with
        | "env" :: rest ->
          (* a racing log may contain environment lines that are no label of the model (basectx): they are no
             input of the monitors either *)
          (match (try Some (parse_env rest) with Failure _ when !policy = "race" -> None) with
           | Some lb -> envs := lb :: !envs; items := (A.IEnv (lb, os), ln) :: !items
           | None -> ())
        | ["rel"; s] -> items := (A.IRel (site_of s, os), ln) :: !items
        | _ -> failwith "bad cur")
     | None -> ());
    cur := None; obs := [] in
  iter_lines stdin (fun ln l ->
      let f = split_on '\t' l in
      match f with
      | ["cfg"; k; push; builtin; unblock; ms] ->
        cfg := Some (M.init (nat_of_int (int_of_string k)) (b01 push) (b01 builtin)
                       (List.map hx (if ms = "" then [] else split_on ',' ms)) (b01 unblock));
        items := []; faults := []; cur := None; obs := []; envs := []; allobs := []; basectx := false
      | "scenario" :: fam :: seed :: idx :: rest ->
        hdr := String.concat " " [fam; seed; idx];
        policy := (match rest with p :: _ -> p | [] -> "")
      | "env" :: "basectx" :: _ -> basectx := true; flush_cur (); cur := Some (f, ln)
      | "env" :: _ | "rel" :: _ -> flush_cur (); cur := Some (f, ln)
      | "o" :: rest -> let o = parse_obs rest in obs := o :: !obs; allobs := o :: !allobs
      | ["parked"; p] ->
        flush_cur ();
        let cnt = if p = "-" then [] else
            List.map (fun x -> match split_on ':' x with
                | [s; n] -> (site_of s, nat_of_int (int_of_string n))
                | _ -> failwith "bad parked") (split_on ',' p) in
        items := (A.IParked cnt, ln) :: !items
      | ["snap"; used; calls; qlen; running] ->
        flush_cur ();
        let lst x = if x = "-" then [] else List.map hx (split_on ',' x) in
        items := (A.ISnap { A.sn_used = lst used; sn_calls = lst calls; sn_qlen = nat_of_int (int_of_string qlen);
                            sn_running = b01 running }, ln) :: !items
      | "fault" :: rest -> faults := String.concat " " rest :: !faults
      | ["end"] ->
        flush_cur ();
        let its = List.rev !items in
        List.iter (fun x -> Printf.printf "FAULT %s %s\n" !hdr x) (List.rev !faults);
        List.iter (fun x -> Printf.printf "PARSEDIFF %s %s\n" !hdr x) (List.rev !parse_diffs);
        parse_diffs := [];
        let amb = !ambiguous in
        ambiguous := false;
        (* the proved monitors, on every scenario *)
        let env = List.rev !envs and os = List.rev !allobs in
        let mons =
          [ ("mon_start_once", true, Mon.mon_start_once);
            ("mon_start_distinct", Mon.unique_params env, Mon.mon_start_distinct);
            ("mon_gate_after_start", true, Mon.mon_gate_after_start);
            ("mon_barrier", Mon.unique_params env, Mon.mon_barrier);
            ("mon_reply_once", true, Mon.mon_reply_once);
            (* C06: never more than Concurrency (the K of the cfg line) handlers executing *)
            ("mon_concurrency", (!cfg <> None),
             (fun e o -> match !cfg with Some s0 -> Mon2.mon_concurrency s0.M.c_K e o | None -> true));
            (* C09: pushed request ids pairwise distinct; final returns of a push at most its calls *)
            ("mon_push_ids", true, Mon2.mon_push_ids);
            (* C07: the duplicate-id error only for an id received at least twice *)
            ("mon_duplicate", true, Mon2.mon_duplicate);
            (* C07: a handler context reported as cancelled has a cause among the environment lines (a stop cause,
               or a CancelRequest naming the id of a fed member with the handler's params); skipped when the
               scenario ends the base context of the request contexts (a cause the model lacks) *)
            ("mon_cancel_cause", not !basectx, Mon3.mon_cancel_cause);
            (* C08: every WaitStatus return has its cause among the environment lines; returns <= calls *)
            ("mon_wait_status", true, Mon3.mon_wait_status) ] in
        let nmon = ref 0 in
        let mon_rejected = ref false in
        List.iter (fun (name, hyp, m) ->
            if hyp then begin
              incr nmon;
              if not (m env os) then begin
                mon_rejected := true;
                Printf.printf "REJECT %s monitor %s\n" !hdr name
              end
            end) mons;
        (match !cfg with
         | _ when amb ->
           if not !mon_rejected then
             Printf.printf "OK %s skipped: a member with several defects (any of them may be reported) monitors=%d\n" !hdr !nmon
         | _ when !policy = "race" ->
           (* racing mode has no windows: the log is judged by the property monitors only *)
           if not !mon_rejected then Printf.printf "OK %s skipped racing-log (monitors only) monitors=%d\n" !hdr !nmon
         | None -> Printf.printf "BADLOG %s no cfg\n" !hdr
         | Some s0 ->
           (match A.accept !mask [s0] (List.map fst its) Model.Datatypes.O with
            | A.Accepted (n, _) ->
              if not !mon_rejected then
                Printf.printf "OK %s states=%d items=%d monitors=%d\n" !hdr (int_of_nat n) (List.length its) !nmon
            | A.Rejected (i, exp) ->
              let i = int_of_nat i in
              let (it, ln) = List.nth its i in
              let what = (match it with
                  | A.IEnv _ | A.IRel _ ->
                    "model expects one of: " ^
                    String.concat " | " (List.map (fun os -> "[" ^ String.concat "; " (List.map show_obs os) ^ "]") exp)
                  | A.IParked _ -> "parked goroutines differ from the model's"
                  | A.ISnap _ -> "bookkeeping snapshot differs from the model's") in
              Printf.printf "REJECT %s item=%d line=%d %s\n" !hdr i ln what))
      | _ -> ());
  print_string "DONE\n"
