(* Runner for the JSON layer glue check (coq/json/Json.v vs encoding/json).
   Input lines:  <kind> <hex input> <observed>   (kinds: see harness/pure/json_glue.go) *)
module J = Model.Json
open Common

let hexlist l = String.concat "," (List.map hexfield_of_bytes l)

let () =
  iter_lines stdin (fun ln l ->
    match split_on '\t' l with
    | [kind; inp; obs] ->
      let s = bytes_of_hexfield inp in
      let exp = match kind with
        | "V" -> if J.valid s then "1" else "0"
        | "R" -> (match J.raw_value s with None -> "E" | Some b -> hexfield_of_bytes b)
        | "A" -> (match J.raw_elements s with
                  | None -> "E"
                  | Some es -> Printf.sprintf "L%d:%s" (List.length es) (hexlist es))
        | "M" -> (match J.raw_members s with
                  | None -> "E"
                  | Some ms ->
                    let ms = J.last_wins ms in
                    let ms = List.map (fun (k, v) -> (string_of_bytes k, v)) ms in
                    let ms = List.sort (fun (a, _) (b, _) -> compare a b) ms in
                    Printf.sprintf "M%d:%s" (List.length ms)
                      (String.concat "," (List.map (fun (k, v) ->
                         (if k = "" then "-" else hex_of_string k) ^ "=" ^ hexfield_of_bytes v) ms)))
        | "S" -> (match J.unmarshal_string s with
                  | None -> "E"
                  | Some None -> "N"
                  | Some (Some b) -> "S" ^ hexfield_of_bytes b)
        | "Q" -> hexfield_of_bytes (J.escape_string s)
        | "C" -> (match J.compact s with None -> "E" | Some b -> hexfield_of_bytes b)
        | "P" -> (match J.compact_plain s with None -> "E" | Some b -> hexfield_of_bytes b)
        | "U" -> if J.valid_utf8 s then "1" else "0"
        | _ -> "BADKIND" in
      report_case ln ~expected:exp ~got:obs
    | _ -> Printf.printf "BADLINE\t%d\n" ln);
  finish ()
