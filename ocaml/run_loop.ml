(* Runner for the Loop model: replays harness logs (harness/conc/loop.go) through
   LoopAccept.accept.  One verdict line per scenario:
     OK <family> <seed> <idx> states=<n> items=<n>
     REJECT <family> <seed> <idx> item=<i> line=<lineno> <what the model expected>
     FUEL <family> <seed> <idx> item=<i> line=<lineno>
     FAULT <family> <seed> <idx> <text>         (harness-side monitors)
   Every scenario - racing ones included, which cannot be replayed (no quiescence between the environment actions) -
   is also judged by the monitors of coq/loop/LoopMonitors.v (proved sound for every run of the model) on its
   environment lines and its observation lines, each in log order:
     REJECT <family> <seed> <idx> monitor <name>                                    *)
open Common
module M = Model.Loop
module A = Model.LoopAccept
module Mon = Model.LoopMonitors

let nat s = nat_of_int (int_of_string s)
let nomatch = M.OCall (nat_of_int 777, nat_of_int 777)   (* an observation the model never produces *)

let status = function
  | "stopped" -> Some M.StStopped | "closed" -> Some M.StClosed | "failed" -> Some M.StFailed | _ -> None

let parse_obs (f : string list) : M.obs =
  match f with
  | ["newsvc"; i] -> M.ONewSvc (nat i)
  | ["assigner"; i; "ok"] -> M.OAssigner (nat i, true)
  | ["assigner"; i; "fail"] -> M.OAssigner (nat i, false)
  | ["call"; k; a] -> (try M.OCall (nat k, nat a) with _ -> nomatch)
  | ["finish"; i; a; st] ->
    (match status st with
     | Some s when int_of_string a >= 0 -> M.OFinish (nat i, nat a, s)
     | _ -> nomatch)
  | ["return"; "nil"] -> M.OReturn M.RNil
  | ["return"; "err"] -> M.OReturn M.RErr
  | _ -> nomatch

(* for the monitors RErr is "Loop returned an error": an error other than the accepter's own is one too (for the
   replay it stays an observation the model never produces) *)
let parse_obs_mon (f : string list) : M.obs =
  match f with
  | ["return"; v] when String.length v >= 6 && String.sub v 0 6 = "other:" -> M.OReturn M.RErr
  | _ -> parse_obs f

let parse_env (f : string list) : M.label =
  match f with
  | ["accept"; k] -> M.Accept (nat k)
  | ["aerr"; "closing"] -> M.AcceptErr M.EClosing
  | ["aerr"; "other"] -> M.AcceptErr M.EOther
  | ["ctxend"] -> M.CtxEnd
  | ["close"; k] -> M.PeerClose (nat k)
  | ["pfail"; k] -> M.PeerFail (nat k)
  | ["call"; k] -> M.CallStart (nat k)
  | ["gate"; k] -> M.CallEnd (nat k)
  | _ -> failwith ("bad env " ^ String.concat " " f)

let show_status = function M.StStopped -> "stopped" | M.StClosed -> "closed" | M.StFailed -> "failed"
let show_obs = function
  | M.ONewSvc i -> Printf.sprintf "newsvc %d" (int_of_nat i)
  | M.OAssigner (i, ok) -> Printf.sprintf "assigner %d %s" (int_of_nat i) (if ok then "ok" else "fail")
  | M.OCall (k, a) -> Printf.sprintf "call %d %d" (int_of_nat k) (int_of_nat a)
  | M.OFinish (i, a, st) -> Printf.sprintf "finish %d %d %s" (int_of_nat i) (int_of_nat a) (show_status st)
  | M.OReturn M.RNil -> "return nil"
  | M.OReturn M.RErr -> "return err"

let show_phase = function
  | M.PAccepted -> "accepted" | M.PHasSvc -> "hassvc" | M.PAssigned -> "assigned" | M.PFailed -> "failed"
  | M.PRunning -> "running" | M.PStopping s -> "stopping:" ^ show_status s | M.PExited s -> "exited:" ^ show_status s | M.PFinished s -> "finished:" ^ show_status s
  | M.PDoneOk s -> "done:" ^ show_status s | M.PDoneFail -> "done:assignerfail"
let show_state (s : M.state) =
  Printf.sprintf "{conns=[%s] wg=%d acc=%s ctx=%b closes=[%s]}"
    (String.concat "," (List.map (fun c -> show_phase c.M.c_phase) s.M.conns))
    (int_of_nat s.M.wg)
    (match s.M.acc with M.Accepting -> "accepting" | M.Waiting M.EClosing -> "waiting(closing)"
                      | M.Waiting M.EOther -> "waiting(other)" | M.Returned M.RNil -> "returned(nil)"
                      | M.Returned M.RErr -> "returned(err)")
    s.M.ctx_done
    (String.concat "," (List.map (fun n -> string_of_int (int_of_nat n)) (A.closes_list s)))

let () =
  let hooks = ref true in
  let hdr = ref "? ? ?" in
  let cur : (string list * int) option ref = ref None in   (* env/rel line awaiting its observations *)
  let obs = ref [] in
  let items = ref [] in
  let faults = ref [] in
  let have_cfg = ref false in
  let envs = ref [] in       (* environment labels of the scenario, reversed (no `env tick`: it is no label) *)
  let allobs = ref [] in     (* observations of the scenario, reversed *)
  let race = ref false in   (* racing scenarios (no quiescence between actions) are judged by the monitors only *)
  let flush_cur () =
    (match !cur with
     | Some (f, ln) ->
       let os = List.rev !obs in
       if f = ["env"; "tick"] then begin
         (* the passage of time alone: no item for the model (it has no clock); anything observed is a fault *)
         if os <> [] then
           faults := ("the passage of time alone (11 s, every goroutine blocked) caused: " ^
                      String.concat "; " (List.map show_obs os)) :: !faults
       end else
       let it = (match f with
           | "env" :: rest -> let lb = parse_env rest in envs := lb :: !envs; A.IEnv (lb, os)
           | ["rel"; "loop.conn"; k] -> A.IRel (M.SConn, Some (nat k), os)
           | ["rel"; "loop.conn"] -> A.IRel (M.SConn, None, os)
           | ["rel"; "loop.finish"] -> A.IRel (M.SFinish, None, os)
           | _ -> failwith "bad cur") in
       items := (it, ln) :: !items
     | None -> ());
    cur := None; obs := [] in
  iter_lines stdin (fun ln l ->
      let f = split_on '\t' l in
      match f with
      | ["cfg"; h] ->
        hooks := (h = "1"); race := (h = "2"); have_cfg := true;
        items := []; faults := []; cur := None; obs := []; envs := []; allobs := []
      | "scenario" :: fam :: seed :: idx :: _ -> hdr := String.concat " " [fam; seed; idx]
      | "env" :: _ | "rel" :: _ -> flush_cur (); cur := Some (f, ln)
      | "o" :: rest -> obs := parse_obs rest :: !obs; allobs := parse_obs_mon rest :: !allobs
      | ["parked"; nc; nf] -> flush_cur (); items := (A.IParked (nat nc, nat nf), ln) :: !items
      | ["final"; ret; closes; _left] ->
        flush_cur ();
        let cl = if closes = "-" then [] else List.map nat (split_on ',' closes) in
        items := (A.IFinal ((ret = "1"), cl), ln) :: !items
      | "fault" :: rest -> faults := String.concat " " rest :: !faults
      | ["end"] ->
        flush_cur ();
        let its = List.rev !items in
        List.iter (fun x -> Printf.printf "FAULT %s %s\n" !hdr x) (List.rev !faults);
        (* the proved monitors, on every scenario.  The environment lines of a log are [env_of tr] without the
           closing errors the accepter produced by itself (LoopMonitors.mon_all_sound covers both).  In a racing log
           the lines of two racing newService calls may be written in the other order (the harness draws the index
           under one lock and writes the line under another): there the order-free form of (c) is evaluated. *)
        let env = Mon.env_of (List.rev !envs) and os = List.rev !allobs in
        let mons =
          [ ("mon_finish_once", Mon.mon_finish_once);
            ("mon_return_last", Mon.mon_return_last);
            (if !race then ("mon_fresh_service_unordered", Mon.mon_fresh_service_unordered)
             else ("mon_fresh_service", Mon.mon_fresh_service));
            ("mon_assigner_call", Mon.mon_assigner_call);
            ("mon_return_served", Model.LoopMonServed.mon_return_served) ] in
        let nmon = ref 0 in
        let mon_rejected = ref false in
        if !have_cfg then
          List.iter (fun (name, m) ->
              incr nmon;
              if not (m env os) then begin
                mon_rejected := true;
                Printf.printf "REJECT %s monitor %s\n" !hdr name
              end) mons;
        if not !have_cfg then Printf.printf "BADLOG %s no cfg\n" !hdr
        else if !race then begin
          (* racing mode has no windows: the log is judged by the monitors only *)
          if not !mon_rejected then Printf.printf "OK %s skipped racing-log (monitors only) monitors=%d\n" !hdr !nmon
        end else begin
          match A.accept !hooks [M.init true] (List.map fst its) Model.Datatypes.O with
          | A.Accepted (n, _) ->
            if not !mon_rejected then
              Printf.printf "OK %s states=%d items=%d monitors=%d\n" !hdr (int_of_nat n) (List.length its) !nmon
          | A.OutOfFuel i ->
            let i = int_of_nat i in
            Printf.printf "FUEL %s item=%d line=%d\n" !hdr i (snd (List.nth its i))
          | A.Rejected (i, exp, ss) ->
            let i = int_of_nat i in
            let (it, ln) = List.nth its i in
            let rec take n = function [] -> [] | x :: r -> if n = 0 then [] else x :: take (n - 1) r in
            let st = match ss with s :: _ -> " in model state " ^ show_state s | [] -> "" in
            let what = (match it with
                | A.IEnv _ | A.IRel _ ->
                  "model expects one of: " ^
                  String.concat " | " (List.map (fun os -> "[" ^ String.concat "; " (List.map show_obs os) ^ "]") (take 6 exp))
                | A.IParked _ -> "goroutines parked at loop.conn/loop.finish differ from the model's"
                | A.IFinal _ -> "final state (Loop returned, per-connection close counts, quiescence) differs from the model's") in
            Printf.printf "REJECT %s item=%d line=%d %s%s\n" !hdr i ln what st
        end;
        have_cfg := false
      | _ -> ());
  print_string "DONE\n"
