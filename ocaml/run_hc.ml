(* Runner for the HTTP client channel model (C19, stateful part): replays harness
   logs (harness/conc/hc.go) through HcAccept.accept over HttpChan.step.
   One verdict line per scenario:
     OK <family> <seed> <idx> windows=<n> states=<n>
     REJECT <family> <seed> <idx> window=<i> line=<lineno> stage=<env|outs|snap> <model states before>
   argv[1] = "nofix11": run the model with the F11 switch off (failing-input search). *)
open Common
module H = Model.HttpChan
module A = Model.HcAccept

let nat s = nat_of_int (int_of_string s)

let dores s = if s = "err" then H.DoErr else H.DoStatus (z_of_int (int_of_string s))

let parse_out (f : string list) : A.ev option =
  match f with
  | ["recv"; "eof"] -> Some A.VRecvEOF
  | ["recv"; j; "data"] -> Some (A.VRecv (nat j, H.RecvData))
  | ["recv"; j; "badstatus"] -> Some (A.VRecv (nat j, H.RecvBadStatus))
  | ["recv"; j; "doerr"] -> Some (A.VRecv (nat j, H.RecvDoErr))
  | ["closeret"] -> Some A.VCloseRet
  | _ -> None

let parse_env (f : string list) : A.ev option option =
  match f with
  | ["send"; "ok"] -> Some (Some (A.VSend true))
  | ["send"; "closed"] -> Some (Some (A.VSend false))
  | ["do"; j; r] -> Some (Some (A.VDo (nat j, dores r)))
  | ["close"] -> Some (Some A.VClose)
  | ["recv"] -> Some None
  | _ -> None

let show_g = function
  | H.Doing -> "Doing"
  | H.Holding _ -> "Holding"
  | H.Done (_, H.DAck) -> "Done/ack"
  | H.Done (_, H.DRecv) -> "Done/recv"
  | H.Done (_, H.DDrained) -> "Done/drained"
let show_phase = function H.COpen -> "open" | H.CDraining -> "draining" | H.CRspClosed -> "rspclosed" | H.CReturned -> "returned"
let show_state (s : H.state) =
  Printf.sprintf "{%s [%s] opened=%d closed=%d wg=%d}" (show_phase s.H.phase)
    (String.concat "," (List.map show_g s.H.gs)) (int_of_nat s.H.opened) (int_of_nat s.H.closedb) (int_of_nat s.H.wg)

type win = { env : A.ev option; mutable outs : A.ev list; mutable snap : (int * int) option; lineno : int; mutable bad : string option }

let () =
  let f11 = not (Array.length Sys.argv > 1 && Sys.argv.(1) = "nofix11") in
  let cur_hdr = ref None in
  let wins = ref [] in
  let nsend = ref 0 in
  let finish_scenario () =
    (match !cur_hdr with
     | None -> ()
     | Some (fam, seed, idx) ->
       let ws = List.rev !wins in
       let bad = List.find_opt (fun w -> w.bad <> None || w.snap = None) ws in
       (match bad with
        | Some w when w.bad <> None ->
          Printf.printf "REJECT %s %s %s window=? line=%d stage=parse unparsable: %s\n" fam seed idx w.lineno
            (match w.bad with Some b -> b | None -> "")
        | _ ->
          (* a trailing window without a snapshot belongs to a scenario that crashed: judge the complete ones *)
          let ws = List.filter (fun w -> w.snap <> None) ws in
          let cws = List.map (fun w ->
              let (o, c) = match w.snap with Some x -> x | None -> (0, 0) in
              { A.w_env = w.env; A.w_outs = List.rev w.outs; A.w_opened = nat_of_int o; A.w_closed = nat_of_int c }) ws in
          (match A.accept f11 (nat_of_int (!nsend + 3)) cws with
           | A.Accepted fin ->
             Printf.printf "OK %s %s %s windows=%d states=%d noleak=%b\n" fam seed idx (List.length ws) (List.length fin)
               (A.all_no_leak fin)
           | A.Rejected (i, st, before) ->
             let i = int_of_nat i in
             let w = List.nth ws i in
             Printf.printf "REJECT %s %s %s window=%d line=%d stage=%s model states before: %s\n" fam seed idx i w.lineno
               (match st with A.StEnv -> "env" | A.StOuts -> "outs" | A.StSnap -> "snap")
               (String.concat " | " (List.map show_state before)))));
    cur_hdr := None; wins := []; nsend := 0 in
  iter_lines stdin (fun ln l ->
    match split_on '\t' l with
    | "scenario" :: fam :: seed :: idx :: _ -> finish_scenario (); cur_hdr := Some (fam, seed, idx)
    | "env" :: rest ->
      (match parse_env rest with
       | Some e ->
         (match e with Some (A.VSend true) -> incr nsend | _ -> ());
         wins := { env = e; outs = []; snap = None; lineno = ln; bad = None } :: !wins
       | None -> wins := { env = None; outs = []; snap = None; lineno = ln; bad = Some l } :: !wins)
    | "o" :: rest ->
      (match !wins, parse_out rest with
       | w :: _, Some e -> w.outs <- e :: w.outs
       | w :: _, None -> w.bad <- Some l
       | [], _ -> ())
    | ["snap"; o; c] ->
      (match !wins with w :: _ -> w.snap <- Some (int_of_string o, int_of_string c) | [] -> ())
    | _ -> ());
  finish_scenario ();
  print_string "DONE\n"
