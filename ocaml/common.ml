(* Glue shared by the model runners: conversions between OCaml values and the
   extracted Coq datatypes, hex codecs, line handling.  No model logic here. *)

open Model.BinNums
open Model.Datatypes

let rec pos_of_int i =
  if i = 1 then Coq_xH
  else if i land 1 = 0 then Coq_xO (pos_of_int (i lsr 1))
  else Coq_xI (pos_of_int (i lsr 1))
let n_of_int i = if i = 0 then N0 else Npos (pos_of_int i)
let rec int_of_pos = function
  | Coq_xH -> 1
  | Coq_xO p -> 2 * int_of_pos p
  | Coq_xI p -> 2 * int_of_pos p + 1
let int_of_n = function N0 -> 0 | Npos p -> int_of_pos p
let z_of_int i = if i = 0 then Z0 else if i > 0 then Zpos (pos_of_int i) else Zneg (pos_of_int (-i))
let int_of_z = function Z0 -> 0 | Zpos p -> int_of_pos p | Zneg p -> - (int_of_pos p)
let rec nat_of_int i = if i <= 0 then O else S (nat_of_int (i - 1))
let rec int_of_nat = function O -> 0 | S n -> 1 + int_of_nat n

(* decimal strings of arbitrary size <-> Z (for values beyond OCaml's int) *)
let rec pos_succ = function
  | Coq_xH -> Coq_xO Coq_xH
  | Coq_xO p -> Coq_xI p
  | Coq_xI p -> Coq_xO (pos_succ p)

let byte_tab = Array.init 256 n_of_int
let bytes_of_string (s : string) : coq_N list =
  List.init (String.length s) (fun i -> byte_tab.(Char.code s.[i]))
let string_of_bytes (l : coq_N list) : string =
  let b = Buffer.create 64 in
  List.iter (fun n -> Buffer.add_char b (Char.chr ((int_of_n n) land 255))) l;
  Buffer.contents b

let hexdig c = match c with
  | '0'..'9' -> Char.code c - 48
  | 'a'..'f' -> Char.code c - 87
  | 'A'..'F' -> Char.code c - 55
  | _ -> failwith "bad hex"
let string_of_hex (h : string) : string =
  let n = String.length h / 2 in
  String.init n (fun i -> Char.chr (hexdig h.[2*i] * 16 + hexdig h.[2*i+1]))
let hex_of_string (s : string) : string =
  let b = Buffer.create (2 * String.length s) in
  String.iter (fun c -> Buffer.add_string b (Printf.sprintf "%02x" (Char.code c))) s;
  Buffer.contents b
(* "-" encodes the empty string so that fields are never empty *)
let bytes_of_hexfield (h : string) = if h = "-" then [] else bytes_of_string (string_of_hex h)
let hexfield_of_bytes (l : coq_N list) = if l = [] then "-" else hex_of_string (string_of_bytes l)

let split_on c s = String.split_on_char c s

let iter_lines ic f =
  let ln = ref 0 in
  (try while true do
     let l = input_line ic in
     incr ln; f !ln l
   done with End_of_file -> ())

(* Standard reporting: every runner prints MISMATCH lines and one DONE line. *)
let total = ref 0
let mism = ref 0
let report_case ln ~expected ~got =
  incr total;
  if expected <> got then begin
    incr mism;
    if !mism <= 50 then Printf.printf "MISMATCH\t%d\t%s\t%s\n" ln expected got
  end
let finish () = Printf.printf "DONE\ttotal=%d\tmismatches=%d\n" !total !mism
