(* Runner for the handler-adapter model (C15, C16): coq/hand/Handler.v.
   Line formats: see harness/pure/c15.go and c16.go.  The encoding/json oracle
   (decode / zero / decode_elt / decode_into / encode) is NOT computed here: its
   answers arrive as data in the case line; a question the line does not answer
   makes the expected value ORACLEMISS (the harness and the model then disagree on
   WHAT is decoded, which is a disagreement like any other). *)
module H = Model.Handler
open Common

exception Miss of string

(* ---- type descriptors ---- *)
let parse_ty_at (s : string) (pos : int ref) : H.ty =
  let peek () = s.[!pos] in
  let adv () = incr pos in
  let until stops =
    let st = !pos in
    while not (String.contains stops (peek ())) do adv () done;
    String.sub s st (!pos - st) in
  let num stop = let t = until (String.make 1 stop) in adv (); int_of_string t in
  let rec ty () =
    let k = peek () in
    adv ();
    match k with
    | 'b' -> H.TScalar H.KBool
    | 'i' -> H.TScalar H.KInt
    | 'f' -> H.TScalar H.KFloat
    | 's' -> H.TScalar H.KString
    | 'a' -> H.TAny
    | 'e' -> H.TError
    | 'c' -> H.TCtx
    | 'q' -> H.TRequest
    | 'o' -> let n = num '.' in H.TOpaque (nat_of_int n)
    | 'L' -> H.TSlice (ty ())
    | 'M' -> H.TMap (ty ())
    | 'P' -> H.TPtr (ty ())
    | 'Y' -> let n = num '.' in let e = ty () in H.TArray (nat_of_int n, e)
    | 'S' ->
      adv ();
      let fs = ref [] in
      while peek () <> '}' do
        let name = bytes_of_hexfield (until ":") in adv ();
        let tg = until ":" in adv ();
        let tag = if tg = "~" then None else Some (bytes_of_hexfield tg) in
        let fl = until ":" in adv ();
        let t = ty () in adv ();
        fs := ({ H.f_name = name; H.f_tag = tag; H.f_exported = String.contains fl 'x';
                 H.f_embedded = String.contains fl 'm' }, t) :: !fs
      done;
      adv ();
      H.TStruct (List.rev !fs)
    | 'N' ->
      let r = peek () in adv ();
      let _ = num '(' in
      let u = ty () in adv ();
      H.TNamed ((match r with 'v' -> H.RValue | 'p' -> H.RPointer | _ -> H.RNone), u)
    | _ -> failwith ("bad type descriptor " ^ s)
  in
  ty ()

let parse_ty s = parse_ty_at s (ref 0)

let parse_fn (s : string) : H.fnval =
  if s = "NIL" then H.FNil
  else if s.[0] = 'V' then H.FNotFunc (parse_ty (String.sub s 1 (String.length s - 1)))
  else begin
    let pos = ref 1 in
    let variadic = s.[!pos] = '1' in
    incr pos;
    let tys () =
      incr pos; (* ( *)
      let l = ref [] in
      while s.[!pos] <> ')' do
        l := parse_ty_at s pos :: !l;
        incr pos (* , *)
      done;
      incr pos;
      List.rev !l in
    let ins = tys () in
    let outs = tys () in
    H.FFunc (ins, variadic, outs)
  end

(* ---- params views ---- *)
let parse_view (s : string) : H.pvalue =
  if s = "A" then H.PAbsent
  else if s = "N" then H.PNull
  else begin
    let body = String.sub s 2 (String.length s - 2) in
    match s.[0] with
    | 'R' -> H.PArray (if body = "" then [] else List.map bytes_of_hexfield (split_on ',' body))
    | 'O' ->
      H.PObject (if body = "" then [] else
        List.map (fun kv -> match split_on '=' kv with
            | [k; e] -> (bytes_of_hexfield k, bytes_of_hexfield e)
            | _ -> failwith "bad object view") (split_on ',' body))
    | 'S' -> H.PScalar (bytes_of_hexfield body)
    | 'M' -> H.PMalformed (bytes_of_hexfield body)
    | _ -> failwith ("bad view " ^ s)
  end

let show_view : H.pvalue -> string = function
  | H.PAbsent -> "A"
  | H.PNull -> "N"
  | H.PArray es -> "R:" ^ String.concat "," (List.map hexfield_of_bytes es)
  | H.PObject kvs ->
    "O:" ^ String.concat "," (List.map (fun (k, e) -> hexfield_of_bytes k ^ "=" ^ hexfield_of_bytes e) kvs)
  | H.PScalar t -> "S:" ^ hexfield_of_bytes t
  | H.PMalformed t -> "M:" ^ hexfield_of_bytes t

let enc (v : H.value) = match v with H.Val (e, _) -> e
let fields (v : H.value) = match v with H.Val (_, fs) -> fs

(* "-" | v:<enc> | v:<enc>:<f1>,<f2>... *)
let parse_ans (s : string) : H.value option =
  if s = "-" then None
  else match split_on ':' s with
    | ["v"; e] -> Some (H.Val (bytes_of_hexfield e, []))
    | ["v"; e; fs] ->
      let fl = if fs = "" then [] else List.map (fun f -> H.Val (bytes_of_hexfield f, [])) (split_on ',' fs) in
      Some (H.Val (bytes_of_hexfield e, fl))
    | _ -> failwith ("bad answer " ^ s)

let show_vals (vs : H.value list) = String.concat "," (List.map (fun v -> hexfield_of_bytes (enc v)) vs)

(* ---- the oracle tables of a W / P line ---- *)
type otab = {
  mutable zero : H.value option;
  mutable dec : ((bool * string) * H.value option) list;
  mutable elt : ((H.ty * string) * H.value option) list;
  mutable zelt : (H.ty * H.value) list;
}

let parse_oracle (s : string) : otab =
  let t = { zero = None; dec = []; elt = []; zelt = [] } in
  if s <> "-" then
    List.iter (fun ent ->
        match split_on '|' ent with
        | ["z"; a] -> t.zero <- parse_ans a
        | ["d"; st; v; a] -> t.dec <- ((st = "1", v), parse_ans a) :: t.dec
        | ["e"; ty; e; a] -> t.elt <- ((parse_ty ty, e), parse_ans a) :: t.elt
        | ["y"; ty; a] ->
          (match parse_ans a with Some v -> t.zelt <- (parse_ty ty, v) :: t.zelt | None -> ())
        | _ -> failwith ("bad oracle entry " ^ ent)) (split_on '&' s);
  t

let decode_of (t : otab) = fun (_ : H.ty) (strict : bool) (p : H.pvalue) ->
  let key = (strict, show_view p) in
  match List.assoc_opt key t.dec with
  | Some a -> a
  | None -> raise (Miss ("decode " ^ (if strict then "strict " else "plain ") ^ snd key))
let zero_of (t : otab) = fun (_ : H.ty) ->
  match t.zero with Some v -> v | None -> raise (Miss "zero")
let decode_elt_of (t : otab) = fun (ty : H.ty) e ->
  match List.assoc_opt (ty, hexfield_of_bytes e) t.elt with
  | Some a -> a
  | None -> raise (Miss ("element " ^ hexfield_of_bytes e))
let zero_elt_of (t : otab) = fun (ty : H.ty) ->
  match List.assoc_opt ty t.zelt with Some v -> v | None -> raise (Miss "zero element")

(* ---- expected observations ---- *)
let err_class : H.check_err -> string = function
  | H.ENilFunction -> "nil"
  | H.ENotFunction -> "notfunc"
  | H.EWrongNumParams -> "nparams"
  | H.EFirstNotContext -> "ctx"
  | H.EVariadic -> "variadic"
  | H.EWrongNumResults -> "nresults"
  | H.EResultNotError -> "noterror"
  | H.ENameCount (g, w) -> Printf.sprintf "names:%d:%d" (int_of_nat g) (int_of_nat w)

let ret_string fi ret =
  match H.decode_out fi () (if ret = "1" then Some () else None) with
  | H.HNil -> "nil|none"
  | H.HResult _ -> "Y|none"
  | H.HError _ -> "nil|same"
  | H.HBoth (_, _) -> "Y|same"

let outcome_string fi ret = function
  | H.OCall args -> "C1:" ^ show_vals args ^ "|" ^ ret_string fi ret
  | H.OCallRequest -> "C1:REQ|" ^ ret_string fi ret
  | H.OInvalidParams | H.ONoParamsAccepted -> "I"

let apply_opts (opts : string) fi =
  let fi = match opts.[1] with 't' -> H.allow_array true fi | 'f' -> H.allow_array false fi | _ -> fi in
  match opts.[0] with 't' -> H.set_strict true fi | 'f' -> H.set_strict false fi | _ -> fi

let b01 b = if b then "1" else "0"

let names_of_field (s : string) = if s = "." then [] else List.map bytes_of_hexfield (split_on ',' s)

(* ---- Args / Obj targets ---- *)
let split_last c s =
  let i = String.rindex s c in
  (String.sub s 0 i, String.sub s (i + 1) (String.length s - i - 1))

let parse_slot (s : string) : (H.ty * H.value) option =
  if s = "-" then None
  else let (t, cur) = split_last '~' s in Some (parse_ty t, H.Val (bytes_of_hexfield cur, []))

let parse_targets (s : string) = if s = "." then [] else List.map parse_slot (split_on ',' s)
let parse_keyed (s : string) =
  if s = "." then [] else
    List.map (fun f -> let i = String.index f '=' in
               (bytes_of_hexfield (String.sub f 0 i), parse_slot (String.sub f (i + 1) (String.length f - i - 1))))
      (split_on ',' s)

let show_slot = function None -> "nil" | Some (_, v) -> hexfield_of_bytes (enc v)
let show_slots l = if l = [] then "." else String.concat "," (List.map show_slot l)
let show_keyed l =
  if l = [] then "." else String.concat "," (List.map (fun (k, s) -> hexfield_of_bytes k ^ "=" ^ show_slot s) l)

type itab = {
  mutable into : ((H.ty * string * string) * (bool * H.value)) list;
  mutable mar : ((H.ty * string) * Model.BinNums.coq_N list option) list;
}
let parse_itab (s : string) : itab =
  let t = { into = []; mar = [] } in
  if s <> "-" then
    List.iter (fun ent ->
        match split_on '|' ent with
        | ["i"; ty; cur; e; ok; nw] ->
          t.into <- ((parse_ty ty, cur, e), (ok = "1", H.Val (bytes_of_hexfield nw, []))) :: t.into
        | ["m"; ty; cur; e] ->
          t.mar <- ((parse_ty ty, cur), (if e = "-" then None else Some (bytes_of_hexfield e))) :: t.mar
        | _ -> failwith ("bad oracle entry " ^ ent)) (split_on '&' s);
  t
let decode_into_of (t : itab) = fun (ty : H.ty) (cur : H.value) e ->
  match List.assoc_opt (ty, hexfield_of_bytes (enc cur), hexfield_of_bytes e) t.into with
  | Some a -> a
  | None -> raise (Miss ("decode_into " ^ hexfield_of_bytes e))
let encode_of (t : itab) = fun (ty : H.ty) (v : H.value) ->
  match List.assoc_opt (ty, hexfield_of_bytes (enc v)) t.mar with
  | Some a -> a
  | None -> raise (Miss "encode")

let guard ln got f =
  let expected = try f () with Miss q -> "ORACLEMISS:" ^ q in
  report_case ln ~expected ~got

(* concurrent cases: k params texts served by one handler value; the model answers them with
   `serve` (each by itself) and the observed SET of outcomes per text has to be that one answer *)
let merged_tables (oracles : string list) : otab =
  let t = { zero = None; dec = []; elt = []; zelt = [] } in
  List.iter (fun o ->
      let u = parse_oracle o in
      (match u.zero with Some z -> t.zero <- Some z | None -> ());
      t.dec <- u.dec @ t.dec; t.elt <- u.elt @ t.elt; t.zelt <- u.zelt @ t.zelt) oracles;
  t

let conc_expected fi ret views oracles =
  let t = merged_tables (split_on '!' oracles) in
  let ps = List.map parse_view (split_on '!' views) in
  String.concat "!" (List.map (outcome_string fi ret) (H.serve (decode_of t) (zero_of t) fi ps))

let rec handle ln (flds : string list) =
    match flds with
    | "Ws" :: _gid :: rest -> handle ln ("W" :: rest)
    | "Ps" :: _gid :: rest -> handle ln ("P" :: rest)
    | ["Wc"; fn; opts; ret; _g; _iters; _procs; _raws; views; oracles; obs] ->
      guard ln obs (fun () ->
        match H.check (parse_fn fn) with
        | H.Err e -> "err:" ^ err_class e
        | H.Ok fi0 -> conc_expected (apply_opts opts fi0) ret views oracles)
    | ["Pc"; fn; names; opts; ret; _g; _iters; _procs; _raws; views; oracles; obs] ->
      guard ln obs (fun () ->
        match H.positional (parse_fn fn) (names_of_field names) with
        | H.Err e -> "err:" ^ err_class e
        | H.Ok fi0 -> conc_expected (apply_opts opts fi0) ret views oracles)
    | ["K"; fn; obs] ->
      guard ln obs (fun () ->
        match H.check (parse_fn fn) with
        | H.Err e -> "err:" ^ err_class e
        | H.Ok fi -> "ok:" ^ b01 (fi.H.fi_arg <> None) ^ ":" ^ b01 (fi.H.fi_result <> None) ^ ":" ^ b01 fi.H.fi_reports_error)
    | ["W"; fn; opts; ret; _raw; view; oracle; obs] ->
      guard ln obs (fun () ->
        match H.check (parse_fn fn) with
        | H.Err e -> "err:" ^ err_class e
        | H.Ok fi0 ->
          let fi = apply_opts opts fi0 in
          let t = parse_oracle oracle in
          outcome_string fi ret (H.wrap (decode_of t) (zero_of t) fi (parse_view view)))
    | ["P"; fn; names; opts; ret; _raw; view; oracle; obs] ->
      let fnv = parse_fn fn in
      let ns = names_of_field names in
      let t = parse_oracle oracle in
      guard ln obs (fun () ->
        match H.positional fnv ns with
        | H.Err e -> "err:" ^ err_class e
        | H.Ok fi0 ->
          let fi = apply_opts opts fi0 in
          outcome_string fi ret (H.wrap (decode_of t) (zero_of t) fi (parse_view view)));
      (* the contract assumed of encoding/json by c16_positional_accepts_exactly, validated on
         every strict struct-level answer of this line *)
      (match fnv with
       | H.FFunc (H.TCtx :: xs, false, _) when xs <> [] && List.length xs = List.length ns && H.usable_names ns ->
         List.iter (fun ((strict, v), ans) ->
             let p = parse_view v in
             let wf = (match p with H.PNull | H.PObject _ | H.PScalar _ -> true | _ -> false) in
             if strict && wf && H.plain_params ns p then
               guard ln (match ans with None -> "None" | Some a -> "Some:" ^ show_vals (fields a)) (fun () ->
                 match H.json_struct_spec (decode_elt_of t) (zero_elt_of t) ns xs p with
                 | None -> "None"
                 | Some vs -> "Some:" ^ show_vals vs)) t.dec
       | _ -> ())
    | ["A"; mode; targets; _raw; view; oracle; obs] ->
      guard ln obs (fun () ->
        let t = parse_itab oracle in
        let a = parse_targets targets in
        let p = parse_view view in
        let (ok, a') =
          if mode = "p" then H.args_unmarshal_params (decode_into_of t) a p
          else H.args_unmarshal (decode_into_of t) a p in
        b01 ok ^ "|" ^ show_slots a')
    | ["a"; targets; oracle; obs] ->
      guard ln obs (fun () ->
        let t = parse_itab oracle in
        match H.args_marshal (encode_of t) (parse_targets targets) with
        | None -> "err"
        | Some p -> show_view p)
    | ["O"; _mode; targets; _raw; view; oracle; obs] ->
      guard ln obs (fun () ->
        let t = parse_itab oracle in
        let o = parse_keyed targets in
        let p = parse_view view in
        let ord = List.map fst o in
        let (ok, o') = H.obj_unmarshal (decode_into_of t) ord o p in
        if ok then "1|" ^ show_keyed o'
        else begin
          (* a failed call: which targets are already written depends on Go's map order;
             the observed state has to be one of the admissible ones *)
          match split_on '|' obs with
          | ["0"; st] ->
            let seen = (try
              List.map2 (fun (k, s) f ->
                  let i = String.index f '=' in
                  let v = String.sub f (i + 1) (String.length f - i - 1) in
                  (bytes_of_hexfield (String.sub f 0 i),
                   (match s with None -> None | Some (ty, _) ->
                      if v = "nil" then None else Some (ty, H.Val (bytes_of_hexfield v, [])))))
                o (if st = "." then [] else split_on ',' st)
              with Invalid_argument _ -> []) in
            if List.length seen = List.length o && H.obj_failure_admissible (decode_into_of t) o p seen
            then obs else "0|" ^ show_keyed o' ^ "|or-another-admissible-state"
          | _ -> "0|" ^ show_keyed o'
        end)
    | _ -> Printf.printf "BADLINE\t%d\n" ln

let () =
  iter_lines stdin (fun ln l -> handle ln (split_on '\t' l));
  finish ()
