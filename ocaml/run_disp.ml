(* Runner for the dispatch model (C17).
   Input lines (tab separated):
     A <builtin 0|1> <tree> <hexname> <observed>     observed: H<id> | B | N
     Q <builtin 0|1> <tree> <hexname,hexname,...> <observed>   one batch of calls: outcome per member, in order
     M <tree> <observed>                              observed: names "hex,hex,..." | "none" | "empty"
     I <tree> <observed>                              observed: methods listed by rpc.serverInfo
   tree ::= m[ hexname=id ; ... ] | o[ ... ] | s[ hexname:tree ; ... ]   *)
module Dispatch = Model.Dispatch
open Common

let parse_tree (s : string) : Dispatch.assigner =
  let pos = ref 0 in
  let peek () = s.[!pos] in
  let adv () = incr pos in
  let rec name () =
    let st = !pos in
    while (match peek () with '=' | ':' -> false | _ -> true) do adv () done;
    bytes_of_hexfield (String.sub s st (!pos - st))
  and num () =
    let st = !pos in
    while (match peek () with '0'..'9' -> true | _ -> false) do adv () done;
    int_of_string (String.sub s st (!pos - st))
  and tree () =
    let k = peek () in
    adv (); (* kind *)
    adv (); (* [ *)
    match k with
    | 'm' | 'o' ->
      let es = ref [] in
      while peek () <> ']' do
        let n = name () in adv ();
        let h = num () in adv ();  (* ; *)
        es := (n, nat_of_int h) :: !es
      done;
      adv ();
      if k = 'm' then Dispatch.AMap (List.rev !es) else Dispatch.AOpaque (List.rev !es)
    | 's' ->
      let es = ref [] in
      while peek () <> ']' do
        let n = name () in adv ();
        let t = tree () in adv ();
        es := (n, t) :: !es
      done;
      adv ();
      Dispatch.ASvc (List.rev !es)
    | _ -> failwith "bad tree"
  in
  tree ()

let show_names = function
  | [] -> "empty"
  | ns -> String.concat "," (List.map hexfield_of_bytes ns)

let () =
  iter_lines stdin (fun ln l ->
    match split_on '\t' l with
    | ["A"; b; t; n; obs] ->
      let exp = match Dispatch.server_assign (b = "1") (parse_tree t) (bytes_of_hexfield n) with
        | None -> "N"
        | Some Dispatch.TBuiltinInfo -> "B"
        | Some (Dispatch.TUser h) -> Printf.sprintf "H%d" (int_of_nat h) in
      report_case ln ~expected:exp ~got:obs
    | ["Q"; b; t; ns; obs] ->
      let tree = parse_tree t in
      let one n = match Dispatch.server_assign (b = "1") tree (bytes_of_hexfield n) with
        | None -> "N"
        | Some Dispatch.TBuiltinInfo -> "B"
        | Some (Dispatch.TUser h) -> Printf.sprintf "H%d" (int_of_nat h) in
      report_case ln ~expected:(String.concat "," (List.map one (split_on ',' ns))) ~got:obs
    | ["R"; b; t; n; _lit; obs] ->
      (* the method was sent as the JSON literal _lit, which decodes to n (decoded by the harness with
         encoding/json): dispatch is that of the decoded name *)
      let exp = match Dispatch.server_assign (b = "1") (parse_tree t) (bytes_of_hexfield n) with
        | None -> "N"
        | Some Dispatch.TBuiltinInfo -> "B"
        | Some (Dispatch.TUser h) -> Printf.sprintf "H%d" (int_of_nat h) in
      report_case ln ~expected:exp ~got:obs
    | ["J"; t; n; obs] ->
      (* rpc.serverInfo before and after a method is added to the (Map) assigner *)
      let tree = parse_tree t in
      let added = (match tree with
        | Dispatch.AMap es ->
          let nb = bytes_of_hexfield n in
          if List.exists (fun (k, _) -> k = nb) es then Dispatch.AMap es else Dispatch.AMap (es @ [(nb, nat_of_int 999)])
        | x -> x) in
      report_case ln ~expected:(show_names (Dispatch.info_methods tree) ^ "|" ^ show_names (Dispatch.info_methods added)) ~got:obs
    | ["M"; t; obs] ->
      let exp = match Dispatch.names (parse_tree t) with
        | None -> "none"
        | Some ns -> show_names ns in
      report_case ln ~expected:exp ~got:obs
    | ["I"; t; obs] ->
      report_case ln ~expected:(show_names (Dispatch.info_methods (parse_tree t))) ~got:obs
    | _ -> Printf.printf "BADLINE\t%d\n" ln);
  finish ()
