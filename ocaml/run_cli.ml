(* Runner for the client model: replays harness logs (harness/conc/cli.go) through
   CliAccept.accept.  One verdict line per scenario:
     OK <family> <seed> <idx> states=<n> items=<n>
     REJECT <family> <seed> <idx> item=<i> line=<lineno> <what the model expected>
     REJECT <family> <seed> <idx> monitor <name>  (a proved monitor of cli/CliMonitors.v is false on the log's
                                                   environment labels and observations; evaluated on EVERY
                                                   scenario, racing ones included)
     FAULT <family> <seed> <idx> <text>         (harness-side monitors)            *)
open Common
module M = Model.CliModel
module A = Model.CliAccept
module Mon = Model.CliMonitors
module Msg = Model.Msg

let hx = bytes_of_hexfield
let hb = hexfield_of_bytes
let b01 s = (s = "1")
let z_of_string s = z_of_int (int_of_string s)
let nat s = nat_of_int (int_of_string s)

let perr x =
  if x = "-" then None else
    (match split_on ':' x with
     | [c; m; d] -> Some { Msg.we_code = z_of_string c; Msg.we_msg = hx m; Msg.we_data = hx d }
     | _ -> failwith ("bad err " ^ x))

let parse_member (s : string) : Msg.jmsg =
  match split_on ',' s with
  | [id; meth; params; e; result; err] ->
    { Msg.j_id = hx id; j_method = hx meth; j_params = hx params; j_error = perr e; j_result = hx result; j_err = perr err }
  | _ -> failwith ("bad member " ^ s)

let cause = function
  | "closed" -> M.SCClosed | "eof" -> M.SCEOF | "closing" -> M.SCClosing | "other" -> M.SCOther | "invalid" -> M.SCInvalid
  | s -> failwith ("bad cause " ^ s)
let cause_name = function
  | M.SCClosed -> "closed" | M.SCEOF -> "eof" | M.SCClosing -> "closing" | M.SCOther -> "other" | M.SCInvalid -> "invalid"

let parse_spec (s : string) : M.spec =
  match split_on ',' s with
  | [m; p; n; b] -> { M.sp_method = hx m; sp_params = hx p; sp_notify = b01 n; sp_bad = b01 b }
  | _ -> failwith ("bad spec " ^ s)

let parse_res1 (f : string list) : M.res1 =
  match f with
  | ["R"; raw] -> M.RRes (hx raw)
  | ["E"; c; m; d] -> M.RErr { Msg.we_code = z_of_string c; Msg.we_msg = hx m; Msg.we_data = hx d }
  | ["ctx"; "cancel"] -> M.RCtx M.WCancel
  | ["ctx"; "deadline"] -> M.RCtx M.WDeadline
  | _ -> failwith "bad res1"

exception Unparsable

let parse_ret (f : string list) : M.ret =
  match f with
  | ["fail"; "badparams"] -> M.RetFail M.EBadParams
  | ["fail"; "emptybatch"] -> M.RetFail M.EEmptyBatch
  | ["fail"; "sendfail"] -> M.RetFail M.ESendFail
  | ["fail"; s] when String.length s > 8 && String.sub s 0 8 = "stopped:" ->
    (try M.RetFail (M.EStopped (cause (String.sub s 8 (String.length s - 8)))) with Failure _ -> raise Unparsable)
  | ["call"; r] -> M.RetCall (parse_res1 (split_on ',' r))
  | ["batch"; "-"] -> M.RetBatch []
  | ["batch"; rs] ->
    M.RetBatch (List.map (fun x -> match split_on ',' x with
        | id :: rest -> (hx id, parse_res1 rest)
        | _ -> failwith "bad batch entry") (split_on ';' rs))
  | ["notify"] -> M.RetNotify
  | ["close"; "none"] -> M.RetClose None
  | ["close"; c] -> (try M.RetClose (Some (cause c)) with Failure _ -> raise Unparsable)
  | _ -> raise Unparsable

let parse_obs (f : string list) : M.obs =
  try
    match f with
    | ["sendreq"; ok; batch; ms] ->
      M.OSendReq (b01 ok, b01 batch, List.map (fun x -> match split_on ',' x with
          | [i; m; p] -> ((hx i, hx m), hx p)
          | _ -> failwith "bad req member") (split_on ';' ms))
    | ["sendrsp"; ok; id; body] ->
      (match split_on ',' body with
       | ["R"; raw] -> M.OSendRsp (b01 ok, hx id, M.CbRes (hx raw))
       | ["E"; c; m] -> M.OSendRsp (b01 ok, hx id, M.CbErr (z_of_string c, hx m))
       | _ -> failwith "bad sendrsp")
    | ["close"] -> M.OClose
    | "ret" :: n :: rest -> M.ORet (nat n, parse_ret rest)
    | ["oncancel"; id; "-"] -> M.OOnCancel (hx id, None)
    | ["oncancel"; id; e] ->
      (match split_on ',' e with
       | ["E"; c; m; d] -> M.OOnCancel (hx id, Some { Msg.we_code = z_of_string c; Msg.we_msg = hx m; Msg.we_data = hx d })
       | _ -> failwith "bad oncancel")
    | ["onstop"; c] -> M.OOnStop (cause c)
    | ["onnotify"; m; p] -> M.OOnNotify (hx m, hx p)
    | ["cbstart"; i; m; p] -> M.OCbStart (hx i, hx m, hx p)
    | _ -> M.OCrash M.CrNoSlot
  with _ -> M.OCrash M.CrNoSlot   (* anything unparsable matches nothing the model produces *)

let why = function "cancel" -> M.WCancel | "deadline" -> M.WDeadline | s -> failwith ("bad why " ^ s)

let parse_env (f : string list) : M.label =
  match f with
  | ["op"; n; "close"; _] -> M.LOp (nat n, M.KClose, [])
  | ["op"; n; k; specs] ->
    let kind = (match k with "call" -> M.KCall | "batch" -> M.KBatch | "notify" -> M.KNotify | _ -> failwith "bad kind") in
    M.LOp (nat n, kind, if specs = "-" then [] else List.map parse_spec (split_on ';' specs))
  | ["feed"; "msg"; batch; ms; _] ->
    M.LFeed (M.FMsg (Msg.InMsgs (b01 batch, if ms = "-" then [] else List.map parse_member (split_on ';' ms))))
  | ["feed"; "bad"; _] -> M.LFeed (M.FMsg Msg.InBad)
  | ["feed"; "err"; k] -> M.LFeed (M.FErr (cause k))
  | ["sendfault"; b] -> M.LSendFault (b01 b)
  | ["ctxend"; n; w] -> M.LCtxEnd (nat n, why w)
  | ["cbgate"; p; "res"; raw] -> M.LCbGate (hx p, M.CbRes (hx raw))
  | ["cbgate"; p; "err"; c; m] -> M.LCbGate (hx p, M.CbErr (z_of_string c, hx m))
  | _ -> failwith ("bad env " ^ String.concat " " f)

let site_of = function
  | "cli.req" -> M.SReq | "cli.send" -> M.SSend | "cli.deliver" -> M.SDeliver | "cli.watch" -> M.SWatchP
  | "cli.recverr" -> M.SRecvErr | "cli.close" -> M.SClosePt | "cli.cbreply" -> M.SCbReply
  | s -> failwith ("unknown site " ^ s)

let show_werr e = Printf.sprintf "E,%d,%s,%s" (int_of_z e.Msg.we_code) (hb e.Msg.we_msg) (hb e.Msg.we_data)
let show_res1 = function
  | M.RRes r -> "R," ^ hb r
  | M.RErr e -> show_werr e
  | M.RCtx M.WCancel -> "ctx,cancel" | M.RCtx M.WDeadline -> "ctx,deadline"
let show_ret = function
  | M.RetFail M.EBadParams -> "fail badparams" | M.RetFail M.EEmptyBatch -> "fail emptybatch"
  | M.RetFail M.ESendFail -> "fail sendfail" | M.RetFail (M.EStopped c) -> "fail stopped:" ^ cause_name c
  | M.RetCall r -> "call " ^ show_res1 r
  | M.RetBatch rs -> "batch " ^ String.concat ";" (List.map (fun (i, r) -> hb i ^ "," ^ show_res1 r) rs)
  | M.RetNotify -> "notify"
  | M.RetClose None -> "close none" | M.RetClose (Some c) -> "close " ^ cause_name c
let show_obs = function
  | M.OSendReq (ok, b, ms) -> Printf.sprintf "sendreq ok=%b batch=%b %s" ok b
                                (String.concat ";" (List.map (fun ((i, m), p) -> hb i ^ "," ^ hb m ^ "," ^ hb p) ms))
  | M.OSendRsp (ok, i, M.CbRes r) -> Printf.sprintf "sendrsp ok=%b %s R,%s" ok (hb i) (hb r)
  | M.OSendRsp (ok, i, M.CbErr (c, m)) -> Printf.sprintf "sendrsp ok=%b %s E,%d,%s" ok (hb i) (int_of_z c) (hb m)
  | M.OClose -> "close"
  | M.ORet (n, r) -> Printf.sprintf "ret %d %s" (int_of_nat n) (show_ret r)
  | M.OOnCancel (i, e) -> "oncancel " ^ hb i ^ " " ^ (match e with Some e -> show_werr e | None -> "-")
  | M.OOnStop c -> "onstop " ^ cause_name c
  | M.OOnNotify (m, p) -> "onnotify " ^ hb m ^ " " ^ hb p
  | M.OCbStart (i, m, p) -> "cbstart " ^ hb i ^ " " ^ hb m ^ " " ^ hb p
  | M.OCrash _ -> "CRASH"

(* projection per property: which observables the check for that property compares *)
let mk send close ret cancel stop inbound parked pending gor =
  { A.mk_send = send; mk_close = close; mk_ret = ret; mk_cancel = cancel; mk_stop = stop; mk_inbound = inbound;
    mk_parked = parked; mk_pending = pending; mk_gor = gor }
let mask_of = function
  (*                 send  close ret   cancl stop  inbnd parkd pendg gor *)
  | "c04" -> mk      true  false true  false false true  true  true  false
  | "c05" -> mk      true  true  true  true  true  true  true  true  true
  | _ -> A.mask_all

let site_name = function
  | M.SReq -> "cli.req" | M.SSend -> "cli.send" | M.SDeliver -> "cli.deliver" | M.SWatchP -> "cli.watch"
  | M.SRecvErr -> "cli.recverr" | M.SClosePt -> "cli.close" | M.SCbReply -> "cli.cbreply"

let () =
  let mask = ref A.mask_all in
  if Array.length Sys.argv > 1 then mask := mask_of Sys.argv.(1);
  let cfg = ref None in
  let hdr = ref "? ? ?" in
  let cur : (string list * int) option ref = ref None in
  let obs = ref [] in
  let items = ref [] in
  let faults = ref [] in
  let envs = ref [] in       (* environment labels of the scenario, reversed *)
  let allobs = ref [] in     (* observations of the scenario, reversed *)
  let flush_cur () =
    (match !cur with
     | Some (f, ln) ->
       let os = List.rev !obs in
       let it = (match f with
           | "env" :: rest -> A.IEnv (parse_env rest, os)
           | ["rel"; s] -> A.IRel (site_of s, os)
           | _ -> failwith "bad cur") in
       items := (it, ln) :: !items
     | None -> ());
    cur := None; obs := [] in
  let policy = ref "" in
  let judge () =
    flush_cur ();
    let its = List.rev !items in
    List.iter (fun x -> Printf.printf "FAULT %s %s\n" !hdr x) (List.rev !faults);
    (* the proved monitors (cli/CliMonitors.v), on every scenario: they read the environment labels and the
       observations of the log, each in its own order, never their interleaving *)
    let env = List.rev !envs and os = List.rev !allobs in
    let mons =
      [ ("mon_return_once", Mon.mon_return_once);
        ("mon_ids_fresh", Mon.mon_ids_fresh);
        ("mon_onstop_once", Mon.mon_onstop_once);
        ("mon_close_seals", Mon.mon_close_seals) ] in
    let nmon = List.length mons in
    let mon_rejected = ref false in
    List.iter (fun (name, m) ->
        if not (m env os) then begin
          mon_rejected := true;
          Printf.printf "REJECT %s monitor %s\n" !hdr name
        end) mons;
    (match !cfg with
     | _ when !policy = "race" ->
       (* racing mode has no windows and no controlled order: the log is judged by the property monitors only *)
       if not !mon_rejected then Printf.printf "OK %s skipped racing-log (monitors only) monitors=%d\n" !hdr nmon
     | None -> Printf.printf "BADLOG %s no cfg\n" !hdr
     | Some s0 ->
       (match A.accept !mask [s0] (List.map fst its) Model.Datatypes.O with
        | A.Accepted (n, _) ->
          if not !mon_rejected then
            Printf.printf "OK %s states=%d items=%d monitors=%d\n" !hdr (int_of_nat n) (List.length its) nmon
        | A.Rejected (i, exp) ->
          let i = int_of_nat i in
          let (it, ln) = List.nth its i in
          let what = (match it with
              | A.IEnv _ | A.IRel _ ->
                "model expects one of: " ^
                String.concat " | " (List.map (fun os -> "[" ^ String.concat "; " (List.map show_obs os) ^ "]") exp)
              | A.IParked _ -> "parked goroutines differ from the model's"
              | A.ISnap _ -> "pending count / goroutine count differs from the model's") in
          Printf.printf "REJECT %s item=%d line=%d %s\n" !hdr i ln what)) in
  let open_scn = ref false in
  iter_lines stdin (fun ln l ->
      let f = split_on '\t' l in
      match f with
      | ["cfg"; unblock; oncancel; onnotify; oncallback] ->
        if !open_scn then judge ();   (* a scenario cut short by a worker crash: judge its prefix *)
        cfg := Some (M.init (b01 unblock) (b01 oncancel) (b01 onnotify) (b01 oncallback));
        items := []; faults := []; cur := None; obs := []; envs := []; allobs := []; open_scn := true; policy := ""
      | "scenario" :: fam :: seed :: idx :: rest ->
        hdr := String.concat " " [fam; seed; idx];
        policy := (match rest with p :: _ -> p | [] -> "")
      (* a racing log: no windows, only the two sequences the monitors read (an environment line that is no label
         of the model is no input of the monitors either) *)
      | "env" :: rest when !policy = "race" ->
        (match (try Some (parse_env rest) with _ -> None) with
         | Some lb -> envs := lb :: !envs
         | None -> ())
      | "o" :: rest when !policy = "race" -> allobs := parse_obs rest :: !allobs
      | ("rel" | "parked" | "snap") :: _ when !policy = "race" -> ()
      | "env" :: rest -> flush_cur (); envs := parse_env rest :: !envs; cur := Some (f, ln)
      | "rel" :: _ -> flush_cur (); cur := Some (f, ln)
      | "o" :: rest -> let o = parse_obs rest in obs := o :: !obs; allobs := o :: !allobs
      | ["parked"; p] ->
        flush_cur ();
        let cnt = if p = "-" then [] else
            List.map (fun x -> match split_on ':' x with
                | [s; n] -> (site_of s, nat n)
                | _ -> failwith "bad parked") (split_on ',' p) in
        items := (A.IParked cnt, ln) :: !items
      | ["snap"; np; gor] ->
        flush_cur ();
        items := (A.ISnap (nat np, nat gor), ln) :: !items
      | "fault" :: rest -> flush_cur (); faults := String.concat " " rest :: !faults
      | ["end"] -> judge (); open_scn := false
      | _ -> ());
  if !open_scn then judge ();
  print_string "DONE\n"
