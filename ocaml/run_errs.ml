(* Runner for the error model (C14).  Line formats: see harness/pure/c14.go.
   The runner only parses the term text / fields, calls the extracted model and
   prints the expected observation in the harness's format. *)
module Errs = Model.Errs
module EJ = Model.ErrsJson
module Msg = Model.Msg
open Common

let parse_term (s : string) : Errs.gerr =
  let pos = ref 0 in
  let peek () = s.[!pos] in
  let adv () = incr pos in
  let until stop =
    let st = !pos in
    while !pos < String.length s && not (String.contains stop s.[!pos]) do adv () done;
    String.sub s st (!pos - st) in
  let code () = z_of_int (int_of_string (until ",)")) in
  let rec term () : Errs.gerr =
    let k = peek () in
    adv ();
    match k with
    | 'J' | 'V' ->
      adv ();
      let c = code () in adv ();
      let m = bytes_of_hexfield (until ",") in adv ();
      let d = bytes_of_hexfield (until ")") in adv ();
      if k = 'J' then Errs.EJrpc (c, m, d) else Errs.EJrpcV (c, m, d)
    | 'F' ->
      adv ();
      let c = code () in adv ();
      let m = bytes_of_hexfield (until ")") in adv ();
      Errs.EJrpc (c, m, [])
    | 'C' ->
      adv ();
      let c = code () in adv ();
      Errs.code_err c
    | 'K' ->
      let v = peek () in
      adv (); adv ();
      let c = code () in adv ();
      let m = bytes_of_hexfield (until ")") in adv ();
      let kind = match v with
        | '0' -> Errs.KValVal | '1' -> Errs.KValPtr | '2' -> Errs.KPtrPtr
        | '3' -> Errs.KMixVal | '4' -> Errs.KMixPtr | _ -> failwith "bad coder kind" in
      Errs.ECoder (kind, c, m)
    | 'X' -> Errs.ECanceled
    | 'D' -> Errs.EDeadline
    | 'P' ->
      adv ();
      let m = bytes_of_hexfield (until ")") in adv ();
      Errs.EPlain m
    | 'W' ->
      adv ();
      let m = bytes_of_hexfield (until ",") in adv ();
      let e = term () in adv ();
      Errs.EWrap (m, e)
    | 'L' ->
      adv ();
      let es = ref [] in
      while peek () <> ']' do
        let e = term () in adv ();
        es := e :: !es
      done;
      adv ();
      Errs.EJoin (List.rev !es)
    | _ -> failwith "bad term"
  in
  let t = term () in
  if !pos <> String.length s then failwith "trailing text in term";
  t

let show_werr (w : Msg.werr) =
  Printf.sprintf "%d|%s|%s" (int_of_z w.Msg.we_code) (hexfield_of_bytes w.Msg.we_msg) (hexfield_of_bytes w.Msg.we_data)

let show_outcome (o : Errs.outcome) : string =
  let code = match Errs.outcome_code o with Some c -> int_of_z c | None -> 0 in
  match o with
  | Errs.OResult raw -> Printf.sprintf "R|%d|-|%s" code (hexfield_of_bytes raw)
  | Errs.OLost -> "L|0|-|-"   (* never produced by the model since fix F16 (c14_reply_never_lost) *)
  | Errs.OErr Errs.ECanceled -> Printf.sprintf "C|%d|-|-" code
  | Errs.OErr Errs.EDeadline -> Printf.sprintf "D|%d|-|-" code
  | Errs.OErr (Errs.EJrpc (c, m, d)) ->
    Printf.sprintf "J|%d|%s|%s" code (hexfield_of_bytes m) (hexfield_of_bytes d)
  | Errs.OErr e -> Printf.sprintf "O|%d|%s|-" code (hexfield_of_bytes (Errs.error_text e))

(* a reply as it is on the wire (family B) *)
let show_wreply (w : Errs.wreply) : string =
  match w with
  | Errs.WResult raw -> Printf.sprintf "R|0|-|%s" (hexfield_of_bytes raw)
  | Errs.WError w -> Printf.sprintf "J|%s" (show_werr w)
  | Errs.WLost -> "L|0|-|-"

let split2 (s : string) : string * string =
  match String.index_opt s ':' with
  | Some i -> (String.sub s 0 i, String.sub s (i + 1) (String.length s - i - 1))
  | None -> (s, "")

exception Bad_case of string

let hres_of (rkind : string) (rarg : string) : Errs.hres =
  match rkind with
  | "ok" -> Errs.ResJson (bytes_of_string "true")
  | "r" ->
    (match EJ.compact (bytes_of_hexfield rarg) with
     | Some c -> Errs.ResJson c
     | None -> raise (Bad_case "raw-result-not-json"))
  | "u" ->
    let (_, text) = split2 rarg in
    Errs.ResBad (Errs.EPlain (bytes_of_hexfield text))
  | "m" ->
    let (prefix, ts) = split2 rarg in
    let inner = parse_term ts in
    if Errs.is_nil inner then
      (match EJ.compact (bytes_of_string "{\"m\": 1}") with
       | Some c -> Errs.ResJson c
       | None -> raise (Bad_case "impossible"))
    else Errs.ResBad (Errs.EWrap (bytes_of_hexfield prefix, inner))
  | _ -> raise (Bad_case "result-kind")

let () =
  iter_lines stdin (fun ln l ->
    try
      match split_on '\t' l with
      | ["E"; t; obs] ->
        let e = parse_term t in
        let text = if Errs.is_nil e then "nil" else hexfield_of_bytes (Errs.error_text e) in
        let o = Errs.call (Errs.ResJson (bytes_of_string "true")) e in
        (* the Go-side JSON-equality monitor applies when a top-level *Error arrives as a *Error;
           data that do not encode (wire_data = None) must have been dropped (fix F16) *)
        let eq = match e, o with
          | Errs.EJrpc (_, _, d), Errs.OErr (Errs.EJrpc _) ->
            (match Errs.wire_data d with Some _ -> "1" | None -> "d")
          | _ -> "-" in
        let exp = Printf.sprintf "%d|%s|%s|%s" (int_of_z (Errs.error_code e)) text (show_outcome o) eq in
        report_case ln ~expected:exp ~got:obs
      | ["R"; rkind; rarg; t; obs] ->
        let exp = show_outcome (Errs.call (hres_of rkind rarg) (parse_term t)) in
        report_case ln ~expected:exp ~got:obs
      | ["K"; mode; rkind; rarg; t; obs] ->
        (* the handler returns after its own request was cancelled / its deadline passed *)
        let cs = match mode with
          | "self" | "helper" | "base" -> Errs.CtxCanceled
          | "deadline" -> Errs.CtxDeadline
          | "live" -> Errs.CtxLive
          | _ -> raise (Bad_case "ctx-mode") in
        let exp = show_outcome (Errs.call_ctx true cs (hres_of rkind rarg) (parse_term t)) in
        report_case ln ~expected:exp ~got:obs
      | "B" :: (_ :: _ :: _ :: _ :: _ as rest) ->
        (* one Client.Batch: triples (rkind, rarg, term), then the observation *)
        let rec members = function
          | [obs] -> ([], obs)
          | rkind :: rarg :: t :: tl ->
            let (ms, obs) = members tl in
            ((hres_of rkind rarg, parse_term t) :: ms, obs)
          | _ -> raise (Bad_case "batch-fields") in
        let (ms, obs) = members rest in
        let exp = String.concat "/" (List.map show_wreply (Errs.batch ms)) in
        report_case ln ~expected:exp ~got:obs
      | ["N"; rkind; rarg; t; obs] ->
        let exp = match Errs.notify (hres_of rkind rarg) (parse_term t) with
          | None -> "none"
          | Some w -> show_werr w in
        report_case ln ~expected:exp ~got:obs
      | ["C"; c; obs] ->
        let e = Errs.code_err (z_of_int (int_of_string c)) in
        let text = if Errs.is_nil e then "nil" else hexfield_of_bytes (Errs.error_text e) in
        report_case ln ~expected:(Printf.sprintf "%d|%s" (int_of_z (Errs.error_code e)) text) ~got:obs
      | ["W"; recv; code; msg; data; vkind; varg; obs] ->
        let cell = { Msg.we_code = z_of_int (int_of_string code); Msg.we_msg = bytes_of_hexfield msg;
                     Msg.we_data = bytes_of_hexfield data } in
        let heap = [cell] in
        let p = if recv = "p" then 0 else 7 in   (* index 7 is past the end: the nil pointer *)
        let v = match vkind with
          | "nil" -> Errs.WNil
          | "raw" -> Errs.WRaw (bytes_of_hexfield varg)
          | "val" -> let (_, enc) = split2 varg in Errs.WVal (bytes_of_hexfield enc)
          | "bad" -> Errs.WBad
          | _ -> raise (Bad_case "value-kind") in
        let exp = match Errs.with_data heap (nat_of_int p) v with
          | Errs.WDCrash -> "crash"
          | Errs.WDOk (h', p') ->
            let p' = int_of_nat p' in
            let unchanged = (match h' with c0 :: _ -> c0 = cell | [] -> false) in
            (match List.nth_opt h' p' with
             | None -> Printf.sprintf "retnil|%d" (if unchanged then 1 else 0)
             | Some c -> Printf.sprintf "%d|%d|%s" (if p' = p then 1 else 0) (if unchanged then 1 else 0) (show_werr c)) in
        report_case ln ~expected:exp ~got:obs
      | ["G"; raw; obs] ->
        let exp = match EJ.compact (bytes_of_hexfield raw) with
          | Some c -> hexfield_of_bytes c
          | None -> "invalid" in
        report_case ln ~expected:exp ~got:obs
      | ["S"; s; obs] ->
        report_case ln ~expected:(hexfield_of_bytes (EJ.sanitize_utf8 (bytes_of_hexfield s))) ~got:obs
      | _ -> Printf.printf "BADLINE\t%d\n" ln
    with
    | Bad_case why -> report_case ln ~expected:("model-rejects-input:" ^ why) ~got:"-"
    | Failure why -> Printf.printf "BADLINE\t%d\t%s\n" ln why);
  finish ()
