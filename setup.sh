#!/bin/sh
# Builds the framework from files on disk only (offline): Coq development (full .vo),
# extraction + OCaml model runners, Go harnesses (against /repo, tag verif).
set -e
cd "$(dirname "$0")"
export GOFLAGS=-mod=mod GOPROXY=off GOSUMDB=off GOTOOLCHAIN=local
mkdir -p build out/replays evidence ocaml/gen
python3 - <<'PY'
import sys
sys.path.insert(0, '.')
from vlib import common as C
C.ensure_dirs()
ok, log = C.coq_make()
print(log[-2000:])
if not ok:
    sys.exit("coq build failed")
ok, log = C.ocaml_build()
if not ok:
    sys.exit(log)
ok, log = C.go_build_pure()
if not ok:
    sys.exit(log)
import os
if os.path.exists(os.path.join(C.ROOT, 'harness', 'conc', 'go.mod')):
    ok, log = C.go_build_conc()
    if not ok:
        sys.exit(log)
print("setup ok")
PY
