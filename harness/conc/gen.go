package conc

import (
	"bufio"
	"fmt"
	"runtime"
	"strconv"
	"strings"
	"testing"
	"testing/synctest"

	"github.com/creachadair/jrpc2"
)

// family weights select which actions a scenario favours (one family per property).
type family struct {
	name                                                       string
	wFeedCall, wFeedNote, wFeedBatch, wFeedInvalid, wFeedReply int
	wFeedRaw, wFeedBytes                                       int
	wGate, wCancel, wStop, wPush, wCbCtx, wFeedErr, wRestart   int
	wBuiltin, wSendFault                                       int
	wWait                                                      int // WaitStatus called in the middle of a run (it must block until the server has fully exited)
	idPool                                                     []string
	Ks                                                         []int
	push, builtin                                              []bool
	steps                                                      int
}

var families = map[string]family{
	"c01": {name: "c01", wFeedCall: 6, wFeedNote: 3, wFeedBatch: 8, wFeedInvalid: 4, wFeedReply: 1, wFeedRaw: 1, wGate: 12, wBuiltin: 1, wCancel: 2, wPush: 2, wSendFault: 1,
		idPool: []string{"1", "2", "3", `"a"`, "4", "5", "9007199254740993", "1.0", `"x\/y"`}, Ks: []int{1, 2, 3, 8}, push: []bool{false, false, true}, builtin: []bool{true, false}, steps: 18},
	"c02": {name: "c02", wFeedCall: 3, wFeedNote: 2, wFeedBatch: 8, wFeedInvalid: 12, wFeedReply: 5, wFeedRaw: 4, wFeedBytes: 14, wGate: 10, wBuiltin: 1, wPush: 3, wCbCtx: 1,
		idPool: []string{"1", "2", `"a"`, "0", "-1", "1.5", "1e3", `""`, `"\u0031"`}, Ks: []int{1, 3}, push: []bool{false, true}, builtin: []bool{true, false}, steps: 20},
	"c03": {name: "c03", wFeedCall: 5, wFeedNote: 8, wFeedBatch: 6, wFeedInvalid: 1, wGate: 12, wCancel: 1, wPush: 1, wBuiltin: 1,
		idPool: []string{"1", "2", "3", "4", "5", "6"}, Ks: []int{1, 2, 4, 8}, push: []bool{false, true}, builtin: []bool{true}, steps: 20},
	"c06": {name: "c06", wFeedCall: 4, wFeedNote: 2, wFeedBatch: 10, wGate: 12, wCancel: 4, wBuiltin: 2, wPush: 2,
		idPool: []string{"1", "2", "3", "4", "5", "6", "7", "8"}, Ks: []int{1, 2, 3, 5}, push: []bool{false, true}, builtin: []bool{true}, steps: 20},
	"c07": {name: "c07", wFeedCall: 10, wFeedNote: 1, wFeedBatch: 5, wFeedInvalid: 2, wGate: 10, wCancel: 6, wBuiltin: 1, wSendFault: 2, wRestart: 2,
		idPool: []string{"1", "2", `"a"`, `"1"`, `"2"`, `"\u0041"`, "9007199254740993", "9007199254740992"}, Ks: []int{1, 2, 4}, push: []bool{false}, builtin: []bool{true, false}, steps: 22},
	"c08": {name: "c08", wFeedCall: 6, wFeedNote: 5, wFeedBatch: 5, wFeedInvalid: 3, wFeedRaw: 2, wFeedReply: 1, wGate: 8, wCancel: 1, wStop: 3, wPush: 2, wFeedErr: 3, wRestart: 2, wSendFault: 2, wWait: 2,
		idPool: []string{"1", "2", "3", "4"}, Ks: []int{1, 2, 4}, push: []bool{false, true}, builtin: []bool{true}, steps: 22},
	"c09": {name: "c09", wFeedCall: 3, wFeedNote: 3, wFeedBatch: 2, wFeedReply: 10, wGate: 6, wStop: 1, wPush: 10, wCbCtx: 5, wFeedInvalid: 1, wRestart: 2,
		idPool: []string{"1", "2", "3"}, Ks: []int{2, 4}, push: []bool{true, true, true, false}, builtin: []bool{true}, steps: 24},
	"c10": {name: "c10", wFeedCall: 6, wFeedNote: 3, wFeedBatch: 6, wFeedInvalid: 2, wFeedRaw: 2, wFeedReply: 3, wGate: 10, wCancel: 2, wStop: 2, wPush: 5, wCbCtx: 2, wFeedErr: 2, wRestart: 1, wSendFault: 1, wWait: 1,
		idPool: []string{"1", "2", "3", "4"}, Ks: []int{1, 3}, push: []bool{true, false}, builtin: []bool{true}, steps: 24},
}

// method names of pushed requests: mostly plain, some that need escaping on the wire (control characters, DEL,
// quotes, HTML metacharacters, a non-printable rune beyond the BMP): every pushed record must still be one message
var pushNoteNames = []string{"pn", "pn", "pn", "pn", "p\x01n", "p\a\vn", "p\x7fn", "p\"n\\", "<p&n>", "p\U000e0001n", "p\u2028n"}
var pushCallNames = []string{"pc", "pc", "pc", "pc", "p\x02c", "p\x1fc", "p\x7fc", "p\"c", "<p&c>", "p\U000e0001c"}

type scen struct {
	r        *srvRun
	g        *rng
	f        family
	tok      int
	alive    bool // the server has been started and not yet waited for
	policy   string
	sendFail bool
}

// newTok returns a fresh decimal token ending in a check digit (3 x digit sum mod 10): the byte-level family flips
// single bits of records, and a token with one digit changed is never another token of the scenario, so a handler
// that runs for a mutated record cannot be mistaken for the handler of another member.
func (s *scen) newTok() string {
	s.tok++
	sum := 0
	for n := s.tok; n > 0; n /= 10 {
		sum += n % 10
	}
	return strconv.Itoa(s.tok) + strconv.Itoa(3*sum%10)
}

func (s *scen) method() string {
	switch s.g.intn(12) {
	case 0:
		return "nope"
	case 1:
		if s.f.wBuiltin > 0 {
			return "rpc.serverInfo"
		}
		return "rpc.x"
	case 2:
		return "rpc.x"
	case 3:
		// unknown methods whose names need escaping when they are echoed in the error data
		return pick(s.g, []string{"n\x01", "bell\a", "del\x7f", "\U000e0001tag", "q\"uote", "<&>", "é\u2028"})
	default:
		return "g"
	}
}

func (s *scen) validMember() member {
	m := s.method()
	if s.g.intn(s.f.wFeedCall+s.f.wFeedNote+1) < s.f.wFeedNote {
		if s.g.chance(1, 6) {
			return mkNoteNullID(m, s.newTok())
		}
		return mkNote(m, s.newTok())
	}
	return mkCall(pick(s.g, s.f.idPool), m, s.newTok())
}

func (s *scen) invalidMember() member {
	id := ""
	if s.g.chance(2, 3) {
		id = pick(s.g, s.f.idPool)
	}
	switch s.g.intn(10) {
	case 0:
		return mkBadVersion(id, "g", s.newTok())
	case 1:
		return mkNoVersion(id, "g", s.newTok())
	case 2:
		return mkBadID("g", s.newTok())
	case 3:
		return mkNonObject()
	case 4:
		return mkBadParams(id, "g")
	case 5:
		return mkEmptyMethod(id)
	case 6:
		return mkBadMethod(id)
	case 7:
		return mkExtra(id, "g", s.newTok())
	case 8:
		if id == "" {
			id = "1"
		}
		return mkMixed(id, "g", s.newTok())
	default:
		return mkBadVersion("", "g", s.newTok())
	}
}

// variantMember builds one member text from the per-field variant product (absent / valid / each invalid
// type / null per field), with a unique token inside params so that a handler that does run is identified.
func (s *scen) variantMember() string {
	g := s.g
	var fs []string
	add := func(k, v string) {
		if v != "" {
			fs = append(fs, `"`+k+`":`+v)
		}
	}
	ver := pick(g, []string{`"2.0"`, `"2.0"`, `"2.0"`, `"2.0"`, `"2.0"`, `"2.0"`, "", `"1.0"`, "2", "null", `"2.00"`})
	id := pick(g, []string{"", "", "1", "2", "-1", "1.5", "1e2", `"a"`, `""`, "null", "true", "[1]", `{"x":1}`, `"\u0031"`, "0"})
	method := pick(g, []string{`"g"`, `"g"`, `"g"`, `"g"`, `"g"`, "", `"nope"`, `"rpc.x"`, `"rpc.serverInfo"`, `""`, "7", "null", `["g"]`,
		`"n\u0001x"`, "\"d\x7fl\"", `"\ud83d\ude00"`})
	tok := s.newTok()
	params := pick(g, []string{"[" + tok + "]", "[" + tok + "]", "[" + tok + "]", `{"t":` + tok + `}`, "", "null", tok, `"s` + tok + `"`, "true"})
	if method == `"g"` && (params == "" || params == "null") {
		// a member that may run a handler carries its token (the harness identifies handlers by their params)
		params = "[" + tok + "]"
	}
	add("jsonrpc", ver)
	add("id", id)
	add("method", method)
	add("params", params)
	if g.chance(1, 10) {
		add("result", pick(g, []string{"1", "null", `{"r":1}`}))
	}
	if g.chance(1, 10) {
		add("error", pick(g, []string{`{"code":1,"message":"m"}`, "null", `{"code":"x"}`, "7"}))
	}
	if g.chance(1, 8) {
		add(pick(g, []string{"x", "jsonrpc2", "Id", "METHOD"}), "1")
	}
	if g.chance(1, 12) && len(fs) > 0 {
		fs = append(fs, fs[g.intn(len(fs))]) // a duplicate key: the last one wins
	}
	// field order is irrelevant to the parser model; shuffle
	for i := len(fs) - 1; i > 0; i-- {
		j := g.intn(i + 1)
		fs[i], fs[j] = fs[j], fs[i]
	}
	switch g.intn(30) {
	case 0:
		return pick(g, []string{"7", `"str"`, "null", "true", "[]", "[1]"})
	}
	return "{" + strings.Join(fs, ",") + "}"
}

// variantRecord is a whole record for the byte-level family: a member, a batch of members, or a mutation.
func (s *scen) variantRecord() string {
	g := s.g
	var rec string
	if g.chance(1, 3) {
		n := 1 + g.intn(4)
		var ms []string
		for i := 0; i < n; i++ {
			ms = append(ms, s.variantMember())
		}
		rec = "[" + strings.Join(ms, ",") + "]"
	} else {
		rec = s.variantMember()
	}
	switch g.intn(12) {
	case 0: // truncate
		if len(rec) > 1 {
			rec = rec[:1+g.intn(len(rec)-1)]
		}
	case 1: // flip one byte
		b := []byte(rec)
		b[g.intn(len(b))] ^= byte(1 << uint(g.intn(7)))
		rec = string(b)
	case 2: // surrounding whitespace
		rec = " \n" + rec + "\t "
	case 3: // trailing garbage
		rec = rec + pick(g, []string{"x", "{}", ",", "]"})
	}
	return rec
}

func (s *scen) replyMember() member {
	// ids of callbacks are decimal numbers counting from 1; hit, miss and collide with request ids
	id := strconv.Itoa(1 + s.g.intn(4))
	if s.g.chance(1, 5) {
		id = `"` + id + `"` // a string id spelling a callback's number is a different id
	}
	if s.g.chance(1, 3) {
		codes := []int{-32000, 7, -32097, -32096, -32601}
		return mkReplyError(id, pick(s.g, codes), "cb failed")
	}
	switch s.g.intn(8) {
	case 0:
		return mkReplyNoVersion(id, pick(s.g, []string{"true", `{"x":1}`, "17"}))
	case 1:
		return mkReplyExtra(id, pick(s.g, []string{"true", `"s"`}))
	}
	return mkReplyResult(id, pick(s.g, []string{"true", `{"x":1}`, "null", `"s"`, "17"}))
}

func (s *scen) pickParked(n int) int {
	if s.policy == "fifo" {
		return 0
	}
	return s.g.intn(n)
}

// sched lets some of the parked goroutines run: all of them (drain) under the
// fifo policy, a random number under the random policy.
func (s *scen) sched() {
	if s.policy == "race" {
		// mostly keep racing; now and then let everything settle
		if s.g.chance(1, 4) {
			s.r.quiet = true
			s.r.settleEnv()
			s.r.quiet = false
		}
		return
	}
	if s.policy == "fifo" {
		s.r.drain(s.pickParked)
		return
	}
	k := s.g.intn(4)
	if s.g.chance(1, 4) {
		s.r.drain(s.pickParked)
		return
	}
	for i := 0; i < k && s.r.sc.nparked() > 0; i++ {
		s.r.releaseOne(s.pickParked(s.r.sc.nparked()))
	}
}

func (s *scen) step() {
	f, g, r := s.f, s.g, s.r
	type act struct {
		w  int
		do func()
	}
	r.mu.Lock()
	started := append([]string(nil), r.started...)
	cbOpen := append([]int(nil), r.cbOpen...)
	waiting := r.waiting
	var noteHandlers []string // running notification handlers that are listening on their gate
	for _, p := range started {
		if r.notes[p] {
			noteHandlers = append(noteHandlers, p)
		}
	}
	r.mu.Unlock()
	acts := []act{
		{f.wFeedCall + f.wFeedNote, func() { r.feedMsgs(false, []member{s.validMember()}, false) }},
		{f.wFeedBatch, func() {
			n := 1 + g.intn(5)
			var ms []member
			for i := 0; i < n; i++ {
				switch {
				case f.wFeedInvalid > 0 && g.chance(1, 5):
					ms = append(ms, s.invalidMember())
				case f.wFeedReply > 0 && g.chance(1, 6):
					ms = append(ms, s.replyMember())
				default:
					ms = append(ms, s.validMember())
				}
			}
			r.feedMsgs(true, ms, false)
		}},
		{f.wFeedInvalid, func() { r.feedMsgs(g.chance(1, 3), []member{s.invalidMember()}, false) }},
		{f.wFeedReply, func() { r.feedMsgs(g.chance(1, 4), []member{s.replyMember()}, false) }},
		{f.wFeedRaw, func() {
			if g.chance(1, 2) {
				r.feedRaw("bad", pick(g, []string{"garbage", `{"jsonrpc":`, "", "[1,", `{"a":1}{`}))
			} else {
				r.feedRaw("empty", pick(g, []string{"[]", " [ ] "}))
			}
		}},
		{f.wFeedBytes, func() { r.feedBytes(s.variantRecord()) }},
		{f.wCancel, func() { r.callCancel(pick(g, append([]string{"99", "a"}, f.idPool...))) }},
		{f.wStop, func() { r.callStop() }},
		{f.wPush, func() {
			if g.chance(1, 3) {
				r.callPush(false, pick(g, pushNoteNames), pick(g, []string{"", `{"k":1}`, `[1,2]`}))
			} else {
				r.callPush(true, pick(g, pushCallNames), pick(g, []string{"", `{"k":1}`, `[3]`}))
			}
		}},
		{f.wSendFault, func() {
			s.sendFail = !s.sendFail
			r.sendFault(s.sendFail)
		}},
		{f.wFeedErr, func() {
			switch g.intn(4) {
			case 0:
				r.feedErr("eof")
			case 1:
				r.feedErr("closing")
			case 2:
				r.feedErr("other")
			default:
				r.feedMsgs(false, []member{s.validMember()}, true)
				r.feedErr("eof")
			}
		}},
	}
	if len(started) > 0 {
		acts = append(acts, act{f.wGate, func() {
			p := pick(g, started)
			if g.chance(1, 4) {
				r.gate(p, gateMsg{code: pick(g, []int{-32000, 5, -32602, -32097, -32600, -32700, -32601, -32096}), msg: "handler says no"})
			} else if g.chance(1, 14) {
				// a result whose MarshalJSON fails with a coded error
				r.gate(p, gateMsg{merr: true, code: pick(g, []int{-32700, -32600, -32000, -32602}), msg: "cannot marshal"})
			} else if g.chance(1, 12) {
				// a result that json.Marshal rejects (a RawMessage that is not one JSON value)
				r.gate(p, gateMsg{res: pick(g, []string{`{"a":`, "1 2", "garbage", `{"x":1}{"y":2}`, `[1,`, "\x01"})})
			} else {
				r.gate(p, gateMsg{res: pick(g, []string{"true", `{"r":[1,2]}`, "null", `"ok"`, "0"})})
			}
		}})
	}
	if len(noteHandlers) > 0 && f.wPush > 0 {
		// a notification handler pushes to the client itself, with its own context, and awaits the outcome
		acts = append(acts, act{f.wPush, func() {
			p := pick(g, noteHandlers)
			if g.chance(1, 4) {
				r.handlerPush(p, false, "pn", pick(g, []string{"", `[7]`}))
			} else {
				r.handlerPush(p, true, "pc", pick(g, []string{"", `{"h":1}`}))
			}
		}})
	}
	if r.cfg.basectx && !r.baseEnded {
		acts = append(acts, act{2, func() { r.baseCtxEnd() }})
	}
	// the clock advances (11 s of the bubble's fake time): nothing in the server may depend on elapsed time
	acts = append(acts, act{1, func() { r.tick() }})
	if len(started) > 0 && f.wPush > 0 {
		// a handler (call or notification) starts a callback under a context detached from its own cancellation
		// (context.WithoutCancel) in the background and carries on: the callback outlives the handler
		acts = append(acts, act{f.wPush, func() {
			r.handlerPushDetached(pick(g, started), pick(g, pushCallNames), pick(g, []string{"", `{"d":1}`}))
		}})
	}
	if waiting < 2 {
		acts = append(acts, act{f.wWait, func() { r.callWait() }})
	}
	if len(cbOpen) > 0 {
		acts = append(acts, act{f.wCbCtx, func() { r.cbCtxEnd(pick(g, cbOpen), g.chance(1, 2)) }})
	}
	total := 0
	for _, a := range acts {
		total += a.w
	}
	x := g.intn(total)
	for _, a := range acts {
		if x < a.w {
			a.do()
			break
		}
		x -= a.w
	}
	s.sched()
}

// epilogue shuts the server down completely so that every goroutine must exit:
// let all handlers return, stop (or close), deliver the reader its error, wait.
func (s *scen) epilogue(restart bool) {
	r, g := s.r, s.g
	r.quiet = true
	r.settleEnv()
	r.drain(s.pickParked)
	for {
		r.mu.Lock()
		started := append([]string(nil), r.started...)
		r.mu.Unlock()
		if len(started) == 0 {
			break
		}
		r.gate(started[0], gateMsg{res: "true"})
		r.drain(s.pickParked)
	}
	switch g.intn(3) {
	case 0:
		r.callStop()
	case 1:
		r.feedErr("eof")
	default:
		r.feedErr("other")
	}
	r.drain(s.pickParked)
	// the reader of a channel whose Close does not unblock Recv needs the peer to close
	r.feedErr("eof")
	r.drain(s.pickParked)
	for {
		r.mu.Lock()
		started := append([]string(nil), r.started...)
		cbOpen := append([]int(nil), r.cbOpen...)
		r.mu.Unlock()
		if len(started) == 0 {
			_ = cbOpen
			break
		}
		r.gate(started[0], gateMsg{res: "true"})
		r.drain(s.pickParked)
	}
	r.callWait()
	r.drain(s.pickParked)
	if restart {
		if s.sendFail {
			s.sendFail = false
			r.sendFault(false)
		}
		r.start()
		r.drain(s.pickParked)
		r.feedMsgs(false, []member{mkCall("1", "g", s.newTok())}, false)
		r.drain(s.pickParked)
		r.mu.Lock()
		started := append([]string(nil), r.started...)
		r.mu.Unlock()
		for _, p := range started {
			r.gate(p, gateMsg{res: `"again"`})
			r.drain(s.pickParked)
		}
		if r.cfg.push {
			// callback ids keep counting across restarts
			r.callPush(true, "pc", "")
			r.drain(s.pickParked)
		}
		r.callStop()
		r.drain(s.pickParked)
		r.feedErr("eof")
		r.drain(s.pickParked)
		r.callWait()
		r.drain(s.pickParked)
	}
}

// scriptFor returns the scripted history that replaces the random walk of scenario idx of a family, if any.
// Scripted histories reach situations a walk of twenty steps practically never does; they go through the same
// model acceptance and monitors as every other scenario.
func scriptFor(fam string, idx int) func(*scen) {
	switch {
	case (fam == "c08" || fam == "c01") && idx%24 == 7:
		return scriptNotesOnlyBatch
	case (fam == "c09" || fam == "c03") && idx%40 == 11:
		return scriptBurstBehindCallback
	case fam == "c06" && idx%30 == 13:
		return scriptManyHandlers
	case fam == "c07" && idx%30 == 17:
		return scriptDeadlineDuplicate
	}
	return nil
}

// raceStopRightAfterFeed (racing scenarios): records arrive on an idle server and Stop is called at once, while the
// reader is still between taking the record and waking the dispatcher (its log calls yield the processor): whatever
// the order, nothing panics, the server stops, and the epilogue's WaitStatus returns.
func raceStopRightAfterFeed(s *scen) {
	r, g := s.r, s.g
	// zero to two calls answered first: the queue is empty again and the dispatcher idle
	for i, n := 0, g.intn(3); i < n; i++ {
		r.feedMsgs(false, []member{mkCall(strconv.Itoa(30+i), "g", s.newTok())}, false)
		r.quiet = true
		r.settleEnv()
		r.mu.Lock()
		started := append([]string(nil), r.started...)
		r.mu.Unlock()
		for _, p := range started {
			r.gate(p, gateMsg{res: "true"})
		}
		r.settleEnv()
		r.quiet = false
	}
	if g.chance(1, 2) {
		r.feedMsgs(false, []member{mkCall("41", "g", s.newTok())}, false)
	} else {
		r.feedMsgs(false, []member{mkNote("g", s.newTok())}, false)
	}
	// give the reader between no and a few turns before the Stop
	for i, n := 0, g.intn(7); i < n; i++ {
		runtime.Gosched()
	}
	r.callStop()
}

// scriptNotesOnlyBatch: one inbound array holding only notifications; the LAST member's handler returns while the
// others are still running; the server is stopped and WaitStatus called: it may return only once every handler has.
func scriptNotesOnlyBatch(s *scen) {
	r, g := s.r, s.g
	n := 2 + g.intn(3)
	var ms []member
	var toks []string
	for i := 0; i < n; i++ {
		t := s.newTok()
		toks = append(toks, "["+t+"]")
		ms = append(ms, mkNote("g", t))
	}
	r.feedMsgs(true, ms, false)
	r.drain(s.pickParked)
	// the handlers that have entered, in the order of the batch
	r.mu.Lock()
	started := append([]string(nil), r.started...)
	r.mu.Unlock()
	isStarted := func(p string) bool {
		for _, q := range started {
			if q == p {
				return true
			}
		}
		return false
	}
	if last := toks[n-1]; isStarted(last) {
		r.gate(last, gateMsg{res: "true"})
		r.drain(s.pickParked)
	}
	switch g.intn(3) {
	case 0:
		r.callStop()
	case 1:
		r.feedErr("eof")
	default:
		r.feedErr("other")
	}
	r.drain(s.pickParked)
	r.feedErr("eof")
	r.drain(s.pickParked)
	r.callWait()
	r.drain(s.pickParked)
	if g.chance(1, 2) && isStarted(toks[0]) {
		r.gate(toks[0], gateMsg{res: "true"})
		r.drain(s.pickParked)
	}
}

// scriptBurstBehindCallback: a notification handler awaits a callback while the peer pipelines well over a hundred
// further records before it sends the reply: the reply must still be read and delivered (the reader never stalls
// behind the dispatch queue), and everything queued is served afterwards.
func scriptBurstBehindCallback(s *scen) {
	r, g := s.r, s.g
	t0 := s.newTok()
	r.feedMsgs(false, []member{mkNote("g", t0)}, false)
	r.drain(s.pickParked)
	p0 := "[" + t0 + "]"
	r.mu.Lock()
	ok := len(r.started) == 1 && r.started[0] == p0 && r.notes[p0]
	r.mu.Unlock()
	if !ok {
		return
	}
	r.handlerPush(p0, true, "pc", "")
	r.drain(s.pickParked)
	burst := 130 + g.intn(40)
	for i := 0; i < burst; i++ {
		if g.chance(1, 5) {
			r.feedMsgs(false, []member{mkCall(pick(g, s.f.idPool), "g", s.newTok())}, false)
		} else {
			r.feedMsgs(false, []member{mkNote("g", s.newTok())}, false)
		}
		if i%16 == 15 {
			r.drain(s.pickParked)
		}
	}
	r.drain(s.pickParked)
	r.feedMsgs(false, []member{mkReplyResult("1", "true")}, false)
	r.drain(s.pickParked)
	r.gate(p0, gateMsg{res: "true"})
	r.drain(s.pickParked)
}

// scriptDeadlineDuplicate (judged by monitors only: request contexts with deadlines are outside the model): every
// request context has a deadline (ServerOptions.NewContext); a call is still executing when its deadline passes;
// a second request with the same id arriving then is a duplicate like any other - rejected, never run, and the
// first call is not disturbed.
func scriptDeadlineDuplicate(s *scen) {
	r := s.r
	r.log.item("env\tbasectx\tdeadlines")
	t1, t2, t3 := s.newTok(), s.newTok(), s.newTok()
	r.feedMsgs(false, []member{mkCall("7", "g", t1)}, false)
	r.drain(s.pickParked)
	r.tick() // the deadline of the first call's context passes while its handler runs
	r.drain(s.pickParked)
	r.feedMsgs(false, []member{mkCall("7", "g", t2)}, false)
	r.drain(s.pickParked)
	r.feedMsgs(true, []member{mkCall("8", "g", t3), mkCall("7", "g", s.newTok())}, false)
	r.drain(s.pickParked)
	for i := 0; i < 4; i++ {
		r.mu.Lock()
		started := append([]string(nil), r.started...)
		r.mu.Unlock()
		if len(started) == 0 {
			break
		}
		r.gate(started[0], gateMsg{res: "true"})
		r.drain(s.pickParked)
	}
}

// scriptManyHandlers: a concurrency limit above the number of CPUs, saturated by one batch of calls: exactly K
// handlers execute, the rest wait, and each return lets one more in.
func scriptManyHandlers(s *scen) {
	r := s.r
	n := r.cfg.K + 4
	var ms []member
	for i := 0; i < n; i++ {
		ms = append(ms, mkCall(strconv.Itoa(100+i), "g", s.newTok()))
	}
	r.feedMsgs(true, ms, false)
	r.drain(s.pickParked)
	for i := 0; i < 6; i++ {
		r.mu.Lock()
		started := append([]string(nil), r.started...)
		r.mu.Unlock()
		if len(started) == 0 {
			break
		}
		r.gate(started[0], gateMsg{res: "true"})
		r.drain(s.pickParked)
	}
}

// runServerScenario runs one scenario in its own synctest bubble and returns its log.
func runServerScenario(t *testing.T, fam string, seed uint64, idx int, out *bufio.Writer) {
	f, ok := families[fam]
	if !ok {
		t.Fatalf("unknown family %q", fam)
	}
	g := newRng(seed*1000003 + uint64(idx))
	cfg := srvConfig{K: pick(g, f.Ks), push: pick(g, f.push), builtin: pick(g, f.builtin), unblock: g.chance(1, 2), methods: []string{"g"}}
	cfg.rpclog = idx%2 == 1
	cfg.closeErr = idx%5 == 2
	cfg.timeoutErr = idx%4 >= 2
	if scriptFor(fam, idx) != nil {
		// the scripted histories need room for two handlers at once, and pushes
		cfg.push = true
		if cfg.K < 2 {
			cfg.K = 3
		}
		if fam == "c06" {
			cfg.K = runtime.NumCPU() + 3 // a limit above the number of CPUs is a limit like any other
		}
	}
	policy := "random"
	if idx%3 == 0 {
		policy = "fifo"
	} else if idx%6 == 5 {
		policy = "race"
	}
	if policy == "race" && idx%12 == 5 {
		cfg.basectx = true // monitors only: the model has no base context
	}
	scripted := scriptFor(fam, idx)
	if fam == "c07" && scripted != nil {
		// scheduled like any other scenario, but labelled as monitors-only: per-request deadlines are outside the model
		cfg.deadlines = true
		if policy == "race" {
			policy = "random"
		}
	}
	synctest.Test(t, func(t *testing.T) {
		r := newSrvRun(cfg, out)
		s := &scen{r: r, g: g, f: f, policy: policy}
		if policy == "race" {
			r.race = true
			r.log.direct = true
			r.sc.on = false
			r.perturb.Store(seed*7919 + uint64(idx))
			jrpc2.VerifSetHook(r.racePoint)
		} else {
			jrpc2.VerifSetHook(r.sc.point)
		}
		defer jrpc2.VerifSetHook(nil)
		label := policy
		if cfg.deadlines {
			label = "race" // the acceptor skips it (monitors only)
		}
		r.log.item("scenario\t%s\t%d\t%d\t%s", fam, seed, idx, label)
		r.start()
		s.sched()
		if script := scriptFor(fam, idx); script != nil && policy != "race" {
			script(s)
		} else if policy == "race" && (fam == "c08" || fam == "c10") && idx%18 == 11 {
			raceStopRightAfterFeed(s)
		} else {
			n := f.steps/2 + g.intn(f.steps)
			for i := 0; i < n; i++ {
				s.step()
			}
		}
		s.epilogue(f.wRestart > 0 && g.chance(f.wRestart, 4))
		// discipline monitors
		for _, c := range r.chans {
			c.mu.Lock()
			for _, fl := range c.faults {
				r.log.item("fault\t%s", fl)
			}
			if c.nclose != 1 {
				r.log.item("fault\tchannel closed %d times", c.nclose)
			}
			c.mu.Unlock()
		}
		for _, fl := range r.faults {
			r.log.item("fault\t%s", fl)
		}
		r.sc.off()
		r.log.item("end")
	})
}

var _ = fmt.Sprint
