package conc

// Scenario generators for the client families.
//
//	cli:c04  reply matching: 1-5 concurrent Call/Batch/Notify operations, then a reply
//	         script for the ids the peer saw: every id answered once, in a permutation,
//	         partitioned into single objects and arrays, decorated with duplicates
//	         (differing payloads), unknown ids, "1" vs 1, malformed members, non-objects,
//	         server requests and notifications.  In the thorough tier the first scenarios
//	         enumerate every permutation and every partition for up to 4 calls.
//	cli:c05  completion: random walks weighted towards cancel / deadline / Close / EOF /
//	         Recv error / Send failure / non-JSON record orders relative to the replies,
//	         with send faults injected around individual channel operations.

import (
	"fmt"
	"math"
	"strconv"
)

type cliFamily struct {
	name                                                              string
	wOp, wReply, wJunk, wSrvReq, wCancel, wDeadline, wClose, wFeedErr int
	wFeedBad, wSendFault, wCbGate, wLateOp                            int
	steps                                                             int
	scriptOf4                                                         int // how many of 4 scenarios are reply-script scenarios
	faultOf16                                                         int // chance (of 16) to fail an individual Send
}

var cliFamilies = map[string]cliFamily{
	"cli:c04": {name: "c04", wOp: 6, wReply: 14, wJunk: 4, wSrvReq: 3, wCancel: 1, wDeadline: 1, wClose: 0, wFeedErr: 0,
		wFeedBad: 0, wSendFault: 1, wCbGate: 3, steps: 14, scriptOf4: 3, faultOf16: 1},
	"cli:c05": {name: "c05", wOp: 8, wReply: 8, wJunk: 2, wSrvReq: 2, wCancel: 6, wDeadline: 4, wClose: 3, wFeedErr: 3,
		wFeedBad: 1, wSendFault: 2, wCbGate: 2, wLateOp: 3, steps: 16, scriptOf4: 0, faultOf16: 2},
	// channel discipline on the client's side (C10): every kind of action, so that Send, Recv and Close of the
	// client's channel are exercised against each other (the instrumented channel's monitors judge)
	// the client as the peer of a pushing server (C09): server requests above all, callback handlers that succeed,
	// fail with coded and uncoded errors, return values that cannot be encoded, or panic
	"cli:c09": {name: "c09", wOp: 3, wReply: 4, wJunk: 1, wSrvReq: 12, wCancel: 1, wDeadline: 1, wClose: 1, wFeedErr: 1,
		wFeedBad: 0, wSendFault: 1, wCbGate: 12, wLateOp: 1, steps: 16, scriptOf4: 0, faultOf16: 1},
	"cli:c10": {name: "c10", wOp: 8, wReply: 8, wJunk: 2, wSrvReq: 4, wCancel: 4, wDeadline: 3, wClose: 3, wFeedErr: 2,
		wFeedBad: 1, wSendFault: 2, wCbGate: 3, wLateOp: 3, steps: 16, scriptOf4: 0, faultOf16: 2},
}

type cliScen struct {
	r      *cliRun
	g      *rng
	f      cliFamily
	policy string
	tier   string
	tok    int
	stepNo int
	total  int
	// noInject: no transport faults around single Sends (the exhaustive reply scripts of the thorough
	// tier enumerate the permutations of exactly exN replies, so every request must reach the peer)
	noInject bool
}

func (s *cliScen) newTok() string { s.tok++; return strconv.Itoa(s.tok) }

func (s *cliScen) pickParked(n int) int {
	if s.policy == "fifo" {
		return 0
	}
	return s.g.intn(n)
}

// release lets parked goroutine i run; around a goroutine that is about to use the
// channel's Send a transport fault may be injected (fault at that operation index).
func (s *cliScen) release(i int) {
	site := s.r.sc.siteOf(i)
	inject := s.f.faultOf16 > 0 && !s.noInject && (site == "cli.send" || site == "cli.cbreply") && !s.r.sendFail && s.g.chance(s.f.faultOf16, 16)
	if inject {
		s.r.sendFault(true)
	}
	s.r.releaseOne(i)
	if inject {
		s.r.sendFault(false)
	}
}

func (s *cliScen) racing() bool { return s.policy == "race" }

func (s *cliScen) drain() {
	if s.racing() {
		s.r.settle()
		return
	}
	for s.r.sc.nparked() > 0 {
		s.release(s.pickParked(s.r.sc.nparked()))
	}
	s.r.logParked()
	s.r.snapshot()
}

func (s *cliScen) sched() {
	if s.racing() {
		// mostly keep racing; now and then let everything settle
		if s.g.chance(1, 4) {
			s.r.settle()
		}
		return
	}
	if s.policy == "fifo" || s.g.chance(1, 4) {
		s.drain()
		return
	}
	k := s.g.intn(4)
	for i := 0; i < k && s.r.sc.nparked() > 0; i++ {
		s.release(s.pickParked(s.r.sc.nparked()))
	}
}

func (s *cliScen) spec(notify bool) cspec {
	// mostly plain method names, some that need escaping on the wire
	sp := cspec{method: pick(s.g, []string{"m", "m", "echo", "rpc.x", "m", "m", "echo", "m\x01", "b\a\v", "d\x7f", "q\"\\", "<&>", "t\U000e0001", "l\u2028"}), notify: notify}
	switch s.g.intn(6) {
	case 0:
		sp.params = ""
		sp.method += s.newTok() // keep the request identifiable without params
	case 1:
		sp.params = `{"t":` + s.newTok() + `}`
	default:
		sp.params = "[" + s.newTok() + "]"
	}
	return sp
}

func (s *cliScen) startRandomOp() {
	g := s.g
	dl := g.chance(1, 4)
	switch x := g.intn(10); {
	case x < 5:
		sp := s.spec(false)
		if g.chance(1, 20) {
			sp.bad = true
		}
		s.r.startOp("call", []cspec{sp}, dl)
	case x < 9:
		n := 1 + g.intn(4)
		if g.chance(1, 25) {
			n = 0
		}
		var specs []cspec
		for i := 0; i < n; i++ {
			sp := s.spec(g.chance(1, 3))
			if g.chance(1, 25) {
				sp.bad = true
			}
			specs = append(specs, sp)
		}
		s.r.startOp("batch", specs, dl)
	default:
		s.r.startOp("notify", []cspec{s.spec(true)}, dl)
	}
}

func (s *cliScen) payloadResult() string {
	return pick(s.g, []string{`{"v":` + s.newTok() + `}`, "true", "null", `"s` + s.newTok() + `"`, s.newTok(), `[1,2]`})
}

var cliErrCodes = []int{-32000, 7, -32097, -32096, -32601, -32603, -32700, -32099, 0, -32098, -32600, -32602}

// replyFor builds one reply-shaped member for id in a random shape.
func (s *cliScen) replyFor(id string) cmember {
	g := s.g
	switch x := g.intn(20); {
	case x < 10:
		return cmResult(id, s.payloadResult())
	case x < 14:
		data := ""
		if g.chance(1, 3) {
			data = `{"d":` + s.newTok() + `}`
		}
		return cmError(id, pick(g, cliErrCodes), "peer says no "+s.newTok(), data)
	case x < 15:
		return cmBadVersion(id, s.payloadResult())
	case x < 16:
		return cmNoVersion(id, s.payloadResult())
	case x < 17:
		return cmExtra(id, s.payloadResult())
	case x < 18:
		return cmBoth(id, s.payloadResult(), pick(g, cliErrCodes), "both "+s.newTok())
	case x < 19:
		return cmBare(id)
	default:
		return cmMixed(id, "mm", s.payloadResult())
	}
}

// strangeID returns an id that is not the raw text of any request id of the client.
func (s *cliScen) strangeID(known []string) string {
	g := s.g
	base := "1"
	if len(known) > 0 {
		base = pick(g, known)
	}
	return pick(g, []string{`"` + base + `"`, base + ".0", "99", "0", "-" + base, `"x"`, "null", "", base + "e0"})
}

func (s *cliScen) junkMember(known []string) cmember {
	g := s.g
	switch g.intn(6) {
	case 0:
		return cmNonObject()
	case 1:
		return cmBadID(s.payloadResult())
	case 2, 3:
		return s.replyFor(s.strangeID(known))
	default:
		id := s.strangeID(known)
		if g.chance(1, 2) {
			return cmResult(id, s.payloadResult())
		}
		return cmError(id, -32000, "stray "+s.newTok(), "")
	}
}

func (s *cliScen) srvRequest() cmember {
	g := s.g
	p := "[" + s.newTok() + "]"
	if g.chance(1, 2) {
		return cmRequest(pick(g, []string{"", "", "null"}), pick(g, []string{"note", "progress"}), p)
	}
	// ids of server requests may collide with the client's own ids: they live in another id space
	return cmRequest(pick(g, []string{"1", "2", `"cb"`, "7"}), "callme", p)
}

func (s *cliScen) seen() []string {
	s.r.ch.mu.Lock()
	defer s.r.ch.mu.Unlock()
	return append([]string(nil), s.r.ch.seen...)
}

// feedRandomRecord sends one record of 1-3 members around a reply for a seen id.
func (s *cliScen) feedRandomRecord(kind int) {
	g := s.g
	known := s.seen()
	var ms []cmember
	n := 1
	if g.chance(1, 3) {
		n = 1 + g.intn(3)
	}
	for i := 0; i < n; i++ {
		k := kind
		if i > 0 {
			k = g.intn(3)
		}
		switch {
		case k == 0 && len(known) > 0:
			ms = append(ms, s.replyFor(pick(g, known)))
		case k == 1 || (k == 0 && len(known) == 0):
			ms = append(ms, s.junkMember(known))
		default:
			ms = append(ms, s.srvRequest())
		}
	}
	s.r.feedRecord(n > 1 || g.chance(1, 5), ms)
}

func (s *cliScen) walkStep() {
	f, g, r := s.f, s.g, s.r
	type act struct {
		w  int
		do func()
	}
	r.mu.Lock()
	cbRunning := append([]string(nil), r.cbRunning...)
	var live []int
	for _, op := range r.ops {
		if !op.ended && op.kind != "close" {
			live = append(live, op.n)
		}
	}
	nops := len(r.ops)
	r.mu.Unlock()
	// stop-causing actions are mostly kept for the later part of a walk, so that replies, cancellations
	// and deadlines race with live operations first
	early := s.stepNo*2 < s.total && !g.chance(1, 5)
	s.stepNo++
	if early {
		f.wClose, f.wFeedErr, f.wFeedBad = 0, 0, 0
	}
	acts := []act{
		{f.wReply, func() { s.feedRandomRecord(0) }},
		{f.wJunk, func() { s.feedRandomRecord(1) }},
		{f.wSrvReq, func() { s.feedRandomRecord(2) }},
		{f.wClose, func() { r.closeOp() }},
		{f.wFeedErr, func() { r.feedErr(pick(g, []string{"eof", "closing", "other", "other"})) }},
		{f.wFeedBad, func() { r.feedBad(pick(g, []string{"garbage", `{"jsonrpc":`, "", "[1,", `{"a":1}{`})) }},
		{f.wSendFault, func() { r.sendFault(!r.sendFail) }},
	}
	if nops < 6 {
		acts = append(acts, act{f.wOp, s.startRandomOp})
	} else if nops < 9 {
		acts = append(acts, act{f.wLateOp, s.startRandomOp})
	}
	if len(live) > 0 {
		acts = append(acts, act{f.wCancel, func() { r.ctxCancel(pick(g, live)) }})
	}
	if op := r.nextDeadlineOp(); op != nil {
		acts = append(acts, act{f.wDeadline, func() { r.ctxDeadline(op) }})
	}
	if len(cbRunning) > 0 {
		acts = append(acts, act{f.wCbGate, func() {
			p := pick(g, cbRunning)
			if g.chance(1, 4) {
				r.cbGate(p, cgate{code: pick(g, []int{-32000, 5}), msg: "callback says no"})
			} else if g.chance(1, 4) {
				r.cbGate(p, cbFailure(pick(g, []string{"plain", "nan", "chan", "panic", "baddata"})))
			} else {
				r.cbGate(p, cgate{res: pick(g, []string{"true", `{"r":1}`, `"ok"`})})
			}
		}})
	}
	total := 0
	for _, a := range acts {
		total += a.w
	}
	x := g.intn(total)
	for _, a := range acts {
		if x < a.w {
			a.do()
			break
		}
		x -= a.w
	}
	s.sched()
}

// permutation number k of 0..n-1 (factorial number system)
func nthPerm(n, k int) []int {
	elems := make([]int, n)
	for i := range elems {
		elems[i] = i
	}
	var out []int
	for i := n; i >= 1; i-- {
		f := 1
		for j := 2; j < i; j++ {
			f *= j
		}
		q := k / f
		k %= f
		out = append(out, elems[q])
		elems = append(elems[:q], elems[q+1:]...)
	}
	return out
}

func fact(n int) int {
	f := 1
	for i := 2; i <= n; i++ {
		f *= i
	}
	return f
}

// exhaustiveCase maps idx to (number of calls, permutation, composition mask) over all
// permutations and all partitions into consecutive groups for 1..4 replies: 1+4+24+192 = 221 cases.
func exhaustiveCase(idx int) (n, perm, mask int, ok bool) {
	for n = 1; n <= 4; n++ {
		c := fact(n) * (1 << (n - 1))
		if idx < c {
			return n, idx / (1 << (n - 1)), idx % (1 << (n - 1)), true
		}
		idx -= c
	}
	return 0, 0, 0, false
}

const cliExhaustive = 221

// scriptScenario: operations first, then the reply script.
func (s *cliScen) scriptScenario(idx int) {
	g, r := s.g, s.r
	exN, exPerm, exMask, exhaustive := 0, 0, 0, false
	if s.tier == "thorough" && s.f.name == "c04" {
		exN, exPerm, exMask, exhaustive = exhaustiveCase(idx)
	}
	if exhaustive {
		s.noInject = true
		for i := 0; i < exN; i++ {
			r.startOp("call", []cspec{s.spec(false)}, false)
			s.sched()
		}
	} else {
		nops := 1 + g.intn(5)
		for i := 0; i < nops; i++ {
			s.startRandomOp()
			s.sched()
		}
	}
	s.drain()
	known := s.seen()
	// one reply per id ...
	var replies []cmember
	for _, id := range known {
		if exhaustive {
			replies = append(replies, cmResult(id, `{"v":`+s.newTok()+`}`))
		} else {
			replies = append(replies, s.replyFor(id))
		}
	}
	// ... in a permutation ...
	order := make([]int, len(replies))
	if exhaustive {
		copy(order, nthPerm(len(replies), exPerm))
	} else {
		for i := range order {
			order[i] = i
		}
		for i := len(order) - 1; i > 0; i-- {
			j := g.intn(i + 1)
			order[i], order[j] = order[j], order[i]
		}
	}
	var seq []cmember
	for _, i := range order {
		seq = append(seq, replies[i])
		if exhaustive {
			continue
		}
		// ... decorated with duplicates (differing payloads), strangers, junk and server requests
		if g.chance(1, 5) {
			seq = append(seq, s.replyFor(replies[i].id))
		}
		if g.chance(1, 5) {
			seq = append(seq, s.junkMember(known))
		}
		if g.chance(1, 6) {
			seq = append(seq, s.srvRequest())
		}
	}
	if !exhaustive && g.chance(1, 4) {
		seq = append([]cmember{s.junkMember(known)}, seq...)
	}
	// ... partitioned into records
	var recs [][]cmember
	var cur []cmember
	for i, m := range seq {
		cur = append(cur, m)
		cut := g.chance(1, 2)
		if exhaustive {
			cut = i < len(seq)-1 && exMask&(1<<i) != 0
		}
		if cut || i == len(seq)-1 {
			recs = append(recs, cur)
			cur = nil
		}
	}
	for _, rec := range recs {
		batch := len(rec) > 1 || g.chance(1, 4)
		r.feedRecord(batch, rec)
		s.sched()
	}
	s.drain()
	// a few more steps: late duplicates, another operation reusing nothing
	for i := g.intn(4); i > 0 && !exhaustive; i-- {
		s.walkStep()
	}
}

func (s *cliScen) run(idx int) {
	s.sched()
	if s.racing() && (s.f.scriptOf4 == 0 || (idx/6)%3 == 0) {
		s.raceRun()
		return
	}
	if s.f.scriptOf4 > 0 && (idx%4 < s.f.scriptOf4 || (s.tier == "thorough" && idx < cliExhaustive)) {
		s.scriptScenario(idx)
		return
	}
	n := s.f.steps/2 + s.g.intn(s.f.steps)
	s.total = n
	for i := 0; i < n; i++ {
		s.walkStep()
	}
}

// epilogue brings the client to its end: callbacks return, Close, the peer closes its
// side (EOF), every context ends.  After that no goroutine may be left.
func (s *cliScen) epilogue() {
	r := s.r
	if s.racing() {
		r.quiet = true // from here on every action is followed by quiescence
		r.ch.auto.Store(false)
	}
	s.drain()
	for {
		r.mu.Lock()
		running := append([]string(nil), r.cbRunning...)
		r.mu.Unlock()
		if len(running) == 0 || s.g.chance(1, 3) {
			break
		}
		r.cbGate(running[0], cgate{res: "true"})
		s.drain()
	}
	if r.sendFail {
		r.sendFault(false)
	}
	r.closeOp()
	s.drain()
	r.feedErr("eof")
	s.drain()
	r.mu.Lock()
	var live []int
	for _, op := range r.ops {
		if !op.ended {
			live = append(live, op.n)
		}
	}
	r.mu.Unlock()
	for _, n := range live {
		r.ctxCancel(n)
	}
	s.drain()
	r.mu.Lock()
	for _, op := range r.ops {
		op.cancel()
	}
	r.mu.Unlock()
}

// ---------------------------------------------------------------------------
// racing mode (policy "race"): rounds of actions issued back to back

// startKnown starts a Call or a small Batch, lets its request reach the peer and returns the
// operation and the ids the peer saw for it (none if the transmission failed).
func (s *cliScen) startKnown() (*cliOp, []string) {
	g, r := s.g, s.r
	before := len(s.seen())
	dl := g.chance(1, 4)
	var n int
	if g.chance(2, 3) {
		n = r.startOp("call", []cspec{s.spec(false)}, dl)
	} else {
		var specs []cspec
		for i := 1 + g.intn(3); i > 0; i-- {
			specs = append(specs, s.spec(g.chance(1, 4)))
		}
		n = r.startOp("batch", specs, dl)
	}
	r.settle()
	r.mu.Lock()
	op := r.ops[n]
	r.mu.Unlock()
	return op, s.seen()[before:]
}

// feedReplies feeds the replies for ids: one record, or one record per id.
func (s *cliScen) feedReplies(ids []string) {
	if len(ids) == 0 {
		return
	}
	var ms []cmember
	for _, id := range ids {
		ms = append(ms, s.replyFor(id))
	}
	if len(ms) > 1 && s.g.chance(1, 2) {
		for _, i := range nthPerm(len(ms), s.g.intn(fact(len(ms)))) {
			s.r.feedRecord(s.g.chance(1, 5), ms[i:i+1])
		}
		return
	}
	s.r.feedRecord(len(ms) > 1 || s.g.chance(1, 5), ms)
}

// endCtx ends the context of op: by its deadline if it has one and that is the next to fire, else
// by cancelling it.
func (s *cliScen) endCtx(op *cliOp) {
	if !op.deadline.IsZero() && s.r.nextDeadlineOp() == op && s.g.chance(3, 4) {
		s.r.ctxDeadline(op)
		return
	}
	s.r.ctxCancel(op.n)
}

// duelRound: 1-3 operations whose requests have reached the peer; then, for each of them and
// without waiting in between, the end of its context and the peer's reply to that very request,
// in either order (sometimes with a second reply, sometimes only one of the two).
func (s *cliScen) duelRound() {
	g := s.g
	type duel struct {
		op  *cliOp
		ids []string
	}
	var ds []duel
	s.r.settle()
	for i := 1 + g.intn(3); i > 0; i-- {
		r := s.r
		r.mu.Lock()
		nops := len(r.ops)
		r.mu.Unlock()
		if nops >= 24 {
			break
		}
		op, ids := s.startKnown()
		ds = append(ds, duel{op, ids})
	}
	// between the two actions of a duel: nothing, or a few yields (the second action then meets the
	// consequences of the first at another stage)
	gap := func() { cyield(pick(g, []int{0, 0, 0, 1, 3, 8, 20, 50})) }
	for _, d := range ds {
		switch x := g.intn(10); {
		case x < 4:
			s.endCtx(d.op)
			gap()
			s.feedReplies(d.ids)
		case x < 8:
			s.feedReplies(d.ids)
			gap()
			s.endCtx(d.op)
		case x < 9:
			s.endCtx(d.op)
			s.feedReplies(d.ids)
			gap()
			s.feedReplies(d.ids)
		default:
			s.feedReplies(d.ids)
		}
	}
}

func (s *cliScen) liveOps() []*cliOp {
	r := s.r
	r.mu.Lock()
	defer r.mu.Unlock()
	var live []*cliOp
	for _, op := range r.ops {
		if !op.ended && op.kind != "close" {
			live = append(live, op)
		}
	}
	return live
}

// burstRound: the peer answers at once (from inside Send, before the client has registered the
// request); operations are started back to back, some of their contexts end at once, transport
// faults come and go.
func (s *cliScen) burstRound() {
	g, r := s.g, s.r
	r.ch.auto.Store(g.chance(3, 4))
	for i := 2 + g.intn(4); i > 0; i-- {
		r.mu.Lock()
		nops := len(r.ops)
		r.mu.Unlock()
		if nops >= 24 {
			break
		}
		if g.chance(1, 5) {
			r.sendFault(!r.sendFail)
		}
		s.startRandomOp()
		if g.chance(1, 3) {
			r.ctxCancel(nops)
		}
		if g.chance(1, 6) {
			r.settle()
		}
	}
	if r.sendFail {
		r.sendFault(false)
	}
	r.ch.auto.Store(false)
}

// stopRound: what stops the client (Close, a Recv error, a record that is not JSON) races with
// replies to the outstanding requests and with the ends of their contexts.
func (s *cliScen) stopRound() {
	g, r := s.g, s.r
	for i := g.intn(3); i > 0; i-- {
		if i == 1 {
			r.settle()
		}
		s.startKnown()
	}
	known := s.seen()
	var acts []func()
	switch g.intn(4) {
	case 0, 1:
		acts = append(acts, func() { r.closeOp() })
	case 2:
		acts = append(acts, func() { r.feedErr(pick(g, []string{"eof", "closing", "other", "other"})) })
	default:
		acts = append(acts, func() { r.feedBad(pick(g, []string{"garbage", `{"jsonrpc":`, "[1,"})) })
	}
	for _, op := range s.liveOps() {
		op := op
		if g.chance(1, 3) {
			acts = append(acts, func() { r.ctxCancel(op.n) })
		}
	}
	if len(known) > 0 {
		for i := 1 + g.intn(3); i > 0; i-- {
			acts = append(acts, func() { s.feedReplies([]string{pick(g, known)}) })
		}
	}
	if g.chance(1, 3) {
		acts = append(acts, s.startRandomOp)
	}
	for i := len(acts) - 1; i > 0; i-- {
		j := g.intn(i + 1)
		acts[i], acts[j] = acts[j], acts[i]
	}
	for _, a := range acts {
		a()
	}
}

// wrapRound: a client that has lived long - its request counter stands just below 2^31 - with a request issued
// early in its life still unanswered: ids stay unique whatever the counter's value.
func (s *cliScen) wrapRound() {
	r := s.r
	first, _ := s.startKnown() // keeps its (small) id pending
	_ = first
	r.cli.VerifSetNextID(math.MaxInt32 - 1)
	for i := 0; i < 4; i++ {
		s.startKnown()
	}
	r.settle()
}

func (s *cliScen) raceRun() {
	g := s.g
	if g.chance(1, 4) {
		s.wrapRound()
	}
	rounds := 2 + g.intn(4)
	for i := 0; i < rounds; i++ {
		switch x := g.intn(10); {
		case x < 5:
			s.duelRound()
		case x < 7:
			s.burstRound()
		default:
			k := 2 + g.intn(5)
			s.total, s.stepNo = 2*k, 0 // the stop-causing actions are kept for stopRound
			for j := 0; j < k; j++ {
				s.walkStep()
			}
		}
		if g.chance(1, 2) {
			s.r.settle()
		}
	}
	if g.chance(1, 2) {
		s.stopRound()
	}
}

var _ = fmt.Sprint
