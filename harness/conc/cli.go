package conc

// Client scenarios (component "cli", families cli:c04 and cli:c05): a real
// jrpc2.Client on an instrumented in-memory channel whose other end is a raw
// peer scripted by the scenario.  Every goroutine of the client parks at the
// verif scheduling points (cli.*); the scenario driver releases them one at a
// time (fifo = quiescent stepping, random = seeded schedule) and logs, per
// window, the environment action or released point and the observations made.

import (
	"bufio"
	"context"
	"encoding/hex"
	"encoding/json"
	"errors"
	"fmt"
	"io"
	"math"
	"os"
	"runtime"
	"sort"
	"strconv"
	"strings"
	"sync"
	"sync/atomic"
	"testing"
	"testing/synctest"
	"time"

	"github.com/creachadair/jrpc2"
	"github.com/creachadair/jrpc2/channel"
)

func chex(b string) string {
	if len(b) == 0 {
		return "-"
	}
	return hex.EncodeToString([]byte(b))
}

func cbit(b bool) string {
	if b {
		return "1"
	}
	return "0"
}

// ---------------------------------------------------------------------------
// log and scheduler (own copies of the ideas in sched.go)

type clog struct {
	mu  sync.Mutex
	out *bufio.Writer
	win []string
	// direct: observations are written at once instead of per window (racing mode, where there
	// are no windows; the order of the log lines is then the order of this mutex)
	direct bool
}

func (l *clog) obs(format string, args ...any) {
	l.mu.Lock()
	if l.direct {
		l.out.WriteString("o\t" + fmt.Sprintf(format, args...))
		l.out.WriteByte('\n')
		l.out.Flush()
	} else {
		l.win = append(l.win, "o\t"+fmt.Sprintf(format, args...))
	}
	l.mu.Unlock()
}

func (l *clog) item(format string, args ...any) {
	l.mu.Lock()
	fmt.Fprintf(l.out, format, args...)
	l.out.WriteByte('\n')
	l.out.Flush()
	l.mu.Unlock()
}

func (l *clog) flush() {
	l.mu.Lock()
	for _, w := range l.win {
		l.out.WriteString(w)
		l.out.WriteByte('\n')
	}
	l.out.Flush()
	l.win = nil
	l.mu.Unlock()
}

type cparked struct {
	site string
	ch   chan struct{}
}

type csched struct {
	mu     sync.Mutex
	parked []*cparked
	on     bool
}

func (s *csched) point(site string) {
	if !strings.HasPrefix(site, "cli.") {
		return
	}
	s.mu.Lock()
	if !s.on {
		s.mu.Unlock()
		return
	}
	p := &cparked{site: site, ch: make(chan struct{})}
	s.parked = append(s.parked, p)
	s.mu.Unlock()
	<-p.ch
}

func (s *csched) off() {
	s.mu.Lock()
	s.on = false
	ps := s.parked
	s.parked = nil
	s.mu.Unlock()
	for _, p := range ps {
		close(p.ch)
	}
}

func (s *csched) parkedLine() string {
	s.mu.Lock()
	defer s.mu.Unlock()
	cnt := map[string]int{}
	for _, p := range s.parked {
		cnt[p.site]++
	}
	var keys []string
	for k := range cnt {
		keys = append(keys, k)
	}
	sort.Strings(keys)
	var parts []string
	for _, k := range keys {
		parts = append(parts, fmt.Sprintf("%s:%d", k, cnt[k]))
	}
	if len(parts) == 0 {
		return "-"
	}
	return strings.Join(parts, ",")
}

func (s *csched) nparked() int {
	s.mu.Lock()
	defer s.mu.Unlock()
	return len(s.parked)
}

func (s *csched) siteOf(i int) string {
	s.mu.Lock()
	defer s.mu.Unlock()
	return s.parked[i].site
}

func (s *csched) release(i int) {
	s.mu.Lock()
	p := s.parked[i]
	s.parked = append(s.parked[:i], s.parked[i+1:]...)
	s.mu.Unlock()
	close(p.ch)
	synctest.Wait()
}

// ---------------------------------------------------------------------------
// the instrumented channel; its other end is the scenario (a scripted raw peer)

var (
	cErrSendFail = errors.New("cchan: send failed")
	cErrClosing  = fmt.Errorf("cchan: %w", channel.ErrClosed)
	cErrOther    = errors.New("fchan: transport failure")
	// the library's errInvalidRequest sentinel (the error a non-JSON record stops the client with)
	_, cErrInvalidRequest = jrpc2.ParseRequests([]byte("not json"))
)

type cfeed struct {
	data []byte
	err  error
}

type cchan struct {
	log     *clog
	feeds   chan cfeed
	closed  chan struct{}
	unblock bool

	mu       sync.Mutex
	isClosed bool
	nclose   int
	failSend bool
	seen     []string // ids of requests transmitted successfully, in order
	faults   []string

	sending, recving, closing atomic.Int32
	tryLock                   func() bool

	// racing mode: race = the log is direct and Send/Close stay inside for a few yields; auto = the
	// peer answers every request it receives at once (from inside Send) with a result of its own
	race  bool
	auto  atomic.Bool
	autoN atomic.Int64
}

func newCchan(log *clog, unblock bool) *cchan {
	return &cchan{log: log, feeds: make(chan cfeed, 4096), closed: make(chan struct{}), unblock: unblock}
}

func (c *cchan) fault(f string) {
	c.mu.Lock()
	c.faults = append(c.faults, f)
	c.mu.Unlock()
}

func (c *cchan) Recv() ([]byte, error) {
	if c.recving.Add(1) > 1 {
		c.fault("two Recv calls in progress")
	}
	defer c.recving.Add(-1)
	select {
	case f := <-c.feeds:
		return f.data, f.err
	default:
	}
	if c.unblock {
		select {
		case f := <-c.feeds:
			return f.data, f.err
		case <-c.closed:
			return nil, cErrClosing
		}
	}
	f := <-c.feeds
	return f.data, f.err
}

func (c *cchan) Send(b []byte) error {
	if c.sending.Add(1) > 1 {
		c.fault("two Send calls in progress")
	}
	if c.closing.Load() > 0 {
		c.fault("Send overlaps Close")
	}
	defer c.sending.Add(-1)
	if c.tryLock != nil && c.tryLock() {
		c.fault("Send called without holding the client's mutex")
	}
	if c.race {
		// stay inside Send for a while so that an unserialised second user of the channel overlaps
		for i := 0; i < 3; i++ {
			runtime.Gosched()
		}
	}
	c.mu.Lock()
	ok := !c.isClosed && !c.failSend
	line, ids := canonCliSend(b, ok)
	if c.race {
		// racing mode: the record is in the log before the scenario can see its ids (and answer them)
		c.log.obs("%s", line)
	}
	if ok {
		c.seen = append(c.seen, ids...)
	}
	c.mu.Unlock()
	if !c.race {
		c.log.obs("%s", line)
	}
	if !ok {
		return cErrSendFail
	}
	if c.race && c.auto.Load() {
		c.autoReply(ids)
	}
	return nil
}

// autoReply (racing mode) is the instant peer: the replies to the requests of a record are fed
// while the client is still inside Send, i.e. before it has registered the requests as pending.
func (c *cchan) autoReply(ids []string) {
	if len(ids) == 0 {
		return
	}
	var ms []cmember
	for _, id := range ids {
		ms = append(ms, cmResult(id, fmt.Sprintf(`{"auto":%d}`, c.autoN.Add(1))))
	}
	if len(ms) > 1 && c.autoN.Load()%2 == 0 {
		// each reply in a record of its own, in reverse order
		for i := len(ms) - 1; i >= 0; i-- {
			c.feedMembers(false, ms[i:i+1])
		}
		return
	}
	c.feedMembers(len(ms) > 1, ms)
}

// feedMembers logs and feeds one well-formed record (the log line precedes the feed).
func (c *cchan) feedMembers(batch bool, ms []cmember) {
	var wires, logs []string
	for _, m := range ms {
		wires = append(wires, m.wire)
		logs = append(logs, m.log())
	}
	data := wires[0]
	if batch {
		data = "[" + strings.Join(wires, ",") + "]"
	}
	c.log.item("env\tfeed\tmsg\t%s\t%s\t%s", cbit(batch), strings.Join(logs, ";"), chex(data))
	c.feeds <- cfeed{[]byte(data), nil}
}

func (c *cchan) Close() error {
	if c.closing.Add(1) > 1 {
		c.fault("two Close calls in progress")
	}
	if c.sending.Load() > 0 {
		c.fault("Close overlaps Send")
	}
	defer c.closing.Add(-1)
	if c.tryLock != nil && c.tryLock() {
		c.fault("Close called without holding the client's mutex")
	}
	if c.race {
		for i := 0; i < 3; i++ {
			runtime.Gosched()
		}
	}
	c.mu.Lock()
	c.nclose++
	first := !c.isClosed
	c.isClosed = true
	c.mu.Unlock()
	c.log.obs("close")
	if first {
		close(c.closed)
	}
	return nil
}

// canonCliSend renders a record the client passed to Send:
//
//	sendreq <ok> <batch> <idhex>,<methodhex>,<paramshex>;...
//	sendrsp <ok> <idhex> R,<rawhex> | E,<code>,<msghex>
//	sendbad <ok> <hex>
//
// and returns the ids of the requests it carries.
func canonCliSend(b []byte, ok bool) (string, []string) {
	bad := func() (string, []string) { return "sendbad\t" + cbit(ok) + "\t" + chex(string(b)), nil }
	var raws []json.RawMessage
	batch := false
	if firstByte(b) == '[' {
		if err := json.Unmarshal(b, &raws); err != nil || len(raws) == 0 {
			return bad()
		}
		batch = true
	} else {
		raws = []json.RawMessage{b}
	}
	var ms, ids []string
	for _, raw := range raws {
		var m map[string]json.RawMessage
		if err := json.Unmarshal(raw, &m); err != nil {
			return bad()
		}
		var v string
		if json.Unmarshal(m["jsonrpc"], &v) != nil || v != "2.0" {
			return bad()
		}
		if mr, has := m["method"]; has {
			var method string
			if json.Unmarshal(mr, &method) != nil {
				return bad()
			}
			if _, r := m["result"]; r {
				return bad()
			}
			if _, e := m["error"]; e {
				return bad()
			}
			ms = append(ms, chex(string(m["id"]))+","+chex(method)+","+chex(string(m["params"])))
			if id, has := m["id"]; has {
				ids = append(ids, string(id))
			}
			continue
		}
		// a reply to a server callback
		if batch || len(raws) != 1 {
			return bad()
		}
		id, hasID := m["id"]
		if !hasID {
			return bad()
		}
		_, hasR := m["result"]
		_, hasE := m["error"]
		switch {
		case hasR && !hasE:
			return fmt.Sprintf("sendrsp\t%s\t%s\tR,%s", cbit(ok), chex(string(id)), chex(string(m["result"]))), nil
		case hasE && !hasR:
			var e struct {
				Code    *int64  `json:"code"`
				Message *string `json:"message"`
			}
			if json.Unmarshal(m["error"], &e) != nil || e.Code == nil {
				return bad()
			}
			msg := ""
			if e.Message != nil {
				msg = *e.Message
			}
			return fmt.Sprintf("sendrsp\t%s\t%s\tE,%d,%s", cbit(ok), chex(string(id)), *e.Code, chex(msg)), nil
		default:
			return bad()
		}
	}
	return fmt.Sprintf("sendreq\t%s\t%s\t%s", cbit(ok), cbit(batch), strings.Join(ms, ";")), ids
}

// ---------------------------------------------------------------------------
// abstract inbound members and their wire form (json.go jmessage after parsing)

type cmember struct {
	id, method, params string
	ecode              *int // "error" member
	emsg, edata        string
	result             string
	errcode            int // deferred validation error (0 = none)
	errmsg, errdata    string
	wire               string
}

func (m cmember) log() string {
	e := "-"
	if m.ecode != nil {
		e = fmt.Sprintf("%d:%s:%s", *m.ecode, chex(m.emsg), chex(m.edata))
	}
	v := "-"
	if m.errcode != 0 {
		v = fmt.Sprintf("%d:%s:%s", m.errcode, chex(m.errmsg), chex(m.errdata))
	}
	return strings.Join([]string{chex(m.id), chex(m.method), chex(m.params), e, chex(m.result), v}, ",")
}

func cjstr(s string) string { b, _ := json.Marshal(s); return string(b) }

const cv2 = `"jsonrpc":"2.0"`

func cobj(fields ...string) string {
	var fs []string
	for _, f := range fields {
		if f != "" {
			fs = append(fs, f)
		}
	}
	return "{" + strings.Join(fs, ",") + "}"
}

func idField(id string) string {
	if id == "" {
		return ""
	}
	return `"id":` + id
}

func cmResult(id, result string) cmember {
	return cmember{id: id, result: result, wire: cobj(cv2, idField(id), `"result":`+result)}
}
func cmError(id string, code int, msg, data string) cmember {
	e := fmt.Sprintf(`"error":{"code":%d,"message":%s`, code, cjstr(msg))
	if data != "" {
		e += `,"data":` + data
	}
	e += "}"
	return cmember{id: id, ecode: &code, emsg: msg, edata: data, wire: cobj(cv2, idField(id), e)}
}

// a reply carrying both result and error: valid for the parser, the error wins for the caller
func cmBoth(id, result string, code int, msg string) cmember {
	m := cmError(id, code, msg, "")
	m.result = result
	m.wire = m.wire[:len(m.wire)-1] + `,"result":` + result + "}"
	return m
}

// a reply with neither result nor error
func cmBare(id string) cmember { return cmember{id: id, wire: cobj(cv2, idField(id))} }

func cmBadVersion(id, result string) cmember {
	m := cmResult(id, result)
	m.wire = strings.Replace(m.wire, cv2, `"jsonrpc":"1.0"`, 1)
	m.errcode, m.errmsg = -32600, "invalid version marker"
	return m
}
func cmNoVersion(id, result string) cmember {
	m := cmResult(id, result)
	m.wire = strings.Replace(m.wire, cv2+",", "", 1)
	m.errcode, m.errmsg = -32600, "invalid version marker"
	return m
}
func cmExtra(id, result string) cmember {
	m := cmResult(id, result)
	m.wire = m.wire[:len(m.wire)-1] + `,"zzz":1}`
	m.errcode, m.errmsg, m.errdata = -32600, "extra fields in request", `["zzz"]`
	return m
}
func cmBadID(result string) cmember {
	return cmember{result: result, errcode: -32600, errmsg: "invalid request ID", wire: cobj(cv2, `"id":true`, `"result":`+result)}
}
func cmNonObject() cmember {
	return cmember{errcode: -32700, errmsg: "request is not a JSON object", wire: `7`}
}
func cmMixed(id, method, result string) cmember {
	return cmember{id: id, method: method, result: result, errcode: -32600, errmsg: "mixed request and reply fields",
		wire: cobj(cv2, idField(id), `"method":`+cjstr(method), `"result":`+result)}
}
func cmRequest(id, method, params string) cmember {
	p := ""
	if params != "" {
		p = `"params":` + params
	}
	return cmember{id: id, method: method, params: params, wire: cobj(cv2, idField(id), `"method":`+cjstr(method), p)}
}

// ---------------------------------------------------------------------------
// the scenario runner

type cliConfig struct {
	unblock, onCancel, onNotify, onCallback bool
	timeoutErr                              bool // transport failures report Timeout()/Temporary()
}

type cspec struct {
	method, params string
	notify, bad    bool
}

type cgate struct {
	res  string
	code int
	msg  string
	// how the handler fails (code != 0): "" a *jrpc2.Error{code, msg}; "plain" an error that is not an ErrCoder;
	// "nan" / "chan" it returns a VALUE encoding/json cannot encode and no error; "panic" it panics.
	// The last four are failures with the code of errors that carry none (-32098) and, as message, the
	// text of the error / of encoding/json's refusal / "panic in callback handler: " + the value.
	how string
}

const cbSystemError = -32098

// cbFailure builds a callback outcome that fails in the given way; code and msg are what the server is to see.
func cbFailure(how string) cgate {
	switch how {
	case "plain":
		return cgate{code: cbSystemError, msg: "callback says no, plainly", how: how}
	case "nan":
		return cgate{code: cbSystemError, msg: "json: unsupported value: NaN", how: how}
	case "chan":
		return cgate{code: cbSystemError, msg: "json: unsupported type: chan int", how: how}
	case "panic":
		return cgate{code: cbSystemError, msg: "panic in callback handler: boom", how: how}
	case "baddata":
		// an *Error whose data are not valid JSON: sent without them (fix a8edc0b), never as an empty record
		return cgate{code: 5, msg: "callback says no", how: how}
	}
	return cgate{code: -32000, msg: "callback says no"}
}

type cliOp struct {
	n        int
	kind     string // call | batch | notify | close
	ctx      context.Context
	cancel   context.CancelFunc
	deadline time.Time // zero: none
	ended    bool
	returns  int
}

type cliRun struct {
	cfg cliConfig
	log *clog
	sc  *csched
	cli *jrpc2.Client
	ch  *cchan

	mu        sync.Mutex
	ops       []*cliOp
	gates     map[string]chan cgate
	cbRunning []string // params of callback handlers that are waiting for their gate
	ndead     int
	stopCalls int
	faults    []string
	baseGor   int
	sendFail  bool

	// racing mode (policy "race"): no scheduler, environment actions are not separated by quiescence
	// (quiet turns the waiting back on), the hook points and the client's Logger only perturb the Go
	// scheduler, the log is written directly
	race, quiet bool
	perturb     atomic.Uint64
}

func (r *cliRun) rnd() uint64 {
	x := r.perturb.Add(0x9e3779b97f4a7c15)
	x ^= x >> 30
	x *= 0xbf58476d1ce4e5b9
	x ^= x >> 27
	x *= 0x94d049bb133111eb
	x ^= x >> 31
	return x
}

func cyield(n int) {
	for i := 0; i < n; i++ {
		runtime.Gosched()
	}
}

// racePoint is the hook of racing mode: yield at a pseudo-random subset of the points.
func (r *cliRun) racePoint(site string) {
	switch x := r.rnd(); x % 8 {
	case 0, 1:
		cyield(1)
	case 2:
		cyield(3)
	case 3:
		cyield(int(x>>8) % 24)
	}
}

// raceLogger is the client's Logger in racing mode. The library logs inside its critical
// sections; a logger that takes its time widens every window that contains a log call (and so
// exposes work that was moved out of a critical section).
func (r *cliRun) raceLogger(string) {
	switch x := r.rnd(); x % 8 {
	case 0:
	case 1, 2:
		cyield(1 + int(x>>8)%3)
	case 3, 4:
		cyield(4 + int(x>>8)%12)
	case 5, 6:
		cyield(16 + int(x>>8)%48)
	case 7:
		cyield(64 + int(x>>8)%256)
	}
}

func (r *cliRun) fault(f string) {
	r.mu.Lock()
	r.faults = append(r.faults, f)
	r.mu.Unlock()
}

func causeOf(err error) string {
	switch {
	case err == nil:
		return "none"
	case err == io.EOF:
		return "eof"
	case err == cErrOther || err == errTimeout:
		return "other"
	case channel.IsErrClosing(err):
		return "closing"
	case err.Error() == "the client has been stopped":
		return "closed"
	}
	if err == cErrInvalidRequest {
		return "invalid"
	}
	return "unknown:" + chex(err.Error())
}

func werrText(e *jrpc2.Error) string {
	return fmt.Sprintf("E,%d,%s,%s", int(e.Code), chex(e.Message), chex(string(e.Data)))
}

// failText classifies an error returned by Call/Batch/Notify before or instead of a reply.
func failText(err error) string {
	switch {
	case err == cErrSendFail:
		return "fail\tsendfail"
	case err.Error() == "empty request batch":
		return "fail\temptybatch"
	}
	var e *jrpc2.Error
	if errors.As(err, &e) && e.Code == jrpc2.InvalidRequest && e.Message == "invalid parameters: array or object required" {
		return "fail\tbadparams"
	}
	return "fail\tstopped:" + causeOf(err)
}

func newCliRun(cfg cliConfig, out *bufio.Writer) *cliRun {
	r := &cliRun{cfg: cfg, log: &clog{out: out}, sc: &csched{on: true}, gates: map[string]chan cgate{}}
	r.log.item("cfg\t%s\t%s\t%s\t%s", cbit(cfg.unblock), cbit(cfg.onCancel), cbit(cfg.onNotify), cbit(cfg.onCallback))
	return r
}

func (r *cliRun) start() {
	r.ch = newCchan(r.log, r.cfg.unblock)
	opts := &jrpc2.ClientOptions{
		OnStop: func(c *jrpc2.Client, err error) {
			r.mu.Lock()
			r.stopCalls++
			r.mu.Unlock()
			// the hook may use the client it is given (whoever caused the stop: the reader or Close): the client
			// is stopped by now and its lock is free
			if !c.IsStopped() {
				r.fault("the client given to OnStop is not stopped")
			}
			r.log.obs("onstop\t%s", causeOf(err))
		},
	}
	if r.cfg.onCancel {
		opts.OnCancel = func(_ *jrpc2.Client, rsp *jrpc2.Response) {
			e := "-"
			if rsp.Error() != nil {
				e = werrText(rsp.Error())
			}
			r.log.obs("oncancel\t%s\t%s", chex(rsp.ID()), e)
		}
	}
	if r.cfg.onNotify {
		opts.OnNotify = func(req *jrpc2.Request) {
			r.log.obs("onnotify\t%s\t%s", chex(req.Method()), chex(req.ParamString()))
		}
	}
	if r.cfg.onCallback {
		opts.OnCallback = func(ctx context.Context, req *jrpc2.Request) (any, error) {
			p := req.ParamString()
			r.mu.Lock()
			g := r.gates[p]
			if g == nil {
				g = make(chan cgate, 1)
				r.gates[p] = g
			}
			r.cbRunning = append(r.cbRunning, p)
			r.mu.Unlock()
			r.log.obs("cbstart\t%s\t%s\t%s", chex(req.ID()), chex(req.Method()), chex(p))
			select {
			case m := <-g:
				switch {
				case m.how == "plain":
					return nil, errors.New(m.msg)
				case m.how == "nan":
					return math.NaN(), nil
				case m.how == "chan":
					return make(chan int), nil
				case m.how == "panic":
					panic("boom")
				case m.how == "baddata":
					return nil, &jrpc2.Error{Code: jrpc2.Code(m.code), Message: m.msg, Data: json.RawMessage("{bad")}
				case m.code != 0:
					return nil, &jrpc2.Error{Code: jrpc2.Code(m.code), Message: m.msg}
				}
				return json.RawMessage(m.res), nil
			case <-ctx.Done():
				r.mu.Lock()
				for i, s := range r.cbRunning {
					if s == p {
						r.cbRunning = append(r.cbRunning[:i], r.cbRunning[i+1:]...)
						break
					}
				}
				r.mu.Unlock()
				return nil, ctx.Err()
			}
		}
	}
	if r.race {
		opts.Logger = r.raceLogger
		r.ch.race = true
	}
	r.baseGor = numGor()
	r.cli = jrpc2.NewClient(r.ch, opts)
	r.ch.tryLock = r.cli.VerifTryLock
	synctest.Wait()
	r.log.flush()
}

func (r *cliRun) settleEnv() {
	if r.race && !r.quiet {
		return
	}
	synctest.Wait()
	r.log.flush()
}

// settle (racing mode) waits for quiescence and records the quiescent point: the client's mutex
// must be free there, and "snap" tells the monitors that everything that could happen has happened.
func (r *cliRun) settle() {
	synctest.Wait()
	r.log.flush()
	r.snapshot()
}

func specsLog(specs []cspec) string {
	var out []string
	for _, s := range specs {
		out = append(out, chex(s.method)+","+chex(s.params)+","+cbit(s.notify)+","+cbit(s.bad))
	}
	if len(out) == 0 {
		return "-"
	}
	return strings.Join(out, ";")
}

func specParams(s cspec) any {
	if s.bad {
		return json.RawMessage("3")
	}
	if s.params == "" {
		return nil
	}
	return json.RawMessage(s.params)
}

func (r *cliRun) logResponse(rsp *jrpc2.Response) string {
	if e := rsp.Error(); e != nil {
		return werrText(e)
	}
	return "R," + chex(rsp.ResultString())
}

// errCallersCause is the cancellation cause some operation contexts carry (context.WithCancelCause /
// WithDeadlineCause): the operation must still end with the context's own error, ctx.Err().
var errCallersCause = errors.New("the caller's own cause")

// startOp issues Call / Batch / Notify in its own goroutine with its own context.
func (r *cliRun) startOp(kind string, specs []cspec, withDeadline bool) int {
	r.mu.Lock()
	n := len(r.ops)
	op := &cliOp{n: n, kind: kind}
	if withDeadline {
		r.ndead++
		op.deadline = time.Now().Add(time.Duration(r.ndead) * time.Hour)
		if n%2 == 1 {
			// a context that carries a cause of the caller's own: ctx.Err() is still DeadlineExceeded
			op.ctx, op.cancel = context.WithDeadlineCause(context.Background(), op.deadline, errCallersCause)
		} else {
			op.ctx, op.cancel = context.WithDeadline(context.Background(), op.deadline)
		}
	} else if n%2 == 1 {
		cctx, ccancel := context.WithCancelCause(context.Background())
		op.ctx, op.cancel = cctx, func() { ccancel(errCallersCause) } // ctx.Err() is still Canceled
	} else {
		op.ctx, op.cancel = context.WithCancel(context.Background())
	}
	r.ops = append(r.ops, op)
	r.mu.Unlock()
	r.log.item("env\top\t%d\t%s\t%s", n, kind, specsLog(specs))
	go func() {
		var line string
		switch kind {
		case "call":
			rsp, err := r.cli.Call(op.ctx, specs[0].method, specParams(specs[0]))
			switch {
			case err == context.Canceled:
				line = "call\tctx,cancel"
			case err == context.DeadlineExceeded:
				line = "call\tctx,deadline"
			case err != nil:
				if e, ok := err.(*jrpc2.Error); ok && err != cErrInvalidRequest && failText(err) != "fail\tbadparams" {
					line = "call\t" + werrText(e)
				} else {
					line = failText(err)
				}
			default:
				line = "call\tR," + chex(rsp.ResultString())
				// a proxy relabels the response it got (Response.SetID, as jhttp.Bridge does), here with the id of
				// another request of this client: that is the caller's business and changes nothing in the client
				if other := r.otherSeenID(rsp.ID()); other != "" {
					rsp.SetID(other)
				}
			}
		case "batch":
			var ss []jrpc2.Spec
			for _, s := range specs {
				ss = append(ss, jrpc2.Spec{Method: s.method, Params: specParams(s), Notify: s.notify})
			}
			rsps, err := r.cli.Batch(op.ctx, ss)
			if err != nil {
				line = failText(err)
			} else {
				var parts []string
				for _, rsp := range rsps {
					parts = append(parts, chex(rsp.ID())+","+r.logResponse(rsp))
				}
				if len(parts) == 0 {
					line = "batch\t-"
				} else {
					line = "batch\t" + strings.Join(parts, ";")
				}
			}
		case "notify":
			if err := r.cli.Notify(op.ctx, specs[0].method, specParams(specs[0])); err != nil {
				line = failText(err)
			} else {
				line = "notify"
			}
		}
		r.mu.Lock()
		op.returns++
		r.mu.Unlock()
		r.log.obs("ret\t%d\t%s", n, line)
	}()
	r.settleEnv()
	return n
}

// otherSeenID is the id of the most recently transmitted request other than id ("" if there is none).
func (r *cliRun) otherSeenID(id string) string {
	r.ch.mu.Lock()
	defer r.ch.mu.Unlock()
	for i := len(r.ch.seen) - 1; i >= 0; i-- {
		if r.ch.seen[i] != id {
			return r.ch.seen[i]
		}
	}
	return ""
}

func (r *cliRun) closeOp() int {
	r.mu.Lock()
	n := len(r.ops)
	op := &cliOp{n: n, kind: "close", ended: true}
	op.ctx, op.cancel = context.WithCancel(context.Background())
	r.ops = append(r.ops, op)
	r.mu.Unlock()
	r.log.item("env\top\t%d\tclose\t-", n)
	go func() {
		err := r.cli.Close()
		r.mu.Lock()
		op.returns++
		r.mu.Unlock()
		r.log.obs("ret\t%d\tclose\t%s", n, causeOf(err))
	}()
	r.settleEnv()
	return n
}

func (r *cliRun) feedRecord(batch bool, ms []cmember) {
	var wires, logs []string
	for _, m := range ms {
		wires = append(wires, m.wire)
		logs = append(logs, m.log())
	}
	var data string
	if batch {
		data = "[" + strings.Join(wires, ",") + "]"
	} else {
		data = wires[0]
	}
	l := "-"
	if len(logs) > 0 {
		l = strings.Join(logs, ";")
	}
	r.log.item("env\tfeed\tmsg\t%s\t%s\t%s", cbit(batch), l, chex(data))
	r.ch.feeds <- cfeed{[]byte(data), nil}
	r.settleEnv()
}

func (r *cliRun) feedBad(data string) {
	r.log.item("env\tfeed\tbad\t%s", chex(data))
	r.ch.feeds <- cfeed{[]byte(data), nil}
	r.settleEnv()
}

func (r *cliRun) feedErr(kind string) {
	var err error
	switch kind {
	case "eof":
		err = io.EOF
	case "closing":
		err = cErrClosing
	default:
		err = cErrOther
		if r.cfg.timeoutErr {
			err = errTimeout
		}
	}
	r.log.item("env\tfeed\terr\t%s", kind)
	r.ch.feeds <- cfeed{nil, err}
	r.settleEnv()
}

func (r *cliRun) sendFault(on bool) {
	r.sendFail = on
	r.log.item("env\tsendfault\t%s", cbit(on))
	r.ch.mu.Lock()
	r.ch.failSend = on
	r.ch.mu.Unlock()
	r.settleEnv()
}

// nextDeadlineOp returns the operation whose deadline fires next in virtual time.
func (r *cliRun) nextDeadlineOp() *cliOp {
	r.mu.Lock()
	defer r.mu.Unlock()
	var best *cliOp
	for _, op := range r.ops {
		if !op.deadline.IsZero() && !op.ended && (best == nil || op.deadline.Before(best.deadline)) {
			best = op
		}
	}
	return best
}

func (r *cliRun) ctxCancel(n int) {
	r.mu.Lock()
	op := r.ops[n]
	op.ended = true
	r.mu.Unlock()
	r.log.item("env\tctxend\t%d\tcancel", n)
	op.cancel()
	r.settleEnv()
}

// ctxDeadline lets virtual time pass until the deadline of op (the earliest outstanding one).
func (r *cliRun) ctxDeadline(op *cliOp) {
	r.mu.Lock()
	op.ended = true
	r.mu.Unlock()
	r.log.item("env\tctxend\t%d\tdeadline", op.n)
	if r.race && !r.quiet {
		// racing mode: wake up at the very instant of the deadline, so that what the scenario does
		// next races with the context's watcher
		time.Sleep(time.Until(op.deadline))
		return
	}
	time.Sleep(time.Until(op.deadline) + time.Millisecond)
	r.settleEnv()
}

func (r *cliRun) cbGate(p string, m cgate) {
	r.mu.Lock()
	g := r.gates[p]
	for i, s := range r.cbRunning {
		if s == p {
			r.cbRunning = append(r.cbRunning[:i], r.cbRunning[i+1:]...)
			break
		}
	}
	r.mu.Unlock()
	if m.code != 0 {
		r.log.item("env\tcbgate\t%s\terr\t%d\t%s", chex(p), m.code, chex(m.msg))
	} else {
		r.log.item("env\tcbgate\t%s\tres\t%s", chex(p), chex(m.res))
	}
	g <- m
	r.settleEnv()
}

// numGor counts the goroutines of the current synctest bubble (runtime.NumGoroutine also
// counts goroutines outside it, some of them transient): the headers of a full stack dump
// name the bubble of each goroutine.
func numGor() int {
	buf := make([]byte, 1<<18)
	for {
		n := runtime.Stack(buf, true)
		if n < len(buf) {
			buf = buf[:n]
			break
		}
		buf = make([]byte, 2*len(buf))
	}
	cnt := 0
	for _, line := range strings.Split(string(buf), "\n") {
		if strings.HasPrefix(line, "goroutine ") && strings.Contains(line, "synctest bubble") {
			cnt++
		}
	}
	return cnt
}

func (r *cliRun) logParked() { r.log.item("parked\t%s", r.sc.parkedLine()) }

// lockFree reports whether the client's mutex is free; at a quiescent point it
// must be (a goroutine blocked while holding it has deadlocked the client).
func (r *cliRun) lockFree() bool { return r.cli.VerifTryLock() }

type cliAbort struct{ why string }

func (r *cliRun) checkLock() {
	if !r.lockFree() {
		panic(cliAbort{"client mutex held at a quiescent point (a goroutine is blocked inside a critical section)"})
	}
}

func (r *cliRun) releaseOne(i int) {
	r.checkLock()
	r.logParked()
	r.log.item("rel\t%s", r.sc.siteOf(i))
	r.sc.release(i)
	r.log.flush()
}

func (r *cliRun) snapshot() {
	r.checkLock()
	r.log.item("snap\t%d\t%d", r.cli.VerifPending(), numGor()-r.baseGor)
}

func (r *cliRun) drain(pickFn func(n int) int) {
	for r.sc.nparked() > 0 {
		r.releaseOne(pickFn(r.sc.nparked()))
	}
	r.logParked()
	r.snapshot()
}

// runCliScenario runs one scenario in its own synctest bubble. A real-time
// watchdog turns a hang (a goroutine spinning or blocked on the client mutex is
// not durably blocked, so synctest.Wait never returns) into an observation.
func runCliScenario(t *testing.T, fam string, seed uint64, idx int, out *bufio.Writer) {
	g := newRng(seed*1000003 + uint64(idx))
	f, ok := cliFamilies[fam]
	if !ok {
		t.Fatalf("unknown family %q", fam)
	}
	cfg := cliConfig{unblock: g.chance(2, 3), onCancel: g.chance(2, 3), onNotify: g.chance(2, 3), onCallback: g.chance(2, 3)}
	cfg.timeoutErr = idx%2 == 1
	policy := "random"
	tier := os.Getenv("VERIF_TIER")
	if idx%3 == 0 {
		policy = "fifo"
	} else if idx%6 == 5 && !(f.name == "c04" && tier == "thorough" && idx < cliExhaustive) {
		policy = "race"
	}
	if p := os.Getenv("VERIF_CLI_POLICY"); p != "" {
		policy = p // for experiments: force one policy on every scenario
	}
	if policy == "race" && (idx/6)%2 == 0 {
		// half of the racing scenarios on one processor (a yield hands over to the next runnable
		// goroutine), half with real parallelism
		defer runtime.GOMAXPROCS(runtime.GOMAXPROCS(1))
	}
	var r *cliRun
	var wmu sync.Mutex
	finished := false
	wd := time.AfterFunc(20*time.Second, func() {
		wmu.Lock()
		defer wmu.Unlock()
		if finished {
			return
		}
		if r != nil {
			r.log.flush()
			r.log.item("fault\thang: the scenario did not reach quiescence within 20s of real time")
		}
		out.Flush()
		fmt.Fprintf(os.Stderr, "watchdog: scenario %s %d %d hangs\n", fam, seed, idx)
		if os.Getenv("VERIF_DUMP") != "" {
			buf := make([]byte, 1<<20)
			os.Stderr.Write(buf[:runtime.Stack(buf, true)])
		}
		os.Exit(4)
	})
	defer wd.Stop()
	synctest.Test(t, func(t *testing.T) {
		r = newCliRun(cfg, out)
		s := &cliScen{r: r, g: g, f: f, policy: policy, tier: tier}
		if policy == "race" {
			r.race = true
			r.log.direct = true
			r.sc.on = false
			attempt, _ := strconv.ParseUint(os.Getenv("VERIF_RACE_ATTEMPT"), 10, 64)
			r.perturb.Store(seed*7919 + uint64(idx) + attempt*0x51ed27)
			jrpc2.VerifSetHook(r.racePoint)
		} else {
			jrpc2.VerifSetHook(r.sc.point)
		}
		defer jrpc2.VerifSetHook(nil)
		r.log.item("scenario\t%s\t%d\t%d\t%s", fam, seed, idx, policy)
		aborted := ""
		func() {
			defer func() {
				if p := recover(); p != nil {
					if a, ok := p.(cliAbort); ok {
						aborted = a.why
						return
					}
					panic(p)
				}
			}()
			r.start()
			s.run(idx)
			s.epilogue()
		}()
		if aborted != "" {
			r.log.flush()
			r.log.item("fault\t%s", aborted)
			out.Flush()
			fmt.Fprintf(os.Stderr, "abort: scenario %s %d %d: %s\n", fam, seed, idx, aborted)
			os.Exit(5)
		}
		r.ch.mu.Lock()
		for _, fl := range r.ch.faults {
			r.log.item("fault\t%s", fl)
		}
		if r.ch.nclose > 1 {
			r.log.item("fault\tchannel closed %d times", r.ch.nclose)
		}
		r.ch.mu.Unlock()
		r.mu.Lock()
		for _, fl := range r.faults {
			r.log.item("fault\t%s", fl)
		}
		for _, op := range r.ops {
			if op.returns != 1 {
				r.log.item("fault\toperation %d (%s) returned %d times", op.n, op.kind, op.returns)
			}
		}
		if r.stopCalls != 1 {
			r.log.item("fault\tOnStop invoked %d times", r.stopCalls)
		}
		left := numGor() - r.baseGor
		r.mu.Unlock()
		if left != 0 {
			r.log.item("fault\t%d goroutines left in the bubble after Close returned and every context ended", left)
		}
		r.sc.off()
		r.log.item("end")
		if left != 0 {
			// synctest would panic on the leaked goroutines; the fault line is the observation
			out.Flush()
			fmt.Fprintf(os.Stderr, "leak: scenario %s %d %d: %d goroutines left\n", fam, seed, idx, left)
			buf := make([]byte, 1<<16)
			os.Stderr.Write(buf[:runtime.Stack(buf, true)])
			os.Exit(6)
		}
	})
	wmu.Lock()
	finished = true
	wmu.Unlock()
}

func init() { scenarioRunners["cli"] = runCliScenario }
