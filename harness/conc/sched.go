package conc

import (
	"bufio"
	"fmt"
	"sort"
	"strings"
	"sync"
	"testing/synctest"
)

// A logger collects the ordered log of one scenario. Observations are buffered
// per window and flushed (sorted is NOT applied: the model compares them as a
// multiset) after the window's quiescence.
type logger struct {
	mu    sync.Mutex
	out   *bufio.Writer // lines are written through at once, so a crash leaves the log so far
	win   []string
}

func (l *logger) obs(format string, args ...any) {
	l.mu.Lock()
	l.win = append(l.win, "o\t"+fmt.Sprintf(format, args...))
	l.mu.Unlock()
}

func (l *logger) item(format string, args ...any) {
	l.mu.Lock()
	fmt.Fprintf(l.out, format, args...)
	l.out.WriteByte('\n')
	l.out.Flush()
	l.mu.Unlock()
}

func (l *logger) flush() {
	l.mu.Lock()
	for _, w := range l.win {
		l.out.WriteString(w)
		l.out.WriteByte('\n')
	}
	l.out.Flush()
	l.win = nil
	l.mu.Unlock()
}

type parkedG struct {
	site string
	ch   chan struct{}
}

// sched is the cooperative scheduler: every verifhook.Point parks the calling
// goroutine; the scenario driver releases one parked goroutine at a time.
type sched struct {
	mu     sync.Mutex
	parked []*parkedG
	on     bool
}

func (s *sched) point(site string) {
	s.mu.Lock()
	if !s.on {
		s.mu.Unlock()
		return
	}
	p := &parkedG{site: site, ch: make(chan struct{})}
	s.parked = append(s.parked, p)
	s.mu.Unlock()
	<-p.ch
}

func (s *sched) off() {
	s.mu.Lock()
	s.on = false
	ps := s.parked
	s.parked = nil
	s.mu.Unlock()
	for _, p := range ps {
		close(p.ch)
	}
}

var siteNames = []string{"srv.read", "srv.next", "srv.barrier", "srv.acquire", "srv.handled", "srv.deliver",
	"srv.stop", "srv.cancel", "srv.push", "srv.cbwatch"}

// parkedLine describes the parked goroutines per site, e.g. "srv.read:1,srv.acquire:2".
func (s *sched) parkedLine() string {
	s.mu.Lock()
	defer s.mu.Unlock()
	cnt := map[string]int{}
	for _, p := range s.parked {
		cnt[p.site]++
	}
	var keys []string
	for k := range cnt {
		keys = append(keys, k)
	}
	sort.Strings(keys)
	var parts []string
	for _, k := range keys {
		parts = append(parts, fmt.Sprintf("%s:%d", k, cnt[k]))
	}
	if len(parts) == 0 {
		return "-"
	}
	return strings.Join(parts, ",")
}

func (s *sched) nparked() int {
	s.mu.Lock()
	defer s.mu.Unlock()
	return len(s.parked)
}

// release lets the i-th parked goroutine run and waits until the system is
// quiescent again (all goroutines durably blocked or parked).
func (s *sched) release(i int) string {
	s.mu.Lock()
	p := s.parked[i]
	s.parked = append(s.parked[:i], s.parked[i+1:]...)
	s.mu.Unlock()
	close(p.ch)
	synctest.Wait()
	return p.site
}
