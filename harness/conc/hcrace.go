package conc

// Racing families of the hc component (C19): NO quiescence between the
// environment actions, no scheduler; the verif hook points only perturb the Go
// scheduler (runtime.Gosched).  These logs are judged by monitors only (the
// model acceptor needs totally ordered logs).
//
//   hc:race        k Sends (burst) on a raw jhttp.Channel immediately followed by Close, in the same
//                  goroutine, with no synctest.Wait in between; optionally a Recv loop running
//                  concurrently (what jrpc2.Client's reader does).  cli.Do takes a little virtual time.
//   hc:bridgerace  a real jrpc2.Client over jhttp.Channel against a jhttp.Bridge: optional completed
//                  Call, then k Notify, then Client.Close at once.
//   Both alternate between GOMAXPROCS(1) and the default.
//
// What must hold when Close has returned and the bubble is quiescent again (monitors, harness side):
//   every round trip accepted by Send was started before Close returned and has finished;
//   no cli.Do is started or still running after Close returned;
//   response bodies opened == closed;   no goroutine left in the bubble (synctest), no panic.
//
// Log:  scenario / race <parameters> / o send <j> ok|closed / o recv ... / closeret /
//       snap <opened> <closed> <started> <finished> <accepted> / fault ... / end

import (
	"bufio"
	"context"
	"errors"
	"fmt"
	"io"
	"net/http"
	"net/http/httptest"
	"runtime"
	"strings"
	"sync"
	"sync/atomic"
	"testing"
	"testing/synctest"
	"time"

	"github.com/creachadair/jrpc2"
	"github.com/creachadair/jrpc2/jhttp"
)

type hcrRun struct {
	mu       sync.Mutex
	log      *logger
	bridge   *jhttp.Bridge // nil: scripted replies
	codes    []int         // scripted reply per request number (0 = Do error)
	delays   []time.Duration
	closeRet atomic.Bool
	started  int
	finished int
	opened   int
	closed   int
	faults   []string
	perturb  atomic.Uint64
}

func (r *hcrRun) fault(format string, args ...any) {
	s := fmt.Sprintf(format, args...)
	r.mu.Lock()
	r.faults = append(r.faults, s)
	r.mu.Unlock()
	// written through at once: the worker may die of a panic before the scenario ends
	r.log.item("fault\t%s", s)
}

func (r *hcrRun) racePoint(site string) {
	x := r.perturb.Add(0x9e3779b97f4a7c15)
	x ^= x >> 29
	switch x % 4 {
	case 0:
		runtime.Gosched()
	case 1:
		runtime.Gosched()
		runtime.Gosched()
		runtime.Gosched()
	}
}

type hcrBody struct {
	io.Reader
	run    *hcrRun
	closed bool
}

func (b *hcrBody) Close() error {
	b.run.mu.Lock()
	defer b.run.mu.Unlock()
	if !b.closed {
		b.closed = true
		b.run.closed++
	}
	return nil
}

type hcrClient struct{ run *hcrRun }

func (c hcrClient) Do(req *http.Request) (*http.Response, error) {
	r := c.run
	late := r.closeRet.Load()
	r.mu.Lock()
	n := r.started
	r.started++
	r.mu.Unlock()
	if late {
		r.fault("a round trip (cli.Do) was started after Close had returned: the request goroutine was left behind")
	}
	defer func() {
		stillAfter := r.closeRet.Load()
		r.mu.Lock()
		r.finished++
		r.mu.Unlock()
		if stillAfter && !late {
			r.fault("a round trip (cli.Do) was still running when Close returned")
		}
	}()
	var res *http.Response
	if r.bridge != nil {
		rec := httptest.NewRecorder()
		r.bridge.ServeHTTP(rec, req)
		// no virtual-time sleep here: jrpc2.Client.Close holds the client's mutex while the channel's
		// Close waits for the round trips, and a goroutine blocked on a sync.Mutex is not durably
		// blocked for synctest, so the bubble's clock would never advance
		for i := 0; i < n%3; i++ {
			runtime.Gosched()
		}
		res = rec.Result()
	} else {
		d, code := time.Millisecond, 200
		if n < len(r.codes) {
			d, code = r.delays[n], r.codes[n]
		}
		time.Sleep(d)
		if code == 0 {
			return nil, errors.New("doerr")
		}
		res = &http.Response{StatusCode: code, Status: fmt.Sprintf("%d x", code), Header: http.Header{},
			Body: io.NopCloser(strings.NewReader("r")), Request: req}
	}
	r.mu.Lock()
	r.opened++
	r.mu.Unlock()
	res.Body = &hcrBody{Reader: res.Body, run: r}
	return res, nil
}

func (r *hcrRun) finish(accepted int) {
	// quiescence, then let every sleeping round trip finish, quiescence again
	synctest.Wait()
	time.Sleep(50 * time.Millisecond)
	synctest.Wait()
	r.mu.Lock()
	o, c, s, f := r.opened, r.closed, r.started, r.finished
	r.mu.Unlock()
	r.log.item("snap\t%d\t%d\t%d\t%d\t%d", o, c, s, f, accepted)
	if s != accepted {
		r.log.item("fault\t%d messages were accepted by Send but %d round trips were started", accepted, s)
	}
	if f != s {
		r.log.item("fault\t%d round trips started, %d finished", s, f)
	}
	if o != c {
		r.log.item("fault\tafter Close returned %d response bodies were opened but %d closed", o, c)
	}
	r.log.item("end")
}

func runHcRace(t *testing.T, fam string, seed uint64, idx int, out *bufio.Writer) {
	g := newRng(seed*1000003 + uint64(idx) + 900007)
	procs := 0
	if idx%2 == 0 {
		procs = 1
	}
	if procs == 1 {
		defer runtime.GOMAXPROCS(runtime.GOMAXPROCS(1))
	}
	synctest.Test(t, func(t *testing.T) {
		r := &hcrRun{log: &logger{out: out, direct: true}}
		r.perturb.Store(seed*7919 + uint64(idx))
		jrpc2.VerifSetHook(r.racePoint)
		defer jrpc2.VerifSetHook(nil)
		r.log.item("scenario\t%s\t%d\t%d\trace", fam, seed, idx)
		if fam == "hc:bridgerace" {
			b := jhttp.NewBridge(brMethods(), nil)
			r.bridge = &b
			cli := jrpc2.NewClient(jhttp.NewChannel("http://br.test/", &jhttp.ChannelOptions{Client: hcrClient{r}}), nil)
			pre := g.intn(2)
			k := 1 + g.intn(3)
			r.log.item("race\tprocs=%d\tprecall=%d\tnotify=%d", procs, pre, k)
			accepted := 0
			ctx := context.Background()
			if pre == 1 {
				if _, err := cli.Call(ctx, "echo", []int{1}); err != nil {
					r.fault("call before the race failed: %v", err)
				}
				accepted++
			}
			for i := 0; i < k; i++ {
				if err := cli.Notify(ctx, "note", []int{i}); err != nil {
					r.fault("Notify returned %v", err)
				} else {
					accepted++
				}
			}
			err := cli.Close() // at once: no Wait, no Gosched
			r.closeRet.Store(true)
			r.log.item("closeret")
			if err != nil {
				r.fault("Client.Close returned %v", err)
			}
			r.finish(accepted)
			b.Close()
			return
		}
		k := 1 + g.intn(3)
		if g.chance(1, 8) {
			k = 0
		}
		withRecv := g.chance(1, 2)
		for i := 0; i < k; i++ {
			r.codes = append(r.codes, pick(g, hcCodes))
			r.delays = append(r.delays, time.Duration(g.intn(4))*time.Millisecond)
		}
		r.log.item("race\tprocs=%d\tsends=%d\trecvloop=%v\tcodes=%v", procs, k, withRecv, r.codes)
		ch := jhttp.NewChannel("http://hc.test/rpc", &jhttp.ChannelOptions{Client: hcrClient{r}})
		var rwg sync.WaitGroup
		if withRecv {
			rwg.Add(1)
			go func() {
				defer rwg.Done()
				for {
					if _, err := ch.Recv(); err == io.EOF {
						r.log.item("o\trecv\teof")
						return
					}
				}
			}()
			if g.chance(1, 2) {
				synctest.Wait() // reader already blocked in Recv
			}
		}
		accepted := 0
		for i := 0; i < k; i++ {
			if err := ch.Send([]byte(fmt.Sprintf("m%d", i))); err != nil {
				r.fault("Send %d returned %v", i, err)
			} else {
				accepted++
			}
		}
		err := ch.Close() // at once: no Wait, no Gosched
		r.closeRet.Store(true)
		r.log.item("closeret")
		if err != nil {
			r.fault("Close returned %v", err)
		}
		rwg.Wait()
		r.finish(accepted)
	})
}
