package conc

import (
	"bufio"
	"os"
	"strconv"
	"testing"
)

// TestWorker runs scenarios [VERIF_FROM, VERIF_TO) of family VERIF_FAMILY for
// seed VERIF_SEED and appends their logs to VERIF_OUT. A progress file records
// the scenario in flight, so that the parent knows which one crashed the process.
func TestWorker(t *testing.T) {
	fam := os.Getenv("VERIF_FAMILY")
	if fam == "" {
		t.Skip("not a worker invocation")
	}
	seed, _ := strconv.ParseUint(os.Getenv("VERIF_SEED"), 10, 64)
	from, _ := strconv.Atoi(os.Getenv("VERIF_FROM"))
	to, _ := strconv.Atoi(os.Getenv("VERIF_TO"))
	out := os.Getenv("VERIF_OUT")
	f, err := os.Create(out)
	if err != nil {
		t.Fatal(err)
	}
	defer f.Close()
	w := bufio.NewWriterSize(f, 1<<20)
	defer w.Flush()
	for i := from; i < to; i++ {
		os.WriteFile(out+".progress", []byte(strconv.Itoa(i)), 0o644)
		runServerScenario(t, fam, seed, i, w)
		w.Flush()
	}
	os.WriteFile(out+".progress", []byte("done"), 0o644)
}
