package conc

import (
	"bufio"
	"os"
	"strconv"
	"testing"
)

// scenarioRunners maps the component prefix of a family name (the part before the
// first ':' — e.g. "cli" in "cli:c04") to the function that runs one scenario of
// it. Families without a registered prefix are server scenarios. Each component
// registers itself in an init() of its own file.
var scenarioRunners = map[string]func(t *testing.T, fam string, seed uint64, idx int, out *bufio.Writer){}

func familyComponent(fam string) string {
	for i := 0; i < len(fam); i++ {
		if fam[i] == ':' {
			return fam[:i]
		}
	}
	return ""
}

// TestWorker runs scenarios [VERIF_FROM, VERIF_TO) of family VERIF_FAMILY for
// seed VERIF_SEED and appends their logs to VERIF_OUT. A progress file records
// the scenario in flight, so that the parent knows which one crashed the process.
func TestWorker(t *testing.T) {
	fam := os.Getenv("VERIF_FAMILY")
	if fam == "" {
		t.Skip("not a worker invocation")
	}
	seed, _ := strconv.ParseUint(os.Getenv("VERIF_SEED"), 10, 64)
	from, _ := strconv.Atoi(os.Getenv("VERIF_FROM"))
	to, _ := strconv.Atoi(os.Getenv("VERIF_TO"))
	out := os.Getenv("VERIF_OUT")
	f, err := os.Create(out)
	if err != nil {
		t.Fatal(err)
	}
	defer f.Close()
	w := bufio.NewWriterSize(f, 1<<20)
	defer w.Flush()
	for i := from; i < to; i++ {
		os.WriteFile(out+".progress", []byte(strconv.Itoa(i)), 0o644)
		if run, ok := scenarioRunners[familyComponent(fam)]; ok {
			run(t, fam, seed, i, w)
		} else {
			runServerScenario(t, fam, seed, i, w)
		}
		w.Flush()
	}
	os.WriteFile(out+".progress", []byte("done"), 0o644)
}
