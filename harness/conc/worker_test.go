package conc

import (
	"bufio"
	"fmt"
	"os"
	"runtime"
	"strconv"
	"testing"
	"time"
)

// scenarioWatchdog is the real-time limit of one scenario (they take milliseconds). A goroutine blocked on a
// mutex for ever is not "durably blocked" for synctest, so a deadlock on a lock would otherwise hang the
// worker until the test timeout: the watchdog dumps the goroutines and exits with status 124 (= hang).
var scenarioWatchdog = 30 * time.Second

// scenarioRunners maps the component prefix of a family name (the part before the
// first ':' — e.g. "cli" in "cli:c04") to the function that runs one scenario of
// it. Families without a registered prefix are server scenarios. Each component
// registers itself in an init() of its own file.
var scenarioRunners = map[string]func(t *testing.T, fam string, seed uint64, idx int, out *bufio.Writer){}

func familyComponent(fam string) string {
	for i := 0; i < len(fam); i++ {
		if fam[i] == ':' {
			return fam[:i]
		}
	}
	return ""
}

// TestWorker runs scenarios [VERIF_FROM, VERIF_TO) of family VERIF_FAMILY for
// seed VERIF_SEED and appends their logs to VERIF_OUT. A progress file records
// the scenario in flight, so that the parent knows which one crashed the process.
func TestWorker(t *testing.T) {
	fam := os.Getenv("VERIF_FAMILY")
	if fam == "" {
		t.Skip("not a worker invocation")
	}
	seed, _ := strconv.ParseUint(os.Getenv("VERIF_SEED"), 10, 64)
	from, _ := strconv.Atoi(os.Getenv("VERIF_FROM"))
	to, _ := strconv.Atoi(os.Getenv("VERIF_TO"))
	out := os.Getenv("VERIF_OUT")
	f, err := os.Create(out)
	if err != nil {
		t.Fatal(err)
	}
	defer f.Close()
	w := bufio.NewWriterSize(f, 1<<20)
	defer w.Flush()
	for i := from; i < to; i++ {
		os.WriteFile(out+".progress", []byte(strconv.Itoa(i)), 0o644)
		wd := time.AfterFunc(scenarioWatchdog, func() {
			buf := make([]byte, 1<<16)
			buf = buf[:runtime.Stack(buf, true)]
			fmt.Fprintf(os.Stderr, "watchdog: scenario %d of %s did not finish within %v (hang)\n%s\nwatchdog: scenario %d of %s hung\n", i, fam, scenarioWatchdog, buf, i, fam)
			os.Exit(124)
		})
		if run, ok := scenarioRunners[familyComponent(fam)]; ok {
			run(t, fam, seed, i, w)
		} else {
			runServerScenario(t, fam, seed, i, w)
		}
		wd.Stop()
		w.Flush()
	}
	os.WriteFile(out+".progress", []byte("done"), 0o644)
}
