package conc

import (
	"bufio"
	"bytes"
	"context"
	"errors"
	"fmt"
	"io"
	"net"
	"runtime"
	"sort"
	"strconv"
	"strings"
	"sync"
	"sync/atomic"
	"testing"
	"testing/synctest"
	"time"

	"github.com/creachadair/jrpc2"
	"github.com/creachadair/jrpc2/channel"
	"github.com/creachadair/jrpc2/server"
)

// Differential-testing scenarios for server.Loop ("loop:*" families). One
// scenario runs the real server.Loop in a synctest bubble against an in-memory
// accepter, in-memory connections with raw clients, and instrumented services.

func init() { scenarioRunners["loop"] = runLoopScenario }

const lMaxConns = 5

var (
	lErrClosing = fmt.Errorf("lacc: %w", net.ErrClosed)
	// an accepter that is not a net.Listener reports its closing with the library's own closed-channel error
	lErrClosingChan = fmt.Errorf("lacc: %w", channel.ErrClosed)
	lErrAccept      = errors.New("lacc: accept failure")
	// an accepter failure that calls itself temporary (a net.Error with Temporary() and Timeout() true, as a
	// *net.OpError wrapping EMFILE or a deadline does): to Loop it is an accepter failure like any other
	lErrAcceptTemp error = lTempErr{}
	lErrTransport        = errors.New("lconn: transport failure")
)

type lTempErr struct{}

func (lTempErr) Error() string   { return "lacc: temporary accept failure" }
func (lTempErr) Temporary() bool { return true }
func (lTempErr) Timeout() bool   { return true }

var _ net.Error = lTempErr{}

// otherAcceptErr alternates (per scenario) between the plain and the "temporary" accepter failure.
func (r *loopRun) otherAcceptErr() error {
	r.nOther++
	if (r.nOther+r.otherBase)%2 == 0 {
		return lErrAcceptTemp
	}
	return lErrAccept
}

// ---------------------------------------------------------------- scheduler

type lpark struct {
	site string
	k    int // connection number (of the goroutine, for loop.finish), -1 if unknown
	ch   chan struct{}
}

// lsched is the cooperative scheduler of loop scenarios: like sched, but every
// park at loop.conn is tagged with the number of the connection it belongs to.
type lsched struct {
	mu     sync.Mutex
	parked []*lpark
	on     bool
	nconn  int            // parks at loop.conn so far
	gk     map[uint64]int // goroutine id -> connection number (recorded at loop.conn)
	mark   int            // parked[mark:] were parked in the current window
}

// lgoid returns the id of the calling goroutine. The goroutine started by Loop
// for a connection passes loop.conn and later loop.finish, which lets the
// scheduler tag a park at loop.finish with the connection number.
func lgoid() uint64 {
	var buf [64]byte
	b := buf[:runtime.Stack(buf[:], false)]
	b = b[len("goroutine "):]
	var id uint64
	for _, c := range b {
		if c < '0' || c > '9' {
			break
		}
		id = id*10 + uint64(c-'0')
	}
	return id
}

func (s *lsched) point(site string) {
	s.mu.Lock()
	if !s.on {
		s.mu.Unlock()
		return
	}
	p := &lpark{site: site, k: -1, ch: make(chan struct{})}
	id := lgoid()
	if s.gk == nil {
		s.gk = map[uint64]int{}
	}
	if site == "loop.conn" {
		p.k = s.nconn
		s.nconn++
		s.gk[id] = p.k
	} else if k, ok := s.gk[id]; ok {
		p.k = k
	}
	s.parked = append(s.parked, p)
	s.mu.Unlock()
	<-p.ch
}

func (s *lsched) off() {
	s.mu.Lock()
	s.on = false
	ps := s.parked
	s.parked = nil
	s.mu.Unlock()
	for _, p := range ps {
		close(p.ch)
	}
}

func (s *lsched) nparked() int {
	s.mu.Lock()
	defer s.mu.Unlock()
	return len(s.parked)
}

// counts reports the number of goroutines parked at loop.conn and at loop.finish.
func (s *lsched) counts() (nconn, nfin int) {
	s.mu.Lock()
	defer s.mu.Unlock()
	for _, p := range s.parked {
		switch p.site {
		case "loop.conn":
			nconn++
		case "loop.finish":
			nfin++
		}
	}
	return
}

// canon puts the goroutines parked during the window that just ended in a
// canonical order (by connection number): the order in which several servers
// stopped by one event reach loop.finish is up to the Go scheduler, and the
// scenario must not depend on it.
func (s *lsched) canon() {
	s.mu.Lock()
	defer s.mu.Unlock()
	if s.mark > len(s.parked) {
		s.mark = len(s.parked)
	}
	w := s.parked[s.mark:]
	sort.SliceStable(w, func(i, j int) bool { return w[i].k < w[j].k })
	s.mark = len(s.parked)
}

func (s *lsched) peek(i int) *lpark {
	s.mu.Lock()
	defer s.mu.Unlock()
	return s.parked[i]
}

// release lets the i-th parked goroutine run until the bubble is quiescent again.
func (s *lsched) release(i int) *lpark {
	s.mu.Lock()
	p := s.parked[i]
	s.parked = append(s.parked[:i], s.parked[i+1:]...)
	s.mark = len(s.parked)
	s.mu.Unlock()
	close(p.ch)
	synctest.Wait()
	return p
}

// ---------------------------------------------------------------- accepter

type laccItem struct {
	ch  channel.Channel
	err error
}

type lacc struct{ ch chan laccItem }

func (a *lacc) Accept(ctx context.Context) (channel.Channel, error) {
	select { // results already queued come before the end of the context
	case it := <-a.ch:
		return it.ch, it.err
	default:
	}
	select {
	case it := <-a.ch:
		return it.ch, it.err
	case <-ctx.Done():
		return nil, lErrClosing
	}
}

// ---------------------------------------------------------------- connection

// lconn is an in-memory connection: the server side is a channel.Channel, the
// client side is driven directly by the scenario.
type lconn struct {
	k        int
	c2s, s2c chan []byte
	srvClosed, cliClosed, failed,
	quitc, started chan struct{}

	mu        sync.Mutex
	ncloseSrv int
	cliDone   bool
	failDone  bool
	quitDone  bool
	nreq      int
}

func lnewConn(k int) *lconn {
	c := &lconn{
		k: k, c2s: make(chan []byte), s2c: make(chan []byte),
		srvClosed: make(chan struct{}), cliClosed: make(chan struct{}),
		failed: make(chan struct{}), quitc: make(chan struct{}), started: make(chan struct{}),
	}
	go func() {
		// the peer reads nothing before it has sent its first request (the transport is synchronous: a server
		// that writes to a peer that has not asked anything blocks in Send until the connection is closed)
		select {
		case <-c.started:
		case <-c.srvClosed:
			return
		case <-c.cliClosed:
			return
		case <-c.failed:
			return
		case <-c.quitc:
			return
		}
		for {
			select {
			case <-c.s2c: // discard
			case <-c.srvClosed:
				return
			case <-c.cliClosed:
				return
			case <-c.failed:
				return
			case <-c.quitc:
				return
			}
		}
	}()
	return c
}

func (c *lconn) Recv() ([]byte, error) {
	select {
	case m := <-c.c2s:
		return m, nil
	case <-c.cliClosed:
		return nil, io.EOF
	case <-c.failed:
		return nil, lErrTransport
	case <-c.srvClosed:
		return nil, fmt.Errorf("lconn: %w", channel.ErrClosed)
	}
}

func (c *lconn) Send(m []byte) error {
	select {
	case c.s2c <- m:
		return nil
	case <-c.cliClosed:
	case <-c.srvClosed:
	case <-c.failed:
	}
	return errors.New("lconn: send on closed connection")
}

func (c *lconn) Close() error {
	c.mu.Lock()
	c.ncloseSrv++
	first := c.ncloseSrv == 1
	c.mu.Unlock()
	if first {
		close(c.srvClosed)
	}
	return nil
}

func (c *lconn) clientClose() {
	c.mu.Lock()
	defer c.mu.Unlock()
	if !c.cliDone {
		c.cliDone = true
		close(c.cliClosed)
	}
}

func (c *lconn) fail() {
	c.mu.Lock()
	defer c.mu.Unlock()
	if !c.failDone {
		c.failDone = true
		close(c.failed)
	}
}

func (c *lconn) quit() {
	c.mu.Lock()
	defer c.mu.Unlock()
	if !c.quitDone {
		c.quitDone = true
		close(c.quitc)
	}
}

func (c *lconn) nclose() int {
	c.mu.Lock()
	defer c.mu.Unlock()
	return c.ncloseSrv
}

func (c *lconn) clientCall() {
	c.mu.Lock()
	c.nreq++
	n := c.nreq
	if n == 1 {
		close(c.started)
	}
	c.mu.Unlock()
	msg := []byte(fmt.Sprintf(`{"jsonrpc":"2.0","id":%d,"method":"g","params":[%d]}`, n, c.k))
	go func() {
		select {
		case c.c2s <- msg:
		case <-c.srvClosed:
		case <-c.failed:
		case <-c.cliClosed:
		case <-c.quitc:
		}
	}()
}

// ---------------------------------------------------------------- services

type lsvc struct {
	i    int
	fail bool
	r    *loopRun

	mu     sync.Mutex
	called bool
}

func (s *lsvc) Assigner() (jrpc2.Assigner, error) {
	s.mu.Lock()
	twice := s.called
	s.called = true
	s.mu.Unlock()
	if twice {
		s.r.fault("Assigner called twice on instance %d", s.i)
	}
	if s.fail {
		s.r.log.obs("assigner\t%d\tfail", s.i)
		return nil, errors.New("no assigner")
	}
	s.r.log.obs("assigner\t%d\tok", s.i)
	return &lasg{i: s.i, r: s.r}, nil
}

func (s *lsvc) Finish(a jrpc2.Assigner, st jrpc2.ServerStatus) {
	aid := -1
	if x, ok := a.(*lasg); ok && x != nil {
		aid = x.i
	}
	var status string
	switch {
	case st.Stopped && st.Closed:
		status = "both"
	case st.Stopped && st.Err == nil:
		status = "stopped"
	case st.Closed && st.Err == nil:
		status = "closed"
	case st.Err != nil && !st.Stopped && !st.Closed:
		status = "failed"
	case st.Err == nil:
		status = "none"
	default:
		status = "invalid"
	}
	s.r.log.obs("finish\t%d\t%d\t%s", s.i, aid, status)
}

type lasg struct {
	i int
	r *loopRun
}

func (a *lasg) Assign(ctx context.Context, method string) jrpc2.Handler {
	if method != "g" {
		return nil
	}
	return func(_ context.Context, req *jrpc2.Request) (any, error) {
		ps := strings.TrimSpace(req.ParamString())
		ps = strings.TrimSuffix(strings.TrimPrefix(ps, "["), "]")
		k, err := strconv.Atoi(strings.TrimSpace(ps))
		if err != nil || k < 0 || k >= lMaxConns {
			a.r.fault("handler got bad params %s", hexf([]byte(req.ParamString())))
			return nil, errors.New("bad params")
		}
		a.r.log.obs("call\t%d\t%d", k, a.i)
		gate := make(chan struct{})
		a.r.mu.Lock()
		a.r.gates[k] = append(a.r.gates[k], gate)
		a.r.mu.Unlock()
		<-gate // the context is ignored on purpose: only the scenario lets the handler return
		return true, nil
	}
}

// ---------------------------------------------------------------- scenario

// lconnState is the harness's belief about one connection.
type lconnState struct {
	released bool // its goroutine has passed loop.conn
	asgFail  bool // the Assigner of its service instance failed
	closed   bool // the client closed it
	failed   bool // the transport failed
}

type loopRun struct {
	nOther, otherBase int // which kind of "other" accepter failure comes next
	log               *logger
	sc                *lsched
	g                 *rng
	policy            string

	mu       sync.Mutex
	nsvc     int
	failPlan [16]bool
	gates    [lMaxConns][]chan struct{}
	faults   []string
	returned bool

	acc    *lacc
	cancel context.CancelFunc
	conns  []*lconn
	st     []*lconnState

	accepting bool
	ctxEnded  bool
}

func (r *loopRun) fault(format string, args ...any) {
	r.mu.Lock()
	r.faults = append(r.faults, fmt.Sprintf(format, args...))
	r.mu.Unlock()
}

func (r *loopRun) newService() server.Service {
	r.mu.Lock()
	i := r.nsvc
	r.nsvc++
	fail := false
	if i < len(r.failPlan) {
		fail = r.failPlan[i]
	}
	r.mu.Unlock()
	r.log.obs("newsvc\t%d", i)
	return &lsvc{i: i, fail: fail, r: r}
}

func (r *loopRun) svcCount() int {
	r.mu.Lock()
	defer r.mu.Unlock()
	return r.nsvc
}

func (r *loopRun) gated(k int) int {
	r.mu.Lock()
	defer r.mu.Unlock()
	return len(r.gates[k])
}

func (r *loopRun) hasReturned() bool {
	r.mu.Lock()
	defer r.mu.Unlock()
	return r.returned
}

// endWindow waits for quiescence, writes the window's observations and the
// parked line.
func (r *loopRun) endWindow() {
	synctest.Wait()
	r.sc.canon()
	if r.policy != "race" { // racing logs keep the real order of the observations
		if early := lcanonObs(r.log); early != "" {
			r.fault("Loop returned before: %s", early)
		}
	}
	r.log.flush()
	nc, nf := r.sc.counts()
	r.log.item("parked\t%d\t%d", nc, nf)
}

// lcanonObs puts the buffered observations of a window in a canonical order:
// stable by service instance, "return" last. Observations of one instance are
// causally ordered and keep their order; those of different instances (several
// servers reacting to one event) race, and the log must not depend on the race.
func lcanonObs(l *logger) (early string) {
	l.mu.Lock()
	for i, w := range l.win {
		if strings.HasPrefix(w, "o\treturn\t") && i != len(l.win)-1 {
			early = strings.ReplaceAll(l.win[i+1], "\t", " ")
		}
	}
	l.mu.Unlock()
	key := func(line string) int {
		f := strings.Split(line, "\t")
		if len(f) < 2 {
			return 1 << 20
		}
		at := 2
		switch f[1] {
		case "newsvc", "assigner", "finish":
		case "call":
			at = 3
		default:
			return 1 << 20
		}
		if len(f) <= at {
			return 1 << 20
		}
		n, err := strconv.Atoi(f[at])
		if err != nil {
			return 1 << 20
		}
		return n
	}
	l.mu.Lock()
	sort.SliceStable(l.win, func(i, j int) bool { return key(l.win[i]) < key(l.win[j]) })
	l.mu.Unlock()
	return early
}

// passed records that the goroutine of connection k is past loop.conn; n0 is the
// number of service instances before the window in which that happened.
func (r *loopRun) passed(k, n0 int) {
	s := r.st[k]
	s.released = true
	if n1 := r.svcCount(); n1 == n0+1 {
		s.asgFail = r.failPlan[n0]
	} else {
		r.fault("connection %d created %d service instances", k, n1-n0)
	}
}

// releaseOne runs one release window.
func (r *loopRun) releaseOne(i int) {
	p := r.sc.peek(i)
	n0 := r.svcCount()
	if p.site == "loop.conn" {
		r.log.item("rel\tloop.conn\t%d", p.k)
	} else {
		r.log.item("rel\t%s", p.site)
	}
	r.sc.release(i)
	r.endWindow()
	if p.site == "loop.conn" {
		if p.k < 0 || p.k >= len(r.st) {
			r.fault("park at loop.conn has tag %d with %d connections", p.k, len(r.st))
		} else {
			r.passed(p.k, n0)
		}
	}
}

func (r *loopRun) pickParked(n int) int {
	if r.policy == "fifo" {
		return 0
	}
	return r.g.intn(n)
}

func (r *loopRun) drain() {
	for n := r.sc.nparked(); n > 0; n = r.sc.nparked() {
		r.releaseOne(r.pickParked(n))
	}
}

// schedule runs the policy's releases after an env action.
func (r *loopRun) schedule() {
	switch r.policy {
	case "nohook":
	case "fifo":
		r.drain()
	default:
		if r.g.chance(1, 4) {
			r.drain()
			return
		}
		k := r.g.intn(4)
		for i := 0; i < k && r.sc.nparked() > 0; i++ {
			r.releaseOne(r.pickParked(r.sc.nparked()))
		}
	}
}

// ---- env actions (each is one window, without the policy's releases)

func (r *loopRun) envAccept() {
	k := len(r.conns)
	r.log.item("env\taccept\t%d", k)
	c := lnewConn(k)
	r.conns = append(r.conns, c)
	r.st = append(r.st, &lconnState{})
	n0 := r.svcCount()
	r.acc.ch <- laccItem{ch: c}
	r.endWindow()
	if r.policy == "nohook" {
		r.passed(k, n0)
	}
}

func (r *loopRun) envAerr(other bool) {
	if other {
		r.log.item("env\taerr\tother")
		r.acc.ch <- laccItem{err: r.otherAcceptErr()}
	} else {
		r.log.item("env\taerr\tclosing")
		r.acc.ch <- laccItem{err: r.closingErr()}
	}
	r.accepting = false
	r.endWindow()
}

// closingErr: every second scenario's accepter reports closing with an error wrapping channel.ErrClosed.
func (r *loopRun) closingErr() error {
	if r.otherBase%2 == 1 {
		return lErrClosingChan
	}
	return lErrClosing
}

func (r *loopRun) envCtxEnd() {
	r.log.item("env\tctxend")
	r.cancel()
	r.ctxEnded = true
	r.accepting = false
	r.endWindow()
}

// envTick lets the bubble's clock advance by 11 s, every goroutine being blocked: the passage of time alone
// makes Loop do nothing (it has no timeouts: it waits for its servers however long their handlers take).
func (r *loopRun) envTick() {
	r.log.item("env\ttick")
	time.Sleep(11 * time.Second)
	r.endWindow()
}

func (r *loopRun) envClose(k int) {
	r.log.item("env\tclose\t%d", k)
	r.conns[k].clientClose()
	r.st[k].closed = true
	r.endWindow()
}

func (r *loopRun) envPfail(k int) {
	r.log.item("env\tpfail\t%d", k)
	r.conns[k].fail()
	r.st[k].failed = true
	r.endWindow()
}

func (r *loopRun) envCall(k int) {
	r.log.item("env\tcall\t%d", k)
	r.conns[k].clientCall()
	r.endWindow()
}

func (r *loopRun) envGate(k int) {
	r.log.item("env\tgate\t%d", k)
	r.mu.Lock()
	gate := r.gates[k][0]
	r.gates[k] = r.gates[k][1:]
	r.mu.Unlock()
	close(gate)
	r.endWindow()
}

func (r *loopRun) callable(k int) bool {
	s := r.st[k]
	if r.policy == "race" { // which instance serves k is not known: a call on a failed one is simply lost
		return s.released && !s.closed && !s.failed && !r.ctxEnded
	}
	return s.released && !s.asgFail && !s.closed && !s.failed && !r.ctxEnded
}

func (r *loopRun) open(k int) bool { return !r.st[k].closed && !r.st[k].failed }

// step performs one weighted random env action among the legal ones, followed
// by the policy's releases.
func (r *loopRun) step() {
	g := r.g
	var openK, callK, gateK []int
	for k := range r.conns {
		if r.open(k) {
			openK = append(openK, k)
		}
		if r.callable(k) && r.gated(k) < 2 {
			callK = append(callK, k)
		}
		if r.gated(k) > 0 {
			gateK = append(gateK, k)
		}
	}
	type act struct {
		w  int
		do func()
	}
	var acts []act
	if r.accepting && len(r.conns) < lMaxConns {
		acts = append(acts, act{6, r.envAccept})
	}
	// Ending the accept loop before there are two connections is left to the
	// early injection of runLoopScenario; otherwise a quarter of the scenarios
	// would be over after their first step.
	young := r.accepting && len(r.conns) < 2
	if r.accepting && !young {
		acts = append(acts, act{1, func() { r.envAerr(g.chance(1, 2)) }})
	}
	if !r.ctxEnded && !young {
		acts = append(acts, act{1, r.envCtxEnd})
	}
	if len(openK) > 0 {
		acts = append(acts, act{3, func() { r.envClose(pick(g, openK)) }})
		acts = append(acts, act{1, func() { r.envPfail(pick(g, openK)) }})
	}
	if len(callK) > 0 {
		acts = append(acts, act{4, func() { r.envCall(pick(g, callK)) }})
	}
	if len(gateK) > 0 {
		acts = append(acts, act{4, func() { r.envGate(pick(g, gateK)) }})
		if r.ctxEnded || !r.accepting {
			acts = append(acts, act{3, r.envTick})
		}
	}
	if len(acts) == 0 {
		return
	}
	total := 0
	for _, a := range acts {
		total += a.w
	}
	x := g.intn(total)
	for _, a := range acts {
		if x < a.w {
			a.do()
			break
		}
		x -= a.w
	}
	r.schedule()
}

// raceGroup performs 1-4 env actions back to back, WITHOUT waiting for quiescence
// in between (the accepter's results are queued, so Loop may find a connection
// and the accepter's failure one right after the other); then one quiescence.
func (r *loopRun) raceGroup(n int) {
	g := r.g
	did := 0
	for i := 0; i < n; i++ {
		var openK, callK, gateK []int
		for k := range r.conns {
			if r.open(k) {
				openK = append(openK, k)
			}
			if r.callable(k) && r.gated(k) < 2 {
				callK = append(callK, k)
			}
			if r.gated(k) > 0 {
				gateK = append(gateK, k)
			}
		}
		type act struct {
			w  int
			do func()
		}
		var acts []act
		if r.accepting && len(r.conns) < lMaxConns {
			acts = append(acts, act{6, func() {
				k := len(r.conns)
				r.log.item("env\taccept\t%d", k)
				c := lnewConn(k)
				r.conns = append(r.conns, c)
				r.st = append(r.st, &lconnState{})
				r.acc.ch <- laccItem{ch: c}
			}})
		}
		if r.accepting && len(r.conns) > 0 {
			acts = append(acts, act{3, func() {
				if g.chance(1, 2) {
					r.log.item("env\taerr\tother")
					r.acc.ch <- laccItem{err: r.otherAcceptErr()}
				} else {
					r.log.item("env\taerr\tclosing")
					r.acc.ch <- laccItem{err: r.closingErr()}
				}
				r.accepting = false
			}})
		}
		if !r.ctxEnded && len(r.conns) > 0 {
			acts = append(acts, act{1, func() {
				r.log.item("env\tctxend")
				r.cancel()
				r.ctxEnded, r.accepting = true, false
			}})
		}
		if len(openK) > 0 {
			acts = append(acts, act{3, func() {
				k := pick(g, openK)
				r.log.item("env\tclose\t%d", k)
				r.conns[k].clientClose()
				r.st[k].closed = true
			}})
			acts = append(acts, act{1, func() {
				k := pick(g, openK)
				r.log.item("env\tpfail\t%d", k)
				r.conns[k].fail()
				r.st[k].failed = true
			}})
		}
		if len(callK) > 0 {
			acts = append(acts, act{3, func() {
				k := pick(g, callK)
				r.log.item("env\tcall\t%d", k)
				r.conns[k].clientCall()
			}})
		}
		if len(gateK) > 0 {
			acts = append(acts, act{3, func() {
				k := pick(g, gateK)
				r.log.item("env\tgate\t%d", k)
				r.mu.Lock()
				gate := r.gates[k][0]
				r.gates[k] = r.gates[k][1:]
				r.mu.Unlock()
				close(gate)
			}})
		}
		if len(acts) == 0 {
			break
		}
		did++
		total := 0
		for _, a := range acts {
			total += a.w
		}
		x := g.intn(total)
		for _, a := range acts {
			if x < a.w {
				a.do()
				break
			}
			x -= a.w
		}
	}
	if did == 0 {
		return
	}
	r.endWindow()
	for _, s := range r.st {
		s.released = true
	}
}

// firstCause scripts the history in which the cause of a server's exit is
// decided long before the exit: a call whose handler ignores cancellation, then
// the client goes away (or the transport fails), then the context ends, and only
// then does the handler return.
func (r *loopRun) firstCause(pfail bool) {
	if !r.accepting || len(r.conns) >= lMaxConns {
		return
	}
	k := len(r.conns)
	r.envAccept()
	r.drain()
	if !r.callable(k) {
		return
	}
	r.envCall(k)
	r.schedule()
	if pfail {
		r.envPfail(k)
	} else {
		r.envClose(k)
	}
	r.schedule()
	if !r.ctxEnded {
		r.envCtxEnd()
		r.schedule()
	}
	for r.gated(k) > 0 {
		r.envGate(k)
	}
	r.schedule()
}

// settle lets every gated handler return and every parked goroutine run, until
// nothing is pending.
func (r *loopRun) settle() {
	for {
		progress := false
		for k := range r.conns {
			for r.gated(k) > 0 {
				r.envGate(k)
				progress = true
			}
		}
		if r.sc.nparked() > 0 {
			r.drain()
			progress = true
		}
		if !progress {
			return
		}
	}
}

// epilogue shuts everything down so that Loop must return and every goroutine exit.
func (r *loopRun) epilogue() {
	g := r.g
	r.settle()
	mode := g.intn(3)
	if mode == 0 {
		if !r.ctxEnded {
			r.envCtxEnd()
		}
	} else {
		var openK []int
		for k := range r.conns {
			if r.open(k) {
				openK = append(openK, k)
			}
		}
		for len(openK) > 0 {
			i := g.intn(len(openK))
			r.envClose(openK[i])
			openK = append(openK[:i], openK[i+1:]...)
		}
		if r.accepting {
			r.envAerr(mode == 2)
		}
	}
	if r.accepting {
		r.envCtxEnd()
	}
	r.settle()
	synctest.Wait()
}

// lbubbleGoroutines counts the live goroutines of the calling goroutine's
// synctest bubble, from a stop-the-world stack dump. (runtime.NumGoroutine is
// not usable here: it counts the whole process, is computed without stopping
// the world, and was observed to be off by one now and then.)
func lbubbleGoroutines() int {
	var self [256]byte
	h := self[:runtime.Stack(self[:], false)]
	if i := bytes.IndexByte(h, '\n'); i >= 0 {
		h = h[:i]
	}
	i := bytes.Index(h, []byte("synctest bubble "))
	if i < 0 {
		return runtime.NumGoroutine()
	}
	tag := h[i:]
	for j := len("synctest bubble "); j < len(tag); j++ {
		if tag[j] < '0' || tag[j] > '9' {
			tag = tag[:j]
			break
		}
	}
	buf := make([]byte, 4<<20)
	buf = buf[:runtime.Stack(buf, true)]
	n := 0
	for len(buf) > 0 {
		line := buf
		if e := bytes.IndexByte(buf, '\n'); e >= 0 {
			line, buf = buf[:e], buf[e+1:]
		} else {
			buf = nil
		}
		if !bytes.HasPrefix(line, []byte("goroutine ")) {
			continue
		}
		if at := bytes.Index(line, tag); at >= 0 {
			rest := line[at+len(tag):]
			if len(rest) == 0 || rest[0] < '0' || rest[0] > '9' {
				n++
			}
		}
	}
	return n
}

func runLoopScenario(t *testing.T, fam string, seed uint64, idx int, out *bufio.Writer) {
	g := newRng(seed*1000003 + uint64(idx))
	policy, hooks, cfg := "random", true, "1"
	switch idx % 4 {
	case 0:
		policy, hooks, cfg = "nohook", false, "0"
	case 1:
		policy = "fifo"
	case 3:
		policy, hooks, cfg = "race", false, "2"
	}
	synctest.Test(t, func(t *testing.T) {
		base := lbubbleGoroutines()
		r := &loopRun{
			log:       &logger{out: out},
			sc:        &lsched{on: hooks},
			g:         g,
			policy:    policy,
			acc:       &lacc{ch: make(chan laccItem, 16)},
			accepting: true,
			otherBase: idx,
		}
		var perturb atomic.Uint64
		perturb.Store(g.next())
		jrpc2.VerifSetHook(func(site string) {
			if !strings.HasPrefix(site, "loop.") {
				return
			}
			if policy == "race" { // yield at a pseudo-random subset of the points
				x := perturb.Add(0x9e3779b97f4a7c15)
				x ^= x >> 29
				switch x % 4 {
				case 0:
					runtime.Gosched()
				case 1:
					runtime.Gosched()
					runtime.Gosched()
					runtime.Gosched()
				}
				return
			}
			r.sc.point(site)
		})
		defer jrpc2.VerifSetHook(nil)
		r.log.item("cfg\t%s", cfg)
		r.log.item("scenario\t%s\t%d\t%d\t%s", fam, seed, idx, policy)

		// every decision that a goroutine of the library consumes is drawn up front
		for i := range r.failPlan {
			r.failPlan[i] = g.chance(1, 4)
		}
		n := 4 + g.intn(14)
		burst := 0
		if g.chance(1, 5) {
			burst = 2 + g.intn(3)
		}
		earlyStep, earlyKind := -1, 0
		if g.chance(1, 6) {
			earlyStep, earlyKind = g.intn(3), g.intn(3)
		}
		scripted, scriptedFail, scriptedAt := g.chance(1, 4), g.chance(1, 2), g.intn(3)
		preQueue, preConns, preErr := g.chance(1, 2), 1+g.intn(3), g.intn(3)

		ctx, cancel := context.WithCancel(context.Background())
		r.cancel = cancel
		loopMain := func() {
			err := server.Loop(ctx, r.acc, r.newService, &server.LoopOptions{ServerOptions: &jrpc2.ServerOptions{Concurrency: 4}})
			v := "nil"
			if err != nil {
				if err == lErrAccept || err == lErrAcceptTemp {
					v = "err"
				} else {
					v = "other:" + hexf([]byte(err.Error()))
				}
			}
			r.log.obs("return\t%s", v)
			r.mu.Lock()
			r.returned = true
			r.mu.Unlock()
		}
		if policy == "race" && preQueue {
			// the accepter already holds connections and its failure when Loop starts
			for j := 0; j < preConns; j++ {
				k := len(r.conns)
				r.log.item("env\taccept\t%d", k)
				c := lnewConn(k)
				r.conns = append(r.conns, c)
				r.st = append(r.st, &lconnState{})
				r.acc.ch <- laccItem{ch: c}
			}
			switch preErr {
			case 0:
				r.log.item("env\taerr\tother")
				r.acc.ch <- laccItem{err: r.otherAcceptErr()}
				r.accepting = false
			case 1:
				r.log.item("env\taerr\tclosing")
				r.acc.ch <- laccItem{err: r.closingErr()}
				r.accepting = false
			}
		}
		go loopMain()
		if policy == "race" {
			r.endWindow()
			for _, s := range r.st {
				s.released = true
			}
		} else {
			synctest.Wait()
		}

		for i := 0; i < n; i++ {
			switch {
			case policy == "race":
				r.raceGroup(1 + g.intn(4))
			case scripted && i == scriptedAt:
				r.firstCause(scriptedFail)
			case i == earlyStep && (r.accepting || !r.ctxEnded):
				switch {
				case earlyKind == 0 || !r.accepting:
					r.envCtxEnd()
				default:
					r.envAerr(earlyKind == 2)
				}
				r.schedule()
			case burst > 0 && r.accepting && len(r.conns) < lMaxConns:
				burst--
				r.envAccept()
				r.schedule()
			default:
				r.step()
			}
		}
		r.epilogue()

		for _, c := range r.conns {
			c.quit()
		}
		synctest.Wait()
		left := lbubbleGoroutines() - base
		for i := 0; i < 20 && left > 0; i++ { // let goroutines that have done their work exit
			runtime.Gosched()
			synctest.Wait()
			left = lbubbleGoroutines() - base
		}
		ncl := "-"
		if len(r.conns) > 0 {
			var parts []string
			for _, c := range r.conns {
				parts = append(parts, strconv.Itoa(c.nclose()))
			}
			ncl = strings.Join(parts, ",")
		}
		r.log.flush()
		r.log.item("final\t%s\t%s\t%d", b01(r.hasReturned()), ncl, left)
		r.mu.Lock()
		faults := append([]string(nil), r.faults...)
		r.mu.Unlock()
		for _, f := range faults {
			r.log.item("fault\t%s", f)
		}
		r.log.item("end")
		r.sc.off()
	})
}
