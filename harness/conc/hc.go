package conc

// Component "hc": the HTTP client channel jhttp.Channel (C19, stateful part).
//
// A real jhttp.Channel runs over an in-process HTTPClient (hcClient) whose Do
// blocks until the scenario lets it return a chosen result (status 200 / 204 /
// 500 / ... with a counting body, or an error).  The scenario is executed by
// quiescent stepping inside a synctest bubble: one environment action,
// synctest.Wait(), outputs and counters logged, next action.
//
// Log of one scenario (tab separated):
//   scenario  hc:<family> <seed> <idx> q
//   env send ok|closed            Send called; its return value
//   env do <j> <status|err>       cli.Do of request j returns
//   env recv                      a Recv call is started (in its own goroutine)
//   env close                     Close is called (in its own goroutine)
//   o recv <j> data|badstatus|doerr     a Recv returned request j's reply
//   o recv eof
//   o closeret                    Close returned
//   snap <bodies opened> <bodies closed>      at each quiescent point
//   fault <text>                  harness-side monitors (request shape, corrupt data, ...)
//   end

import (
	"bufio"
	"errors"
	"fmt"
	"io"
	"net/http"
	"strconv"
	"strings"
	"sync"
	"testing"
	"testing/synctest"

	"github.com/creachadair/jrpc2/jhttp"
)

func init() { scenarioRunners["hc"] = runHcScenario }

type hcResult struct {
	code int // 0: error
}

type hcRun struct {
	mu                    sync.Mutex
	log                   *logger
	ch                    *jhttp.Channel
	gates                 map[int]chan hcResult
	inDo                  []int // requests inside cli.Do, in arrival order
	opened                int
	closed                int
	faults                []string
	nsend                 int
	nrecv                 int // Recv calls started
	recvRet               int // Recv calls returned
	closeCalled, closeRet bool
}

func (r *hcRun) fault(format string, args ...any) {
	r.mu.Lock()
	r.faults = append(r.faults, fmt.Sprintf(format, args...))
	r.mu.Unlock()
}

type hcBody struct {
	r      *strings.Reader
	run    *hcRun
	j      int
	closed bool
}

func (b *hcBody) Read(p []byte) (int, error) {
	b.run.mu.Lock()
	c := b.closed
	b.run.mu.Unlock()
	if c {
		b.run.fault("body %d read after close", b.j)
		return 0, errors.New("read on closed body")
	}
	return b.r.Read(p)
}

func (b *hcBody) Close() error {
	b.run.mu.Lock()
	defer b.run.mu.Unlock()
	if !b.closed { // closing twice is harmless for an http body; counted once
		b.closed = true
		b.run.closed++
	}
	return nil
}

type hcClient struct{ run *hcRun }

func (c hcClient) Do(req *http.Request) (*http.Response, error) {
	r := c.run
	data, _ := io.ReadAll(req.Body)
	j, err := strconv.Atoi(strings.TrimPrefix(string(data), "m"))
	if err != nil || !strings.HasPrefix(string(data), "m") {
		r.fault("request body %q is not a message that was sent", data)
		return nil, errors.New("bad request")
	}
	if req.Method != "POST" || req.URL.String() != "http://hc.test/rpc" || req.Header.Get("Content-Type") != "application/json" {
		r.fault("request %d: method %q url %q content-type %q", j, req.Method, req.URL, req.Header.Get("Content-Type"))
	}
	g := make(chan hcResult)
	r.mu.Lock()
	if _, dup := r.gates[j]; dup {
		r.faults = append(r.faults, fmt.Sprintf("message %d posted twice", j))
	}
	r.gates[j] = g
	r.inDo = append(r.inDo, j)
	r.mu.Unlock()
	res := <-g
	if res.code == 0 {
		return nil, fmt.Errorf("doerr %d", j)
	}
	r.mu.Lock()
	r.opened++
	r.mu.Unlock()
	return &http.Response{
		StatusCode: res.code,
		Status:     fmt.Sprintf("%d j%d", res.code, j),
		Header:     http.Header{"Content-Type": {"application/json"}},
		Body:       &hcBody{r: strings.NewReader(fmt.Sprintf("r%d", j)), run: r, j: j},
		Request:    req,
	}, nil
}

func (r *hcRun) settle() {
	synctest.Wait()
	r.log.flush()
	r.mu.Lock()
	o, c := r.opened, r.closed
	r.mu.Unlock()
	r.log.item("snap\t%d\t%d", o, c)
}

func (r *hcRun) doSend() {
	j := r.nsend
	err := r.ch.Send([]byte(fmt.Sprintf("m%d", j)))
	switch {
	case err == nil:
		r.nsend++
		r.log.item("env\tsend\tok")
	case err.Error() == "channel is closed":
		r.log.item("env\tsend\tclosed")
	default:
		r.log.item("env\tsend\tother:%s", err)
	}
	r.settle()
	if err == nil {
		r.mu.Lock()
		_, ok := r.gates[j]
		r.mu.Unlock()
		if !ok {
			r.fault("message %d was accepted by Send but never posted", j)
		}
	}
}

func (r *hcRun) doDo(k int, code int) {
	r.mu.Lock()
	j := r.inDo[k]
	r.inDo = append(r.inDo[:k], r.inDo[k+1:]...)
	g := r.gates[j]
	r.mu.Unlock()
	if code == 0 {
		r.log.item("env\tdo\t%d\terr", j)
	} else {
		r.log.item("env\tdo\t%d\t%d", j, code)
	}
	g <- hcResult{code: code}
	r.settle()
}

func (r *hcRun) doRecv() {
	r.log.item("env\trecv")
	r.mu.Lock()
	r.nrecv++
	r.mu.Unlock()
	go func() {
		data, err := r.ch.Recv()
		var line string
		switch {
		case err == io.EOF:
			line = "recv\teof"
		case err != nil && strings.HasPrefix(err.Error(), "doerr "):
			line = "recv\t" + strings.TrimPrefix(err.Error(), "doerr ") + "\tdoerr"
		case err != nil && strings.HasPrefix(err.Error(), "unexpected HTTP status "):
			st := strings.TrimPrefix(err.Error(), "unexpected HTTP status ")
			if i := strings.Index(st, " j"); i >= 0 {
				line = "recv\t" + st[i+2:] + "\tbadstatus"
			} else {
				line = "recv\t?\tbadstatus:" + st
			}
		case err != nil:
			line = "recv\t?\tother:" + err.Error()
		case strings.HasPrefix(string(data), "r"):
			line = "recv\t" + string(data[1:]) + "\tdata"
		default:
			line = fmt.Sprintf("recv\t?\tcorrupt:%q", data)
		}
		r.log.obs("%s", line)
		r.mu.Lock()
		r.recvRet++
		r.mu.Unlock()
	}()
	r.settle()
}

func (r *hcRun) doClose() {
	r.log.item("env\tclose")
	r.closeCalled = true
	go func() {
		err := r.ch.Close()
		if err != nil {
			r.fault("Close returned %v", err)
		}
		r.log.obs("closeret")
		r.mu.Lock()
		r.closeRet = true
		r.mu.Unlock()
	}()
	r.settle()
}

var hcCodes = []int{200, 200, 200, 204, 204, 500, 0, 0, 404, 201}

// families: q = mixed workloads; closepend = Close with 0-3 replies pending (held and/or still inside Do)
func runHcScenario(t *testing.T, fam string, seed uint64, idx int, out *bufio.Writer) {
	if fam == "hc:bridge" {
		runHcBridge(t, fam, seed, idx, out)
		return
	}
	if fam == "hc:race" || fam == "hc:bridgerace" {
		runHcRace(t, fam, seed, idx, out)
		return
	}
	g := newRng(newRng(seed*1000003 + uint64(idx)).next()) // hashed: consecutive seeds give shifted streams otherwise
	synctest.Test(t, func(t *testing.T) {
		r := &hcRun{log: &logger{out: out}, gates: map[int]chan hcResult{}}
		r.ch = jhttp.NewChannel("http://hc.test/rpc", &jhttp.ChannelOptions{Client: hcClient{r}})
		r.log.item("scenario\t%s\t%d\t%d\tq", fam, seed, idx)
		pendingRecv := func() int { r.mu.Lock(); defer r.mu.Unlock(); return r.nrecv - r.recvRet }
		nInDo := func() int { r.mu.Lock(); defer r.mu.Unlock(); return len(r.inDo) }
		switch fam {
		case "hc:closepend":
			// n requests; a of them answered before Close (held for a receiver), the rest answered (or failing) after
			n := g.intn(4)
			for i := 0; i < n; i++ {
				r.doSend()
			}
			a := 0
			if n > 0 {
				a = g.intn(n + 1)
			}
			for i := 0; i < a; i++ {
				r.doDo(g.intn(nInDo()), pick(g, hcCodes))
			}
			if g.chance(1, 3) {
				r.doRecv()
			}
			r.doClose()
			if g.chance(1, 3) {
				r.doSend()
			}
		default:
			steps := 3 + g.intn(12)
			for i := 0; i < steps; i++ {
				switch x := g.intn(10); {
				case x < 3:
					if !r.closeCalled || g.chance(1, 3) {
						r.doSend()
					}
				case x < 6:
					if n := nInDo(); n > 0 {
						r.doDo(g.intn(n), pick(g, hcCodes))
					}
				case x < 9:
					if pendingRecv() < 2 {
						r.doRecv()
					}
				default:
					if !r.closeCalled && g.chance(1, 2) {
						r.doClose()
					}
				}
			}
		}
		// epilogue: every request is answered, the channel is closed, Close returns
		for nInDo() > 0 {
			r.doDo(g.intn(nInDo()), pick(g, hcCodes))
		}
		if !r.closeCalled {
			r.doClose()
		}
		if g.chance(1, 2) {
			r.doRecv() // Recv on the closed channel
		}
		r.mu.Lock()
		fl := r.faults
		cr := r.closeRet
		pr := r.nrecv - r.recvRet
		r.mu.Unlock()
		for _, f := range fl {
			r.log.item("fault\t%s", f)
		}
		if !cr {
			r.log.item("fault\tClose did not return although every request was answered")
		}
		if pr != 0 {
			r.log.item("fault\t%d Recv calls still blocked after Close", pr)
		}
		r.log.item("end")
		// a goroutine of the channel that is still blocked here makes synctest panic when the
		// bubble ends ("blocked goroutines remain"): the worker dies and the parent reports it
	})
}
