module verifconc

go 1.26

require github.com/creachadair/jrpc2 v0.0.0

require (
	github.com/creachadair/mds v0.24.2 // indirect
	golang.org/x/sync v0.13.0 // indirect
)

replace github.com/creachadair/jrpc2 => /repo
