package conc

import (
	"bufio"
	"context"
	"encoding/json"
	"errors"
	"fmt"
	"io"
	"runtime"
	"strings"
	"sync"
	"sync/atomic"
	"testing/synctest"
	"time"

	"github.com/creachadair/jrpc2"
)

// ---------------------------------------------------------------------------
// abstract members and their wire form

// member is a protocol message as the model sees it after parsing
// (json.go jmessage), together with the bytes the harness sends for it.
type member struct {
	id, method, params string // raw id text, decoded method, raw params
	ecode              *int   // "error" member (reply-shaped)
	emsg               string
	result             string // raw result (reply-shaped)
	errcode            int    // deferred validation error (0 = none)
	errmsg             string
	wire               string
}

func (m member) log() string {
	e := "-"
	if m.ecode != nil {
		e = fmt.Sprintf("%d:%s", *m.ecode, hexf([]byte(m.emsg)))
	}
	v := "-"
	if m.errcode != 0 {
		v = fmt.Sprintf("%d:%s", m.errcode, hexf([]byte(m.errmsg)))
	}
	return strings.Join([]string{hexf([]byte(m.id)), hexf([]byte(m.method)), hexf([]byte(m.params)), e, hexf([]byte(m.result)), v}, ",")
}

func jstr(s string) string { b, _ := json.Marshal(s); return string(b) }

func obj(fields ...string) string { return "{" + strings.Join(fields, ",") + "}" }

const v2 = `"jsonrpc":"2.0"`

func mkCall(id, method, tok string) member {
	p := "[" + tok + "]"
	return member{id: id, method: method, params: p, wire: obj(v2, `"id":`+id, `"method":`+jstr(method), `"params":`+p)}
}
func mkNote(method, tok string) member {
	p := "[" + tok + "]"
	return member{method: method, params: p, wire: obj(v2, `"method":`+jstr(method), `"params":`+p)}
}
func mkNoteNullID(method, tok string) member {
	p := "[" + tok + "]"
	return member{id: "null", method: method, params: p, wire: obj(v2, `"id":null`, `"method":`+jstr(method), `"params":`+p)}
}

// invalid variants (one defect each, so that Go's random map order cannot matter)
func mkBadVersion(id, method, tok string) member {
	m := mkCall(id, method, tok)
	if id == "" {
		m = mkNote(method, tok)
	}
	m.wire = strings.Replace(m.wire, v2, `"jsonrpc":"1.0"`, 1)
	m.errcode, m.errmsg = -32600, "invalid version marker"
	return m
}
func mkNoVersion(id, method, tok string) member {
	m := mkCall(id, method, tok)
	if id == "" {
		m = mkNote(method, tok)
	}
	m.wire = strings.Replace(m.wire, v2+",", "", 1)
	m.errcode, m.errmsg = -32600, "invalid version marker"
	return m
}
func mkBadID(method, tok string) member {
	p := "[" + tok + "]"
	return member{method: method, params: p, errcode: -32600, errmsg: "invalid request ID",
		wire: obj(v2, `"id":true`, `"method":`+jstr(method), `"params":`+p)}
}
func mkNonObject() member {
	return member{errcode: -32700, errmsg: "request is not a JSON object", wire: `7`}
}
func mkBadParams(id, method string) member {
	f := []string{v2}
	if id != "" {
		f = append(f, `"id":`+id)
	}
	f = append(f, `"method":`+jstr(method), `"params":3`)
	return member{id: id, method: method, params: "3", errcode: -32600, errmsg: "parameters must be array or object", wire: obj(f...)}
}
func mkEmptyMethod(id string) member {
	f := []string{v2}
	if id != "" {
		f = append(f, `"id":`+id)
	}
	f = append(f, `"method":""`)
	return member{id: id, wire: obj(f...)}
}
func mkBadMethod(id string) member {
	f := []string{v2}
	if id != "" {
		f = append(f, `"id":`+id)
	}
	f = append(f, `"method":5`)
	return member{id: id, errcode: -32700, errmsg: "invalid method name", wire: obj(f...)}
}
func mkExtra(id, method, tok string) member {
	m := mkCall(id, method, tok)
	if id == "" {
		m = mkNote(method, tok)
	}
	m.wire = m.wire[:len(m.wire)-1] + `,"zzz":1}`
	m.errcode, m.errmsg = -32600, "extra fields in request"
	return m
}
func mkReplyResult(id, result string) member {
	return member{id: id, result: result, wire: obj(v2, `"id":`+id, `"result":`+result)}
}
func mkReplyError(id string, code int, msg string) member {
	return member{id: id, ecode: &code, emsg: msg, wire: obj(v2, `"id":`+id, fmt.Sprintf(`"error":{"code":%d,"message":%s}`, code, jstr(msg)))}
}

// loose replies: a reply that fails the deferred validation (no version marker, or an extra member). It still
// completes the callback it answers; late or unsolicited it is discarded like any other stray reply.
func mkReplyNoVersion(id, result string) member {
	return member{id: id, result: result, errcode: -32600, errmsg: "invalid version marker", wire: obj(`"id":`+id, `"result":`+result)}
}
func mkReplyExtra(id, result string) member {
	return member{id: id, result: result, errcode: -32600, errmsg: "extra fields in request", wire: obj(v2, `"id":`+id, `"result":`+result, `"zzz":1`)}
}
func mkMixed(id, method, tok string) member {
	m := mkCall(id, method, tok)
	m.wire = m.wire[:len(m.wire)-1] + `,"result":true}`
	m.result = "true"
	m.errcode, m.errmsg = -32600, "mixed request and reply fields"
	return m
}

// ---------------------------------------------------------------------------
// the scenario runner

type srvConfig struct {
	// basectx (racing scenarios only): ServerOptions.NewContext hands out a context derived from one base
	// context that the scenario may end, with a cause of its own, at any time
	basectx    bool
	deadlines  bool // ServerOptions.NewContext gives every request context a deadline of 5 s (scripted, monitors only)
	rpclog     bool // ServerOptions.RPCLog is set (a logger that only checks what it is given)
	closeErr   bool // the channel's Close returns an error
	timeoutErr bool // transport failures report Timeout()/Temporary() (a read deadline, ETIMEDOUT)
	K          int
	push       bool
	builtin    bool
	unblock    bool
	methods    []string
}

type mctx struct {
	done chan struct{}
	mu   sync.Mutex
	err  error
}

func (c *mctx) Deadline() (time.Time, bool) { return time.Time{}, false }
func (c *mctx) Done() <-chan struct{}       { return c.done }
func (c *mctx) Err() error                  { c.mu.Lock(); defer c.mu.Unlock(); return c.err }
func (c *mctx) Value(any) any               { return nil }
func (c *mctx) end(err error) {
	c.mu.Lock()
	if c.err == nil {
		c.err = err
		close(c.done)
	}
	c.mu.Unlock()
}

type gateMsg struct {
	res  string // raw JSON result, or
	code int    // error code (non-zero) with
	msg  string
	merr bool // the handler SUCCEEDS with a value whose MarshalJSON fails with the coded error (code, msg)

	// not a completion: the handler itself pushes a request to the client with ITS OWN context (through
	// jrpc2.ServerFromContext) and then goes back to waiting for its gate
	push       bool
	detached   bool // the push runs in the background under context.WithoutCancel(ctx); the handler carries on
	pushN      int
	pushWantID bool
	pushMethod string
	pushParams string
}

// badMarshaler is a handler result that cannot be marshalled: its MarshalJSON reports a coded error.
type badMarshaler struct {
	code int
	msg  string
}

func (b badMarshaler) MarshalJSON() ([]byte, error) {
	return nil, &jrpc2.Error{Code: jrpc2.Code(b.code), Message: b.msg}
}

type srvRun struct {
	cfg   srvConfig
	log   *logger
	sc    *sched
	srv   *jrpc2.Server
	ch    *fchan
	chans []*fchan

	base       context.Context
	baseCancel context.CancelCauseFunc
	baseEnded  bool

	mu       sync.Mutex
	gates    map[string]chan gateMsg // by params text
	started  []string                // params of running handlers (entered, not yet gated)
	notes    map[string]bool         // params of running NOTIFICATION handlers (their context never ends)
	cbctx    map[int]*mctx
	cbcancel map[int]func() // callbacks whose context is a real one carrying a cause
	cbOpen   []int          // callbacks issued and not yet returned
	nops     int
	waiting  int
	faults   []string

	// racing mode (policy "race"): no scheduler, environment actions are not separated by
	// quiescence, the hook points only perturb the Go scheduler; quiet turns waiting back on
	race, quiet bool
	perturb     atomic.Uint64
}

// racePoint is the hook of racing mode: yield at a pseudo-random subset of the points.
func (r *srvRun) racePoint(site string) {
	x := r.perturb.Add(0x9e3779b97f4a7c15)
	x ^= x >> 29
	switch x % 4 {
	case 0:
		runtime.Gosched()
	case 1:
		runtime.Gosched()
		runtime.Gosched()
		runtime.Gosched()
	}
}

func (r *srvRun) handler(ctx context.Context, req *jrpc2.Request) (any, error) {
	p := req.ParamString()
	if jrpc2.InboundRequest(ctx) != req {
		r.fault("handler context does not carry its request")
	}
	r.mu.Lock()
	g := r.gates[p]
	if g == nil {
		g = make(chan gateMsg)
		r.gates[p] = g
	}
	r.started = append(r.started, p)
	if req.IsNotification() {
		r.notes[p] = true
	}
	r.mu.Unlock()
	r.log.obs("start\t%s\t%s", hexf([]byte(p)), b01(ctx.Err() != nil))
	m := <-g
	for m.push {
		if m.detached {
			n, wantID, method, params := m.pushN, m.pushWantID, m.pushMethod, m.pushParams
			dctx := context.WithoutCancel(ctx)
			go func() {
				var prm any
				if params != "" {
					prm = json.RawMessage(params)
				}
				var rsp *jrpc2.Response
				var err error
				if wantID {
					rsp, err = jrpc2.ServerFromContext(dctx).Callback(dctx, method, prm)
				} else {
					err = jrpc2.ServerFromContext(dctx).Notify(dctx, method, prm)
				}
				r.logPushRet(n, wantID, rsp, err)
			}()
			m = <-g
			continue
		}
		// the handler awaits a push of its own (C09: "a notification handler may itself await a callback")
		srv := jrpc2.ServerFromContext(ctx)
		if srv != r.srv {
			r.fault("ServerFromContext(handler context) is not the server")
		}
		var prm any
		if m.pushParams != "" {
			prm = json.RawMessage(m.pushParams)
		}
		var rsp *jrpc2.Response
		var err error
		if m.pushWantID {
			rsp, err = srv.Callback(ctx, m.pushMethod, prm)
		} else {
			err = srv.Notify(ctx, m.pushMethod, prm)
		}
		r.logPushRet(m.pushN, m.pushWantID, rsp, err)
		r.mu.Lock()
		r.started = append(r.started, p) // listening on its gate again
		r.mu.Unlock()
		m = <-g
	}
	r.mu.Lock()
	delete(r.notes, p)
	r.mu.Unlock()
	r.log.obs("gate\t%s\t%s", hexf([]byte(p)), b01(ctx.Err() != nil))
	if m.merr {
		return badMarshaler{m.code, m.msg}, nil
	}
	if m.code != 0 {
		return nil, &jrpc2.Error{Code: jrpc2.Code(m.code), Message: m.msg}
	}
	return json.RawMessage(m.res), nil
}

func (r *srvRun) fault(f string) {
	r.mu.Lock()
	r.faults = append(r.faults, f)
	r.mu.Unlock()
}

// rpcLogger is the RPCLog option of half of the scenarios: the server behaves the same with and without one.
type rpcLogger struct{ r *srvRun }

func (l rpcLogger) LogRequest(ctx context.Context, req *jrpc2.Request) {
	if req == nil {
		l.r.fault("RPCLog.LogRequest called with a nil request")
	}
}
func (l rpcLogger) LogResponse(ctx context.Context, rsp *jrpc2.Response) {
	if rsp == nil {
		l.r.fault("RPCLog.LogResponse called with a nil response")
	}
}

type assigner struct{ r *srvRun }

func (a assigner) Assign(ctx context.Context, method string) jrpc2.Handler {
	for _, m := range a.r.cfg.methods {
		if m == method {
			return a.r.handler
		}
	}
	return nil
}

func newSrvRun(cfg srvConfig, out *bufio.Writer) *srvRun {
	r := &srvRun{cfg: cfg, log: &logger{out: out}, sc: &sched{on: true}, gates: map[string]chan gateMsg{}, notes: map[string]bool{}, cbctx: map[int]*mctx{}, cbcancel: map[int]func(){}}
	opts := &jrpc2.ServerOptions{Concurrency: cfg.K, AllowPush: cfg.push, DisableBuiltin: !cfg.builtin}
	if cfg.rpclog {
		opts.RPCLog = rpcLogger{r}
	}
	// a Logger: in racing scenarios every log call hands the processor over (a slow log sink), which widens the
	// windows around the library's log calls - those between two critical sections above all
	opts.Logger = func(string) {
		if r.race {
			for i := 0; i < 3; i++ {
				runtime.Gosched()
			}
		}
	}
	if cfg.deadlines {
		opts.NewContext = func() context.Context {
			ctx, cancel := context.WithTimeout(context.Background(), 5*time.Second)
			_ = cancel // released when the deadline passes
			return ctx
		}
	}
	if cfg.basectx {
		r.base, r.baseCancel = context.WithCancelCause(context.Background())
		opts.NewContext = func() context.Context { return r.base }
	}
	r.srv = jrpc2.NewServer(assigner{r}, opts)
	var ms []string
	for _, m := range cfg.methods {
		ms = append(ms, hexf([]byte(m)))
	}
	r.log.item("cfg\t%d\t%s\t%s\t%s\t%s", cfg.K, b01(cfg.push), b01(cfg.builtin), b01(cfg.unblock), strings.Join(ms, ","))
	return r
}

// settleEnv waits for quiescence after an environment action and flushes the
// window's observations.
func (r *srvRun) settleEnv() {
	if r.race && !r.quiet {
		return
	}
	synctest.Wait()
	r.log.flush()
}

func (r *srvRun) start() {
	r.ch = newFchan(r.log, r.cfg.unblock)
	r.ch.closeErr = r.cfg.closeErr
	r.ch.tryLock = r.srv.VerifTryLock
	r.ch.widen = r.race
	r.chans = append(r.chans, r.ch)
	r.log.item("env\tstart")
	r.srv.Start(r.ch)
	r.settleEnv()
}

func (r *srvRun) feedMsgs(batch bool, ms []member, withEOF bool) {
	var wires, logs []string
	for _, m := range ms {
		wires = append(wires, m.wire)
		logs = append(logs, m.log())
	}
	var data string
	if batch {
		data = "[" + strings.Join(wires, ",") + "]"
	} else {
		data = wires[0]
	}
	kind := "msg"
	var err error
	if withEOF {
		kind = "msgeof"
		err = io.EOF
	}
	r.log.item("env\tfeed\t%s\t%s\t%s\t%s", kind, b01(batch), strings.Join(logs, ";"), hexf([]byte(data)))
	r.ch.feeds <- feedItem{[]byte(data), err}
	r.settleEnv()
}

func (r *srvRun) feedRaw(kind string, data string) {
	// kind: bad (not JSON) | empty (empty array)
	r.log.item("env\tfeed\t%s\t%s", kind, hexf([]byte(data)))
	r.ch.feeds <- feedItem{[]byte(data), nil}
	r.settleEnv()
}

// feedBytes feeds an arbitrary byte record; what it means is decided by the wire model (Wire.parse_msgs).
func (r *srvRun) feedBytes(data string) {
	r.log.item("env\tfeed\traw\t%s", hexf([]byte(data)))
	r.ch.feeds <- feedItem{[]byte(data), nil}
	r.settleEnv()
}

func (r *srvRun) feedErr(kind string) {
	var err error
	switch kind {
	case "eof":
		err = io.EOF
	case "closing":
		err = errClosing
	default:
		err = errOther
		if r.cfg.timeoutErr {
			err = errTimeout
		} else if r.cfg.K%2 == 1 {
			err = errWrapsEOF
		}
	}
	r.log.item("env\tfeed\terr\t%s", kind)
	r.ch.feeds <- feedItem{nil, err}
	r.settleEnv()
}

func (r *srvRun) sendFault(on bool) {
	r.log.item("env\tsendfault\t%s", b01(on))
	r.ch.mu.Lock()
	r.ch.failSend = on
	r.ch.mu.Unlock()
	r.settleEnv()
}

func (r *srvRun) gate(p string, m gateMsg) {
	r.mu.Lock()
	g := r.gates[p]
	for i, s := range r.started {
		if s == p {
			r.started = append(r.started[:i], r.started[i+1:]...)
			break
		}
	}
	r.mu.Unlock()
	if m.merr {
		// a result whose MarshalJSON fails: the same as the handler failing with the marshalling error
		_, merr := json.Marshal(badMarshaler{m.code, m.msg})
		r.log.item("env\tgate\t%s\terr\t%d\t%s", hexf([]byte(p)), int(jrpc2.ErrorCode(merr)), hexf([]byte(merr.Error())))
	} else if m.code == 0 && !json.Valid([]byte(m.res)) {
		// the handler returns a value json.Marshal rejects: by the library's contract this is the
		// same as the handler failing with that marshalling error (code by ErrorCode)
		_, merr := json.Marshal(json.RawMessage(m.res))
		r.log.item("env\tgate\t%s\terr\t%d\t%s", hexf([]byte(p)), int(jrpc2.ErrorCode(merr)), hexf([]byte(merr.Error())))
	} else if m.code != 0 {
		r.log.item("env\tgate\t%s\terr\t%d\t%s", hexf([]byte(p)), m.code, hexf([]byte(m.msg)))
	} else {
		r.log.item("env\tgate\t%s\tres\t%s", hexf([]byte(p)), hexf([]byte(m.res)))
	}
	g <- m
	r.settleEnv()
}

// errBaseCause is the cause the base context of the requests ends with: handlers and waiters must still see and
// report the context's own error (context.Canceled).
var errBaseCause = errors.New("draining for maintenance")

// baseCtxEnd ends the base context of all request contexts (ServerOptions.NewContext), as an application that
// shuts down does: every in-flight and every later request context is then cancelled.
func (r *srvRun) baseCtxEnd() {
	r.log.item("env\tbasectx\tend")
	r.baseEnded = true
	r.baseCancel(errBaseCause)
	r.settleEnv()
}

func (r *srvRun) callStop() {
	r.nops++
	n := r.nops
	r.log.item("env\tcallstop\t%d", n)
	go func() {
		r.srv.Stop()
		r.log.obs("ret\t%d\tok", n)
	}()
	r.settleEnv()
}

func (r *srvRun) callCancel(id string) {
	r.nops++
	n := r.nops
	r.log.item("env\tcallcancel\t%d\t%s", n, hexf([]byte(id)))
	go func() {
		r.srv.CancelRequest(id)
		r.log.obs("ret\t%d\tok", n)
	}()
	r.settleEnv()
}

func (r *srvRun) callWait() {
	r.log.item("env\tcallwait")
	r.mu.Lock()
	r.waiting++
	r.mu.Unlock()
	go func() {
		st := r.srv.WaitStatus()
		r.mu.Lock()
		r.waiting--
		r.mu.Unlock()
		switch {
		case st.Stopped && st.Closed:
			r.log.obs("waitret\tboth")
		case st.Stopped && st.Err == nil:
			r.log.obs("waitret\tstop")
		case st.Closed && st.Err == nil:
			r.log.obs("waitret\tclosed")
		case st.Err != nil && !st.Stopped && !st.Closed:
			r.log.obs("waitret\tother")
		case st.Err == nil:
			r.log.obs("waitret\tnone")
		default:
			r.log.obs("waitret\tinvalid")
		}
	}()
	r.settleEnv()
}

func (r *srvRun) callPush(wantID bool, method, params string) int {
	r.nops++
	n := r.nops
	r.log.item("env\tcallpush\t%d\t%s\t%s\t%s", n, b01(wantID), hexf([]byte(method)), hexf([]byte(params)))
	mc := &mctx{done: make(chan struct{})}
	var ctx context.Context = mc
	// every third push uses a context that can never end (context.Background: Done() == nil), as a
	// caller outside any handler would; such a callback can only be ended by its reply or by the stop
	background := n%3 == 0
	if background {
		ctx = context.Background()
	} else if n%3 == 1 {
		// a real context that ends with a cause of the caller's own: Callback still returns ctx.Err()
		cctx, cancel := context.WithCancelCause(context.Background())
		ctx = cctx
		r.mu.Lock()
		r.cbcancel[n] = func() { cancel(errBaseCause) }
		r.mu.Unlock()
	}
	r.mu.Lock()
	r.cbctx[n] = mc
	if wantID && r.cfg.push && !background {
		r.cbOpen = append(r.cbOpen, n)
	}
	r.mu.Unlock()
	go func() {
		var err error
		var rsp *jrpc2.Response
		var p any
		if params != "" {
			p = json.RawMessage(params)
		}
		if wantID {
			rsp, err = r.srv.Callback(ctx, method, p)
		} else {
			err = r.srv.Notify(ctx, method, p)
		}
		r.mu.Lock()
		for i, c := range r.cbOpen {
			if c == n {
				r.cbOpen = append(r.cbOpen[:i], r.cbOpen[i+1:]...)
				break
			}
		}
		r.mu.Unlock()
		r.logPushRet(n, wantID, rsp, err)
	}()
	r.settleEnv()
	return n
}

func (r *srvRun) logPushRet(n int, wantID bool, rsp *jrpc2.Response, err error) {
	switch {
	case err == jrpc2.ErrPushUnsupported:
		r.log.obs("ret\t%d\tunsupported", n)
	case err == jrpc2.ErrConnClosed:
		r.log.obs("ret\t%d\tconnclosed", n)
	case err == context.Canceled:
		r.log.obs("ret\t%d\tctx\tcancel", n)
	case err == context.DeadlineExceeded:
		r.log.obs("ret\t%d\tctx\tdeadline", n)
	case err != nil:
		if e, ok := err.(*jrpc2.Error); ok {
			r.log.obs("ret\t%d\terr\t%d\t%s", n, int(e.Code), hexf([]byte(e.Message)))
		} else {
			r.log.obs("ret\t%d\tother\t%s", n, hexf([]byte(err.Error())))
		}
	case wantID:
		r.log.obs("ret\t%d\tres\t%s", n, hexf([]byte(rsp.ResultString())))
	default:
		r.log.obs("ret\t%d\tok", n)
	}
}

// handlerPush makes the running notification handler with params p push a request itself, with its own
// context (which never ends: like a context.Background push for the model), and wait for the outcome.
func (r *srvRun) handlerPush(p string, wantID bool, method, params string) {
	r.nops++
	n := r.nops
	r.log.item("env\tcallpush\t%d\t%s\t%s\t%s", n, b01(wantID), hexf([]byte(method)), hexf([]byte(params)))
	r.mu.Lock()
	g := r.gates[p]
	r.cbctx[n] = &mctx{done: make(chan struct{})}
	for i, s := range r.started {
		if s == p {
			r.started = append(r.started[:i], r.started[i+1:]...) // not listening on its gate meanwhile
			break
		}
	}
	r.mu.Unlock()
	g <- gateMsg{push: true, pushN: n, pushWantID: wantID, pushMethod: method, pushParams: params}
	r.settleEnv()
}

// handlerPushDetached makes the running handler with params p start a callback in the background under a context
// that carries its inbound request but not its cancellation (context.WithoutCancel), and go on waiting for its gate.
func (r *srvRun) handlerPushDetached(p string, method, params string) {
	r.nops++
	n := r.nops
	r.log.item("env\tcallpush\t%d\t%s\t%s\t%s", n, b01(true), hexf([]byte(method)), hexf([]byte(params)))
	r.mu.Lock()
	g := r.gates[p]
	r.cbctx[n] = &mctx{done: make(chan struct{})}
	r.mu.Unlock()
	g <- gateMsg{push: true, detached: true, pushN: n, pushWantID: true, pushMethod: method, pushParams: params}
	r.settleEnv()
}

// tick lets the bubble's clock advance: the scenario sleeps, every goroutine being blocked, so that any timer
// the code under test may have set fires.
func (r *srvRun) tick() {
	time.Sleep(11 * time.Second)
	r.settleEnv()
}

func (r *srvRun) cbCtxEnd(n int, deadline bool) {
	r.mu.Lock()
	ctx := r.cbctx[n]
	cancel := r.cbcancel[n]
	r.mu.Unlock()
	if cancel != nil {
		r.log.item("env\tcbctx\t%d\tcancel", n)
		cancel()
		r.settleEnv()
		return
	}
	if deadline {
		r.log.item("env\tcbctx\t%d\tdeadline", n)
		ctx.end(context.DeadlineExceeded)
	} else {
		r.log.item("env\tcbctx\t%d\tcancel", n)
		ctx.end(context.Canceled)
	}
	r.settleEnv()
}

// logParked records how many goroutines are parked at each scheduling point.
func (r *srvRun) logParked() { r.log.item("parked\t%s", r.sc.parkedLine()) }

// releaseOne releases the i-th parked goroutine.
func (r *srvRun) releaseOne(i int) {
	r.logParked()
	r.sc.mu.Lock()
	site := r.sc.parked[i].site
	r.sc.mu.Unlock()
	r.log.item("rel\t%s", site)
	r.sc.release(i)
	r.log.flush()
}

// drain releases parked goroutines (chosen by pickFn) until none is parked,
// then records a snapshot of the server's bookkeeping.
func (r *srvRun) drain(pickFn func(n int) int) {
	for r.sc.nparked() > 0 {
		r.releaseOne(pickFn(r.sc.nparked()))
	}
	r.logParked()
	snap := r.srv.VerifSnapshot()
	hs := func(xs []string) string {
		if len(xs) == 0 {
			return "-"
		}
		var o []string
		for _, x := range xs {
			o = append(o, hexf([]byte(x)))
		}
		return strings.Join(o, ",")
	}
	r.log.item("snap\t%s\t%s\t%d\t%s", hs(snap.Used), hs(snap.Calls), snap.QueueLen, b01(snap.Running))
}
