package conc

import (
	"encoding/hex"
	"encoding/json"
	"errors"
	"fmt"
	"io"
	"net"
	"runtime"
	"strings"
	"sync"
	"sync/atomic"

	"github.com/creachadair/jrpc2/channel"
)

func hexf(b []byte) string {
	if len(b) == 0 {
		return "-"
	}
	return hex.EncodeToString(b)
}

type feedItem struct {
	data []byte
	err  error
}

var (
	errClosing = fmt.Errorf("fchan: %w", channel.ErrClosed)
	errOther   = errors.New("fchan: transport failure")
	// a failure that reports Timeout() and Temporary(), as a read deadline or ETIMEDOUT does: a failure like any other
	// (same text as errOther: the client quotes the text of the failure in the errors it hands out)
	errTimeout error = timeoutFailure{}
	// a failure whose chain contains io.EOF (a record cut short): a failure, not a clean end of input
	errWrapsEOF = fmt.Errorf("fchan: truncated record: %w", io.EOF)
)

// fchan is the instrumented in-memory channel handed to the server (or client)
// under test. Recv returns what the scenario feeds; Send and Close are logged.
type fchan struct {
	closeErr bool // Close returns an error (after closing)
	widen    bool // racing mode: yield inside Send/Close

	log     *logger
	feeds   chan feedItem
	closed  chan struct{}
	unblock bool // Close unblocks a pending Recv

	mu       sync.Mutex
	isClosed bool
	nclose   int
	failSend bool // the transport fails every Send

	// channel-discipline monitors (C10)
	sending, recving, closing atomic.Int32
	tryLock                   func() bool // reports whether the owner's mutex is free
	faults                    []string
	sends                     [][]byte
}

func newFchan(log *logger, unblock bool) *fchan {
	return &fchan{log: log, feeds: make(chan feedItem, 4096), closed: make(chan struct{}), unblock: unblock}
}

func (c *fchan) fault(f string) {
	c.mu.Lock()
	c.faults = append(c.faults, f)
	c.mu.Unlock()
}

func (c *fchan) Recv() ([]byte, error) {
	if c.recving.Add(1) > 1 {
		c.fault("two Recv calls in progress")
	}
	defer c.recving.Add(-1)
	select {
	case f := <-c.feeds:
		return f.data, f.err
	default:
	}
	if c.unblock {
		select {
		case f := <-c.feeds:
			return f.data, f.err
		case <-c.closed:
			return nil, errClosing
		}
	}
	f := <-c.feeds
	return f.data, f.err
}

func (c *fchan) Send(b []byte) error {
	if c.sending.Add(1) > 1 {
		c.fault("two Send calls in progress")
	}
	if c.closing.Load() > 0 {
		c.fault("Send overlaps Close")
	}
	defer c.sending.Add(-1)
	if c.tryLock != nil && c.tryLock() {
		c.fault("Send called without holding the owner's mutex")
	}
	if c.widen {
		// racing mode: stay inside Send for a while so that an unserialised second sender overlaps
		for i := 0; i < 4; i++ {
			runtime.Gosched()
		}
	}
	c.mu.Lock()
	ok := !c.isClosed && !c.failSend
	c.sends = append(c.sends, append([]byte(nil), b...))
	c.mu.Unlock()
	c.log.obs("%s", canonSend(b, ok))
	if !ok {
		return errors.New("send on closed channel")
	}
	return nil
}

func (c *fchan) Close() error {
	if c.closing.Add(1) > 1 {
		c.fault("two Close calls in progress")
	}
	if c.sending.Load() > 0 {
		c.fault("Close overlaps Send")
	}
	defer c.closing.Add(-1)
	if c.tryLock != nil && c.tryLock() {
		c.fault("Close called without holding the owner's mutex")
	}
	c.mu.Lock()
	c.nclose++
	first := !c.isClosed
	c.isClosed = true
	c.mu.Unlock()
	c.log.obs("close")
	if first {
		close(c.closed)
	}
	if c.closeErr {
		// the channel's Close reports a failure of its own (a final flush that fails, say): the cause that
		// stopped the owner stands
		return errors.New("fchan: close failed (broken pipe)")
	}
	return nil
}

func b01(b bool) string {
	if b {
		return "1"
	}
	return "0"
}

// canonSend renders a record passed to Send as an observation:
//
//	send <ok> <batch> <rsp>;<rsp>...     rsp := idhex,R,rawhex | idhex,E,code,msghex
//	sendreq <ok> <idhex> <methodhex> <paramshex>
//	sendbad <ok> <hex>                   (not a JSON-RPC message or message list)
func canonSend(b []byte, ok bool) string {
	bad := func() string { return "sendbad\t" + b01(ok) + "\t" + hexf(b) }
	var raws []json.RawMessage
	batch := false
	if fb := firstByte(b); fb == '[' {
		if err := json.Unmarshal(b, &raws); err != nil || len(raws) == 0 {
			return bad()
		}
		batch = true
	} else {
		raws = []json.RawMessage{b}
	}
	var rs []string
	for _, raw := range raws {
		var m map[string]json.RawMessage
		if err := json.Unmarshal(raw, &m); err != nil {
			return bad()
		}
		var v string
		if json.Unmarshal(m["jsonrpc"], &v) != nil || v != "2.0" {
			return bad()
		}
		if mr, ok2 := m["method"]; ok2 {
			var method string
			if json.Unmarshal(mr, &method) != nil || batch {
				return bad()
			}
			return fmt.Sprintf("sendreq\t%s\t%s\t%s\t%s", b01(ok), hexf(m["id"]), hexf([]byte(method)), hexf(m["params"]))
		}
		id, hasID := m["id"]
		if !hasID {
			return bad()
		}
		_, hasR := m["result"]
		_, hasE := m["error"]
		switch {
		case hasR && !hasE:
			rs = append(rs, fmt.Sprintf("%s,R,%s", hexf(id), hexf(m["result"])))
		case hasE && !hasR:
			var e struct {
				Code    *int64  `json:"code"`
				Message *string `json:"message"`
			}
			if json.Unmarshal(m["error"], &e) != nil || e.Code == nil {
				return bad()
			}
			msg := ""
			if e.Message != nil {
				msg = *e.Message
			}
			rs = append(rs, fmt.Sprintf("%s,E,%d,%s", hexf(id), *e.Code, hexf([]byte(msg))))
		default:
			return bad()
		}
	}
	return fmt.Sprintf("send\t%s\t%s\t%s", b01(ok), b01(batch), strings.Join(rs, ";"))
}

func firstByte(b []byte) byte {
	for _, c := range b {
		if c != ' ' && c != '\t' && c != '\r' && c != '\n' {
			return c
		}
	}
	return 0
}

var _ = io.EOF

type timeoutFailure struct{}

func (timeoutFailure) Error() string   { return errOther.Error() }
func (timeoutFailure) Timeout() bool   { return true }
func (timeoutFailure) Temporary() bool { return true }

var _ net.Error = timeoutFailure{}
