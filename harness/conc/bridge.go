package conc

// C18 - the HTTP bridge. A real jhttp.Bridge over its real local server and shared
// client, driven in-process with httptest recorders inside a synctest bubble.
// Handlers of the one known method "g" are gated: each waits for the outcome the
// scenario releases for its params text (the token), so the order in which the
// calls of concurrent POSTs complete is a choice of the generator.
//
// Log lines (tab separated, byte strings hex, "-" = empty) - see ocaml/run_bridge.ml:
//   scenario <fam> <seed> <idx> <kind>
//   cfg <hook> <getter> <concurrency>
//   H <params> R <result> | H <params> E <code>
//   Q <req> <method> <mt> <hascs> <cs> <M|B> <batch> <members> <content-type> <body> <tokens>
//   ev launch <req> | ev release <params>
//   idesc <sent id> <id as Go's HTML-safe JSON encoding writes it>
//   A <req> <status|getter|hang> <shape> <objs> <started>
//   F <text>     harness-level fault (response object without version, unknown token, ...)
//   end

import (
	"bufio"
	"bytes"
	"context"
	"encoding/json"
	"errors"
	"fmt"
	"io"
	"mime"
	"net/http"
	"net/http/httptest"
	"sort"
	"strconv"
	"strings"
	"sync"
	"testing"
	"testing/synctest"

	"github.com/creachadair/jrpc2"
	"github.com/creachadair/jrpc2/jhttp"
)

func init() { scenarioRunners["bridge"] = runBridgeScenario }

// brContentTypes is the Content-Type table of the gate family ("" = header not set).
var brContentTypes = []string{
	"application/json",
	"application/json; charset=utf-8",
	"application/json; charset=UTF-8",
	"application/json; charset=Utf-8",
	"application/json;charset=utf8",
	"application/json; charset=UTF8",
	"application/json; charset=uTf8",
	`application/json; charset="utf-8"`,
	`application/json; charset="UTF-8"`,
	"Application/JSON",
	"APPLICATION/JSON; CHARSET=UTF-8",
	"application/json ; charset=utf-8",
	" application/json",
	"application/json;",
	"application/json; version=1",
	"application/json; charset=utf-8; version=1",
	"application/json; q=0.5; charset=UTF-8",
	"application/json; charset=latin1",
	"application/json; charset=iso-8859-1",
	"application/json; charset=ISO-8859-1",
	"application/json; charset=utf-16",
	"application/json; charset=utf-88",
	"application/json; charset=utf_8",
	"application/json; charset=utf-8x",
	"application/json; charset=xutf-8",
	"application/json; charset=\"\"",
	"application/json; charset=",
	"application/json; charset",
	"application/json; version=1; charset=US-ASCII",
	"application/json; charset=utf-8; charset=utf-8",
	"application/json; charset*=utf-8''utf-8",
	"application/json; charset=Koi8", // non-ASCII value
	"text/plain",
	"text/plain; charset=utf-8",
	"text/json",
	"application/jsonx",
	"application/x-json",
	"application/ld+json",
	"application/json+x",
	"application",
	"json",
	"*/*",
	"application/json, text/plain",
	"multipart/form-data; boundary=x",
	"application/x-www-form-urlencoded",
	"",
}

// content types that pass the gate (for the concurrent family)
var brGoodTypes = []string{
	"application/json", "application/json; charset=utf-8", "application/json; charset=UTF-8",
	"application/json;charset=utf8", "Application/JSON", "application/json; charset=Utf8; v=2",
}

// raw id texts: plain, colliding after numeric/JSON normalisation, exotic
var brIDs = []string{
	"1", "2", `"1"`, "1e3", "1E3", "1000", "-0", "0", "1.0", "1.50", "0.1e-2", "-1",
	"12345678901234567890123456789", "-9223372036854775809", "1e400",
	`"a"`, `"a\"b"`, `"\u0061"`, `"\u003c"`, "\"\u2028\"", `"a\\nb"`, `"a\nb"`, `"é"`, `"😀"`, `""`, `" "`, `"null"`,
	`"<x>&"`, "\" \"", `"id with spaces and , ; commas"`,
}

type brMember struct {
	m   member
	tok string // params text identifying the member ("" = none)
}

type brRequest struct {
	n       int
	method  string
	ct      string
	badBody string // non-empty: the body is this (not valid JSON)
	batch   bool
	members []brMember
	body    string
	rec     *httptest.ResponseRecorder
	done    chan struct{}
	fin     bool
}

type brRun struct {
	out     *bufio.Writer
	mu      sync.Mutex
	gates   map[string]chan gateMsg
	started []string
	getHits int // invocations of the ParseGETRequest hook
	faults  []string
	tokReq  map[string]int
}

func (r *brRun) line(format string, args ...any) {
	r.mu.Lock()
	fmt.Fprintf(r.out, format, args...)
	r.out.WriteByte('\n')
	r.mu.Unlock()
}

func (r *brRun) fault(format string, args ...any) {
	r.mu.Lock()
	r.faults = append(r.faults, fmt.Sprintf(format, args...))
	r.mu.Unlock()
}

func (r *brRun) handler(ctx context.Context, req *jrpc2.Request) (any, error) {
	p := req.ParamString()
	r.mu.Lock()
	g := r.gates[p]
	r.started = append(r.started, p)
	r.mu.Unlock()
	if g == nil {
		r.fault("handler invoked with params no member carries: %s", hexf([]byte(p)))
		return nil, &jrpc2.Error{Code: -32099, Message: "unknown token"}
	}
	m := <-g
	if m.code != 0 {
		return nil, &jrpc2.Error{Code: jrpc2.Code(m.code), Message: m.msg}
	}
	return json.RawMessage(m.res), nil
}

type brAssigner struct{ r *brRun }

func (a brAssigner) Assign(ctx context.Context, method string) jrpc2.Handler {
	if method == "g" {
		return a.r.handler
	}
	return nil
}

// canonID is the id text as encoding/json's HTML-safe compaction writes it (identity
// unless the id is a string containing <, >, &, U+2028 or U+2029).
func canonID(id string) string {
	if id == "" {
		return ""
	}
	b, err := json.Marshal(json.RawMessage(id))
	if err != nil {
		return id
	}
	return string(b)
}

func brMemberLog(m member) string {
	return strings.Join([]string{hexf([]byte(canonID(m.id))), hexf([]byte(m.method)), hexf([]byte(m.params)),
		strconv.Itoa(m.errcode)}, ",")
}

// observe projects a recorded HTTP answer: shape and response objects (id as raw text).
func (r *brRun) observe(body []byte) (shape, objs string) {
	if len(body) == 0 {
		return "none", "-"
	}
	one := func(raw json.RawMessage) (string, bool) {
		var o map[string]json.RawMessage
		if err := json.Unmarshal(raw, &o); err != nil || o == nil {
			return "", false
		}
		if string(o["jsonrpc"]) != `"2.0"` {
			r.fault("response object without version marker: %s", hexf(raw))
		}
		id := "?"
		if v, ok := o["id"]; ok {
			id = hexf(v)
		}
		if v, ok := o["result"]; ok {
			if _, both := o["error"]; both {
				r.fault("response object with result and error: %s", hexf(raw))
			}
			return id + ",R," + hexf(v), true
		}
		if v, ok := o["error"]; ok {
			var e struct {
				Code *int `json:"code"`
			}
			if json.Unmarshal(v, &e) != nil || e.Code == nil {
				return id + ",E,?", true
			}
			return id + ",E," + strconv.Itoa(*e.Code), true
		}
		return id + ",?,?", true
	}
	t := bytes.TrimSpace(body)
	switch t[0] {
	case '{':
		if s, ok := one(t); ok {
			return "obj", s
		}
	case '[':
		var arr []json.RawMessage
		if json.Unmarshal(t, &arr) == nil {
			var parts []string
			for _, a := range arr {
				s, ok := one(a)
				if !ok {
					return "text", "-"
				}
				parts = append(parts, s)
			}
			if len(parts) == 0 {
				return "arr", "-"
			}
			return "arr", strings.Join(parts, ";")
		}
	}
	return "text", "-"
}

type brGen struct {
	g           *rng
	r           *brRun
	tok         int
	ids         []string
	outs        []string     // H lines
	order       []string     // tokens in creation order
	pend        []brPending  // outcomes, not yet released
	ctxCodeUsed map[int]bool // context-error codes already handed out as outcomes
}

func (s *brGen) newTok(reqNo int) string {
	s.tok++
	p := "[" + strconv.Itoa(s.tok) + "]"
	s.r.tokReq[p] = reqNo
	s.r.gates[p] = make(chan gateMsg, 1)
	s.order = append(s.order, p)
	return strconv.Itoa(s.tok)
}

func (s *brGen) id() string { return pick(s.g, s.ids) }

// member draws one member of the basis for request reqNo.
func (s *brGen) member(reqNo int) brMember {
	g := s.g
	t := s.newTok(reqNo)
	p := "[" + t + "]"
	switch g.intn(24) {
	case 0, 1, 2, 3, 4, 5, 6:
		return brMember{mkCall(s.id(), "g", t), p}
	case 7, 8:
		return brMember{mkNote("g", t), p}
	case 9:
		return brMember{mkNoteNullID("g", t), p}
	case 10:
		return brMember{mkCall(s.id(), "nope", t), p}
	case 11:
		return brMember{mkNote("nope", t), p}
	case 12:
		if g.chance(1, 2) {
			return brMember{mkBadVersion(s.id(), "g", t), p}
		}
		return brMember{mkBadVersion("", "g", t), p}
	case 13:
		if g.chance(1, 2) {
			return brMember{mkNoVersion(s.id(), "g", t), p}
		}
		return brMember{mkNoVersion("", "g", t), p}
	case 14:
		return brMember{mkBadID("g", t), p}
	case 15:
		if g.chance(1, 2) {
			return brMember{mkNonObject(), ""}
		}
		return brMember{member{errcode: -32600, errmsg: "invalid version marker", wire: "null"}, ""}
	case 16:
		if g.chance(1, 2) {
			return brMember{mkBadParams(s.id(), "g"), ""}
		}
		return brMember{mkBadParams("", "g"), ""}
	case 17:
		if g.chance(1, 2) {
			return brMember{mkBadMethod(s.id()), ""}
		}
		return brMember{mkBadMethod(""), ""}
	case 18:
		if g.chance(1, 2) {
			return brMember{mkExtra(s.id(), "g", t), p}
		}
		return brMember{mkExtra("", "g", t), p}
	case 19:
		return brMember{mkMixed(s.id(), "g", t), p}
	case 20:
		// reply-shaped members are "valid" for ParseRequests (Error nil, empty method)
		m := mkReplyResult(s.id(), "5")
		m.result = ""
		return brMember{m, ""}
	case 21:
		m := mkReplyError(s.id(), 7, "x")
		m.ecode = nil
		return brMember{m, ""}
	case 22:
		if g.chance(1, 2) {
			return brMember{mkEmptyMethod(s.id()), ""}
		}
		return brMember{mkEmptyMethod(""), ""}
	default:
		// a call whose id is null-free but repeated inside the same body
		return brMember{mkCall(s.ids[0], "g", t), p}
	}
}

var brBadBodies = []string{"garbage", "", " ", "[", `{"jsonrpc":"2.0","id":1,"method":"g"`, `[{"jsonrpc":"2.0","id":1,"method":"g"},]`,
	`{"jsonrpc":"2.0","id":1,"method":"g"} x`, `[1 2]`, "\xff"}

func (s *brGen) request(n int, method, ct string) *brRequest {
	g := s.g
	q := &brRequest{n: n, method: method, ct: ct, done: make(chan struct{})}
	switch {
	case g.chance(1, 14):
		q.badBody = pick(g, brBadBodies)
		q.body = q.badBody
		if q.badBody == "" {
			q.badBody = "-"
		}
	case g.chance(1, 3):
		q.members = []brMember{s.member(n)}
		q.body = q.members[0].m.wire
	default:
		q.batch = true
		k := g.intn(7)
		if g.chance(1, 6) {
			k = 1 // one-element batch
		}
		var wires []string
		for i := 0; i < k; i++ {
			m := s.member(n)
			q.members = append(q.members, m)
			wires = append(wires, m.m.wire)
		}
		q.body = "[" + strings.Join(wires, ",") + "]"
	}
	return q
}

func (s *brGen) outcomes() {
	for _, p := range s.order {
		t := strings.Trim(p, "[]")
		var m gateMsg
		var h string
		switch s.g.intn(6) {
		case 0:
			m.res = "[" + t + "]"
		case 1:
			m.res = `{"t":` + t + `}`
		case 2:
			m.res = `"r` + t + `"`
		case 3:
			m.res = t + ".5"
		default:
			n, _ := strconv.Atoi(t)
			m.code, m.msg = 1000+n, "e"+t
			if s.g.chance(1, 4) {
				m.code = -(40000 + n)
			} else if c := pick(s.g, []int{-32096, -32097}); s.g.chance(1, 3) && !s.ctxCodeUsed[c] {
				// the codes of context errors are error objects like any other to the bridge (each at most once
				// per scenario: the monitors tell outcomes apart by their codes)
				if s.ctxCodeUsed == nil {
					s.ctxCodeUsed = map[int]bool{}
				}
				s.ctxCodeUsed[c] = true
				m.code = c
			}
		}
		if m.code != 0 {
			h = fmt.Sprintf("H\t%s\tE\t%d", hexf([]byte(p)), m.code)
		} else {
			h = fmt.Sprintf("H\t%s\tR\t%s", hexf([]byte(p)), hexf([]byte(m.res)))
		}
		s.outs = append(s.outs, h)
		s.r.line("%s", h)
		s.pend = append(s.pend, brPending{p, m})
	}
}

type brPending struct {
	p string
	m gateMsg
}

func (q *brRequest) logQ(r *brRun) {
	mt, params, _ := mime.ParseMediaType(q.ct)
	cs, ok := params["charset"]
	kind, mem := "M", "-"
	if q.badBody != "" {
		kind = "B"
	} else if len(q.members) > 0 {
		var ms []string
		for _, m := range q.members {
			ms = append(ms, brMemberLog(m.m))
			if c := canonID(m.m.id); c != m.m.id {
				var a, b any
				if json.Unmarshal([]byte(c), &a) != nil || json.Unmarshal([]byte(m.m.id), &b) != nil || a != b {
					r.fault("canonID changed the value of id %s", hexf([]byte(m.m.id)))
				}
				r.line("idesc\t%s\t%s", hexf([]byte(m.m.id)), hexf([]byte(c)))
			}
		}
		mem = strings.Join(ms, ";")
	}
	var toks []string
	for _, m := range q.members {
		if m.tok != "" {
			toks = append(toks, hexf([]byte(m.tok)))
		}
	}
	tl := "-"
	if len(toks) > 0 {
		tl = strings.Join(toks, ",")
	}
	r.line("Q\t%d\t%s\t%s\t%s\t%s\t%s\t%s\t%s\t%s\t%s\t%s", q.n, hexf([]byte(q.method)), hexf([]byte(mt)), b01(ok), hexf([]byte(cs)),
		kind, b01(q.batch), mem, hexf([]byte(q.ct)), hexf([]byte(q.body)), tl)
}

func (q *brRequest) launch(b jhttp.Bridge) {
	hr := httptest.NewRequest(q.method, "/rpc", strings.NewReader(q.body))
	if q.ct != "" {
		hr.Header.Set("Content-Type", q.ct)
	}
	q.rec = httptest.NewRecorder()
	go func() {
		defer close(q.done)
		b.ServeHTTP(q.rec, hr)
	}()
}

func (q *brRequest) finished() bool {
	select {
	case <-q.done:
		return true
	default:
		return false
	}
}

// logA records the observed answer of q. getBefore is the hook count before q ran (only
// meaningful for sequentially run requests).
func (q *brRequest) logA(r *brRun, viaGetter bool) {
	var mine []string
	r.mu.Lock()
	for _, p := range r.started {
		if r.tokReq[p] == q.n {
			mine = append(mine, hexf([]byte(p)))
		}
	}
	r.mu.Unlock()
	sort.Strings(mine)
	st := "-"
	if len(mine) > 0 {
		st = strings.Join(mine, ",")
	}
	if !q.finished() {
		r.line("A\t%d\thang\tnone\t-\t%s", q.n, st)
		return
	}
	status := strconv.Itoa(q.rec.Code)
	shape, objs := "text", "-"
	if viaGetter {
		status, shape = "getter", "none" // the Getter's answer is C19's subject
	} else if q.rec.Code == 200 || q.rec.Code == 204 {
		shape, objs = r.observe(q.rec.Body.Bytes())
	} else if q.rec.Body.Len() == 0 {
		shape = "none"
	}
	r.line("A\t%d\t%s\t%s\t%s\t%s", q.n, status, shape, objs, st)
}

func runBridgeScenario(t *testing.T, fam string, seed uint64, idx int, out *bufio.Writer) {
	g := newRng(seed*1000003 + uint64(idx) + 77)
	synctest.Test(t, func(t *testing.T) {
		r := &brRun{out: out, gates: map[string]chan gateMsg{}, tokReq: map[string]int{}}
		s := &brGen{g: g, r: r}
		const nGate = 12
		kind := "conc"
		if idx < nGate {
			kind = "gate"
		}
		// policy: q = quiescent stepping; sched = every verif scheduling point of the shared client and
		// the server parks its goroutine and the scenario releases parked goroutines in a generated order
		// (so the id allocations and sends of concurrent Batch calls interleave)
		policy := "q"
		if kind == "conc" && idx%3 == 1 {
			policy = "sched"
		}
		sc := &sched{on: policy == "sched"}
		if sc.on {
			// The local pipe is unbuffered and the client sends under its mutex: a server reader parked
			// between Recv and its critical section would leave a sender blocked inside the client's
			// critical section, and the next goroutine waiting for that mutex is not durably blocked
			// (synctest.Wait would never return). The reader is therefore not a scheduling point here.
			jrpc2.VerifSetHook(func(site string) {
				if site != "srv.read" {
					sc.point(site)
				}
			})
			defer jrpc2.VerifSetHook(nil)
		}
		nrel := 0
		drain := func(all bool) {
			synctest.Wait()
			if !sc.on {
				return
			}
			budget := g.intn(sc.nparked() + 2)
			for sc.nparked() > 0 && (all || budget > 0) {
				site := sc.release(g.intn(sc.nparked()))
				nrel++
				r.line("ev\tsched\t%s", site)
				budget--
			}
		}
		r.line("scenario\t%s\t%d\t%d\t%s\t%s", fam, seed, idx, kind, policy)

		// configuration
		var hook, getter bool
		conc := pick(g, []int{0, 0, 1, 2, 4})
		gateMethod := "POST"
		if kind == "gate" {
			hook, getter = idx&1 == 1, idx&2 == 2
			gateMethod = []string{"POST", "GET", "PUT"}[idx/4]
		} else {
			hook, getter = g.chance(1, 5), g.chance(1, 5)
		}
		r.line("cfg\t%s\t%s\t%d", b01(hook), b01(getter), conc)
		opts := &jhttp.BridgeOptions{Server: &jrpc2.ServerOptions{Concurrency: conc}}
		if idx%3 == 1 {
			// push enabled on the bridge server (nothing is ever pushed here): reply-shaped and method-less members
			// of a POST are answered exactly as without it
			opts.Server.AllowPush = true
			r.line("env\tallowpush")
		}
		if hook {
			opts.ParseRequest = func(req *http.Request) ([]*jrpc2.ParsedRequest, error) {
				body, err := io.ReadAll(req.Body)
				if err != nil {
					return nil, err
				}
				return jrpc2.ParseRequests(body)
			}
		}
		if getter {
			opts.ParseGETRequest = func(req *http.Request) (string, any, error) {
				r.mu.Lock()
				r.getHits++
				r.mu.Unlock()
				return "", nil, errors.New("harness: GET is not served")
			}
		}
		b := jhttp.NewBridge(brAssigner{r}, opts)
		drain(true)

		// the id vocabulary of the scenario: a few ids, so that they collide within and across POSTs
		nid := 1 + g.intn(3)
		for i := 0; i < nid; i++ {
			s.ids = append(s.ids, pick(g, brIDs))
		}

		var reqs []*brRequest
		if kind == "gate" {
			// one request per content type, run one after the other, handlers pre-released
			for i, ct := range brContentTypes {
				q := &brRequest{n: i, method: gateMethod, ct: ct, done: make(chan struct{})}
				switch i % 5 {
				case 3:
					q.badBody, q.body = "garbage", "garbage"
				case 4:
					q.batch = true
					q.members = []brMember{s.member(i), s.member(i)}
					q.body = "[" + q.members[0].m.wire + "," + q.members[1].m.wire + "]"
				default:
					t := s.newTok(i)
					q.members = []brMember{{mkCall(s.id(), "g", t), "[" + t + "]"}}
					q.body = q.members[0].m.wire
				}
				reqs = append(reqs, q)
			}
			s.outcomes()
			for _, pm := range s.pend {
				r.gates[pm.p] <- pm.m
			}
			for _, q := range reqs {
				q.logQ(r)
				r.mu.Lock()
				before := r.getHits
				r.mu.Unlock()
				r.line("ev\tlaunch\t%d", q.n)
				q.launch(b)
				synctest.Wait()
				r.mu.Lock()
				via := r.getHits != before
				r.mu.Unlock()
				q.logA(r, via)
			}
		} else {
			k := 1 + g.intn(6)
			for i := 0; i < k; i++ {
				method, ct := "POST", pick(g, brGoodTypes)
				if g.chance(1, 12) {
					method = pick(g, []string{"GET", "PUT", "post", "DELETE"})
				}
				if g.chance(1, 10) {
					ct = pick(g, brContentTypes)
				}
				reqs = append(reqs, s.request(i, method, ct))
			}
			s.outcomes()
			for _, q := range reqs {
				q.logQ(r)
			}
			// events: launches and releases in a generated order (a release may precede the
			// launch of its POST: the handler then finds its outcome waiting)
			type ev struct {
				launch int
				rel    *brPending
			}
			var evs []ev
			for i := range reqs {
				evs = append(evs, ev{launch: i})
			}
			pend := s.pend
			for i := range pend {
				evs = append(evs, ev{launch: -1, rel: &pend[i]})
			}
			mode := g.intn(3) // 0: all launches first; 1: fully shuffled; 2: launches first, releases reversed
			if mode == 1 {
				for i := len(evs) - 1; i > 0; i-- {
					j := g.intn(i + 1)
					evs[i], evs[j] = evs[j], evs[i]
				}
			} else {
				rel := evs[len(reqs):]
				if mode == 2 {
					for i, j := 0, len(rel)-1; i < j; i, j = i+1, j-1 {
						rel[i], rel[j] = rel[j], rel[i]
					}
				} else {
					for i := len(rel) - 1; i > 0; i-- {
						j := g.intn(i + 1)
						rel[i], rel[j] = rel[j], rel[i]
					}
				}
			}
			getterReqs := map[int]bool{}
			stagger := g.chance(1, 2)
			for _, e := range evs {
				if e.launch >= 0 {
					q := reqs[e.launch]
					r.line("ev\tlaunch\t%d", q.n)
					r.mu.Lock()
					before := r.getHits
					r.mu.Unlock()
					q.launch(b)
					if q.method == "GET" && getter {
						synctest.Wait()
					}
					if stagger {
						drain(false)
					}
					r.mu.Lock()
					if r.getHits != before {
						getterReqs[q.n] = true
					}
					r.mu.Unlock()
				} else {
					r.line("ev\trelease\t%s", hexf([]byte(e.rel.p)))
					r.gates[e.rel.p] <- e.rel.m
					drain(false)
				}
			}
			drain(true)
			for _, q := range reqs {
				q.logA(r, getterReqs[q.n])
			}
		}
		// tokens started that belong to no request
		r.mu.Lock()
		for _, p := range r.started {
			if _, ok := r.tokReq[p]; !ok {
				r.faults = append(r.faults, "handler started for unknown params "+hexf([]byte(p)))
			}
		}
		r.mu.Unlock()
		sc.off()
		b.Close()
		synctest.Wait()
		for _, q := range reqs {
			if !q.finished() {
				r.fault("request %d still not finished after Close", q.n)
			}
		}
		for _, f := range r.faults {
			r.line("F\t%s", f)
		}
		r.line("end")
	})
}
