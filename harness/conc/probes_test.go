package conc

// Probes: small scripted checks of clauses that lie outside the transition models (they are judged by their own
// assertions, like the monitors of racing scenarios).  TestProbes runs the probes named in VERIF_PROBES and writes
// one line per probe to VERIF_OUT: "probe <name> ok" or "probe <name> FAIL <what>".

import (
	"context"
	"fmt"
	"net"
	"os"
	"strings"
	"sync"
	"testing"
	"time"

	"github.com/creachadair/jrpc2/channel"
	"github.com/creachadair/jrpc2/handler"
	"github.com/creachadair/jrpc2/server"
)

var probes = map[string]func() string{
	"netacc-ctx-before-loop":     func() string { return probeNetAccepter("before") },
	"netacc-ctx-between-accepts": func() string { return probeNetAccepter("between") },
	"netacc-ctx-during-accept":   func() string { return probeNetAccepter("during") },
}

func TestProbes(t *testing.T) {
	names := os.Getenv("VERIF_PROBES")
	if names == "" {
		t.Skip("not a probe invocation")
	}
	f, err := os.Create(os.Getenv("VERIF_OUT"))
	if err != nil {
		t.Fatal(err)
	}
	defer f.Close()
	for _, name := range strings.Split(names, ",") {
		p, ok := probes[name]
		if !ok {
			fmt.Fprintf(f, "probe\t%s\tFAIL\tunknown probe\n", name)
			continue
		}
		done := make(chan string, 1)
		go func() { done <- p() }()
		select {
		case r := <-done:
			fmt.Fprintf(f, "probe\t%s\t%s\n", name, r)
		case <-time.After(30 * time.Second):
			fmt.Fprintf(f, "probe\t%s\tFAIL\tdid not finish within 30s (hang)\n", name)
		}
	}
}

// memListener is an in-memory net.Listener: Accept blocks until a connection is offered or the listener is
// closed, and then fails with a closed-listener error, as a real one does.
type memListener struct {
	conns    chan net.Conn
	closed   chan struct{}
	once     sync.Once
	onAccept func() // called just before Accept returns a connection
}

func newMemListener() *memListener {
	return &memListener{conns: make(chan net.Conn, 4), closed: make(chan struct{})}
}

func (l *memListener) Accept() (net.Conn, error) {
	select {
	case <-l.closed:
		return nil, &net.OpError{Op: "accept", Net: "mem", Err: net.ErrClosed}
	default:
	}
	select {
	case c := <-l.conns:
		if l.onAccept != nil {
			l.onAccept()
		}
		return c, nil
	case <-l.closed:
		return nil, &net.OpError{Op: "accept", Net: "mem", Err: net.ErrClosed}
	}
}
func (l *memListener) Close() error   { l.once.Do(func() { close(l.closed) }); return nil }
func (l *memListener) Addr() net.Addr { return memAddr{} }
func (l *memListener) isClosed() bool {
	select {
	case <-l.closed:
		return true
	default:
		return false
	}
}

type memAddr struct{}

func (memAddr) Network() string { return "mem" }
func (memAddr) String() string  { return "mem" }

// probeNetAccepter: C20 "when the accepter fails Loop returns ... nil if the failure is a closed-listener error
// (which is what NetAccepter yields when the context ends)": whenever the context ends - before Loop is entered,
// between two Accept calls, or during one - Loop over a NetAccepter returns nil and the listener is closed.
func probeNetAccepter(when string) string {
	lst := newMemListener()
	ctx, cancel := context.WithCancel(context.Background())
	defer cancel()
	var peers []net.Conn
	defer func() {
		for _, p := range peers {
			p.Close()
		}
	}()
	switch when {
	case "before":
		cancel()
	case "between":
		a, b := net.Pipe()
		peers = append(peers, a)
		lst.conns <- b
		lst.onAccept = cancel // the context ends after a connection was accepted, before Accept is called again
	}
	ret := make(chan error, 1)
	go func() {
		ret <- server.Loop(ctx, server.NetAccepter(lst, channel.Line), server.Static(handler.Map{}), nil)
	}()
	if when == "during" {
		time.Sleep(50 * time.Millisecond) // Loop is blocked in Accept by now (if not, this is the "before" case)
		cancel()
	}
	select {
	case err := <-ret:
		if err != nil {
			return fmt.Sprintf("FAIL\tLoop over a NetAccepter returned %q after its context ended, want nil", err.Error())
		}
	case <-time.After(10 * time.Second):
		return "FAIL\tLoop over a NetAccepter did not return within 10s of the end of its context"
	}
	if !lst.isClosed() {
		return "FAIL\tthe listener is still open after Loop returned"
	}
	return "ok"
}
