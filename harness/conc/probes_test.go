package conc

// Probes: small scripted checks of clauses that lie outside the transition models (they are judged by their own
// assertions, like the monitors of racing scenarios).  TestProbes runs the probes named in VERIF_PROBES and writes
// one line per probe to VERIF_OUT: "probe <name> ok" or "probe <name> FAIL <what>".

import (
	"context"
	"encoding/json"
	"fmt"
	"io"
	"net"
	"net/http"
	"net/http/httptest"
	"os"
	"strings"
	"sync"
	"testing"
	"time"

	"github.com/creachadair/jrpc2"
	"github.com/creachadair/jrpc2/channel"
	"github.com/creachadair/jrpc2/handler"
	"github.com/creachadair/jrpc2/jhttp"
	"github.com/creachadair/jrpc2/server"
)

var probes = map[string]func() string{
	"netacc-ctx-before-loop":     func() string { return probeNetAccepter("before") },
	"netacc-ctx-between-accepts": func() string { return probeNetAccepter("between") },
	"netacc-ctx-during-accept":   func() string { return probeNetAccepter("during") },
	"wire-concurrent-pushes":     probeConcurrentPushes,
	"bridge-dead-context-post":   probeBridgeDeadContext,
	"shared-options-own-limits":  probeSharedOptions,
	"loop-finish-after-handlers": probeLoopFinishAfterHandlers,
}

func TestProbes(t *testing.T) {
	names := os.Getenv("VERIF_PROBES")
	if names == "" {
		t.Skip("not a probe invocation")
	}
	f, err := os.Create(os.Getenv("VERIF_OUT"))
	if err != nil {
		t.Fatal(err)
	}
	defer f.Close()
	for _, name := range strings.Split(names, ",") {
		p, ok := probes[name]
		if !ok {
			fmt.Fprintf(f, "probe\t%s\tFAIL\tunknown probe\n", name)
			continue
		}
		done := make(chan string, 1)
		go func() { done <- p() }()
		select {
		case r := <-done:
			fmt.Fprintf(f, "probe\t%s\t%s\n", name, r)
		case <-time.After(30 * time.Second):
			fmt.Fprintf(f, "probe\t%s\tFAIL\tdid not finish within 30s (hang)\n", name)
		}
	}
}

// memListener is an in-memory net.Listener: Accept blocks until a connection is offered or the listener is
// closed, and then fails with a closed-listener error, as a real one does.
type memListener struct {
	conns    chan net.Conn
	closed   chan struct{}
	once     sync.Once
	onAccept func() // called just before Accept returns a connection
}

func newMemListener() *memListener {
	return &memListener{conns: make(chan net.Conn, 4), closed: make(chan struct{})}
}

func (l *memListener) Accept() (net.Conn, error) {
	select {
	case <-l.closed:
		return nil, &net.OpError{Op: "accept", Net: "mem", Err: net.ErrClosed}
	default:
	}
	select {
	case c := <-l.conns:
		if l.onAccept != nil {
			l.onAccept()
		}
		return c, nil
	case <-l.closed:
		return nil, &net.OpError{Op: "accept", Net: "mem", Err: net.ErrClosed}
	}
}
func (l *memListener) Close() error   { l.once.Do(func() { close(l.closed) }); return nil }
func (l *memListener) Addr() net.Addr { return memAddr{} }
func (l *memListener) isClosed() bool {
	select {
	case <-l.closed:
		return true
	default:
		return false
	}
}

type memAddr struct{}

func (memAddr) Network() string { return "mem" }
func (memAddr) String() string  { return "mem" }

// probeNetAccepter: C20 "when the accepter fails Loop returns ... nil if the failure is a closed-listener error
// (which is what NetAccepter yields when the context ends)": whenever the context ends - before Loop is entered,
// between two Accept calls, or during one - Loop over a NetAccepter returns nil and the listener is closed.
func probeNetAccepter(when string) string {
	lst := newMemListener()
	ctx, cancel := context.WithCancel(context.Background())
	defer cancel()
	var peers []net.Conn
	defer func() {
		for _, p := range peers {
			p.Close()
		}
	}()
	switch when {
	case "before":
		cancel()
	case "between":
		a, b := net.Pipe()
		peers = append(peers, a)
		lst.conns <- b
		lst.onAccept = cancel // the context ends after a connection was accepted, before Accept is called again
	}
	ret := make(chan error, 1)
	go func() {
		ret <- server.Loop(ctx, server.NetAccepter(lst, channel.Line), server.Static(handler.Map{}), nil)
	}()
	if when == "during" {
		time.Sleep(50 * time.Millisecond) // Loop is blocked in Accept by now (if not, this is the "before" case)
		cancel()
	}
	select {
	case err := <-ret:
		if err != nil {
			return fmt.Sprintf("FAIL\tLoop over a NetAccepter returned %q after its context ended, want nil", err.Error())
		}
	case <-time.After(10 * time.Second):
		return "FAIL\tLoop over a NetAccepter did not return within 10s of the end of its context"
	}
	if !lst.isClosed() {
		return "FAIL\tthe listener is still open after Loop returned"
	}
	return "ok"
}

// stallWriter: the first Write blocks until released (the peer is slow to take the bytes), later ones pass.
type stallWriter struct {
	mu      sync.Mutex
	buf     []byte
	first   sync.Once
	entered chan struct{}
	release chan struct{}
}

func (w *stallWriter) Write(p []byte) (int, error) {
	w.first.Do(func() {
		close(w.entered)
		<-w.release
	})
	w.mu.Lock()
	w.buf = append(w.buf, p...)
	w.mu.Unlock()
	return len(p), nil
}

func (w *stallWriter) Close() error { return nil }

// probeConcurrentPushes: what reaches the peer is a sequence of whole messages, each valid one-line JSON-RPC, also
// when several goroutines push at the same time over a framing that assembles its frames in a per-channel buffer
// (header framings) and the peer is slow: a Notify issued while another is still being written waits for it.
func probeConcurrentPushes() string {
	for _, fr := range []struct {
		name string
		f    channel.Framing
	}{{"lsp", channel.LSP}, {"header", channel.Header("application/json")}, {"line", channel.Line}} {
		pr, pw := io.Pipe() // the client's requests: none; closed at the end
		w := &stallWriter{entered: make(chan struct{}), release: make(chan struct{})}
		srv := jrpc2.NewServer(handler.Map{}, &jrpc2.ServerOptions{AllowPush: true}).Start(fr.f(pr, w))
		errs := make(chan error, 3)
		go func() { errs <- srv.Notify(context.Background(), "first", []string{strings.Repeat("a", 300)}) }()
		select {
		case <-w.entered:
		case <-time.After(10 * time.Second):
			return "FAIL\t" + fr.name + ": the first push never reached the writer"
		}
		go func() { errs <- srv.Notify(context.Background(), "second", []int{2}) }()
		go func() { errs <- srv.Notify(context.Background(), "third", []string{strings.Repeat("c", 40)}) }()
		time.Sleep(100 * time.Millisecond) // let the other pushes get as far as they can
		close(w.release)
		for i := 0; i < 3; i++ {
			select {
			case err := <-errs:
				if err != nil {
					return fmt.Sprintf("FAIL\t%s: Notify failed: %v", fr.name, err)
				}
			case <-time.After(10 * time.Second):
				return "FAIL\t" + fr.name + ": a push did not return"
			}
		}
		pw.Close()
		srv.Wait()
		w.mu.Lock()
		stream := append([]byte(nil), w.buf...)
		w.mu.Unlock()
		rd := fr.f(io.NopCloser(strings.NewReader(string(stream))), nopWriteCloser{})
		seen := map[string]bool{}
		for {
			rec, err := rd.Recv()
			if err == io.EOF {
				break
			}
			if err != nil {
				return fmt.Sprintf("FAIL\t%s: the peer cannot read the stream of three concurrent pushes: %v (stream %q)", fr.name, err, clip(stream))
			}
			var m struct {
				V string          `json:"jsonrpc"`
				M string          `json:"method"`
				P json.RawMessage `json:"params"`
			}
			if strings.ContainsAny(string(rec), "\n\r") || json.Unmarshal(rec, &m) != nil || m.V != "2.0" {
				return fmt.Sprintf("FAIL\t%s: the peer received a record that is not a one-line JSON-RPC message: %q", fr.name, clip(rec))
			}
			if seen[m.M] {
				return fmt.Sprintf("FAIL\t%s: the push %q reached the peer twice (stream %q)", fr.name, m.M, clip(stream))
			}
			seen[m.M] = true
		}
		if !seen["first"] || !seen["second"] || !seen["third"] || len(seen) != 3 {
			return fmt.Sprintf("FAIL\t%s: the peer received %v, want first, second, third (stream %q)", fr.name, seen, clip(stream))
		}
	}
	return "ok"
}

type nopWriteCloser struct{}

func (nopWriteCloser) Write(p []byte) (int, error) { return len(p), nil }
func (nopWriteCloser) Close() error                { return nil }

func clip(b []byte) string {
	if len(b) > 400 {
		return string(b[:400]) + "..."
	}
	return string(b)
}

// probeBridgeDeadContext: a POST whose HTTP request context has already ended (the caller hung up while the body
// was read, a timeout middleware fired) is still a POST with calls in its body: it is answered with status 200 and
// one response object per call bearing the caller's id - the handler's outcome, or the cancellation error if the
// bridge's client gave up first - and with 204 when it holds only notifications; never with an error status.
func probeBridgeDeadContext() string {
	b := jhttp.NewBridge(handler.Map{
		"echo": func(_ context.Context, req *jrpc2.Request) (any, error) { return req.ParamString(), nil },
	}, nil)
	defer b.Close()
	dead, cancel := context.WithCancel(context.Background())
	cancel()
	for i, c := range []struct {
		body   string
		status int
		ids    []string
	}{
		{`{"jsonrpc":"2.0","id":"q-7","method":"echo","params":[1]}`, 200, []string{`"q-7"`}},
		{`{"jsonrpc":"2.0","method":"echo","params":[2]}`, 204, nil},
		{`[{"jsonrpc":"2.0","id":5,"method":"echo"},{"jsonrpc":"2.0","method":"echo"},{"jsonrpc":"2.0","id":"x","method":"nosuch"}]`, 200, []string{"5", `"x"`}},
	} {
		for _, ctx := range []context.Context{context.Background(), dead} {
			hr := httptest.NewRequest("POST", "/rpc", strings.NewReader(c.body)).WithContext(ctx)
			hr.Header.Set("Content-Type", "application/json")
			rec := httptest.NewRecorder()
			done := make(chan struct{})
			go func() { defer close(done); b.ServeHTTP(rec, hr) }()
			select {
			case <-done:
			case <-time.After(10 * time.Second):
				return fmt.Sprintf("FAIL\tPOST %d (dead context: %v) was not answered", i, ctx == dead)
			}
			if rec.Code != c.status {
				return fmt.Sprintf("FAIL\tPOST %d (dead context: %v) answered with status %d, want %d (body %q)", i, ctx == dead, rec.Code, c.status, clip(rec.Body.Bytes()))
			}
			if c.status == http.StatusNoContent {
				if rec.Body.Len() != 0 {
					return fmt.Sprintf("FAIL\tPOST %d: 204 with a body", i)
				}
				continue
			}
			var objs []map[string]json.RawMessage
			body := rec.Body.Bytes()
			if len(c.ids) == 1 {
				var o map[string]json.RawMessage
				if json.Unmarshal(body, &o) != nil {
					return fmt.Sprintf("FAIL\tPOST %d: body is not one JSON object: %q", i, clip(body))
				}
				objs = append(objs, o)
			} else if json.Unmarshal(body, &objs) != nil {
				return fmt.Sprintf("FAIL\tPOST %d: body is not an array of objects: %q", i, clip(body))
			}
			if len(objs) != len(c.ids) {
				return fmt.Sprintf("FAIL\tPOST %d (dead context: %v): %d response objects, want %d", i, ctx == dead, len(objs), len(c.ids))
			}
			for k, o := range objs {
				_, hasR := o["result"]
				_, hasE := o["error"]
				if string(o["id"]) != c.ids[k] || hasR == hasE {
					return fmt.Sprintf("FAIL\tPOST %d (dead context: %v): response %d is %q, want id %s and exactly one of result/error", i, ctx == dead, k, clip(body), c.ids[k])
				}
			}
		}
	}
	return "ok"
}

// probeSharedOptions: the Concurrency limit is per SERVER. Two servers built from the same *ServerOptions value
// (as server.Loop builds one per connection) do not share handler slots: while one is saturated, the other - with
// nothing executing - starts a request it is given; and neither exceeds its own limit.
func probeSharedOptions() string {
	opts := &jrpc2.ServerOptions{Concurrency: 1}
	gate := make(chan struct{})
	var running, peak int32
	var mu sync.Mutex
	mk := func() (*jrpc2.Server, *jrpc2.Client) {
		cch, sch := channel.Direct()
		srv := jrpc2.NewServer(handler.Map{
			"block": func(ctx context.Context, _ *jrpc2.Request) (any, error) {
				mu.Lock()
				running++
				if running > peak {
					peak = running
				}
				mu.Unlock()
				<-gate
				mu.Lock()
				running--
				mu.Unlock()
				return "done", nil
			},
			"ping": func(context.Context, *jrpc2.Request) (any, error) { return "pong", nil },
		}, opts).Start(sch)
		return srv, jrpc2.NewClient(cch, nil)
	}
	srvA, cliA := mk()
	srvB, cliB := mk()
	defer func() { cliA.Close(); cliB.Close(); srvA.Wait(); srvB.Wait() }()
	blocked := make(chan error, 1)
	go func() { _, err := cliA.Call(context.Background(), "block", nil); blocked <- err }()
	deadline := time.Now().Add(10 * time.Second)
	for {
		mu.Lock()
		n := running
		mu.Unlock()
		if n == 1 {
			break
		}
		if time.Now().After(deadline) {
			close(gate)
			return "FAIL\tthe blocking call on server A never started"
		}
		time.Sleep(time.Millisecond)
	}
	ctx, cancel := context.WithTimeout(context.Background(), 5*time.Second)
	defer cancel()
	_, err := cliB.Call(ctx, "ping", nil)
	close(gate)
	<-blocked
	if err != nil {
		return fmt.Sprintf("FAIL\tserver B (idle, Concurrency 1, built from the same *ServerOptions as the saturated server A) did not run its request: %v", err)
	}
	return "ok"
}

// oneConnAccepter hands out one connection and then blocks until its context ends.
type oneConnAccepter struct{ ch chan channel.Channel }

func (a oneConnAccepter) Accept(ctx context.Context) (channel.Channel, error) {
	select {
	case ch := <-a.ch:
		return ch, nil
	case <-ctx.Done():
		return nil, &net.OpError{Op: "accept", Net: "mem", Err: net.ErrClosed}
	}
}

type finishSvc struct {
	asg      jrpc2.Assigner
	finished chan jrpc2.ServerStatus
}

func (s finishSvc) Assigner() (jrpc2.Assigner, error)              { return s.asg, nil }
func (s finishSvc) Finish(_ jrpc2.Assigner, st jrpc2.ServerStatus) { s.finished <- st }

// probeLoopFinishAfterHandlers: Finish is called only after the connection's server has FULLY exited - every
// handler returned, also those of a message that holds nothing but notifications and whose last member's
// handler has long returned - and Loop returns after that.
func probeLoopFinishAfterHandlers() string {
	gate := make(chan struct{})
	started := make(chan struct{}, 1)
	svc := finishSvc{finished: make(chan jrpc2.ServerStatus, 1), asg: handler.Map{
		"slow": func(context.Context, *jrpc2.Request) (any, error) { started <- struct{}{}; <-gate; return nil, nil },
		"fast": func(context.Context, *jrpc2.Request) (any, error) { return nil, nil },
	}}
	cch, sch := channel.Direct()
	acc := oneConnAccepter{ch: make(chan channel.Channel, 1)}
	acc.ch <- sch
	ctx, cancel := context.WithCancel(context.Background())
	defer cancel()
	ret := make(chan error, 1)
	go func() {
		ret <- server.Loop(ctx, acc, func() server.Service { return svc }, &server.LoopOptions{ServerOptions: &jrpc2.ServerOptions{Concurrency: 4}})
	}()
	if err := cch.Send([]byte(`[{"jsonrpc":"2.0","method":"slow"},{"jsonrpc":"2.0","method":"fast"}]`)); err != nil {
		close(gate)
		return "FAIL\tsend: " + err.Error()
	}
	select {
	case <-started:
	case <-time.After(10 * time.Second):
		close(gate)
		return "FAIL\tthe slow notification never started"
	}
	cch.Close() // the peer hangs up while the slow handler is still running
	select {
	case st := <-svc.finished:
		close(gate)
		return fmt.Sprintf("FAIL\tFinish was called (status %+v) while a handler of that server was still running", st)
	case err := <-ret:
		close(gate)
		return fmt.Sprintf("FAIL\tLoop returned (%v) while a handler of a server it started was still running", err)
	case <-time.After(300 * time.Millisecond):
	}
	close(gate)
	select {
	case <-svc.finished:
	case <-time.After(10 * time.Second):
		return "FAIL\tFinish was not called within 10s of the last handler's return"
	}
	cancel()
	select {
	case err := <-ret:
		if err != nil {
			return fmt.Sprintf("FAIL\tLoop returned %v after its context ended, want nil", err)
		}
	case <-time.After(10 * time.Second):
		return "FAIL\tLoop did not return within 10s of the end of its context"
	}
	return "ok"
}
