package conc

// Family hc:bridge (C19, "same results as over a direct connection"): a real
// jrpc2.Client over jhttp.Channel whose HTTPClient serves every POST with a real
// jhttp.Bridge (through httptest.ResponseRecorder) and then holds the response
// until the scenario releases it, so that the HTTP responses of concurrent
// operations reach the client one at a time in a chosen order.  The same
// operations are run on a server.Local (channel.Direct) with the same methods and
// the outcomes compared.  At the end the client is closed: every response body
// must have been closed and no goroutine may be left in the bubble.
//
//   br <round> <op#> <description> <outcome over HTTP> <outcome direct>
//   snap <bodies opened> <bodies closed>       after the client was closed
//   fault ... / end

import (
	"bufio"
	"context"
	"crypto/sha256"
	"encoding/json"
	"fmt"
	"io"
	"net/http"
	"net/http/httptest"
	"strings"
	"sync"
	"testing"
	"testing/synctest"

	"github.com/creachadair/jrpc2"
	"github.com/creachadair/jrpc2/handler"
	"github.com/creachadair/jrpc2/jhttp"
	"github.com/creachadair/jrpc2/server"
)

type hcbRun struct {
	mu     sync.Mutex
	bridge jhttp.Bridge
	parked []chan struct{}
	opened int
	closed int
	faults []string
}

type brBody struct {
	io.Reader
	run    *hcbRun
	closed bool
}

func (b *brBody) Close() error {
	b.run.mu.Lock()
	defer b.run.mu.Unlock()
	if !b.closed {
		b.closed = true
		b.run.closed++
	}
	return nil
}

type brClient struct{ run *hcbRun }

func (c brClient) Do(req *http.Request) (*http.Response, error) {
	r := c.run
	rec := httptest.NewRecorder()
	r.bridge.ServeHTTP(rec, req)
	g := make(chan struct{})
	r.mu.Lock()
	r.parked = append(r.parked, g)
	r.mu.Unlock()
	<-g
	res := rec.Result()
	r.mu.Lock()
	r.opened++
	r.mu.Unlock()
	res.Body = &brBody{Reader: res.Body, run: r}
	return res, nil
}

func brMethods() handler.Map {
	return handler.Map{
		"echo": func(_ context.Context, req *jrpc2.Request) (any, error) {
			var raw json.RawMessage
			if err := req.UnmarshalParams(&raw); err != nil {
				return nil, err
			}
			return raw, nil
		},
		"fail": func(context.Context, *jrpc2.Request) (any, error) {
			return nil, jrpc2.Errorf(jrpc2.InvalidParams, "no good").WithData([]int{1, 2})
		},
		"plain": func(context.Context, *jrpc2.Request) (any, error) { return nil, fmt.Errorf("plain failure") },
		// handlers that report a context error of their own (an internal time budget, say): the caller sees the
		// same thing over HTTP as over a direct connection
		"deadline": func(context.Context, *jrpc2.Request) (any, error) { return nil, context.DeadlineExceeded },
		"cancelled": func(context.Context, *jrpc2.Request) (any, error) {
			return nil, &jrpc2.Error{Code: jrpc2.Cancelled, Message: "gave up"}
		},
		"note": func(context.Context, *jrpc2.Request) (any, error) { return nil, nil },
	}
}

type brOp struct {
	kind   string // call | notify | batch
	method string
	param  string
	specs  []jrpc2.Spec
	desc   string
}

func brOutcome(rsp *jrpc2.Response, err error) string {
	if err != nil {
		if e, ok := err.(*jrpc2.Error); ok {
			return fmt.Sprintf("E%d:%s:%s", e.Code, e.Message, string(e.Data))
		}
		return "err:" + err.Error()
	}
	if rsp == nil {
		return "nil"
	}
	if e := rsp.Error(); e != nil {
		return fmt.Sprintf("E%d:%s:%s", e.Code, e.Message, string(e.Data))
	}
	var raw json.RawMessage
	rsp.UnmarshalResult(&raw)
	if len(raw) > 4096 {
		return fmt.Sprintf("R:%d bytes, sha256 %x", len(raw), sha256.Sum256(raw))
	}
	return "R:" + string(raw)
}

func brExec(cli *jrpc2.Client, op brOp) string {
	ctx := context.Background()
	switch op.kind {
	case "call":
		return brOutcome(cli.Call(ctx, op.method, json.RawMessage(op.param)))
	case "notify":
		if err := cli.Notify(ctx, op.method, json.RawMessage(op.param)); err != nil {
			return "err:" + err.Error()
		}
		return "ok"
	default:
		rsps, err := cli.Batch(ctx, op.specs)
		if err != nil {
			return "err:" + err.Error()
		}
		var parts []string
		for _, r := range rsps {
			parts = append(parts, brOutcome(r, nil))
		}
		return "[" + strings.Join(parts, ";") + "]"
	}
}

func brGenOp(g *rng, tag string) brOp {
	methods := []string{"echo", "echo", "echo", "fail", "plain", "nosuch", "note", "deadline", "cancelled"} // not rpc.serverInfo: its metrics are process-global counters
	mk := func(i int) (string, string) {
		if g.chance(1, 60) {
			// a request of more than a megabyte: no size is special to the HTTP transport
			return "echo", fmt.Sprintf(`{"t":"%s.%d","v":%d,"pad":"%s"}`, tag, i, g.intn(100), strings.Repeat("p", 1<<20+g.intn(5000)))
		}
		return pick(g, methods), fmt.Sprintf(`{"t":"%s.%d","v":%d}`, tag, i, g.intn(100))
	}
	switch g.intn(6) {
	case 0, 1, 2:
		m, p := mk(0)
		return brOp{kind: "call", method: m, param: p, desc: "call:" + m}
	case 3:
		m, p := mk(0)
		return brOp{kind: "notify", method: m, param: p, desc: "notify:" + m}
	default:
		n := 1 + g.intn(3)
		op := brOp{kind: "batch"}
		var d []string
		for i := 0; i < n; i++ {
			m, p := mk(i)
			note := g.chance(1, 3)
			op.specs = append(op.specs, jrpc2.Spec{Method: m, Params: json.RawMessage(p), Notify: note})
			if note {
				d = append(d, "n:"+m)
			} else {
				d = append(d, "c:"+m)
			}
		}
		op.desc = "batch:" + strings.Join(d, ",")
		return op
	}
}

func runHcBridge(t *testing.T, fam string, seed uint64, idx int, out *bufio.Writer) {
	g := newRng(newRng(seed*1000003 + uint64(idx) + 500009).next())
	synctest.Test(t, func(t *testing.T) {
		lg := &logger{out: out}
		lg.item("scenario\t%s\t%d\t%d\tq", fam, seed, idx)
		r := &hcbRun{bridge: jhttp.NewBridge(brMethods(), nil)}
		hcli := jrpc2.NewClient(jhttp.NewChannel("http://br.test/", &jhttp.ChannelOptions{Client: brClient{r}}), nil)
		loc := server.NewLocal(brMethods(), nil)
		rounds := 1 + g.intn(4)
		for rd := 0; rd < rounds; rd++ {
			n := 1 + g.intn(3)
			ops := make([]brOp, n)
			res := make([]string, n)
			var wg sync.WaitGroup
			for i := range ops {
				ops[i] = brGenOp(g, fmt.Sprintf("%d.%d", rd, i))
				wg.Add(1)
				go func() { defer wg.Done(); res[i] = brExec(hcli, ops[i]) }()
				synctest.Wait() // operations are issued in a fixed order (ids are allocated in that order)
			}
			// let the HTTP responses arrive one at a time in a random order
			for {
				synctest.Wait()
				r.mu.Lock()
				k := len(r.parked)
				var gch chan struct{}
				if k > 0 {
					j := g.intn(k)
					gch = r.parked[j]
					r.parked = append(r.parked[:j], r.parked[j+1:]...)
				}
				r.mu.Unlock()
				if gch == nil {
					break
				}
				close(gch)
			}
			wg.Wait()
			for i, op := range ops {
				lg.item("br\t%d\t%d\t%s\t%s\t%s", rd, i, op.desc, res[i], brExec(loc.Client, op))
			}
		}
		if err := hcli.Close(); err != nil {
			lg.item("fault\tclient Close over the HTTP channel returned %v", err)
		}
		synctest.Wait()
		r.mu.Lock()
		lg.item("snap\t%d\t%d", r.opened, r.closed)
		if r.opened != r.closed {
			lg.item("fault\tafter the client was closed %d response bodies were opened but %d closed", r.opened, r.closed)
		}
		r.mu.Unlock()
		r.bridge.Close()
		loc.Close()
		lg.item("end")
	})
}
