// Command pure drives the pure (single-goroutine or client/server round trip)
// parts of jrpc2 with generated inputs and writes one observation line per
// case; the Coq models are run on the same lines by the OCaml runners.
package main

import (
	"flag"
	"fmt"
	"os"
)

type config struct {
	seed   uint64
	n      int
	tier   string
	out    string
	replay string
}

var commands = map[string]func(cfg *config){}

func main() {
	if len(os.Args) < 2 {
		fatal("usage: pure <command> [flags]")
	}
	cmd := os.Args[1]
	fs := flag.NewFlagSet(cmd, flag.ExitOnError)
	cfg := &config{}
	fs.Uint64Var(&cfg.seed, "seed", 1, "PRNG seed")
	fs.IntVar(&cfg.n, "n", 1000, "case budget")
	fs.StringVar(&cfg.tier, "tier", "quick", "quick|thorough")
	fs.StringVar(&cfg.out, "out", "", "output file")
	fs.StringVar(&cfg.replay, "replay", "", "replay a case file instead of generating")
	fs.Parse(os.Args[2:])
	f, ok := commands[cmd]
	if !ok {
		fatal("unknown command %q", cmd)
	}
	if cfg.out == "" {
		fatal("-out required")
	}
	f(cfg)
	fmt.Println("harness done")
}
