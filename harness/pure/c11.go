package main

// C11: framing round trip for any fragmentation.  Generates R / RX / RK lines (pipelined
// round trip through the real Send and the real Recv behind a chunk-controlled reader),
// D lines (channel.Direct) and I lines (channel.IsErrClosing).  See frame.go for formats.

import (
	"fmt"
	"sort"
	"strconv"
	"strings"
)

func init() { commands["c11"] = c11Main }

type lineGen struct {
	lines []string
	seen  map[string]bool
}

func newLineGen() *lineGen { return &lineGen{seen: map[string]bool{}} }

func (g *lineGen) add(fields ...string) {
	l := strings.Join(fields, "\t")
	if !g.seen[l] {
		g.seen[l] = true
		g.lines = append(g.lines, l)
	}
}

var c11Mimes = []string{"", "application/json", "x", lspMime, "a:b; c  d", "X", "Application/JSON; charset=UTF-8"}

func c11SplitFramings() []string {
	return []string{"line", "split:0a", "split:00", "split:ff", "split:61", "split:0d", "split:22"}
}

func c11HdrFramings() []string {
	out := []string{"lsp"}
	for _, mt := range c11Mimes {
		out = append(out, "strict:"+hexf(mt), "header:"+hexf(mt))
	}
	return out
}

// bigRec is the spec of an n-byte record that does not contain the split byte of fr
// (any bytes for the other framings; a JSON string for rawjson).
func bigRec(fr framing, n int, seed uint64) string {
	switch fr.kind {
	case 'h':
		return zspec(n, seed, "c")
	case 'j':
		if n < 2 {
			return lit("0")
		}
		return lit("\"") + "+" + zspec(n-2, seed, "a") + "+" + lit("\"")
	}
	switch {
	case fr.b == '\n':
		return zspec(n, seed, "b")
	case fr.b < 0x20 || fr.b > 0x7e || fr.b == '"' || fr.b == '\\':
		return zspec(n, seed, "a")
	}
	// a printable split byte: repeat a unit that avoids it
	unit := ""
	for c := byte('b'); len(unit) < 7; c++ {
		if c != fr.b {
			unit += string(c)
		}
	}
	k := n / len(unit)
	s := yspec(k, unit)
	if rem := n - k*len(unit); rem > 0 {
		s += "+" + lit(unit[:rem])
	}
	return s
}

// streamOf runs the real sender to learn the stream a record list produces (generator only).
func streamOf(fr framing, recs []string) []byte {
	_, stream := sendAll(fr, parseRecs(joinRecs(recs)))
	return stream
}

// delimiterCuts: cut sets at and around the structural bytes of a (small) stream.
func delimiterCuts(fr framing, stream []byte) []string {
	var special []int
	isSpecial := func(c byte) bool {
		switch fr.kind {
		case 's':
			return c == fr.b
		case 'h':
			return c == '\r' || c == '\n' || c == ':' || c == '-' || (c >= '0' && c <= '9')
		default:
			return c == '\\' || c == '"' || c == '{' || c == '}' || c == '[' || c == ']' || c == ',' || c == 'u' || c == '\n' || c >= 0x80
		}
	}
	lim := len(stream)
	for i := 0; i < lim && len(special) < 400; i++ {
		if isSpecial(stream[i]) {
			special = append(special, i, i+1)
		}
	}
	special = uniqPositions(special, len(stream))
	if len(special) == 0 {
		return nil
	}
	var out []string
	out = append(out, cutsText(special, false), cutsText(special, true))
	// every second one, and each pair of neighbours for the first few
	var odd []int
	for i, p := range special {
		if i%2 == 1 {
			odd = append(odd, p)
		}
	}
	if len(odd) > 0 {
		out = append(out, cutsText(odd, true))
	}
	for i := 0; i+1 < len(special) && i < 6; i++ {
		out = append(out, cutsText(special[i:i+2], i%2 == 0))
	}
	return out
}

func uniqPositions(at []int, n int) []int {
	sort.Ints(at)
	var out []int
	for _, p := range at {
		if p <= 0 || p >= n {
			continue
		}
		if len(out) == 0 || out[len(out)-1] != p {
			out = append(out, p)
		}
	}
	return out
}

// windowCuts: cuts at and around the bufio window boundaries.
func windowCuts(n int) []string {
	var out []string
	for _, w := range []int{4096, 8192} {
		if n > w+1 {
			out = append(out, cutsText([]int{w - 1}, false), cutsText([]int{w}, true), cutsText([]int{w + 1}, false),
				cutsText([]int{w - 1, w, w + 1}, true))
		}
	}
	if n > 512 {
		out = append(out, cutsText(uniqPositions([]int{511, 512, 513, 1024, 4095, 4096, 4097, 8191, 8192, 8193}, n), false))
	}
	return out
}

// emit writes the round-trip lines of one record list: exhaustive cut sets when the stream is
// small enough, otherwise the given cut modes.
func (g *lineGen) roundTrip(frName string, recs []string, r *rng, extraCuts int) {
	fr := parseFraming(frName)
	total := 0
	for _, s := range recs {
		total += specLen(s)
	}
	rs := joinRecs(recs)
	if total <= 1<<16 {
		stream := streamOf(fr, recs)
		n := len(stream)
		switch {
		case n <= 13:
			g.add("RX", frName, rs)
			return
		case n <= 72:
			g.add("RK", frName, "3", rs)
		case n <= 200:
			g.add("RK", frName, "2", rs)
		}
		for _, c := range []string{"w", "W", "1", "1e"} {
			g.add("R", frName, c, rs)
		}
		for _, c := range delimiterCuts(fr, stream) {
			g.add("R", frName, c, rs)
		}
		for _, c := range windowCuts(n) {
			g.add("R", frName, c, rs)
		}
	} else {
		g.add("R", frName, "w", rs)
		g.add("R", frName, "W", rs)
		if total <= 1<<20 {
			g.add("R", frName, "1e", rs)
		}
	}
	for i := 0; i < extraCuts; i++ {
		g.add("R", frName, randomCuts(r, total), rs)
	}
}

func randomCuts(r *rng, total int) string {
	maxes := []int{2, 3, 7, 64, 512, 4095, 4096, 4097, 5000, 9000, 70000, 1 << 20}
	m := pick(r, maxes)
	if total > 1<<20 && m < 64 {
		m = 4097
	}
	s := fmt.Sprintf("r%dx%d", r.next()>>2, m)
	if r.chance(1, 2) {
		s += "e"
	}
	return s
}

// hdrLenFor: the payload length for which a header-framed record occupies exactly total bytes.
func hdrLenFor(mt string, total int) int {
	for l := total; l >= 0; l-- {
		h := len("Content-Length: \r\n\r\n") + len(strconv.Itoa(l))
		if mt != "" {
			h += len("Content-Type: \r\n") + len(mt)
		}
		if h+l == total {
			return l
		}
		if h+l < total {
			break
		}
	}
	return -1
}

func c11Fixed(g *lineGen, r *rng, tier string) {
	thorough := tier == "thorough"
	// ---- split framings
	for _, fn := range c11SplitFramings() {
		fr := parseFraming(fn)
		b := string([]byte{fr.b})
		o, p := "x", "y"
		if fr.b == 'x' || fr.b == 'y' {
			o, p = "p", "q"
		}
		small := [][]string{
			{}, {""}, {"", ""}, {"", "", ""}, {o}, {o, p}, {o + p, "", p}, {o + p + o, o + p + o}, {b}, {o, o + b + p, p}, {b, b},
			{o + b}, {b + o}, {"\r"}, {o + "\r"}, {"\x00"}, {"\xff", "\xfe"}, {"\n", o}, {"a", "b"}, {o + o + o + o + o + o, p + p + p + p + p},
			{"", o, "", b, ""}, {"\r\n", o}, {o + p + o + p + o + p + o + p + o + p + o + p},
			{"hello", "wor" + b + "ld", "", "again", b, "end"},
		}
		for _, recs := range small {
			var specs []string
			for _, s := range recs {
				specs = append(specs, lit(s))
			}
			g.roundTrip(fn, specs, r, 1)
		}
		// the bufio window: records whose length + delimiter straddles 4096 / 8192
		for _, n := range []int{4094, 4095, 4096, 4097, 8190, 8191, 8192, 8193, 12287, 12288} {
			big := bigRec(fr, n, uint64(n))
			g.roundTrip(fn, []string{big}, r, 2)
			g.roundTrip(fn, []string{lit(o), big, lit(p)}, r, 1)
			g.roundTrip(fn, []string{big, big}, r, 1)
			if fn == "line" || fn == "split:00" {
				g.roundTrip(fn, []string{big, lit(o + b + p), bigRec(fr, 4096, 5), lit("")}, r, 1)
			}
		}
		// a refused big record between good ones
		g.roundTrip(fn, []string{lit(o), bigRec(fr, 5000, 1) + "+" + lit(b) + "+" + bigRec(fr, 10, 2), lit(p)}, r, 1)
		for _, n := range []int{65536, 200000, 1<<20 - 1, 1 << 20, 1<<20 + 4097} {
			g.roundTrip(fn, []string{bigRec(fr, n, uint64(n)), lit(o), bigRec(fr, n/3, 3)}, r, 2)
		}
	}
	// ---- header framings
	for _, fn := range c11HdrFramings() {
		fr := parseFraming(fn)
		small := [][]string{
			{}, {""}, {"", ""}, {"a"}, {"a", "b"}, {"ab", "", "c"}, {"abc", "abc"},
			{"Content-Length: 5\r\n\r\n"}, {"\r\n\r\n", "\n"}, {"a\r\nContent-Length: 1\r\n\r\nb", "c"},
			{"Content-Type: nope\r\n", "Content-Length: 0\r\n\r\n", ""}, {"\r", "\n", "\r\n"}, {"0123456789"}, {"\x00\xff", "\xc2\xa0"},
			{"{\"jsonrpc\":\"2.0\",\"id\":1,\"method\":\"x\"}", "{\"jsonrpc\":\"2.0\",\"id\":1,\"result\":null}"},
			{"", "", "", "x", "", ""},
		}
		for i, recs := range small {
			var specs []string
			for _, s := range recs {
				specs = append(specs, lit(s))
			}
			if !thorough && i > 7 && fn != "lsp" && fn != "strict:78" && fn != "header:-" {
				// quick: the full small corpus on three framings, the head of it on the others
				continue
			}
			g.roundTrip(fn, specs, r, 1)
		}
		for _, tot := range []int{4095, 4096, 4097, 8191, 8192, 8193} {
			l := hdrLenFor(fr.mt, tot)
			if l < 0 {
				continue
			}
			big := bigRec(fr, l, uint64(tot))
			g.roundTrip(fn, []string{big}, r, 1)
			g.roundTrip(fn, []string{big, lit("a"), big}, r, 1)
		}
		for _, n := range []int{4095, 4096, 4097, 65536} {
			g.roundTrip(fn, []string{lit("x"), bigRec(fr, n, uint64(n)), lit(""), bigRec(fr, n+1, 9)}, r, 1)
		}
		if fn == "lsp" || fn == "strict:78" || fn == "header:-" {
			// several megabytes, below the 16 MiB bound of the one-piece read: grows, shrinks, grows again
			g.roundTrip(fn, []string{bigRec(fr, 1<<22+4097, 5), lit("a"), bigRec(fr, 6<<20, 6), bigRec(fr, 100, 7), bigRec(fr, 1<<22, 8)}, r, 2)
		}
	}
	// receive-buffer reuse policy: sizes that grow past 1 MiB and shrink below a quarter
	seqs := [][]int{
		{10, 1536 * 1024, 100, 2 << 20, 300 * 1024, 5, 0, 3 << 20, 1},
		{1 << 20, 524288, 524287, 1, 524289, 2},
		{600000, 299999, 300001, 150000, 149999, 0, 1200001, 3},
	}
	policyFr := []string{"lsp", "strict:-"}
	policyCuts := 1
	if thorough {
		policyFr = c11HdrFramings()
		policyCuts = 3
	}
	for _, fn := range policyFr {
		fr := parseFraming(fn)
		for si, seq := range seqs {
			var specs []string
			for i, n := range seq {
				specs = append(specs, bigRec(fr, n, uint64(100*si+i)))
			}
			rs := joinRecs(specs)
			g.add("R", fn, "W", rs)
			for i := 0; i < policyCuts; i++ {
				g.add("R", fn, fmt.Sprintf("r%dx%d", r.next()>>2, pick(r, []int{4097, 70000, 1 << 20, 3 << 20})), rs)
			}
			if thorough {
				g.add("R", fn, "1e", rs)
			}
		}
	}
	if thorough {
		// one record beyond maxPrealloc (io.CopyN path), and one exactly at it
		g.add("R", "lsp", fmt.Sprintf("r%dx%d", r.next()>>2, 1<<20), joinRecs([]string{lit("abc"), zspec(1<<24+1, 77, "c"), lit("d")}))
		g.add("R", "strict:78", "W", joinRecs([]string{lit("abc"), zspec(1<<24, 78, "c"), lit("d"), zspec(1<<24+1, 79, "c")}))
	}
	// ---- rawjson
	{
		fn := "rawjson"
		fr := parseFraming(fn)
		small := [][]string{
			{}, {""}, {"null"}, {"", "null", ""}, {"{}"}, {"[]"}, {"\"\""}, {"\"a\""}, {"true"}, {"false"}, {"0"}, {"1"}, {"-1.5e+3"},
			{"{}", "[]"}, {"{}", "{}"}, {"[]", "", "{}"}, {"\"a\"", "\"a\""}, {"true", "false"}, {"1", "2"}, {"1", "\"a\""}, {"\"a\"", "1"},
			{"[1]", "2", "[3]"}, {"1", "", "2"}, {"null", "1"}, {"{\"a\":1}"}, {"[1,2]", "[3]"}, {"\"\\n\""}, {"\"\\\"\""}, {"\"\\\\\""},
			{"\"\\u00e9\""}, {"\"\xc3\xa9\""}, {"\"\xf0\x9f\x98\x80\""}, {"\"\xff\xfe\""}, {"\"\\ud83d\\ude00\""}, {" {} "}, {"{} ", " []"},
			{"{", "}"}, {"\"a", "b\""}, {"[1,", "2]"}, {"tr", "ue"}, {"nul", "l"}, {"n", "ull", "1"}, {"1.", "5"}, {"-", "1"}, {"1e", "5", " "},
			{"{\"a\":[1,2,{\"b\":null}],\"c\":\"d\"}", "[[[]]]"},
			{"{\"jsonrpc\":\"2.0\",\"id\":1,\"method\":\"x\",\"params\":[1,\"\\u00e9\\\"\",{\"k\":null}]}", "{\"jsonrpc\":\"2.0\",\"id\":1,\"result\":\"\xf0\x9f\x98\x80\"}", ""},
			{"\"\\u00e9\\n\\\\\\/\\b\\f\\r\\t\"", "[\"\\\"\",\"\\\\\"]"},
			{"[true,false,null]", "null", "[null]", "\"null\""},
		}
		for _, recs := range small {
			var specs []string
			for _, s := range recs {
				specs = append(specs, lit(s))
			}
			g.roundTrip(fn, specs, r, 1)
		}
		bigs := [][]string{
			{lit("\"") + "+" + zspec(200000, 7, "a") + "+" + lit("\"")},
			{lit("[") + "+" + yspec(50000, "1,") + "+" + lit("1]"), lit("{}")},
			{yspec(2000, "[") + "+" + yspec(2000, "]"), lit("1"), yspec(3000, "{\"a\":") + "+" + lit("0") + "+" + yspec(3000, "}")},
			{lit("{\"k\":\"") + "+" + zspec(4080, 1, "a") + "+" + lit("\"}"), lit("[\"") + "+" + zspec(4090, 2, "a") + "+" + lit("\\u00e9\\\\\"]"), lit("")},
			{lit("\"") + "+" + yspec(3000, "\\u00e9\\\"\xc3\xa9\xf0\x9f\x98\x80") + "+" + lit("\"")},
			{bigRec(fr, 509, 1), bigRec(fr, 510, 2), bigRec(fr, 511, 3), bigRec(fr, 512, 4), bigRec(fr, 513, 5), bigRec(fr, 1024, 6)},
			{bigRec(fr, 4095, 1), bigRec(fr, 4096, 2), bigRec(fr, 4097, 3), lit(""), bigRec(fr, 8192, 4)},
			{lit("[\"") + "+" + zspec(70000, 11, "a") + "+" + lit("\",") + "+" + yspec(9000, "{\"x\":[null,true]},") + "+" + lit("0]"), lit("\"z\"")},
			// multi-megabyte records with further records pipelined behind them (growing and shrinking)
			{lit("\"") + "+" + zspec(1<<20+1, 21, "a") + "+" + lit("\""), lit("{}"), lit("\"x\""), lit("[1,2]"), bigRec(fr, 300, 8)},
			{lit("{}"), lit("[\"") + "+" + zspec(3<<20, 22, "a") + "+" + lit("\"]"), lit("{\"a\":1}"), lit("\"") + "+" + zspec(1<<20+7, 23, "a") + "+" + lit("\""), lit("[]"), lit("")},
		}
		for _, specs := range bigs {
			g.roundTrip(fn, specs, r, 3)
		}
	}
	// ---- full duplex: Sends on the channel that is in the middle of receiving (small and multi-megabyte inbound
	// records; the inbound stream arrives in many reads)
	for _, fn := range append(append(c11SplitFramings(), c11HdrFramings()...), "rawjson") {
		fr := parseFraming(fn)
		outs := joinRecs([]string{bigRec(fr, 40, 91), bigRec(fr, 3, 92), bigRec(fr, 100, 93)})
		for _, n := range []int{10, 5000, 70000} {
			g.add("DX", fn, fmt.Sprintf("r%dx%d", r.next()>>2, 9), joinRecs([]string{bigRec(fr, n, uint64(n)), bigRec(fr, 7, 5)}), outs)
		}
		if strings.HasPrefix(fn, "split") || fn == "line" || fn == "rawjson" {
			continue
		}
		// header framings: an inbound record beyond the preallocation bound (16 MiB), its body arriving in 1 MiB reads
		g.add("DX", fn, fmt.Sprintf("r%dx%d", 77, 1<<20), joinRecs([]string{zspec(1<<24+33, 78, "c"), lit("tail")}), outs)
	}
	// ---- Direct
	directs := [][]string{{}, {""}, {"", ""}, {"a"}, {"a", "", "b"}, {"abc", "abc"}, {"\x00", "\n"}}
	for _, recs := range directs {
		var specs []string
		for _, s := range recs {
			specs = append(specs, lit(s))
		}
		g.add("D", joinRecs(specs))
	}
	var twenty []string
	for i := 0; i < 20; i++ {
		if i%5 == 3 {
			twenty = append(twenty, lit(""))
		} else {
			twenty = append(twenty, zspec(i*37, uint64(i), "c"))
		}
	}
	g.add("D", joinRecs(twenty))
	g.add("D", joinRecs([]string{zspec(1<<20, 5, "c"), lit(""), zspec(300, 6, "c")}))
}

// ---- seeded random round trips

func c11RandomSize(r *rng, maxBig int) int {
	switch k := r.intn(20); {
	case k < 3:
		return r.intn(3)
	case k < 9:
		return 3 + r.intn(62)
	case k < 12:
		return pick(r, []int{4094, 4095, 4096, 4097, 8191, 8192, 8193, 511, 512, 513})
	case k < 16:
		return r.intn(9000)
	case k < 18:
		return r.intn(70000)
	default:
		return r.intn(maxBig + 1)
	}
}

var jsonAtoms = []string{"null", "true", "false", "0", "1", "-1", "12", "1.5", "-0.0e-0", "1E+2", "\"\"", "\"a\"", "\"\\n\"", "\"\\\"\"", "\"\\\\\"",
	"\"\\u00e9\"", "\"\xc3\xa9\"", "\"\xf0\x9f\x98\x80\"", "\"\\ud83d\\ude00\"", "\"\xff\"", "\"a b\"", "{}", "[]", "\"\\/\\b\\f\\r\\t\"", "\"{[\"", "\"]}\"", "\"\x7f\""}

func genJSON(r *rng, depth int) string {
	if depth == 0 || r.chance(2, 5) {
		return pick(r, jsonAtoms)
	}
	ws := func() string {
		if r.chance(1, 6) {
			return pick(r, []string{" ", "\n", "\t", "\r\n", "  "})
		}
		return ""
	}
	var sb strings.Builder
	n := r.intn(4)
	if r.chance(1, 2) {
		sb.WriteString("[" + ws())
		for i := 0; i < n; i++ {
			if i > 0 {
				sb.WriteString("," + ws())
			}
			sb.WriteString(genJSON(r, depth-1) + ws())
		}
		sb.WriteString("]")
	} else {
		sb.WriteString("{" + ws())
		for i := 0; i < n; i++ {
			if i > 0 {
				sb.WriteString("," + ws())
			}
			sb.WriteString(pick(r, []string{"\"a\"", "\"\"", "\"k\\u0041\"", "\"\xc3\xa9\"", "\"a\\\"b\""}) + ws() + ":" + ws() + genJSON(r, depth-1) + ws())
		}
		sb.WriteString("}")
	}
	return sb.String()
}

func c11Random(g *lineGen, r *rng, tier string) {
	thorough := tier == "thorough"
	perFraming, maxBig, nBig := 40, 256*1024, 2
	if thorough {
		perFraming, maxBig, nBig = 400, 8<<20, 6
	}
	framings := append(append(c11SplitFramings(), c11HdrFramings()...), "rawjson")
	for _, fn := range framings {
		fr := parseFraming(fn)
		for i := 0; i < perFraming; i++ {
			nrec := r.intn(9)
			var specs []string
			total := 0
			for j := 0; j < nrec; j++ {
				if len(specs) > 0 && r.chance(1, 8) {
					specs = append(specs, specs[r.intn(len(specs))]) // equal records
					total += specLen(specs[len(specs)-1])
					continue
				}
				big := maxBig
				if i >= nBig || total > maxBig {
					big = 9000
				}
				n := c11RandomSize(r, big)
				total += n
				switch fr.kind {
				case 'j':
					switch k := r.intn(10); {
					case k < 5:
						specs = append(specs, lit(genJSON(r, 1+r.intn(4))))
					case k < 6:
						specs = append(specs, lit(pick(r, []string{"", "null", "1", "2", "12", "-", "tr", "ue", "{", "}", " ", "[", "]", "\"", ","})))
					default:
						specs = append(specs, bigRec(fr, n, r.next()>>2))
					}
				case 's':
					s := bigRec(fr, n, r.next()>>2)
					if r.chance(1, 7) {
						// contains the split byte: must be refused, nothing written
						s = bigRec(fr, n/2, r.next()>>2) + "+" + lit(string([]byte{fr.b})) + "+" + bigRec(fr, n-n/2, r.next()>>2)
					}
					specs = append(specs, s)
				default:
					if r.chance(1, 8) {
						specs = append(specs, lit(pick(r, []string{"Content-Length: 5\r\n\r\n", "\r\n", "\r\n\r\n", "Content-Type: x\r\n", "\n", "Content-Length: 0\r\n\r\nContent-Length: 1\r\n\r\nx"})))
					} else {
						specs = append(specs, bigRec(fr, n, r.next()>>2))
					}
				}
			}
			extra := 2
			if thorough {
				extra = 4
			}
			if total > 1<<16 {
				// big: a few random cuttings only
				rs := joinRecs(specs)
				for k := 0; k < extra; k++ {
					g.add("R", fn, randomCuts(r, total), rs)
				}
				g.add("R", fn, pick(r, []string{"w", "W"}), rs)
				continue
			}
			if total > 600 {
				// medium: random cuttings plus one structured mode
				rs := joinRecs(specs)
				for k := 0; k < extra; k++ {
					g.add("R", fn, randomCuts(r, total), rs)
				}
				g.add("R", fn, pick(r, []string{"w", "W", "1", "1e"}), rs)
				stream := streamOf(fr, specs)
				if cs := append(delimiterCuts(fr, stream), windowCuts(len(stream))...); len(cs) > 0 {
					g.add("R", fn, pick(r, cs), rs)
				}
				continue
			}
			g.roundTrip(fn, specs, r, extra)
		}
	}
	// Direct
	nd := 60
	if thorough {
		nd = 600
	}
	for i := 0; i < nd; i++ {
		n := r.intn(21)
		var specs []string
		for j := 0; j < n; j++ {
			if r.chance(1, 4) {
				specs = append(specs, lit(""))
			} else {
				specs = append(specs, zspec(r.intn(200), r.next()>>2, "c"))
			}
		}
		g.add("D", joinRecs(specs))
	}
}

// ---- IsErrClosing: error trees

func errTrees(leaves []string, depth int) []string {
	cur := append([]string(nil), leaves...)
	for d := 0; d < depth; d++ {
		next := append([]string(nil), leaves...)
		for _, t := range cur {
			next = append(next, "w("+t+")")
		}
		for _, a := range cur {
			for _, b := range cur {
				next = append(next, "j("+a+","+b+")")
			}
		}
		cur = next
	}
	return cur
}

func randErrTree(r *rng, depth int, leaves []string) string {
	if depth == 0 || r.chance(1, 4) {
		return pick(r, leaves)
	}
	if r.chance(1, 3) {
		return "w(" + randErrTree(r, depth-1, leaves) + ")"
	}
	return "j(" + randErrTree(r, depth-1, leaves) + "," + randErrTree(r, depth-1, leaves) + ")"
}

func c11ErrTrees(g *lineGen, r *rng, tier string) {
	leaves := []string{"n", "c", "N", "e", "l1"}
	for _, t := range []string{"os-errclosed", "io-closedpipe", "real-pipeclosed"} {
		g.add("I", t)
	}
	if realNetClosed() != nil {
		g.add("I", "real-netclosed")
	}
	for _, t := range errTrees(leaves, 2) {
		g.add("I", t)
	}
	if tier == "thorough" {
		for _, t := range errTrees([]string{"n", "c", "N", "l1"}, 3) {
			g.add("I", t)
		}
	}
	n := 1500
	if tier == "thorough" {
		n = 20000
	}
	all := []string{"n", "c", "N", "e", "l1", "l2", "l9"}
	for i := 0; i < n; i++ {
		g.add("I", randErrTree(r, 3+r.intn(3), all))
	}
}

func c11Main(cfg *config) {
	var inputs []string
	if cfg.replay != "" {
		inputs = readInputLines(cfg.replay)
	} else {
		r := newRng(cfg.seed)
		g := newLineGen()
		c11Fixed(g, r, cfg.tier)
		c11Random(g, r, cfg.tier)
		c11ErrTrees(g, r, cfg.tier)
		inputs = g.lines
	}
	obs := runLines(inputs, nil)
	writeCases(cfg.out, inputs, obs)
	fstats.print()
}
