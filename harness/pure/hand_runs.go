package main

// How a wrapped handler is exercised (shared by C15 "W" and C16 "P" cases):
//
//	single      a fresh handler, one request                         lines W / P
//	sequence    ONE handler value, a list of requests in order       lines Ws / Ps (one per request,
//	            first input field <group>.<index>; the lines of a group are consecutive)
//	concurrent  ONE handler value, G goroutines released together by a barrier, each issuing
//	            `iters` requests drawn from k distinct params texts (every text carries values
//	            no other text has), under GOMAXPROCS = procs         lines Wc / Pc:
//	            <case inputs> <G> <iters> <procs> <hex raws ","> | <views "!"> <oracles "!"> | <obs "!">
//	            obs: per params text, the SET of distinct observations over all calls with it ("+")
//
// The model has no handler state: it predicts every request of a sequence, and every
// params text of a concurrent case, by itself (c15_wrap_stateless / c16_calls_independent).

import (
	"context"
	"fmt"
	"os"
	"runtime"
	"sort"
	"strings"
	"sync"

	"github.com/creachadair/jrpc2"
)

type callKey struct{}

// progressPath: the concurrent case being run is noted here first, so that a Go
// runtime fatal error (unrecoverable: "concurrent map writes", a corrupted value)
// that kills the harness can be attributed to its case by the driver.
var progressPath string

func noteProgress(fields []string) {
	if progressPath != "" {
		os.WriteFile(progressPath, []byte(strings.Join(fields, "\t")+"\n"), 0o644)
	}
}

func clearProgress() {
	if progressPath != "" {
		os.Remove(progressPath)
	}
}

type hcase struct {
	kind   string                                 // "W" or "P"
	in     []string                               // the input fields of the case (without params)
	mk     func(rec *recorder) any                // the function value; may panic: reflect cannot make it
	wrap   func(fnv any) (jrpc2.Handler, string)  // Check/Positional + options + Wrap; or the error observation
	oracle func(view pview, raw string) string    // answers of encoding/json for this case's parameter type
}

func (hc *hcase) make(rec *recorder) (fnv any, ok bool) {
	ok = guard(func() { fnv = hc.mk(rec) }) == ""
	return
}

func (hc *hcase) oracleOf(view pview, raw string) string {
	o := "-"
	if p := guard(func() { o = hc.oracle(view, raw) }); p != "" {
		return "-"
	}
	return o
}

func (hc *hcase) single(w *caseWriter, rawhex string) {
	raw := unhexf(rawhex)
	view := viewOf(raw)
	rec := &recorder{}
	fnv, ok := hc.make(rec)
	if !ok {
		return
	}
	obs := ""
	if p := guard(func() {
		var h jrpc2.Handler
		if h, obs = hc.wrap(fnv); h == nil {
			return
		}
		rec.req = mkRequest(raw)
		res, herr := h(context.Background(), rec.req)
		obs = rec.observe(res, herr)
	}); p != "" {
		obs = "X:" + hexf(p)
	}
	w.line(append(append([]string{hc.kind}, hc.in...), rawhex, view.String(), hc.oracleOf(view, raw), obs)...)
}

// sequence: the same handler value serves the requests in order.
func (hc *hcase) sequence(w *caseWriter, gid int, rawhexes []string) {
	rec := &recorder{}
	fnv, ok := hc.make(rec)
	if !ok {
		return
	}
	var h jrpc2.Handler
	if p := guard(func() { h, _ = hc.wrap(fnv) }); p != "" || h == nil {
		return
	}
	for i, rawhex := range rawhexes {
		raw := unhexf(rawhex)
		view := viewOf(raw)
		obs := ""
		rec.calls = nil
		if p := guard(func() {
			rec.req = mkRequest(raw)
			res, herr := h(context.Background(), rec.req)
			obs = rec.observe(res, herr)
		}); p != "" {
			obs = "X:" + hexf(p)
		}
		w.line(append(append([]string{hc.kind + "s", fmt.Sprintf("%d.%d", gid, i)}, hc.in...),
			rawhex, view.String(), hc.oracleOf(view, raw), obs)...)
	}
}

// concurrent: G goroutines call the same handler value at the same time.
func (hc *hcase) concurrent(w *caseWriter, G, iters, procs int, rawhexes []string) {
	rec := &recorder{byID: map[int][][]string{}}
	fnv, ok := hc.make(rec)
	if !ok {
		return
	}
	var h jrpc2.Handler
	if p := guard(func() { h, _ = hc.wrap(fnv) }); p != "" || h == nil {
		return
	}
	k := len(rawhexes)
	raws := make([]string, k)
	for i, x := range rawhexes {
		raws[i] = unhexf(x)
	}
	noteProgress(append(append([]string{hc.kind + "c"}, hc.in...), fmt.Sprint(G), fmt.Sprint(iters), fmt.Sprint(procs),
		strings.Join(rawhexes, ",")))
	prev := runtime.GOMAXPROCS(procs)
	sets := make([]map[string]bool, G)
	var wg sync.WaitGroup
	start := make(chan struct{})
	for g := 0; g < G; g++ {
		wg.Add(1)
		sets[g] = map[string]bool{}
		go func(g int) {
			defer wg.Done()
			<-start
			for it := 0; it < iters; it++ {
				j := (g*7 + it*3 + it/k) % k
				id := g*iters + it
				ctx := context.WithValue(context.Background(), callKey{}, id)
				req := mkRequest(raws[j])
				var res any
				var herr error
				obs := ""
				if p := guard(func() { res, herr = h(ctx, req) }); p != "" {
					obs = "X:" + hexf(p)
				} else {
					obs = observeCalls(rec.take(id), rec, res, herr)
				}
				sets[g][fmt.Sprintf("%d\x00%s", j, obs)] = true
			}
		}(g)
	}
	close(start)
	wg.Wait()
	runtime.GOMAXPROCS(prev)
	clearProgress()
	per := make([]map[string]bool, k)
	for j := range per {
		per[j] = map[string]bool{}
	}
	for _, s := range sets {
		for e := range s {
			i := strings.IndexByte(e, 0)
			var j int
			fmt.Sscanf(e[:i], "%d", &j)
			per[j][e[i+1:]] = true
		}
	}
	views, oracles, obss := make([]string, k), make([]string, k), make([]string, k)
	for j := 0; j < k; j++ {
		v := viewOf(raws[j])
		views[j] = v.String()
		oracles[j] = hc.oracleOf(v, raws[j])
		var os []string
		for o := range per[j] {
			os = append(os, o)
		}
		sort.Strings(os)
		if len(os) == 0 {
			os = []string{"unused"}
		}
		obss[j] = strings.Join(os, "+")
	}
	w.line(append(append([]string{hc.kind + "c"}, hc.in...), fmt.Sprint(G), fmt.Sprint(iters), fmt.Sprint(procs),
		strings.Join(rawhexes, ","), strings.Join(views, "!"), strings.Join(oracles, "!"), strings.Join(obss, "!"))...)
}

// taggedJSON: a JSON text for the type whose leaves carry the tag j (so that no two
// params texts of a case share a value) and are never zero values.
func taggedJSON(t *tnode, j int) string {
	switch t.k {
	case 'b':
		return "true"
	case 'i':
		return fmt.Sprint(1000 + j)
	case 'f':
		return fmt.Sprintf("%d.5", j+1)
	case 's', 'a':
		return fmt.Sprintf(`"t%d"`, j)
	case 'L':
		return "[" + taggedJSON(t.elem, j) + "," + taggedJSON(t.elem, j+1) + "]"
	case 'Y':
		es := make([]string, t.n)
		for i := range es {
			es[i] = taggedJSON(t.elem, j+i)
		}
		return "[" + strings.Join(es, ",") + "]"
	case 'M':
		return `{"k":` + taggedJSON(t.elem, j) + `}`
	case 'P':
		return taggedJSON(t.elem, j)
	case 'N':
		return taggedJSON(t.elem, j)
	case 'S':
		_, names, types := docFields(t)
		parts := make([]string, len(names))
		for i, n := range names {
			parts[i] = quoteKey(n) + ":" + taggedJSON(types[i], j*10+i)
		}
		return "{" + strings.Join(parts, ",") + "}"
	}
	return "1"
}

// wrongJSON: a JSON text of a shape the type does not accept.
func wrongJSON(t *tnode) string {
	switch t.under().k {
	case 'i', 'f', 'b', 'L', 'Y', 'M', 'S':
		return `"wrong"`
	case 'P':
		return wrongJSON(t.under().elem)
	case 'a':
		return ""
	}
	return "17"
}

// stateProbes builds request lists aimed at state kept between calls: requests that are
// rejected AFTER part of them has been decoded (a wrong value that is not the first, an
// unknown key after known ones), each followed by valid requests that leave arguments
// unspecified (absent, null, {}, a missing name, null elements).
// names/types: the keys and value types of the object form; arrayOK: the array form exists.
func stateProbes(r *rng, names []string, types []*tnode, arrayOK bool) [][]string {
	n := len(names)
	if n == 0 {
		return nil
	}
	obj := func(idx []int, val func(i int) string, extra string) string {
		var parts []string
		for _, i := range idx {
			parts = append(parts, quoteKey(names[i])+":"+val(i))
		}
		if extra != "" {
			parts = append(parts, extra)
		}
		return "{" + strings.Join(parts, ",") + "}"
	}
	all := make([]int, n)
	for i := range all {
		all[i] = i
	}
	tag := 0
	tagged := func(i int) string { tag++; return taggedJSON(types[i], tag*7+i) }
	var bads []string
	// wrong type for the LAST name that has a wrong form (the others are decoded first)
	for k := n - 1; k >= 0; k-- {
		if wj := wrongJSON(types[k]); wj != "" {
			kk := k
			bads = append(bads, obj(all, func(i int) string {
				if i == kk {
					return wj
				}
				return tagged(i)
			}, ""))
			if arrayOK {
				es := make([]string, n)
				for i := range es {
					es[i] = tagged(i)
				}
				es[kk] = wj
				bads = append(bads, "["+strings.Join(es, ",")+"]")
			}
			break
		}
	}
	bads = append(bads, obj(all, tagged, `"bogus":true`))
	var goods []string
	goods = append(goods, "{}", "", "null")
	if n > 1 {
		goods = append(goods, obj(all[:1], tagged, ""), obj(all[n-1:], tagged, ""))
	}
	if arrayOK {
		es := make([]string, n)
		for i := range es {
			es[i] = "null"
		}
		goods = append(goods, "["+strings.Join(es, ",")+"]")
		if n > 1 {
			es[0] = tagged(0)
			goods = append(goods, "["+strings.Join(es, ",")+"]")
		}
	}
	var seqs [][]string
	for _, b := range bads {
		s := []string{b}
		for c := 0; c < 3; c++ {
			s = append(s, pick(r, goods))
		}
		seqs = append(seqs, s)
	}
	// one long mixed sequence
	var s []string
	for c := 0; c < 8; c++ {
		if c%2 == 0 {
			s = append(s, pick(r, bads))
		} else {
			s = append(s, pick(r, goods))
		}
	}
	s = append(s, obj(all, tagged, ""), pick(r, goods))
	return append(seqs, s)
}

// concTexts: k params texts with pairwise different values (plus a few that are rejected).
func concTexts(names []string, types []*tnode, arrayOK bool, whole *tnode, k int) []string {
	var out []string
	for j := 0; len(out) < k; j++ {
		switch {
		case len(names) == 0:
			out = append(out, taggedJSON(whole, j*3))
		case j%4 == 1 && arrayOK:
			es := make([]string, len(names))
			for i := range es {
				es[i] = taggedJSON(types[i], j*50+i)
			}
			out = append(out, "["+strings.Join(es, ",")+"]")
		case j%8 == 6: // rejected: an unknown key next to known ones (under strict checking)
			parts := []string{`"bogus":` + fmt.Sprint(j)}
			for i, n := range names {
				parts = append(parts, quoteKey(n)+":"+taggedJSON(types[i], j*50+i))
			}
			out = append(out, "{"+strings.Join(parts, ",")+"}")
		case j%8 == 7 && len(names) > 1: // a subset: the other arguments must be zero values
			out = append(out, "{"+quoteKey(names[j%len(names)])+":"+taggedJSON(types[j%len(names)], j*50)+"}")
		default:
			parts := make([]string, len(names))
			for i, n := range names {
				parts[i] = quoteKey(n) + ":" + taggedJSON(types[i], j*50+i)
			}
			out = append(out, "{"+strings.Join(parts, ",")+"}")
		}
	}
	return out
}

func hexAll(raws []string) []string {
	hs := make([]string, len(raws))
	for i, r := range raws {
		hs[i] = hexf(r)
	}
	return hs
}
