package main

// C16: handler.Positional, handler.Args, handler.Obj.
//
// Lines (tab separated; the last field is the observation; input fields first,
// then the fields derived from them: <view> of the params and the <oracle>):
//
//	P <fn> <names> <opts> <ret> <hex raw> | <view> <oracle> | <obs>      Positional + Wrap + call
//	A <mode> <targets> <hex raw>          | <view> <oracle> | <obs>      Args: d = UnmarshalJSON, p = UnmarshalParams
//	a <targets>                           | <oracle>        | <obs>      Args.MarshalJSON
//	O <mode> <keyed targets> <hex raw>    | <view> <oracle> | <obs>      Obj
//
//	names    hex names joined by ","; "." for none
//	targets  "." for none, else joined by ",":  "-" (nil) or <type>~<hex JSON of the current value>
//	keyed    the same with <hexkey>= in front of every target
//	oracle (P)  z|ans  d|<strict>|<view>|ans   answers of encoding/json for the synthetic struct
//	            e|<type>|<hex elt>|ans  y|<type>|ans   for single elements / zero values
//	oracle (A,O) i|<type>|<hex cur>|<hex elt>|<ok>|<hex new>    m|<type>|<hex cur>|<hex enc or ->
//	obs (P)   err:<class> or as for C15;  (A,O) <ok>|<targets afterwards>;  (a) <view of the output> or err

import (
	"encoding/json"
	"fmt"
	"reflect"
	"strings"

	"github.com/creachadair/jrpc2"
	"github.com/creachadair/jrpc2/handler"
)

func init() { commands["c16"] = runC16 }

func joinNames(names []string) string {
	if len(names) == 0 {
		return "."
	}
	hs := make([]string, len(names))
	for i, n := range names {
		hs[i] = hexf(n)
	}
	return strings.Join(hs, ",")
}

func splitNames(s string) []string {
	if s == "." {
		return nil
	}
	var out []string
	for _, h := range strings.Split(s, ",") {
		out = append(out, unhexf(h))
	}
	return out
}

// harnessPosStruct: the struct the documentation of Positional describes - one
// field per non-context argument, the names used as JSON keys ("" and "-" cannot
// be keys) - declared here independently, to put questions to encoding/json.
func harnessPosStruct(names []string, xs []reflect.Type) reflect.Type {
	var fs []reflect.StructField
	for i := range xs {
		tag := `json:"-"`
		if names[i] != "" && names[i] != "-" {
			tag = `json:"` + names[i] + `,omitempty"`
		}
		fs = append(fs, reflect.StructField{Name: fmt.Sprintf("P_%d", i+1), Type: xs[i], Tag: reflect.StructTag(tag)})
	}
	return reflect.StructOf(fs)
}

func c16Case(fnS, namesS, opts, ret string) *hcase {
	fd := parseFn(fnS)
	names := splitNames(namesS)
	return &hcase{
		kind: "P", in: []string{fnS, namesS, opts, ret},
		mk: func(rec *recorder) any { return makeFn(fd, rec, ret == "1") },
		wrap: func(fnv any) (jrpc2.Handler, string) {
			fi, err := handler.Positional(fnv, names...)
			if err != nil {
				return nil, "err:" + classifyCheckErr(err)
			}
			applyOpts(fi, opts)
			h := fi.Wrap()
			// the handler is fixed by the settings at the time of Wrap (see c15Case): changing them on the same
			// FuncInfo afterwards, and wrapping again, must not affect it
			invStrict := map[byte]byte{'u': 't', 't': 'f', 'f': 't'}
			invArray := map[byte]byte{'u': 'f', 't': 'f', 'f': 't'}
			applyOpts(fi, string([]byte{invStrict[opts[0]], invArray[opts[1]]}))
			_ = fi.Wrap()
			return h, ""
		},
		oracle: func(view pview, raw string) string {
			if !(fd.kind == 'F' && len(fd.ins) >= 2 && len(names) == len(fd.ins)-1) {
				return "-"
			}
			xs := make([]reflect.Type, len(names))
			for i := range xs {
				xs[i] = buildType(fd.ins[i+1])
			}
			S := harnessPosStruct(names, xs)
			var ents []string
			ents = append(ents, "z|"+ansOf(reflect.New(S), true, true))
			if view.kind != 'A' {
				for _, s := range []bool{false, true} {
					pv, ok := oracleDecode(S, s, raw)
					ents = append(ents, fmt.Sprintf("d|%d|%s|%s", b2i(s), view.String(), ansOf(pv, ok, true)))
				}
			}
			ents = append(ents, translatedOracle(S, names, view, true)...)
			// single elements against every argument type, and the zero values
			seenT := map[string]bool{}
			for i, x := range fd.ins[1:] {
				ts := x.String()
				if seenT[ts] {
					continue
				}
				seenT[ts] = true
				ents = append(ents, fmt.Sprintf("y|%s|%s", ts, ansOf(reflect.New(xs[i]), true, false)))
				seenE := map[string]bool{}
				for _, e := range view.elts {
					if seenE[e] {
						continue
					}
					seenE[e] = true
					pv, ok := oracleDecode(xs[i], true, e) // strictness applies at every depth
					ents = append(ents, fmt.Sprintf("e|%s|%s|%s", ts, hexf(e), ansOf(pv, ok, false)))
				}
			}
			return strings.Join(ents, "&")
		},
	}
}

func c16P(w *caseWriter, fnS, namesS, opts, ret, rawhex string) {
	c16Case(fnS, namesS, opts, ret).single(w, rawhex)
}

// ---- Args / Obj ------------------------------------------------------------------

type target struct {
	key  string // Obj only
	nil_ bool
	t    *tnode
	cur  string // JSON of the current value
}

func parseTargets(s string, keyed bool) []target {
	if s == "." {
		return nil
	}
	var out []target
	for _, f := range strings.Split(s, ",") {
		var tg target
		if keyed {
			i := strings.IndexByte(f, '=')
			tg.key = unhexf(f[:i])
			f = f[i+1:]
		}
		if f == "-" {
			tg.nil_ = true
		} else {
			i := strings.LastIndexByte(f, '~')
			tg.t = parseType(f[:i])
			tg.cur = unhexf(f[i+1:])
		}
		out = append(out, tg)
	}
	return out
}

func renderTargets(ts []target, keyed bool) string {
	if len(ts) == 0 {
		return "."
	}
	hs := make([]string, len(ts))
	for i, t := range ts {
		s := "-"
		if !t.nil_ {
			s = t.t.String() + "~" + hexf(t.cur)
		}
		if keyed {
			s = hexf(t.key) + "=" + s
		}
		hs[i] = s
	}
	return strings.Join(hs, ",")
}

// newVar allocates a variable of the target's type holding its current value.
func newVar(t target) reflect.Value {
	pv := reflect.New(buildType(t.t))
	if err := json.Unmarshal([]byte(t.cur), pv.Interface()); err != nil {
		panic("harness: bad current value " + t.cur + " for " + t.t.String())
	}
	return pv
}

func decodeIntoEntry(t target, elt string) string {
	pv := newVar(t)
	err := json.Unmarshal([]byte(elt), pv.Interface())
	return fmt.Sprintf("i|%s|%s|%s|%d|%s", t.t.String(), hexf(t.cur), hexf(elt), b2i(err == nil), hexf(encValue(pv.Elem())))
}

func afterState(ts []target, vars []reflect.Value, keyed bool) string {
	if len(ts) == 0 {
		return "."
	}
	hs := make([]string, len(ts))
	for i, t := range ts {
		s := "nil"
		if !t.nil_ {
			s = hexf(encValue(vars[i].Elem()))
		}
		if keyed {
			s = hexf(t.key) + "=" + s
		}
		hs[i] = s
	}
	return strings.Join(hs, ",")
}

func c16A(w *caseWriter, mode, targetsS, rawhex string) {
	raw := unhexf(rawhex)
	view := viewOf(raw)
	var ts []target
	var vars []reflect.Value
	var args handler.Args
	if p := guard(func() {
		ts = parseTargets(targetsS, false)
		for _, t := range ts {
			if t.nil_ {
				vars = append(vars, reflect.Value{})
				args = append(args, nil)
			} else {
				v := newVar(t)
				vars = append(vars, v)
				args = append(args, v.Interface())
			}
		}
	}); p != "" {
		return
	}
	obs := ""
	if p := guard(func() {
		var err error
		if mode == "p" {
			err = mkRequest(raw).UnmarshalParams(&args)
		} else {
			err = args.UnmarshalJSON([]byte(raw))
		}
		obs = fmt.Sprintf("%d|%s", b2i(err == nil), afterState(ts, vars, false))
	}); p != "" {
		obs = "X:" + hexf(p)
	}
	var ents []string
	if view.kind == 'R' {
		for i, t := range ts {
			if i < len(view.elts) && !t.nil_ {
				ents = append(ents, decodeIntoEntry(t, view.elts[i]))
			}
		}
	}
	oracle := "-"
	if len(ents) > 0 {
		oracle = strings.Join(ents, "&")
	}
	w.line("A", mode, targetsS, rawhex, view.String(), oracle, obs)
}

// rawElement: a target of type interface{} whose current value is the JSON string "RAW:<text>" stands, in the
// Args.MarshalJSON cases, for an element of dynamic type json.RawMessage holding <text> (nil when empty).
func rawElement(t target) (json.RawMessage, bool) {
	if t.nil_ || t.t.k != 'a' || !strings.HasPrefix(t.cur, `"RAW:`) {
		return nil, false
	}
	var s string
	if json.Unmarshal([]byte(t.cur), &s) != nil {
		return nil, false
	}
	if s = strings.TrimPrefix(s, "RAW:"); s == "" {
		return nil, true
	}
	return json.RawMessage(s), true
}

func c16a(w *caseWriter, targetsS string) {
	var ts []target
	var args handler.Args
	var ents []string
	if p := guard(func() {
		ts = parseTargets(targetsS, false)
		for _, t := range ts {
			if t.nil_ {
				args = append(args, nil)
				continue
			}
			if raw, ok := rawElement(t); ok {
				// an element that IS a json.RawMessage (not a pointer to a variable): nil, well-formed, or not a
				// JSON value at all; encoding/json writes null for nil, the compacted text, or refuses
				args = append(args, raw)
				b, err := json.Marshal(raw)
				enc := "-"
				if err == nil {
					enc = hexf(string(b))
				}
				ents = append(ents, fmt.Sprintf("m|%s|%s|%s", t.t.String(), hexf(t.cur), enc))
				continue
			}
			v := newVar(t)
			args = append(args, v.Interface())
			b, err := json.Marshal(newVar(t).Interface())
			enc := "-"
			if err == nil {
				enc = hexf(string(b))
			}
			ents = append(ents, fmt.Sprintf("m|%s|%s|%s", t.t.String(), hexf(t.cur), enc))
		}
	}); p != "" {
		return
	}
	obs := ""
	if p := guard(func() {
		b, err := args.MarshalJSON()
		if err != nil {
			obs = "err"
		} else {
			obs = viewOf(string(b)).String()
		}
	}); p != "" {
		obs = "X:" + hexf(p)
	}
	oracle := "-"
	if len(ents) > 0 {
		oracle = strings.Join(ents, "&")
	}
	w.line("a", targetsS, oracle, obs)
}

func c16O(w *caseWriter, mode, targetsS, rawhex string) {
	raw := unhexf(rawhex)
	view := viewOf(raw)
	var ts []target
	var vars []reflect.Value
	obj := handler.Obj{}
	if p := guard(func() {
		ts = parseTargets(targetsS, true)
		for _, t := range ts {
			if t.nil_ {
				vars = append(vars, reflect.Value{})
				obj[t.key] = nil
			} else {
				v := newVar(t)
				vars = append(vars, v)
				obj[t.key] = v.Interface()
			}
		}
	}); p != "" {
		return
	}
	nkeys := len(obj)
	obs := ""
	if p := guard(func() {
		var err error
		if mode == "p" {
			err = mkRequest(raw).UnmarshalParams(&obj)
		} else {
			err = obj.UnmarshalJSON([]byte(raw))
		}
		obs = fmt.Sprintf("%d|%s", b2i(err == nil), afterState(ts, vars, true))
		if len(obj) != nkeys {
			obs += "|map-changed"
		}
	}); p != "" {
		obs = "X:" + hexf(p)
	}
	var ents []string
	if view.kind == 'O' {
		for _, t := range ts {
			if t.nil_ {
				continue
			}
			for i := len(view.keys) - 1; i >= 0; i-- {
				if view.keys[i] == t.key {
					ents = append(ents, decodeIntoEntry(t, view.elts[i]))
					break
				}
			}
		}
	}
	oracle := "-"
	if len(ents) > 0 {
		oracle = strings.Join(ents, "&")
	}
	w.line("O", mode, targetsS, rawhex, view.String(), oracle, obs)
}

// ---- generators ---------------------------------------------------------------------

var usablePool = []string{"x", "y", "first", "second", "Name", "id", "k9", "a_b", "Z", "w-1", "q.r", "n m"}
var unusablePool = []string{"", "-", "x,y", "é", "a'", "ſ", "K", "k"}

func genPosArg(r *rng) *tnode {
	switch c := r.intn(20); {
	case c < 11:
		return genScalar(r)
	case c < 12:
		return &tnode{k: 'a'}
	case c < 14:
		return &tnode{k: 'L', elem: genScalar(r)}
	case c < 15:
		return &tnode{k: 'M', elem: genScalar(r)}
	case c < 17:
		return &tnode{k: 'P', elem: genScalar(r)}
	case c < 18:
		return genStruct(r, 1)
	case c < 19:
		return registry[r.intn(len(registry))].node
	default:
		return &tnode{k: 'P', elem: genStruct(r, 1)}
	}
}

func genNames(r *rng, n int, usable bool) []string {
	perm := append([]string(nil), usablePool...)
	for i := len(perm) - 1; i > 0; i-- {
		j := r.intn(i + 1)
		perm[i], perm[j] = perm[j], perm[i]
	}
	names := append([]string(nil), perm[:n]...)
	if !usable && n > 0 {
		k := r.intn(n)
		switch c := r.intn(4); {
		case c == 0 && n > 1: // duplicate
			names[k] = names[(k+1)%n]
		case c == 1 && n > 1: // duplicate up to case
			names[k] = caseVariant(names[(k+1)%n])
		default:
			names[k] = pick(r, unusablePool)
		}
	}
	return names
}

func subsets(n int, limit int, r *rng) [][]int {
	var out [][]int
	total := 1 << uint(n)
	if total <= limit {
		for m := 0; m < total; m++ {
			var s []int
			for i := 0; i < n; i++ {
				if m&(1<<uint(i)) != 0 {
					s = append(s, i)
				}
			}
			out = append(out, s)
		}
		return out
	}
	seen := map[int]bool{0: true, total - 1: true}
	out = append(out, nil)
	all := make([]int, n)
	for i := range all {
		all[i] = i
	}
	out = append(out, all)
	for len(out) < limit {
		m := r.intn(total)
		if seen[m] {
			continue
		}
		seen[m] = true
		var s []int
		for i := 0; i < n; i++ {
			if m&(1<<uint(i)) != 0 {
				s = append(s, i)
			}
		}
		out = append(out, s)
	}
	return out
}

func posParams(r *rng, names []string, xs []*tnode, tier string) []string {
	n := len(xs)
	out := []string{"", "null", "{}", "[]", "17", `"x"`, `{"zzz":1}`}
	if len(names) != n {
		return out[:4]
	}
	good := func(i int) string { return sampleJSON(r, xs[i], 0, 1) }
	for l := 0; l <= n+2; l++ {
		es := make([]string, l)
		for i := range es {
			if i < n {
				es[i] = good(i)
			} else {
				es[i] = pick(r, []string{"1", `"s"`, "null"})
			}
		}
		out = append(out, "["+strings.Join(es, ",")+"]")
	}
	if n > 0 {
		es := make([]string, n)
		for i := range es {
			es[i] = good(i)
		}
		k := r.intn(n)
		keep := es[k]
		es[k] = sampleJSON(r, xs[k], 1, 1)
		out = append(out, "["+strings.Join(es, ",")+"]")
		es[k] = "null"
		out = append(out, " [ "+strings.Join(es, " , ")+" ]")
		es[k] = keep
		if n > 1 {
			rot := append(append([]string{}, es[1:]...), es[0])
			out = append(out, "["+strings.Join(rot, ",")+"]")
		}
		for i := range es {
			es[i] = "null"
		}
		out = append(out, "["+strings.Join(es, ",")+"]")
	}
	limit := 12
	if tier == "thorough" {
		limit = 64
	}
	for _, s := range subsets(n, limit, r) {
		parts := make([]string, len(s))
		for j, i := range s {
			parts[j] = quoteKey(names[i]) + ":" + good(i)
		}
		// document order is shuffled now and then
		if len(parts) > 1 && r.chance(1, 3) {
			parts[0], parts[len(parts)-1] = parts[len(parts)-1], parts[0]
		}
		out = append(out, "{"+strings.Join(parts, ",")+"}")
	}
	if n > 0 {
		all := func(key func(i int) string, val func(i int) string) string {
			parts := make([]string, n)
			for i := range parts {
				parts[i] = quoteKey(key(i)) + ":" + val(i)
			}
			return "{" + strings.Join(parts, ",") + "}"
		}
		nm := func(i int) string { return names[i] }
		k := r.intn(n)
		out = append(out, all(func(i int) string { return caseVariant(names[i]) }, good))
		out = append(out, all(nm, func(i int) string {
			if i == k {
				return sampleJSON(r, xs[i], 1, 1)
			}
			return good(i)
		}))
		out = append(out, all(nm, func(i int) string { return "null" }))
		full := all(nm, good)
		out = append(out, full[:len(full)-1]+`,"zzz":1}`)
		out = append(out, full[:len(full)-1]+`,`+quoteKey(names[k])+`:`+good(k)+`}`)
		out = append(out, full[:len(full)-1]+`,`+quoteKey(fmt.Sprintf("P_%d", k+1))+`:`+good(k)+`}`)
	}
	out = append(out, pick(r, []string{"{", "[1,", `{"a":1} x`, "nul", "[1] [2]"}))
	return out
}

func genTarget(r *rng) target {
	if r.chance(1, 6) {
		return target{nil_: true}
	}
	var t *tnode
	switch c := r.intn(12); {
	case c < 7:
		t = genScalar(r)
	case c < 8:
		t = &tnode{k: 'L', elem: &tnode{k: 'i'}}
	case c < 9:
		t = &tnode{k: 'M', elem: &tnode{k: 'i'}}
	case c < 10:
		t = &tnode{k: 'P', elem: &tnode{k: 'i'}}
	case c < 11:
		t = regNode(PlainN{})
	default:
		t = &tnode{k: 'a'}
	}
	cur := sampleJSON(r, t, 0, 0)
	if t.k == 'a' {
		cur = "null"
	}
	// the current value is written in its canonical encoding
	tg := target{t: t, cur: cur}
	if p := guard(func() { tg.cur = encValue(newVar(tg).Elem()) }); p != "" {
		return target{nil_: true}
	}
	return tg
}

func eltFor(r *rng, t target) string {
	if t.nil_ {
		return pick(r, []string{"1", `"s"`, "null", `{"a":1}`})
	}
	switch c := r.intn(10); {
	case c < 7:
		return sampleJSON(r, t.t, 0, 0)
	case c < 9:
		return sampleJSON(r, t.t, 1, 0)
	default:
		return "null"
	}
}

func genArgsCases(w *caseWriter, r *rng, count int) {
	for c := 0; c < count; c++ {
		n := r.intn(7)
		if c < 7 {
			n = c
		}
		ts := make([]target, n)
		for i := range ts {
			ts[i] = genTarget(r)
		}
		tS := renderTargets(ts, false)
		c16a(w, tS)
		if c%3 == 0 {
			// the same with elements that are json.RawMessage values spliced in at random positions
			rs := append([]target{}, ts...)
			for j, k := 0, 1+r.intn(2); j < k; j++ {
				raw := target{t: parseType("a"), cur: quoteKey("RAW:" + pick(r, []string{"", "", "1", " [1, 2] ", `{"k":null}`, "1,2", "nul", `"s"`}))}
				at := r.intn(len(rs) + 1)
				rs = append(rs[:at], append([]target{raw}, rs[at:]...)...)
			}
			c16a(w, renderTargets(rs, false))
		}
		raws := []string{"", "null", "{}", "[]", "7", "[", `{"a":1}`}
		for l := 0; l <= n+2; l++ {
			if l < n-1 && l > 1 {
				continue
			}
			for rep := 0; rep < 2; rep++ {
				es := make([]string, l)
				for i := range es {
					if i < n {
						es[i] = eltFor(r, ts[i])
						if rep == 0 && !ts[i].nil_ {
							es[i] = sampleJSON(r, ts[i].t, 0, 0)
						}
					} else {
						es[i] = "1"
					}
				}
				raws = append(raws, "["+strings.Join(es, ",")+"]")
			}
		}
		for _, raw := range raws {
			c16A(w, pick(r, []string{"d", "p"}), tS, hexf(raw))
		}
	}
}

func genObjCases(w *caseWriter, r *rng, count int) {
	keyPool := []string{"a", "b", "Key", "x y", "", "é", "A", "n1"}
	for c := 0; c < count; c++ {
		n := r.intn(6)
		perm := append([]string(nil), keyPool...)
		for i := len(perm) - 1; i > 0; i-- {
			j := r.intn(i + 1)
			perm[i], perm[j] = perm[j], perm[i]
		}
		ts := make([]target, n)
		for i := range ts {
			ts[i] = genTarget(r)
			if ts[i].nil_ && !r.chance(1, 3) {
				ts[i] = genTarget(r)
			}
			ts[i].key = perm[i]
		}
		tS := renderTargets(ts, true)
		raws := []string{"", "null", "{}", "[]", "7", "{", `{"zzz":1}`, `[{"a":1}]`}
		for _, s := range subsets(n, 10, r) {
			for rep := 0; rep < 2; rep++ {
				var parts []string
				for _, i := range s {
					v := eltFor(r, ts[i])
					if rep == 0 && !ts[i].nil_ {
						v = sampleJSON(r, ts[i].t, 0, 0)
					}
					parts = append(parts, quoteKey(ts[i].key)+":"+v)
				}
				if r.chance(1, 2) {
					parts = append(parts, `"unknown":[1,2]`)
				}
				if len(s) > 0 && r.chance(1, 4) { // a duplicate key: the last value counts
					i := s[r.intn(len(s))]
					parts = append(parts, quoteKey(ts[i].key)+":"+eltFor(r, ts[i]))
				}
				if len(s) > 0 && r.chance(1, 5) { // a key that differs only in case is another key
					parts = append(parts, quoteKey(caseVariant(ts[s[0]].key)+"_")+":1")
				}
				raws = append(raws, "{"+strings.Join(parts, ",")+"}")
			}
		}
		for _, raw := range raws {
			mode := "d"
			if raw != "" && json.Valid([]byte(raw)) && r.chance(1, 2) {
				mode = "p"
			}
			c16O(w, mode, tS, hexf(raw))
		}
	}
}

var c16Corpus = [][2]string{
	{"F0(c,i,i,)(i,)", "6669727374,7365636f6e64"}, // the example of the documentation
	{"F0(c,i,s,)(s,e,)", "78,79"},
	{"F0(c,)(e,)", "."}, {"F0(c,)(e,)", "78"}, {"NIL", "78"}, {"Vi", "78"}, {"F0()(e,)", "."}, {"F0(i,i,)(e,)", "78"},
	{"F1(c,i,Li,)(e,)", "78,79"}, {"F1(c,Li,)(e,)", "78"}, {"F0(c,i,)(e,)", "."}, {"F0(c,i,)(e,)", "78,79"},
	{"F0(c,i,i,)()", "78,79"}, {"F0(c,i,i,)(i,i,)", "78,79"}, {"F0(c,Pq,)(a,e,)", "78"}, {"F0(c,Pq,)(a,e,)", "."},
}

func runC16(cfg *config) {
	w := newCaseWriter(cfg.out)
	progressPath = cfg.out + ".progress"
	clearProgress()
	defer w.close()
	if cfg.replay != "" {
		var seq [][]string
		defer func() {
			seqGroups(seq, 4, func(in []string) *hcase { return c16Case(in[0], in[1], in[2], in[3]) }, w)
		}()
		for _, l := range readLines(cfg.replay) {
			f := strings.Split(l, "\t")
			switch {
			case f[0] == "Ps" && len(f) >= 7:
				seq = append(seq, f)
			case f[0] == "Pc" && len(f) >= 9:
				c16Case(f[1], f[2], f[3], f[4]).concurrent(w, atoi(f[5]), atoi(f[6]), atoi(f[7]), strings.Split(f[8], ","))
			case f[0] == "P" && len(f) >= 6:
				c16P(w, f[1], f[2], f[3], f[4], f[5])
			case f[0] == "A" && len(f) >= 4:
				c16A(w, f[1], f[2], f[3])
			case f[0] == "a" && len(f) >= 2:
				c16a(w, f[1])
			case f[0] == "O" && len(f) >= 4:
				c16O(w, f[1], f[2], f[3])
			}
		}
		return
	}
	r := seedRng(cfg.seed)
	type pcase struct {
		fd    *fndesc
		names []string
	}
	var pcs []pcase
	for _, c := range c16Corpus {
		pcs = append(pcs, pcase{parseFn(c[0]), splitNames(c[1])})
	}
	perArity := 30
	if cfg.tier == "thorough" {
		perArity = 120
	}
	ctx := &tnode{k: 'c'}
	for n := 0; n <= 6; n++ {
		for c := 0; c < perArity; c++ {
			fd := &fndesc{kind: 'F', ins: []*tnode{ctx}, outs: pick(r, [][]*tnode{{{k: 'e'}}, {{k: 'i'}}, {{k: 's'}, {k: 'e'}}, {{k: 'a'}, {k: 'e'}}})}
			for i := 0; i < n; i++ {
				fd.ins = append(fd.ins, genPosArg(r))
			}
			nn := n
			usable := true
			switch k := r.intn(12); {
			case k == 0 && n > 0:
				nn = n - 1
			case k == 1:
				nn = n + 1
			case k < 5:
				usable = false
			}
			pcs = append(pcs, pcase{fd, genNames(r, nn, usable)})
		}
	}
	popts := []string{"uu", "uf", "fu", "ut", "tf", "ff"}
	for _, pc := range pcs {
		fnS, nS := pc.fd.String(), joinNames(pc.names)
		var xs []*tnode
		if pc.fd.kind == 'F' && len(pc.fd.ins) > 0 {
			xs = pc.fd.ins[1:]
		}
		for _, p := range posParams(r, pc.names, xs, cfg.tier) {
			c16P(w, fnS, nS, "uu", fmt.Sprint(r.intn(2)), hexf(p))
			if r.chance(1, 2) {
				c16P(w, fnS, nS, popts[1+r.intn(len(popts)-1)], fmt.Sprint(r.intn(2)), hexf(p))
			}
		}
	}
	// ---- one handler value, many requests: in sequence and concurrently ----
	gid, nconc := 0, 0
	maxConc, iters := 60, 250
	if cfg.tier == "thorough" {
		maxConc, iters = 300, 600
	}
	procsCycle := []int{16, 4, 8, 2, 1, 12}
	for _, pc := range pcs {
		if pc.fd.kind != 'F' || len(pc.fd.ins) < 2 || pc.fd.variadic || len(pc.names) != len(pc.fd.ins)-1 {
			continue
		}
		fnS, nS := pc.fd.String(), joinNames(pc.names)
		xs := pc.fd.ins[1:]
		for _, opts := range []string{"uu", "uf"} {
			if opts == "uf" && !r.chance(1, 3) {
				continue
			}
			hc := c16Case(fnS, nS, opts, fmt.Sprint(r.intn(2)))
			for _, s := range stateProbes(r, pc.names, xs, opts[1] != 'f') {
				hc.sequence(w, gid, hexAll(s))
				gid++
			}
			ps := posParams(r, pc.names, xs, "quick")
			var s []string
			for c := 0; c < 6; c++ {
				s = append(s, pick(r, ps))
			}
			hc.sequence(w, gid, hexAll(s))
			gid++
		}
		if nconc < maxConc && r.chance(1, 2) {
			opts := pick(r, []string{"uu", "uu", "uf", "fu"})
			texts := concTexts(pc.names, xs, opts[1] != 'f', nil, 12)
			c16Case(fnS, nS, opts, "0").concurrent(w, 8, iters, procsCycle[nconc%len(procsCycle)], hexAll(texts))
			nconc++
		}
	}
	na, no := 150, 150
	if cfg.tier == "thorough" {
		na, no = 600, 600
	}
	genArgsCases(w, r, na)
	genObjCases(w, r, no)
}
