package main

// Shared by c15.go and c16.go: the structural view of a params text, the
// encoding/json ORACLE (plain json.Unmarshal / Decoder with DisallowUnknownFields
// applied directly to a declared type), value encoders and JSON samplers.

import (
	"bytes"
	"encoding/json"
	"fmt"
	"os"
	"reflect"
	"sort"
	"strings"
)

// pview is the structure of a params text as the model sees it.
type pview struct {
	kind byte // A absent, N null, R array, O object, S scalar, M malformed
	elts []string
	keys []string // O: decoded keys in document order (duplicates kept), values in elts
	tok  string   // S, M
}

func viewOf(raw string) pview {
	if len(raw) == 0 {
		return pview{kind: 'A'}
	}
	if !json.Valid([]byte(raw)) {
		return pview{kind: 'M', tok: raw}
	}
	t := strings.TrimSpace(raw)
	switch t[0] {
	case 'n':
		return pview{kind: 'N'}
	case '[':
		var arr []json.RawMessage
		if err := json.Unmarshal([]byte(raw), &arr); err != nil {
			return pview{kind: 'M', tok: raw}
		}
		v := pview{kind: 'R'}
		for _, e := range arr {
			v.elts = append(v.elts, string(e))
		}
		return v
	case '{':
		dec := json.NewDecoder(strings.NewReader(raw))
		if _, err := dec.Token(); err != nil {
			return pview{kind: 'M', tok: raw}
		}
		v := pview{kind: 'O'}
		for dec.More() {
			kt, err := dec.Token()
			if err != nil {
				return pview{kind: 'M', tok: raw}
			}
			var val json.RawMessage
			if err := dec.Decode(&val); err != nil {
				return pview{kind: 'M', tok: raw}
			}
			v.keys = append(v.keys, kt.(string))
			v.elts = append(v.elts, string(val))
		}
		return v
	}
	return pview{kind: 'S', tok: t}
}

func (v pview) String() string {
	switch v.kind {
	case 'A', 'N':
		return string(v.kind)
	case 'R':
		hs := make([]string, len(v.elts))
		for i, e := range v.elts {
			hs[i] = hexf(e)
		}
		return "R:" + strings.Join(hs, ",")
	case 'O':
		hs := make([]string, len(v.elts))
		for i, e := range v.elts {
			hs[i] = hexf(v.keys[i]) + "=" + hexf(e)
		}
		return "O:" + strings.Join(hs, ",")
	}
	return string(v.kind) + ":" + hexf(v.tok)
}

// text renders a view back to JSON (used for the translated object only).
func (v pview) text() string {
	switch v.kind {
	case 'O':
		var sb strings.Builder
		sb.WriteByte('{')
		for i, k := range v.keys {
			if i > 0 {
				sb.WriteByte(',')
			}
			kb, _ := json.Marshal(k)
			sb.Write(kb)
			sb.WriteByte(':')
			sb.WriteString(v.elts[i])
		}
		sb.WriteByte('}')
		return sb.String()
	}
	panic("text: only objects")
}

// arrayAsObject is the documented array form: element i becomes the value of
// names[i] in an object (a Go map: one value per key, the last one assigned;
// marshalled with sorted keys).  Only defined for equal lengths.
func arrayAsObject(names []string, elts []string) pview {
	m := map[string]string{}
	for i, n := range names {
		m[n] = elts[i]
	}
	keys := make([]string, 0, len(m))
	for k := range m {
		keys = append(keys, k)
	}
	sort.Strings(keys)
	v := pview{kind: 'O'}
	for _, k := range keys {
		v.keys = append(v.keys, k)
		v.elts = append(v.elts, m[k])
	}
	return v
}

// encValue is the observable form of a Go value: its JSON re-encoding.
func encValue(v reflect.Value) string {
	if !v.IsValid() {
		return "!invalid"
	}
	if !v.CanInterface() {
		return "!unexported"
	}
	b, err := json.Marshal(v.Interface())
	if err != nil {
		return "!" + fmt.Sprintf("%T", err)
	}
	return string(b)
}

// oracleDecode applies encoding/json directly: a fresh variable of type t, plain
// json.Unmarshal or a Decoder with DisallowUnknownFields.  Returns the pointer to
// the variable and whether decoding succeeded.
func oracleDecode(t reflect.Type, strict bool, text string) (reflect.Value, bool) {
	pv := reflect.New(t)
	var err error
	if strict {
		dec := json.NewDecoder(bytes.NewReader([]byte(text)))
		dec.DisallowUnknownFields()
		err = dec.Decode(pv.Interface())
	} else {
		err = json.Unmarshal([]byte(text), pv.Interface())
	}
	return pv, err == nil
}

// ansOf renders an oracle answer: "-" for an error, "v:<enc>" or, with fields,
// "v:<enc>:<enc field 1>,<enc field 2>,..." (fields of a struct value, in order).
func ansOf(pv reflect.Value, ok bool, withFields bool) string {
	if !ok {
		return "-"
	}
	s := "v:" + hexf(encValue(pv.Elem()))
	if withFields && pv.Elem().Kind() == reflect.Struct {
		fs := make([]string, pv.Elem().NumField())
		for i := range fs {
			fs[i] = hexf(encValue(pv.Elem().Field(i)))
		}
		s += ":" + strings.Join(fs, ",")
	}
	return s
}

// sampleJSON produces a JSON text that decodes into the type (mode 0), or one of
// a different shape (mode 1), or null (mode 2).
func sampleJSON(r *rng, t *tnode, mode int, depth int) string {
	if mode == 2 {
		return "null"
	}
	if mode == 1 {
		switch t.under().k {
		case 'i', 'f', 'b':
			return pick(r, []string{`"str"`, `{"k":1}`, `[1]`})
		case 's':
			return pick(r, []string{`17`, `true`, `[1]`})
		case 'a':
			return `{"any":[1,"x"]}`
		default:
			return pick(r, []string{`17`, `"str"`, `true`})
		}
	}
	switch t.k {
	case 'b':
		return pick(r, []string{"true", "false"})
	case 'i':
		// also integers beyond 2^53 and numerals that are not integer literals: the exact JSON text of an element
		// matters (9007199254740993 must arrive as that number, 1.0 / 1e2 are not ints for encoding/json)
		return pick(r, []string{"0", "1", "-7", "42", "1000000", "0", "1", "-7", "42", "9007199254740993", "-9007199254740993",
			"9223372036854775807", "1.0", "1e2", "18446744073709551615"})
	case 'f':
		return pick(r, []string{"1.5", "0", "-2.25", "3"})
	case 's':
		return pick(r, []string{`""`, `"x"`, `"hello"`, `"é\n"`})
	case 'a':
		// numbers in an untyped slot arrive as float64 (1.0 -> 1, 1e2 -> 100, 9007199254740993 -> ...992): the spelling is not kept
		return pick(r, []string{`1`, `"v"`, `[1,2]`, `{"k":"v"}`, `true`, `1.0`, `1e2`, `9007199254740993`, `[1.50,2e0]`, `{"k":1.0}`})
	case 'L':
		n := r.intn(3)
		es := make([]string, n)
		for i := range es {
			es[i] = sampleJSON(r, t.elem, 0, depth+1)
		}
		return "[" + strings.Join(es, ",") + "]"
	case 'Y':
		es := make([]string, t.n)
		for i := range es {
			es[i] = sampleJSON(r, t.elem, 0, depth+1)
		}
		return "[" + strings.Join(es, ",") + "]"
	case 'M':
		if r.chance(1, 3) {
			return "{}"
		}
		return `{"k":` + sampleJSON(r, t.elem, 0, depth+1) + `}`
	case 'P':
		if r.chance(1, 6) {
			return "null"
		}
		return sampleJSON(r, t.elem, 0, depth+1)
	case 'N':
		return sampleJSON(r, t.elem, 0, depth)
	case 'S':
		_, names, types := docFields(t)
		var parts []string
		for i, n := range names {
			if depth > 0 && r.chance(1, 3) {
				continue
			}
			kb, _ := json.Marshal(n)
			parts = append(parts, string(kb)+":"+sampleJSON(r, types[i], 0, depth+1))
		}
		return "{" + strings.Join(parts, ",") + "}"
	}
	return "1"
}

func quoteKey(k string) string {
	b, _ := json.Marshal(k)
	return string(b)
}

// caseVariant flips the case of the ASCII letters of a key.
func caseVariant(k string) string {
	b := []byte(k)
	for i, c := range b {
		if 'a' <= c && c <= 'z' {
			b[i] = c - 32
		} else if 'A' <= c && c <= 'Z' {
			b[i] = c + 32
		}
	}
	return string(b)
}

// guard runs f and turns a panic into its text.
func guard(f func()) (panicked string) {
	defer func() {
		if p := recover(); p != nil {
			panicked = fmt.Sprint(p)
			if panicked == "" {
				panicked = "panic"
			}
		}
	}()
	f()
	return ""
}

func readLines(path string) []string {
	b, err := os.ReadFile(path)
	if err != nil {
		fatal("read %s: %v", path, err)
	}
	var out []string
	for _, l := range strings.Split(string(b), "\n") {
		if l != "" {
			out = append(out, l)
		}
	}
	return out
}

// seedRng: rng.go's states for seeds k and k+1 are one step apart on the same
// splitmix64 orbit, so consecutive seeds give shifted copies of one stream; the
// handler commands hash the seed first.
func seedRng(seed uint64) *rng {
	z := seed + 0x632be59bd9b4e019
	z = (z ^ (z >> 30)) * 0xbf58476d1ce4e5b9
	z = (z ^ (z >> 27)) * 0x94d049bb133111eb
	return newRng(z ^ (z >> 31))
}
