package main

// C13 (wire encoding) and the pure part of C02 (member parsing / classification).
// Case lines (tab separated, last field = observation):
//   P <hex text>                         -> ParseRequests executed several times (Go map order varies);
//                                           distinct outcomes joined by '|':
//                                           T:<code>:<msghex>  |  R<n>;<id>,<method>,<params>,<err>;...
//                                           err = - | <code>:<msghex>:<datahex>
//   E <who> <batch> <msgs>               -> bytes emitted by the real library for the abstract messages
//        who = C client Call/Notify/Batch, S server responses, N server push (Notify/Callback),
//              R Response.MarshalJSON of the *Response a real client got for a real server's reply,
//              X json.Marshal(*jrpc2.Error)
//        msgs = m;m;...   m = <id>,<method>,<mode><params>,<mode><result>,<err>   (hex fields)
//        mode: r = json.RawMessage as is, g = decoded Go value (UseNumber), v<k>_ = corpus value k
//        observation = <hex bytes>:<json.Valid><utf8.Valid><no byte below 0x20>
//   B <hex body> <outcome>               -> HTTP body written by jhttp.Bridge for the POSTed body
//        outcome (what the handler returns for valid calls) = - | R<mode><hex> | X<code>:<msghex>:<datahex>
//        observation = <status>:<hex body>

import (
	"bufio"
	"bytes"
	"context"
	"encoding/json"
	"fmt"
	"math"
	"net/http"
	"net/http/httptest"
	"os"
	"sort"
	"strconv"
	"strings"
	"time"
	"unicode/utf8"

	"github.com/creachadair/jrpc2"
	"github.com/creachadair/jrpc2/channel"
	"github.com/creachadair/jrpc2/jhttp"
)

func init() {
	commands["c13"] = func(cfg *config) { wireMain(cfg, "c13") }
	commands["c02pure"] = func(cfg *config) { wireMain(cfg, "c02pure") }
}

// ---------------------------------------------------------------------------
// P: ParseRequests

func showErr(e *jrpc2.Error) string {
	if e == nil {
		return "-"
	}
	return fmt.Sprintf("%d:%s:%s", int(e.Code), hexf(e.Message), hexf(string(e.Data)))
}

func parseOnce(text string) string {
	rs, err := jrpc2.ParseRequests([]byte(text))
	if err != nil {
		if e, ok := err.(*jrpc2.Error); ok {
			return fmt.Sprintf("T:%d:%s", int(e.Code), hexf(e.Message))
		}
		return "T:?:" + hexf(err.Error())
	}
	var sb strings.Builder
	fmt.Fprintf(&sb, "R%d", len(rs))
	for _, r := range rs {
		fmt.Fprintf(&sb, ";%s,%s,%s,%s", hexf(r.ID), hexf(r.Method), hexf(string(r.Params)), showErr(r.Error))
	}
	return sb.String()
}

const parseRuns = 6

func observeParse(text string) string {
	seen := map[string]bool{}
	for i := 0; i < parseRuns; i++ {
		seen[parseOnce(text)] = true
	}
	out := make([]string, 0, len(seen))
	for k := range seen {
		out = append(out, k)
	}
	sort.Strings(out)
	return strings.Join(out, "|")
}

// ---------------------------------------------------------------------------
// E: emitted bytes

type absErr struct {
	code int
	msg  string
	data string
}
type absMsg struct {
	id, method    string
	pmode, params string // mode "r", "g", "v<k>_"; params "" = none
	rmode, result string
	err           *absErr
}

var valueCorpus = []any{
	[]any{uint64(1) << 63, int64(math.MinInt64), uint64(math.MaxUint64), int64(math.MaxInt64)},
	map[string]any{"big": 1e300, "small": 5e-324, "max": math.MaxFloat64, "neg": -1.5e-7, "int": 1e21, "int2": 1e20},
	[]any{"<script>&amp;</script>", "\u2028\u2029", "\x00\x1f\x7f", "\"\\/", "é€😀"},
	map[string]any{"<k>": []any{map[string]any{"a&b": nil}}, "": true, "\u2028": false},
	[]any{[]any{[]any{[]any{[]any{}}}}, map[string]any{}, []int{}, []string(nil)},
	struct {
		A int     `json:"a"`
		B string  `json:"b,omitempty"`
		C []byte  `json:"c"`
		D float32 `json:"d"`
	}{A: -7, C: []byte("\xff\x00binary"), D: 0.1},
	[]any{json.Number("123456789012345678901234567890"), json.Number("-0"), json.Number("1E+2")},
	[3]int8{-128, 0, 127},
}

func (m absMsg) String() string {
	e := "-"
	if m.err != nil {
		e = fmt.Sprintf("%d:%s:%s", m.err.code, hexf(m.err.msg), hexf(m.err.data))
	}
	return strings.Join([]string{hexf(m.id), hexf(m.method), m.pmode + hexf(m.params), m.rmode + hexf(m.result), e}, ",")
}

func splitMode(s string) (mode, hex string) {
	if strings.HasPrefix(s, "v") {
		i := strings.Index(s, "_")
		return s[:i+1], s[i+1:]
	}
	return s[:1], s[1:]
}

func parseAbsMsg(s string) absMsg {
	p := strings.Split(s, ",")
	m := absMsg{id: unhexf(p[0]), method: unhexf(p[1])}
	var h string
	m.pmode, h = splitMode(p[2])
	m.params = unhexf(h)
	m.rmode, h = splitMode(p[3])
	m.result = unhexf(h)
	if p[4] != "-" {
		q := strings.Split(p[4], ":")
		c, _ := strconv.Atoi(q[0])
		m.err = &absErr{code: c, msg: unhexf(q[1]), data: unhexf(q[2])}
	}
	return m
}

// the Go value handed to the library for a (mode, raw) pair
func goValue(mode, raw string) any {
	if raw == "" {
		return nil
	}
	switch {
	case mode == "r":
		return json.RawMessage(raw)
	case mode == "g":
		dec := json.NewDecoder(strings.NewReader(raw))
		dec.UseNumber()
		var v any
		if err := dec.Decode(&v); err != nil {
			fatal("goValue: %v on %q", err, raw)
		}
		if v == nil {
			return json.RawMessage("null")
		}
		return v
	case strings.HasPrefix(mode, "v"):
		k, _ := strconv.Atoi(mode[1 : len(mode)-1])
		return valueCorpus[k]
	}
	fatal("bad mode %q", mode)
	return nil
}

type anyAssigner struct{ h jrpc2.Handler }

func (a anyAssigner) Assign(ctx context.Context, method string) jrpc2.Handler { return a.h }

func recvTimeout(ch channel.Channel) (string, bool) {
	type res struct {
		b   []byte
		err error
	}
	c := make(chan res, 1)
	go func() {
		b, err := ch.Recv()
		c <- res{b, err}
	}()
	select {
	case r := <-c:
		if r.err != nil {
			return "recv-error:" + r.err.Error(), false
		}
		return string(r.b), true
	case <-time.After(10 * time.Second):
		return "timeout", false
	}
}

// runE drives the real library so that it emits the abstract messages and returns the bytes
// seen on the raw end of the channel.
func runE(who string, batch bool, msgs []absMsg) (string, bool) {
	ctx := context.Background()
	switch who {
	case "C":
		cli, raw := channel.Direct()
		c := jrpc2.NewClient(cli, nil)
		defer func() { raw.Close(); c.Close() }()
		go func() {
			if len(msgs) == 1 && !batch {
				m := msgs[0]
				if m.id == "" {
					c.Notify(ctx, m.method, goValue(m.pmode, m.params))
				} else {
					c.Call(ctx, m.method, goValue(m.pmode, m.params))
				}
				return
			}
			specs := make([]jrpc2.Spec, len(msgs))
			for i, m := range msgs {
				specs[i] = jrpc2.Spec{Method: m.method, Params: goValue(m.pmode, m.params), Notify: m.id == ""}
			}
			c.Batch(ctx, specs)
		}()
		return recvTimeout(raw)
	case "S":
		outcome := map[string]absMsg{}
		var reqs []string
		for _, m := range msgs {
			outcome[m.id] = m
			reqs = append(reqs, `{"jsonrpc":"2.0","id":`+m.id+`,"method":"m"}`)
		}
		h := func(ctx context.Context, req *jrpc2.Request) (any, error) {
			m, ok := outcome[req.ID()]
			if !ok {
				return nil, fmt.Errorf("harness: unknown id %q", req.ID())
			}
			if m.err != nil {
				e := &jrpc2.Error{Code: jrpc2.Code(m.err.code), Message: m.err.msg}
				if m.err.data != "" {
					e.Data = json.RawMessage(m.err.data)
				}
				return nil, e
			}
			return goValue(m.rmode, m.result), nil
		}
		cliEnd, srvEnd := channel.Direct()
		srv := jrpc2.NewServer(anyAssigner{h}, &jrpc2.ServerOptions{DisableBuiltin: true, Concurrency: 1}).Start(srvEnd)
		defer func() { cliEnd.Close(); srv.Stop(); srv.Wait() }()
		text := strings.Join(reqs, ",")
		if batch || len(msgs) != 1 {
			text = "[" + text + "]"
		}
		if err := cliEnd.Send([]byte(text)); err != nil {
			return "send-error", false
		}
		return recvTimeout(cliEnd)
	case "R":
		m := msgs[0]
		h := func(ctx context.Context, req *jrpc2.Request) (any, error) {
			if m.err != nil {
				e := &jrpc2.Error{Code: jrpc2.Code(m.err.code), Message: m.err.msg}
				if m.err.data != "" {
					e.Data = json.RawMessage(m.err.data)
				}
				return nil, e
			}
			return goValue(m.rmode, m.result), nil
		}
		cliEnd, srvEnd := channel.Direct()
		srv := jrpc2.NewServer(anyAssigner{h}, &jrpc2.ServerOptions{DisableBuiltin: true}).Start(srvEnd)
		cli := jrpc2.NewClient(cliEnd, nil)
		defer func() { cli.Close(); srv.Stop(); srv.Wait() }()
		cctx, cancel := context.WithTimeout(ctx, 10*time.Second)
		defer cancel()
		rsps, err := cli.Batch(cctx, []jrpc2.Spec{{Method: "m"}})
		if err != nil || len(rsps) != 1 {
			return "call-error:" + fmt.Sprint(err), false
		}
		b, merr := json.Marshal(rsps[0])
		if merr != nil {
			return "marshal-error:" + merr.Error(), false
		}
		return string(b), true
	case "X":
		m := msgs[0]
		e := &jrpc2.Error{Code: jrpc2.Code(m.err.code), Message: m.err.msg}
		if m.err.data != "" {
			e.Data = json.RawMessage(m.err.data)
		}
		b, merr := json.Marshal(e)
		if merr != nil {
			return "marshal-error", false
		}
		return string(b), true
	case "N":
		cliEnd, srvEnd := channel.Direct()
		srv := jrpc2.NewServer(anyAssigner{nil}, &jrpc2.ServerOptions{AllowPush: true, DisableBuiltin: true}).Start(srvEnd)
		defer func() { cliEnd.Close(); srv.Stop(); srv.Wait() }()
		m := msgs[0]
		go func() {
			if m.id == "" {
				srv.Notify(ctx, m.method, goValue(m.pmode, m.params))
			} else {
				cctx, cancel := context.WithTimeout(ctx, 5*time.Second)
				defer cancel()
				srv.Callback(cctx, m.method, goValue(m.pmode, m.params))
			}
		}()
		return recvTimeout(cliEnd)
	}
	fatal("bad who %q", who)
	return "", false
}

func wireFlags(b string) string {
	f := func(x bool) string {
		if x {
			return "1"
		}
		return "0"
	}
	noctl := true
	for i := 0; i < len(b); i++ {
		if b[i] < 0x20 {
			noctl = false
		}
	}
	return f(json.Valid([]byte(b))) + f(utf8.ValidString(b)) + f(noctl)
}

func boolf(b bool) string {
	if b {
		return "1"
	}
	return "0"
}

// ---------------------------------------------------------------------------
// B: bridge bodies

func runB(body, outcome string) string {
	h := func(ctx context.Context, req *jrpc2.Request) (any, error) {
		switch {
		case outcome == "-":
			return nil, nil
		case outcome[0] == 'R':
			mode, hx := splitMode(outcome[1:])
			return goValue(mode, unhexf(hx)), nil
		default:
			q := strings.Split(outcome[1:], ":")
			c, _ := strconv.Atoi(q[0])
			e := &jrpc2.Error{Code: jrpc2.Code(c), Message: unhexf(q[1])}
			if d := unhexf(q[2]); d != "" {
				e.Data = json.RawMessage(d)
			}
			return nil, e
		}
	}
	b := jhttp.NewBridge(anyAssigner{h}, &jhttp.BridgeOptions{Server: &jrpc2.ServerOptions{DisableBuiltin: true}})
	defer b.Close()
	req := httptest.NewRequest(http.MethodPost, "http://localhost/", bytes.NewReader([]byte(body)))
	// a reply the bridge's server never sends must not hang the run (finding F16)
	rctx, cancel := context.WithTimeout(context.Background(), 10*time.Second)
	defer cancel()
	req = req.WithContext(rctx)
	req.Header.Set("Content-Type", "application/json")
	rec := httptest.NewRecorder()
	b.ServeHTTP(rec, req)
	return fmt.Sprintf("%d:%s", rec.Code, hexf(rec.Body.String()))
}

// ---------------------------------------------------------------------------
// generators

type fieldVariant struct{ name, text string } // text "" = absent

var (
	vJsonrpc = []fieldVariant{{"absent", ""}, {"2.0", `"2.0"`}, {"1.0", `"1.0"`}, {"number", `2.0`}, {"null", `null`}}
	vID      = []fieldVariant{{"absent", ""}, {"int", `17`}, {"neg", `-3`}, {"fraction", `1.5`}, {"exponent", `1e3`}, {"string", `"abc"`},
		{"escaped", "\"a\\u0031\\n\""}, {"null", `null`}, {"true", `true`}, {"array", `[1]`}, {"object", `{"a":1}`}}
	vMethod = []fieldVariant{{"absent", ""}, {"known", `"m"`}, {"empty", `""`}, {"number", `5`}, {"null", `null`}}
	vParams = []fieldVariant{{"absent", ""}, {"array", `[1, 2]`}, {"object", `{"k": "v"}`}, {"null", `null`}, {"number", `7`}, {"string", `"p"`}}
	vResult = []fieldVariant{{"absent", ""}, {"valid", `{"r":1}`}, {"null", `null`}, {"string", `"r"`}}
	vError  = []fieldVariant{{"absent", ""}, {"valid", `{"code":-32000,"message":"boom","data":[1]}`}, {"null", `null`},
		{"malformed", `{"code":"x"}`}, {"string", `"e"`}}
	vExtra = []fieldVariant{{"absent", ""}, {"present", `1`}}
	vDup   = []string{"none", "id", "method", "jsonrpc"}
)

type memberChoice [8]int // indices into the variant lists above (last = duplicate kind)

func memberCount() int {
	return len(vJsonrpc) * len(vID) * len(vMethod) * len(vParams) * len(vResult) * len(vError) * len(vExtra) * len(vDup)
}

func memberOfIndex(k int) memberChoice {
	var c memberChoice
	dims := []int{len(vJsonrpc), len(vID), len(vMethod), len(vParams), len(vResult), len(vError), len(vExtra), len(vDup)}
	for i, d := range dims {
		c[i] = k % d
		k /= d
	}
	return c
}

// text of the member; the order of the members of the object is shuffled with r (nil = fixed order)
func memberText(c memberChoice, r *rng) string {
	type kv struct{ k, v string }
	var fs []kv
	add := func(k string, v fieldVariant) {
		if v.text != "" {
			fs = append(fs, kv{k, v.text})
		}
	}
	add("jsonrpc", vJsonrpc[c[0]])
	add("id", vID[c[1]])
	add("method", vMethod[c[2]])
	add("params", vParams[c[3]])
	add("result", vResult[c[4]])
	add("error", vError[c[5]])
	add("extra", vExtra[c[6]])
	switch vDup[c[7]] {
	case "id": // a second id: the later one wins
		fs = append(fs, kv{"id", `"dup"`})
	case "method":
		fs = append(fs, kv{"method", `7`})
	case "jsonrpc":
		fs = append(fs, kv{"\\u006asonrpc", `"2.0"`})
	}
	if r != nil {
		for i := len(fs) - 1; i > 0; i-- {
			j := r.intn(i + 1)
			fs[i], fs[j] = fs[j], fs[i]
		}
	}
	var sb strings.Builder
	sb.WriteByte('{')
	for i, f := range fs {
		if i > 0 {
			sb.WriteByte(',')
		}
		if r != nil {
			sb.WriteString(genWS(r))
		}
		sb.WriteString(`"` + f.k + `":`)
		if r != nil {
			sb.WriteString(genWS(r))
		}
		sb.WriteString(f.v)
	}
	sb.WriteByte('}')
	return sb.String()
}

var parseCorpus = []string{
	"", " ", "null", "[]", "[ ]", "{}", "[{}]", "[null]", "[1,2]", "5", `"x"`, "true", "[[]]", "{", "[", "]", "nul", "[1,]", "{}{}", "[] []",
	`{"jsonrpc":"2.0","id":1,"method":"m"}`, ` {"jsonrpc":"2.0","id":1,"method":"m"} `, `[{"jsonrpc":"2.0","id":1,"method":"m"}]`,
	"\v[1]", "\f{}", "\u00a0[{}]", "\u0085{}", "\u2028[]", "\xa0[]", "\xc2[]", "\ufeff{}", "\u3000 [ {} ]", "\u1680{}", "\u205f\u202f\u200a[ ]",
	`{"jsonrpc":"2.0","method":"m","params":null}`, `{"jsonrpc":"2.0","method":"m","params":  null}`, `{"jsonrpc":"2.0","method":"m","params":[],"params":7}`,
	`{"jsonrpc":"2.0","method":"m","params":7,"params":[]}`, `{"jsonrpc":"2.0","id":null,"method":"m"}`, `{"jsonrpc":"2.0","id":"null","method":"m"}`,
	`{"jsonrpc":"2.0","id":0,"method":"m"}`, `{"jsonrpc":"2.0","id":"","method":"m"}`, `{"jsonrpc":"2.0","id":-0,"method":"m"}`, `{"jsonrpc":"2.0","id":1E5,"method":"m"}`,
	`{"jsonrpc":"2.0","id":1,"method":"m","a":1,"b":2,"c":3}`, `{"jsonrpc":"2.0","id":1,"method":"m","<&>":1,"\u2028":2}`, `{"a":1,"b":2,"c":3,"d":4,"e":5,"f":6,"g":7,"h":8,"i":9,"j":10}`,
	`{"JSONRPC":"2.0","id":1,"method":"m"}`, `{"jsonrpc":"2.0","ID":1,"method":"m"}`, `{"jsonrpc":"2.0","id":1,"Method":"m"}`,
	`{"jsonrpc":"2.0","id":1,"error":{"code":1,"message":"x"}}`, `{"jsonrpc":"2.0","id":1,"error":{"CODE":1,"Message":"x","DATA":null}}`,
	`{"jsonrpc":"2.0","id":1,"error":{"code":1.0}}`, `{"jsonrpc":"2.0","id":1,"error":{"code":2147483648}}`, `{"jsonrpc":"2.0","id":1,"error":{"code":-2147483648}}`,
	`{"jsonrpc":"2.0","id":1,"error":{"code":1,"code":"x"}}`, `{"jsonrpc":"2.0","id":1,"error":{"message":null,"code":null}}`, `{"jsonrpc":"2.0","id":1,"error":[]}`,
	"{\"jsonrpc\":\"2.0\",\"id\":1,\"error\":{\"me\xc5\xbf\xc5\xbfage\":\"longs\",\"code\":3}}", "{\"jsonrpc\":\"2.0\",\"id\":1,\"error\":{\"\xe2\x84\xaaode\":3}}",
	`{"jsonrpc":"2.0","id":1,"method":"m","error":null}`, `{"jsonrpc":"2.0","id":1,"method":"m","result":null}`, `{"jsonrpc":"2.0","id":1,"method":null,"result":1}`,
	`{"jsonrpc":"2.0","id":1,"method":"","result":1}`, `{"jsonrpc":null,"id":1,"method":"m"}`, `{"jsonrpc":"2.0","jsonrpc":null,"id":1,"method":"m"}`,
	`{"jsonrpc":null,"jsonrpc":"2.0","id":1,"method":"m"}`, `{"jsonrpc":"2.0","id":1,"method":"m","method":null}`, "{\"jsonrpc\":\"2.0\",\"id\":1,\"method\":\"\\ud800\"}",
	"{\"jsonrpc\":\"2.0\",\"id\":1,\"method\":\"\xff\"}", "{\"jsonrpc\":\"2.\\u0030\",\"id\":\"\\u0031\",\"\\u006dethod\":\"m\"}", `{"jsonrpc":"2.0","id":1,"method":"m","params":"[1]"}`,
	`{"jsonrpc":"2.0","id":1,"method":"m","params":{}}`, `{"jsonrpc":"2.0","id":1,"method":"m","params":[ ]}`, `{"jsonrpc":"2.0","id":1,"method":"m","params":true}`,
	`{"jsonrpc":"2.0","id":[],"method":5,"params":5,"error":5}`, `{"id":{},"method":[],"params":"x","error":"y","jsonrpc":7,"zz":1}`,
}

func genMethodName(r *rng) string {
	switch r.intn(6) {
	case 0:
		return pick(r, []string{"m", "a.b", "rpc.x", "Math.Add", "<script>", "a&b", "\"quoted\"", "back\\slash", "new\nline", "tab\t", "\x00", "\x7f", "\u2028\u2029",
			"é", "日本語", "😀", "\ufffd", "\uffff", "a b", "/", "\x1f\x1e", "\b\f\n\r\t", "'", "\U0010ffff", "\u0080", "\u07ff\u0800"})
	default:
		s := genGoString(r, true)
		if s == "" {
			s = "m"
		}
		return s
	}
}

func genID(r *rng) string {
	switch r.intn(5) {
	case 0:
		return pick(r, []string{"0", "-0", "1", "-1", "1.5", "1e3", "1E+3", `""`, `"0"`, `"null"`, `"a b"`, "\"\\u0031\"", "\"\\n\"", `"<&>"`, "9223372036854775808",
			"-9223372036854775809", "18446744073709551616", "0.000001", `"é"`, `"😀"`, "\"\\ud83d\\ude00\"", "\"\\ud800\"", `"\"\\"`, "\"\u2028\""})
	case 1:
		return genNumber(r)
	case 2:
		return `"` + genStrBody(r) + `"`
	default:
		return strconv.Itoa(r.intn(1000))
	}
}

func genRawValue(r *rng) (mode, raw string) {
	switch r.intn(8) {
	case 0:
		k := r.intn(len(valueCorpus))
		b, err := json.Marshal(valueCorpus[k])
		if err != nil {
			fatal("corpus value %d: %v", k, err)
		}
		return fmt.Sprintf("v%d_", k), string(b)
	case 1, 2:
		t := genValue(r, 3, true)
		var v any
		dec := json.NewDecoder(strings.NewReader(t))
		dec.UseNumber()
		if dec.Decode(&v) == nil && v != nil {
			b, err := json.Marshal(v)
			if err == nil {
				return "g", string(b)
			}
		}
		return "r", t
	default:
		return "r", genWS(r) + genValue(r, 1+r.intn(4), false) + genWS(r)
	}
}

func genStructured(r *rng) (mode, raw string) {
	for {
		mode, raw := genRawValue(r)
		t := strings.TrimLeft(raw, " \t\r\n")
		if t != "" && (t[0] == '[' || t[0] == '{') {
			return mode, raw
		}
		if r.chance(1, 6) {
			return "r", genWS(r) + "null" + genWS(r)
		}
	}
}

func genAbsErr(r *rng) *absErr {
	e := &absErr{code: pick(r, []int{0, 1, -1, -32700, -32600, -32601, -32602, -32603, -32000, 2147483647, -2147483648, 404})}
	if r.chance(4, 5) {
		e.msg = genGoString(r, true)
	}
	if r.chance(1, 2) {
		_, e.data = genRawValue(r)
	}
	return e
}

// ---------------------------------------------------------------------------

func wireMain(cfg *config, which string) {
	w := newCaseWriter(cfg.out)
	defer w.close()
	emitP := func(text string) { w.line("P", hexf(text), observeParse(text)) }
	emitE := func(who string, batch bool, msgs []absMsg) {
		ss := make([]string, len(msgs))
		for i, m := range msgs {
			ss[i] = m.String()
		}
		b, ok := runE(who, batch, msgs)
		if !ok {
			w.line("E", who, boolf(batch), strings.Join(ss, ";"), "FAIL:"+hexf(b))
			return
		}
		w.line("E", who, boolf(batch), strings.Join(ss, ";"), hexf(b)+":"+wireFlags(b))
		if who != "X" {
			emitP(b)
		}
	}
	emitB := func(body, outcome string) { w.line("B", hexf(body), outcome, runB(body, outcome)) }

	if cfg.replay != "" {
		f, err := os.Open(cfg.replay)
		if err != nil {
			fatal("open replay: %v", err)
		}
		defer f.Close()
		sc := bufio.NewScanner(f)
		sc.Buffer(make([]byte, 1<<20), 1<<28)
		for sc.Scan() {
			p := strings.Split(sc.Text(), "\t")
			switch {
			case p[0] == "P" && len(p) >= 2:
				emitP(unhexf(p[1]))
			case p[0] == "E" && len(p) >= 4:
				var msgs []absMsg
				for _, s := range strings.Split(p[3], ";") {
					msgs = append(msgs, parseAbsMsg(s))
				}
				emitE(p[1], p[2] == "1", msgs)
			case p[0] == "B" && len(p) >= 3:
				emitB(unhexf(p[1]), p[2])
			}
		}
		return
	}

	r := newRng(cfg.seed)
	thorough := cfg.tier == "thorough"

	// ---- P: fixed corpus, member basis, batches, random and mutated records ----
	for _, t := range parseCorpus {
		emitP(t)
	}
	total := memberCount()
	if thorough {
		for k := 0; k < total; k++ {
			emitP(memberText(memberOfIndex(k), r))
		}
	} else {
		// pairwise: every pair of variants of two different fields occurs (greedy random covering), then a sample
		nS := cfg.n * 3
		dims := []int{len(vJsonrpc), len(vID), len(vMethod), len(vParams), len(vResult), len(vError), len(vExtra), len(vDup)}
		for a := 0; a < len(dims); a++ {
			for b := a + 1; b < len(dims); b++ {
				for x := 0; x < dims[a]; x++ {
					for y := 0; y < dims[b]; y++ {
						var c memberChoice
						for i := range c {
							c[i] = r.intn(dims[i])
							if r.chance(1, 2) { // bias the other fields towards the valid request
								c[i] = []int{1, 1, 1, 1, 0, 0, 0, 0}[i]
							}
						}
						c[a], c[b] = x, y
						emitP(memberText(c, r))
					}
				}
			}
		}
		for i := 0; i < nS; i++ {
			emitP(memberText(memberOfIndex(r.intn(total)), r))
		}
	}
	// 2-member batches over a 40-member basis
	basis := make([]string, 40)
	for i := range basis {
		switch {
		case i < 8:
			basis[i] = []string{`{"jsonrpc":"2.0","id":1,"method":"m"}`, `{"jsonrpc":"2.0","method":"m"}`, `{"jsonrpc":"2.0","id":1,"method":"m","params":[1]}`,
				`5`, `null`, `[]`, `{}`, `"x"`}[i]
		default:
			basis[i] = memberText(memberOfIndex(r.intn(total)), nil)
		}
	}
	for i := range basis {
		for j := range basis {
			if thorough || r.chance(1, 8) {
				emitP("[" + basis[i] + genWS(r) + "," + genWS(r) + basis[j] + "]")
			}
		}
	}
	nR := cfg.n
	if thorough {
		nR *= 30
	}
	for i := 0; i < nR; i++ {
		var t string
		switch r.intn(5) {
		case 0:
			t = genWS(r) + genValue(r, 3, false) + genWS(r)
		case 1:
			t = memberText(memberOfIndex(r.intn(total)), r)
			t = mutate(r, t)
		case 2:
			n := r.intn(4)
			ms := make([]string, n)
			for k := range ms {
				ms[k] = memberText(memberOfIndex(r.intn(total)), r)
			}
			t = genWS(r) + "[" + strings.Join(ms, ",") + "]" + genWS(r)
			if r.chance(1, 3) {
				t = mutate(r, t)
			}
		case 3: // arbitrary keys and values in a member
			t = `{"jsonrpc":"2.0","id":` + genID(r) + `,"method":"` + genStrBody(r) + `","params":` + genValue(r, 2, false) + `,"` + genStrBody(r) + `":` + genValue(r, 1, false) + `}`
		default:
			t = mutate(r, mutate(r, pick(r, parseCorpus)))
		}
		emitP(t)
	}
	if thorough {
		for _, n := range []int{9997, 9998, 9999, 10000} {
			deep := strings.Repeat("[", n) + strings.Repeat("]", n)
			emitP(`{"jsonrpc":"2.0","id":1,"method":"m","params":` + deep + `}`)
			emitP(`[{"jsonrpc":"2.0","id":1,"method":"m","params":` + deep + `}]`)
		}
	}
	if which == "c02pure" {
		return
	}

	// ---- E: emitted bytes ----
	nE := cfg.n / 2
	if thorough {
		nE = cfg.n * 5
	}
	// fixed boundary cases first
	emitE("S", false, []absMsg{{id: "0", rmode: "r", result: "0"}})
	emitE("S", false, []absMsg{{id: "0", rmode: "r", result: "null"}})
	emitE("S", true, []absMsg{{id: "0", rmode: "r", result: " [ ] "}})
	emitE("S", false, []absMsg{{id: `""`, err: &absErr{code: 0}}})
	emitE("S", false, []absMsg{{id: `"0"`, err: &absErr{code: -32000, msg: "<&>\u2028", data: " { \"a\" : \"<\\u003c\" } "}}})
	emitE("C", false, []absMsg{{id: "1", method: "m"}})
	emitE("C", false, []absMsg{{method: "m"}})
	emitE("C", true, []absMsg{{id: "1", method: "m", pmode: "r", params: "null"}})
	emitE("C", false, []absMsg{{id: "1", method: "a\"b\\c\n<>&\u2028\x7f\x00", pmode: "r", params: "\n[\n1,\n2\n]\n"}})
	emitE("N", false, []absMsg{{method: "note", pmode: "r", params: "5"}})
	emitE("N", false, []absMsg{{id: "1", method: "call", pmode: "r", params: `"str"`}})
	emitE("X", false, []absMsg{{id: "1", err: &absErr{code: 0}}})
	emitE("X", false, []absMsg{{id: "1", err: &absErr{code: -32700, msg: "a\"<\n\xff", data: " [ 1 , \"<\" ] "}}})
	emitE("X", false, []absMsg{{id: "1", err: &absErr{code: 5, msg: "x", data: "{bad"}}})
	emitE("R", false, []absMsg{{id: "1", rmode: "r", result: "null"}})
	emitE("R", false, []absMsg{{id: "1", err: &absErr{code: 0}}})
	emitE("R", false, []absMsg{{id: "1", err: &absErr{code: -1, msg: "\xffm<", data: "\n{ }\n"}}})
	// F16/F17: an error whose data are not JSON is sent without them; its batch is not lost
	emitE("S", false, []absMsg{{id: "1", err: &absErr{code: 5, msg: "x", data: "{bad"}}})
	emitE("S", true, []absMsg{{id: "1", err: &absErr{code: 5, msg: "x\xff<", data: "[1,]"}}})
	emitE("S", true, []absMsg{{id: "1", rmode: "r", result: "true"}, {id: "2", err: &absErr{code: 7, msg: "no", data: "{bad"}}})
	emitE("S", true, []absMsg{{id: `"a"`, err: &absErr{code: 7, msg: "no", data: "\"unterminated"}}, {id: "2", err: &absErr{code: -32000, data: " [ 1 ] "}},
		{id: "3", rmode: "r", result: "null"}})
	emitE("R", false, []absMsg{{id: "1", err: &absErr{code: 5, msg: "x", data: "{bad"}}})
	emitE("R", false, []absMsg{{id: "1", err: &absErr{code: -32097, msg: "\xffm", data: "01"}}})
	for i := 0; i < nE; i++ {
		switch r.intn(11) {
		case 0, 1, 2: // client single
			m := absMsg{method: genMethodName(r), pmode: "r"}
			if r.chance(2, 3) {
				m.id = "1"
			}
			if r.chance(3, 4) {
				m.pmode, m.params = genStructured(r)
			}
			emitE("C", false, []absMsg{m})
		case 3, 4: // client batch, mixed specs
			n := 1 + r.intn(4)
			msgs := make([]absMsg, n)
			next := 1
			for k := range msgs {
				msgs[k] = absMsg{method: genMethodName(r), pmode: "r"}
				if r.chance(2, 3) {
					msgs[k].id = strconv.Itoa(next)
					next++
				}
				if r.chance(2, 3) {
					msgs[k].pmode, msgs[k].params = genStructured(r)
				}
			}
			emitE("C", true, msgs)
		case 5, 6, 7: // server responses
			n := 1
			batch := r.chance(1, 3)
			if batch {
				n = 1 + r.intn(3)
			}
			msgs := make([]absMsg, 0, n)
			seen := map[string]bool{}
			for k := 0; k < n; k++ {
				id := genID(r)
				var probe json.RawMessage
				if seen[id] || id == "" || json.Unmarshal([]byte(id), &probe) != nil {
					id = strconv.Itoa(5000 + k)
				}
				seen[id] = true
				m := absMsg{id: id, rmode: "r"}
				if r.chance(2, 5) {
					m.err = genAbsErr(r)
					if r.chance(1, 25) {
						m.err.data = pick(r, []string{"{bad", "[1,]", "01", `"unterminated`, " ", "nul", "1 2", "\xff"})
					}
				} else {
					m.rmode, m.result = genRawValue(r)
				}
				msgs = append(msgs, m)
			}
			emitE("S", batch, msgs)
		case 8: // Response.MarshalJSON on the client side, Error marshalling
			m := absMsg{id: "1", rmode: "r"}
			if r.chance(1, 2) {
				m.err = genAbsErr(r)
				if m.err.data != "" && !json.Valid([]byte(m.err.data)) {
					m.err.data = ""
				}
				emitE("X", false, []absMsg{m})
			} else {
				m.rmode, m.result = genRawValue(r)
			}
			emitE("R", false, []absMsg{m})
		default: // server push
			m := absMsg{method: genMethodName(r), pmode: "r"}
			if r.chance(1, 2) {
				m.id = "1"
			}
			if r.chance(3, 4) {
				m.pmode, m.params = genRawValue(r)
			}
			emitE("N", false, []absMsg{m})
		}
	}

	// ---- B: bridge bodies ----
	single := []string{
		`{"jsonrpc":"1.0","id":1,"method":"m"}`, `{"id":"abc","method":"m"}`, `{"jsonrpc":2,"id":1.5,"method":"m"}`, `{"jsonrpc":"2.0","id":true,"method":"m"}`,
		`{"jsonrpc":"2.0","id":[1],"method":"m"}`, `{"jsonrpc":"2.0","id":"x","method":"m","params":7}`, `{"jsonrpc":"2.0","id":0,"method":"m","params":"s"}`,
		`5`, `"x"`, `[1]`, `{"jsonrpc":"2.0","id":1e3,"method":5}`, `{"jsonrpc":"2.0","id":"<&>","method":"m","<b>&":1}`, "{\"jsonrpc\":\"2.0\",\"id\":\"\\u0031\",\"method\":\"m\",\"\u2028\":1}",
		`{"jsonrpc":"2.0","id":7,"method":"m","result":1}`, `{"jsonrpc":"2.0","id":7,"method":"m","error":{"code":"x"}}`, `{"jsonrpc":"2.0","id":null,"method":"m","params":1}`,
		`{"jsonrpc":"1.0","id":"100%","method":"m"}`, `{"jsonrpc":"2.0","id":"job-%d %s","method":"m","params":7}`, `{"jsonrpc":"2.0","id":"x%%y%!","method":5}`,
		`{"jsonrpc":"2.0","method":"m","params":1}`, `{"jsonrpc":"2.0","id": "sp ace" ,"method":"m","x\ty":1}`, "{\"jsonrpc\":\"2.0\",\"id\":1,\"method\":\"m\",\"\xff\":1}",
	}
	for _, s := range single {
		emitB(s, "-")
		emitB("["+s+"]", "-")
		emitB(" "+s+" ", "-")
	}
	// F16: the handler's error carries data that are not JSON
	emitB(`{"jsonrpc":"2.0","id":1,"method":"m"}`, "X5:"+hexf("x")+":"+hexf("{bad"))
	emitB(`[{"jsonrpc":"2.0","id":1,"method":"m"},{"jsonrpc":"2.0","id":"b","method":"m"}]`, "X-32000:"+hexf("no")+":"+hexf("[1,]"))
	for i := 0; i < len(single); i++ {
		emitB("["+single[i]+","+single[(i+3)%len(single)]+", "+single[(i+7)%len(single)]+"]", "-")
	}
	nB := cfg.n / 10
	if thorough {
		nB = cfg.n
	}
	for i := 0; i < nB; i++ {
		id := genID(r)
		var probe json.RawMessage
		if json.Unmarshal([]byte(id), &probe) != nil || id == "" {
			id = "1"
		}
		body := `{"jsonrpc":"2.0","id":` + id + `,"method":"m"}`
		if r.chance(1, 2) {
			mode, raw := genRawValue(r)
			emitB(body, "R"+mode+hexf(raw))
		} else {
			e := genAbsErr(r)
			emitB(body, fmt.Sprintf("X%d:%s:%s", e.code, hexf(e.msg), hexf(e.data)))
		}
	}
	// valid batches mixing calls (ids of every shape, repeated ids included) with notifications (no id, id null)
	// in every position: each call is answered under its own id text, in order, notifications not at all
	for i := 0; i < nB; i++ {
		n := 2 + r.intn(4)
		var ms []string
		for k := 0; k < n; k++ {
			switch r.intn(5) {
			case 0:
				ms = append(ms, `{"jsonrpc":"2.0","method":"m"}`)
			case 1:
				ms = append(ms, `{"jsonrpc":"2.0","id":null,"method":"m","params":[1]}`)
			default:
				id := genID(r)
				var probe json.RawMessage
				if json.Unmarshal([]byte(id), &probe) != nil || id == "" {
					id = strconv.Itoa(1 + r.intn(3))
				}
				ms = append(ms, `{"jsonrpc":"2.0","id":`+id+`,"method":"m"}`)
			}
		}
		mode, raw := genRawValue(r)
		emitB("["+strings.Join(ms, ",")+"]", "R"+mode+hexf(raw))
	}
}
