package main

// C12: framing robustness on arbitrary streams.  Generates V / VX / VK / VW lines (the real
// Recv of a framing over an arbitrary, malformed or truncated stream behind the chunk-controlled
// reader; see frame.go for the formats).  VW lines are V lines executed in a worker
// sub-process under an address-space limit, so that a fatal out-of-memory error or any other
// process death is an OBSERVATION ("DIED(...)") and not the end of the harness.
//
// Families:
//   exhaustive   every stream of <= L symbols over a per-framing alphabet (bytes for the split
//                framings, bytes and header tokens for the header framings, JSON tokens for RawJSON)
//   truncation   every prefix of valid multi-record streams (small), selected prefixes of
//                streams with records that span bufio windows (large)
//   lenfuzz      Content-Length values: signs, spaces (ASCII and Unicode), bases, underscores,
//                19-21 digit numbers, 2^63-1, 2^63, 2^63+1, 2^62, 2^64, sizes around maxPrealloc
//   headers      structured header blocks: name case, unknown fields, duplicates, missing
//                parts, terminators, content-type policy
//   mutation     valid streams with random byte edits

import (
	"bufio"
	"fmt"
	"os"
	"os/exec"
	"strconv"
	"strings"
	"sync/atomic"
	"syscall"
)

func init() {
	commands["c12"] = c12Main
	commands["c12w"] = c12Worker
}

// ---- exhaustive families

func allSeqs(alpha []string, maxLen int, f func(s string)) {
	var rec func(prefix string, left int)
	rec = func(prefix string, left int) {
		f(prefix)
		if left == 0 {
			return
		}
		for _, a := range alpha {
			rec(prefix+a, left-1)
		}
	}
	rec("", maxLen)
}

// addStream adds the line(s) that run one stream under many cuttings.
func (g *lineGen) addStream(fr string, s string, r *rng) {
	n := len(s)
	switch {
	case n <= 9:
		g.add("VX", fr, lit(s))
	case n <= 20:
		g.add("VK", fr, "2", lit(s))
	case n <= 48:
		g.add("VK", fr, "1", lit(s))
	default:
		g.add("V", fr, pick(r, []string{"1e", "1", "W", "w"}), lit(s))
		g.add("V", fr, randomCuts(r, n), lit(s))
	}
}

var (
	c12SplitAlpha    = []string{"\n", "a", "\r", "b"}
	c12HdrBytes      = []string{"C", ":", "\r", "\n", "1", " ", "x"}
	c12HdrTokensWide = []string{"Content-Length:", "content-type:", "X-Other:", "1", "0", "x", " ", "\r\n", "\n", "ab"}
	c12HdrTokensCase = []string{"Content-Length:", "1", "\r\n", "x", "Content-Type:X\r\n", "content-type:x\r\n"}
	c12HdrTokens     = []string{"Content-Length:", "1", "\r\n", "x", "content-type:x\r\n"}
	c12JSONTokens    = []string{"{", "}", "[", "]", "\"a\"", ",", ":", "1", " ", "null", "-", "\""}
)

func c12Exhaustive(g *lineGen, r *rng, tier string) {
	th := tier == "thorough"
	lim := func(q, t int) int {
		if th {
			return t
		}
		return q
	}
	for _, fr := range []string{"line", "split:61"} {
		allSeqs(c12SplitAlpha, lim(6, 7), func(s string) { g.addStream(fr, s, r) })
	}
	// split bytes that are not ASCII: the terminator is that BYTE, never the UTF-8 encoding of the code point
	// of the same number (0xff vs c3 bf, 0x80 vs c2 80)
	allSeqs([]string{"\xff", "\xc3", "\xbf", "a"}, lim(6, 7), func(s string) { g.addStream("split:ff", s, r) })
	allSeqs([]string{"\x80", "\xc2", "a", "\n"}, lim(5, 6), func(s string) { g.addStream("split:80", s, r) })
	for _, fr := range []string{"strict:-", "lsp"} {
		allSeqs(c12HdrBytes, lim(4, 5), func(s string) { g.addStream(fr, s, r) })
	}
	for _, fr := range []string{"strict:78", "header:78"} {
		allSeqs(c12HdrTokensWide, lim(3, 4), func(s string) { g.addStream(fr, s, r) })
	}
	allSeqs(c12HdrTokens, lim(6, 7), func(s string) { g.addStream("strict:78", s, r) })
	allSeqs(c12HdrTokens, lim(5, 6), func(s string) { g.addStream("header:78", s, r) })
	// a media type with an upper-case letter: the field NAME is case-insensitive, the VALUE is compared exactly
	for _, fr := range []string{"strict:58", "header:58"} {
		allSeqs(c12HdrTokensCase, lim(4, 5), func(s string) { g.addStream(fr, s, r) })
	}
	if th {
		allSeqs(c12HdrTokens, 5, func(s string) { g.addStream("lsp", s, r) })
		allSeqs(c12HdrTokens, 5, func(s string) { g.addStream("header:-", s, r) })
	}
	allSeqs(c12JSONTokens, 4, func(s string) { g.addStream("rawjson", s, r) })
	if th {
		allSeqs(c12JSONTokens[:9], 5, func(s string) { g.addStream("rawjson", s, r) })
	}
}

// ---- truncation

var c12TruncFramings = []string{"line", "split:00", "strict:-", "strict:78", "header:78", "header:-", "lsp", "rawjson"}

func c12RecLists(fr framing, r *rng, n int) [][]string {
	var out [][]string
	switch fr.kind {
	case 'j':
		out = [][]string{{"{}", "[1,2]", "\"a\\\"b\""}, {"{\"a\":[true,null]}", "", "[[]]"}, {"\"x\"", "{\"k\":\"v\"}"}, {"[\"\\u00e9\",1.5e3]", "null", "{}"}}
		for i := 0; i < n; i++ {
			var l []string
			for j := 0; j < 1+r.intn(3); j++ {
				l = append(l, genJSON(r, 1+r.intn(3)))
			}
			out = append(out, l)
		}
	default:
		o, p := "abc", "de"
		if fr.kind == 's' && fr.b != '\n' {
			o, p = "a\nc", "d\re"
		}
		out = [][]string{{o, p}, {o, "", p}, {"", ""}, {o + p + o, p, o}, {"x"}}
		for i := 0; i < n; i++ {
			var l []string
			for j := 0; j < 1+r.intn(3); j++ {
				k := r.intn(12)
				b := make([]byte, k)
				for x := range b {
					b[x] = pick(r, []byte("abc \r:0123456789C\x00\xff"))
					if fr.kind == 's' && b[x] == fr.b {
						b[x] = 'q'
					}
				}
				l = append(l, string(b))
			}
			out = append(out, l)
		}
	}
	return out
}

func c12Truncation(g *lineGen, r *rng, tier string) {
	th := tier == "thorough"
	nrand := 3
	if th {
		nrand = 25
	}
	for _, fn := range c12TruncFramings {
		fr := parseFraming(fn)
		for _, recs := range c12RecLists(fr, r, nrand) {
			var specs []string
			for _, s := range recs {
				specs = append(specs, lit(s))
			}
			stream := string(streamOf(fr, specs))
			for p := 0; p <= len(stream); p++ {
				pre := stream[:p]
				switch {
				case len(pre) <= 12:
					g.add("VX", fn, lit(pre))
				case len(pre) <= 64 || th:
					g.add("VK", fn, "1", lit(pre))
				default:
					g.add("V", fn, pick(r, []string{"W", "1e", "1", "w"}), lit(pre))
				}
			}
		}
		// records that span the bufio window: prefixes around the structural positions
		for _, size := range []int{4095, 4096, 5000, 9000} {
			var head, body string // head literal, body = zspec(k, seed, alpha) for k <= size
			alpha := "c"
			switch fr.kind {
			case 's':
				alpha = "a"
				if fr.b == '\n' {
					alpha = "b"
				}
			case 'j':
				alpha = "a"
				head = "\""
			case 'h':
				_, st := sendAll(fr, [][]byte{make([]byte, size)})
				head = string(st[:len(st)-size])
			}
			_ = body
			seed := uint64(size)
			pre := lit("first") // a complete record in front
			switch fr.kind {
			case 's':
				pre = lit("first" + string([]byte{fr.b}))
			case 'h':
				_, st := sendAll(fr, [][]byte{[]byte("first")})
				pre = lit(string(st))
			case 'j':
				pre = lit("\"first\"")
			}
			for _, k := range []int{0, 1, 2, 4095 - len(head), 4096 - len(head), 4097 - len(head), 4095, 4096, 4097, size - 4097, size - 4096, size - 1, size} {
				if k < 0 || k > size {
					continue
				}
				spec := pre + "+" + lit(head) + "+" + zspec(k, seed, alpha)
				for _, c := range []string{"W", "w", randomCuts(r, k+10)} {
					g.add("V", fn, c, spec)
				}
			}
			// and the header itself cut (header framings)
			if fr.kind == 'h' {
				for p := 0; p < len(head); p++ {
					g.add("V", fn, pick(r, []string{"W", "w", "1e"}), pre+"+"+lit(head[:p]))
				}
			}
		}
	}
}

// ---- Content-Length fuzz

var c12LenValues = []string{
	"0", "1", "3", "5", "7", "10", "007", "+5", "+0", "-0", "-1", "-5", "--5", "+-5", "+", "-", "", " ", "  5", "5  ", " 7 ", "\t5\t", "5 5", "5x", "x5", "0x10", "0b11", "0o7",
	"1_0", "_5", "5_", "1e1", "5.0", "5.", ".5", "٥", "５", "\u00a05", "5\u00a0", "\u00855", "5\u0085", "\u20035\u2003", "\u30005", "5\u3000", "\u200b5", "5\u200b", "\ufeff5",
	"\xa05", "5\xc2", "\xc25", "5\xe2\x80", "\xe2\x805", "5\x00", "\x005", "5\x0b", "\x0c5", "5\x1c", "\x1f5",
	"4096", "4097", "65536", "1048576", "1048577", "2097152", "4194304", "8388608", "16777215", "16777216", "16777217", "33554432", "33554433", "67108864", "268435456",
	"1073741824", "2147483647", "2147483648", "4294967295", "4294967296", "4294967297", "1099511627776", "281474976710655", "281474976710656", "281474976710657",
	"140737488355328", "562949953421312", "4611686018427387903", "4611686018427387904", "4611686018427387905", "9223372036854775806", "9223372036854775807",
	"9223372036854775808", "9223372036854775809", "18446744073709551615", "18446744073709551616", "18446744073709551617", "+9223372036854775807", "-9223372036854775808",
	"-9223372036854775809", "1000000000000000000", "9999999999999999999", "10000000000000000000", "99999999999999999999", "100000000000000000000", "999999999999999999999",
	"00000000000000000000005", "000000000000000000000000000000", "0000000000000000000009223372036854775808", "340282366920938463463374607431768211456",
}

func c12LenFuzz(g *lineGen, r *rng, tier string) {
	th := tier == "thorough"
	frs := []string{"strict:-", "header:78", "lsp"}
	if th {
		frs = []string{"strict:-", "strict:78", "header:78", "header:-", "lsp"}
	}
	payloads := []string{"", "abc", "hello", "0123456789"}
	vals := append([]string(nil), c12LenValues...)
	nrand := 60
	if th {
		nrand = 1500
	}
	for i := 0; i < nrand; i++ {
		// random digit strings of 1-22 digits, some with decorations
		nd := 1 + r.intn(22)
		if r.chance(1, 2) {
			nd = 17 + r.intn(6)
		}
		var sb strings.Builder
		if r.chance(1, 8) {
			sb.WriteString(pick(r, []string{"+", "-", " ", "\u00a0"}))
		}
		for j := 0; j < nd; j++ {
			sb.WriteByte(byte('0' + r.intn(10)))
		}
		if r.chance(1, 10) {
			sb.WriteString(pick(r, []string{" ", "\t", "x", "_", "\u0085"}))
		}
		vals = append(vals, sb.String())
	}
	for _, fn := range frs {
		for vi, v := range vals {
			for pi, pl := range payloads {
				if !th && vi >= len(c12LenValues) && pi != vi%len(payloads) {
					continue
				}
				s := "Content-Length: " + v + "\r\n\r\n" + pl
				if (vi+pi)%3 == 0 {
					s = "Content-Type: x\r\nContent-Length:" + v + "\r\n\r\n" + pl
				}
				g.add("VW", fn, pick(r, []string{"W", "w", "1e", "1"}), lit(s))
			}
		}
	}
	// declared sizes around the buffer policy boundaries with the full payload present, then a small record
	bigs := []int{1 << 20, 1<<20 + 1, 1<<24 - 1, 1 << 24, 1<<24 + 1, 1<<24 + 4097}
	if !th {
		bigs = []int{1<<20 + 1, 1 << 24, 1<<24 + 1}
	}
	for _, fn := range frs[:2] {
		for _, n := range bigs {
			for _, short := range []int{0, 1, 5000} {
				if short > 0 && !th && n != 1<<24+1 {
					continue
				}
				// payload present but [short] bytes short of the declared length
				s := lit(fmt.Sprintf("Content-Length: %d\r\n\r\n", n)) + "+" + zspec(n-short, uint64(n), "c")
				if short == 0 {
					s += "+" + lit("Content-Length: 2\r\n\r\nok")
				}
				g.add("VW", fn, pick(r, []string{"W", "w"}), s)
				g.add("VW", fn, fmt.Sprintf("r%dx%d", r.next()>>2, 1<<20), s)
			}
		}
	}
}

// ---- structured header blocks

func c12Headers(g *lineGen, r *rng, tier string) {
	n := 2500
	if tier == "thorough" {
		n = 40000
	}
	clNames := []string{"Content-Length", "content-length", "CONTENT-LENGTH", "cOnTeNt-LeNgTh", "Content-length", "Content-Length ", " Content-Length", "Content_Length", "ContentLength",
		"Content-Lengt", "Content-Lengthh", "Content-Len\u212Ath", "\u0130ontent-Length", "Content\u2010Length"}
	ctNames := []string{"Content-Type", "content-type", "CONTENT-TYPE", "Content-type", "Content-Type ", "Content_Type", "Content-Typ"}
	other := []string{"X-Other", "Accept", "", " ", "content", "Content", "x:y", "\x00", "\xff\xfe", "Host"}
	ctVals := []string{"x", "X", " x", "x ", "\tx\t", "\u00a0x", "x\u3000", "y", "xx", "", " ", "x; charset=utf-8", lspMime, "application/json", "x\r", "a:b"}
	terms := []string{"\r\n", "\r\n", "\r\n", "\n", "\r\r\n", "\n\r", "\r"}
	frs := []string{"strict:-", "strict:78", "header:78", "header:-", "lsp", "strict:" + hexf(lspMime), "header:" + hexf("application/json")}
	for i := 0; i < n; i++ {
		fn := pick(r, frs)
		var sb strings.Builder
		nrec := 1 + r.intn(3)
		for k := 0; k < nrec; k++ {
			nl := r.intn(5)
			declared := -1
			payload := r.intn(8)
			for j := 0; j < nl; j++ {
				var name, val string
				switch r.intn(6) {
				case 0, 1:
					name = pick(r, clNames)
					if r.chance(5, 6) {
						declared = payload
						if r.chance(1, 6) {
							declared = r.intn(10)
						}
						val = strconv.Itoa(declared)
						if r.chance(1, 8) {
							val = pick(r, c12LenValues[:40])
						}
					} else {
						val = pick(r, c12LenValues[:40])
					}
				case 2, 3:
					name, val = pick(r, ctNames), pick(r, ctVals)
				default:
					name, val = pick(r, other), pick(r, ctVals)
				}
				sep := pick(r, []string{": ", ":", " : ", ":  ", ""})
				if sep == "" && !r.chance(1, 4) {
					sep = ": "
				}
				sb.WriteString(name + sep + val + pick(r, terms))
			}
			if !r.chance(1, 12) {
				sb.WriteString(pick(r, terms)) // the blank line
			}
			for j := 0; j < payload; j++ {
				sb.WriteByte(pick(r, []byte("abcC:\r\n 01")))
			}
			_ = declared
		}
		s := sb.String()
		g.addStream(fn, s, r)
	}
}

// ---- mutated valid streams

func c12Mutation(g *lineGen, r *rng, tier string) {
	n := 1500
	if tier == "thorough" {
		n = 30000
	}
	frs := []string{"line", "split:61", "strict:-", "strict:78", "header:78", "lsp", "rawjson"}
	for i := 0; i < n; i++ {
		fn := pick(r, frs)
		fr := parseFraming(fn)
		lists := c12RecLists(fr, r, 1)
		recs := lists[len(lists)-1]
		if r.chance(1, 3) {
			recs = lists[r.intn(len(lists))]
		}
		var specs []string
		for _, s := range recs {
			specs = append(specs, lit(s))
		}
		b := append([]byte(nil), streamOf(fr, specs)...)
		for k := 0; k < 1+r.intn(3) && len(b) > 0; k++ {
			p := r.intn(len(b))
			var pool []byte
			switch fr.kind {
			case 's':
				pool = []byte{fr.b, 'a', '\r', 0}
			case 'h':
				pool = []byte(":\r\n -+0123456789cC\x00x")
			default:
				pool = []byte("{}[]\",: \n\\u0123eE-+.tfn\x00\x1f\xff")
			}
			switch r.intn(4) {
			case 0:
				b[p] = pick(r, pool)
			case 1:
				b = append(b[:p], b[p+1:]...)
			case 2:
				b = append(b[:p], append([]byte{pick(r, pool)}, b[p:]...)...)
			default:
				b[p] ^= 1 << uint(r.intn(8))
			}
		}
		g.addStream(fn, string(b), r)
	}
}

// a fixed corpus: the witnesses of the findings and boundary cases
func c12Corpus(g *lineGen, r *rng) {
	for _, fn := range []string{"line", "split:0a"} {
		for _, s := range []string{"abc\ndef", "abc\nd", "abc", "\n", "\n\n", "", "a\n\nb", "abc\ndef\n", "\r\n"} {
			g.addStream(fn, s, r)
		}
	}
	for _, fn := range []string{"strict:-", "header:78", "lsp", "strict:78"} {
		for _, s := range []string{
			"Content-Length: 9223372036854775807\r\n\r\n", "Content-Length: 4611686018427387904\r\n\r\nabc", "Content-Length: 0\r\n\r", "Content-Length: 0\r\n\r\n",
			"Content-Length: 0\r\n", "Content-Length: 0", "Content-Length: 3\r\n\r\nab", "Content-Length: 3\r\n\r\nabc", "Content-Length: 3\r\n\r\nabcd", "\r\n", "\n", "\r", ":", "a",
			"Content-Type: x\r\nContent-Length: 1\r\n\r\na", "Content-Type: y\r\nContent-Length: 1\r\n\r\na", "Content-Length: 1\r\n\r\naContent-Length: 1\r\n\r\nb",
			"Content-Length: 1\r\nContent-Length: 2\r\n\r\nabc", "content-length:1\n\na", "Content-Length: 1\r\n\r\n", "Content-Length:\r\n\r\n", "Content-Length\r\n\r\n",
		} {
			g.add("VW", fn, "W", lit(s))
			g.add("VW", fn, "1", lit(s))
		}
	}
	// header lines longer than the reader's buffer (4096): an unknown field is ignored whatever its length, and
	// what its tail looks like is irrelevant
	for _, fn := range []string{"strict:-", "header:78", "lsp", "strict:78"} {
		for _, n := range []int{4070, 4089, 4090, 4096, 4097, 5000, 9000, 12289} {
			pad := yspec(n, "a")
			g.add("VW", fn, "W", lit("Content-Length: 3\r\nX-Pad: ")+"+"+pad+"+"+lit("\r\n\r\nabc"))
			g.add("VW", fn, "W", lit("X-Pad: ")+"+"+pad+"+"+lit("\r\nContent-Type: x\r\nContent-Length: 3\r\n\r\nabcContent-Length: 1\r\n\r\nz"))
			g.add("VW", fn, "1", lit("Content-Length: 3\r\nX-Pad: ")+"+"+pad+"+"+lit("Content-Length: 1\r\n\r\nabc"))
			g.add("VW", fn, "W", lit("Content-Length: 3\r\nX-Pad: ")+"+"+pad+"+"+lit("Content-Length: 1\r\n\r\nabc"))
			g.add("VW", fn, "W", lit("Content-Length: 3\r\nX-Pad:")+"+"+pad+"+"+lit(": b\r\nContent-Type: x\r\n\r\nabc"))
		}
	}
	// a complete record beyond the preallocation bound (16 MiB) whose Content-Type is wrong or missing for the
	// framing: the verdict on the type is reported together with the whole record, on this read path too
	for _, c := range [][2]string{
		{"strict:78", "Content-Type: application/json\r\n"}, {"strict:78", ""}, {"strict:-", "Content-Type: x\r\n"},
		{"header:78", "Content-Type: y\r\n"}, {"lsp", "Content-Type: text/plain\r\n"}, {"strict:78", "Content-Type: x\r\n"},
	} {
		n := 1<<24 + 1 + len(c[1])
		g.add("VW", c[0], "W", lit(c[1]+fmt.Sprintf("Content-Length: %d\r\n\r\n", n))+"+"+zspec(n, uint64(n), "c")+"+"+lit("Content-Length: 1\r\n\r\nq"))
	}
	for _, s := range []string{"", " ", "{}", "{} ", "{}{}", "1 2", "12\"a\"", "truefalse", "01", "{", "[1,", "\"abc", "nul", "null", "nullx", "x", "}", "1x", "-", "1e", "[1 2]", "{\"a\" 1}", "\"\\x\"", "\"\x01\"",
		"[" + strings.Repeat("[", 20), "1.5e+3,", " \n\t\r1", "\xef\xbb\xbf{}", "{}\x00"} {
		g.addStream("rawjson", s, r)
	}
	// nesting limit of the JSON scanner: 10000 deep is accepted, 10001 is a syntax error
	for _, d := range []int{9999, 10000, 10001} {
		g.add("V", "rawjson", "w", yspec(d, "[")+"+"+yspec(d, "]"))
		g.add("V", "rawjson", "W", yspec(d, "{\"a\":")+"+"+lit("1")+"+"+yspec(d, "}"))
	}
}

// ---- worker sub-process for the lines that may kill the process

const workerMemLimit = 6 << 30

func c12Worker(cfg *config) {
	lim := syscall.Rlimit{Cur: workerMemLimit, Max: workerMemLimit}
	syscall.Setrlimit(syscall.RLIMIT_AS, &lim)
	inputs := readInputLines(cfg.replay)
	f, err := os.Create(cfg.out)
	if err != nil {
		fatal("create %s: %v", cfg.out, err)
	}
	defer f.Close()
	for i, l := range inputs {
		fields := strings.Split(l, "\t")
		fmt.Fprintf(f, "B\t%d\n", i) // begun
		fields[0] = "V"
		obs := frameExec(fields)
		fmt.Fprintf(f, "D\t%d\t%s\n", i, obs)
	}
	fstats.print()
}

// runRemote executes the given lines in worker processes; a line on which the worker dies is
// observed as DIED(<status>) and the rest is continued in a fresh worker.
func runRemote(inputs []string) []string {
	out := make([]string, len(inputs))
	todo := make([]int, len(inputs))
	for i := range todo {
		todo[i] = i
	}
	dir, err := os.MkdirTemp("", "c12w")
	if err != nil {
		fatal("tempdir: %v", err)
	}
	defer os.RemoveAll(dir)
	for round := 0; len(todo) > 0; round++ {
		in := fmt.Sprintf("%s/in%d", dir, round)
		res := fmt.Sprintf("%s/out%d", dir, round)
		var sb strings.Builder
		for _, i := range todo {
			sb.WriteString(inputs[i] + "\n")
		}
		os.WriteFile(in, []byte(sb.String()), 0o644)
		cmd := exec.Command(os.Args[0], "c12w", "-replay", in, "-out", res)
		cmd.Env = append(os.Environ(), "GOMAXPROCS=2")
		outb, runErr := cmd.CombinedOutput()
		begun := -1
		done := map[int]bool{}
		if f, err := os.Open(res); err == nil {
			sc := bufio.NewScanner(f)
			sc.Buffer(make([]byte, 1<<20), 1<<28)
			for sc.Scan() {
				p := strings.SplitN(sc.Text(), "\t", 3)
				k, _ := strconv.Atoi(p[1])
				if p[0] == "B" {
					begun = k
				} else if len(p) == 3 {
					out[todo[k]] = p[2]
					done[k] = true
				}
			}
			f.Close()
		}
		atomic.AddInt64(&fstats.worker, int64(len(done)))
		if runErr == nil && len(done) == len(todo) {
			break
		}
		// the worker died on line [begun]
		atomic.AddInt64(&fstats.workerDeaths, 1)
		why := "exit"
		if runErr != nil {
			why = strings.ReplaceAll(runErr.Error(), " ", "-")
		}
		reason := ""
		for _, key := range []string{"out of memory", "cannot allocate memory", "makeslice", "slice bounds", "nil pointer", "stack overflow", "all goroutines are asleep"} {
			if strings.Contains(string(outb), key) {
				reason = ":" + strings.ReplaceAll(key, " ", "-")
				break
			}
		}
		if begun < 0 || done[begun] {
			// died outside a line: give up on the rest, visibly
			for k, i := range todo {
				if !done[k] {
					out[i] = "DIED(" + why + reason + ":outside-line)"
				}
			}
			break
		}
		out[todo[begun]] = "DIED(" + why + reason + ")"
		todo = todo[begun+1:]
	}
	return out
}

func c12Main(cfg *config) {
	var inputs []string
	if cfg.replay != "" {
		inputs = readInputLines(cfg.replay)
	} else {
		r := newRng(cfg.seed)
		g := newLineGen()
		c12Corpus(g, r)
		c12LenFuzz(g, r, cfg.tier)
		c12Truncation(g, r, cfg.tier)
		c12Headers(g, r, cfg.tier)
		c12Mutation(g, r, cfg.tier)
		c12Exhaustive(g, r, cfg.tier)
		inputs = g.lines
	}
	var remoteIdx []int
	var remoteLines []string
	obs := runLines(inputs, func(fields []string) bool { return fields[0] == "VW" })
	for i, l := range inputs {
		if strings.HasPrefix(l, "VW\t") {
			remoteIdx = append(remoteIdx, i)
			remoteLines = append(remoteLines, l)
		}
	}
	if len(remoteLines) > 0 {
		// shard over a few workers
		nw := 4
		chunk := (len(remoteLines) + nw - 1) / nw
		type part struct {
			lo  int
			res []string
		}
		ch := make(chan part, nw)
		parts := 0
		for lo := 0; lo < len(remoteLines); lo += chunk {
			hi := lo + chunk
			if hi > len(remoteLines) {
				hi = len(remoteLines)
			}
			parts++
			go func(lo, hi int) { ch <- part{lo, runRemote(remoteLines[lo:hi])} }(lo, hi)
		}
		for k := 0; k < parts; k++ {
			p := <-ch
			for j, o := range p.res {
				obs[remoteIdx[p.lo+j]] = o
			}
		}
	}
	writeCases(cfg.out, inputs, obs)
	fstats.print()
}
