package main

import (
	"bufio"
	"encoding/hex"
	"fmt"
	"os"
	"strings"
)

// hexf encodes a byte string as a hex field; "-" stands for the empty string.
func hexf(s string) string {
	if s == "" {
		return "-"
	}
	return hex.EncodeToString([]byte(s))
}

func unhexf(s string) string {
	if s == "-" {
		return ""
	}
	b, err := hex.DecodeString(s)
	if err != nil {
		panic(err)
	}
	return string(b)
}

type caseWriter struct {
	f *os.File
	w *bufio.Writer
	n int
}

func newCaseWriter(path string) *caseWriter {
	f, err := os.Create(path)
	if err != nil {
		fatal("create %s: %v", path, err)
	}
	return &caseWriter{f: f, w: bufio.NewWriterSize(f, 1<<20)}
}

func (c *caseWriter) line(fields ...string) {
	c.w.WriteString(strings.Join(fields, "\t"))
	c.w.WriteByte('\n')
	c.n++
}

func (c *caseWriter) close() {
	c.w.Flush()
	c.f.Close()
}

func fatal(msg string, args ...any) {
	fmt.Fprintf(os.Stderr, "harness: "+msg+"\n", args...)
	os.Exit(3)
}
