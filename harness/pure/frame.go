package main

// Shared machinery of the framing harnesses (C11 round trip, C12 robustness).
//
// The Coq models (coq/frame/*.v) are functions of the CONCATENATED byte stream.
// Here the real channel implementations run behind a chunk-controlled io.Reader;
// the observation of a receiving side must be the same for every way of cutting
// the stream, and equal to what the model computes on the whole stream.
//
// Case lines (tab separated, last field = observation):
//   R  framing cuts recs           sendobs|recvobs   pipelined round trip
//   RX framing recs                sendobs|recvobs   ... under EVERY cut set x both EOF modes (stream <= 13 bytes)
//   RK framing k recs              sendobs|recvobs   ... under every cut set with <= k cuts x both EOF modes
//   V  framing cuts stream         recvobs           arbitrary stream
//   VX framing stream              recvobs           ... every cut set x both EOF modes (stream <= 13 bytes)
//   VK framing k stream            recvobs           ... every cut set with <= k cuts x both EOF modes
//   D  recs                        recvobs;sendafterclose=err|nil|blocked   channel.Direct
//   I  errtree                     0|1               channel.IsErrClosing
//
// BYTES SPEC: '+'-joined parts; a part is a hex literal ("-" = empty),
//   z<len>x<seed>x<alpha>  len pseudo-random bytes (splitmix64 as in rng.go) over alphabet a|b|c,
//   y<count>x<hex>         the unit repeated count times.
// recs: comma-joined specs, "." = no records.
// framing: line | split:<2 hex> | strict:<hexf mt> | header:<hexf mt> | lsp | rawjson.
// cuts: w | W | 1 | 1e | c<p1>.<p2>...[e] | r<seed>x<maxchunk>[e]   (e / W: io.EOF together with the last data).
// Observed byte strings longer than 256 bytes are printed as #<len>:<fnv1a-64>.

import (
	"encoding/json"
	"errors"
	"fmt"
	"io"
	"math/bits"
	"net"
	"os"
	"runtime"
	"sort"
	"strconv"
	"strings"
	"sync"
	"sync/atomic"
	"time"

	"github.com/creachadair/jrpc2/channel"
)

// ---------------------------------------------------------------------------
// byte specs

var (
	alphaA, alphaB, alphaC []byte
)

func init() {
	for c := 0x20; c <= 0x7e; c++ {
		if c != '"' && c != '\\' {
			alphaA = append(alphaA, byte(c))
		}
	}
	for c := 0; c < 256; c++ {
		if c != 0x0a {
			alphaB = append(alphaB, byte(c))
		}
		alphaC = append(alphaC, byte(c))
	}
}

func alphabetOf(name string) []byte {
	switch name {
	case "a":
		return alphaA
	case "b":
		return alphaB
	case "c":
		return alphaC
	}
	panic("bad alphabet " + name)
}

func zbytes(n int, seed uint64, alpha string) []byte {
	al := alphabetOf(alpha)
	r := newRng(seed)
	out := make([]byte, n)
	m := uint64(len(al))
	for i := range out {
		out[i] = al[r.next()%m]
	}
	return out
}

func zspec(n int, seed uint64, alpha string) string {
	return fmt.Sprintf("z%dx%dx%s", n, seed, alpha)
}

func yspec(count int, unit string) string { return fmt.Sprintf("y%dx%s", count, hexf(unit)) }

func parseSpec(s string) []byte {
	var out []byte
	for _, p := range strings.Split(s, "+") {
		switch {
		case p == "-" || p == "":
		case p[0] == 'z':
			f := strings.Split(p[1:], "x")
			if len(f) != 3 {
				panic("bad z part " + p)
			}
			n, err1 := strconv.Atoi(f[0])
			seed, err2 := strconv.ParseUint(f[1], 10, 64)
			if err1 != nil || err2 != nil {
				panic("bad z part " + p)
			}
			out = append(out, zbytes(n, seed, f[2])...)
		case p[0] == 'y':
			f := strings.Split(p[1:], "x")
			if len(f) != 2 {
				panic("bad y part " + p)
			}
			n, err := strconv.Atoi(f[0])
			if err != nil {
				panic("bad y part " + p)
			}
			out = append(out, strings.Repeat(unhexf(f[1]), n)...)
		default:
			out = append(out, unhexf(p)...)
		}
	}
	return out
}

// specLen is the length of the byte string a spec denotes, without building it.
func specLen(s string) int {
	n := 0
	for _, p := range strings.Split(s, "+") {
		switch {
		case p == "-" || p == "":
		case p[0] == 'z':
			k, _ := strconv.Atoi(strings.Split(p[1:], "x")[0])
			n += k
		case p[0] == 'y':
			f := strings.Split(p[1:], "x")
			k, _ := strconv.Atoi(f[0])
			n += k * len(unhexf(f[1]))
		default:
			n += len(p) / 2
		}
	}
	return n
}

func parseRecs(s string) [][]byte {
	if s == "." {
		return nil
	}
	var out [][]byte
	for _, p := range strings.Split(s, ",") {
		b := parseSpec(p)
		// exact capacity: split.Send appends the delimiter to the caller's slice
		out = append(out, b[:len(b):len(b)])
	}
	return out
}

func joinRecs(specs []string) string {
	if len(specs) == 0 {
		return "."
	}
	return strings.Join(specs, ",")
}

// lit is the spec of a literal byte string.
func lit(s string) string { return hexf(s) }

func fnv1a(b []byte) uint64 {
	h := uint64(0xcbf29ce484222325)
	for _, c := range b {
		h ^= uint64(c)
		h *= 0x100000001b3
	}
	return h
}

// obsBytes prints an observed byte string: hex, or length and hash when long.
func obsBytes(b []byte) string {
	if len(b) > 256 {
		return fmt.Sprintf("#%d:%016x", len(b), fnv1a(b))
	}
	return hexf(string(b))
}

// ---------------------------------------------------------------------------
// framings

type framing struct {
	name string
	kind byte // 's' split, 'h' header family, 'j' rawjson
	f    channel.Framing
	b    byte   // split byte
	mt   string // media type of a header framing
}

func parseFraming(s string) framing {
	switch {
	case s == "line":
		return framing{name: s, kind: 's', f: channel.Line, b: '\n'}
	case strings.HasPrefix(s, "split:"):
		b := unhexf(s[6:])
		if len(b) != 1 {
			panic("bad framing " + s)
		}
		return framing{name: s, kind: 's', f: channel.Split(b[0]), b: b[0]}
	case strings.HasPrefix(s, "strict:"):
		mt := unhexf(s[7:])
		return framing{name: s, kind: 'h', f: channel.StrictHeader(mt), mt: mt}
	case strings.HasPrefix(s, "header:"):
		mt := unhexf(s[7:])
		return framing{name: s, kind: 'h', f: channel.Header(mt), mt: mt}
	case s == "lsp":
		return framing{name: s, kind: 'h', f: channel.LSP, mt: lspMime}
	case s == "rawjson":
		return framing{name: s, kind: 'j', f: channel.RawJSON}
	}
	panic("bad framing " + s)
}

const lspMime = "application/vscode-jsonrpc; charset=utf-8"

// ---------------------------------------------------------------------------
// the chunk-controlled reader

// A cutter says where the next Read has to stop: the smallest cut position > pos
// (any value >= len(stream) means "no more cuts").
type cutter interface{ next(pos int) int }

type noCuts struct{}

func (noCuts) next(pos int) int { return int(^uint(0) >> 1) }

type stepCuts struct{ n int }

func (s stepCuts) next(pos int) int { return pos + s.n }

// maskCuts: bit i-1 set = cut at offset i (streams of at most 64 bytes).
type maskCuts struct{ mask uint64 }

func (m maskCuts) next(pos int) int {
	if pos >= 64 {
		return int(^uint(0) >> 1)
	}
	rest := m.mask >> uint(pos)
	if rest == 0 {
		return int(^uint(0) >> 1)
	}
	return pos + bits.TrailingZeros64(rest) + 1
}

type listCuts struct {
	at []int // sorted
	i  int
}

func (l *listCuts) next(pos int) int {
	for l.i < len(l.at) && l.at[l.i] <= pos {
		l.i++
	}
	if l.i < len(l.at) {
		return l.at[l.i]
	}
	return int(^uint(0) >> 1)
}

type randCuts struct {
	r   *rng
	max uint64
	cut int
}

func (c *randCuts) next(pos int) int {
	for c.cut <= pos {
		c.cut += 1 + int(c.r.next()%c.max)
	}
	return c.cut
}

type cutSpec struct {
	text    string
	eofWith bool
	mk      func() cutter
}

func parseCuts(s string) cutSpec {
	cs := cutSpec{text: s}
	switch {
	case s == "w":
		cs.mk = func() cutter { return noCuts{} }
	case s == "W":
		cs.eofWith = true
		cs.mk = func() cutter { return noCuts{} }
	case s == "1" || s == "1e":
		cs.eofWith = s == "1e"
		cs.mk = func() cutter { return stepCuts{1} }
	case s[0] == 'c':
		body := s[1:]
		if strings.HasSuffix(body, "e") {
			cs.eofWith = true
			body = body[:len(body)-1]
		}
		var at []int
		if body != "" {
			for _, p := range strings.Split(body, ".") {
				v, err := strconv.Atoi(p)
				if err != nil {
					panic("bad cuts " + s)
				}
				at = append(at, v)
			}
		}
		sort.Ints(at)
		cs.mk = func() cutter { return &listCuts{at: at} }
	case s[0] == 'r':
		body := s[1:]
		if strings.HasSuffix(body, "e") {
			cs.eofWith = true
			body = body[:len(body)-1]
		}
		f := strings.Split(body, "x")
		if len(f) != 2 {
			panic("bad cuts " + s)
		}
		seed, err1 := strconv.ParseUint(f[0], 10, 64)
		max, err2 := strconv.ParseUint(f[1], 10, 64)
		if err1 != nil || err2 != nil || max == 0 {
			panic("bad cuts " + s)
		}
		cs.mk = func() cutter { return &randCuts{r: newRng(seed), max: max} }
	default:
		panic("bad cuts " + s)
	}
	return cs
}

func cutsText(at []int, eofWith bool) string {
	if len(at) == 0 {
		if eofWith {
			return "W"
		}
		return "w"
	}
	ss := make([]string, len(at))
	for i, a := range at {
		ss[i] = strconv.Itoa(a)
	}
	t := "c" + strings.Join(ss, ".")
	if eofWith {
		t += "e"
	}
	return t
}

// chunkReader delivers data in the pieces the cutter dictates.  It never returns
// more than len(p) bytes and never (0, nil) for a non-empty p; io.EOF comes with
// the last data (eofWith) or by a separate Read.  As the io.Reader contract
// allows, it uses a little of p beyond n as scratch space.
type chunkReader struct {
	data    []byte
	pos     int
	cuts    cutter
	eofWith bool
	reads   int
}

func (c *chunkReader) Read(p []byte) (int, error) {
	c.reads++
	if c.pos >= len(c.data) {
		return 0, io.EOF
	}
	if len(p) == 0 {
		return 0, nil
	}
	end := c.cuts.next(c.pos)
	if end > len(c.data) || end <= c.pos {
		end = len(c.data)
	}
	n := end - c.pos
	if n > len(p) {
		n = len(p)
	}
	copy(p, c.data[c.pos:c.pos+n])
	c.pos += n
	for i, k := n, 0; i < len(p) && k < 48; i, k = i+1, k+1 {
		p[i] = 0xA5 // scratch
	}
	if c.pos == len(c.data) && c.eofWith {
		return n, io.EOF
	}
	return n, nil
}

// ---------------------------------------------------------------------------
// observations

func errKind(err error) string {
	if err == io.EOF {
		return "EOF"
	}
	if err == io.ErrUnexpectedEOF {
		return "UEOF"
	}
	switch e := err.(type) {
	case *channel.ContentTypeMismatchError:
		return "CTM(" + obsBytes([]byte(e.Got)) + ")"
	case *json.SyntaxError:
		return "JSYN"
	}
	switch err.Error() {
	case "invalid header line":
		return "IHDR"
	case "missing required content-length":
		return "MLEN"
	case "invalid content-length":
		return "ILEN"
	}
	return "OTHER"
}

type frameStats struct {
	lines, runs, recvCalls, reads, panics, diverge int64
	maxRec, maxStream, bytesStreamed               int64
	worker, workerDeaths                           int64
}

var fstats frameStats

func atomicMax(p *int64, v int64) {
	for {
		old := atomic.LoadInt64(p)
		if v <= old || atomic.CompareAndSwapInt64(p, old, v) {
			return
		}
	}
}

func (s *frameStats) print() {
	fmt.Printf("stat lines=%d\n", s.lines)
	fmt.Printf("stat cutset_runs=%d\n", s.runs)
	fmt.Printf("stat recv_calls=%d\n", s.recvCalls)
	fmt.Printf("stat reader_reads=%d\n", s.reads)
	fmt.Printf("stat panics_observed=%d\n", s.panics)
	fmt.Printf("stat diverging_cases=%d\n", s.diverge)
	fmt.Printf("stat max_record_bytes=%d\n", s.maxRec)
	fmt.Printf("stat max_stream_bytes=%d\n", s.maxStream)
	fmt.Printf("stat bytes_streamed=%d\n", s.bytesStreamed)
	fmt.Printf("stat worker_cases=%d\n", s.worker)
	fmt.Printf("stat worker_deaths=%d\n", s.workerDeaths)
}

// recvObserve runs the receiving side of a framing over one cutting of the stream:
// successive Recv results, each copied (here: rendered) immediately, up to the first
// repeated bare error.
func recvObserve(fr framing, stream []byte, cuts cutter, eofWith bool) (obs string) {
	rd := &chunkReader{data: stream, cuts: cuts, eofWith: eofWith}
	var items []string
	calls := 0
	defer func() {
		atomic.AddInt64(&fstats.runs, 1)
		atomic.AddInt64(&fstats.recvCalls, int64(calls))
		atomic.AddInt64(&fstats.reads, int64(rd.reads))
		atomic.AddInt64(&fstats.bytesStreamed, int64(len(stream)))
		if p := recover(); p != nil {
			atomic.AddInt64(&fstats.panics, 1)
			items = append(items, "PANIC")
			obs = strings.Join(items, ",")
		}
	}()
	ch := fr.f(rd, nopWC{})
	limit := len(stream) + 4
	prev := ""
	for {
		if calls >= limit {
			items = append(items, "RUNAWAY")
			break
		}
		calls++
		rec, err := ch.Recv()
		var it string
		switch {
		case err == nil:
			it = "r" + obsBytes(rec)
			atomicMax(&fstats.maxRec, int64(len(rec)))
		case len(rec) > 0:
			it = "e" + obsBytes(rec) + ":" + errKind(err)
		default:
			it = "E:" + errKind(err)
			if it == prev {
				return strings.Join(items, ",")
			}
		}
		items = append(items, it)
		prev = it
	}
	return strings.Join(items, ",")
}

// duplexReader performs one pending Send on the channel before every Read but the first.
type duplexReader struct {
	inner  io.Reader
	reads  int
	before func()
}

func (d *duplexReader) Read(p []byte) (int, error) {
	d.reads++
	if d.reads > 1 {
		d.before()
	}
	return d.inner.Read(p)
}

// duplexObserve: what Recv yields while Sends on the same channel fall between the reads of the transport, then
// what those Sends wrote (those not yet issued when the stream ended are issued at the end).
func duplexObserve(fr framing, stream []byte, cuts cutter, eofWith bool, out [][]byte) (obs string) {
	rd := &chunkReader{data: stream, cuts: cuts, eofWith: eofWith}
	w := &capWC{}
	var items, sent []string
	defer func() {
		if p := recover(); p != nil {
			obs = strings.Join(append(items, "PANIC"), ",")
		}
	}()
	var ch interface {
		Send([]byte) error
		Recv() ([]byte, error)
	}
	sendOne := func() {
		if len(out) == 0 {
			return
		}
		r := out[0]
		out = out[1:]
		start := len(w.buf)
		if err := ch.Send(r); err != nil {
			sent = append(sent, "E"+obsBytes(w.buf[start:]))
		} else {
			sent = append(sent, "S"+obsBytes(w.buf[start:]))
		}
	}
	ch = fr.f(&duplexReader{inner: rd, before: sendOne}, w)
	prev := ""
	for calls := 0; calls < len(stream)+4; calls++ {
		rec, err := ch.Recv()
		var it string
		switch {
		case err == nil:
			it = "r" + obsBytes(rec)
		case len(rec) > 0:
			it = "e" + obsBytes(rec) + ":" + errKind(err)
		default:
			it = "E:" + errKind(err)
		}
		if err != nil && len(rec) == 0 && it == prev {
			break
		}
		items = append(items, it)
		prev = it
	}
	for len(out) > 0 {
		sendOne()
	}
	so := "."
	if len(sent) > 0 {
		so = strings.Join(sent, ",")
	}
	return strings.Join(items, ",") + "#" + so
}

type nopWC struct{}

func (nopWC) Write(p []byte) (int, error) { return len(p), nil }
func (nopWC) Close() error                { return nil }

// capWC captures what a sending channel writes.
type capWC struct {
	buf    []byte
	writes int
}

func (c *capWC) Write(p []byte) (int, error) {
	c.writes++
	c.buf = append(c.buf, p...)
	return len(p), nil
}
func (c *capWC) Close() error { return nil }

type emptyReader struct{}

func (emptyReader) Read(p []byte) (int, error) { return 0, io.EOF }

// sendAll sends every record on a fresh channel of the framing (pipelined: nothing is
// received in between) and returns the per-record observation and the stream written.
func sendAll(fr framing, recs [][]byte) (obs string, stream []byte) {
	w := &capWC{}
	var toks []string
	func() {
		defer func() {
			if p := recover(); p != nil {
				toks = append(toks, "PANIC")
			}
		}()
		ch := fr.f(emptyReader{}, w)
		for _, r := range recs {
			start, w0 := len(w.buf), w.writes
			err := ch.Send(r)
			out := w.buf[start:]
			k := w.writes - w0
			switch {
			case err != nil && len(out) == 0 && k == 0:
				toks = append(toks, "R")
			case err != nil:
				toks = append(toks, "E"+obsBytes(out))
			case k == 1:
				toks = append(toks, "S"+obsBytes(out))
			default:
				toks = append(toks, fmt.Sprintf("M%d:%s", k, obsBytes(out)))
			}
		}
	}()
	if len(toks) == 0 {
		return ".", w.buf
	}
	return strings.Join(toks, ","), w.buf
}

// allCutSets runs the receive side under every subset of the interior positions of the
// stream and both EOF modes; the result is the common observation or DIVERGE:...
func allCutSets(fr framing, stream []byte) string {
	n := len(stream)
	if n > 14 {
		return "TOOLONG"
	}
	first, firstCuts := "", ""
	nm := uint64(1)
	if n > 1 {
		nm = uint64(1) << uint(n-1)
	}
	for mask := uint64(0); mask < nm; mask++ {
		for _, e := range []bool{false, true} {
			o := recvObserve(fr, stream, maskCuts{mask}, e)
			if first == "" && firstCuts == "" {
				first, firstCuts = o, maskText(mask, e)
			} else if o != first {
				atomic.AddInt64(&fstats.diverge, 1)
				return "DIVERGE:" + firstCuts + "=" + first + ";" + maskText(mask, e) + "=" + o
			}
		}
	}
	return first
}

func maskText(mask uint64, e bool) string {
	var at []int
	for i := 0; i < 64; i++ {
		if mask&(1<<uint(i)) != 0 {
			at = append(at, i+1)
		}
	}
	return cutsText(at, e)
}

// upToKCuts: every cut set with at most k cut points x both EOF modes.
func upToKCuts(fr framing, stream []byte, k int) string {
	n := len(stream)
	first, firstCuts := "", ""
	have := false
	diverged := ""
	var at []int
	try := func() bool {
		for _, e := range []bool{false, true} {
			o := recvObserve(fr, stream, &listCuts{at: at}, e)
			if !have {
				first, firstCuts, have = o, cutsText(at, e), true
			} else if o != first {
				atomic.AddInt64(&fstats.diverge, 1)
				diverged = "DIVERGE:" + firstCuts + "=" + first + ";" + cutsText(at, e) + "=" + o
				return false
			}
		}
		return true
	}
	var rec func(from, left int) bool
	rec = func(from, left int) bool {
		if !try() {
			return false
		}
		if left == 0 {
			return true
		}
		for p := from; p < n; p++ {
			at = append(at, p)
			ok := rec(p+1, left-1)
			at = at[:len(at)-1]
			if !ok {
				return false
			}
		}
		return true
	}
	rec(1, k)
	if diverged != "" {
		return diverged
	}
	return first
}

// ---------------------------------------------------------------------------
// Direct and IsErrClosing

func directObserve(recs [][]byte) string {
	cli, srv := channel.Direct()
	done := make(chan struct{})
	go func() {
		defer close(done)
		for i, r := range recs {
			if len(r) == 0 && i%2 == 1 {
				r = nil // nil and empty records alike
			}
			if err := cli.Send(r); err != nil {
				return
			}
		}
		cli.Close()
	}()
	type res struct {
		rec []byte
		err error
	}
	var items []string
	prev := ""
	calls := 0
	for {
		if calls >= len(recs)+3 {
			items = append(items, "RUNAWAY")
			break
		}
		calls++
		rc := make(chan res, 1)
		go func() {
			rec, err := srv.Recv()
			rc <- res{rec, err}
		}()
		var r res
		select {
		case r = <-rc:
		case <-time.After(5 * time.Second):
			// blocked for ever: not an answer Recv gives
			return strings.Join(append(items, "E:OTHER"), ",") + ";sendafterclose=skipped"
		}
		var it string
		switch {
		case r.err == nil:
			it = "r" + obsBytes(r.rec)
		case len(r.rec) > 0:
			it = "e" + obsBytes(r.rec) + ":" + errKind(r.err)
		default:
			it = "E:" + errKind(r.err)
		}
		if it == prev && it[0] == 'E' {
			break
		}
		items = append(items, it)
		prev = it
	}
	<-done
	atomic.AddInt64(&fstats.runs, 1)
	atomic.AddInt64(&fstats.recvCalls, int64(calls))
	// Send after Close must fail (a send on the closed Go channel panics; Send recovers).
	sc := make(chan error, 1)
	go func() {
		defer func() {
			if p := recover(); p != nil {
				sc <- errors.New("panic escaped")
			}
		}()
		sc <- cli.Send([]byte("late"))
	}()
	after := "blocked"
	select {
	case err := <-sc:
		if err != nil {
			after = "err"
		} else {
			after = "nil"
		}
	case <-time.After(2 * time.Second):
	}
	return strings.Join(items, ",") + ";sendafterclose=" + after
}

var otherSentinels = func() []error {
	var out []error
	for i := 0; i < 10; i++ {
		out = append(out, fmt.Errorf("sentinel %d", i))
	}
	return out
}()

type errTreeParser struct {
	s   string
	pos int
}

func (p *errTreeParser) parse() error {
	c := p.s[p.pos]
	p.pos++
	switch c {
	case 'n':
		return nil
	case 'c':
		return channel.ErrClosed
	case 'N':
		return net.ErrClosed
	case 'e':
		return io.EOF
	case 'l':
		d := p.s[p.pos] - '0'
		p.pos++
		return otherSentinels[d]
	case 'w':
		p.pos++ // (
		in := p.parse()
		p.pos++ // )
		return fmt.Errorf("x: %w", in)
	case 'j':
		p.pos++
		a := p.parse()
		p.pos++ // ,
		b := p.parse()
		p.pos++
		return errors.Join(a, b)
	}
	panic("bad error tree " + p.s)
}

var (
	realNetClosedOnce sync.Once
	realNetClosedErr  error
)

// realNetClosed is the error a read reports on a TCP (or unix) connection that was closed
// locally; nil when no listener can be opened in this environment.
func realNetClosed() error {
	realNetClosedOnce.Do(func() {
		for _, nw := range [][2]string{{"tcp", "127.0.0.1:0"}, {"unix", fmt.Sprintf("%s/verif-frame-%d.sock", os.TempDir(), os.Getpid())}} {
			ln, err := net.Listen(nw[0], nw[1])
			if err != nil {
				continue
			}
			go func() {
				c, err := ln.Accept()
				if err == nil {
					defer c.Close()
					io.Copy(io.Discard, c)
				}
			}()
			c, err := net.Dial(nw[0], ln.Addr().String())
			if err != nil {
				ln.Close()
				continue
			}
			c.Close()
			_, rerr := c.Read(make([]byte, 1))
			ln.Close()
			if rerr != nil {
				realNetClosedErr = rerr
				return
			}
		}
	})
	return realNetClosedErr
}

func isErrClosingObserve(tree string) string {
	var err error
	switch tree {
	case "real-netclosed":
		err = realNetClosed()
		if err == nil {
			return "unavailable"
		}
	case "os-errclosed":
		err = os.ErrClosed
	case "io-closedpipe":
		err = io.ErrClosedPipe
	case "real-pipeclosed":
		a, b := net.Pipe()
		a.Close()
		_, err = a.Read(make([]byte, 1))
		b.Close()
	default:
		p := &errTreeParser{s: tree}
		err = p.parse()
	}
	if channel.IsErrClosing(err) {
		return "1"
	}
	return "0"
}

// ---------------------------------------------------------------------------
// executing case lines

// frameExec executes one input line (all fields but the observation).
func frameExec(fields []string) (obs string) {
	defer func() {
		if p := recover(); p != nil {
			obs = fmt.Sprintf("HARNESS-ERROR:%v", p)
		}
	}()
	switch fields[0] {
	case "R", "RX", "RK":
		fr := parseFraming(fields[1])
		recs := parseRecs(fields[len(fields)-1])
		sobs, stream := sendAll(fr, recs)
		atomicMax(&fstats.maxStream, int64(len(stream)))
		var robs string
		switch fields[0] {
		case "R":
			cs := parseCuts(fields[2])
			robs = recvObserve(fr, stream, cs.mk(), cs.eofWith)
		case "RX":
			robs = allCutSets(fr, stream)
		case "RK":
			k, err := strconv.Atoi(fields[2])
			if err != nil {
				panic("bad k")
			}
			robs = upToKCuts(fr, stream, k)
		}
		return sobs + "|" + robs
	case "DX":
		// full-duplex use of one channel: while Recv is collecting the inbound records (stream cut as given), the
		// records of the last field are Sent on the SAME channel, one before each further read of the transport
		fr := parseFraming(fields[1])
		cs := parseCuts(fields[2])
		recsIn := parseRecs(fields[3])
		recsOut := parseRecs(fields[4])
		_, stream := sendAll(fr, recsIn)
		return duplexObserve(fr, stream, cs.mk(), cs.eofWith, recsOut)
	case "V":
		fr := parseFraming(fields[1])
		cs := parseCuts(fields[2])
		stream := parseSpec(fields[3])
		atomicMax(&fstats.maxStream, int64(len(stream)))
		return recvObserve(fr, stream, cs.mk(), cs.eofWith)
	case "VX":
		fr := parseFraming(fields[1])
		return allCutSets(fr, parseSpec(fields[2]))
	case "VK":
		fr := parseFraming(fields[1])
		k, err := strconv.Atoi(fields[2])
		if err != nil {
			panic("bad k")
		}
		return upToKCuts(fr, parseSpec(fields[3]), k)
	case "D":
		return directObserve(parseRecs(fields[1]))
	case "I":
		return isErrClosingObserve(fields[1])
	}
	return "BADLINE"
}

// runLines executes the input lines on all cores and returns the observations in order.
// exec may be nil (frameExec).  Lines for which remote() is true are left empty for the caller.
func runLines(inputs []string, remote func(fields []string) bool) []string {
	out := make([]string, len(inputs))
	var next int64 = -1
	var wg sync.WaitGroup
	nw := runtime.GOMAXPROCS(0)
	if nw > 16 {
		nw = 16
	}
	var done int64
	for w := 0; w < nw; w++ {
		wg.Add(1)
		go func() {
			defer wg.Done()
			for {
				i := int(atomic.AddInt64(&next, 1))
				if i >= len(inputs) {
					return
				}
				fields := strings.Split(inputs[i], "\t")
				if remote != nil && remote(fields) {
					continue
				}
				out[i] = frameExec(fields)
				if d := atomic.AddInt64(&done, 1); d%4096 == 0 && heavyLine(fields) {
					runtime.GC()
				}
			}
		}()
	}
	wg.Wait()
	return out
}

func heavyLine(fields []string) bool {
	// the last field is a spec or a comma-separated list of record specs
	n := 0
	for _, p := range strings.Split(fields[len(fields)-1], ",") {
		if p != "." {
			n += specLen(p)
		}
	}
	return n > 1<<20
}

func readInputLines(path string) []string {
	data, err := os.ReadFile(path)
	if err != nil {
		fatal("open replay: %v", err)
	}
	var out []string
	for _, l := range strings.Split(string(data), "\n") {
		l = strings.TrimRight(l, "\r")
		if l != "" {
			out = append(out, l)
		}
	}
	return out
}

func writeCases(path string, inputs, obs []string) {
	w := newCaseWriter(path)
	for i := range inputs {
		w.line(inputs[i], obs[i])
	}
	w.close()
	atomic.AddInt64(&fstats.lines, int64(len(inputs)))
}
