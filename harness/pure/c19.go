package main

// C19 (pure part): jhttp.ParseQuery / ParseBasic / Getter.ServeHTTP against the
// Coq model coq/http/Query.v.  Case lines (tab separated, last field = observation):
//
//   V <hexvalue>                                   one query value, URL-encoded into GET /m?x=<value>, typed by ParseQuery
//        -> err:string | err:bytes | err:other | str:<hex> | int:<dec> | float | bool:true|false | null
//           | bytes:<hex> | lit:<hex> | panic      (+ "!nomarshal" if json.Marshal of the params fails,
//                                                     "!float-inconsistent" if the float64 is not ParseFloat of the text)
//   P <mode u|d> <hexrawpath> <hexdecodedpath>     method name rule; u: path inside a URL text (with %2F), d: URL.Path set directly
//        -> q=<ok:hexmethod|err>,b=<ok:hexmethod|err>          (ParseQuery, ParseBasic)
//   Q <hexpath> <hexrawquery> <form>               whole ParseQuery / ParseBasic; form = "!" (ParseForm fails) | "-" (empty)
//        -> q=<res>|b=<res>                        | hexk=hexv;...  (distinct keys, as decoded by the harness)
//           res = err | ok:<hexmethod>:nil | ok:<hexmethod>:<hexk>=<valueobs>,... sorted by key
//   G <parser q|b> <hexpath> <hexrawquery> <form> <env live|cancel|closed>
//        -> <status>:<res|err<code>|other>         (+ "!invalidjson", "!ctype", "!body" flags)
//
// Everything the model needs is in the input fields; -replay re-executes input lines.

import (
	"bufio"
	"context"
	"encoding/json"
	"errors"
	"fmt"
	"math"
	"math/big"
	"net/http"
	"net/http/httptest"
	"net/url"
	"os"
	"sort"
	"strconv"
	"strings"
	"time"

	"github.com/creachadair/jrpc2"
	"github.com/creachadair/jrpc2/handler"
	"github.com/creachadair/jrpc2/jhttp"
)

func init() { commands["c19"] = c19Main }

// ---- observing one typed value ------------------------------------------------

func c19ValueObs(text string, v any) string {
	switch t := v.(type) {
	case nil:
		return "null"
	case bool:
		if t {
			return "bool:true"
		}
		return "bool:false"
	case int64:
		return "int:" + strconv.FormatInt(t, 10)
	case float64:
		o := "float"
		b, err := json.Marshal(t)
		f1, err1 := strconv.ParseFloat(text, 64)
		if err != nil || math.IsNaN(t) || math.IsInf(t, 0) {
			o += "!nomarshal"
		} else if f2, err2 := strconv.ParseFloat(string(b), 64); err1 != nil || err2 != nil || f1 != f2 || f1 != t {
			o += "!float-inconsistent"
		}
		return o
	case string:
		// a string is either a decoded JSON string or the literal text; told apart
		// by the caller (it knows whether the text was double-quoted)
		return "S:" + hexf(t)
	case []byte:
		return "bytes:" + hexf(string(t))
	default:
		return fmt.Sprintf("unknown-type:%T", v)
	}
}

// a string value is reported as str: when the text has a double quote at either
// end (only then can parseJSONString have produced it), as lit: otherwise
func c19FixString(text, obs string) string {
	if strings.HasPrefix(obs, "S:") {
		if text != "" && (text[0] == '"' || text[len(text)-1] == '"') {
			return "str:" + obs[2:]
		}
		return "lit:" + obs[2:]
	}
	return obs
}

func c19ErrKind(err error) string {
	m := err.Error()
	switch {
	case strings.HasPrefix(m, "decoding string"):
		return "err:string"
	case strings.HasPrefix(m, "decoding bytes"):
		return "err:bytes"
	}
	return "err:other"
}

func c19ReqFromQuery(path, rawQuery string) *http.Request {
	return &http.Request{Method: "GET", URL: &url.URL{Path: path, RawQuery: rawQuery}, Header: http.Header{}}
}

func c19Value(v string) (obs string) {
	defer func() {
		if p := recover(); p != nil {
			obs = "panic"
		}
	}()
	req := httptest.NewRequest("GET", "/m?x="+url.QueryEscape(v), nil)
	method, params, err := jhttp.ParseQuery(req)
	if err != nil {
		return c19ErrKind(err)
	}
	if method != "m" {
		return "wrong-method:" + hexf(method)
	}
	m, ok := params.(map[string]any)
	if !ok || len(m) != 1 {
		return fmt.Sprintf("wrong-params:%T", params)
	}
	val, ok := m["x"]
	if !ok {
		return "missing-key"
	}
	o := c19FixString(v, c19ValueObs(v, val))
	if _, err := json.Marshal(params); err != nil && !strings.Contains(o, "!nomarshal") {
		o += "!nomarshal"
	}
	return o
}

// ---- paths --------------------------------------------------------------------

func c19ParseRes(parse func(*http.Request) (string, any, error), req *http.Request, withParams bool, texts map[string]string) (obs string) {
	defer func() {
		if p := recover(); p != nil {
			obs = "panic"
		}
	}()
	method, params, err := parse(req)
	if err != nil {
		return "err"
	}
	o := "ok:" + hexf(method)
	if !withParams {
		return o
	}
	if _, err := json.Marshal(params); err != nil {
		o = "nomarshal!" + o
	}
	switch m := params.(type) {
	case nil:
		return o + ":nil"
	case map[string]any:
		keys := make([]string, 0, len(m))
		for k := range m {
			keys = append(keys, k)
		}
		sort.Strings(keys)
		var parts []string
		for _, k := range keys {
			parts = append(parts, hexf(k)+"="+c19FixString(texts[k], c19ValueObs(texts[k], m[k])))
		}
		return o + ":" + strings.Join(parts, ",")
	case map[string]string:
		keys := make([]string, 0, len(m))
		for k := range m {
			keys = append(keys, k)
		}
		sort.Strings(keys)
		var parts []string
		for _, k := range keys {
			parts = append(parts, hexf(k)+"=lit:"+hexf(m[k]))
		}
		return o + ":" + strings.Join(parts, ",")
	}
	return o + fmt.Sprintf(":unknown-params-type:%T", params)
}

func c19Path(mode, raw string) string {
	mk := func() *http.Request {
		if mode == "u" {
			req, err := http.NewRequest("GET", "http://h"+raw+"?x=1", nil)
			if err != nil {
				return nil
			}
			return req
		}
		return c19ReqFromQuery(raw, "x=1")
	}
	r1, r2 := mk(), mk()
	if r1 == nil {
		return "badurl"
	}
	return "q=" + c19ParseRes(jhttp.ParseQuery, r1, false, nil) + ",b=" + c19ParseRes(jhttp.ParseBasic, r2, false, nil)
}

// ---- whole requests -----------------------------------------------------------

type kv struct{ k, v string }

func c19FormField(f []kv, bad bool) string {
	if bad {
		return "!"
	}
	if len(f) == 0 {
		return "-"
	}
	var parts []string
	for _, e := range f {
		parts = append(parts, hexf(e.k)+"="+hexf(e.v))
	}
	return strings.Join(parts, ";")
}

func c19ParseFormField(s string) map[string]string {
	m := map[string]string{}
	if s == "!" || s == "-" {
		return m
	}
	for _, p := range strings.Split(s, ";") {
		i := strings.IndexByte(p, '=')
		m[unhexf(p[:i])] = unhexf(p[i+1:])
	}
	return m
}

func c19Query(path, rawQuery, form string) string {
	texts := c19ParseFormField(form)
	return "q=" + c19ParseRes(jhttp.ParseQuery, c19ReqFromQuery(path, rawQuery), true, texts) +
		"|b=" + c19ParseRes(jhttp.ParseBasic, c19ReqFromQuery(path, rawQuery), true, texts)
}

// ---- Getter -------------------------------------------------------------------

type c19Getters struct {
	n      int
	q, b   jhttp.Getter
	closed jhttp.Getter
}

func c19Methods() handler.Map {
	echo := func(ctx context.Context, req *jrpc2.Request) (any, error) {
		var raw json.RawMessage
		if req.HasParams() {
			if err := req.UnmarshalParams(&raw); err != nil {
				return nil, err
			}
			return raw, nil
		}
		return "noparams", nil
	}
	return handler.Map{
		"ok":   echo,
		"a/ok": echo,
		"inv": func(context.Context, *jrpc2.Request) (any, error) {
			return nil, jrpc2.Errorf(jrpc2.InvalidParams, "bad params")
		},
		"plain": func(context.Context, *jrpc2.Request) (any, error) { return nil, errors.New("plain failure") },
		"nf": func(context.Context, *jrpc2.Request) (any, error) {
			return nil, jrpc2.Errorf(jrpc2.MethodNotFound, "handler says no such method")
		},
		"custom": func(context.Context, *jrpc2.Request) (any, error) { return nil, jrpc2.Errorf(7, "custom code") },
		"data": func(context.Context, *jrpc2.Request) (any, error) {
			return nil, jrpc2.Errorf(jrpc2.InvalidRequest, "with data").WithData(map[string]int{"k": 1})
		},
		"block": func(ctx context.Context, _ *jrpc2.Request) (any, error) { <-ctx.Done(); return nil, ctx.Err() },
	}
}

func c19NewGetters() *c19Getters {
	g := &c19Getters{
		q:      jhttp.NewGetter(c19Methods(), &jhttp.GetterOptions{ParseRequest: jhttp.ParseQuery}),
		b:      jhttp.NewGetter(c19Methods(), nil),
		closed: jhttp.NewGetter(c19Methods(), &jhttp.GetterOptions{ParseRequest: jhttp.ParseQuery}),
	}
	g.closed.Close()
	return g
}

func (g *c19Getters) close() { g.q.Close(); g.b.Close() }

func (g *c19Getters) serve(parser, path, rawQuery, env string) (obs string) {
	defer func() {
		if p := recover(); p != nil {
			obs = "panic"
		}
	}()
	req := c19ReqFromQuery(path, rawQuery)
	// a Getter maps EVERY HTTP request to a call, whatever its method (no body here: the query is all there is)
	g.n++
	req.Method = []string{"GET", "GET", "DELETE", "PUT", "POST", "HEAD", "PATCH"}[g.n%7]
	req.Body = http.NoBody // (net/http refuses to parse the form of a POST/PUT/PATCH whose Body is nil)
	gt := g.q
	if parser == "b" {
		gt = g.b
	}
	switch env {
	case "closed":
		gt = g.closed
	case "cancel":
		ctx, cancel := context.WithCancel(context.Background())
		req = req.WithContext(ctx)
		go func() { time.Sleep(2 * time.Millisecond); cancel() }()
	}
	rec := httptest.NewRecorder()
	gt.ServeHTTP(rec, req)
	body := rec.Body.Bytes()
	o := strconv.Itoa(rec.Code) + ":"
	var eo struct {
		Code    *int    `json:"code"`
		Message *string `json:"message"`
	}
	switch {
	case rec.Code == 200:
		o += "res"
	case json.Unmarshal(body, &eo) == nil && eo.Code != nil && eo.Message != nil:
		o += "err" + strconv.Itoa(*eo.Code)
	default:
		o += "other"
	}
	if !json.Valid(body) {
		o += "!invalidjson"
	}
	if ct := rec.Header().Get("Content-Type"); ct != "application/json" {
		o += "!ctype"
	}
	if cl := rec.Header().Get("Content-Length"); cl != strconv.Itoa(len(body)) {
		o += "!clen"
	}
	return o
}

// ---- execution of one input line -----------------------------------------------

type c19Exec struct{ g *c19Getters }

func (e *c19Exec) exec(f []string) string {
	switch f[0] {
	case "V":
		return c19Value(unhexf(f[1]))
	case "P":
		return c19Path(f[1], unhexf(f[2]))
	case "Q":
		return c19Query(unhexf(f[1]), unhexf(f[2]), f[3])
	case "G":
		return e.g.serve(f[1], unhexf(f[2]), unhexf(f[3]), f[5])
	}
	return "badline"
}

// ---- generators -----------------------------------------------------------------

func c19Words(w string, i int, cur []byte, out *[]string) {
	if i == len(w) {
		*out = append(*out, string(cur))
		return
	}
	c := w[i]
	c19Words(w, i+1, append(cur, c), out)
	if c >= 'a' && c <= 'z' {
		c19Words(w, i+1, append(cur, c-32), out)
	}
}

func c19Enumerate(alpha []string, maxLen int, f func(string)) {
	var rec func(cur string, n int)
	rec = func(cur string, n int) {
		f(cur)
		if n == maxLen {
			return
		}
		for _, a := range alpha {
			rec(cur+a, n+1)
		}
	}
	rec("", 0)
}

func c19Corpus() []string {
	pow := func(e int64) *big.Int { return new(big.Int).Exp(big.NewInt(2), big.NewInt(e), nil) }
	bound := new(big.Int).Sub(pow(1024), pow(970)) // smallest integer ParseFloat overflows on
	bm1 := new(big.Int).Sub(bound, big.NewInt(1))
	maxf := new(big.Int).Sub(pow(1024), pow(971)) // MaxFloat64
	vals := []string{
		// F8 witnesses and relatives
		"NaN", "nan", "Inf", "+Inf", "-inf", "infinity", "-Infinity", "1e5", "1E5", "0x1p-2", "0x10", "1_0", "1e400", "0b1", "0o7",
		// int64 boundaries
		"9223372036854775807", "9223372036854775808", "-9223372036854775808", "-9223372036854775809", "+9223372036854775807",
		"+9223372036854775808", "09223372036854775807", "0000000000000000000009223372036854775808", "18446744073709551616",
		"-0", "+0", "00", "0", "-", "+", ".", "-.", "+.", "1.", ".1", "-1.", "-.1", "+1.5", "1.2.3", "1..2", "--1", "+-1", "1-", "1+",
		"1.0", "3.259", "25", "-16", " 1", "1 ", "1\n", "\t1", "１", "1,5",
		// float range
		bound.String(), bm1.String(), maxf.String(), "-" + bound.String(), "-" + bm1.String(), bm1.String() + ".99999", bound.String() + ".0",
		"0" + bound.String(), strings.Repeat("9", 308), strings.Repeat("9", 309), strings.Repeat("9", 310), strings.Repeat("9", 400),
		"1" + strings.Repeat("0", 308), "2" + strings.Repeat("0", 308), "0." + strings.Repeat("0", 400) + "1", "." + strings.Repeat("9", 500),
		strings.Repeat("0", 500) + "1", "4.9e-324", "0.000000000000000000000000000000000000000001",
		// constants
		"true", "false", "null", "True", "NULL", "nil", "true ", " null", "\"true\"", "'true'",
		// JSON strings
		`""`, `"`, `"a`, `a"`, `"a"`, `"a"b"`, `"a\"b"`, `"a\nb"`, `"é"`, `"😀"`, `"\ud83d"`, `"\ude00\ud83d"`, `"\ud83dx"`,
		`"\ud83dA"`, `"\ud83d😀"`, `"\u12"`, `"\u12G4"`, `"\x41"`, `"\'"`, `"\/"`, `"\\"`, `"\"`, `"\\\"`, "\"a\tb\"", "\"a\x00b\"",
		"\"a\x1fb\"", "\"\x7f\"", "\"é\"", "\"\xff\"", "\"\xc3\"", "\"\xe2\x82\"", "\"\xed\xa0\x80\"", "\"\xf4\x90\x80\x80\"", "\"\xc0\x80\"",
		"\"\xe2\x82\xac\"", "\"\xf0\x9f\x98\x80\"", `"a" `, ` "a"`, `"a"'`, `'"a"`, `"'"`, `'"'`, `"\u0000"`, `"𐀀"`, `"􏿿"`, `"￿"`,
		`"\b\f\r\t"`, `"\a"`, `"\U0041"`, `"\ud83d\n"`, `"\ud83d\uzzzz"`, `"\ud83d\u12"`,
		// base64
		`''`, `'`, `'a`, `a'`, `'aGVsbG8sIHdvcmxk'`, `'YQ=='`, `'YQ='`, `'YQ'`, `'YR'`, `'Y'`, `'YWI='`, `'YWI'`, `'YWJj'`, `'YWJjZA=='`, `'YWJjZA'`,
		`'=='`, `'='`, `'Y=Q='`, `'YQ==YQ=='`, `'YQ= ='`, `'Y Q'`, "'YQ\n=='", "'Y\nQ'", "'Y\rQ\r\n'", "'\n'", `'-_'`, `'+/'`, `'+/+/'`, `'a-b_'`, `'!'`,
		`'YQ==' `, ` 'YQ'`, `'YQ'"`, `'a'b'`, `'''`, `''''`, `'é'`, "'\xff'", `'AAAA'`, `'////'`, `'/w=='`, `'/x'`, `'AAA'`, `'AAB'`, `'AB'`, `'A'`, `'AAAAA'`,
		// literals
		"", "hello", "a b", "x=y", "a&b", "%41", "é", "\xff\xfe", "\x00", "+", "e", "x", "_", "1x", "x1",
	}
	return vals
}

func c19RandomValue(r *rng) string {
	digits := "0123456789"
	switch r.intn(8) {
	case 0, 1: // numerals and near-numerals
		var sb strings.Builder
		if r.chance(1, 2) {
			sb.WriteString(pick(r, []string{"+", "-", "-", "++", ""}))
		}
		n := 1 + r.intn(pick(r, []int{3, 10, 19, 21, 40, 320}))
		if r.chance(1, 6) {
			// hug the int64 boundary
			base := "922337203685477580"
			sb.WriteString(base)
			sb.WriteByte(digits[r.intn(10)])
			if r.chance(1, 3) {
				sb.WriteByte(digits[r.intn(10)])
			}
		} else {
			for i := 0; i < n; i++ {
				sb.WriteByte(digits[r.intn(10)])
			}
		}
		if r.chance(1, 3) {
			sb.WriteByte('.')
			for i, m := 0, r.intn(6); i < m; i++ {
				sb.WriteByte(digits[r.intn(10)])
			}
		}
		if r.chance(1, 8) {
			sb.WriteString(pick(r, []string{"e5", ".", "_0", "x", " ", "E-3", "p1", "f"}))
		}
		return sb.String()
	case 2, 3: // JSON strings with escapes
		var sb strings.Builder
		if !r.chance(1, 10) {
			sb.WriteByte('"')
		}
		for i, n := 0, r.intn(7); i < n; i++ {
			sb.WriteString(pick(r, []string{"a", "Z", " ", `\n`, `\"`, `\\`, `\/`, `A`, `é`, `\ud83d`, `\ude00`, `😀`, `\u12`, `\x`, `\`,
				`"`, "\n", "\x01", "é", "€", "\xf0\x9f\x98\x80", "\xff", "\xc3", "\xed\xa0\x80", "\xe2\x82", "'", `\uDFFF`, `\ud800`, `￾`, `\t`, `\b`, `\f`, `\r`, `\u`}))
		}
		if !r.chance(1, 10) {
			sb.WriteByte('"')
		}
		return sb.String()
	case 4, 5: // base64
		var sb strings.Builder
		if !r.chance(1, 10) {
			sb.WriteByte('\'')
		}
		al := "ABCDEFGHIJKLMNOPQRSTUVWXYZabcdefghijklmnopqrstuvwxyz0123456789+/"
		for i, n := 0, r.intn(10); i < n; i++ {
			if r.chance(1, 12) {
				sb.WriteString(pick(r, []string{"=", "\n", "\r", "-", "_", " ", "'", "\"", "é"}))
			} else {
				sb.WriteByte(al[r.intn(64)])
			}
		}
		for i, n := 0, r.intn(4); i < n && r.chance(1, 2); i++ {
			sb.WriteByte('=')
		}
		if !r.chance(1, 10) {
			sb.WriteByte('\'')
		}
		return sb.String()
	case 6: // words
		w := pick(r, []string{"true", "false", "null", "nan", "inf", "infinity"})
		b := []byte(w)
		for i := range b {
			if r.chance(1, 4) {
				b[i] -= 32
			}
		}
		return pick(r, []string{"", "", "", "+", "-", " "}) + string(b) + pick(r, []string{"", "", "", " ", "s"})
	default: // arbitrary bytes
		n := r.intn(6)
		b := make([]byte, n)
		for i := range b {
			b[i] = byte(r.intn(256))
		}
		return string(b)
	}
}

func c19EncodeQuery(r *rng, f []kv) string {
	var parts []string
	for _, e := range f {
		parts = append(parts, url.QueryEscape(e.k)+"="+url.QueryEscape(e.v))
	}
	return strings.Join(parts, "&")
}

func c19Main(cfg *config) {
	w := newCaseWriter(cfg.out)
	defer w.close()
	ex := &c19Exec{g: c19NewGetters()}
	defer ex.g.close()
	emit := func(fields ...string) { w.line(append(fields, ex.exec(fields))...) }
	if cfg.replay != "" {
		f, err := os.Open(cfg.replay)
		if err != nil {
			fatal("open replay: %v", err)
		}
		sc := bufio.NewScanner(f)
		sc.Buffer(make([]byte, 1<<20), 1<<26)
		for sc.Scan() {
			if sc.Text() != "" {
				emit(strings.Split(sc.Text(), "\t")...)
			}
		}
		return
	}
	r := newRng(cfg.seed)
	thorough := cfg.tier == "thorough"

	// 1. values: fixed corpus, words in every letter case with signs, exhaustive small family, random structured
	for _, v := range c19Corpus() {
		emit("V", hexf(v))
	}
	for _, wd := range []string{"inf", "nan", "infinity", "true", "false", "null"} {
		var vs []string
		c19Words(wd, 0, nil, &vs)
		for _, v := range vs {
			for _, sg := range []string{"", "+", "-"} {
				emit("V", hexf(sg+v))
			}
		}
	}
	maxLen := 4
	if thorough {
		maxLen = 5
	}
	c19Enumerate([]string{`"`, `'`, "+", "-", "0", "1", "9", ".", "e", "x", "_"}, maxLen, func(v string) { emit("V", hexf(v)) })
	nrand := 20000
	if thorough {
		nrand = 100000
	}
	for i := 0; i < nrand; i++ {
		emit("V", hexf(c19RandomValue(r)))
	}

	// 2. paths over {/, a, %2F, .}: inside a URL text (must start with "/" or be empty) and set directly
	plen := 5
	if thorough {
		plen = 7
	}
	c19Enumerate([]string{"/", "a", "%2F", "."}, plen, func(p string) {
		dec := strings.ReplaceAll(p, "%2F", "/")
		if p == "" || p[0] == '/' {
			emit("P", "u", hexf(p), hexf(dec))
		}
		if !strings.Contains(p, "%") {
			emit("P", "d", hexf(p), hexf(p))
		}
	})
	for _, p := range []string{"//", "/a b/", "/é/", "a", "/rpc.serverInfo", "/ /", "/a//b/", "\x00", "/\xff/"} {
		emit("P", "d", hexf(p), hexf(p))
	}

	// 3. whole requests
	keys := []string{"x", "y", "param1", "", "a b", "é", "k&", "=", "z"}
	mkForm := func() []kv {
		n := r.intn(4)
		perm := r.intn(len(keys))
		var f []kv
		for i := 0; i < n; i++ {
			v := c19RandomValue(r)
			if r.chance(1, 2) {
				v = pick(r, []string{"5", "-16", "3.259", "true", "null", `"s"`, `'YQ=='`, "xyzzy", "", "NaN", "1e5", `"bad`, `'bad`, `'Y'`, "false"})
			}
			f = append(f, kv{keys[(perm+i)%len(keys)], v})
		}
		return f
	}
	paths := []string{"/m", "/some/method", "m", "//m//", "/", "", "///", "/a/ok", "/ok"}
	nq := 5000
	if thorough {
		nq = 30000
	}
	for _, q := range []string{"x=%zz", "x=1;y=2", "%", "x=1&y=%", "x=%41", "x", "x&y", "=1", "&&", "x=1&&y=2"} {
		// raw queries written by hand: which of them make ParseForm fail is net/url's business; the
		// expected decoded form is given here explicitly
		form := map[string]string{"x=%zz": "!", "x=1;y=2": "!", "%": "!", "x=1&y=%": "!", "x=%41": "78=41", "x": "78=-", "x&y": "78=-;79=-",
			"=1": "-=31", "&&": "-", "x=1&&y=2": "78=31;79=32"}[q]
		emit("Q", hexf("/m"), hexf(q), form)
	}
	for i := 0; i < nq; i++ {
		f := mkForm()
		emit("Q", hexf(pick(r, paths)), hexf(c19EncodeQuery(r, f)), c19FormField(f, false))
	}

	// 4. Getter
	gm := []string{"/ok", "/a/ok", "//ok/", "/inv", "/plain", "/nf", "/custom", "/data", "/nosuch", "/rpc.serverInfo", "/", "", "/rpc.nosuch"}
	ng := 1500
	if thorough {
		ng = 8000
	}
	for _, p := range gm {
		for _, parser := range []string{"q", "b"} {
			emit("G", parser, hexf(p), "-", "-", "live")
			emit("G", parser, hexf(p), hexf("x=5"), "78=35", "live")
		}
	}
	emit("G", "q", hexf("/ok"), hexf("x=NaN"), "78=4e614e", "live")
	emit("G", "q", hexf("/ok"), hexf("x=Inf"), "78=496e66", "live")
	emit("G", "q", hexf("/ok"), hexf("x=%22bad"), "78=22626164", "live")
	emit("G", "q", hexf("/ok"), hexf("x=%zz"), "!", "live")
	emit("G", "b", hexf("/ok"), hexf("x=%zz"), "!", "live")
	emit("G", "q", hexf("/block"), "-", "-", "cancel")
	emit("G", "b", hexf("/block"), hexf("x=1"), "78=31", "cancel")
	emit("G", "q", hexf("/ok"), "-", "-", "closed")
	emit("G", "q", hexf("/nosuch"), hexf("x=1"), "78=31", "closed")
	emit("G", "q", hexf("/"), "-", "-", "closed")
	for i := 0; i < ng; i++ {
		f := mkForm()
		emit("G", pick(r, []string{"q", "q", "b"}), hexf(pick(r, gm)), hexf(c19EncodeQuery(r, f)), c19FormField(f, false), "live")
	}
}
