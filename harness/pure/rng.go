package main

// splitmix64: every random choice of a run derives from one state seeded by VERIF_SEED.
type rng struct{ s uint64 }

// The seed is hashed into the initial state (a state that is linear in the seed would make the
// streams of consecutive seeds shifted copies of each other).
func newRng(seed uint64) *rng {
	z := seed*0x9e3779b97f4a7c15 + 0x1234567
	z = (z ^ (z >> 30)) * 0xbf58476d1ce4e5b9
	z = (z ^ (z >> 27)) * 0x94d049bb133111eb
	return &rng{s: z ^ (z >> 31)}
}

func (r *rng) next() uint64 {
	r.s += 0x9e3779b97f4a7c15
	z := r.s
	z = (z ^ (z >> 30)) * 0xbf58476d1ce4e5b9
	z = (z ^ (z >> 27)) * 0x94d049bb133111eb
	return z ^ (z >> 31)
}

func (r *rng) intn(n int) int {
	if n <= 0 {
		return 0
	}
	return int(r.next() % uint64(n))
}

func (r *rng) chance(num, den int) bool { return r.intn(den) < num }

func pick[T any](r *rng, xs []T) T { return xs[r.intn(len(xs))] }
