package main

// C15: handler.Check / FuncInfo.Wrap.  Function values are GENERATED from type
// descriptors (reflect.FuncOf + reflect.MakeFunc; the generated function records
// its arguments at the moment it is called), handed to handler.Check, wrapped
// under every option setting and called with generated params.
//
// Lines (tab separated; the last field is the observation):
//
//	K  <fn>                                              <obs>
//	W  <fn> <opts> <ret> <hex raw params> <view> <oracle> <obs>
//
// Input fields (what -replay needs): K fn / W fn opts ret raw.  <view> is the
// structure of the params text, <oracle> the answers of encoding/json applied
// directly to the declared parameter type (plain / DisallowUnknownFields) for
// the params as they are and for their documented array-to-object translation;
// both are derived from the input fields and handed to the model runner as data.
//
//	opts  two letters, SetStrict and AllowArray: u = not called, t = true, f = false
//	ret   0: the function returns a nil error, 1: a non-nil error
//	obs   ok:<has arg>:<has result>:<reports error> | err:<class>            (K)
//	      C<n>:<args of the first call>|<result>|<error>   called n times
//	      I   not called, error code InvalidParams;  E:<code> other error;  X:<hex> panic

import (
	"context"
	"errors"
	"fmt"
	"reflect"
	"strings"
	"sync"

	"github.com/creachadair/jrpc2"
	"github.com/creachadair/jrpc2/handler"
)

func init() { commands["c15"] = runC15 }

type recorder struct {
	mu    sync.Mutex
	calls [][]string         // calls made without a call id in the context (single / sequence)
	byID  map[int][][]string // concurrent cases: calls by the id carried in the context
	req   *jrpc2.Request
	res   reflect.Value // the sample result the function returns
	err   error         // the error the function returns (nil or errPlanned)
}

var errPlanned = &jrpc2.Error{Code: 4242, Message: "planned"}

// busyErr: an error VALUE that is a nil pointer of a concrete type (a sentinel such as
// `var ErrBusy error = (*busyErr)(nil)`): non-nil as an error, and to be handed on unchanged.
type busyErr struct{ why string }

func (b *busyErr) Error() string {
	if b == nil {
		return "busy"
	}
	return b.why
}

var errNilPointer error = (*busyErr)(nil)

// plannedFlip: every third function that returns an error returns the nil-pointer sentinel.
var plannedFlip int

func sampleResult(t reflect.Type) reflect.Value {
	v := reflect.New(t).Elem()
	switch t.Kind() {
	case reflect.Bool:
		v.SetBool(true)
	case reflect.Int:
		v.SetInt(7)
	case reflect.Float64:
		v.SetFloat(1.5)
	case reflect.String:
		v.SetString("r")
	case reflect.Interface:
		if t == hErrType {
			v.Set(reflect.ValueOf(errors.New("res")))
		} else if t == hAnyType {
			v.Set(reflect.ValueOf("r"))
		} else if t == hCtxType {
			v.Set(reflect.ValueOf(context.Background()))
		}
	case reflect.Ptr:
		v.Set(reflect.New(t.Elem()))
	case reflect.Slice:
		v.Set(reflect.MakeSlice(t, 1, 1))
	}
	return v
}

// makeFn builds the value handed to Check / Positional.  May panic when reflect
// cannot make the type (the caller skips the descriptor then).
func makeFn(fd *fndesc, rec *recorder, retErr bool) any {
	switch fd.kind {
	case 'N':
		return nil
	case 'V':
		return reflect.Zero(buildType(fd.val)).Interface()
	}
	ins := make([]reflect.Type, len(fd.ins))
	for i, t := range fd.ins {
		ins[i] = buildType(t)
	}
	outs := make([]reflect.Type, len(fd.outs))
	for i, t := range fd.outs {
		outs[i] = buildType(t)
	}
	ft := reflect.FuncOf(ins, outs, fd.variadic)
	if retErr {
		rec.err = errPlanned
		if plannedFlip++; plannedFlip%3 == 0 {
			rec.err = errNilPointer
		}
	}
	rets := make([]reflect.Value, len(outs))
	for i, t := range outs {
		last := i == len(outs)-1
		if t == hErrType && (last || i > 0) {
			rets[i] = reflect.Zero(t)
			if retErr {
				rets[i] = reflect.ValueOf(&rec.err).Elem()
			}
		} else {
			rets[i] = sampleResult(t)
			if i == 0 {
				rec.res = rets[i]
			}
		}
	}
	return reflect.MakeFunc(ft, func(args []reflect.Value) []reflect.Value {
		var enc []string
		for i, a := range args {
			if i == 0 && a.Type() == hCtxType {
				continue
			}
			if a.Type() == hReqType {
				if a.Interface().(*jrpc2.Request) == rec.req {
					enc = append(enc, "REQ")
					continue
				}
			}
			enc = append(enc, hexf(encValue(a)))
		}
		id := -1
		if len(args) > 0 && args[0].Type() == hCtxType && !args[0].IsNil() {
			if v, ok := args[0].Interface().(context.Context).Value(callKey{}).(int); ok {
				id = v
			}
		}
		if id >= 0 {
			rec.mu.Lock()
			rec.byID[id] = append(rec.byID[id], enc)
			rec.mu.Unlock()
		} else {
			rec.calls = append(rec.calls, enc)
		}
		return rets
	}).Interface()
}

func (rec *recorder) take(id int) [][]string {
	rec.mu.Lock()
	defer rec.mu.Unlock()
	c := rec.byID[id]
	delete(rec.byID, id)
	return c
}

func (rec *recorder) observe(res any, herr error) string { return observeCalls(rec.calls, rec, res, herr) }

func observeCalls(calls [][]string, rec *recorder, res any, herr error) string {
	if len(calls) == 0 {
		if herr == nil {
			return "NOCALL-NOERROR"
		}
		code := jrpc2.ErrorCode(herr)
		if code == jrpc2.InvalidParams {
			return "I"
		}
		return fmt.Sprintf("E:%d", int(code))
	}
	r := "nil"
	if res != nil {
		if rec.res.IsValid() && rec.res.CanInterface() && reflect.DeepEqual(res, rec.res.Interface()) {
			r = "Y"
		} else {
			r = "?" + hexf(fmt.Sprintf("%v", res))
		}
	}
	e := "none"
	if herr != nil {
		if herr == rec.err {
			e = "same"
		} else {
			e = fmt.Sprintf("other%d", int(jrpc2.ErrorCode(herr)))
		}
	}
	return fmt.Sprintf("C%d:%s|%s|%s", len(calls), strings.Join(calls[0], ","), r, e)
}

func classifyCheckErr(err error) string {
	m := err.Error()
	switch {
	case m == "nil function":
		return "nil"
	case m == "not a function":
		return "notfunc"
	case m == "wrong number of parameters":
		return "nparams"
	case m == "first parameter is not context.Context":
		return "ctx"
	case m == "variadic functions are not supported":
		return "variadic"
	case m == "wrong number of results":
		return "nresults"
	case m == "result is not of type error":
		return "noterror"
	case strings.HasPrefix(m, "got ") && strings.Contains(m, " names for "):
		var a, b int
		fmt.Sscanf(m, "got %d names for %d inputs", &a, &b)
		return fmt.Sprintf("names:%d:%d", a, b)
	}
	return "other:" + hexf(m)
}

func mkRequest(raw string) *jrpc2.Request {
	var p []byte
	if raw != "" {
		p = []byte(raw)
	}
	return (&jrpc2.ParsedRequest{ID: "1", Method: "m", Params: p}).ToRequest()
}

func infoObs(fi *handler.FuncInfo, ft reflect.Type) string {
	b := func(x bool) string {
		if x {
			return "1"
		}
		return "0"
	}
	argOK := fi.Argument == nil || (ft.NumIn() == 2 && fi.Argument == ft.In(1))
	resOK := fi.Result == nil || fi.Result == ft.Out(0)
	if !argOK || !resOK || fi.Type != ft {
		return "ok:wrong-types"
	}
	return "ok:" + b(fi.Argument != nil) + ":" + b(fi.Result != nil) + ":" + b(fi.ReportsError)
}

func c15K(w *caseWriter, fnS string) bool {
	fd := parseFn(fnS)
	rec := &recorder{}
	var fnv any
	if p := guard(func() { fnv = makeFn(fd, rec, false) }); p != "" {
		return false
	}
	obs := ""
	okc := false
	if p := guard(func() {
		fi, err := handler.Check(fnv)
		if err != nil {
			obs = "err:" + classifyCheckErr(err)
			return
		}
		okc = true
		obs = infoObs(fi, reflect.TypeOf(fnv))
	}); p != "" {
		obs = "X:" + hexf(p)
	}
	w.line("K", fnS, obs)
	return okc
}

// c15Oracle: the answers of encoding/json for the declared parameter type.
func c15Oracle(arg *tnode, view pview, raw string, withFields bool) string {
	T := buildType(arg.pointee())
	var ents []string
	z := reflect.New(T)
	ents = append(ents, "z|"+ansOf(z, true, withFields))
	if view.kind != 'A' {
		for _, s := range []bool{false, true} {
			pv, ok := oracleDecode(T, s, raw)
			ents = append(ents, fmt.Sprintf("d|%d|%s|%s", b2i(s), view.String(), ansOf(pv, ok, withFields)))
		}
	}
	return strings.Join(ents, "&")
}

func b2i(b bool) int {
	if b {
		return 1
	}
	return 0
}

func translatedOracle(T reflect.Type, names []string, view pview, withFields bool) []string {
	if view.kind != 'R' || len(view.elts) != len(names) || len(names) == 0 {
		return nil
	}
	tv := arrayAsObject(names, view.elts)
	var ents []string
	for _, s := range []bool{false, true} {
		pv, ok := oracleDecode(T, s, tv.text())
		ents = append(ents, fmt.Sprintf("d|%d|%s|%s", b2i(s), tv.String(), ansOf(pv, ok, withFields)))
	}
	return ents
}

func applyOpts(fi *handler.FuncInfo, opts string) {
	switch opts[0] {
	case 't':
		fi.SetStrict(true)
	case 'f':
		fi.SetStrict(false)
	}
	switch opts[1] {
	case 't':
		fi.AllowArray(true)
	case 'f':
		fi.AllowArray(false)
	}
}

func c15Case(fnS, opts, ret string) *hcase {
	fd := parseFn(fnS)
	return &hcase{
		kind: "W", in: []string{fnS, opts, ret},
		mk: func(rec *recorder) any { return makeFn(fd, rec, ret == "1") },
		wrap: func(fnv any) (jrpc2.Handler, string) {
			fi, err := handler.Check(fnv)
			if err != nil {
				return nil, "err:" + classifyCheckErr(err)
			}
			// settings may be changed any number of times before Wrap: the last one counts
			preStrict := map[byte]byte{'u': 'u', 't': 'f', 'f': 't'}
			preArray := map[byte]byte{'u': 'u', 't': 'f', 'f': 't'}
			applyOpts(fi, string([]byte{preStrict[opts[0]], preArray[opts[1]]}))
			applyOpts(fi, opts)
			h := fi.Wrap()
			// the handler is fixed by the settings at the time of Wrap: changing them on the same FuncInfo
			// afterwards (and wrapping again) must not affect it
			invStrict := map[byte]byte{'u': 't', 't': 'f', 'f': 't'} // default: not strict
			invArray := map[byte]byte{'u': 'f', 't': 'f', 'f': 't'}  // default: arrays allowed
			applyOpts(fi, string([]byte{invStrict[opts[0]], invArray[opts[1]]}))
			_ = fi.Wrap()
			return h, ""
		},
		oracle: func(view pview, raw string) string {
			if !(fd.kind == 'F' && len(fd.ins) == 2 && !(fd.ins[1].k == 'P' && fd.ins[1].elem.k == 'q')) {
				return "-"
			}
			arg := fd.ins[1]
			oracle := c15Oracle(arg, view, raw, false)
			if ok, names, _ := docFields(arg); ok {
				if ents := translatedOracle(buildType(arg.pointee()), names, view, false); ents != nil {
					oracle += "&" + strings.Join(ents, "&")
				}
			}
			return oracle
		},
	}
}

func c15W(w *caseWriter, fnS, opts, ret, rawhex string) { c15Case(fnS, opts, ret).single(w, rawhex) }

// seqGroups replays Ws / Ps lines: consecutive lines of one group go to one handler.
func seqGroups(lines [][]string, nin int, mk func(in []string) *hcase, w *caseWriter) {
	for i := 0; i < len(lines); {
		gid := strings.SplitN(lines[i][1], ".", 2)[0]
		j := i
		var raws []string
		for j < len(lines) && strings.SplitN(lines[j][1], ".", 2)[0] == gid {
			raws = append(raws, lines[j][2+nin])
			j++
		}
		var g int
		fmt.Sscanf(gid, "%d", &g)
		mk(lines[i][2:2+nin]).sequence(w, g, raws)
		i = j
	}
}

func atoi(s string) int {
	var n int
	fmt.Sscanf(s, "%d", &n)
	return n
}

// ---- generators ---------------------------------------------------------------

var fieldPool = []string{"A", "B", "Cc", "D1", "Ee", "F", "Gg", "H"}

func genScalar(r *rng) *tnode { return &tnode{k: pick(r, []byte{'b', 'i', 'f', 's'})} }

func genType(r *rng, depth int) *tnode {
	c := r.intn(20)
	if depth >= 2 && c >= 8 {
		c = r.intn(8)
	}
	switch {
	case c < 6:
		return genScalar(r)
	case c < 7:
		return &tnode{k: 'a'}
	case c < 8:
		return registry[r.intn(len(registry))].node
	case c < 10:
		return &tnode{k: 'L', elem: genType(r, depth+1)}
	case c < 11:
		return &tnode{k: 'M', elem: genType(r, depth+1)}
	case c < 13:
		return &tnode{k: 'P', elem: genType(r, depth+1)}
	case c < 14:
		return &tnode{k: 'Y', n: 1 + r.intn(3), elem: genScalar(r)}
	case c < 15:
		return &tnode{k: 'o', n: r.intn(len(hOpaque))}
	default:
		return genStruct(r, depth+1)
	}
}

func genStruct(r *rng, depth int) *tnode {
	n := r.intn(5)
	t := &tnode{k: 'S'}
	perm := append([]string(nil), fieldPool...)
	for i := len(perm) - 1; i > 0; i-- {
		j := r.intn(i + 1)
		perm[i], perm[j] = perm[j], perm[i]
	}
	usedEmb := false
	for i := 0; i < n; i++ {
		f := fnode{name: perm[i], exported: true}
		switch c := r.intn(12); {
		case c < 1: // unexported
			f.name = strings.ToLower(f.name) + "u"
			f.exported = false
		case c < 2 && !usedEmb: // embedded declared struct
			usedEmb = true
			f.name = "PlainEmb"
			f.embedded = true
			f.t = registry[0].node
		}
		if f.t == nil {
			if depth < 2 && r.chance(1, 5) {
				f.t = genType(r, depth+1)
			} else {
				f.t = genScalar(r)
			}
		}
		lname := strings.ToLower(f.name)
		switch c := r.intn(14); {
		case c < 4: // no tag
		case c < 7:
			f.hasTag, f.tag = true, lname
		case c < 9:
			f.hasTag, f.tag = true, lname+",omitempty"
		case c < 10:
			f.hasTag, f.tag = true, "-"
		case c < 11:
			f.hasTag, f.tag = true, ",omitempty"
		case c < 12:
			f.hasTag, f.tag = true, "-,"
		case c < 13:
			f.hasTag, f.tag = true, ""
		default: // a tag that collides with another field's name
			f.hasTag, f.tag = true, pick(r, fieldPool)
		}
		t.fields = append(t.fields, f)
	}
	return t
}

// genArg: parameter types, biased towards structs and pointers to structs.
func genArg(r *rng) *tnode {
	switch c := r.intn(20); {
	case c < 7:
		return genStruct(r, 0)
	case c < 11:
		return &tnode{k: 'P', elem: genStruct(r, 0)}
	case c < 15:
		t := registry[r.intn(len(registry))].node
		if r.chance(1, 2) {
			return &tnode{k: 'P', elem: t}
		}
		return t
	case c < 16:
		return &tnode{k: 'P', elem: &tnode{k: 'P', elem: genStruct(r, 0)}}
	default:
		return genType(r, 0)
	}
}

func genOuts(r *rng) []*tnode {
	e := &tnode{k: 'e'}
	if r.chance(1, 12) {
		// result types that implement error without being the interface type error
		es := registry[registryIndex[reflect.TypeOf(ErrStruct{})]].node
		pe := &tnode{k: 'P', elem: es}
		et := registry[registryIndex[reflect.TypeOf(ErrString(""))]].node
		switch r.intn(6) {
		case 0:
			return []*tnode{pe}
		case 1:
			return []*tnode{et}
		case 2:
			return []*tnode{genType(r, 1), pe}
		case 3:
			return []*tnode{genType(r, 1), et}
		case 4:
			return []*tnode{pe, e}
		default:
			return []*tnode{et, e}
		}
	}
	switch c := r.intn(20); {
	case c < 5:
		return []*tnode{e}
	case c < 10:
		return []*tnode{genType(r, 1)}
	case c < 16:
		return []*tnode{genType(r, 1), e}
	case c < 17:
		return nil
	case c < 18:
		return []*tnode{genType(r, 1), genScalar(r)}
	case c < 19:
		return []*tnode{e, e}
	default:
		return []*tnode{genType(r, 1), e, e}
	}
}

func genFn(r *rng) *fndesc {
	ctx := &tnode{k: 'c'}
	fd := &fndesc{kind: 'F', outs: genOuts(r)}
	switch c := r.intn(40); {
	case c < 1:
		return &fndesc{kind: 'N'}
	case c < 3:
		return &fndesc{kind: 'V', val: pick(r, []*tnode{{k: 'i'}, {k: 's'}, {k: 'S'}, {k: 'L', elem: &tnode{k: 'i'}}, {k: 'P', elem: &tnode{k: 'i'}}})}
	case c < 4:
		fd.ins = nil
	case c < 9:
		fd.ins = []*tnode{ctx}
	case c < 11:
		fd.ins = []*tnode{ctx, {k: 'P', elem: &tnode{k: 'q'}}}
	case c < 12:
		fd.ins = []*tnode{genArg(r)}
	case c < 13:
		fd.ins = []*tnode{genArg(r), ctx}
	case c < 14:
		fd.ins = []*tnode{ctx, genArg(r), genScalar(r)}
	case c < 15:
		fd.ins = []*tnode{ctx, {k: 'L', elem: genScalar(r)}}
		fd.variadic = true
	case c < 16:
		fd.ins = []*tnode{ctx, {k: 'q'}}
	default:
		fd.ins = []*tnode{ctx, genArg(r)}
	}
	return fd
}

// paramsFor: params texts aimed at one parameter type.
func paramsFor(r *rng, arg *tnode, tier string) []string {
	out := []string{"", "null", "{}", "[]", "17", `"x"`, "true", `{"zzz":1}`}
	isStruct, names, types := docFields(arg)
	if isStruct {
		n := len(names)
		obj := func(keys []string, val func(i int) string) string {
			parts := make([]string, len(keys))
			for i, k := range keys {
				parts[i] = quoteKey(k) + ":" + val(i)
			}
			return "{" + strings.Join(parts, ",") + "}"
		}
		good := func(i int) string { return sampleJSON(r, types[i], 0, 1) }
		out = append(out, obj(names, good))
		if n > 0 {
			out = append(out, obj(names[:n-1], good))
			k := r.intn(n)
			out = append(out, obj(names[k:k+1], good))
			out = append(out, obj(names, func(i int) string {
				if i == k {
					return sampleJSON(r, types[i], 1, 1)
				}
				return good(i)
			}))
			out = append(out, obj(names, func(i int) string { return "null" }))
			cv := make([]string, n)
			for i, nm := range names {
				cv[i] = caseVariant(nm)
			}
			out = append(out, obj(cv, good))
			out = append(out, obj(append(append([]string{}, names...), names[k]), func(i int) string { return good(i % n) }))
		}
		out = append(out, obj(append(append([]string{}, names...), "zzz"), func(i int) string {
			if i < n {
				return good(i)
			}
			return "2"
		}))
		out = append(out, `{"zzz":{"deep":[1,2]},"Yyy":null}`)
		// arrays of every length 0 .. n+2
		for l := 0; l <= n+2; l++ {
			es := make([]string, l)
			for i := range es {
				if i < n {
					es[i] = good(i)
				} else {
					es[i] = pick(r, []string{"1", `"s"`, "null"})
				}
			}
			out = append(out, "["+strings.Join(es, ",")+"]")
		}
		if n > 0 {
			k := r.intn(n)
			es := make([]string, n)
			for i := range es {
				es[i] = good(i)
			}
			es[k] = sampleJSON(r, types[k], 1, 1)
			out = append(out, "["+strings.Join(es, ",")+"]")
			for i := range es {
				es[i] = "null"
			}
			out = append(out, " [ "+strings.Join(es, " , ")+" ] ")
			for i := range es {
				es[i] = good(i)
			}
			out = append(out, "\n["+strings.Join(es, ",")+"]")
			// a rotation: elements of the right types in the wrong positions
			if n > 1 {
				rot := append(append([]string{}, es[1:]...), es[0])
				out = append(out, "["+strings.Join(rot, ",")+"]")
			}
		}
	} else {
		for i := 0; i < 3; i++ {
			out = append(out, sampleJSON(r, arg, 0, 0))
		}
		out = append(out, sampleJSON(r, arg, 1, 0), "[1,2]", `["a"]`, `{"k":1}`, `{"k":"v"}`, "[[1]]", "1.5")
	}
	// a separate malformed stream
	out = append(out, pick(r, []string{"{", "[1,", `{"a":1} x`, "nul", "[1] [2]", `{"a":}`, "\x00"}))
	if tier == "thorough" {
		out = append(out, "{", "[1,", `{"a":1} x`, "nul", "[1] [2]")
	}
	return out
}

var c15Corpus = []string{
	// the documented schemes
	"F0(c,)(e,)", "F0(c,)(i,)", "F0(c,)(i,e,)", "F0(c,s,)(e,)", "F0(c,Li,)(s,)", "F0(c,PS{41:61:x:i;},)(s,e,)",
	"F0(c,Pq,)(e,)", "F0(c,Pq,)(i,)", "F0(c,Pq,)(i,e,)", "F0(c,Pq,)(a,e,)",
	// not documented
	"NIL", "Vi", "VS{}", "F0()(e,)", "F0(i,)(e,)", "F0(c,i,i,)(e,)", "F1(c,Li,)(e,)", "F0(c,i,)()", "F0(c,i,)(i,i,)",
	"F0(c,i,)(i,e,e,)", "F0(c,i,)(e,e,)", "F0(c,q,)(e,)", "F0(Pq,c,)(e,)", "F0(c,c,)(e,)", "F0(c,e,)(e,)",
}

func regNode(v any) *tnode { return registry[registryIndex[reflect.TypeOf(v)]].node }

func runC15(cfg *config) {
	w := newCaseWriter(cfg.out)
	progressPath = cfg.out + ".progress"
	clearProgress()
	defer w.close()
	if cfg.replay != "" {
		var seq [][]string
		for _, l := range readLines(cfg.replay) {
			f := strings.Split(l, "\t")
			switch {
			case f[0] == "K" && len(f) >= 2:
				c15K(w, f[1])
			case f[0] == "W" && len(f) >= 5:
				c15W(w, f[1], f[2], f[3], f[4])
			case f[0] == "Ws" && len(f) >= 6:
				seq = append(seq, f)
			case f[0] == "Wc" && len(f) >= 8:
				c15Case(f[1], f[2], f[3]).concurrent(w, atoi(f[4]), atoi(f[5]), atoi(f[6]), strings.Split(f[7], ","))
			}
		}
		seqGroups(seq, 3, func(in []string) *hcase { return c15Case(in[0], in[1], in[2]) }, w)
		return
	}
	r := seedRng(cfg.seed)
	nfn := 600
	if cfg.tier == "thorough" {
		nfn = 2200
	}
	var fns []*fndesc
	for _, s := range c15Corpus {
		fns = append(fns, parseFn(s))
	}
	// every declared type as a value and as a pointer parameter (the F12 family first)
	ctx, e := &tnode{k: 'c'}, &tnode{k: 'e'}
	for _, re := range registry {
		fns = append(fns, &fndesc{kind: 'F', ins: []*tnode{ctx, re.node}, outs: []*tnode{e}})
		fns = append(fns, &fndesc{kind: 'F', ins: []*tnode{ctx, {k: 'P', elem: re.node}}, outs: []*tnode{{k: 'i'}, e}})
	}
	for len(fns) < nfn {
		fns = append(fns, genFn(r))
	}
	allOpts := []string{"uu", "tu", "uf", "tf", "ft", "ut", "ff", "tt", "fu"}
	for _, fd := range fns {
		fnS := fd.String()
		if !c15K(w, fnS) {
			continue
		}
		var ps []string
		if len(fd.ins) == 2 {
			ps = paramsFor(r, fd.ins[1], cfg.tier)
		} else {
			ps = []string{"", "null", "{}", "[]", "[1]", `{"a":1}`, "0", `""`, "{", " "}
		}
		for _, p := range ps {
			nopt := 4
			if cfg.tier == "thorough" {
				nopt = len(allOpts)
			}
			for i := 0; i < nopt; i++ {
				o := allOpts[i]
				if cfg.tier != "thorough" && i >= 2 && r.chance(1, 4) {
					o = allOpts[4+r.intn(5)]
				}
				c15W(w, fnS, o, fmt.Sprint(r.intn(2)), hexf(p))
			}
		}
	}
	// ---- one handler value, many requests: in sequence and concurrently ----
	gid := 0
	nconc := 0
	maxConc := 70
	iters := 250
	if cfg.tier == "thorough" {
		maxConc, iters = 400, 600
	}
	procsCycle := []int{16, 4, 8, 2, 1, 12}
	paths := []string{"uu", "tu", "uf", "tf"}
	for fi, fd := range fns {
		if fd.kind != 'F' || len(fd.ins) != 2 || fd.variadic || (fd.ins[1].k == 'P' && fd.ins[1].elem.k == 'q') {
			continue
		}
		fnS := fd.String()
		arg := fd.ins[1]
		isStruct, names, types := docFields(arg)
		if !isStruct {
			names, types = nil, nil
		}
		for _, opts := range paths {
			if cfg.tier != "thorough" && !r.chance(1, 2) {
				continue
			}
			hc := c15Case(fnS, opts, fmt.Sprint(r.intn(2)))
			if isStruct {
				for _, s := range stateProbes(r, names, types, opts[1] != 'f') {
					hc.sequence(w, gid, hexAll(s))
					gid++
				}
			}
			ps := paramsFor(r, arg, "quick")
			var s []string
			for c := 0; c < 6; c++ {
				s = append(s, pick(r, ps))
			}
			hc.sequence(w, gid, hexAll(s))
			gid++
		}
		// concurrency: every wrapper path (plain, strict, array, strict+array) of this function
		if nconc < maxConc && (fi < len(c15Corpus)+2*len(registry) || r.chance(1, 4)) {
			for pi, opts := range paths {
				texts := concTexts(names, types, isStruct && opts[1] != 'f', arg.pointee(), 12)
				c15Case(fnS, opts, "0").concurrent(w, 8, iters, procsCycle[(nconc+pi)%len(procsCycle)], hexAll(texts))
			}
			nconc++
		}
	}
}
