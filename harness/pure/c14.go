package main

// C14: errors keep their code, message and data from handler to caller.
//
// The harness interprets an error-term text (the same grammar the Coq model
// coq/errs/Errs.v is defined on) into a REAL Go error value, returns it from a
// handler through a real jrpc2 server + client pair (channel.Direct) and records
// what Client.Call returns.  Case lines (tab separated, last field = observation):
//
//   E <term>                    -> <ErrorCode(err)>|<hex Error() or nil>|<kind>|<ErrorCode(call err)>|<hex msg>|<hex data>|<jsoneq>
//                                  jsoneq: for a top-level *Error that arrived as a *Error, 1/0 = its Data is / is not
//                                  JSON-equal (encoding/json decode, DeepEqual) to the Data sent; when the Data sent is
//                                  not JSON (it cannot be encoded; fix F16: the error is sent without it), d/0 = the
//                                  error arrived without / with data; "-" otherwise
//   R <rkind> <rarg> <term>     -> <kind>|<code>|<hex msg>|<hex data>      handler returns (value, err(term))
//   N <rkind> <rarg> <term>     -> none | <code>|<hex msg>|<hex data>      same, sent as a notification
//   K <mode> <rkind> <rarg> <term> -> <kind>|<code>|<hex msg>|<hex data>   as R, but the handler returns only after the
//                                  server-side context of its own request is done.  mode: self = the handler calls
//                                  Server.CancelRequest(req.ID()) itself; helper = a goroutine does and the handler waits
//                                  for ctx.Done(); base = the context supplied by ServerOptions.NewContext is cancelled;
//                                  deadline = that context has a deadline and the handler waits until it has passed;
//                                  live = nothing is done (the same server, control).  "E?ctx:..." = the handler did not
//                                  find its context in the state the mode asks for
//   B <rkind> <rarg> <term> [<rkind> <rarg> <term>]...
//                               -> <reply>/<reply>/...   one Client.Batch with one call per triple (the handler of call i
//                                  returns (value i, err(term i))); reply = <kind>|<code>|<hex msg>|<hex data> as it is on
//                                  the wire (Batch does not turn the context codes into the sentinels): kind R, J or L.
//                                  Every call of a batch must get the reply it would get alone (finding F17: a *Error
//                                  whose Data is not JSON used to silence the whole batch)
//   C <int32>                   -> <ErrorCode(Code(c).Err())>|<hex text or nil>
//   W <recv> <code> <hexmsg> <hexdata> <vkind> <varg>
//                               -> crash | retnil|<unchanged> | <same>|<unchanged>|<code>|<hex msg>|<hex data>
//   G <hexraw>                  -> hex of json.Marshal(json.RawMessage(raw)) | invalid
//   S <hexstr>                  -> hex of the string after json.Marshal + json.Unmarshal
//
//   kind: J = *jrpc2.Error, C = the context.Canceled sentinel, D = the
//         context.DeadlineExceeded sentinel, R = no error (msg "-", data = result),
//         L = no reply (the call's own deadline expired; never expected: fix F16), O = any other error
//
//   term ::= J(code,hexmsg,hexdata)    &jrpc2.Error{...}
//          | V(code,hexmsg,hexdata)    jrpc2.Error{...} (a value, not a pointer)
//          | F(code,hexmsg)            jrpc2.Errorf(code, "%s", msg)
//          | C(code)                   jrpc2.Code(code).Err()
//          | K<v>(code,hexmsg)         custom ErrCoder type, v = 0..4 (receiver kinds)
//          | X | D                     context.Canceled | context.DeadlineExceeded
//          | P(hexmsg)                 errors.New(msg)
//          | W(hexmsg,term)            fmt.Errorf("%s: %w", msg, err)
//          | L[term;term;...;]         errors.Join(...)
//   rkind/rarg: ok -        the handler's value is true
//               r  hexraw   the value is json.RawMessage(raw)
//               u  label:hextext   a value encoding/json rejects; hextext = the text of json.Marshal's error
//               m  hexprefix:term  a json.Marshaler whose MarshalJSON fails with err(term)

import (
	"bufio"
	"context"
	"encoding/json"
	"errors"
	"fmt"
	"math"
	"os"
	"reflect"
	"strconv"
	"strings"
	"time"
	"unsafe"

	"github.com/creachadair/jrpc2"
	"github.com/creachadair/jrpc2/channel"
	"github.com/creachadair/jrpc2/handler"
)

func init() { commands["c14"] = c14Main }

// ---- custom ErrCoder types ------------------------------------------------------

type c14ValCoder struct {
	c jrpc2.Code
	m string
}

func (v c14ValCoder) Error() string       { return v.m }
func (v c14ValCoder) ErrCode() jrpc2.Code { return v.c }

type c14PtrCoder struct {
	c jrpc2.Code
	m string
}

func (v *c14PtrCoder) Error() string       { return v.m }
func (v *c14PtrCoder) ErrCode() jrpc2.Code { return v.c }

// Error on the value receiver, ErrCode on the pointer receiver: a value of this
// type is an error but not an ErrCoder, a pointer to it is both.
type c14MixCoder struct {
	c jrpc2.Code
	m string
}

func (v c14MixCoder) Error() string        { return v.m }
func (v *c14MixCoder) ErrCode() jrpc2.Code { return v.c }

// ---- terms ------------------------------------------------------------------------

type c14Term struct {
	kind byte // J V F C K X D P W L
	k    int  // coder variant for K
	code int32
	msg  string
	data string
	sub  *c14Term
	list []*c14Term
}

func (t *c14Term) write(sb *strings.Builder) {
	switch t.kind {
	case 'J', 'V':
		fmt.Fprintf(sb, "%c(%d,%s,%s)", t.kind, t.code, hexf(t.msg), hexf(t.data))
	case 'F':
		fmt.Fprintf(sb, "F(%d,%s)", t.code, hexf(t.msg))
	case 'C':
		fmt.Fprintf(sb, "C(%d)", t.code)
	case 'K':
		fmt.Fprintf(sb, "K%d(%d,%s)", t.k, t.code, hexf(t.msg))
	case 'X', 'D':
		sb.WriteByte(t.kind)
	case 'P':
		fmt.Fprintf(sb, "P(%s)", hexf(t.msg))
	case 'W':
		fmt.Fprintf(sb, "W(%s,", hexf(t.msg))
		t.sub.write(sb)
		sb.WriteByte(')')
	case 'L':
		sb.WriteString("L[")
		for _, x := range t.list {
			x.write(sb)
			sb.WriteByte(';')
		}
		sb.WriteByte(']')
	}
}

func (t *c14Term) String() string {
	var sb strings.Builder
	t.write(&sb)
	return sb.String()
}

type c14Parser struct {
	s   string
	pos int
}

func (p *c14Parser) until(stop string) string {
	st := p.pos
	for p.pos < len(p.s) && !strings.ContainsRune(stop, rune(p.s[p.pos])) {
		p.pos++
	}
	return p.s[st:p.pos]
}

func (p *c14Parser) int32() int32 {
	v, err := strconv.ParseInt(p.until(",)"), 10, 32)
	if err != nil {
		fatal("bad code in term %q: %v", p.s, err)
	}
	return int32(v)
}

func (p *c14Parser) term() *c14Term {
	t := &c14Term{kind: p.s[p.pos]}
	p.pos++
	switch t.kind {
	case 'J', 'V':
		p.pos++ // (
		t.code = p.int32()
		p.pos++
		t.msg = unhexf(p.until(","))
		p.pos++
		t.data = unhexf(p.until(")"))
		p.pos++
	case 'F':
		p.pos++
		t.code = p.int32()
		p.pos++
		t.msg = unhexf(p.until(")"))
		p.pos++
	case 'C':
		p.pos++
		t.code = p.int32()
		p.pos++
	case 'K':
		t.k = int(p.s[p.pos] - '0')
		p.pos += 2
		t.code = p.int32()
		p.pos++
		t.msg = unhexf(p.until(")"))
		p.pos++
	case 'X', 'D':
	case 'P':
		p.pos++
		t.msg = unhexf(p.until(")"))
		p.pos++
	case 'W':
		p.pos++
		t.msg = unhexf(p.until(","))
		p.pos++
		t.sub = p.term()
		p.pos++ // )
	case 'L':
		p.pos++ // [
		for p.s[p.pos] != ']' {
			t.list = append(t.list, p.term())
			p.pos++ // ;
		}
		p.pos++
	default:
		fatal("bad term %q at %d", p.s, p.pos)
	}
	return t
}

func c14Parse(s string) *c14Term {
	p := &c14Parser{s: s}
	t := p.term()
	if p.pos != len(s) {
		fatal("trailing text in term %q", s)
	}
	return t
}

// build constructs the real Go error value the term denotes.
func (t *c14Term) build() error {
	switch t.kind {
	case 'J':
		e := &jrpc2.Error{Code: jrpc2.Code(t.code), Message: t.msg}
		if t.data != "" {
			e.Data = json.RawMessage(t.data)
		}
		return e
	case 'V':
		e := jrpc2.Error{Code: jrpc2.Code(t.code), Message: t.msg}
		if t.data != "" {
			e.Data = json.RawMessage(t.data)
		}
		return e
	case 'F':
		return jrpc2.Errorf(jrpc2.Code(t.code), "%s", t.msg)
	case 'C':
		return jrpc2.Code(t.code).Err()
	case 'K':
		switch t.k {
		case 0:
			return c14ValCoder{jrpc2.Code(t.code), t.msg}
		case 1:
			return &c14ValCoder{jrpc2.Code(t.code), t.msg}
		case 2:
			return &c14PtrCoder{jrpc2.Code(t.code), t.msg}
		case 3:
			return c14MixCoder{jrpc2.Code(t.code), t.msg}
		default:
			return &c14MixCoder{jrpc2.Code(t.code), t.msg}
		}
	case 'X':
		return context.Canceled
	case 'D':
		return context.DeadlineExceeded
	case 'P':
		return errors.New(t.msg)
	case 'W':
		return fmt.Errorf("%s: %w", t.msg, t.sub.build())
	case 'L':
		es := make([]error, len(t.list))
		for i, x := range t.list {
			es[i] = x.build()
		}
		return errors.Join(es...)
	}
	panic("bad term")
}

// ---- handler results ----------------------------------------------------------------

type c14Marshaler struct{ err error }

func (m c14Marshaler) MarshalJSON() ([]byte, error) { return []byte(`{"m": 1}`), m.err }

type c14BadJSON struct{}

func (c14BadJSON) MarshalJSON() ([]byte, error) { return []byte(`{"m": `), nil }

var c14BadLabels = []string{"chan", "func", "nan", "inf", "ninf", "cycmap", "cycslice", "complex", "mapkey", "unsafe", "nested", "badjson"}

func c14BadValue(label string) any {
	switch label {
	case "chan":
		return make(chan int)
	case "func":
		return func() {}
	case "nan":
		return math.NaN()
	case "inf":
		return math.Inf(1)
	case "ninf":
		return []float64{1, math.Inf(-1)}
	case "cycmap":
		m := map[string]any{}
		m["x"] = m
		return m
	case "cycslice":
		s := make([]any, 1)
		s[0] = s
		return s
	case "complex":
		return complex(1, 2)
	case "mapkey":
		return map[[2]int]int{{1, 2}: 3}
	case "unsafe":
		var x int
		return unsafe.Pointer(&x)
	case "nested":
		return map[string]any{"ok": 1, "bad": []any{1, make(chan string)}}
	case "badjson":
		return c14BadJSON{}
	}
	fatal("unknown value label %q", label)
	return nil
}

// c14Result builds the handler's value and the completed rarg field (the part
// after the colon is a fact taken from encoding/json itself, given to the model).
func c14Result(rkind, rarg string) (any, string) {
	switch rkind {
	case "ok":
		return true, "-"
	case "r":
		return json.RawMessage(unhexf(rarg)), rarg
	case "u":
		label := rarg
		if i := strings.IndexByte(rarg, ':'); i >= 0 {
			label = rarg[:i]
		}
		v := c14BadValue(label)
		_, err := json.Marshal(v)
		if err == nil {
			fatal("value %q marshals", label)
		}
		return v, label + ":" + hexf(err.Error())
	case "m":
		ts := rarg
		if i := strings.IndexByte(rarg, ':'); i >= 0 {
			ts = rarg[i+1:]
		}
		inner := c14Parse(ts).build()
		v := c14Marshaler{inner}
		prefix := "-"
		if inner != nil {
			_, err := json.Marshal(v)
			var me *json.MarshalerError
			if !errors.As(err, &me) {
				fatal("marshaler error has type %T", err)
			}
			full := err.Error()
			suffix := ": " + inner.Error()
			if !strings.HasSuffix(full, suffix) {
				fatal("unexpected MarshalerError text %q", full)
			}
			prefix = hexf(strings.TrimSuffix(full, suffix))
		}
		return v, prefix + ":" + ts
	}
	fatal("unknown result kind %q", rkind)
	return nil, ""
}

// ---- the server/client pair ------------------------------------------------------------

type c14Pair struct {
	srv *jrpc2.Server
	cli *jrpc2.Client
	val any
	err error

	// family K: what the handler does to its own context before it returns
	mode       string
	deadline   time.Duration
	baseCancel context.CancelFunc
	ran        bool
	ctxErr     error

	// family B: what the handler of call i of the batch returns
	bvals []any
	berrs []error

	unexpectedLosses int
}

func c14Start() *c14Pair { return c14StartCtx(false) }

// c14StartCtx starts the pair; withCtx installs a ServerOptions.NewContext under the
// harness's control (family K).
func c14StartCtx(withCtx bool) *c14Pair {
	p := &c14Pair{}
	cch, sch := channel.Direct()
	var opts *jrpc2.ServerOptions
	if withCtx {
		opts = &jrpc2.ServerOptions{NewContext: func() context.Context {
			switch p.mode {
			case "base":
				ctx, cancel := context.WithCancel(context.Background())
				p.baseCancel = cancel
				return ctx
			case "deadline":
				ctx, cancel := context.WithTimeout(context.Background(), p.deadline)
				p.baseCancel = cancel
				return ctx
			}
			return context.Background()
		}}
	}
	p.srv = jrpc2.NewServer(handler.Map{
		"t": func(ctx context.Context, req *jrpc2.Request) (any, error) {
			if p.mode == "" {
				return p.val, p.err
			}
			p.ran = true
			wait := func() {
				select {
				case <-ctx.Done():
				case <-time.After(5 * time.Second):
				}
			}
			switch p.mode {
			case "self":
				jrpc2.ServerFromContext(ctx).CancelRequest(req.ID())
				wait()
			case "helper":
				srv, id := jrpc2.ServerFromContext(ctx), req.ID()
				go srv.CancelRequest(id)
				wait()
			case "base":
				p.baseCancel()
				wait()
			case "deadline":
				wait()
			}
			p.ctxErr = ctx.Err()
			return p.val, p.err
		},
		"b": func(ctx context.Context, req *jrpc2.Request) (any, error) {
			var ix []int
			if err := req.UnmarshalParams(&ix); err != nil || len(ix) != 1 || ix[0] < 0 || ix[0] >= len(p.bvals) {
				return nil, errors.New("harness: bad batch index")
			}
			return p.bvals[ix[0]], p.berrs[ix[0]]
		},
	}, opts)
	p.srv.Start(sch)
	p.cli = jrpc2.NewClient(cch, nil)
	return p
}

// callCtx runs one call of family K.  The deadline mode is retried with a longer deadline
// when the deadline passed before the handler was started (then invoke fails in
// sem.Acquire and no handler error exists to be kept).
func (p *c14Pair) callCtx(mode string, val any, err error) string {
	want := map[string]error{"self": context.Canceled, "helper": context.Canceled, "base": context.Canceled,
		"deadline": context.DeadlineExceeded, "live": nil}
	wantErr, ok := want[mode]
	if !ok {
		fatal("unknown K mode %q", mode)
	}
	defer func() { p.mode = "" }()
	for _, dl := range []time.Duration{10 * time.Millisecond, 100 * time.Millisecond, time.Second} {
		p.mode, p.deadline, p.ran, p.ctxErr, p.baseCancel = mode, dl, false, nil, nil
		obs := p.call(val, err)
		if p.baseCancel != nil {
			p.baseCancel()
		}
		if !p.ran {
			if mode == "deadline" {
				continue
			}
			return "E?handler-not-run:" + obs
		}
		if p.ctxErr != wantErr {
			return fmt.Sprintf("E?ctx:%v", p.ctxErr)
		}
		return obs
	}
	return "E?handler-not-run"
}

func (p *c14Pair) stop() {
	p.cli.Close()
	p.srv.Wait()
}

// call runs one call whose handler returns (val, err) and describes what Call returned.
// Every call carries its own deadline so that a lost reply is an observation ("L") and
// not a hang.  The specification never expects a loss (since fix F16 a top-level *Error
// whose Data is not JSON is sent without its data): the deadline is 2 s, retried once
// with 5 s before the loss is reported (a slow machine must not look like a lost
// reply); after three reported losses the run is a violation anyway and the deadline
// drops to 150 ms so that it still ends in reasonable time.
func (p *c14Pair) call(val any, err error) string {
	p.val, p.err = val, err
	obs, lost := p.callOnce(p.limit())
	if lost && p.unexpectedLosses < 3 {
		if obs, lost = p.callOnce(5 * time.Second); lost {
			p.unexpectedLosses++
		}
	}
	return obs
}

func (p *c14Pair) limit() time.Duration {
	if p.unexpectedLosses >= 3 {
		return 150 * time.Millisecond
	}
	return 2 * time.Second
}

// batch runs one Client.Batch of len(vals) calls; the handler of call i returns
// (vals[i], errs[i]).  Same deadlines as call.
func (p *c14Pair) batch(vals []any, errs []error) string {
	p.bvals, p.berrs = vals, errs
	obs, lost := p.batchOnce(p.limit())
	if lost && p.unexpectedLosses < 3 {
		if obs, lost = p.batchOnce(5 * time.Second); lost {
			p.unexpectedLosses++
		}
	}
	return obs
}

func (p *c14Pair) batchOnce(limit time.Duration) (string, bool) {
	ctx, cancel := context.WithTimeout(context.Background(), limit)
	defer cancel()
	specs := make([]jrpc2.Spec, len(p.bvals))
	for i := range specs {
		specs[i] = jrpc2.Spec{Method: "b", Params: []int{i}}
	}
	rsps, err := p.cli.Batch(ctx, specs)
	if err != nil {
		return "E?batch:" + hexf(err.Error()), false
	}
	if len(rsps) != len(specs) {
		return fmt.Sprintf("E?batch-size:%d", len(rsps)), false
	}
	lost := false
	out := make([]string, len(rsps))
	for i, rsp := range rsps {
		je := rsp.Error()
		switch {
		case je == nil:
			out[i] = fmt.Sprintf("R|0|-|%s", hexf(rsp.ResultString()))
		case ctx.Err() != nil && je.Code == jrpc2.ErrorCode(ctx.Err()) && je.Message == ctx.Err().Error() && len(je.Data) == 0:
			// the error the client itself fills in when the deadline of the batch passes
			out[i] = "L|0|-|-"
			lost = true
		default:
			out[i] = fmt.Sprintf("J|%d|%s|%s", int(je.Code), hexf(je.Message), hexf(string(je.Data)))
		}
	}
	return strings.Join(out, "/"), lost
}

func (p *c14Pair) callOnce(limit time.Duration) (string, bool) {
	ctx, cancel := context.WithTimeout(context.Background(), limit)
	defer cancel()
	rsp, cerr := p.cli.Call(ctx, "t", nil)
	switch {
	case cerr == nil:
		return fmt.Sprintf("R|%d|-|%s", int(jrpc2.ErrorCode(cerr)), hexf(rsp.ResultString())), false
	case ctx.Err() != nil:
		return "L|0|-|-", true
	case cerr == context.Canceled:
		return fmt.Sprintf("C|%d|-|-", int(jrpc2.ErrorCode(cerr))), false
	case cerr == context.DeadlineExceeded:
		return fmt.Sprintf("D|%d|-|-", int(jrpc2.ErrorCode(cerr))), false
	}
	if je, ok := cerr.(*jrpc2.Error); ok {
		if je.Code != jrpc2.ErrorCode(cerr) {
			return fmt.Sprintf("O|%d|%s|code-field-%d", int(jrpc2.ErrorCode(cerr)), hexf(cerr.Error()), int(je.Code)), false
		}
		return fmt.Sprintf("J|%d|%s|%s", int(je.Code), hexf(je.Message), hexf(string(je.Data))), false
	}
	return fmt.Sprintf("O|%d|%s|-", int(jrpc2.ErrorCode(cerr)), hexf(cerr.Error())), false
}

// notify sends [notification, ping] as one batch over a raw channel end and reports
// the error member the server produced for the notification, if any.
func c14Notify(val any, err error) string {
	cch, sch := channel.Direct()
	srv := jrpc2.NewServer(handler.Map{
		"t":    func(ctx context.Context, req *jrpc2.Request) (any, error) { return val, err },
		"ping": func(ctx context.Context, req *jrpc2.Request) (any, error) { return "pong", nil },
	}, nil)
	srv.Start(sch)
	defer func() {
		cch.Close()
		srv.Wait()
	}()
	if e := cch.Send([]byte(`[{"jsonrpc":"2.0","method":"t"},{"jsonrpc":"2.0","id":1,"method":"ping"}]`)); e != nil {
		return "E?send"
	}
	type reply struct {
		raw []byte
		err error
	}
	got := make(chan reply, 1)
	go func() {
		raw, e := cch.Recv()
		got <- reply{raw, e}
	}()
	var r reply
	select {
	case r = <-got:
	case <-time.After(5 * time.Second):
		return "E?noreply"
	}
	if r.err != nil {
		return "E?recv"
	}
	var members []struct {
		ID     json.RawMessage `json:"id"`
		Error  *jrpc2.Error    `json:"error"`
		Result json.RawMessage `json:"result"`
	}
	if e := json.Unmarshal(r.raw, &members); e != nil {
		return "E?shape:" + hexf(string(r.raw))
	}
	obs := "none"
	pong := false
	for _, m := range members {
		if string(m.ID) == "1" {
			pong = string(m.Result) == `"pong"`
			continue
		}
		if m.Error == nil {
			return "E?member:" + hexf(string(r.raw))
		}
		obs = fmt.Sprintf("%d|%s|%s", int(m.Error.Code), hexf(m.Error.Message), hexf(string(m.Error.Data)))
	}
	if !pong {
		return "E?nopong:" + hexf(string(r.raw))
	}
	return obs
}

func c14WithData(f []string) (obs string) {
	// f: recv code hexmsg hexdata vkind varg
	code, err := strconv.ParseInt(f[1], 10, 32)
	if err != nil {
		fatal("bad W line: %v", err)
	}
	var recv *jrpc2.Error
	var snapshot jrpc2.Error
	var dataCopy []byte
	if f[0] == "p" {
		recv = &jrpc2.Error{Code: jrpc2.Code(code), Message: unhexf(f[2])}
		if d := unhexf(f[3]); d != "" {
			recv.Data = json.RawMessage(d)
		}
		snapshot = *recv
		dataCopy = append([]byte(nil), recv.Data...)
	}
	var v any
	switch f[4] {
	case "nil":
		v = nil
	case "raw":
		v = json.RawMessage(unhexf(f[5]))
	case "val":
		v = c14GoodValue(c14Label(f[5]))
	case "bad":
		v = c14BadValue(c14Label(f[5]))
	}
	defer func() {
		if p := recover(); p != nil {
			obs = "crash"
		}
	}()
	ret := recv.WithData(v)
	unchanged := 1
	if recv != nil {
		if recv.Code != snapshot.Code || recv.Message != snapshot.Message ||
			string(recv.Data) != string(dataCopy) || (recv.Data == nil) != (snapshot.Data == nil) ||
			len(recv.Data) != len(snapshot.Data) {
			unchanged = 0
		}
	}
	if ret == nil {
		return fmt.Sprintf("retnil|%d", unchanged)
	}
	same := 0
	if ret == recv {
		same = 1
	}
	return fmt.Sprintf("%d|%d|%d|%s|%s", same, unchanged, int(ret.Code), hexf(ret.Message), hexf(string(ret.Data)))
}

func c14Label(arg string) string {
	if i := strings.IndexByte(arg, ':'); i >= 0 {
		return arg[:i]
	}
	return arg
}

var c14GoodLabels = []string{"int", "str", "map", "slice", "struct", "null-ptr", "html", "float", "empty-str", "false"}

func c14GoodValue(label string) any {
	switch label {
	case "int":
		return 42
	case "str":
		return "some \"text\"\n"
	case "map":
		return map[string]any{"b": []int{1, 2}, "a": nil}
	case "slice":
		return []string{"x", "y"}
	case "struct":
		return struct {
			A int    `json:"a"`
			B string `json:"b,omitempty"`
		}{A: 1}
	case "null-ptr":
		return (*int)(nil)
	case "html":
		return "<a&b>\u2028"
	case "float":
		return 1.5e300
	case "empty-str":
		return ""
	case "false":
		return false
	}
	fatal("unknown good value %q", label)
	return nil
}

// ---- executing one case ------------------------------------------------------------------

type c14Exec struct{ pair, kpair *c14Pair }

func (e *c14Exec) kp() *c14Pair {
	if e.kpair == nil {
		e.kpair = c14StartCtx(true)
	}
	return e.kpair
}

func (e *c14Exec) p() *c14Pair {
	if e.pair == nil {
		e.pair = c14Start()
	}
	return e.pair
}

func (e *c14Exec) close() {
	if e.pair != nil {
		e.pair.stop()
		e.pair = nil
	}
	if e.kpair != nil {
		e.kpair.stop()
		e.kpair = nil
	}
}

// c14JSONEqual decodes both texts with encoding/json (numbers kept as text) and compares
// the values; two absent data are equal.
func c14JSONEqual(a, b string) bool {
	if a == "" || b == "" {
		return a == b
	}
	dec := func(s string) (any, bool) {
		d := json.NewDecoder(strings.NewReader(s))
		d.UseNumber()
		var v any
		if err := d.Decode(&v); err != nil {
			return nil, false
		}
		return v, true
	}
	va, oka := dec(a)
	vb, okb := dec(b)
	return oka && okb && reflect.DeepEqual(va, vb)
}

// c14Undeliverable: a top-level *Error whose Data is not JSON (json.Marshal of it fails).
func c14Undeliverable(t *c14Term) bool {
	return t.kind == 'J' && t.data != "" && !json.Valid([]byte(t.data))
}

// exec executes one case (input fields) and returns the fields to write (inputs,
// possibly completed with facts, plus the observation).
func (e *c14Exec) exec(f []string) []string {
	switch f[0] {
	case "E":
		t := c14Parse(f[1])
		err := t.build()
		text := "nil"
		if err != nil {
			text = hexf(err.Error())
		}
		got := e.p().call(true, err)
		// property monitor, independent of the model's compaction: the Data of a *Error
		// that arrived as a *Error must be JSON-equal to the Data that was sent; Data that
		// cannot be sent (not JSON) must have been dropped
		eq := "-"
		if (t.kind == 'J' || t.kind == 'F') && strings.HasPrefix(got, "J|") {
			eq = "0"
			gotData := unhexf(got[strings.LastIndexByte(got, '|')+1:])
			if c14Undeliverable(t) {
				if gotData == "" {
					eq = "d"
				}
			} else if c14JSONEqual(t.data, gotData) {
				eq = "1"
			}
		}
		obs := fmt.Sprintf("%d|%s|%s|%s", int(jrpc2.ErrorCode(err)), text, got, eq)
		return []string{"E", f[1], obs}
	case "R":
		val, rarg := c14Result(f[1], f[2])
		t := c14Parse(f[3])
		return []string{"R", f[1], rarg, f[3], e.p().call(val, t.build())}
	case "K":
		val, rarg := c14Result(f[2], f[3])
		t := c14Parse(f[4])
		return []string{"K", f[1], f[2], rarg, f[4], e.kp().callCtx(f[1], val, t.build())}
	case "B":
		if len(f) < 4 || (len(f)-1)%3 != 0 {
			fatal("bad B line: %d fields", len(f))
		}
		n := (len(f) - 1) / 3
		vals, errs := make([]any, n), make([]error, n)
		out := []string{"B"}
		for i := 0; i < n; i++ {
			val, rarg := c14Result(f[1+3*i], f[2+3*i])
			vals[i], errs[i] = val, c14Parse(f[3+3*i]).build()
			out = append(out, f[1+3*i], rarg, f[3+3*i])
		}
		return append(out, e.p().batch(vals, errs))
	case "N":
		val, rarg := c14Result(f[1], f[2])
		t := c14Parse(f[3])
		return []string{"N", f[1], rarg, f[3], c14Notify(val, t.build())}
	case "C":
		c, err := strconv.ParseInt(f[1], 10, 32)
		if err != nil {
			fatal("bad C line: %v", err)
		}
		ce := jrpc2.Code(c).Err()
		text := "nil"
		if ce != nil {
			text = hexf(ce.Error())
		}
		return []string{"C", f[1], fmt.Sprintf("%d|%s", int(jrpc2.ErrorCode(ce)), text)}
	case "W":
		in := append([]string{}, f[1:7]...)
		switch in[4] {
		case "val":
			b, err := json.Marshal(c14GoodValue(c14Label(in[5])))
			if err != nil {
				fatal("good value does not marshal: %v", err)
			}
			in[5] = c14Label(in[5]) + ":" + hexf(string(b))
		case "bad":
			in[5] = c14Label(in[5])
		}
		return append(append([]string{"W"}, in...), c14WithData(in))
	case "G":
		b, err := json.Marshal(json.RawMessage(unhexf(f[1])))
		if err != nil {
			return []string{"G", f[1], "invalid"}
		}
		return []string{"G", f[1], hexf(string(b))}
	case "S":
		b, err := json.Marshal(unhexf(f[1]))
		if err != nil {
			return []string{"S", f[1], "E?marshal"}
		}
		var out string
		if err := json.Unmarshal(b, &out); err != nil {
			return []string{"S", f[1], "E?unmarshal"}
		}
		return []string{"S", f[1], hexf(out)}
	}
	fatal("unknown case kind %q", f[0])
	return nil
}

// ---- generators ------------------------------------------------------------------------------

var c14Codes9 = []int32{-32700, -32601, -32603, -32099, -32098, -32097, -32096, 0, 7}
var c14Msgs3 = []string{"", "boom", "a: b\n%d é"}
var c14Data3 = []string{"", `{"a":[1,2]}`, ` [ "x<y" , null ] `}

func c14J(c int32, m, d string) *c14Term { return &c14Term{kind: 'J', code: c, msg: m, data: d} }
func c14V(c int32, m, d string) *c14Term { return &c14Term{kind: 'V', code: c, msg: m, data: d} }
func c14F(c int32, m string) *c14Term    { return &c14Term{kind: 'F', code: c, msg: m} }
func c14C(c int32) *c14Term              { return &c14Term{kind: 'C', code: c} }
func c14K(k int, c int32, m string) *c14Term {
	return &c14Term{kind: 'K', k: k, code: c, msg: m}
}
func c14P(m string) *c14Term             { return &c14Term{kind: 'P', msg: m} }
func c14W(m string, t *c14Term) *c14Term { return &c14Term{kind: 'W', msg: m, sub: t} }
func c14L(ts ...*c14Term) *c14Term       { return &c14Term{kind: 'L', list: ts} }

var c14X = &c14Term{kind: 'X'}
var c14D = &c14Term{kind: 'D'}

// every leaf over the 9-code x 3-message (x 3-data) basis
func c14AllLeaves() []*c14Term {
	var out []*c14Term
	for _, c := range c14Codes9 {
		for _, m := range c14Msgs3 {
			for _, d := range c14Data3 {
				out = append(out, c14J(c, m, d))
			}
			out = append(out, c14V(c, m, ""), c14V(c, m, c14Data3[1]), c14F(c, m))
			for k := 0; k < 5; k++ {
				out = append(out, c14K(k, c, m))
			}
		}
		out = append(out, c14C(c))
	}
	out = append(out, c14X, c14D)
	for _, m := range c14Msgs3 {
		out = append(out, c14P(m))
	}
	return out
}

// the leaves that the exhaustive nesting is built from: one representative of every
// way a leaf can behave (verbatim *Error with a sentinel code / with data, value
// Error, codeError, nil, coder reporting NoError, pointer coder, non-coder, the two
// sentinels, plain, Errorf with an empty message)
func c14NestLeaves() []*c14Term {
	return []*c14Term{
		c14J(-32097, "boom", ""),
		c14J(7, "boom", `{"a":1}`),
		c14V(-32096, "boom", ""),
		c14C(-32601),
		c14C(-32099),
		c14K(0, -32099, "k"),
		c14K(2, 9, "k"),
		c14K(3, 11, "k"),
		c14X,
		c14D,
		c14P("boom"),
		c14F(-32603, ""),
	}
}

var c14SweepCodes = func() []int32 {
	out := []int32{math.MinInt32, math.MinInt32 + 1, -65537, -65536, -32769, -32768, -32767,
		-32001, -32000, -31999, -1, 0, 1, 9, 10, 32767, 32768, 65535, 65536, math.MaxInt32 - 1, math.MaxInt32,
		-32700, -32600, -32601, -32602, -32603, -32099, -32098, -32097, -32096}
	for _, base := range []int32{-32700, -32600, -32099} {
		for d := int32(-5); d <= 5; d++ {
			out = append(out, base+d)
		}
	}
	return out
}()

var c14RandMsgs = []string{"", "m", "boom", "a: b", "%s %d %w %!w(<nil>)", "line1\nline2", "tab\there", "q\"uote\\",
	"é世界", "\U0001F600", "\u2028\u2029", "<html>&amp;", "\x00\x01\x1f\x7f", "bad\xffutf8", "\xe2\x80", "\xed\xa0\x80",
	"\xc0\xaf", "\xf4\x90\x80\x80", "[-32097] x", "context canceled", "null", strings.Repeat("long ", 60)}

var c14RandData = []string{"", "", "1", "null", `"s"`, `{"a":1}`, ` { "a" : [ 1 , 2.5e+3 , "x y" ] } `, "[]", "{}", "\n[\t1\r]\n",
	"\"<>&\u2028\"", "\"\u2028\"", `-0.0e-0`, `[[[[[[]]]]]]`, `{"k":"😀\\\/"}`, "true", "false "}

// Data that is not JSON: json.Marshal of a *Error carrying it fails; since fix F16 the
// error is sent without it (before, the reply was lost, and with it the rest of a batch).
var c14BadData = []string{"{bad", "[1,]", "01", `"unterminated`, " ", "nul", "1 2", `{"a":}`, "\"\x01\"", `"\x"`, "\xff"}

func c14RandDataPick(r *rng) string {
	if r.chance(1, 16) {
		return pick(r, c14BadData)
	}
	return pick(r, c14RandData)
}

func c14RandCode(r *rng) int32 {
	switch r.intn(4) {
	case 0:
		return pick(r, c14Codes9)
	case 1:
		return pick(r, c14SweepCodes)
	case 2:
		return int32(r.next())
	default:
		return int32(r.intn(200)) - 100
	}
}

func c14RandTerm(r *rng, depth int) *c14Term {
	if depth <= 0 || r.chance(1, 4) {
		switch r.intn(11) {
		case 0, 1:
			return c14J(c14RandCode(r), pick(r, c14RandMsgs), c14RandDataPick(r))
		case 2:
			return c14V(c14RandCode(r), pick(r, c14RandMsgs), c14RandDataPick(r))
		case 3:
			return c14F(c14RandCode(r), pick(r, c14RandMsgs))
		case 4:
			return c14C(c14RandCode(r))
		case 5, 6:
			return c14K(r.intn(5), c14RandCode(r), pick(r, c14RandMsgs))
		case 7:
			return c14X
		case 8:
			return c14D
		default:
			return c14P(pick(r, c14RandMsgs))
		}
	}
	if r.chance(1, 2) {
		return c14W(pick(r, c14RandMsgs), c14RandTerm(r, depth-1))
	}
	n := r.intn(5)
	ts := make([]*c14Term, n)
	for i := range ts {
		ts[i] = c14RandTerm(r, depth-1)
	}
	return c14L(ts...)
}

// random JSON text with random white space, for the glue family G
func c14RandJSON(r *rng, depth int, sb *strings.Builder) {
	ws := func() {
		for r.chance(1, 3) {
			sb.WriteString(pick(r, []string{" ", "\t", "\n", "\r", "  "}))
		}
	}
	ws()
	switch k := r.intn(10); {
	case depth <= 0 || k < 4:
		sb.WriteString(pick(r, []string{"0", "-1", "12.50", "1e9", "-0.1E-2", "true", "false", "null", `""`, `"a b"`,
			`"\n\t\"\\\/\b\f\r"`, `"é😀"`, `"<>&"`, "\"\u2028x\u2029\"", "\"é世\"", "\"\u2028\"", "\"\x7f\xff\xe2\x80\"", `" "`}))
	case k < 7:
		sb.WriteByte('[')
		n := r.intn(4)
		for i := 0; i < n; i++ {
			if i > 0 {
				sb.WriteByte(',')
			}
			c14RandJSON(r, depth-1, sb)
		}
		if n == 0 {
			ws()
		}
		sb.WriteByte(']')
	default:
		sb.WriteByte('{')
		n := r.intn(4)
		for i := 0; i < n; i++ {
			if i > 0 {
				sb.WriteByte(',')
			}
			ws()
			sb.WriteString(pick(r, []string{`"a"`, `"k y"`, `""`, `"<"`, `"A"`}))
			ws()
			sb.WriteByte(':')
			c14RandJSON(r, depth-1, sb)
		}
		if n == 0 {
			ws()
		}
		sb.WriteByte('}')
	}
	ws()
}

func c14Mutate(r *rng, s string) string {
	b := []byte(s)
	if len(b) == 0 {
		return s
	}
	for i, n := 0, 1+r.intn(2); i < n; i++ {
		switch r.intn(4) {
		case 0: // flip to an interesting byte
			b[r.intn(len(b))] = pick(r, []byte("{}[],:\"\\ \n0-e.tfnu<\xe2\x80\xa8\x1f"))
		case 1: // delete
			j := r.intn(len(b))
			b = append(b[:j], b[j+1:]...)
			if len(b) == 0 {
				return "x"
			}
		case 2: // insert
			j := r.intn(len(b) + 1)
			b = append(b[:j], append([]byte{pick(r, []byte("{}[],:\"\\ \n0-e.+x"))}, b[j:]...)...)
		default: // truncate
			b = b[:1+r.intn(len(b))]
		}
	}
	return string(b)
}

func c14RandBytes(r *rng) string {
	alpha := []byte{'a', ' ', 0x00, 0x7f, 0x80, 0x8f, 0x90, 0x9f, 0xa0, 0xa8, 0xa9, 0xbf, 0xc0, 0xc1, 0xc2, 0xdf, 0xe0, 0xe1, 0xe2,
		0xec, 0xed, 0xee, 0xef, 0xf0, 0xf1, 0xf3, 0xf4, 0xf5, 0xff, '<', '"', '\\'}
	n := r.intn(7)
	b := make([]byte, n)
	for i := range b {
		b[i] = pick(r, alpha)
	}
	return string(b)
}

func c14Main(cfg *config) {
	w := newCaseWriter(cfg.out)
	defer w.close()
	ex := &c14Exec{}
	defer ex.close()
	emit := func(f ...string) { w.line(ex.exec(f)...) }
	if cfg.replay != "" {
		fh, err := os.Open(cfg.replay)
		if err != nil {
			fatal("open replay: %v", err)
		}
		sc := bufio.NewScanner(fh)
		sc.Buffer(make([]byte, 1<<20), 1<<26)
		for sc.Scan() {
			if sc.Text() != "" {
				emit(strings.Split(sc.Text(), "\t")...)
			}
		}
		return
	}
	r := newRng(cfg.seed)
	thorough := cfg.tier == "thorough"
	E := func(t *c14Term) { emit("E", t.String()) }

	// 1. fixed corpus: the corner cases found while reading the code
	for _, s := range []string{
		"C(-32099)", "L[]", "L[C(-32099);L[];]", "W(63,C(-32099))", "W(63,L[C(-32099);])",
		"L[X;C(5);]", "L[D;X;]", "L[P(70);W(77,D);]", "W(77,L[P(70);K0(9,6b39);])", "K0(-32099,6b)", "W(77,K1(-32099,6b))",
		"J(-32099,78,-)", "J(-32097,78,31)", "J(-32096,78,31)", "W(77,J(7,6d,31))", "V(7,6d,31)", "L[J(7,6d,31);]",
		"J(7,6d,7b626164)", "J(7,61ff62e280,-)", "J(7,-,6e756c6c)", "K3(13,6b)", "K4(13,6b)", "L[K3(13,6b);X;]",
		"J(7,6d,205b2022783c7922202c206e756c6c205d20)", "F(-5,782025)", "L[C(-32099);P(70);C(-32099);]",
	} {
		emit("E", s)
	}

	// 1b. (F17) batches: every call gets the reply it would get alone, whatever its siblings
	// return; in particular next to a *Error whose Data is not JSON (early in the run, so that
	// the model runner's report, which is cut after 50 disagreements, includes them)
	bOK := []string{"ok", "-", "C(-32099)"}
	bBad := []string{"ok", "-", c14J(7, "no", "{bad").String()}
	bGood := []string{"ok", "-", c14J(7, "no", ` {"a": 1} `).String()}
	bErr := []string{"ok", "-", "C(-32601)"}
	bCanc := []string{"ok", "-", "W(77,X)"}
	bRaw := []string{"r", hexf(" [1, 2] "), "L[]"}
	bUnm := []string{"u", "chan", "C(-32099)"}
	B := func(ms ...[]string) {
		f := []string{"B"}
		for _, m := range ms {
			f = append(f, m...)
		}
		emit(f...)
	}
	B(bOK, bBad)
	B(bBad, bOK)
	B(bBad)
	B(bOK)
	B(bBad, bBad)
	B(bOK, bGood, bBad, bErr)
	B(bRaw, bBad, bUnm, bCanc)
	B(bOK, bGood, bErr, bCanc, bRaw, bUnm)
	for _, d := range c14BadData {
		B(bOK, []string{"ok", "-", c14J(-32097, "x", d).String()}, bRaw)
	}

	// 2. every leaf over the basis
	for _, t := range c14AllLeaves() {
		E(t)
	}

	// 2b. (F16) a *Error whose Data is not JSON, as the returned value (data dropped, code and
	// message kept, sentinel codes still become the sentinels), by value and wrapped (never
	// had its data sent), with a result that cannot be marshalled, as a notification, and
	// after the request was cancelled
	for _, d := range c14BadData {
		for _, c := range []int32{7, 0, -32603, -32097, -32096} {
			for _, m := range []string{"boom", "bad\xffutf8"} {
				E(c14J(c, m, d))
			}
		}
		E(c14V(7, "boom", d))
		E(c14W("w", c14J(7, "boom", d)))
		E(c14L(c14J(7, "boom", d)))
		E(c14L(c14P("p"), c14J(7, "boom", d)))
		emit("R", "u", "chan", c14J(7, "boom", d).String())
		emit("R", "m", c14J(7, "boom", d).String(), "C(-32099)")
		emit("R", "r", hexf(" [1] "), c14J(7, "boom", d).String())
		emit("N", "ok", "-", c14J(-32700, "boom", d).String())
		emit("N", "m", c14J(-32700, "boom", d).String(), "C(-32099)")
		emit("K", "self", "ok", "-", c14J(7, "boom", d).String())
	}

	// 2c. random batches
	nb := 150
	if thorough {
		nb = 3000
	}
	for i := 0; i < nb; i++ {
		n := 1 + r.intn(4)
		var ms [][]string
		for k := 0; k < n; k++ {
			switch r.intn(6) {
			case 0:
				ms = append(ms, bOK)
			case 1:
				ms = append(ms, []string{"ok", "-", c14J(c14RandCode(r), pick(r, c14RandMsgs), pick(r, c14BadData)).String()})
			case 2:
				ms = append(ms, []string{"r", hexf(pick(r, c14RandData[2:])), "L[]"})
			case 3:
				ms = append(ms, []string{"u", pick(r, c14BadLabels), "C(-32099)"})
			default:
				ms = append(ms, []string{"ok", "-", c14RandTerm(r, 1+r.intn(3)).String()})
			}
		}
		B(ms...)
	}

	// 3. code sweep: ErrorCode(Code(c).Err()) and the same code through every carrier
	codes := append([]int32{}, c14SweepCodes...)
	nrand := 100
	if thorough {
		nrand = 3000
	}
	for i := 0; i < nrand; i++ {
		codes = append(codes, int32(r.next()))
	}
	for _, c := range codes {
		emit("C", strconv.Itoa(int(c)))
		E(c14C(c))
		E(c14J(c, "m", `[1]`))
		E(c14V(c, "m", ""))
		E(c14K(int(uint32(c))%5, c, "m"))
		E(c14W("w", c14C(c)))
		E(c14L(c14P("p"), c14K(1, c, "m"), c14X))
	}

	// 4. exhaustive nesting over the 12 representative leaves
	leaves := c14NestLeaves()
	var d1 []*c14Term
	for _, a := range leaves {
		d1 = append(d1, c14W("w", a))
	}
	d1 = append(d1, c14L())
	for _, a := range leaves {
		d1 = append(d1, c14L(a))
	}
	for _, a := range leaves {
		for _, b := range leaves {
			d1 = append(d1, c14L(a, b))
		}
	}
	for _, t := range d1 {
		E(t)
	}
	for _, a := range leaves {
		for _, b := range leaves {
			for _, c := range leaves {
				E(c14L(a, b, c))
			}
		}
	}
	t1 := append(append([]*c14Term{}, leaves...), d1...)
	var d2 []*c14Term
	for _, a := range d1 {
		d2 = append(d2, c14W("w", a), c14L(a))
	}
	for i, a := range t1 {
		for j, b := range t1 {
			if i < len(leaves) && j < len(leaves) {
				continue // depth 1, done above
			}
			d2 = append(d2, c14L(a, b))
		}
	}
	for _, t := range d2 {
		E(t)
	}
	if thorough {
		// depth 3: every depth-2 term wrapped, joined alone, and joined with every leaf on either side
		for _, a := range d2 {
			E(c14W("w", a))
			E(c14L(a))
			for _, b := range leaves {
				E(c14L(a, b))
				E(c14L(b, a))
			}
		}
	}

	// 5. random deeper terms
	n := 25000
	if thorough {
		n = 150000
	}
	if cfg.n > 1000 {
		n = cfg.n
	}
	for i := 0; i < n; i++ {
		E(c14RandTerm(r, 1+r.intn(6)))
	}

	// 6. results that cannot be marshalled, with and without a handler error
	resTerms := append([]*c14Term{}, leaves...)
	resTerms = append(resTerms, c14F(-32700, "p"), c14K(0, -32600, "k"), c14W("w", c14C(-32600)), c14L(c14P("p"), c14J(-32700, "x", "1")),
		c14W("w", c14X), c14L(c14D, c14X))
	for _, lab := range c14BadLabels {
		emit("R", "u", lab, "C(-32099)")
		emit("R", "u", lab, "L[]")
		emit("R", "u", lab, "P(70)")
		emit("R", "u", lab, "J(7,6d,31)")
		emit("N", "u", lab, "C(-32099)")
	}
	for _, t := range resTerms {
		emit("R", "m", t.String(), "C(-32099)")
		emit("R", "m", t.String(), "K2(9,6b)")
		emit("N", "m", t.String(), "C(-32099)")
		emit("N", "m", t.String(), "P(70)")
		emit("N", "ok", "-", t.String())
		emit("R", "ok", "-", t.String())
	}
	for i := 0; i < 40; i++ {
		t := c14RandTerm(r, 1+r.intn(3))
		emit("R", "m", t.String(), "C(-32099)")
		emit("N", "m", t.String(), "C(-32099)")
		emit("N", "ok", "-", t.String())
	}
	for _, raw := range []string{"1", " [1, 2] ", `{"a": "<b>"}`, "null", `"x"`} {
		emit("R", "r", hexf(raw), "C(-32099)")
		emit("R", "r", hexf(raw), "X")
	}

	// 6b. the handler returns after the context of its own request is done (cancelled by
	// CancelRequest from the handler or a helper, through the NewContext base, or by the
	// base's deadline): every leaf, every depth-1 term and the corpus, in the three
	// cancellation modes; the representative leaves and their depth-1 terms under a deadline
	// and on the same server with a live context; results (good, raw, unmarshalable) too.
	kfast := []string{"self", "helper", "base"}
	var kterms []*c14Term
	kterms = append(kterms, c14AllLeaves()...)
	kterms = append(kterms, d1...)
	for _, ts := range []string{"L[X;C(5);]", "L[D;X;]", "W(77,L[P(70);K0(9,6b39);])", "W(77,K1(-32099,6b))", "J(7,6d,7b626164)",
		"J(7,61ff62e280,-)", "J(7,6d,205b2022783c7922202c206e756c6c205d20)", "L[C(-32099);P(70);C(-32099);]", "L[K3(13,6b);X;]"} {
		kterms = append(kterms, c14Parse(ts))
	}
	for _, t := range kterms {
		for _, m := range kfast {
			emit("K", m, "ok", "-", t.String())
		}
	}
	kslow := append(append([]*c14Term{}, leaves...), d1[:2*len(leaves)+1]...)
	if thorough {
		kslow = kterms
	}
	for _, t := range kslow {
		emit("K", "deadline", "ok", "-", t.String())
		emit("K", "live", "ok", "-", t.String())
	}
	for _, m := range []string{"self", "helper", "base", "deadline", "live"} {
		emit("K", m, "ok", "-", "C(-32099)")
		emit("K", m, "ok", "-", "L[]")
		for _, raw := range []string{"1", ` {"a": "<b>"} `} {
			emit("K", m, "r", hexf(raw), "C(-32099)")
			emit("K", m, "r", hexf(raw), "J(7,6d,31)")
		}
		for _, lab := range c14BadLabels[:3] {
			emit("K", m, "u", lab, "C(-32099)")
			emit("K", m, "u", lab, "K2(9,6b)")
		}
		for _, t := range []*c14Term{c14F(-32700, "p"), c14W("w", c14X), c14P("boom"), c14J(7, "boom", `{"a":1}`)} {
			emit("K", m, "m", t.String(), "C(-32099)")
			emit("K", m, "m", t.String(), "P(70)")
		}
	}
	nk := 300
	if thorough {
		nk = 6000
	}
	for i := 0; i < nk; i++ {
		t := c14RandTerm(r, 1+r.intn(4))
		emit("K", kfast[r.intn(3)], "ok", "-", t.String())
	}

	// 7. WithData
	for _, recv := range []struct {
		code      int32
		msg, data string
	}{{1, "m", ""}, {-32097, "", `{"old":true}`}, {math.MinInt32, "x\ny", "0"}} {
		base := []string{"W", "p", strconv.Itoa(int(recv.code)), hexf(recv.msg), hexf(recv.data)}
		emit(append(base, "nil", "-")...)
		for _, raw := range []string{"1", " [1, 2] ", `{"a": "<b>"}`, "null", "{bad", " ", `""`} {
			emit(append(base, "raw", hexf(raw))...)
		}
		for _, lab := range c14GoodLabels {
			emit(append(base, "val", lab)...)
		}
		for _, lab := range c14BadLabels {
			emit(append(base, "bad", lab)...)
		}
	}
	emit("W", "n", "0", "-", "-", "nil", "-")
	emit("W", "n", "0", "-", "-", "raw", hexf("1"))
	emit("W", "n", "0", "-", "-", "raw", hexf("{bad"))
	emit("W", "n", "0", "-", "-", "val", "int")
	emit("W", "n", "0", "-", "-", "bad", "chan")

	// 8. glue: json.Marshal(RawMessage) and the string round trip
	for _, d := range append(append([]string{}, c14RandData...), c14BadData...) {
		if d != "" {
			emit("G", hexf(d))
		}
	}
	for _, depth := range []int{9999, 10000, 10001} {
		emit("G", hexf(strings.Repeat("[", depth)+strings.Repeat("]", depth)))
		emit("G", hexf(strings.Repeat(`{"a":`, depth)+"1"+strings.Repeat("}", depth)))
	}
	ng := 8000
	if thorough {
		ng = 60000
	}
	for i := 0; i < ng; i++ {
		var sb strings.Builder
		c14RandJSON(r, r.intn(5), &sb)
		s := sb.String()
		if r.chance(1, 2) {
			s = c14Mutate(r, s)
		}
		if s != "" {
			emit("G", hexf(s))
		}
	}
	for b := 0; b < 256; b++ {
		emit("S", hexf(string([]byte{byte(b)})))
		emit("S", hexf(string([]byte{'"', byte(b), '"'})))
	}
	for _, s := range []string{"\xe0\x9f\xbf", "\xe0\xa0\x80", "\xed\x9f\xbf", "\xed\xa0\x80", "\xf0\x8f\xbf\xbf", "\xf0\x90\x80\x80",
		"\xf4\x8f\xbf\xbf", "\xf4\x90\x80\x80", "\xe2\x80\xa8", "\xe2\x80\xa9", "\xe2\x80", "\xe2", "\xc2\x80", "\xdf\xbf", "\xc2", "\xef\xbf\xbd",
		"\xf0\x9f\x98", "\xf0\x9f", "a\xe2\x80\x41", "\xc2\xc2\x80"} {
		emit("S", hexf(s))
	}
	for _, m := range c14RandMsgs {
		emit("S", hexf(m))
	}
	ns := 10000
	if thorough {
		ns = 100000
	}
	for i := 0; i < ns; i++ {
		emit("S", hexf(c14RandBytes(r)))
	}
}
