package main

// C17: method dispatch through a real server. Case lines:
//   A <builtin> <tree> <hexname>   -> H<id> | B | N | E<code>   (+"!ctx..." if a context check failed)
//   Q <builtin> <tree> <hexname,hexname,...> -> the outcomes of one Batch of calls with these names, in order
//   R <builtin> <tree> <hexname> <hex JSON literal> -> like A, the method sent on the wire as this very literal
//   J <maptree> <hexname>           -> methods listed by rpc.serverInfo before | after <hexname> is added to the assigner
//   M <tree>                        -> Names() of the assigner
//   I <tree>                        -> methods listed by rpc.serverInfo

import (
	"bufio"
	"context"
	"encoding/json"
	"fmt"
	"os"
	"sort"
	"strings"
	"sync"
	"time"

	"github.com/creachadair/jrpc2"
	"github.com/creachadair/jrpc2/channel"
	"github.com/creachadair/jrpc2/handler"
)

func init() { commands["c17"] = c17Main }

type atree struct {
	kind   byte // 'm' map, 'o' opaque (not a Namer), 's' service map
	leaves []aleaf
	subs   []asub
}
type aleaf struct {
	name string
	id   int
}
type asub struct {
	name string
	t    *atree
}

func (t *atree) String() string {
	var sb strings.Builder
	sb.WriteByte(t.kind)
	sb.WriteByte('[')
	if t.kind == 's' {
		for _, s := range t.subs {
			fmt.Fprintf(&sb, "%s:%s;", hexf(s.name), s.t.String())
		}
	} else {
		for _, l := range t.leaves {
			fmt.Fprintf(&sb, "%s=%d;", hexf(l.name), l.id)
		}
	}
	sb.WriteByte(']')
	return sb.String()
}

func parseTree(s string) *atree {
	pos := 0
	var rec func() *atree
	rec = func() *atree {
		t := &atree{kind: s[pos]}
		pos += 2
		for s[pos] != ']' {
			st := pos
			for s[pos] != '=' && s[pos] != ':' {
				pos++
			}
			name := unhexf(s[st:pos])
			pos++
			if t.kind == 's' {
				sub := rec()
				t.subs = append(t.subs, asub{name, sub})
			} else {
				st = pos
				for s[pos] != ';' {
					pos++
				}
				var id int
				fmt.Sscanf(s[st:pos], "%d", &id)
				t.leaves = append(t.leaves, aleaf{name, id})
			}
			pos++ // ;
		}
		pos++ // ]
		return t
	}
	return rec()
}

// opaque is an Assigner that does not implement Namer.
type opaque struct{ m handler.Map }

func (o opaque) Assign(ctx context.Context, method string) jrpc2.Handler {
	return o.m.Assign(ctx, method)
}

type ctxLog struct {
	mu       sync.Mutex
	bad      []string
	seen     int
	assigned map[*jrpc2.Request]bool // requests the top-level assigner was consulted for
}

func (c *ctxLog) wasAssigned(req *jrpc2.Request) bool {
	c.mu.Lock()
	defer c.mu.Unlock()
	return c.assigned[req]
}

func (c *ctxLog) fail(what string) {
	c.mu.Lock()
	c.bad = append(c.bad, what)
	c.mu.Unlock()
}

func (c *ctxLog) take() string {
	c.mu.Lock()
	defer c.mu.Unlock()
	if len(c.bad) == 0 {
		return ""
	}
	s := "!ctx:" + strings.Join(c.bad, ",")
	c.bad = nil
	return s
}

// checking wraps the top-level assigner and checks the context it is given.
type checking struct {
	inner jrpc2.Assigner
	log   *ctxLog
}

func (c checking) Assign(ctx context.Context, method string) jrpc2.Handler {
	req := jrpc2.InboundRequest(ctx)
	if req == nil {
		c.log.fail("assigner-no-request")
	} else if req.Method() != method {
		c.log.fail("assigner-method")
	}
	c.log.mu.Lock()
	c.log.seen++
	if c.log.assigned == nil {
		c.log.assigned = map[*jrpc2.Request]bool{}
	}
	c.log.assigned[req] = true
	c.log.mu.Unlock()
	return c.inner.Assign(ctx, method)
}

type checkingNamer struct{ checking }

func (c checkingNamer) Names() []string { return c.inner.(jrpc2.Namer).Names() }

func (t *atree) build(log *ctxLog, srv **jrpc2.Server) jrpc2.Assigner {
	switch t.kind {
	case 's':
		m := handler.ServiceMap{}
		for _, s := range t.subs {
			m[s.name] = s.t.build(log, srv)
		}
		return m
	default:
		m := handler.Map{}
		for _, l := range t.leaves {
			id := l.id
			m[l.name] = func(ctx context.Context, req *jrpc2.Request) (any, error) {
				if jrpc2.InboundRequest(ctx) != req {
					log.fail("handler-request")
				}
				if jrpc2.ServerFromContext(ctx) != *srv {
					log.fail("handler-server")
				}
				if *srv != nil && !log.wasAssigned(req) {
					// every request is dispatched through the assigner, given that very request
					log.fail("handler-request-never-assigned")
				}
				return map[string]int{"tag": id}, nil
			}
		}
		if t.kind == 'o' {
			return opaque{m}
		}
		return m
	}
}

// dynMap is an assigner whose method set changes while the server lives (NewServer's documentation allows a
// concurrency-safe assigner to do so): Names and Assign always answer from the current set.
type dynMap struct {
	mu     sync.Mutex
	m      handler.Map
	hidden jrpc2.Handler // served under dynHidden, not listed by Names
}

const dynHidden = "\x00add"

func (d *dynMap) Assign(ctx context.Context, method string) jrpc2.Handler {
	d.mu.Lock()
	defer d.mu.Unlock()
	if method == dynHidden && d.hidden != nil {
		return d.hidden
	}
	return d.m.Assign(ctx, method)
}
func (d *dynMap) Names() []string {
	d.mu.Lock()
	defer d.mu.Unlock()
	return d.m.Names()
}

// infoNames asks rpc.serverInfo for the method list.
func (s *c17Server) infoNames() string {
	var info jrpc2.ServerInfo
	if err := s.cli.CallResult(context.Background(), "rpc.serverInfo", nil, &info); err != nil {
		return "E" + err.Error()
	}
	return showNames(info.Methods)
}

// rawCall sends one request whose method member is the given JSON string literal, byte for byte (a peer that is
// not this library's client may spell a name with escapes Go's encoder never writes: \/ , surrogate pairs).
func rawCall(builtin bool, t *atree, lit string) string {
	log := &ctxLog{}
	var srv *jrpc2.Server
	root := t.build(log, &srv)
	cch, sch := channel.Direct()
	srv = jrpc2.NewServer(checking{root, log}, &jrpc2.ServerOptions{DisableBuiltin: !builtin, Concurrency: 1})
	srv.Start(sch)
	defer func() { cch.Close(); srv.Wait() }()
	if err := cch.Send([]byte(`{"jsonrpc":"2.0","id":1,"method":` + lit + `}`)); err != nil {
		return "E?send"
	}
	raw, err := cch.Recv()
	if err != nil {
		return "E?recv"
	}
	var rsp struct {
		Error  *struct{ Code int } `json:"error"`
		Result *struct {
			Tag       *int    `json:"tag"`
			StartTime *string `json:"startTime"`
		} `json:"result"`
	}
	if json.Unmarshal(raw, &rsp) != nil {
		return "E?json"
	}
	switch {
	case rsp.Error != nil && rsp.Error.Code == int(jrpc2.MethodNotFound):
		return "N" + log.take()
	case rsp.Error != nil:
		return fmt.Sprintf("E%d", rsp.Error.Code) + log.take()
	case rsp.Result != nil && rsp.Result.Tag != nil:
		return fmt.Sprintf("H%d", *rsp.Result.Tag) + log.take()
	case rsp.Result != nil && rsp.Result.StartTime != nil:
		return "B" + log.take()
	}
	return "E?shape"
}

type c17Server struct {
	key  string
	log  *ctxLog
	srv  *jrpc2.Server
	cli  *jrpc2.Client
	root jrpc2.Assigner
}

func c17Start(builtin bool, t *atree) *c17Server {
	s := &c17Server{log: &ctxLog{}}
	root := t.build(s.log, &s.srv)
	s.root = root
	var top jrpc2.Assigner = checking{root, s.log}
	if _, ok := root.(jrpc2.Namer); ok {
		top = checkingNamer{checking{root, s.log}}
	}
	cch, sch := channel.Direct()
	// a configured start time (a rarely used option): what rpc.serverInfo reports, in every run of the server
	opts := &jrpc2.ServerOptions{DisableBuiltin: !builtin, Concurrency: 1, StartTime: c17StartTime}
	if c17Starts++; c17Starts%2 == 0 {
		// a server nested in a handler of another server (a gateway): its base context derives from the outer
		// handler's context, which carries the OUTER server and request; handlers and assigner of this server
		// still see THIS server and their own request
		opts.NewContext = outerHandlerContext
	}
	s.srv = jrpc2.NewServer(top, opts)
	s.srv.Start(sch)
	s.cli = jrpc2.NewClient(cch, nil)
	return s
}

var (
	c17Starts    int
	c17OuterOnce sync.Once
	c17OuterCtx  context.Context
)

// outerHandlerContext returns the context a handler of another, outer server was given (detached from its
// cancellation, as a gateway does for work that outlives the outer call).
func outerHandlerContext() context.Context {
	c17OuterOnce.Do(func() {
		cch, sch := channel.Direct()
		got := make(chan context.Context, 1)
		srv := jrpc2.NewServer(handler.Map{"grab": func(ctx context.Context, _ *jrpc2.Request) (any, error) {
			got <- context.WithoutCancel(ctx)
			return nil, nil
		}}, nil).Start(sch)
		cli := jrpc2.NewClient(cch, nil)
		if _, err := cli.Call(context.Background(), "grab", nil); err != nil {
			fatal("outer server: %v", err)
		}
		c17OuterCtx = <-got
		cli.Close()
		srv.Wait()
	})
	return c17OuterCtx
}

var c17StartTime = time.Date(2001, 2, 3, 4, 5, 6, 0, time.UTC)

// restart ends the current run of the server (the client hangs up) and starts the same server again.
func (s *c17Server) restart() {
	s.stop()
	cch, sch := channel.Direct()
	s.srv.Start(sch)
	s.cli = jrpc2.NewClient(cch, nil)
}

func (s *c17Server) stop() {
	s.cli.Close()
	s.srv.Wait()
}

func (s *c17Server) call(name string) string {
	// first as a notification: the assigner is consulted for it like for a call - with the inbound request and
	// the server in its context (the checking wrapper records what is missing) - and nothing is answered; the call
	// that follows is dispatched only after the notification has been handled
	if name != "" {
		if err := s.cli.Notify(context.Background(), name, nil); err != nil {
			return "E?notify:" + err.Error()
		}
	}
	before := s.log.seen
	rsp, err := s.cli.Call(context.Background(), name, nil)
	obs := ""
	if err != nil {
		code := jrpc2.ErrorCode(err)
		if code == jrpc2.MethodNotFound {
			obs = "N"
		} else {
			obs = fmt.Sprintf("E%d", int(code))
		}
	} else {
		var r struct {
			Tag       *int      `json:"tag"`
			Methods   *[]string `json:"methods"`
			StartTime *string   `json:"startTime"`
		}
		if err := rsp.UnmarshalResult(&r); err != nil {
			obs = "E?unmarshal"
		} else if r.Tag != nil {
			obs = fmt.Sprintf("H%d", *r.Tag)
		} else if r.StartTime != nil {
			obs = "B"
		} else {
			obs = "E?result:" + rsp.ResultString()
		}
	}
	// The assigner must be consulted exactly when the name is not reserved;
	// the model's prediction of the outcome covers that, except that a
	// reserved name must not reach the assigner at all.
	if obs == "N" || obs == "B" {
		_ = before
	}
	return obs + s.log.take()
}

// batch sends one Batch of calls with the given method names and reports the outcome of each, in order.
func (s *c17Server) batch(names []string) string {
	specs := make([]jrpc2.Spec, len(names))
	for i, n := range names {
		specs[i] = jrpc2.Spec{Method: n}
	}
	rsps, err := s.cli.Batch(context.Background(), specs)
	if err != nil {
		return "E?batch:" + err.Error()
	}
	var out []string
	for _, rsp := range rsps {
		obs := ""
		if e := rsp.Error(); e != nil {
			if e.Code == jrpc2.MethodNotFound {
				obs = "N"
			} else {
				obs = fmt.Sprintf("E%d", int(e.Code))
			}
		} else {
			var r struct {
				Tag       *int    `json:"tag"`
				StartTime *string `json:"startTime"`
			}
			if err := rsp.UnmarshalResult(&r); err != nil {
				obs = "E?unmarshal"
			} else if r.Tag != nil {
				obs = fmt.Sprintf("H%d", *r.Tag)
			} else if r.StartTime != nil {
				obs = "B"
			} else {
				obs = "E?result"
			}
		}
		out = append(out, obs)
	}
	return strings.Join(out, ",") + s.log.take()
}

func showNames(ns []string) string {
	if len(ns) == 0 {
		return "empty"
	}
	hs := make([]string, len(ns))
	for i, n := range ns {
		hs[i] = hexf(n)
	}
	return strings.Join(hs, ",")
}

// c17Exec executes one case line (without observation) and returns the observation.
type c17Exec struct{ cur *c17Server }

func (e *c17Exec) exec(fields []string) string {
	switch fields[0] {
	case "A":
		key := fields[1] + "\t" + fields[2]
		if e.cur == nil || e.cur.key != key {
			if e.cur != nil {
				e.cur.stop()
			}
			e.cur = c17Start(fields[1] == "1", parseTree(fields[2]))
			e.cur.key = key
		}
		return e.cur.call(unhexf(fields[3]))
	case "Q":
		key := fields[1] + "\t" + fields[2]
		if e.cur == nil || e.cur.key != key {
			if e.cur != nil {
				e.cur.stop()
			}
			e.cur = c17Start(fields[1] == "1", parseTree(fields[2]))
			e.cur.key = key
		}
		var names []string
		for _, h := range strings.Split(fields[3], ",") {
			names = append(names, unhexf(h))
		}
		return e.cur.batch(names)
	case "R":
		// fields: builtin, tree, hex of the decoded name (for the model), hex of the JSON literal sent
		return rawCall(fields[1] == "1", parseTree(fields[2]), unhexf(fields[4]))
	case "J":
		// fields: tree (a Map), hex of a name added to the assigner between two rpc.serverInfo queries
		t := parseTree(fields[1])
		log := &ctxLog{}
		sv := &c17Server{log: log}
		base, _ := t.build(log, &sv.srv).(handler.Map)
		d := &dynMap{m: handler.Map{}}
		for k, v := range base {
			d.m[k] = v
		}
		cch, sch := channel.Direct()
		sv.srv = jrpc2.NewServer(d, &jrpc2.ServerOptions{Concurrency: 1})
		sv.srv.Start(sch)
		sv.cli = jrpc2.NewClient(cch, nil)
		defer sv.stop()
		first := sv.infoNames()
		// the method is added by a NOTIFICATION's handler, which is still running when the second rpc.serverInfo
		// call arrives: the call is handled after the notification has been (C03), so its answer lists the method
		gate := make(chan struct{})
		d.mu.Lock()
		d.hidden = func(context.Context, *jrpc2.Request) (any, error) {
			<-gate
			d.mu.Lock()
			d.m[unhexf(fields[2])] = func(context.Context, *jrpc2.Request) (any, error) { return map[string]int{"tag": 999}, nil }
			d.mu.Unlock()
			return nil, nil
		}
		d.mu.Unlock()
		if err := sv.cli.Notify(context.Background(), dynHidden, nil); err != nil {
			close(gate)
			return "E?notify:" + err.Error()
		}
		second := make(chan string, 1)
		go func() { second <- sv.infoNames() }()
		time.Sleep(30 * time.Millisecond) // the call has been taken off the queue and waits behind the notification
		close(gate)
		return first + "|" + <-second
	case "M":
		t := parseTree(fields[1])
		var srv *jrpc2.Server
		a := t.build(&ctxLog{}, &srv)
		if n, ok := a.(jrpc2.Namer); ok {
			return showNames(n.Names())
		}
		return "none"
	case "I":
		s := c17Start(true, parseTree(fields[1]))
		defer s.stop()
		var info jrpc2.ServerInfo
		if err := s.cli.CallResult(context.Background(), "rpc.serverInfo", nil, &info); err != nil {
			return "E" + err.Error()
		}
		// metrics and start time must be present
		raw, _ := json.Marshal(info)
		var m map[string]json.RawMessage
		json.Unmarshal(raw, &m)
		if _, ok := m["metrics"]; !ok {
			return "E?nometrics"
		}
		if _, ok := m["startTime"]; !ok {
			return "E?nostart"
		}
		if !sort.StringsAreSorted(info.Methods) {
			return "E?unsorted"
		}
		if !info.StartTime.Equal(c17StartTime) {
			return "E?starttime"
		}
		// the same answers from a second run of the same server
		s.restart()
		var again jrpc2.ServerInfo
		if err := s.cli.CallResult(context.Background(), "rpc.serverInfo", nil, &again); err != nil {
			return "E" + err.Error()
		}
		if !again.StartTime.Equal(c17StartTime) {
			return "E?starttime-after-restart"
		}
		if showNames(again.Methods) != showNames(info.Methods) {
			return "E?methods-after-restart"
		}
		return showNames(info.Methods)
	}
	return "?"
}

func (e *c17Exec) close() {
	if e.cur != nil {
		e.cur.stop()
		e.cur = nil
	}
}

var c17Alpha = []string{"r", "p", "c", ".", "R", "a"}

func c17GenTree(r *rng, depth int, nextID *int) *atree {
	letters := []string{"r", "p", "c", "a", "R"}
	// keys that extend another key with a byte below, at and above '.' (sorting composed names is not sorting keys)
	special := []string{"rpc", "rp", ".", "a.b", "é", "", "x", "rpc.x", "serverInfo", "r.", ".r", "日本",
		"a-", "a-b", "a b", "a!", "a/", "a0", "r-", "r ", "r/", "rpc-x", "p,", "p+q", "*", "*", "r*", "?", "%", " ", "\t", "\u00a0"}
	genKey := func() string {
		switch k := r.intn(20); {
		case k < 12:
			return pick(r, letters)
		case k < 16:
			return pick(r, letters) + pick(r, letters)
		default:
			return pick(r, special)
		}
	}
	if depth == 0 || r.chance(1, 4) {
		t := &atree{kind: 'm'}
		if r.chance(1, 5) {
			t.kind = 'o'
		}
		seen := map[string]bool{}
		for i, n := 0, r.intn(7); i < n; i++ {
			k := genKey()
			if seen[k] {
				continue
			}
			seen[k] = true
			*nextID++
			t.leaves = append(t.leaves, aleaf{k, *nextID})
		}
		return t
	}
	t := &atree{kind: 's'}
	seen := map[string]bool{}
	for i, n := 0, 1+r.intn(4); i < n; i++ {
		k := genKey()
		if seen[k] {
			continue
		}
		seen[k] = true
		t.subs = append(t.subs, asub{k, c17GenTree(r, depth-1, nextID)})
	}
	return t
}

// paths lists the dotted names reachable in t by the naming rule.
func (t *atree) paths() []string {
	var out []string
	if t.kind == 's' {
		for _, s := range t.subs {
			for _, p := range s.t.paths() {
				out = append(out, s.name+"."+p)
			}
			out = append(out, s.name+".")
			out = append(out, s.name)
		}
	} else {
		for _, l := range t.leaves {
			out = append(out, l.name)
		}
	}
	return out
}

func c17Names(r *rng, t *atree, tier string) []string {
	seen := map[string]bool{"": true}
	var out []string
	add := func(s string) {
		if !seen[s] {
			seen[s] = true
			out = append(out, s)
		}
	}
	// names derived from the tree and perturbations of them
	for _, p := range t.paths() {
		add(p)
		add(p + ".")
		add("." + p)
		add(p + ".x")
		add(strings.ToUpper(p))
		add("rpc." + p)
		add(strings.Replace(p, ".", "..", 1))
		if i := strings.LastIndex(p, "."); i >= 0 {
			add(p[:i])
			add(p[:i] + p[i+1:])
		}
	}
	for _, s := range []string{"rpc.serverInfo", "rpc.serverinfo", "rpc.", "rpc", "rpcx", "RPC.serverInfo", "xrpc.serverInfo",
		"rpc.serverInfo.", "rpc..serverInfo", ".rpc.serverInfo", "rpc.x", "rpc.é", "é", "é.é", "日本.語", ".", "..", "...", "a.", ".a", "rpc.serverInfo\u0000", " rpc.x", "rpc .x"} {
		add(s)
	}
	// every string up to a length bound over the alphabet
	maxLen := 4
	if tier == "thorough" {
		maxLen = 5
	}
	var rec func(prefix string, n int)
	rec = func(prefix string, n int) {
		if prefix != "" {
			add(prefix)
		}
		if n == 0 {
			return
		}
		for _, a := range c17Alpha {
			rec(prefix+a, n-1)
		}
	}
	rec("", maxLen)
	if tier != "thorough" {
		for i := 0; i < 300; i++ {
			var sb strings.Builder
			for j := 0; j < 5+r.intn(4); j++ {
				sb.WriteString(pick(r, c17Alpha))
			}
			add(sb.String())
		}
	}
	return out
}

// jsonSpellings returns JSON string literals that all decode to s: Go's own encoding, every character as \uXXXX
// (surrogate pairs beyond the BMP), and / written as \/.
func jsonSpellings(s string) []string {
	plain, _ := json.Marshal(s)
	var esc strings.Builder
	esc.WriteByte('"')
	for _, r := range s {
		if r > 0xffff {
			r -= 0x10000
			fmt.Fprintf(&esc, "\\u%04x\\u%04x", 0xd800+(r>>10), 0xdc00+(r&0x3ff))
		} else {
			fmt.Fprintf(&esc, "\\u%04x", r)
		}
	}
	esc.WriteByte('"')
	out := []string{string(plain), esc.String()}
	if strings.Contains(s, "/") {
		out = append(out, strings.ReplaceAll(string(plain), "/", "\\/"))
	}
	return out
}

func c17Main(cfg *config) {
	w := newCaseWriter(cfg.out)
	defer w.close()
	ex := &c17Exec{}
	defer ex.close()
	if cfg.replay != "" {
		f, err := os.Open(cfg.replay)
		if err != nil {
			fatal("open replay: %v", err)
		}
		sc := bufio.NewScanner(f)
		sc.Buffer(make([]byte, 1<<20), 1<<26)
		for sc.Scan() {
			fields := strings.Split(sc.Text(), "\t")
			w.line(append(fields, ex.exec(fields))...)
		}
		return
	}
	r := newRng(cfg.seed)
	ntrees := 10
	if cfg.tier == "thorough" {
		ntrees = 40
	}
	fixed := []string{
		"s[61:m[78=1;792e7a=2;];62:s[63:m[64=3;];];6f:o[71=4;];]",
		"m[7270632e78=1;7270632e736572766572496e666f=2;727063=3;612e62=4;]",
		"s[727063:m[78=1;736572766572496e666f=2;];-:m[78=3;-=4;];]",
		"s[727063:m[-=5;78=1;];72:m[70632e=6;];]", // ServiceMap{"rpc": Map{"": h, "x": h}}: the name "rpc." reaches a handler unless gated
		"m[7270632e=1;727063=2;7270632e2e=3;]",    // Map{"rpc.": h, "rpc": h, "rpc..": h}
		// ServiceMap{"v1": {Get, Put}, "v1-beta": {Get}, "v1/x": {Get}}: a key that is a proper prefix of another
		"s[7631:m[476574=1;507574=2;];76312d62657461:m[476574=3;];76312f78:m[476574=4;];]",
		// nested, with keys "a", "a b", "a!" at both levels
		"s[61:s[61:m[78=1;];6121:m[78=2;];];612062:m[78=3;7a=4;];6121:m[79=5;];]",
	}
	// a key that is an asterisk is a name like any other (no wildcard); method names longer than any buffer or
	// echo limit a server might have are dispatched under their exact spelling (keys of 300 and 5000 bytes, and
	// their prefixes of 255..257 bytes as keys of their own)
	long := strings.Repeat("abcdefghij", 500)
	fixed = append(fixed,
		"m[2a=1;78=2;]",
		// names that are nothing but white space are names like any other (only the EMPTY name is refused)
		"m[20=1;09=2;c2a0=3;e38080=4;2020=5;0a=6;]",
		"s[73:m[20=1;];20:m[78=2;20=3;];]",
		"s[73:m[2a=1;70=2;];2a:m[78=3;2a=4;];]",
		fmt.Sprintf("m[%s=1;%s=2;%s=3;%s=4;%s=5;]", hexf(long[:300]), hexf(long[:256]), hexf(long[:257]), hexf(long[:255]), hexf(long)),
		fmt.Sprintf("s[%s:m[%s=1;78=2;];73:m[%s=3;];]", hexf(long[:300]), hexf(long[:257]), hexf(long[:300])),
	)
	var trees []*atree
	for _, s := range fixed {
		trees = append(trees, parseTree(s))
	}
	id := 100
	for i := 0; i < ntrees; i++ {
		trees = append(trees, c17GenTree(r, r.intn(4), &id))
	}
	for _, t := range trees {
		ts := t.String()
		fm := []string{"M", ts}
		w.line(append(fm, ex.exec(fm))...)
		fi := []string{"I", ts}
		w.line(append(fi, ex.exec(fi))...)
		if t.kind == 'm' {
			for _, add := range []string{"zz", "0first", "m.mid"} {
				fj := []string{"J", ts, hexf(add)}
				w.line(append(fj, ex.exec(fj))...)
			}
		}
		names := c17Names(r, t, cfg.tier)
		for _, b := range []string{"1", "0"} {
			for _, n := range names {
				fa := []string{"A", b, ts, hexf(n)}
				w.line(append(fa, ex.exec(fa))...)
			}
			// batches: names of the tree with repetitions, unknown and reserved names in between (each member
			// is dispatched on its own: through the assigner, given that member's request)
			paths := append(t.paths(), "nope", "rpc.serverInfo", "rpc.x")
			for k := 0; k < 6; k++ {
				n := 2 + r.intn(4)
				var hs []string
				var first string
				for j := 0; j < n; j++ {
					p := pick(r, paths)
					if j == 0 {
						first = p
					} else if r.chance(1, 3) {
						p = first
					}
					if p == "" {
						p = "nope"
					}
					hs = append(hs, hexf(p))
				}
				fq := []string{"Q", b, ts, strings.Join(hs, ",")}
				w.line(append(fq, ex.exec(fq))...)
			}
			// names spelled on the wire with escapes a JSON peer may use: \/ for /, \uXXXX for any character,
			// surrogate pairs for characters beyond the BMP
			for _, p := range append(t.paths()[:min(3, len(t.paths()))], "a/b", "x\U0001F600", "rpc.serverInfo", "nope") {
				if p == "" {
					continue
				}
				for _, lit := range jsonSpellings(p) {
					fr := []string{"R", b, ts, hexf(p), hexf(lit)}
					w.line(append(fr, ex.exec(fr))...)
				}
			}
		}
	}
}
