package main

// Type descriptors shared by the C15 / C16 harness commands and the OCaml model
// runner (ocaml/run_hand.ml).  A descriptor is the part of a Go type the
// adapters of package handler look at; Go types are GENERATED from descriptors
// with reflect (StructOf, FuncOf, ...) - except types that carry methods, which
// reflect cannot make: those come from a fixed registry of declared types.
//
//	T ::= b | i | f | s            bool, int, float64, string
//	    | a | e | c | q            interface{}, error, context.Context, jrpc2.Request
//	    | o NUM .                  a type without structure of interest (chan, func)
//	    | L T | M T | P T          []T, map[string]T, *T
//	    | Y NUM . T                [NUM]T
//	    | S{ FIELD; ... }          struct
//	    | N RECV NUM ( T )         declared type #NUM of the registry with underlying type T;
//	                               RECV: n = no DisallowUnknownFields method, v = in the method set
//	                               of the type, p = only in the method set of its pointer type
//	FIELD ::= hexname : (hextag | ~) : (0|x|m|xm) : T      x = exported, m = embedded
//	FN ::= NIL | V T | F (0|1) ( T, ... ) ( T, ... )        1 = variadic

import (
	"context"
	"encoding/json"
	"fmt"
	"reflect"
	"strconv"
	"strings"

	"github.com/creachadair/jrpc2"
)

type tnode struct {
	k      byte
	n      int
	recv   byte
	elem   *tnode
	fields []fnode
}

type fnode struct {
	name     string
	tag      string
	hasTag   bool
	exported bool
	embedded bool
	t        *tnode
}

var (
	hCtxType    = reflect.TypeOf((*context.Context)(nil)).Elem()
	hErrType    = reflect.TypeOf((*error)(nil)).Elem()
	hAnyType    = reflect.TypeOf((*any)(nil)).Elem()
	hReqStruct  = reflect.TypeOf(jrpc2.Request{})
	hReqType    = reflect.TypeOf((*jrpc2.Request)(nil))
	hStrictType = reflect.TypeOf((*interface{ DisallowUnknownFields() })(nil)).Elem()
	hOpaque     = []reflect.Type{reflect.TypeOf((chan int)(nil)), reflect.TypeOf((func())(nil)), reflect.TypeOf(complex(1, 1))}
)

// ---- declared types (the registry) -------------------------------------------

type PlainEmb struct {
	E1 int `json:"e1"`
	E2 string
}
type lowerEmb struct {
	L1 int `json:"l1"`
}
type StrictV struct {
	A int    `json:"a"`
	B string `json:"b,omitempty"`
}

func (StrictV) DisallowUnknownFields() {}

type StrictP struct {
	A int `json:"a"`
	B string
}

func (*StrictP) DisallowUnknownFields() {}

type PlainN struct {
	A int `json:"a"`
	B string
	c int
	D int  `json:"-"`
	E bool `json:",omitempty"`
}
type PtrStrictP *StrictP
type PtrPlainN *PlainN
type EmbV struct {
	StrictV
	C int `json:"c"`
}
type EmbP struct {
	StrictP
	C int `json:"c"`
}
type EmbPtr struct {
	*StrictP
	C int
}
type Mixed struct {
	PlainEmb
	lowerEmb
	Pe PlainEmb `json:"pe"`
	X  int      `json:"x"`
	y  string
}
type TaggedEmb struct {
	PlainEmb `json:"emb"`
	Z        int
}
type StrictInt int

func (StrictInt) DisallowUnknownFields() {}

type StrictMap map[string]int

func (StrictMap) DisallowUnknownFields() {}

type NamedInt int
type NamedSlice []int
type StrictArr [2]int

func (*StrictArr) DisallowUnknownFields() {}

// concrete types that implement error (they are NOT the interface type error: as a result type they are an
// ordinary result, as the last result type they do not make a function "report an error")
type ErrStruct struct {
	Msg string `json:"msg"`
}

func (*ErrStruct) Error() string { return "errstruct" }

type ErrString string

func (ErrString) Error() string { return "errstring" }

// Quota rejects most values in its own UnmarshalJSON with an error that carries a JSON-RPC code of its own: a
// rejected parameter is still reported as InvalidParams by the adapters.  (Its descriptor, a declared
// map[string]int without a DisallowUnknownFields method, is shared with no other declared type: the model's decode
// oracle is keyed by descriptors.)
type Quota map[string]int

func (q *Quota) UnmarshalJSON(b []byte) error {
	switch string(b) {
	case "{}":
		*q = Quota{}
		return nil
	case "null":
		return nil
	}
	return jrpc2.Errorf(-32001, "quota exceeded")
}

// SelfDec decodes itself the usual way (json.Unmarshaler on the pointer: decode into a method-less twin, then
// copy): for encoding/json it behaves like a plain struct, and the adapters still map array params to its fields
// before it is asked to decode.  (Field names shared with no other declared type.)
type SelfDec struct {
	Sda int    `json:"sda"`
	Sdb string `json:"sdb"`
}

func (s *SelfDec) UnmarshalJSON(b []byte) error {
	type plain SelfDec
	var p plain
	if err := json.Unmarshal(b, &p); err != nil {
		return err
	}
	*s = SelfDec(p)
	return nil
}

type regEntry struct {
	typ  reflect.Type
	node *tnode
}

var registry []regEntry
var registryIndex = map[reflect.Type]int{}

func init() {
	for _, v := range []any{PlainEmb{}, lowerEmb{}, StrictV{}, StrictP{}, PlainN{}, PtrStrictP(nil), PtrPlainN(nil),
		EmbV{}, EmbP{}, EmbPtr{}, Mixed{}, TaggedEmb{}, StrictInt(0), StrictMap(nil), NamedInt(0), NamedSlice(nil), StrictArr{}, ErrStruct{}, ErrString(""), Quota(nil), SelfDec{}} {
		t := reflect.TypeOf(v)
		registryIndex[t] = len(registry)
		registry = append(registry, regEntry{typ: t})
	}
	for i := range registry {
		registry[i].node = describeType(registry[i].typ)
	}
}

// describeType derives the descriptor of a Go type (used for the declared types,
// whose field lists are then not written twice).
func describeType(t reflect.Type) *tnode {
	if id, ok := registryIndex[t]; ok {
		recv := byte('n')
		if t.Implements(hStrictType) {
			recv = 'v'
		} else if reflect.PointerTo(t).Implements(hStrictType) {
			recv = 'p'
		}
		return &tnode{k: 'N', n: id, recv: recv, elem: describeUnderlying(t)}
	}
	switch t {
	case hCtxType:
		return &tnode{k: 'c'}
	case hErrType:
		return &tnode{k: 'e'}
	case hAnyType:
		return &tnode{k: 'a'}
	case hReqStruct:
		return &tnode{k: 'q'}
	}
	if t.PkgPath() != "" && t.Name() != "" {
		return &tnode{k: 'o', n: 0} // a declared type outside the registry
	}
	return describeUnderlying(t)
}

func describeUnderlying(t reflect.Type) *tnode {
	switch t.Kind() {
	case reflect.Bool:
		return &tnode{k: 'b'}
	case reflect.Int:
		return &tnode{k: 'i'}
	case reflect.Float64:
		return &tnode{k: 'f'}
	case reflect.String:
		return &tnode{k: 's'}
	case reflect.Slice:
		return &tnode{k: 'L', elem: describeType(t.Elem())}
	case reflect.Array:
		return &tnode{k: 'Y', n: t.Len(), elem: describeType(t.Elem())}
	case reflect.Map:
		if t.Key().Kind() == reflect.String {
			return &tnode{k: 'M', elem: describeType(t.Elem())}
		}
	case reflect.Ptr:
		return &tnode{k: 'P', elem: describeType(t.Elem())}
	case reflect.Struct:
		n := &tnode{k: 'S'}
		for i := 0; i < t.NumField(); i++ {
			f := t.Field(i)
			tag, has := f.Tag.Lookup("json")
			n.fields = append(n.fields, fnode{name: f.Name, tag: tag, hasTag: has, exported: f.IsExported(),
				embedded: f.Anonymous, t: describeType(f.Type)})
		}
		return n
	}
	for i, o := range hOpaque {
		if o == t {
			return &tnode{k: 'o', n: i}
		}
	}
	return &tnode{k: 'o', n: 0}
}

// ---- rendering / parsing -----------------------------------------------------

func (t *tnode) String() string {
	var sb strings.Builder
	t.render(&sb)
	return sb.String()
}

func (t *tnode) render(sb *strings.Builder) {
	sb.WriteByte(t.k)
	switch t.k {
	case 'o':
		sb.WriteString(strconv.Itoa(t.n))
		sb.WriteByte('.')
	case 'L', 'M', 'P':
		t.elem.render(sb)
	case 'Y':
		sb.WriteString(strconv.Itoa(t.n))
		sb.WriteByte('.')
		t.elem.render(sb)
	case 'S':
		sb.WriteByte('{')
		for _, f := range t.fields {
			sb.WriteString(hexf(f.name))
			sb.WriteByte(':')
			if f.hasTag {
				sb.WriteString(hexf(f.tag))
			} else {
				sb.WriteByte('~')
			}
			sb.WriteByte(':')
			fl := ""
			if f.exported {
				fl += "x"
			}
			if f.embedded {
				fl += "m"
			}
			if fl == "" {
				fl = "0"
			}
			sb.WriteString(fl)
			sb.WriteByte(':')
			f.t.render(sb)
			sb.WriteByte(';')
		}
		sb.WriteByte('}')
	case 'N':
		sb.WriteByte(t.recv)
		sb.WriteString(strconv.Itoa(t.n))
		sb.WriteByte('(')
		t.elem.render(sb)
		sb.WriteByte(')')
	}
}

type tparser struct {
	s string
	p int
}

func (p *tparser) peek() byte {
	if p.p >= len(p.s) {
		panic("descriptor: unexpected end")
	}
	return p.s[p.p]
}
func (p *tparser) next() byte { c := p.peek(); p.p++; return c }
func (p *tparser) expect(c byte) {
	if p.next() != c {
		panic(fmt.Sprintf("descriptor: expected %q at %d in %q", c, p.p-1, p.s))
	}
}
func (p *tparser) until(stop string) string {
	st := p.p
	for strings.IndexByte(stop, p.peek()) < 0 {
		p.p++
	}
	return p.s[st:p.p]
}
func (p *tparser) num(stop byte) int {
	s := p.until(string(stop))
	p.expect(stop)
	n, err := strconv.Atoi(s)
	if err != nil {
		panic("descriptor: bad number " + s)
	}
	return n
}

func (p *tparser) ty() *tnode {
	k := p.next()
	switch k {
	case 'b', 'i', 'f', 's', 'a', 'e', 'c', 'q':
		return &tnode{k: k}
	case 'o':
		return &tnode{k: k, n: p.num('.')}
	case 'L', 'M', 'P':
		return &tnode{k: k, elem: p.ty()}
	case 'Y':
		n := p.num('.')
		return &tnode{k: k, n: n, elem: p.ty()}
	case 'S':
		p.expect('{')
		t := &tnode{k: k}
		for p.peek() != '}' {
			var f fnode
			f.name = unhexf(p.until(":"))
			p.expect(':')
			tg := p.until(":")
			p.expect(':')
			if tg != "~" {
				f.hasTag = true
				f.tag = unhexf(tg)
			}
			fl := p.until(":")
			p.expect(':')
			f.exported = strings.Contains(fl, "x")
			f.embedded = strings.Contains(fl, "m")
			f.t = p.ty()
			p.expect(';')
			t.fields = append(t.fields, f)
		}
		p.expect('}')
		return t
	case 'N':
		r := p.next()
		n := p.num('(')
		e := p.ty()
		p.expect(')')
		return &tnode{k: k, recv: r, n: n, elem: e}
	}
	panic(fmt.Sprintf("descriptor: bad kind %q in %q", k, p.s))
}

func parseType(s string) *tnode {
	p := &tparser{s: s}
	t := p.ty()
	if p.p != len(s) {
		panic("descriptor: trailing text in " + s)
	}
	return t
}

// fndesc is a value handed to Check / Positional.
type fndesc struct {
	kind     byte // 'N' nil, 'V' non-function value, 'F' function
	val      *tnode
	variadic bool
	ins      []*tnode
	outs     []*tnode
}

func (f *fndesc) String() string {
	switch f.kind {
	case 'N':
		return "NIL"
	case 'V':
		return "V" + f.val.String()
	}
	var sb strings.Builder
	sb.WriteByte('F')
	if f.variadic {
		sb.WriteByte('1')
	} else {
		sb.WriteByte('0')
	}
	for _, l := range [][]*tnode{f.ins, f.outs} {
		sb.WriteByte('(')
		for _, t := range l {
			t.render(&sb)
			sb.WriteByte(',')
		}
		sb.WriteByte(')')
	}
	return sb.String()
}

func parseFn(s string) *fndesc {
	if s == "NIL" {
		return &fndesc{kind: 'N'}
	}
	if s[0] == 'V' {
		return &fndesc{kind: 'V', val: parseType(s[1:])}
	}
	p := &tparser{s: s}
	p.expect('F')
	f := &fndesc{kind: 'F', variadic: p.next() == '1'}
	for i := 0; i < 2; i++ {
		p.expect('(')
		var l []*tnode
		for p.peek() != ')' {
			l = append(l, p.ty())
			p.expect(',')
		}
		p.expect(')')
		if i == 0 {
			f.ins = l
		} else {
			f.outs = l
		}
	}
	return f
}

// ---- building Go types ---------------------------------------------------------

// buildType makes the Go type of a descriptor; it panics when reflect cannot
// make it (callers recover and skip the descriptor).
func buildType(t *tnode) reflect.Type {
	switch t.k {
	case 'b':
		return reflect.TypeOf(false)
	case 'i':
		return reflect.TypeOf(0)
	case 'f':
		return reflect.TypeOf(1.5)
	case 's':
		return reflect.TypeOf("")
	case 'a':
		return hAnyType
	case 'e':
		return hErrType
	case 'c':
		return hCtxType
	case 'q':
		return hReqStruct
	case 'o':
		return hOpaque[t.n%len(hOpaque)]
	case 'L':
		return reflect.SliceOf(buildType(t.elem))
	case 'M':
		return reflect.MapOf(reflect.TypeOf(""), buildType(t.elem))
	case 'P':
		return reflect.PointerTo(buildType(t.elem))
	case 'Y':
		return reflect.ArrayOf(t.n, buildType(t.elem))
	case 'N':
		return registry[t.n].typ
	case 'S':
		var fs []reflect.StructField
		for _, f := range t.fields {
			sf := reflect.StructField{Name: f.name, Type: buildType(f.t), Anonymous: f.embedded}
			if f.hasTag {
				sf.Tag = reflect.StructTag(`json:"` + f.tag + `"`)
			}
			if !f.exported {
				sf.PkgPath = "main"
			}
			fs = append(fs, sf)
		}
		return reflect.StructOf(fs)
	}
	panic("buildType: bad node")
}

// underlying / pointee as the adapters see them (Kind looks through names)
func (t *tnode) under() *tnode {
	if t.k == 'N' {
		return t.elem
	}
	return t
}
func (t *tnode) pointee() *tnode {
	if u := t.under(); u.k == 'P' {
		return u.elem
	}
	return t
}

// docFields lists the fields of a struct (or pointer to struct) argument that the
// documentation of handler.Check calls eligible for the array form: "mapped to the
// fields in the order of declaration, save that unexported fields are skipped; a
// field with a `json:\"-\"` tag is also skipped; anonymous fields are skipped unless
// they are tagged" - under the tagged name when there is one.  The harness needs it
// only to know WHICH translated object to put to encoding/json; the model computes
// the names on its own and the runner reports ORACLEMISS if the two disagree.
func docFields(arg *tnode) (bool, []string, []*tnode) {
	st := arg.pointee().under()
	if st.k != 'S' {
		return false, nil, nil
	}
	var names []string
	var types []*tnode
	for _, f := range st.fields {
		if !f.exported {
			continue
		}
		name := ""
		if f.hasTag {
			if f.tag == "-" {
				continue
			}
			name = strings.SplitN(f.tag, ",", 2)[0]
		}
		if name == "" {
			if f.embedded {
				continue
			}
			name = f.name
		}
		names = append(names, name)
		types = append(types, f.t)
	}
	return true, names, types
}
