package main

// Generators of JSON texts shared by the json glue check, C13 and the pure part of C02.

import (
	"strings"
	"unicode/utf8"
)

// boundary code points and ill-formed sequences (as raw bytes)
var utf8Corpus = []string{
	"\x00", "\x01", "\x08", "\x09", "\x0a", "\x0c", "\x0d", "\x1f", " ", "\"", "\\", "/", "<", ">", "&", "'", "\x7f",
	"\xc2\x80", "\xdf\xbf", "\xe0\xa0\x80", "\xe0\xbf\xbf", "\xe1\x80\x80", "\xec\xbf\xbf", "\xed\x80\x80", "\xed\x9f\xbf",
	"\xee\x80\x80", "\xef\xbf\xbd", "\xef\xbf\xbf", "\xf0\x90\x80\x80", "\xf0\xbf\xbf\xbf", "\xf1\x80\x80\x80",
	"\xf3\xbf\xbf\xbf", "\xf4\x80\x80\x80", "\xf4\x8f\xbf\xbf",
	"\xe2\x80\xa7", "\xe2\x80\xa8", "\xe2\x80\xa9", "\xe2\x80\xaa", "\xe2\x80", "\xe2\x81\xa8", "\xe2", "\xe2\x80\xa8\xa9",
	// ill-formed
	"\x80", "\xbf", "\xc0\x80", "\xc1\xbf", "\xc2", "\xc2\x7f", "\xc2\xc0", "\xe0\x80\x80", "\xe0\x9f\xbf", "\xe0\xa0", "\xe0\xa0\x7f",
	"\xed\xa0\x80", "\xed\xbf\xbf", "\xef\xbf", "\xf0\x80\x80\x80", "\xf0\x8f\xbf\xbf", "\xf0\x90\x80", "\xf0\x90", "\xf0",
	"\xf4\x90\x80\x80", "\xf5\x80\x80\x80", "\xf8\x88\x80\x80\x80", "\xfe", "\xff", "\xf0\x90\x80\x7f", "\xf0\x90\x7f\x80",
	"é", "ß", "€", "日本", "😀", "ſ", "K",
}

func genUTF8Char(r *rng) string {
	switch r.intn(10) {
	case 0, 1, 2:
		return string(rune(0x20 + r.intn(0x5f)))
	case 3:
		return string(rune(r.intn(0x20)))
	case 4:
		return string(rune(0x80 + r.intn(0x780)))
	case 5:
		c := rune(0x800 + r.intn(0xf800))
		if c >= 0xd800 && c < 0xe000 {
			c = 0x2028 + rune(r.intn(2))
		}
		return string(c)
	case 6:
		return string(rune(0x10000 + r.intn(0x100000)))
	default:
		return pick(r, utf8Corpus)
	}
}

// a Go string (arbitrary bytes unless validOnly)
func genGoString(r *rng, validOnly bool) string {
	n := r.intn(8)
	if r.chance(1, 10) {
		n = r.intn(40)
	}
	var sb strings.Builder
	for i := 0; i < n; i++ {
		c := genUTF8Char(r)
		if validOnly && !utf8.ValidString(c) {
			continue
		}
		sb.WriteString(c)
	}
	return sb.String()
}

var hexDigits = "0123456789abcdefABCDEF"

// body of a JSON string literal (between the quotes): raw characters, escapes, \u forms,
// surrogate pairs and lone surrogates; invalid UTF-8 bytes allowed (the scanner is lenient)
func genStrBody(r *rng) string {
	n := r.intn(6)
	if r.chance(1, 12) {
		n = r.intn(30)
	}
	var sb strings.Builder
	for i := 0; i < n; i++ {
		switch r.intn(12) {
		case 0:
			sb.WriteString(pick(r, []string{`\"`, `\\`, `\/`, `\b`, `\f`, `\n`, `\r`, `\t`}))
		case 1:
			sb.WriteString(`\u`)
			for k := 0; k < 4; k++ {
				sb.WriteByte(hexDigits[r.intn(len(hexDigits))])
			}
		case 2:
			sb.WriteString(pick(r, []string{"\\ud800", "\\udbff", "\\udc00", "\\udfff", "\\ud83d\\ude00", "\\ud800\\udc00", "\\udbff\\udfff", "\\ud800\\ud800", "\\udc00\\ud800", "\\ud800" + "x", "\\ud800" + "\\n", "\\ud800\\u0041", "\\uD83D\\uDE00", "\\ud7ff\\udc00", "\\ue000\\udc00", "\\u0000", "\\u001f", "\\u007f", "\\u0080", "\\u07ff", "\\u0800", "\\uffff", "\\ufffd", "\\u2028", "\\u2029", "\\u003c", "\\ud800\\udbff", "\\ud800\\ue000", "\\udbff\\udc00", "\\ud800\\udfff", "\\udbff\\udbff"}))
		case 3, 4:
			c := genUTF8Char(r)
			if len(c) == 1 && (c[0] < 0x20 || c[0] == '"' || c[0] == '\\') {
				c = "x"
			}
			sb.WriteString(c)
		default:
			sb.WriteByte(byte(0x23 + r.intn(0x39))) // '#'..'[' : no quote, no backslash
		}
	}
	return sb.String()
}

func genWS(r *rng) string {
	if r.chance(3, 5) {
		return ""
	}
	n := 1 + r.intn(3)
	var sb strings.Builder
	for i := 0; i < n; i++ {
		sb.WriteByte(" \t\n\r"[r.intn(4)])
	}
	return sb.String()
}

var numCorpus = []string{"0", "-0", "1", "-1", "10", "123", "0.5", "-0.5", "1.25", "1e3", "1E3", "1e+3", "1e-3", "1.5e10", "0e0", "-0.0e-0",
	"9223372036854775807", "9223372036854775808", "-9223372036854775808", "-9223372036854775809", "18446744073709551615", "18446744073709551616",
	"2147483647", "2147483648", "-2147483648", "-2147483649", "1e400", "0.000000000000000000000000000001", "123456789012345678901234567890"}

func genNumber(r *rng) string {
	if r.chance(1, 2) {
		return pick(r, numCorpus)
	}
	var sb strings.Builder
	if r.chance(1, 3) {
		sb.WriteByte('-')
	}
	if r.chance(1, 4) {
		sb.WriteByte('0')
	} else {
		sb.WriteByte(byte('1' + r.intn(9)))
		for i := r.intn(5); i > 0; i-- {
			sb.WriteByte(byte('0' + r.intn(10)))
		}
	}
	if r.chance(1, 3) {
		sb.WriteByte('.')
		for i := 1 + r.intn(3); i > 0; i-- {
			sb.WriteByte(byte('0' + r.intn(10)))
		}
	}
	if r.chance(1, 4) {
		sb.WriteByte("eE"[r.intn(2)])
		if r.chance(1, 2) {
			sb.WriteByte("+-"[r.intn(2)])
		}
		for i := 1 + r.intn(2); i > 0; i-- {
			sb.WriteByte(byte('0' + r.intn(10)))
		}
	}
	return sb.String()
}

// a valid JSON value text (no surrounding white space; white space inside unless tight)
func genValue(r *rng, depth int, tight bool) string {
	ws := func() string {
		if tight {
			return ""
		}
		return genWS(r)
	}
	k := r.intn(10)
	if depth <= 0 && k >= 6 {
		k = r.intn(6)
	}
	switch k {
	case 0:
		return "null"
	case 1:
		return pick(r, []string{"true", "false"})
	case 2, 3:
		return genNumber(r)
	case 4, 5:
		return `"` + genStrBody(r) + `"`
	case 6, 7:
		n := r.intn(4)
		var sb strings.Builder
		sb.WriteByte('[')
		sb.WriteString(ws())
		for i := 0; i < n; i++ {
			if i > 0 {
				sb.WriteByte(',')
				sb.WriteString(ws())
			}
			sb.WriteString(genValue(r, depth-1, tight))
			sb.WriteString(ws())
		}
		sb.WriteByte(']')
		return sb.String()
	default:
		n := r.intn(4)
		var sb strings.Builder
		sb.WriteByte('{')
		sb.WriteString(ws())
		keys := []string{}
		for i := 0; i < n; i++ {
			if i > 0 {
				sb.WriteByte(',')
				sb.WriteString(ws())
			}
			key := genStrBody(r)
			if len(keys) > 0 && r.chance(1, 5) {
				key = pick(r, keys) // duplicate key
			}
			keys = append(keys, key)
			sb.WriteString(`"` + key + `"`)
			sb.WriteString(ws())
			sb.WriteByte(':')
			sb.WriteString(ws())
			sb.WriteString(genValue(r, depth-1, tight))
			sb.WriteString(ws())
		}
		sb.WriteByte('}')
		return sb.String()
	}
}

var mutBytes = []byte("{}[],:\"\\ \t\n\r0123456789-+.eEtrufalsn/bx\x00\x1f\x7f\x80\xe2\xff<>&'\x0b\x0c")

// one random edit of a text
func mutate(r *rng, s string) string {
	b := []byte(s)
	switch r.intn(7) {
	case 0: // delete a byte
		if len(b) > 0 {
			i := r.intn(len(b))
			b = append(b[:i:i], b[i+1:]...)
		}
	case 1: // insert a byte
		i := r.intn(len(b) + 1)
		c := mutBytes[r.intn(len(mutBytes))]
		b = append(b[:i:i], append([]byte{c}, b[i:]...)...)
	case 2: // replace a byte
		if len(b) > 0 {
			b[r.intn(len(b))] = mutBytes[r.intn(len(mutBytes))]
		}
	case 3: // truncate
		if len(b) > 0 {
			b = b[:r.intn(len(b))]
		}
	case 4: // duplicate a slice
		if len(b) > 0 {
			i := r.intn(len(b))
			j := i + r.intn(len(b)-i)
			b = append(b[:j:j], append(append([]byte{}, b[i:j]...), b[j:]...)...)
		}
	case 5: // flip a bit
		if len(b) > 0 {
			b[r.intn(len(b))] ^= 1 << uint(r.intn(8))
		}
	case 6: // append junk
		b = append(b, mutBytes[r.intn(len(mutBytes))])
	}
	return string(b)
}

var jsonCorpus = []string{
	"", " ", "null", " null ", "nul", "nulll", "true", "false", "tru", "True", "0", "-", "-0", "00", "01", "1.", ".1", "1.e1", "1e", "1e+", "1e+1", "+1",
	"1 2", "1,", "[", "]", "[]", "[ ]", "[,]", "[1,]", "[,1]", "[1 2]", "[1,2]", "{", "}", "{}", "{ }", "{,}", `{"a"}`, `{"a":}`, `{"a":1,}`,
	`{"a":1}`, `{"a":1,"a":2}`, `{"a":1,"b":2,"a":3}`, `{a:1}`, `{"a" 1}`, `{"a":1 "b":2}`, `{1:2}`, `""`, `"`, `"a`, `"\"`, `"\x"`, `"\u"`, `"\u12"`,
	`"\u123g"`, "\"\\u1234\"", `"\'"`, "\"\t\"", "\"\n\"", "\"\x1f\"", "\"\x7f\"", "\"\x80\"", "\"\xff\"", `"\ud800"`, "\"\\ud800\\udc00\"", `"\udc00\ud800"`,
	"\ufeff1", "\v1", "1\v", "\f[1]", "\u00a0[1]", "\u0085{}", " [1] ", "\t\n\r [ 1 , 2 ] \t\n\r", "[[[]]]", "[{}]", "{\"a\":[{}]}",
	`{"a":null}`, `{"":1}`, "{\"\\u0061\":1,\"a\":2}", "{\"a\":1,\"\\u0061\":2}", `[null]`, `[null,null]`, `"<>&"`, "\"\u2028\u2029\"", `{"<":"&"}`,
	"[1]x", "{}x", "nullx", "truefalse", "1e5x", "1x", "\"a\"x", "[1]]", "{}}", "[1] [2]", "\x00", "[\x00]", "1\x00",
}
