package main

// jsonglue: differential test of the Coq JSON layer (coq/json/Json.v) against encoding/json.
// Case lines:  <kind> <hex input> <observation>
//   V text   -> json.Valid                                   1 | 0
//   R text   -> Unmarshal into json.RawMessage               E | hex span
//   A text   -> Unmarshal into []json.RawMessage             E | L<n>:hex,hex,...
//   M text   -> Unmarshal into map[string]json.RawMessage    E | M<n>:hexkey=hexval,... (sorted by key)
//   S text   -> Unmarshal into a string preset to "PRE"      E | N (untouched) | S<hex>
//   Q bytes  -> json.Marshal(string(bytes))                  hex
//   C text   -> json.Marshal(json.RawMessage(text))          E | hex
//   P text   -> json.Compact                                 E | hex
//   U bytes  -> utf8.Valid                                   1 | 0

import (
	"bufio"
	"bytes"
	"encoding/json"
	"fmt"
	"os"
	"sort"
	"strings"
	"unicode/utf8"
)

func init() { commands["jsonglue"] = jsonGlueMain }

func glueObserve(kind, in string) string {
	switch kind {
	case "V":
		if json.Valid([]byte(in)) {
			return "1"
		}
		return "0"
	case "R":
		var raw json.RawMessage
		if err := json.Unmarshal([]byte(in), &raw); err != nil {
			return "E"
		}
		return hexf(string(raw))
	case "A":
		var raws []json.RawMessage
		if err := json.Unmarshal([]byte(in), &raws); err != nil {
			return "E"
		}
		parts := make([]string, len(raws))
		for i, x := range raws {
			parts[i] = hexf(string(x))
		}
		return fmt.Sprintf("L%d:%s", len(raws), strings.Join(parts, ","))
	case "M":
		var m map[string]json.RawMessage
		if err := json.Unmarshal([]byte(in), &m); err != nil {
			return "E"
		}
		keys := make([]string, 0, len(m))
		for k := range m {
			keys = append(keys, k)
		}
		sort.Strings(keys)
		parts := make([]string, len(keys))
		for i, k := range keys {
			parts[i] = hexf(k) + "=" + hexf(string(m[k]))
		}
		return fmt.Sprintf("M%d:%s", len(keys), strings.Join(parts, ","))
	case "S":
		s := "PRE"
		if err := json.Unmarshal([]byte(in), &s); err != nil {
			return "E"
		}
		if s == "PRE" {
			// distinguish "untouched" from a literal "PRE" by a second probe
			t := "QRE"
			json.Unmarshal([]byte(in), &t)
			if t == "QRE" {
				return "N"
			}
		}
		return "S" + hexf(s)
	case "Q":
		b, err := json.Marshal(in)
		if err != nil {
			return "E"
		}
		return hexf(string(b))
	case "C":
		b, err := json.Marshal(json.RawMessage(in))
		if err != nil {
			return "E"
		}
		return hexf(string(b))
	case "P":
		var buf bytes.Buffer
		if err := json.Compact(&buf, []byte(in)); err != nil {
			return "E"
		}
		return hexf(buf.String())
	case "U":
		if utf8.Valid([]byte(in)) {
			return "1"
		}
		return "0"
	}
	fatal("bad kind %q", kind)
	return ""
}

func jsonGlueMain(cfg *config) {
	w := newCaseWriter(cfg.out)
	defer w.close()
	emit := func(kind, in string) { w.line(kind, hexf(in), glueObserve(kind, in)) }
	if cfg.replay != "" {
		f, err := os.Open(cfg.replay)
		if err != nil {
			fatal("open replay: %v", err)
		}
		defer f.Close()
		sc := bufio.NewScanner(f)
		sc.Buffer(make([]byte, 1<<20), 1<<28)
		for sc.Scan() {
			p := strings.Split(sc.Text(), "\t")
			if len(p) >= 2 {
				emit(p[0], unhexf(p[1]))
			}
		}
		return
	}
	r := newRng(cfg.seed)
	thorough := cfg.tier == "thorough"
	textKinds := []string{"V", "R", "A", "M", "S", "C", "P"}
	allText := func(t string) {
		for _, k := range textKinds {
			emit(k, t)
		}
	}
	// 1. fixed corpus through every text entry point
	for _, t := range jsonCorpus {
		allText(t)
	}
	// 2. strings: all 1-byte strings, all 2-byte strings, boundary classes (also as raw literal bodies)
	for a := 0; a < 256; a++ {
		s := string([]byte{byte(a)})
		emit("Q", s)
		emit("U", s)
		emit("S", `"`+s+`"`)
		emit("C", `"`+s+`"`)
		emit("V", `"`+s+`"`)
	}
	for a := 0; a < 256; a++ {
		for b := 0; b < 256; b++ {
			s := string([]byte{byte(a), byte(b)})
			emit("Q", s)
			if thorough || (a >= 0x80 || b >= 0x80 || a == '\\') {
				emit("S", `"`+s+`"`)
			}
		}
	}
	for _, a := range utf8Corpus {
		emit("Q", a)
		emit("U", a)
		emit("S", `"`+a+`"`)
		emit("C", `"`+a+`"`)
		for _, b := range utf8Corpus {
			emit("Q", a+b)
			emit("U", a+b)
			emit("S", `"`+a+b+`"`)
			emit("C", `["`+a+b+`"]`)
		}
	}
	// all \uXXXX at interesting values, alone and followed by a second escape
	us := []int{0, 1, 0x1f, 0x20, 0x22, 0x5c, 0x7f, 0x80, 0x7ff, 0x800, 0xfff, 0x1000, 0x2027, 0x2028, 0x2029, 0x202a, 0xd7ff, 0xd800, 0xd801, 0xdbff,
		0xdc00, 0xdc01, 0xdfff, 0xe000, 0xfffd, 0xfffe, 0xffff}
	for _, u1 := range us {
		emit("S", fmt.Sprintf(`"\u%04x"`, u1))
		emit("S", fmt.Sprintf(`"\u%04X"`, u1))
		for _, u2 := range us {
			emit("S", fmt.Sprintf(`"\u%04x\u%04x"`, u1, u2))
			emit("S", fmt.Sprintf(`"a\u%04xb\u%04xc"`, u1, u2))
		}
	}
	if thorough {
		for u := 0; u < 0x10000; u++ {
			emit("S", fmt.Sprintf(`"\u%04x"`, u))
		}
		for hi := 0xd800; hi < 0xdc00; hi += 7 {
			for lo := 0xdc00; lo < 0xe000; lo += 13 {
				emit("S", fmt.Sprintf(`"\u%04x\u%04x"`, hi, lo))
			}
		}
	}
	// 3. deep nesting around the 10000 limit
	for _, n := range []int{9999, 10000, 10001} {
		for _, br := range []string{"[]", "{}"} {
			var t string
			if br == "[]" {
				t = strings.Repeat("[", n) + strings.Repeat("]", n)
			} else {
				t = strings.Repeat(`{"a":`, n-1) + "{}" + strings.Repeat("}", n-1)
			}
			emit("V", t)
			emit("R", t)
			emit("C", t)
			emit("V", " "+t+" ")
			emit("V", "["+t+"]")
		}
		t := strings.Repeat("[", n) // unterminated
		emit("V", t)
		t = strings.Repeat("[", n-1) + `"x"` + strings.Repeat("]", n-1)
		emit("V", t)
		emit("A", t)
	}
	// 4. generated texts and mutants
	n := cfg.n
	if thorough {
		n *= 20
	}
	for i := 0; i < n; i++ {
		t := genValue(r, 1+r.intn(4), false)
		switch r.intn(4) {
		case 0:
			t = genWS(r) + t + genWS(r)
		case 1: // force an object / array at top so that M and A are exercised
			if r.chance(1, 2) {
				t = "[" + genWS(r) + t + genWS(r) + "," + genValue(r, 2, false) + genWS(r) + "]"
			} else {
				t = `{"` + genStrBody(r) + `":` + genWS(r) + t + `,"` + genStrBody(r) + `"` + genWS(r) + `:` + genValue(r, 2, false) + "}"
			}
		}
		allText(t)
		m := t
		for k := 1 + r.intn(2); k > 0; k-- {
			m = mutate(r, m)
		}
		allText(m)
		s := genGoString(r, false)
		emit("Q", s)
		emit("U", s)
	}
}
