#!/bin/sh
# tools/sweep.sh "<seeds>" "<props>" [tier]  - runs ./check for every seed x property, prints one line each (exit code, VIOLATION lines)
seeds="$1"; props="$2"; tier="${3:-quick}"
for s in $seeds; do for p in $props; do
  t0=$(date +%s)
  VERIF_SEED=$s ./check $p --tier $tier > out/sweep-$p-$s.log 2>&1; rc=$?
  t1=$(date +%s)
  echo "seed=$s prop=$p rc=$rc wall=$((t1-t0)) $(grep -c VIOLATION out/sweep-$p-$s.log) $(grep VIOLATION out/sweep-$p-$s.log | head -3 | tr '\n' ' ')"
done; done
