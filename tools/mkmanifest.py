#!/usr/bin/env python3
"""Regenerates MANIFEST.json from the table below (one place to edit).
A property is claimed iff coq/props/<id>.v, vlib/<id>.py exist and it is listed in CLAIMED."""
import json
import os

ROOT = os.path.dirname(os.path.dirname(os.path.abspath(__file__)))

TECH = "Rocq/Coq proof over executable model + differential correspondence check against the Go code"

# session-3 addenda to the level texts (appended by the generator)
ADDENDA = {
    "C01": " Liveness as EVENTUALLY (release steps and handler returns strictly decrease a measure: everything accepted is answered). Also: units are the accepted messages in FIFO order (ghost log), a unit is delivered exactly once iff it is not silent, a reply body is the outcome of the unique handler invocation; no reachable state has crashed (C08), so no crash hypothesis remains. The monitor 'a response id is sent at most as often as it was fed' is a Coq function proved of every model run (c01_mon_reply_once_sound) and evaluated by the extracted runner on every log, racing ones included.",
    "C02": " Also: survival stated on reach/step with no crash disjunct; every emitted response is id-null -32700/-32600 or the reply to a received call. Monitors 'no token starts its handler more often than it was fed' and 'gates never outnumber starts' proved of every model run (c02_mon_start_once_sound, c02_mon_gate_after_start_sound) and evaluated on every log, racing ones included.",
    "C03": " Also in step and trace form (the notification's completion precedes every later handler entry), the liveness half at quiescence, arrival order = unit order; racing scenarios and scripted histories in the harness. The barrier monitor is a Coq function proved of every model run (c03_mon_barrier_sound) and evaluated on every log, racing ones included.",
    "C04": " Nothing partial: a returned value is the first member delivered for that id while pending (ghost delivery log), order/partition irrelevance, wire ids and spec order of batches, single consumer per reply. Monitors of the racing scenarios are Coq functions proved of every model run and evaluated by the extracted runner on every log, racing ones included: mon_ids_fresh (c04_mon_ids_fresh_sound).",
    "C05": " Nothing partial: liveness at quiescence and reachability of quiescence by release steps (measure), OnCancel exactly-once counting, OnStop once with the first cause, Close returns only after every callback handler, no goroutine left, failure outcomes. The client harness has a racing mode (monitors only). Monitors of the racing scenarios are Coq functions proved of every model run and evaluated by the extracted runner on every log, racing ones included: mon_return_once, mon_onstop_once, mon_close_seals.",
    "C06": " Also: step-level work conservation (a released slot is handed to the head waiter in the same window), waits only when full in every reachable state. Monitors of the racing scenarios are Coq functions proved of every model run and evaluated by the extracted runner on every log, racing ones included: mon_concurrency (c06_mon_concurrency_sound, every prefix).",
    "C07": " Also: free iff no unfinished holder, a freed id is accepted again, delivering one unit leaves other units' reservations and contexts alone. The base context (ServerOptions.NewContext) is not in the model: that cause is covered by racing scenarios and monitors only. Monitors of the racing scenarios are Coq functions proved of every model run and evaluated by the extracted runner on every log, racing ones included: mon_duplicate (c07_mon_duplicate_sound; the unconditional form is refuted with a witness), mon_cancel_cause (c07_mon_cancel_cause_sound).",
    "C08": " Also: status flags as WaitStatus computes them, notifications handled after a stop, no callback watcher left, Start enabled after WaitStatus, release steps strictly decrease a measure (eventual quiescence/termination). Restart: a restarted server is the embedding of a fresh one for EVERY history, callback records included (c08_restart_simulation: step commutes with the embedding, runs correspond both ways up to the renaming of callback ids; environment hypotheses explicit and each shown necessary by a refutation witness). No _partial theorem remains. Monitor mon_wait_status (c08_mon_wait_status_sound: the reported status class has its cause among the environment labels) is a Coq function proved of every model run and evaluated on every log, racing ones included.",
    "C09": " Also: gate and late replies stated on step from reachable states, exactly one return per push call over whole traces. The check also runs the library's own Client as the callback peer (family cli:c09: handlers that fail with coded/uncoded errors, return unencodable values, panic) against the client model. Monitors of the racing scenarios are Coq functions proved of every model run and evaluated by the extracted runner on every log, racing ones included: mon_push_ids (c09_push_ids_consecutive, c09_push_returns_le_calls).",
    "C10": " Byte level: what the server and client models pass to Send encodes to one JSON object or non-empty array of objects that parses back (module Bytes10). Also: every run of the server model mapped to lock/Send/Recv/Close events is well-locked and disciplined; client half (module Cli): Close once, every channel operation inside one critical section, none after stop, single reader. The check drives both sides (families c10 and cli:c10).",
    "C11": " Also: Direct under every interleaving of Send/Recv/Close, independence of the reader window, chunked-reader models for the split and header framings (recv over any chunking = recv over the concatenation), RawJSON literals.",
    "C12": " Also: explicit Content-Length rejection, remaining stream is a suffix for every outcome, RawJSON error stickiness and truncation kind, per-call (every n) no-crash theorems, RawJSON records are valid per the independent JSON grammar.",
    "C13": " Also: compaction preserves the JSON value, null ids/params, bridge replies, every record the transition models emit is a message at byte level. Nothing partial: parse-of-print of the JSON model proved for all inputs, batch form, error-object fallback of fix a8edc0b (encoder total).",
    "C14": " Also: the two JSON models (Errs scanner, Json tree) are proved equal, data arrive equal as JSON values, Batch and callback directions, nesting side condition. After fix a8edc0b a reply is never lost (undeliverable error data are dropped), batch members independent; old behaviour behind switch fix16 with refutation witnesses. The check also runs the callback direction (an *Error from a client's OnCallback handler reaches Server.Callback's caller: family cli:c09 against the client model) and the HTTP transport (family hc:bridge: handler errors over jhttp.Channel + Bridge equal those over a direct connection).",
    "C15": " Also: check_info, handle-once (calls <= 1, result and error unchanged), non-interference of concurrent calls with per-call scratch state.",
    "C16": " Also: null elements, iff form of acceptance, Args marshalling elementwise, Obj leaves absent targets untouched also on failure.",
    "C17": " Also: serverInfo method list, Names duplicate-free, the gate of the dispatch model linked to SrvModel.assign_method on every reachable state, context record (assigner and handler see the dispatched request; only the handler sees the server).",
    "C18": " Also: handler log exactly once per valid member for the table inner, status 204 iff no call and no invalid member, n-party isolation for any allocation schedule.",
    "C19": " Nothing partial: same results for the client model over jhttp.Channel+Bridge and over a direct connection (direct_answer), Getter bodies always valid JSON at byte level.",
    "C20": " Also: per-connection life order, finish log, NetAccepter modelled and composed (context end -> Loop returns nil), internal steps terminate; NetAccepter itself is probed by scripted probes. Monitors of the racing scenarios are Coq functions proved of every model run and evaluated by the extracted runner on every log, racing ones included: mon_finish_once, mon_return_last, mon_fresh_service, mon_assigner_call, mon_return_served.",
}

# id -> (design_ref, level text, level note)
TABLE = {
    "C01": ("DESIGN.md section 8 C01",
            "Coq theorems (no axioms) over the executable server transition model SrvModel.v, for all reachable states of all "
            "schedules and histories: responses shape/correlation, deliver-once, handler-once, silent units, completeness at "
            "quiescence. The model is tied to /repo on every run: the real server is driven at its verif scheduling points inside "
            "synctest bubbles and every observed log must be accepted by the extracted model (projection c01); property monitors judge the logs.",
            "Trusted: Coq kernel; hand-written model coq/srv/SrvModel.v (one label per critical section; sync.Mutex atomicity, "
            "WaitGroup, weighted semaphore, context cancellation modelled by their documented semantics); extraction (ExtrOcamlBasic only); "
            "Go harness harness/conc + testing/synctest; verif hooks (add-only)."),
    "C02": ("DESIGN.md section 8 C02",
            "Coq theorems over the wire parser model (Wire.v/Json.v: order-independence of member validity, codes in the allowed set, "
            "not-JSON and empty-batch replies) and over the server model (classification before any handler runs, unknown method, stray replies). "
            "Correspondence: ParseRequests and the live server on structured, exhaustive-variant and mutated records, with a liveness probe.",
            "Trusted: Coq kernel; hand-written models (Json.v follows Go's scanner grammar; map iteration order is a parameter); "
            "encoding/json itself is modelled, not verified; process survival is observed, not proved."),
    "C03": ("DESIGN.md section 8 C03",
            "Coq theorems over SrvModel.v for all reachable states: the barrier counter equals the open notifications of released units; a task of a "
            "later unit passes its Acquire point only after every valid notification of earlier units is done; calls never hold the barrier. "
            "Correspondence: scheduled runs of the real server accepted by the extracted model, plus the logical-clock monitor.",
            "Trusted: as C01."),
    "C04": ("DESIGN.md section 8 C04",
            "Coq theorems over the executable client transition model CliModel.v for all traces and all peer streams: fresh ids, single-writer slots "
            "with matching ids, replies are the peer's members with the request's id, batch order, totality. Correspondence: the real client against a "
            "scripted raw peer (permutations, partitions, duplicates, unknown ids, malformed) under quiescent and scheduled execution, logs accepted by the extracted model.",
            "Trusted: Coq kernel; hand-written model coq/cli/CliModel.v; extraction; harness/conc + synctest; verif hooks."),
    "C05": ("DESIGN.md section 8 C05",
            "Coq theorems over CliModel.v: each operation returns at most once, outcomes by who wins the lock, OnCancel/OnStop counts, Close waits. "
            "Correspondence: orders of reply/cancel/deadline/Close/EOF/Recv error/Send error with fault injection; goroutine leaks observed by synctest.",
            "Trusted: as C04; real goroutine leaks are observed, the model counts logical goroutines."),
    "C06": ("DESIGN.md section 8 C06",
            "Coq theorems over SrvModel.v for all K and all reachable states: slots_used + sem_free = K, executing <= K, FIFO wait queue = waiting tasks, "
            "work conservation at quiescence, cancelled waiter answered without running. Correspondence: scheduled runs accepted by the model; running-handler monitor.",
            "Trusted: as C01; x/sync/semaphore.Weighted modelled (FIFO, cancelled contexts fail)."),
    "C07": ("DESIGN.md section 8 C07",
            "Coq theorems over SrvModel.v: `used` is exactly the in-flight set (injective), cancellation flips only by CancelRequest of that id / stop / own delivery, "
            "duplicates rejected without disturbing the first, ids reusable after the reply. Correspondence: id-pool histories with reflected `used` snapshots, accepted by the model.",
            "Trusted: as C01."),
    "C08": ("DESIGN.md section 8 C08",
            "Coq theorems over SrvModel.v: no crash outcome is reachable, exactly one Close per Start, first cause wins, WaitStatus only after all handlers, "
            "calls cancelled at stop, notifications kept, restart is fresh. Correspondence: stop/close/failure histories with fault injection at channel operations, "
            "worker exit status (panics), synctest leak/deadlock detection, restart probe.",
            "Trusted: as C01; process crashes, deadlocks and goroutine leaks are observed by the harness, not proved about Go."),
    "C09": ("DESIGN.md section 8 C09",
            "Coq theorems over SrvModel.v: push gate, one request each with unique callback ids, callbacks complete at most once and only with their own id's reply "
            "or their context's error, late/unsolicited replies inert, replies pass the barrier. Correspondence: callbacks/notifications with scripted peer replies in all orders.",
            "Trusted: as C01."),
    "C10": ("DESIGN.md section 8 C10",
            "Coq theorems: non-overlap of Send/Close/Recv intervals from the lock discipline (abstract event model, all event sequences), exactly one Close per Start in the "
            "server and client models, every record passed to Send is a whole message. The discipline itself is checked dynamically by the instrumented channel (TryLock probe, overlap counters).",
            "Trusted: as C01; that the Go code follows the lock discipline is observed at run time (partial)."),
    "C11": ("DESIGN.md section 8 C11",
            "Coq theorems over stream-level models of the framings: round trip for any number and size of records. Correspondence: the real framings behind a "
            "chunk-controlled reader (all cut sets of short streams, 1-byte reads, data+EOF, large records, buffer reuse) against the extracted model.",
            "Trusted: Coq kernel; hand-written models coq/frame/*.v; bufio/io.ReadFull/json.Decoder contracts modelled; fragmentation independence delegated to those contracts and tested."),
    "C12": ("DESIGN.md section 8 C12",
            "Coq theorems: receive functions total with no crash outcome on every byte stream, sound w.r.t. independent reference grammars, truncation reported, exhaustion stable. "
            "Correspondence: exhaustive short streams, every truncation point, header-value fuzz, panics/OOM observed.",
            "Trusted: as C11; crashes/hangs of the Go code are observed."),
    "C13": ("DESIGN.md section 8 C13",
            "Coq theorems over Wire.v/Json.v: encodings contain no control byte, parse back to the same members, have the JSON-RPC key set; ParseRequests totality. "
            "Correspondence: byte-for-byte comparison of captured wire bytes with the model encoder; escape/compact vs encoding/json.",
            "Trusted: Coq kernel; hand-written models; json.Marshal/Compact modelled and differentially tested."),
    "C14": ("DESIGN.md section 8 C14",
            "Coq theorems over an error-value algebra (ErrorCode, server->wire, wire->client, WithData) for all error terms and codes. Correspondence: the same terms interpreted "
            "into real Go errors through a real server/client pair.",
            "Trusted: Coq kernel; hand-written model coq/errs/Errs.v; errors.As/Is traversal order modelled."),
    "C15": ("DESIGN.md section 8 C15",
            "Coq theorems over the decision logic of handler.Check/Wrap (which decode is applied, when the function is called) over a decode oracle. Correspondence: function types "
            "generated with reflect, encoding/json as the oracle.",
            "Trusted: Coq kernel; reflect and encoding/json are an oracle (Section variable), not modelled; panics observed."),
    "C16": ("DESIGN.md section 8 C16",
            "Coq theorems: Positional/Args/Obj accept exactly the documented shapes, over the same decode oracle. Correspondence as C15.",
            "Trusted: as C15."),
    "C17": ("DESIGN.md section 8 C17",
            "Machine-checked Coq theorems (no axioms) over an executable model of Map/ServiceMap Assign/Names and the server's rpc.* gate, for all names and all assigner trees of "
            "any depth; the model is tied to /repo on every run by executing the extracted model and the real server on the same generated (tree, name) cases.",
            "Trusted: Coq kernel; hand-written model (coq/disp/Dispatch.v); extraction (ExtrOcamlBasic only); Go harness. Go map lookup, strings.SplitN, sort.Strings modelled, not verified."),
    "C18": ("DESIGN.md section 8 C18",
            "Coq theorems over Bridge.v for all bodies: own responses with the caller's raw ids, status/shape, gate rules, once, isolation under a shared id counter. "
            "Correspondence: real Bridge with concurrent POSTs via httptest recorder in synctest bubbles.",
            "Trusted: Coq kernel; hand-written model; inner client/server answered per C01/C04 (hypothesis discharged by those properties' theorems at model level); mime/net/http as data."),
    "C19": ("DESIGN.md section 8 C19",
            "Coq theorems: query value typing rules as iffs, marshalability, Getter status mapping, HTTP channel no-leak invariant over all label sequences. "
            "Correspondence: exhaustive short values vs ParseQuery, Getter via recorder, jhttp.Channel with gated HTTP client.",
            "Trusted: Coq kernel; hand-written models; url.ParseQuery, base64, ParseFloat value trusted (syntax class and finiteness modelled)."),
    "C20": ("DESIGN.md section 8 C20",
            "Coq theorems over Loop.v for all label sequences: fresh service per connection, Finish exactly once after exit, Loop returns last, context end stops all, assigner failure closes the channel. "
            "Correspondence: real server.Loop with an in-memory accepter and instrumented services.",
            "Trusted: Coq kernel; hand-written model coq/loop/Loop.v; inner server abstracted by its C08 contract."),
}

SERVER = ["C01", "C03", "C06", "C07", "C08", "C09", "C10"]


def claimed(pid):
    return (os.path.exists(os.path.join(ROOT, "coq", "props", pid + ".v")) and
            os.path.exists(os.path.join(ROOT, "vlib", pid.lower() + ".py")) and
            pid in load_claimed())


def load_claimed():
    p = os.path.join(ROOT, "tools", "claimed.txt")
    out = {}
    if os.path.exists(p):
        for line in open(p):
            line = line.strip()
            if line and not line.startswith("#"):
                out[line.split()[0]] = True
    return out


def main():
    reasons = {}
    p = os.path.join(ROOT, "tools", "unclaimed_reasons.json")
    if os.path.exists(p):
        reasons = json.load(open(p))
    checks, na = [], []
    for pid in sorted(TABLE):
        ref, text, note = TABLE[pid]
        text = text + ADDENDA.get(pid, "")
        if claimed(pid):
            checks.append(dict(
                property_id=pid, quick_cmd="./check %s --tier quick" % pid, thorough_cmd="./check %s --tier thorough" % pid,
                evidence_file="evidence/%s.json" % pid, replay_cmd_template="./check %s --replay {path}" % pid,
                engine="coq+harness", level_claimed=dict(category="proof", text=text, design_ref=ref), level_note=note,
                technique=TECH))
        else:
            na.append(dict(property_id=pid, reason=reasons.get(
                pid, "not claimed yet: model/proofs/harness for this property are still under construction (see DESIGN.md section 11)")))
    man = dict(
        version=1, setup_cmd="./setup.sh",
        hooks=dict(guard="verif",
                   enable="go build -tags verif (harness modules replace github.com/creachadair/jrpc2 => /repo)",
                   baseline_off_cmd="cd /repo && go test -mod=mod -vet=off -count=1 -timeout 25m ./...",
                   source_commits=["a42c89f", "37dbc9b"], add_only=True),
        engines=[dict(name="coq+harness", path="check", serves_properties=[c["property_id"] for c in checks],
                      kind_free_text="Coq 8.16.1 proofs over hand-written executable models; OCaml-extracted model vs Go "
                                     "implementation differential correspondence")],
        checks=checks,
        notes="See DESIGN.md. Fix commits in /repo are listed in known_findings.txt (fixed: lines).",
        not_applicable=na)
    with open(os.path.join(ROOT, "MANIFEST.json"), "w") as f:
        json.dump(man, f, indent=1)
        f.write("\n")
    print("claimed:", [c["property_id"] for c in checks])
    print("unclaimed:", [x["property_id"] for x in na])


if __name__ == "__main__":
    main()
