#!/usr/bin/env python3
"""Prints (markdown) the inventory of the Coq development: files/lines per directory and, per property, the
number of theorems in coq/props/<id>.v and the names still carrying _partial.  Used for DESIGN.md section 0."""
import os, re, glob
ROOT = os.path.dirname(os.path.dirname(os.path.abspath(__file__)))
tot_f = tot_l = 0
print("| directory | files | lines |\n|---|---|---|")
for d in sorted(os.listdir(os.path.join(ROOT, "coq"))):
    fs = glob.glob(os.path.join(ROOT, "coq", d, "*.v"))
    if not fs:
        continue
    n = sum(sum(1 for _ in open(f, errors="replace")) for f in fs)
    tot_f += len(fs); tot_l += n
    print("| coq/%s | %d | %d |" % (d, len(fs), n))
print("| **total** | **%d** | **%d** |" % (tot_f, tot_l))
print()
print("| property | theorems in props file | still `_partial` |\n|---|---|---|")
tt = 0
for f in sorted(glob.glob(os.path.join(ROOT, "coq", "props", "C*.v"))):
    txt = re.sub(r"\(\*.*?\*\)", " ", open(f, errors="replace").read(), flags=re.S)
    names = re.findall(r"^\s*Theorem\s+([A-Za-z0-9_']+)", txt, flags=re.M)
    tt += len(names)
    print("| %s | %d | %s |" % (os.path.basename(f)[:-2], len(names), ", ".join(n for n in names if n.endswith("_partial")) or "–"))
print("| **total** | **%d** | |" % tt)
