#!/usr/bin/env python3
"""Seeded-change bookkeeping.

  tools/seed.py confirm <srcdir> <seed-id> <property> [--needs "..."]
      srcdir holds patch.diff + a demonstration (zz_demo*_test.go or other *_test.go / .go file) + README.md.
      In a scratch worktree of /repo: (1) the patch applies, builds, the unedited suite passes;
      (2) the demonstration fails with the patch; (3) passes without it.  On success the files are
      copied to /verif/seeded/<seed-id>/ with meta.json.
  tools/seed.py run <seed-id> [<property> ...] [--tier quick]
      applies seeded/<seed-id>/patch.diff to /repo, runs ./check for the properties (default: the
      one in meta.json), undoes the patch (git -C /repo checkout -- .), records the outcome in meta.json.
  tools/seed.py runall
"""
import json
import os
import shutil
import subprocess
import sys
import time

ROOT = os.path.dirname(os.path.dirname(os.path.abspath(__file__)))
SEEDED = os.path.join(ROOT, "seeded")
ENV = dict(os.environ, GOFLAGS="-mod=mod", GOPROXY="off", GOSUMDB="off", GOTOOLCHAIN="local")


def sh(cmd, cwd=None, timeout=1800, env=ENV):
    p = subprocess.run(cmd, cwd=cwd, shell=isinstance(cmd, str), stdout=subprocess.PIPE, stderr=subprocess.STDOUT,
                       timeout=timeout, env=env, text=True, errors="replace")
    return p.returncode, p.stdout


def demo_files(src):
    return [f for f in sorted(os.listdir(src)) if f.endswith(".go")]


def confirm(src, sid, prop, needs):
    wt = "/tmp/seedwt-%s" % sid
    sh("git -C /repo worktree remove --force %s" % wt)
    shutil.rmtree(wt, ignore_errors=True)
    rc, out = sh("git -C /repo worktree add -q --detach %s HEAD" % wt)
    if rc != 0:
        sys.exit("worktree: " + out)
    ran = []
    try:
        patch = os.path.join(src, "patch.diff")
        rc, out = sh("git -C %s apply %s" % (wt, patch))
        ran.append("git apply patch.diff -> %d" % rc)
        if rc != 0:
            sys.exit("patch does not apply: " + out)
        rc, out = sh("go build ./... && go build -tags verif ./... && go test -vet=off -count=1 ./...", cwd=wt)
        ran.append("go build ./... && go build -tags verif ./... && go test -vet=off -count=1 ./... (with patch) -> %d" % rc)
        if rc != 0:
            print(out[-3000:])
            sys.exit("suite fails with the patch")
        demos = demo_files(src)
        if not demos:
            sys.exit("no demonstration .go file")
        gover = "go"
        for d in demos:
            txt = open(os.path.join(src, d)).read()
            if "testing/synctest" in txt:
                gover = "go1.26"
        # where does the demo live? package clause decides: default module root
        for d in demos:
            dest = wt
            txt = open(os.path.join(src, d)).read()
            rd = os.path.join(src, "README.md")
            sub = None
            for cand in ("channel", "handler", "jhttp", "server"):
                if ("package %s\n" % cand) in txt or ("package %s_test\n" % cand) in txt:
                    sub = cand
            if sub:
                dest = os.path.join(wt, sub)
            shutil.copy(os.path.join(src, d), os.path.join(dest, d))
        run_name = "ZZ|Zz|zz|Demo|Seed"
        cmd = "%s test -vet=off -count=1 -run '%s' ./... 2>&1 | tail -40" % (gover, run_name)
        cmd = "%s test -vet=off -count=1 ./... 2>&1 | tail -60" % gover
        rc1, out1 = sh(cmd + "; exit ${PIPESTATUS[0]}", cwd=wt, timeout=900, env=dict(ENV, SHELL="/bin/bash"))
        rc1, out1 = sh(["bash", "-c", "%s test -vet=off -count=1 ./... 2>&1 | tail -60; exit ${PIPESTATUS[0]}" % gover], cwd=wt, timeout=900)
        ran.append("%s test ./... with patch + demonstration -> %d (expected failure)" % (gover, rc1))
        if rc1 == 0:
            sys.exit("demonstration passes WITH the patch")
        rc, out = sh("git -C %s apply -R %s" % (wt, patch))
        if rc != 0:
            sys.exit("cannot revert patch: " + out)
        rc2, out2 = sh(["bash", "-c", "%s test -vet=off -count=1 ./... 2>&1 | tail -60; exit ${PIPESTATUS[0]}" % gover], cwd=wt, timeout=900)
        ran.append("%s test ./... without patch + demonstration -> %d (expected pass)" % (gover, rc2))
        if rc2 != 0:
            print(out2[-3000:])
            sys.exit("demonstration fails WITHOUT the patch")
        dst = os.path.join(SEEDED, sid)
        os.makedirs(dst, exist_ok=True)
        for f in os.listdir(src):
            if os.path.isfile(os.path.join(src, f)):
                shutil.copy(os.path.join(src, f), os.path.join(dst, f))
        meta = dict(id=sid, property=prop, needs=needs, confirmed=time.strftime("%Y-%m-%d %H:%M"), ran=ran,
                    demo_fail_excerpt=out1[-1200:], detected_by={})
        with open(os.path.join(dst, "meta.json"), "w") as f:
            json.dump(meta, f, indent=1)
        print("confirmed", sid)
    finally:
        sh("git -C /repo worktree remove --force %s" % wt)
        shutil.rmtree(wt, ignore_errors=True)


def run(sid, props, tier):
    d = os.path.join(SEEDED, sid)
    meta = json.load(open(os.path.join(d, "meta.json")))
    if not props:
        props = [meta["property"]]
    rc, out = sh("git -C /repo status --porcelain")
    if out.strip():
        sys.exit("/repo is not clean: " + out)
    rc, out = sh("git -C /repo apply %s" % os.path.join(d, "patch.diff"))
    if rc != 0:
        sys.exit("patch does not apply to /repo: " + out)
    saved = {}
    for p in props:
        ev = os.path.join(ROOT, "evidence", p + ".json")
        saved[ev] = open(ev).read() if os.path.exists(ev) else None
    try:
        for p in props:
            t0 = time.time()
            rc, out = sh(["./check", p, "--tier", tier], cwd=ROOT, timeout=3600)
            viol = [l for l in out.split("\n") if l.startswith("VIOLATION")]
            what = []
            for l in viol[:3]:
                rp = l.split("replay=")[1].split()[0]
                try:
                    what.append(json.load(open(rp)).get("what", "")[:200])
                except Exception:
                    pass
            meta.setdefault("detected_by", {})[p + ":" + tier] = dict(
                exit=rc, violations=len(viol), no_failing_input=sum("no-failing-input-found" in l for l in viol),
                what=what, wall_s=round(time.time() - t0, 1))
            print(sid, p, tier, "exit", rc, "violations", len(viol), what[:1])
    finally:
        # the evidence files must come from runs on the unchanged tree: put them back
        for ev, txt in saved.items():
            if txt is not None:
                with open(ev, "w") as f:
                    f.write(txt)
        sh("git -C /repo checkout -- .")
        rc, out = sh("git -C /repo status --porcelain")
        if out.strip():
            print("WARNING /repo not clean after undo:", out)
    with open(os.path.join(d, "meta.json"), "w") as f:
        json.dump(meta, f, indent=1)


def main():
    a = sys.argv[1:]
    if not a:
        sys.exit(__doc__)
    if a[0] == "confirm":
        needs = ""
        if "--needs" in a:
            i = a.index("--needs")
            needs = a[i + 1]
            a = a[:i] + a[i + 2:]
        confirm(a[1], a[2], a[3], needs)
    elif a[0] == "run":
        tier = "quick"
        if "--tier" in a:
            i = a.index("--tier")
            tier = a[i + 1]
            a = a[:i] + a[i + 2:]
        run(a[1], a[2:], tier)
    elif a[0] == "runall":
        for sid in sorted(os.listdir(SEEDED)):
            if os.path.exists(os.path.join(SEEDED, sid, "meta.json")):
                try:
                    run(sid, [], "quick")
                except SystemExit as e:
                    print(sid, "NOT RUN:", e)
                    sh("git -C /repo checkout -- .")


if __name__ == "__main__":
    main()
