#!/bin/sh
# tools/benign_sweep.sh <dir-with-NN/patch.diff> "<props>"  - to be run with VERIF_REPO pointing at a scratch copy of /repo:
# applies each behaviour-preserving patch in turn, runs the quick checks, reverts.  Any VIOLATION here is a false alarm.
dir=$(cd "$1" && pwd); props="$2"
for d in "$dir"/*/; do
  n=$(basename "$d")
  if ! (cd "$VERIF_REPO" && patch -p1 -s < "$d/patch.diff"); then echo "benign=$n patch failed"; continue; fi
  echo "== benign $n: $(head -1 "$d/README.md")"
  tools/sweep.sh 1 "$props" | sed "s/^/benign=$n /"
  (cd "$VERIF_REPO" && patch -p1 -R -s < "$d/patch.diff")
done
