#!/bin/sh
# tools/benign_sweep.sh <dir-with-NN/patch.diff> "<props>"  - to be run with VERIF_REPO pointing at a scratch copy of /repo
# (a git checkout): applies each behaviour-preserving patch in turn, runs the quick checks, restores the copy.
# Any VIOLATION here is a false alarm.  A patch that no longer applies is reported and skipped (nothing is applied in part).
dir=$(cd "$1" && pwd); props="$2"
for d in "$dir"/*/; do
  n=$(basename "$d")
  if [ -n "$BENIGN_FROM" ] && [ "$n" -lt "$BENIGN_FROM" ]; then continue; fi
  if ! git -C "$VERIF_REPO" apply --check "$d/patch.diff" 2>/dev/null; then echo "benign=$n patch does not apply (stale): skipped"; continue; fi
  git -C "$VERIF_REPO" apply "$d/patch.diff"
  echo "== benign $n: $(head -1 "$d/README.md")"
  tools/sweep.sh 1 "$props" | sed "s/^/benign=$n /"
  git -C "$VERIF_REPO" checkout -q -- . && git -C "$VERIF_REPO" clean -fdq
done
