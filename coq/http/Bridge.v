(* Bridge: executable model of jhttp.Bridge (jhttp/bridge.go) as it is in /repo now
   (F13 fixed: the charset parameter is compared case-insensitively).

     ServeHTTP        -> gate            (GET->Getter, 405 / 415 rules)
     parseHTTPRequest -> parse_requests  (jrpc2.ParseRequests: what it yields per member)
     serveInternal    -> plan, map_back, assemble, serve
     marshalError     -> marshal_error
     encodeResponses  -> assemble

   Definitions only; proofs are in BridgeProofs.v.  External behaviour that the bridge
   relies on is either data handed to the model (the result of mime.ParseMediaType, the
   members jmessages.parseJSON produced - coq/wire/Msg.v) or a function argument
   ([inner]: Client.Batch over the local server, whose contract is C01/C04's). *)
From Coq Require Import List NArith ZArith Bool.
From JV Require Import Bytes Msg.
Import ListNotations.
Local Open Scope N_scope.

(* ------------------------------------------------------------------------- *)
(* The method / content-type gate of ServeHTTP *)

Definition lower_byte (b : N) : N := if (65 <=? b) && (b <=? 90) then b + 32 else b.
Definition lower (s : bytes) : bytes := map lower_byte s.
(* strings.EqualFold against an ASCII constant without k/s (no non-ASCII rune folds to
   u, t, f, -, 8), i.e. equality up to ASCII letter case *)
Definition eq_fold (a b : bytes) : bool := beq (lower a) (lower b).

Definition s_POST : bytes := [80; 79; 83; 84].
Definition s_GET : bytes := [71; 69; 84].
Definition s_app_json : bytes := [97; 112; 112; 108; 105; 99; 97; 116; 105; 111; 110; 47; 106; 115; 111; 110].
Definition s_utf_8 : bytes := [117; 116; 102; 45; 56].
Definition s_utf8 : bytes := [117; 116; 102; 56].

(* What mime.ParseMediaType returned for the Content-Type header: the media type
   (lower-cased by ParseMediaType; [] when the header does not parse) and the value of
   the "charset" parameter, letter case preserved (None: no such parameter). *)
Record mediatype := { mt_type : bytes; mt_charset : option bytes }.

(* defect switch: F13 (pre-fix the charset value was compared case-sensitively) *)
Record bcfg := { fix_F13 : bool }.
Definition cfg_fixed : bcfg := {| fix_F13 := true |}.

Definition charset_ok (c : bcfg) (cs : bytes) : bool :=
  if fix_F13 c then eq_fold cs s_utf_8 || eq_fold cs s_utf8
  else beq cs s_utf_8 || beq cs s_utf8.

Inductive gate_result := GPass | GGetter | G405 | G415.

(* has_hook: BridgeOptions.ParseRequest set; has_get: BridgeOptions.ParseGETRequest set *)
Definition gate_cfg (c : bcfg) (meth : bytes) (ct : mediatype) (has_hook has_get : bool) : gate_result :=
  if beq meth s_GET && has_get then GGetter
  else if has_hook then GPass
  else if negb (beq meth s_POST) then G405
  else if negb (beq (mt_type ct) s_app_json) then G415
  else match mt_charset ct with
       | Some cs => if charset_ok c cs then GPass else G415
       | None => GPass
       end.

Definition gate := gate_cfg cfg_fixed.

(* ------------------------------------------------------------------------- *)
(* jrpc2.ParseRequests *)

(* jrpc2.ParsedRequest *)
Record preq := {
  pr_id : bytes;            (* ID: raw id text after fixID; [] = none *)
  pr_method : bytes;
  pr_params : bytes;        (* raw params; [] = none *)
  pr_error : option werr    (* Error: the member is statically invalid *)
}.

Definition parsed (m : jmsg) : preq :=
  {| pr_id := fix_id (j_id m); pr_method := j_method m; pr_params := j_params m; pr_error := j_err m |}.

(* None: the body is not valid JSON (ParseRequests reports an error) *)
Definition parse_requests (i : inbound) : option (list preq) :=
  match i with
  | InBad => None
  | InMsgs _ ms => Some (map parsed ms)
  end.

(* ------------------------------------------------------------------------- *)
(* serveInternal *)

(* jrpc2.Spec *)
Record spec := { sp_method : bytes; sp_notify : bool; sp_params : bytes }.

Inductive rbody := RResult (r : bytes) | RError (e : werr).

(* one response object of the HTTP body: the raw text of its "id" and result|error *)
Record robj := { ro_id : bytes; ro_body : rbody }.

(* a response as Client.Batch returns it: the id the shared client allocated + payload *)
Record reply := { rp_id : N; rp_body : rbody }.

Definition has_id (p : preq) : bool := negb (beq (pr_id p) []).
Definition is_invalid (p : preq) : bool := match pr_error p with Some _ => true | None => false end.
Definition is_valid (p : preq) : bool := negb (is_invalid p).
Definition is_call (p : preq) : bool := is_valid p && has_id p.
Definition is_note (p : preq) : bool := is_valid p && negb (has_id p).

(* marshalError: {"jsonrpc":"2.0","id":<id or null>,"error":<err>} *)
Definition marshal_error (p : preq) (e : werr) : robj :=
  {| ro_id := if has_id p then pr_id p else null_bytes; ro_body := RError e |}.

Definition spec_of (p : preq) : spec :=
  {| sp_method := pr_method p; sp_notify := negb (has_id p); sp_params := pr_params p |}.

Record planned := {
  pl_static : list robj;     (* results so far: error objects of the statically invalid members *)
  pl_specs : list spec;      (* spec: requests and notifications for Client.Batch *)
  pl_inbound : list bytes    (* inboundID: original ids of the calls, in order *)
}.

(* the loop over jreq *)
Fixpoint plan (ps : list preq) : planned :=
  match ps with
  | [] => {| pl_static := []; pl_specs := []; pl_inbound := [] |}
  | p :: rest =>
    let r := plan rest in
    match pr_error p with
    | Some e => {| pl_static := marshal_error p e :: pl_static r; pl_specs := pl_specs r; pl_inbound := pl_inbound r |}
    | None => {| pl_static := pl_static r;
                 pl_specs := spec_of p :: pl_specs r;
                 pl_inbound := if has_id p then pr_id p :: pl_inbound r else pl_inbound r |}
    end
  end.

Definition call_count (specs : list spec) : nat := length (filter (fun s => negb (sp_notify s)) specs).

(* for i, rsp := range rsps { rsp.SetID(inboundID[i]) ... }: None = index out of range panic *)
Fixpoint map_back (inbound : list bytes) (rsps : list reply) : option (list robj) :=
  match rsps with
  | [] => Some []
  | r :: rs =>
    match inbound with
    | [] => None
    | id :: ids =>
      match map_back ids rs with
      | Some l => Some ({| ro_id := id; ro_body := rp_body r |} :: l)
      | None => None
      end
    end
  end.

Inductive shape := BEmpty | BSingle (o : robj) | BArray (l : list robj).

Definition shape_objs (b : shape) : list robj :=
  match b with BEmpty => [] | BSingle o => [o] | BArray l => l end.

(* the tail of serveInternal + encodeResponses: status and body for the collected results
   (static error objects first, then the mapped batch responses) *)
Definition assemble (static mapped : list robj) : Z * shape :=
  match static ++ mapped with
  | [] => (204%Z, BEmpty)
  | [o] => (200%Z, BSingle o)
  | l => (200%Z, BArray l)
  end.

Inductive outcome :=
| OGetter                              (* handed to the Getter (C19) *)
| OGate (status : Z)                   (* 405 / 415 from the gate *)
| OBadBody (status : Z)                (* parse error: 500 and the error text *)
| OCrash                               (* index out of range in the id mapping *)
| OResp (status : Z) (body : shape).

Record served := {
  sv_out : outcome;
  sv_specs : list spec;   (* what was handed to Client.Batch ([] when Batch was not called) *)
  sv_next : N             (* the shared client's id counter afterwards *)
}.

(* [inner next specs]: Client.Batch(specs) on the shared client whose next id is [next],
   over the local server. *)
Definition serve_internal (inner : N -> list spec -> list reply) (next : N) (body : inbound) : served :=
  match parse_requests body with
  | None => {| sv_out := OBadBody 500%Z; sv_specs := []; sv_next := next |}
  | Some ps =>
    let p := plan ps in
    match pl_specs p with
    | [] => let '(st, b) := assemble (pl_static p) [] in
            {| sv_out := OResp st b; sv_specs := []; sv_next := next |}
    | specs =>
      let next' := next + N.of_nat (call_count specs) in
      match map_back (pl_inbound p) (inner next specs) with
      | None => {| sv_out := OCrash; sv_specs := specs; sv_next := next' |}
      | Some mapped => let '(st, b) := assemble (pl_static p) mapped in
                       {| sv_out := OResp st b; sv_specs := specs; sv_next := next' |}
      end
    end
  end.

Definition serve (inner : N -> list spec -> list reply) (next : N)
           (meth : bytes) (ct : mediatype) (has_hook has_get : bool) (body : inbound) : served :=
  match gate meth ct has_hook has_get with
  | GGetter => {| sv_out := OGetter; sv_specs := []; sv_next := next |}
  | G405 => {| sv_out := OGate 405%Z; sv_specs := []; sv_next := next |}
  | G415 => {| sv_out := OGate 415%Z; sv_specs := []; sv_next := next |}
  | GPass => serve_internal inner next body
  end.

(* ------------------------------------------------------------------------- *)
(* The shared client: id allocation and reply routing (client.go req / deliverLocked) *)

Fixpoint seqN (start : N) (n : nat) : list N :=
  match n with O => [] | S n' => start :: seqN (N.succ start) n' end.

(* Two concurrent Batch calls allocating na and nb ids from one counter; each allocation
   is its own critical section (Client.req), so they interleave arbitrarily: sched says
   who allocates next (true = A); when it runs out the rest is allocated A first, then B.
   A step for a party that needs no more ids is skipped. *)
Fixpoint alloc2 (next : N) (na nb : nat) (sched : list bool) : list N * list N * N :=
  match sched with
  | [] => (seqN next na, seqN (next + N.of_nat na) nb, next + N.of_nat na + N.of_nat nb)
  | true :: s' =>
    match na with
    | O => alloc2 next O nb s'
    | S na' => let '(a, b, n) := alloc2 (N.succ next) na' nb s' in (next :: a, b, n)
    end
  | false :: s' =>
    match nb with
    | O => alloc2 next na O s'
    | S nb' => let '(a, b, n) := alloc2 (N.succ next) na nb' s' in (a, next :: b, n)
    end
  end.

(* The client hands each pending id the first delivered reply that carries it; None: an
   id is never answered (Batch would not return). *)
Fixpoint route (ids : list N) (pool : list reply) : option (list reply) :=
  match ids with
  | [] => Some []
  | i :: rest =>
    match find (fun r => rp_id r =? i) pool, route rest pool with
    | Some r, Some rs => Some (r :: rs)
    | _, _ => None
    end
  end.

(* One POST (past the gate, valid JSON) whose Batch was given the ids [ids] and whose
   replies are routed out of the shared reply stream [pool]. *)
Definition post_routed (ps : list preq) (ids : list N) (pool : list reply) : option outcome :=
  let p := plan ps in
  match pl_specs p with
  | [] => let '(st, b) := assemble (pl_static p) [] in Some (OResp st b)
  | _ =>
    match route ids pool with
    | None => None
    | Some rs =>
      match map_back (pl_inbound p) rs with
      | None => Some OCrash
      | Some mapped => let '(st, b) := assemble (pl_static p) mapped in Some (OResp st b)
      end
    end
  end.

(* ------------------------------------------------------------------------- *)
(* Vocabulary of the property statements (not used by the functions above) *)

Definition err_code (c : Z) : werr := {| we_code := c; we_msg := []; we_data := [] |}.

(* the error object owed to a statically invalid member: its own error, its own id or null *)
Definition err_of (p : preq) : werr := match pr_error p with Some e => e | None => err_code 0%Z end.
Definition err_obj (p : preq) : robj := marshal_error p (err_of p).
(* the object owed to a valid call c that the inner server answered with r: the caller's raw
   id text, the inner reply's payload *)
Definition call_obj (c : preq) (r : reply) : robj := {| ro_id := pr_id c; ro_body := rp_body r |}.
Definition call_objs (calls : list preq) (rs : list reply) : list robj :=
  map (fun cr => call_obj (fst cr) (snd cr)) (combine calls rs).

(* ------------------------------------------------------------------------- *)
(* A concrete inner server for the correspondence runs: the local server with one known
   gated method whose handler outcomes are given per params text (C01/C02 behaviour:
   empty method -> InvalidRequest, unknown method -> MethodNotFound). *)

Fixpoint lookup_outcome (tbl : list (bytes * rbody)) (params : bytes) : option rbody :=
  match tbl with
  | [] => None
  | (k, v) :: r => if beq k params then Some v else lookup_outcome r params
  end.

Definition is_known (known : list bytes) (m : bytes) : bool := existsb (beq m) known.

Definition answer (known : list bytes) (tbl : list (bytes * rbody)) (s : spec) : rbody :=
  if beq (sp_method s) [] then RError (err_code InvalidRequest)
  else if is_known known (sp_method s) then
    match lookup_outcome tbl (sp_params s) with
    | Some b => b
    | None => RError (err_code InternalError)
    end
  else RError (err_code MethodNotFound).

Fixpoint table_inner (known : list bytes) (tbl : list (bytes * rbody)) (next : N) (specs : list spec) : list reply :=
  match specs with
  | [] => []
  | s :: r =>
    if sp_notify s then table_inner known tbl next r
    else {| rp_id := next; rp_body := answer known tbl s |} :: table_inner known tbl (N.succ next) r
  end.

(* params of the specs whose handler runs (valid requests to a known method) *)
Definition invoked (known : list bytes) (specs : list spec) : list bytes :=
  map sp_params (filter (fun s => negb (beq (sp_method s) []) && is_known known (sp_method s)) specs).

(* what the runner calls *)
Definition serve_table (known : list bytes) (tbl : list (bytes * rbody)) (next : N)
           (meth : bytes) (ct : mediatype) (has_hook has_get : bool) (body : inbound) : served :=
  serve (table_inner known tbl) next meth ct has_hook has_get body.
