(* HttpChan: transition model of jhttp.Channel (jhttp/channel.go).

   Send (on an open channel) starts one goroutine per message; the goroutine
   calls cli.Do; on a 204 reply it closes the body and exits; on any other reply
   or on an error it offers the response on the unbuffered channel c.rsp and
   exits after the rendezvous.  Recv takes one offered response, reads and closes
   its body, and reports data (status 200) or an error.  Close sets cli = nil,
   spawns a closer (wg.Wait; close(rsp)) and drains c.rsp until it is closed,
   closing the body of every response it takes (fix F11).

   One label per blocking-primitive operation.  A goroutine is identified by
   its index j in creation order.  Definitions only.

   Assumed discipline (C10; jrpc2.Client holds its mutex around Send and Close):
   Send and Close do not overlap, Close is called at most once (a second call
   would close c.rsp twice; the model has no such label). *)
From Coq Require Import List NArith ZArith Bool Arith.
Import ListNotations.

(* what cli.Do returned *)
Inductive dores :=
| DoStatus (code : Z)      (* a response (with a body) *)
| DoErr.                   (* an error, no response *)

Definition is204 (r : dores) : bool :=
  match r with DoStatus c => (c =? 204)%Z | DoErr => false end.

(* a response carries a body that somebody has to close *)
Definition has_body (r : dores) : nat := match r with DoStatus _ => 1 | DoErr => 0 end.

(* how a finished goroutine's reply was disposed of *)
Inductive disp :=
| DAck        (* 204: body closed by the goroutine itself, no Recv involved *)
| DRecv       (* handed to a Recv *)
| DDrained.   (* taken by the drain loop of Close *)

Inductive gstate :=
| Doing                            (* inside cli.Do *)
| Holding (r : dores)              (* blocked on  c.rsp <- response{rsp, err} *)
| Done (r : dores) (d : disp).     (* returned; wg.Done() executed *)

Inductive cphase :=
| COpen            (* cli != nil *)
| CDraining        (* Close called: cli = nil, closer waiting on wg, drain loop running *)
| CRspClosed       (* closer has closed c.rsp *)
| CReturned.       (* Close has returned *)

Record state := {
  phase : cphase;
  gs : list gstate;          (* request goroutines in creation order *)
  opened : nat;              (* response bodies handed out by cli.Do *)
  closedb : nat;             (* response bodies closed *)
  wg : nat                   (* c.wg counter *)
}.

Definition init : state := {| phase := COpen; gs := []; opened := 0; closedb := 0; wg := 0 |}.

Inductive label :=
| HSend                        (* Send on an open channel: wg.Add(1); go ... *)
| HSendClosed                  (* Send after Close: error "channel is closed", nothing else happens *)
| HDo (j : nat) (r : dores)    (* cli.Do of goroutine j returns r *)
| HRecv (j : nat)              (* Recv receives goroutine j's response; reads and closes the body *)
| HRecvEOF                     (* Recv on the closed c.rsp: io.EOF *)
| HClose                       (* Close: cli = nil; go { wg.Wait(); close(rsp) }; drain loop entered *)
| HDrain (j : nat)             (* the drain loop receives goroutine j's response *)
| HRspClose                    (* closer: wg.Wait() returned; close(c.rsp) *)
| HCloseDone.                  (* drain loop observes the closed channel; Close returns *)

Fixpoint upd (j : nat) (g : gstate) (l : list gstate) : list gstate :=
  match l, j with
  | [], _ => []
  | _ :: t, O => g :: t
  | x :: t, S k => x :: upd k g t
  end.

Definition with_g (s : state) (j : nat) (g : gstate) (dopen dclose : nat) (done : bool) : state :=
  {| phase := phase s; gs := upd j g (gs s);
     opened := opened s + dopen; closedb := closedb s + dclose;
     wg := if done then Nat.pred (wg s) else wg s |}.

Definition with_phase (s : state) (p : cphase) : state :=
  {| phase := p; gs := gs s; opened := opened s; closedb := closedb s; wg := wg s |}.

Definition step_cfg (fix_F11 : bool) (s : state) (l : label) : option state :=
  match l with
  | HSend =>
    match phase s with
    | COpen => Some {| phase := COpen; gs := gs s ++ [Doing]; opened := opened s;
                       closedb := closedb s; wg := S (wg s) |}
    | _ => None
    end
  | HSendClosed =>
    match phase s with COpen => None | _ => Some s end
  | HDo j r =>
    match nth_error (gs s) j with
    | Some Doing =>
      if is204 r then Some (with_g s j (Done r DAck) 1 1 true)      (* rsp.Body.Close(); return *)
      else Some (with_g s j (Holding r) (has_body r) 0 false)
    | _ => None
    end
  | HRecv j =>
    match nth_error (gs s) j with
    | Some (Holding r) => Some (with_g s j (Done r DRecv) 0 (has_body r) true)
    | _ => None
    end
  | HRecvEOF =>
    match phase s with CRspClosed | CReturned => Some s | _ => None end
  | HClose =>
    match phase s with COpen => Some (with_phase s CDraining) | _ => None end
  | HDrain j =>
    match phase s, nth_error (gs s) j with
    | CDraining, Some (Holding r) =>
      Some (with_g s j (Done r DDrained) 0 (if fix_F11 then has_body r else 0) true)
    | _, _ => None
    end
  | HRspClose =>
    match phase s, wg s with
    | CDraining, O => Some (with_phase s CRspClosed)
    | _, _ => None
    end
  | HCloseDone =>
    match phase s with CRspClosed => Some (with_phase s CReturned) | _ => None end
  end.

Definition step : state -> label -> option state := step_cfg true.

Fixpoint run_cfg (f : bool) (s : state) (tr : list label) : option state :=
  match tr with
  | [] => Some s
  | l :: tr' => match step_cfg f s l with
                | Some s' => run_cfg f s' tr'
                | None => None
                end
  end.

Definition run : state -> list label -> option state := run_cfg true.

(* What Recv reports for the response it received *)
Inductive recv_out := RecvData | RecvBadStatus | RecvDoErr.
Definition recv_result (r : dores) : recv_out :=
  match r with
  | DoStatus c => if (c =? 200)%Z then RecvData else RecvBadStatus
  | DoErr => RecvDoErr
  end.

(* The no-leak predicate: every goroutine has returned and every body that was
   opened has been closed. *)
Definition is_done (g : gstate) : bool := match g with Done _ _ => true | _ => false end.
Definition no_leak (s : state) : bool :=
  forallb is_done (gs s) && Nat.eqb (opened s) (closedb s) && Nat.eqb (wg s) 0.

(* Labels performed by the library's own goroutines (not by the caller or the
   HTTP client) that are enabled in s: used by the runner to close a state under
   unobservable steps, and by the progress lemma. *)
Fixpoint holding_from (i : nat) (l : list gstate) : list nat :=
  match l with
  | [] => []
  | Holding _ :: t => i :: holding_from (S i) t
  | _ :: t => holding_from (S i) t
  end.
Definition holding_ix (s : state) : list nat := holding_from 0 (gs s).

Definition enabled_internal (s : state) : list label :=
  match phase s with
  | COpen | CReturned => []
  | CDraining => match wg s with
                 | O => [HRspClose]
                 | S _ => map HDrain (holding_ix s)
                 end
  | CRspClosed => [HCloseDone]
  end.
