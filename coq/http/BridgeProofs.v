(* Proofs about the bridge model (coq/http/Bridge.v). The property theorems of C18 are
   restated in coq/props/C18.v and closed there by `exact` of the lemmas below. *)
From Coq Require Import List NArith ZArith Bool Lia.
From JV Require Import Bytes Msg Bridge.
Import ListNotations.
Local Open Scope N_scope.

(* ------------------------------------------------------------------------- *)
(* small list facts *)

Lemma filter_andb {A} (f g : A -> bool) l :
  filter (fun x => f x && g x) l = filter g (filter f l).
Proof.
  induction l as [|x l IH]; [reflexivity|].
  cbn [filter]. destruct (f x); cbn [andb filter]; [destruct (g x)|]; rewrite IH; reflexivity.
Qed.

Lemma nth_error_combine {A B} (a : list A) (b : list B) i x y :
  nth_error a i = Some x -> nth_error b i = Some y -> nth_error (combine a b) i = Some (x, y).
Proof.
  revert b i; induction a as [|a0 a IH]; intros [|b0 b] [|i]; cbn; try discriminate.
  - intros [= ->] [= ->]; reflexivity.
  - apply IH.
Qed.

Lemma seqN_length s n : length (seqN s n) = n.
Proof. revert s; induction n as [|n IH]; intros s; cbn; [reflexivity|]. now rewrite IH. Qed.

Lemma seqN_in x s n : In x (seqN s n) <-> s <= x < s + N.of_nat n.
Proof.
  revert s; induction n as [|n IH]; intros s; cbn [seqN In].
  - split; [tauto|lia].
  - rewrite IH. lia.
Qed.

Lemma seqN_NoDup s n : NoDup (seqN s n).
Proof.
  revert s; induction n as [|n IH]; intros s; cbn [seqN]; constructor.
  - rewrite seqN_in. lia.
  - apply IH.
Qed.

(* ------------------------------------------------------------------------- *)
(* plan *)

Lemma is_invalid_some p e : pr_error p = Some e -> is_invalid p = true.
Proof. unfold is_invalid; now intros ->. Qed.
Lemma is_invalid_none p : pr_error p = None -> is_invalid p = false.
Proof. unfold is_invalid; now intros ->. Qed.
Lemma is_valid_error p : is_valid p = true <-> pr_error p = None.
Proof. unfold is_valid, is_invalid; destruct (pr_error p); cbn; split; congruence. Qed.

Lemma plan_static ps : pl_static (plan ps) = map err_obj (filter is_invalid ps).
Proof.
  induction ps as [|p ps IH]; [reflexivity|].
  cbn [plan filter]. destruct (pr_error p) as [e|] eqn:E.
  - rewrite (is_invalid_some _ _ E). cbn [pl_static map]. rewrite IH. f_equal.
    unfold err_obj, err_of. now rewrite E.
  - rewrite (is_invalid_none _ E). cbn [pl_static]. exact IH.
Qed.

Lemma plan_specs ps : pl_specs (plan ps) = map spec_of (filter is_valid ps).
Proof.
  induction ps as [|p ps IH]; [reflexivity|].
  cbn [plan filter]. unfold is_valid at 1. destruct (pr_error p) as [e|] eqn:E.
  - rewrite (is_invalid_some _ _ E). cbn [negb pl_specs]. exact IH.
  - rewrite (is_invalid_none _ E). cbn [negb pl_specs map]. now rewrite IH.
Qed.

Lemma plan_inbound ps : pl_inbound (plan ps) = map pr_id (filter is_call ps).
Proof.
  induction ps as [|p ps IH]; [reflexivity|].
  cbn [plan filter]. unfold is_call at 1, is_valid. destruct (pr_error p) as [e|] eqn:E.
  - rewrite (is_invalid_some _ _ E). cbn [negb andb pl_inbound]. exact IH.
  - rewrite (is_invalid_none _ E). cbn [negb andb pl_inbound].
    destruct (has_id p); cbn [map]; now rewrite IH.
Qed.

Lemma is_call_split ps : filter is_call ps = filter has_id (filter is_valid ps).
Proof. unfold is_call. apply filter_andb. Qed.

Lemma call_count_specs ps : call_count (pl_specs (plan ps)) = length (filter is_call ps).
Proof.
  rewrite plan_specs, is_call_split. unfold call_count.
  induction (filter is_valid ps) as [|p l IH]; [reflexivity|].
  cbn [map filter]. unfold spec_of at 1. cbn [sp_notify]. rewrite negb_involutive.
  destruct (has_id p); cbn [length]; now rewrite IH.
Qed.

Lemma inbound_length ps : length (pl_inbound (plan ps)) = length (filter is_call ps).
Proof. now rewrite plan_inbound, map_length. Qed.

Lemma specs_nil_calls_nil ps : pl_specs (plan ps) = [] -> filter is_call ps = [].
Proof.
  rewrite plan_specs, is_call_split. intros H. apply map_eq_nil in H. now rewrite H.
Qed.

(* ------------------------------------------------------------------------- *)
(* map_back, assemble *)

Lemma map_back_calls calls rs :
  length rs = length calls -> map_back (map pr_id calls) rs = Some (call_objs calls rs).
Proof.
  revert rs; induction calls as [|c calls IH]; intros [|r rs]; cbn [length]; try discriminate.
  - reflexivity.
  - intros [= H]. cbn [map map_back]. rewrite (IH _ H). reflexivity.
Qed.

Lemma map_back_short ids rs : (length ids < length rs)%nat -> map_back ids rs = None.
Proof.
  revert ids; induction rs as [|r rs IH]; intros [|i ids]; cbn [length map_back]; try lia; try reflexivity.
  intros H. rewrite IH; [reflexivity|lia].
Qed.

Lemma assemble_objs s m : shape_objs (snd (assemble s m)) = s ++ m.
Proof. unfold assemble. destruct (s ++ m) as [|o [|o' l]]; reflexivity. Qed.

Lemma assemble_status_shape s m :
  (length (s ++ m) = 0%nat -> assemble s m = (204%Z, BEmpty)) /\
  (length (s ++ m) = 1%nat -> exists o, s ++ m = [o] /\ assemble s m = (200%Z, BSingle o)) /\
  ((2 <= length (s ++ m))%nat -> assemble s m = (200%Z, BArray (s ++ m))).
Proof.
  unfold assemble. destruct (s ++ m) as [|o [|o' l]]; cbn [length]; repeat split; intros; try lia; try reflexivity.
  exists o; split; reflexivity.
Qed.

Lemma serve_internal_batch_flag inner next b b' ms :
  serve_internal inner next (InMsgs b ms) = serve_internal inner next (InMsgs b' ms).
Proof. reflexivity. Qed.

(* ------------------------------------------------------------------------- *)
(* serve_internal over an inner client+server that answers each call once, in order,
   under the ids the shared client allocated (C01 / C04 c04_batch_order) *)

Definition inner_ok (inner : N -> list spec -> list reply) : Prop :=
  forall next specs, map rp_id (inner next specs) = seqN next (call_count specs).

Lemma inner_ok_length inner : inner_ok inner ->
  forall next specs, length (inner next specs) = call_count specs.
Proof. intros H next specs. rewrite <- (map_length rp_id), H. apply seqN_length. Qed.

Lemma serve_internal_specs inner next body ps :
  parse_requests body = Some ps ->
  inner_ok inner ->
  sv_specs (serve_internal inner next body) = map spec_of (filter is_valid ps).
Proof.
  intros Hp Hin. unfold serve_internal. rewrite Hp. rewrite <- plan_specs.
  destruct (pl_specs (plan ps)) as [|s specs] eqn:Es.
  - destruct (assemble (pl_static (plan ps)) []); reflexivity.
  - destruct (map_back _ _); [destruct (assemble _ _)|]; reflexivity.
Qed.

Lemma own_responses inner : inner_ok inner ->
  forall next body ps, parse_requests body = Some ps ->
  let calls := filter is_call ps in
  let rs := inner next (map spec_of (filter is_valid ps)) in
  exists st b,
    sv_out (serve_internal inner next body) = OResp st b /\
    shape_objs b = map err_obj (filter is_invalid ps) ++ call_objs calls rs /\
    length rs = length calls /\
    map rp_id rs = seqN next (length calls) /\
    length (shape_objs b) = (length (filter is_invalid ps) + length calls)%nat.
Proof.
  intros Hin next body ps Hp calls rs.
  assert (Hlen : length rs = length calls).
  { unfold rs, calls. rewrite (inner_ok_length _ Hin), <- plan_specs. apply call_count_specs. }
  assert (Hids : map rp_id rs = seqN next (length calls)).
  { unfold rs, calls. rewrite Hin, <- plan_specs. now rewrite call_count_specs. }
  assert (Hobjs : forall st b, (st, b) = assemble (pl_static (plan ps)) (call_objs calls rs) ->
            shape_objs b = map err_obj (filter is_invalid ps) ++ call_objs calls rs).
  { intros st b E. pose proof (assemble_objs (pl_static (plan ps)) (call_objs calls rs)) as A.
    rewrite <- E in A. cbn [snd] in A. now rewrite A, plan_static. }
  assert (Hcnt : length (map err_obj (filter is_invalid ps) ++ call_objs calls rs)
                 = (length (filter is_invalid ps) + length calls)%nat).
  { unfold call_objs. rewrite app_length, !map_length, combine_length. lia. }
  unfold serve_internal. rewrite Hp.
  destruct (pl_specs (plan ps)) as [|s specs] eqn:Es.
  - (* Batch is not called: no calls at all *)
    pose proof (specs_nil_calls_nil _ Es) as Hc. fold calls in Hc.
    assert (Hrs : rs = []) by (destruct rs; [reflexivity|rewrite Hc in Hlen; discriminate]).
    assert (Hco : call_objs calls rs = []) by (now rewrite Hc, Hrs).
    destruct (assemble (pl_static (plan ps)) []) as [st b] eqn:Ea.
    exists st, b. cbn [sv_out]. rewrite Hco in *.
    split; [reflexivity|]. split; [apply (Hobjs st b); congruence|].
    split; [exact Hlen|]. split; [exact Hids|].
    rewrite (Hobjs st b) by congruence. exact Hcnt.
  - rewrite <- Es. rewrite plan_inbound. rewrite plan_specs. fold rs. fold calls.
    rewrite (map_back_calls calls rs Hlen). cbv beta iota.
    destruct (assemble (pl_static (plan ps)) (call_objs calls rs)) as [st b] eqn:Ea.
    exists st, b. cbn [sv_out].
    split; [reflexivity|]. split; [apply (Hobjs st b); congruence|].
    split; [exact Hlen|]. split; [exact Hids|].
    rewrite (Hobjs st b) by congruence. exact Hcnt.
Qed.

(* the i-th call object bears the id of the i-th valid call and sits after the static errors *)
Lemma ith_call_object static calls rs i c :
  length rs = length calls -> nth_error calls i = Some c ->
  exists r, nth_error rs i = Some r /\
            nth_error (static ++ call_objs calls rs) (length static + i) = Some (call_obj c r) /\
            ro_id (call_obj c r) = pr_id c.
Proof.
  intros Hlen Hc.
  assert (Hi : (i < length rs)%nat) by (rewrite Hlen; apply nth_error_Some; congruence).
  destruct (nth_error rs i) as [r|] eqn:Er; [|apply nth_error_None in Er; lia].
  exists r. split; [reflexivity|]. split; [|reflexivity].
  rewrite nth_error_app2 by lia. replace (length static + i - length static)%nat with i by lia.
  unfold call_objs. rewrite (map_nth_error _ _ _ (nth_error_combine _ _ _ _ _ Hc Er)). reflexivity.
Qed.

Lemma static_no_handler inner : inner_ok inner ->
  forall next body ps, parse_requests body = Some ps ->
  sv_specs (serve_internal inner next body) = map spec_of (filter is_valid ps) /\
  (forall p, In p (filter is_valid ps) -> In p ps /\ pr_error p = None) /\
  (forall p, In p ps -> pr_error p <> None -> ~ In p (filter is_valid ps)) /\
  ((forall p, In p ps -> pr_error p <> None) -> sv_specs (serve_internal inner next body) = []).
Proof.
  intros Hin next body ps Hp. rewrite (serve_internal_specs _ _ _ _ Hp Hin).
  split; [reflexivity|]. split; [|split].
  - intros p H. apply filter_In in H. destruct H as [H1 H2]. split; [exact H1|now apply is_valid_error].
  - intros p _ Hne H. apply filter_In in H. destruct H as [_ H]. apply is_valid_error in H. congruence.
  - intros Hall. replace (filter is_valid ps) with (@nil preq); [reflexivity|].
    symmetry. clear Hp. induction ps as [|p ps IH]; [reflexivity|]. cbn [filter].
    destruct (is_valid p) eqn:E.
    + apply is_valid_error in E. exfalso. apply (Hall p); [now left|exact E].
    + apply IH. intros q Hq. apply Hall. now right.
Qed.

Lemma once inner : inner_ok inner ->
  forall next body ps, parse_requests body = Some ps ->
  let specs := sv_specs (serve_internal inner next body) in
  length specs = length (filter is_valid ps) /\
  (forall i, nth_error specs i = option_map spec_of (nth_error (filter is_valid ps) i)) /\
  call_count specs = length (filter is_call ps) /\
  length (filter (fun s => sp_notify s) specs) = length (filter is_note ps).
Proof.
  intros Hin next body ps Hp specs. unfold specs. rewrite (serve_internal_specs _ _ _ _ Hp Hin).
  split; [apply map_length|]. split; [|split].
  - intros i. revert i. induction (filter is_valid ps) as [|p l IH]; intros [|i]; cbn; try reflexivity. apply IH.
  - rewrite <- plan_specs. apply call_count_specs.
  - unfold is_note. rewrite filter_andb.
    induction (filter is_valid ps) as [|p l IH]; [reflexivity|].
    cbn [map filter]. unfold spec_of at 1. cbn [sp_notify].
    destruct (has_id p); cbn [negb length]; now rewrite IH.
Qed.

(* ------------------------------------------------------------------------- *)
(* the gate *)

Lemma lower_utf_8 : lower s_utf_8 = s_utf_8. Proof. reflexivity. Qed.
Lemma lower_utf8 : lower s_utf8 = s_utf8. Proof. reflexivity. Qed.

Lemma charset_ok_fixed cs :
  charset_ok cfg_fixed cs = true <-> lower cs = s_utf_8 \/ lower cs = s_utf8.
Proof.
  unfold charset_ok, eq_fold. cbn [fix_F13 cfg_fixed]. rewrite lower_utf_8, lower_utf8, orb_true_iff, !beq_eq.
  reflexivity.
Qed.

Lemma gate_405 meth ct has_get :
  meth <> s_POST -> (has_get = false \/ meth <> s_GET) -> gate meth ct false has_get = G405.
Proof.
  intros Hp Hg. unfold gate, gate_cfg.
  assert (beq meth s_GET && has_get = false) as ->.
  { destruct Hg as [-> | Hg]; [apply andb_false_r|]. apply beq_neq in Hg. now rewrite Hg. }
  apply beq_neq in Hp. now rewrite Hp.
Qed.

Lemma gate_415_type ct has_get :
  mt_type ct <> s_app_json -> gate s_POST ct false has_get = G415.
Proof. intros H. unfold gate, gate_cfg. apply beq_neq in H. now rewrite H. Qed.

Lemma gate_415_charset ct cs has_get :
  mt_charset ct = Some cs -> lower cs <> s_utf_8 -> lower cs <> s_utf8 ->
  gate s_POST ct false has_get = G415.
Proof.
  intros Hc H1 H2. unfold gate, gate_cfg. cbn [beq s_POST s_GET N.eqb Pos.eqb andb negb].
  destruct (beq (mt_type ct) s_app_json); cbn [negb]; [|reflexivity].
  rewrite Hc. destruct (charset_ok cfg_fixed cs) eqn:E; [|reflexivity].
  apply charset_ok_fixed in E. tauto.
Qed.

Lemma gate_pass ct has_hook has_get :
  mt_type ct = s_app_json ->
  (mt_charset ct = None \/ exists cs, mt_charset ct = Some cs /\ (lower cs = s_utf_8 \/ lower cs = s_utf8)) ->
  gate s_POST ct has_hook has_get = GPass.
Proof.
  intros Ht Hc. unfold gate, gate_cfg. cbn [beq s_POST s_GET N.eqb Pos.eqb andb negb].
  destruct has_hook; [reflexivity|]. rewrite Ht, beq_refl. cbn [negb].
  destruct Hc as [-> | [cs [-> H]]]; [reflexivity|].
  apply charset_ok_fixed in H. now rewrite H.
Qed.

Lemma gate_hook meth ct has_get :
  (has_get = false \/ meth <> s_GET) -> gate meth ct true has_get = GPass.
Proof.
  intros Hg. unfold gate, gate_cfg.
  assert (beq meth s_GET && has_get = false) as ->; [|reflexivity].
  destruct Hg as [-> | Hg]; [apply andb_false_r|]. apply beq_neq in Hg. now rewrite Hg.
Qed.

Lemma gated_no_spec inner next meth ct has_hook has_get body :
  gate meth ct has_hook has_get <> GPass ->
  sv_specs (serve inner next meth ct has_hook has_get body) = [] /\
  sv_next (serve inner next meth ct has_hook has_get body) = next /\
  (gate meth ct has_hook has_get = G405 -> sv_out (serve inner next meth ct has_hook has_get body) = OGate 405%Z) /\
  (gate meth ct has_hook has_get = G415 -> sv_out (serve inner next meth ct has_hook has_get body) = OGate 415%Z).
Proof.
  intros H. unfold serve. destruct (gate meth ct has_hook has_get); try congruence; cbn; repeat split; congruence.
Qed.

Lemma bad_body inner next meth ct has_hook has_get :
  gate meth ct has_hook has_get = GPass ->
  sv_out (serve inner next meth ct has_hook has_get InBad) = OBadBody 500%Z /\
  sv_specs (serve inner next meth ct has_hook has_get InBad) = [] /\
  sv_next (serve inner next meth ct has_hook has_get InBad) = next.
Proof. intros H. unfold serve. rewrite H. cbn. repeat split. Qed.

Lemma gate_all inner :
  (forall meth ct has_get, meth <> s_POST -> (has_get = false \/ meth <> s_GET) ->
      gate meth ct false has_get = G405) /\
  (forall ct has_get, mt_type ct <> s_app_json -> gate s_POST ct false has_get = G415) /\
  (forall ct cs has_get, mt_charset ct = Some cs -> lower cs <> s_utf_8 -> lower cs <> s_utf8 ->
      gate s_POST ct false has_get = G415) /\
  (forall ct has_hook has_get, mt_type ct = s_app_json ->
      (mt_charset ct = None \/ exists cs, mt_charset ct = Some cs /\ (lower cs = s_utf_8 \/ lower cs = s_utf8)) ->
      gate s_POST ct has_hook has_get = GPass) /\
  (forall next meth ct has_hook has_get body, gate meth ct has_hook has_get <> GPass ->
      sv_specs (serve inner next meth ct has_hook has_get body) = [] /\
      sv_next (serve inner next meth ct has_hook has_get body) = next /\
      (gate meth ct has_hook has_get = G405 -> sv_out (serve inner next meth ct has_hook has_get body) = OGate 405%Z) /\
      (gate meth ct has_hook has_get = G415 -> sv_out (serve inner next meth ct has_hook has_get body) = OGate 415%Z)) /\
  (forall next meth ct has_hook has_get, gate meth ct has_hook has_get = GPass ->
      sv_out (serve inner next meth ct has_hook has_get InBad) = OBadBody 500%Z /\
      sv_specs (serve inner next meth ct has_hook has_get InBad) = [] /\
      sv_next (serve inner next meth ct has_hook has_get InBad) = next).
Proof.
  split; [exact gate_405|]. split; [exact gate_415_type|]. split; [exact gate_415_charset|].
  split; [exact gate_pass|]. split; [exact (gated_no_spec inner)|exact (bad_body inner)].
Qed.

(* F13: with the pre-fix comparison the spelling most HTTP clients send is rejected *)
Definition ct_UTF8 : mediatype := {| mt_type := s_app_json; mt_charset := Some [85; 84; 70; 45; 56] |}.
Lemma gate_refuted_without_F13 :
  gate_cfg {| fix_F13 := false |} s_POST ct_UTF8 false false = G415 /\
  gate s_POST ct_UTF8 false false = GPass.
Proof. split; vm_compute; reflexivity. Qed.

(* ------------------------------------------------------------------------- *)
(* the shared client: allocation and routing *)

Lemma alloc2_spec sched : forall next na nb a b n,
  alloc2 next na nb sched = (a, b, n) ->
  length a = na /\ length b = nb /\ n = next + N.of_nat na + N.of_nat nb /\
  (forall x, In x a -> next <= x < n) /\ (forall x, In x b -> next <= x < n) /\
  NoDup a /\ NoDup b /\ (forall x, In x a -> ~ In x b).
Proof.
  induction sched as [|who s IH]; intros next na nb a b n H.
  - cbn [alloc2] in H. injection H as <- <- <-.
    rewrite !seqN_length. repeat split; try apply seqN_NoDup.
    + apply seqN_in in H. lia.
    + apply seqN_in in H. lia.
    + apply seqN_in in H. lia.
    + apply seqN_in in H. lia.
    + intros x Ha Hb. apply seqN_in in Ha. apply seqN_in in Hb. lia.
  - cbn [alloc2] in H. destruct who.
    + destruct na as [|na'].
      * apply IH in H. exact H.
      * destruct (alloc2 (N.succ next) na' nb s) as [[a' b'] n'] eqn:E.
        injection H as <- <- <-. apply IH in E.
        destruct E as (La & Lb & Hn & Ba & Bb & Na & Nb & D).
        repeat split.
        -- cbn [length]. now rewrite La.
        -- exact Lb.
        -- lia.
        -- destruct H as [<-|H]; [lia|]. apply Ba in H. lia.
        -- destruct H as [<-|H]; [lia|]. apply Ba in H. lia.
        -- apply Bb in H. lia.
        -- apply Bb in H. lia.
        -- constructor; [|exact Na]. intros H. apply Ba in H. lia.
        -- exact Nb.
        -- intros x [<-|Hx] Hb; [apply Bb in Hb; lia|]. exact (D x Hx Hb).
    + destruct nb as [|nb'].
      * apply IH in H. exact H.
      * destruct (alloc2 (N.succ next) na nb' s) as [[a' b'] n'] eqn:E.
        injection H as <- <- <-. apply IH in E.
        destruct E as (La & Lb & Hn & Ba & Bb & Na & Nb & D).
        repeat split.
        -- exact La.
        -- cbn [length]. now rewrite Lb.
        -- lia.
        -- apply Ba in H. lia.
        -- apply Ba in H. lia.
        -- destruct H as [<-|H]; [lia|]. apply Bb in H. lia.
        -- destruct H as [<-|H]; [lia|]. apply Bb in H. lia.
        -- exact Na.
        -- constructor; [|exact Nb]. intros H. apply Bb in H. lia.
        -- intros x Hx [<-|Hb]; [apply Ba in Hx; lia|]. exact (D x Hx Hb).
Qed.

Lemma route_ok ids pool :
  (forall i, In i ids -> In i (map rp_id pool)) ->
  exists rs, route ids pool = Some rs /\ map rp_id rs = ids /\ (forall r, In r rs -> In r pool).
Proof.
  induction ids as [|i ids IH]; intros H.
  - exists []. cbn. repeat split; tauto.
  - destruct IH as (rs & Hr & Hm & Hp); [intros j Hj; apply H; now right|].
    cbn [route]. destruct (find (fun r => rp_id r =? i) pool) as [r|] eqn:F.
    + apply find_some in F. destruct F as [Fin Feq]. apply N.eqb_eq in Feq.
      exists (r :: rs). rewrite Hr. cbn [map]. rewrite Feq, Hm. repeat split.
      intros r' [<-|Hr']; auto.
    + exfalso. assert (Hi : In i (map rp_id pool)) by (apply H; now left).
      apply in_map_iff in Hi. destruct Hi as (r & <- & Hin).
      pose proof (find_none _ _ F r Hin) as Hf. cbn in Hf. now rewrite N.eqb_refl in Hf.
Qed.

Lemma post_routed_objs ps ids pool rs :
  route ids pool = Some rs -> length rs = length (filter is_call ps) ->
  exists st b, post_routed ps ids pool = Some (OResp st b) /\
    shape_objs b = map err_obj (filter is_invalid ps) ++ call_objs (filter is_call ps) rs.
Proof.
  intros Hr Hlen. unfold post_routed.
  destruct (pl_specs (plan ps)) as [|s specs] eqn:Es.
  - pose proof (specs_nil_calls_nil _ Es) as Hc. rewrite Hc in *.
    destruct rs; [|discriminate].
    destruct (assemble (pl_static (plan ps)) []) as [st b] eqn:Ea. exists st, b. split; [reflexivity|].
    pose proof (assemble_objs (pl_static (plan ps)) []) as A. rewrite Ea in A. cbn [snd] in A.
    rewrite A, plan_static. reflexivity.
  - rewrite Hr, plan_inbound, (map_back_calls _ _ Hlen).
    destruct (assemble _ _) as [st b] eqn:Ea. exists st, b. split; [reflexivity|].
    pose proof (assemble_objs (pl_static (plan ps)) (call_objs (filter is_call ps) rs)) as A.
    rewrite Ea in A. cbn [snd] in A. rewrite A, plan_static. reflexivity.
Qed.

Lemma isolation psA psB next sched pool idsA idsB next' :
  alloc2 next (call_count (pl_specs (plan psA))) (call_count (pl_specs (plan psB))) sched = (idsA, idsB, next') ->
  (forall i, In i (idsA ++ idsB) -> In i (map rp_id pool)) ->
  NoDup idsA /\ NoDup idsB /\ (forall i, In i idsA -> ~ In i idsB) /\
  exists rsA rsB,
    route idsA pool = Some rsA /\ route idsB pool = Some rsB /\
    map rp_id rsA = idsA /\ map rp_id rsB = idsB /\
    (forall r, In r rsA -> In r pool /\ In (rp_id r) idsA /\ ~ In (rp_id r) idsB) /\
    (forall r, In r rsB -> In r pool /\ In (rp_id r) idsB /\ ~ In (rp_id r) idsA) /\
    (exists st b, post_routed psA idsA pool = Some (OResp st b) /\
       shape_objs b = map err_obj (filter is_invalid psA) ++ call_objs (filter is_call psA) rsA) /\
    (exists st b, post_routed psB idsB pool = Some (OResp st b) /\
       shape_objs b = map err_obj (filter is_invalid psB) ++ call_objs (filter is_call psB) rsB).
Proof.
  intros Ha Hpool. apply alloc2_spec in Ha.
  destruct Ha as (La & Lb & _ & _ & _ & Na & Nb & D).
  rewrite call_count_specs in La, Lb.
  split; [exact Na|]. split; [exact Nb|]. split; [exact D|].
  destruct (route_ok idsA pool) as (rsA & RA & MA & PA); [intros i Hi; apply Hpool, in_or_app; now left|].
  destruct (route_ok idsB pool) as (rsB & RB & MB & PB); [intros i Hi; apply Hpool, in_or_app; now right|].
  exists rsA, rsB. split; [exact RA|]. split; [exact RB|]. split; [exact MA|]. split; [exact MB|].
  split; [|split; [|split]].
  - intros r Hr. assert (In (rp_id r) idsA) by (rewrite <- MA; now apply in_map). auto.
  - intros r Hr. assert (In (rp_id r) idsB) by (rewrite <- MB; now apply in_map).
    split; [auto|]. split; [assumption|]. intros Hc. exact (D _ Hc H).
  - apply (post_routed_objs psA idsA pool rsA RA). rewrite <- La, <- MA. symmetry; apply map_length.
  - apply (post_routed_objs psB idsB pool rsB RB). rewrite <- Lb, <- MB. symmetry; apply map_length.
Qed.

(* running alone is the special case: ids next, next+1, ...; the pool is what inner returned *)
Lemma alone_is_routed inner : inner_ok inner ->
  forall next ms b, let ps := map parsed ms in
  post_routed ps (seqN next (call_count (pl_specs (plan ps)))) (inner next (pl_specs (plan ps)))
  = Some (sv_out (serve_internal inner next (InMsgs b ms))).
Proof.
  intros Hin next ms b ps. unfold post_routed, serve_internal. cbn [parse_requests]. fold ps.
  destruct (pl_specs (plan ps)) as [|s specs] eqn:Es.
  - destruct (assemble _ _); reflexivity.
  - set (rs := inner next (s :: specs)).
    assert (R : route (seqN next (call_count (s :: specs))) rs = Some rs).
    { rewrite <- (Hin next (s :: specs)). fold rs.
      assert (G : forall l pool, (forall r, In r l -> find (fun r' => rp_id r' =? rp_id r) pool = Some r) ->
                  route (map rp_id l) pool = Some l).
      { induction l as [|r l IH]; intros pool Hf; [reflexivity|].
        cbn [map route]. rewrite (Hf r) by now left. rewrite IH; [reflexivity|]. intros; apply Hf; now right. }
      apply G. intros r Hr.
      assert (ND : NoDup (map rp_id rs)) by (unfold rs; rewrite Hin; apply seqN_NoDup).
      clear - Hr ND. induction rs as [|r0 rs IH]; [destruct Hr|].
      cbn [find]. cbn [map] in ND. inversion ND as [|? ? Hn ND']; subst.
      destruct Hr as [->|Hr]; [now rewrite N.eqb_refl|].
      destruct (N.eqb_spec (rp_id r0) (rp_id r)) as [E|_]; [|now apply IH].
      exfalso. apply Hn. rewrite E. now apply in_map. }
    rewrite R. destruct (map_back _ _); [destruct (assemble _ _)|]; reflexivity.
Qed.

(* ------------------------------------------------------------------------- *)
(* the table-driven inner server of the correspondence runs satisfies the hypothesis *)

Lemma table_inner_ok known tbl : inner_ok (table_inner known tbl).
Proof.
  intros next specs. revert next. unfold call_count.
  induction specs as [|s specs IH]; intros next; [reflexivity|].
  cbn [table_inner filter]. destruct (sp_notify s); cbn [negb]; [apply IH|].
  cbn [map rp_id length seqN]. now rewrite IH.
Qed.

(* ------------------------------------------------------------------------- *)
(* non-vacuity: concrete instances (closed by computation) *)

Definition b_g : bytes := [103].
Definition mkp (id meth params : bytes) (e : option werr) : preq :=
  {| pr_id := id; pr_method := meth; pr_params := params; pr_error := e |}.
(* ids: 1e3, "a" (twice), 7 ; params [1] .. [5] *)
Definition ex_note := mkp [] b_g [91; 49; 93] None.
Definition ex_bad := mkp [55] b_g [91; 50; 93] (Some (err_code InvalidRequest)).
Definition ex_badnull := mkp [] b_g [91; 54; 93] (Some (err_code ParseError)).
Definition ex_c1 := mkp [49; 101; 51] b_g [91; 51; 93] None.
Definition ex_c2 := mkp [34; 97; 34] [110; 111] [91; 52; 93] None.
Definition ex_c3 := mkp [34; 97; 34] b_g [91; 53; 93] None.
Definition ex_ps := [ex_note; ex_bad; ex_c1; ex_badnull; ex_c2; ex_c3].
Definition ex_tbl : list (bytes * rbody) :=
  [([91; 51; 93], RResult [51]); ([91; 53; 93], RError (err_code 5%Z)); ([91; 49; 93], RResult [49])].
Definition ex_inner := table_inner [b_g] ex_tbl.

Definition jm (id meth params : bytes) (e : option werr) : jmsg :=
  {| j_id := id; j_method := meth; j_params := params; j_error := None; j_result := []; j_err := e |}.
Definition ex_ms : list jmsg :=
  [jm null_bytes b_g [91; 49; 93] None; jm [55] b_g [91; 50; 93] (Some (err_code InvalidRequest));
   jm [49; 101; 51] b_g [91; 51; 93] None; jm [] b_g [91; 54; 93] (Some (err_code ParseError));
   jm [34; 97; 34] [110; 111] [91; 52; 93] None; jm [34; 97; 34] b_g [91; 53; 93] None].

Example ex_parse_nonvacuous : parse_requests (InMsgs true ex_ms) = Some ex_ps.
Proof. vm_compute. reflexivity. Qed.

(* a notification and an invalid member precede the calls: ids are still mapped by call position *)
Example own_responses_nonvacuous :
  sv_out (serve_internal ex_inner 10 (InMsgs true ex_ms)) =
  OResp 200%Z (BArray [ {| ro_id := [55]; ro_body := RError (err_code InvalidRequest) |};
                        {| ro_id := null_bytes; ro_body := RError (err_code ParseError) |};
                        {| ro_id := [49; 101; 51]; ro_body := RResult [51] |};
                        {| ro_id := [34; 97; 34]; ro_body := RError (err_code MethodNotFound) |};
                        {| ro_id := [34; 97; 34]; ro_body := RError (err_code 5%Z) |} ]) /\
  map rp_id (ex_inner 10 (map spec_of (filter is_valid ex_ps))) = [10; 11; 12] /\
  invoked [b_g] (sv_specs (serve_internal ex_inner 10 (InMsgs true ex_ms))) = [[91; 49; 93]; [91; 51; 93]; [91; 53; 93]] /\
  sv_next (serve_internal ex_inner 10 (InMsgs true ex_ms)) = 13.
Proof. vm_compute. repeat split. Qed.

Example inner_ok_nonvacuous : inner_ok ex_inner.
Proof. apply table_inner_ok. Qed.

Example shape_status_nonvacuous :
  sv_out (serve_internal ex_inner 1 (InMsgs true [jm [] b_g [91; 49; 93] None])) = OResp 204%Z BEmpty /\
  sv_out (serve_internal ex_inner 1 (InMsgs true [])) = OResp 204%Z BEmpty /\
  sv_out (serve_internal ex_inner 1 (InMsgs true [jm [55] b_g [91; 51; 93] None])) =
    OResp 200%Z (BSingle {| ro_id := [55]; ro_body := RResult [51] |}) /\
  sv_out (serve_internal ex_inner 1 (InMsgs false [jm [55] b_g [91; 51; 93] None])) =
    OResp 200%Z (BSingle {| ro_id := [55]; ro_body := RResult [51] |}).
Proof. vm_compute. repeat split. Qed.

Example static_no_handler_nonvacuous :
  sv_specs (serve_internal ex_inner 1 (InMsgs true [jm [55] b_g [91; 50; 93] (Some (err_code InvalidRequest))])) = [] /\
  sv_out (serve_internal ex_inner 1 (InMsgs true [jm [55] b_g [91; 50; 93] (Some (err_code InvalidRequest))])) =
    OResp 200%Z (BSingle {| ro_id := [55]; ro_body := RError (err_code InvalidRequest) |}).
Proof. vm_compute. split; reflexivity. Qed.

Definition ct_json : mediatype := {| mt_type := s_app_json; mt_charset := None |}.
Definition ct_text : mediatype := {| mt_type := [116; 101; 120; 116; 47; 112; 108; 97; 105; 110]; mt_charset := None |}.
Definition ct_latin1 : mediatype := {| mt_type := s_app_json; mt_charset := Some [108; 97; 116; 105; 110; 49] |}.
Definition s_PUT : bytes := [80; 85; 84].

Example gate_nonvacuous :
  gate s_PUT ct_json false false = G405 /\ gate s_GET ct_json false false = G405 /\
  gate s_GET ct_json false true = GGetter /\ gate s_PUT ct_json false true = G405 /\
  gate s_POST ct_text false false = G415 /\ gate s_POST ct_latin1 false false = G415 /\
  gate s_POST ct_UTF8 false false = GPass /\ gate s_POST ct_json false false = GPass /\
  gate s_PUT ct_text true false = GPass /\
  lower [85; 84; 70; 45; 56] = s_utf_8 /\
  lower [108; 97; 116; 105; 110; 49] <> s_utf_8 /\ lower [108; 97; 116; 105; 110; 49] <> s_utf8 /\
  sv_out (serve ex_inner 1 s_POST ct_json false false InBad) = OBadBody 500%Z /\
  sv_out (serve ex_inner 1 s_PUT ct_json false false (InMsgs false [jm [55] b_g [91; 51; 93] None])) = OGate 405%Z.
Proof. vm_compute. repeat split; discriminate. Qed.

(* two POSTs with the same caller id "a" and 7, allocations interleaved B A A B, replies in reverse order *)
Definition ex_A := [mkp [34; 97; 34] b_g [91; 49; 93] None; ex_note; mkp [55] b_g [91; 50; 93] None].
Definition ex_B := [ex_bad; mkp [55] b_g [91; 51; 93] None; mkp [34; 97; 34] b_g [91; 52; 93] None].
Definition ex_pool : list reply :=
  [ {| rp_id := 8; rp_body := RResult [56] |}; {| rp_id := 7; rp_body := RResult [55] |};
    {| rp_id := 6; rp_body := RResult [54] |}; {| rp_id := 5; rp_body := RResult [53] |} ].

Example isolation_nonvacuous :
  alloc2 5 2 2 [false; true; true; false] = ([6; 7], [5; 8], 9) /\
  call_count (pl_specs (plan ex_A)) = 2%nat /\ call_count (pl_specs (plan ex_B)) = 2%nat /\
  post_routed ex_A [6; 7] ex_pool =
    Some (OResp 200%Z (BArray [ {| ro_id := [34; 97; 34]; ro_body := RResult [54] |};
                                {| ro_id := [55]; ro_body := RResult [55] |} ])) /\
  post_routed ex_B [5; 8] ex_pool =
    Some (OResp 200%Z (BArray [ {| ro_id := [55]; ro_body := RError (err_code InvalidRequest) |};
                                {| ro_id := [55]; ro_body := RResult [53] |};
                                {| ro_id := [34; 97; 34]; ro_body := RResult [56] |} ])).
Proof. vm_compute. repeat split. Qed.

(* the index-out-of-range panic is a modelled outcome; it needs an inner that over-answers *)
Example crash_reachable_without_inner_ok :
  sv_out (serve_internal (fun n _ => [ {| rp_id := n; rp_body := RResult [49] |} ]) 1
            (InMsgs false [jm [] b_g [91; 49; 93] None])) = OCrash.
Proof. vm_compute. reflexivity. Qed.
