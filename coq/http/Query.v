(* Query: model of jhttp/getter.go -- the value typing cascade of ParseQuery
   (parseJSONString, parseNumber/isDecimal, parseConstant, parseQuoted64), the
   method name rule shared by ParseBasic and ParseQuery, and the status mapping
   of Getter.ServeHTTP.  Definitions only (executable; extracted and run against
   the real code by the C19 correspondence check).

   Trusted, not modelled: net/url and http.Request.ParseForm (the model starts
   from the decoded path and the list of (key, first value) pairs), the numeric
   value strconv.ParseFloat returns (only its language and its finiteness are
   modelled), encoding/json on the Go values produced.

   Bytes of interest: 34 double quote, 39 single quote, 43 plus, 45 minus,
   46 dot, 47 slash, 48..57 digits, 61 equals sign, 10 LF, 13 CR. *)
From Coq Require Import List NArith ZArith Bool.
From JV Require Import Bytes QStr.
Import ListNotations.
Local Open Scope N_scope.

(** * Results of typing one query value *)
Inductive ekind := EString | EBytes.      (* "decoding string ..." | "decoding bytes ..." *)

Inductive qres :=
| QErr (k : ekind)          (* ParseQuery fails *)
| QStr (v : bytes)          (* double-quoted: the decoded JSON string *)
| QInt (z : Z)              (* int64 *)
| QFloat (text : bytes)     (* float64 = ParseFloat text; the value itself is not modelled *)
| QBool (b : bool)
| QNull
| QBytes (v : bytes)        (* single-quoted base64 *)
| QLit (s : bytes).         (* anything else: the literal string *)

Inductive tri := TNo | TErr | TOk (v : bytes).

(** * Ends of a string *)
(* s = m ++ [b] *)
Fixpoint unsnoc (s : bytes) : option (bytes * N) :=
  match s with
  | [] => None
  | x :: r => match unsnoc r with
              | None => Some ([], x)
              | Some (m, b) => Some (x :: m, b)
              end
  end.

(* len(s) >= 2 && s[0] == q && s[len(s)-1] == q : the text between the quotes *)
Definition quoted (q : N) (s : bytes) : option bytes :=
  match s with
  | a :: r => match unsnoc r with
              | Some (m, b) => if (a =? q) && (b =? q) then Some m else None
              | None => None
              end
  | [] => None
  end.

(* s != "" && (s[0] == q || s[len(s)-1] == q) *)
Definition touches (q : N) (s : bytes) : bool :=
  match s with
  | a :: r => (a =? q) || match unsnoc r with Some (_, b) => b =? q | None => false end
  | [] => false
  end.

(** * parseJSONString *)
Definition parse_json_string (s : bytes) : tri :=
  match quoted 34 s with
  | Some inner => match unq inner with Some v => TOk v | None => TErr end
  | None => if touches 34 s then TErr else TNo
  end.

(** * parseNumber *)
Definition is_digit (c : N) : bool := (48 <=? c) && (c <=? 57).

(* optional leading sign: (negative?, rest) *)
Definition split_sign (s : bytes) : bool * bytes :=
  match s with
  | c :: r => if c =? 43 then (false, r) else if c =? 45 then (true, r) else (false, s)
  | [] => (false, [])
  end.

Fixpoint dec_val (acc : Z) (s : bytes) : Z :=
  match s with
  | [] => acc
  | c :: r => dec_val (acc * 10 + (Z.of_N c - 48)) r
  end.

Definition int64_min : Z := (- 9223372036854775808)%Z.
Definition int64_max : Z := 9223372036854775807%Z.

(* strconv.ParseInt(s, 10, 64) succeeds: optional sign, one or more digits (base
   10 given explicitly: no underscores, no prefixes), value within int64 *)
Definition parse_int64 (s : bytes) : option Z :=
  let (neg, d) := split_sign s in
  match d with
  | [] => None
  | _ :: _ =>
    if forallb is_digit d then
      let v := dec_val 0 d in
      let z := if neg then (- v)%Z else v in
      if (int64_min <=? z)%Z && (z <=? int64_max)%Z then Some z else None
    else None
  end.

(* isDecimal: the counting loop of the Go function: (digits, dots), None on any other byte *)
Fixpoint count_dd (s : bytes) : option (nat * nat) :=
  match s with
  | [] => Some (0, 0)%nat
  | c :: r => match count_dd r with
              | None => None
              | Some (d, p) => if is_digit c then Some (S d, p)
                               else if c =? 46 then Some (d, S p)
                               else None
              end
  end.

Definition is_decimal (s : bytes) : bool :=
  match count_dd (snd (split_sign s)) with
  | Some (d, p) => Nat.ltb 0 d && Nat.leb p 1
  | None => false
  end.

(* Finiteness of ParseFloat on a decimal numeral.  ParseFloat rounds correctly
   (to nearest, ties to even) and reports a range error exactly when the
   rounded value would be 2^1024 or more, i.e. when |value| >= 2^1024 - 2^970
   (halfway between the largest float64 and 2^1024; the tie rounds to the even
   mantissa, which is 2^1024).  The bound is an integer, so only the integer
   digits decide.  Underflow is not an error (the result is a zero). *)
Fixpoint take_digits (s : bytes) : bytes :=
  match s with
  | c :: r => if is_digit c then c :: take_digits r else []
  | [] => []
  end.

Definition float_overflow_bound : Z := (2 ^ 1024 - 2 ^ 970)%Z.

Definition float_finite (s : bytes) : bool :=
  (dec_val 0 (take_digits (snd (split_sign s))) <? float_overflow_bound)%Z.

(* The language ParseFloat accepted before fix F8 beyond the decimal numerals, as
   far as the refutation witness needs it: NaN, [+-]Inf, [+-]Infinity in any
   letter case (hex floats, exponents and underscores are not reproduced here). *)
Definition lower (c : N) : N := if (65 <=? c) && (c <=? 90) then c + 32 else c.
Definition ieq (s : bytes) (w : bytes) : bool := beq (map lower s) w.
Definition float_special (s : bytes) : bool :=
  ieq s [110; 97; 110] ||
  let b := snd (split_sign s) in
  ieq b [105; 110; 102] || ieq b [105; 110; 102; 105; 110; 105; 116; 121].

Definition parse_number (fix_F8 : bool) (s : bytes) : option qres :=
  match parse_int64 s with
  | Some z => Some (QInt z)
  | None =>
    if is_decimal s then (if float_finite s then Some (QFloat s) else None)
    else if negb fix_F8 && float_special s then Some (QFloat s)
    else None
  end.

(** * parseConstant *)
Definition w_true : bytes := [116; 114; 117; 101].
Definition w_false : bytes := [102; 97; 108; 115; 101].
Definition w_null : bytes := [110; 117; 108; 108].

Definition parse_constant (s : bytes) : option qres :=
  if beq s w_true then Some (QBool true)
  else if beq s w_false then Some (QBool false)
  else if beq s w_null then Some QNull
  else None.

(** * parseQuoted64 *)
(* strings.TrimRight(s, "=") *)
Fixpoint trim_right (c : N) (s : bytes) : bytes :=
  match s with
  | [] => []
  | x :: r => match trim_right c r with
              | [] => if x =? c then [] else [x]
              | t => x :: t
              end
  end.

(* base64.RawStdEncoding.DecodeString: CR and LF are skipped, every other byte
   must be in the standard alphabet, a final group of one character is an
   error, the unused low bits of a final group of two or three characters are
   ignored (the encoding is not Strict). *)
Definition b64val (c : N) : option N :=
  if in_range 65 90 c then Some (c - 65)
  else if in_range 97 122 c then Some (c - 71)
  else if in_range 48 57 c then Some (c + 4)
  else if c =? 43 then Some 62
  else if c =? 47 then Some 63
  else None.

Fixpoint b64_vals (s : bytes) : option (list N) :=
  match s with
  | [] => Some []
  | c :: r =>
    if (c =? 10) || (c =? 13) then b64_vals r
    else match b64val c, b64_vals r with
         | Some v, Some vs => Some (v :: vs)
         | _, _ => None
         end
  end.

Fixpoint b64_groups (v : list N) : option bytes :=
  match v with
  | [] => Some []
  | [_] => None
  | [a; b] => Some [a * 4 + b / 16]
  | [a; b; c] => Some [a * 4 + b / 16; (b mod 16) * 16 + c / 4]
  | a :: b :: c :: d :: r =>
    option_map (app [a * 4 + b / 16; (b mod 16) * 16 + c / 4; (c mod 4) * 64 + d]) (b64_groups r)
  end.

Definition b64_decode (s : bytes) : option bytes :=
  match b64_vals s with
  | Some v => b64_groups v
  | None => None
  end.

Definition parse_quoted64 (s : bytes) : tri :=
  match quoted 39 s with
  | Some inner => match b64_decode (trim_right 61 inner) with Some v => TOk v | None => TErr end
  | None => if touches 39 s then TErr else TNo
  end.

(** * The cascade of ParseQuery for one value *)
Definition classify_cfg (fix_F8 : bool) (s : bytes) : qres :=
  match parse_json_string s with
  | TErr => QErr EString
  | TOk v => QStr v
  | TNo =>
    match parse_number fix_F8 s with
    | Some r => r
    | None =>
      match parse_constant s with
      | Some r => r
      | None =>
        match parse_quoted64 s with
        | TErr => QErr EBytes
        | TOk v => QBytes v
        | TNo => QLit s
        end
      end
    end
  end.

Definition classify : bytes -> qres := classify_cfg true.

(* json.Marshal succeeds on the Go value: always, except for a float64 that is
   NaN or an infinity -- i.e. a QFloat whose text is not a finite decimal numeral. *)
Definition marshalable (r : qres) : bool :=
  match r with
  | QErr _ => false
  | QFloat t => is_decimal t && float_finite t
  | _ => true
  end.

Definition is_qerr (r : qres) : bool := match r with QErr _ => true | _ => false end.

(** * Method name: strings.Trim(req.URL.Path, "/"), empty is an error *)
Fixpoint trim_left (c : N) (s : bytes) : bytes :=
  match s with
  | x :: r => if x =? c then trim_left c r else s
  | [] => []
  end.

Definition trim (c : N) (s : bytes) : bytes := trim_right c (trim_left c s).

Definition method_of_path (path : bytes) : option bytes :=
  match trim 47 path with
  | [] => None
  | m => Some m
  end.

(** * ParseBasic / ParseQuery over the parsed request *)
(* hq_form = None: req.ParseForm reported an error.  Otherwise the keys of
   req.Form (distinct) with req.Form.Get(key), in any order. *)
Record hreq := { hq_path : bytes; hq_form : option (list (bytes * bytes)) }.

Inductive params :=
| PNil                                   (* ParseQuery with an empty form: nil *)
| PMap (kv : list (bytes * qres)).       (* map[string]any / map[string]string (all QLit) *)

Inductive pres := PRErr | PROk (method : bytes) (p : params).

Definition parse_query_cfg (fix_F8 : bool) (r : hreq) : pres :=
  match hq_form r with
  | None => PRErr
  | Some f =>
    match method_of_path (hq_path r) with
    | None => PRErr
    | Some m =>
      match f with
      | [] => PROk m PNil
      | _ :: _ =>
        let kv := map (fun p => (fst p, classify_cfg fix_F8 (snd p))) f in
        if existsb (fun p => is_qerr (snd p)) kv then PRErr else PROk m (PMap kv)
      end
    end
  end.

Definition parse_query : hreq -> pres := parse_query_cfg true.

Definition parse_basic (r : hreq) : pres :=
  match hq_form r with
  | None => PRErr
  | Some f =>
    match method_of_path (hq_path r) with
    | None => PRErr
    | Some m => PROk m (PMap (map (fun p => (fst p, QLit (snd p))) f))
    end
  end.

Definition params_marshalable (p : params) : bool :=
  match p with
  | PNil => true
  | PMap kv => forallb (fun x => marshalable (snd x)) kv
  end.

(** * Getter.ServeHTTP *)
(* What Client.CallResult returns for (method, params) *)
Inductive call_result :=
| CallOk (result : bytes)          (* the raw JSON result *)
| CallErr (code : Z)               (* a *jrpc2.Error with this code (from the server or the handler) *)
| CallFail.                        (* any other failure: context ended, client closed, ... *)

Inductive body :=
| BError (code : Z)                (* a JSON-RPC error object with this code *)
| BOther                           (* json.Marshal of a non-protocol Go error value *)
| BResult (r : bytes).             (* the result, verbatim *)

Definition code_parse_error : Z := (-32700)%Z.
Definition code_method_not_found : Z := (-32601)%Z.

Definition getter_status (p : pres) (srv : bytes -> params -> call_result) : Z * body :=
  match p with
  | PRErr => (400%Z, BError code_parse_error)
  | PROk m ps =>
    if params_marshalable ps then
      match srv m ps with
      | CallOk r => (200%Z, BResult r)
      | CallErr c => ((if (c =? code_method_not_found)%Z then 404 else 500)%Z, BError c)
      | CallFail => (500%Z, BOther)
      end
    else (500%Z, BOther)      (* CallResult fails to marshal the parameters; unreachable from parse_query *)
  end.

Definition getter (r : hreq) (srv : bytes -> params -> call_result) : Z * body :=
  getter_status (parse_query r) srv.
