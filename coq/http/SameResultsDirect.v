(* SameResultsDirect: what a jrpc2.Server on a plain (direct) channel sends for a request record, compared with
   what the Bridge answers for the same record; and c19's "same results" restated against a direct run that is
   fed THOSE records (not the Bridge's own reply records).

   [direct_answer inner next req]: the record (as the client's parseJSON reads it) a server sends for the request
   record [req] on a direct connection.  Its members are answered by [inner] exactly as behind the Bridge (the
   i-th call of the record gets the payload of the i-th reply of [inner next specs]: the handlers are the same),
   but: the ids are the ids AS SENT (no remapping), the replies are in REQUEST order (invalid members answered at
   their position, server.go tasks.responses), notifications are silent, the record is an array iff the request
   was a batch or the number of replies is not one (jmessages.toJSON), and when there is nothing to report NO
   record is sent (None).  An undecodable record / an empty batch get the server's single error reply.
   Not represented: a direct server rejects a duplicated id inside one record (-32600), the Bridge remaps ids
   and answers both; the records of the client model never repeat an id (SameResultsCli.op_ids_nodup). *)
From Coq Require Import List NArith ZArith Bool Arith Lia Permutation.
From RecordUpdate Require Import RecordUpdate.
From JV Require Bridge BridgeProofs.
From JV Require Import HttpChan HttpChanProofs SameResults.
From JV Require Import Bytes Msg CliModel CliLemmas CliInv CliProofs CliCtx CliOps CliHist CliSend CliFed CliNoStop CliSendLog
     SameResultsCli SameResultsBridge.
Import ListNotations.

(** * the direct server's answer *)
Fixpoint direct_objs (ps : list Bridge.preq) (rs : list Bridge.reply) : list Bridge.robj :=
  match ps with
  | [] => []
  | p :: rest =>
    if Bridge.is_invalid p then Bridge.err_obj p :: direct_objs rest rs
    else if Bridge.has_id p then
      match rs with
      | r :: rs' => Bridge.call_obj p r :: direct_objs rest rs'
      | [] => direct_objs rest []
      end
    else direct_objs rest rs
  end.

Definition top_error (c : Z) : inbound :=
  InMsgs false [msg_of_robj {| Bridge.ro_id := null_bytes; Bridge.ro_body := Bridge.RError (Bridge.err_code c) |}].

Definition direct_answer (inner : N -> list Bridge.spec -> list Bridge.reply) (next : N) (req : inbound) : option inbound :=
  match req with
  | InBad => Some (top_error ParseError)
  | InMsgs _ [] => Some (top_error InvalidRequest)
  | InMsgs b ms =>
    let ps := map Bridge.parsed ms in
    match direct_objs ps (inner next (map Bridge.spec_of (filter Bridge.is_valid ps))) with
    | [] => None
    | objs => Some (InMsgs (b || negb (length objs =? 1)) (map msg_of_robj objs))
    end
  end.

(* the members of the record sent, none when no record is sent *)
Definition direct_members (inner : N -> list Bridge.spec -> list Bridge.reply) (next : N) (req : inbound) : list jmsg :=
  match direct_answer inner next req with Some r => body_msgs r | None => [] end.

(* (id, result-or-error) of a reply member *)
Definition id_body (m : jmsg) : bytes * option werr * bytes := (j_id m, j_error m, j_result m).

Lemma is_call_unfold p : Bridge.is_call p = negb (Bridge.is_invalid p) && Bridge.has_id p.
Proof. reflexivity. Qed.

Lemma direct_objs_perm ps : forall rs, length rs = length (filter Bridge.is_call ps) ->
  Permutation (direct_objs ps rs)
              (map Bridge.err_obj (filter Bridge.is_invalid ps) ++ Bridge.call_objs (filter Bridge.is_call ps) rs).
Proof.
  induction ps as [|p ps IH]; intros rs L; cbn [direct_objs filter] in *.
  - destruct rs; [constructor|discriminate].
  - rewrite is_call_unfold in *. destruct (Bridge.is_invalid p) eqn:Ei; cbn [negb andb] in *.
    + cbn [map app]. apply perm_skip. now apply IH.
    + destruct (Bridge.has_id p) eqn:Eh.
      * destruct rs as [|r rs]; [discriminate|]. cbn [length] in L. injection L as L.
        unfold Bridge.call_objs. cbn [combine map]. apply Permutation_cons_app. now apply IH.
      * now apply IH.
Qed.

Lemma direct_objs_all_valid ps : (forall p, In p ps -> Bridge.is_invalid p = false) ->
  forall rs, length rs = length (filter Bridge.is_call ps) ->
  direct_objs ps rs = Bridge.call_objs (filter Bridge.is_call ps) rs.
Proof.
  induction ps as [|p ps IH]; intros Hv rs L; cbn [direct_objs filter] in *.
  - destruct rs; [reflexivity|discriminate].
  - rewrite is_call_unfold in *. rewrite (Hv p (or_introl eq_refl)) in *. cbn [negb andb] in *.
    assert (Hv' : forall q, In q ps -> Bridge.is_invalid q = false) by (intros q Hq; apply Hv; now right).
    destruct (Bridge.has_id p) eqn:Eh.
    + destruct rs as [|r rs]; [discriminate|]. cbn [length] in L. injection L as L.
      unfold Bridge.call_objs. cbn [combine map]. f_equal. now apply IH.
    + now apply IH.
Qed.

(* the calls keep their relative order, and so do the invalid members *)
Lemma direct_objs_length ps : forall rs, length rs = length (filter Bridge.is_call ps) ->
  length (direct_objs ps rs) = length (filter Bridge.is_invalid ps) + length (filter Bridge.is_call ps).
Proof.
  intros rs L. rewrite (Permutation_length (direct_objs_perm ps rs L)).
  unfold Bridge.call_objs. rewrite app_length, !map_length, combine_length. lia.
Qed.

Lemma direct_members_objs inner next b ms : ms <> [] ->
  direct_members inner next (InMsgs b ms) =
  map msg_of_robj (direct_objs (map Bridge.parsed ms)
                     (inner next (map Bridge.spec_of (filter Bridge.is_valid (map Bridge.parsed ms))))).
Proof.
  intros Hne. unfold direct_members, direct_answer. destruct ms as [|m ms]; [contradiction|].
  destruct (direct_objs _ _) as [|o l]; reflexivity.
Qed.

(* THE COMPARISON: for every decodable non-empty request record and every inner client+server with inner_ok,
   the Bridge answers, and
   (1) the members of its answer are those of the direct server's record up to order (the Bridge puts the error
       objects of the statically invalid members first), each with the same id text and the same payload;
   (2) when no member is statically invalid (every record the client model sends) they are the same list;
   (3) status 204 (empty body) exactly when the direct server sends no record, 200 exactly when it sends one;
   (4) the record forms: direct = array iff the request was a batch or it has other than one member; Bridge =
       array iff two or more members (so a batch of one call comes back as a single object over HTTP). *)
Theorem direct_vs_bridge inner next b ms :
  BridgeProofs.inner_ok inner -> ms <> [] ->
  exists st body,
    bridge_answer inner next (InMsgs b ms) = Some (st, body) /\
    Permutation (body_msgs body) (direct_members inner next (InMsgs b ms)) /\
    Permutation (map id_body (body_msgs body)) (map id_body (direct_members inner next (InMsgs b ms))) /\
    ((forall m, In m ms -> j_err m = None) -> body_msgs body = direct_members inner next (InMsgs b ms)) /\
    (st = 204%Z <-> direct_answer inner next (InMsgs b ms) = None) /\
    (st = 200%Z <-> exists r, direct_answer inner next (InMsgs b ms) = Some r /\ body_msgs r <> []) /\
    (forall r, direct_answer inner next (InMsgs b ms) = Some r ->
       r = InMsgs (b || negb (length (body_msgs r) =? 1)) (body_msgs r)) /\
    body = InMsgs (2 <=? length (body_msgs body)) (body_msgs body).
Proof.
  intros Hin Hne.
  set (ps := map Bridge.parsed ms).
  set (rs := inner next (map Bridge.spec_of (filter Bridge.is_valid ps))).
  destruct (BridgeProofs.own_responses inner Hin next (InMsgs b ms) ps eq_refl)
    as (st & sh & Eo & Eobjs & Elen & _ & Ecnt). fold rs in Eobjs, Elen.
  exists st, (resp_body sh). unfold bridge_answer. rewrite Eo. split; [reflexivity|].
  pose proof (direct_objs_perm ps rs Elen) as P.
  assert (Hm : direct_members inner next (InMsgs b ms) = map msg_of_robj (direct_objs ps rs)).
  { now apply direct_members_objs. }
  assert (P1 : Permutation (body_msgs (resp_body sh)) (direct_members inner next (InMsgs b ms))).
  { rewrite body_msgs_resp, Eobjs, Hm. apply Permutation_map. now apply Permutation_sym. }
  split; [exact P1|]. split; [now apply Permutation_map|].
  assert (Hst : (Bridge.shape_objs sh = [] /\ st = 204%Z) \/ (Bridge.shape_objs sh <> [] /\ st = 200%Z)).
  { destruct (bridge_status inner next (InMsgs b ms) st (resp_body sh)) as [[-> H]|[-> H]].
    - unfold bridge_answer. now rewrite Eo.
    - right. split; [|reflexivity]. rewrite body_msgs_resp in H. intros E. now rewrite E in H.
    - left. split; [|reflexivity]. rewrite body_msgs_resp in H. now apply map_eq_nil in H. }
  assert (Hd : direct_objs ps rs = [] <-> Bridge.shape_objs sh = []).
  { split; intros E.
    - rewrite E in P. apply Permutation_nil in P. now rewrite Eobjs.
    - rewrite Eobjs in E. rewrite E in P. now apply Permutation_sym, Permutation_nil in P. }
  assert (Ha : direct_answer inner next (InMsgs b ms) =
               match direct_objs ps rs with
               | [] => None
               | objs => Some (InMsgs (b || negb (length objs =? 1)) (map msg_of_robj objs))
               end).
  { unfold direct_answer. destruct ms as [|m ms']; [contradiction|]. reflexivity. }
  split; [|split; [|split; [|split]]].
  - intros Hv. rewrite body_msgs_resp, Eobjs, Hm. f_equal.
    rewrite (filter_nothing Bridge.is_invalid).
    + cbn [map app]. symmetry. apply direct_objs_all_valid; [|exact Elen].
      intros p Hp. apply in_map_iff in Hp. destruct Hp as (m & <- & Hmi).
      unfold Bridge.is_invalid, Bridge.parsed. cbn. now rewrite (Hv m Hmi).
    + intros p Hp. apply in_map_iff in Hp. destruct Hp as (m & <- & Hmi).
      unfold Bridge.is_invalid, Bridge.parsed. cbn. now rewrite (Hv m Hmi).
  - rewrite Ha. destruct Hst as [[E ->]|[E ->]].
    + apply Hd in E. rewrite E. split; reflexivity.
    + split; [discriminate|]. destruct (direct_objs ps rs) as [|o l] eqn:Eq; [|discriminate].
      exfalso. apply E, Hd. reflexivity.
  - rewrite Ha. destruct Hst as [[E ->]|[E ->]].
    + apply Hd in E. rewrite E. split; [discriminate|]. intros (r & Hr & _). discriminate.
    + split; [|reflexivity]. intros _. destruct (direct_objs ps rs) as [|o l] eqn:Eq.
      * exfalso. apply E, Hd. reflexivity.
      * eexists. split; [reflexivity|]. cbn. discriminate.
  - intros r. rewrite Ha. destruct (direct_objs ps rs) as [|o l]; [discriminate|]. intros [= <-].
    cbn [body_msgs map length]. now rewrite map_length.
  - destruct sh as [|o|l]; cbn [resp_body body_msgs length Nat.leb]; try reflexivity.
    (* BArray: assemble yields it only for two or more objects *)
    assert (Hl : 2 <= length l).
    { revert Eo. unfold Bridge.serve_internal. cbn [Bridge.parse_requests].
      assert (A : forall s m st0 l0, Bridge.assemble s m = (st0, Bridge.BArray l0) -> 2 <= length l0).
      { intros s m st0 l0. unfold Bridge.assemble. destruct (s ++ m) as [|x [|y t]]; intros [= _ <-]; cbn; lia. }
      destruct (Bridge.pl_specs (Bridge.plan (map Bridge.parsed ms))) as [|sp specs].
      - destruct (Bridge.assemble _ _) as [st0 sh0] eqn:Ea. cbn. intros [= -> ->]. eapply A; eauto.
      - destruct (Bridge.map_back _ _) as [mapped|]; [|discriminate].
        destruct (Bridge.assemble _ _) as [st0 sh0] eqn:Ea. cbn. intros [= -> ->]. eapply A; eauto. }
    rewrite map_length. destruct (length l) as [|[|k]]; [lia|lia|reflexivity].
Qed.

(** * an operation that calls Send has at least one request: its record is not empty
   (Client.Batch with no specs fails before any id is allocated: EEmptyBatch) *)
Definition ne_ok (o : oprec) : Prop := presend o = true -> o_specs o <> [].
Definition NE (s : state) : Prop := forall n o, op_at s n = Some o -> ne_ok o.

Lemma ne_same s s' : ops s' = ops s -> NE s -> NE s'.
Proof. intros E H n o Ho. apply (H n). unfold op_at in *. now rewrite <- E. Qed.

(* operation n is replaced by g o, g keeps the specs and does not move a non-presend operation back before Send *)
Lemma ne_upd s s' n g : ops s' = upd_nth n g (ops s) ->
  (forall o, o_specs (g o) = o_specs o /\ (presend (g o) = true -> presend o = true)) ->
  NE s -> NE s'.
Proof.
  intros E Hg H m o Ho. unfold op_at in *. rewrite E, nth_error_upd_nth in Ho.
  destruct (Nat.eqb_spec n m) as [->|Nm]; [|now apply (H m)].
  destruct (nth_error (ops s) m) as [o0|] eqn:E0; [|discriminate]. cbn in Ho. injection Ho as <-.
  destruct (Hg o0) as [A B]. intros Hp. rewrite A. apply (H m o0 E0). now apply B.
Qed.

(* operation n, before Send, is replaced by g o with the same specs *)
Lemma ne_at s s' n g o : ops s' = upd_nth n g (ops s) -> op_at s n = Some o -> presend o = true ->
  o_specs (g o) = o_specs o -> NE s -> NE s'.
Proof.
  intros E Hn Hpn Hg H m o' Ho. unfold op_at in *. rewrite E, nth_error_upd_nth in Ho.
  destruct (Nat.eqb_spec n m) as [->|Nm]; [|now apply (H m)].
  rewrite Hn in Ho. cbn in Ho. injection Ho as <-. intros _. rewrite Hg. now apply (H m o Hn).
Qed.

Lemma ne_app s s' o0 : ops s' = ops s ++ [o0] -> ne_ok o0 -> NE s -> NE s'.
Proof.
  intros E H0 H n o Ho. unfold op_at in *. rewrite E in Ho.
  destruct (Nat.lt_ge_cases n (length (ops s))) as [L|L].
  - rewrite nth_error_app1 in Ho by exact L. now apply (H n).
  - rewrite nth_error_app2 in Ho by exact L. destruct (n - length (ops s)) as [|k]; cbn in Ho.
    + now injection Ho as <-.
    + destruct k; discriminate.
Qed.

Lemma scan_presend_specs l k pc : scan l k = Some pc -> True.
Proof. trivial. Qed.

Lemma step_raw_ne s l s' : step_raw s l = Some s' -> NE s -> NE s'.
Proof.
  intros E. destruct l; cbn in E.
  - (* LOp *)
    destruct (negb (n =? length (ops s)) || negb (specs_ok k specs)) eqn:G0; [discriminate|].
    apply orb_false_iff in G0. destruct G0 as [G1 _]. apply negb_false_iff, Nat.eqb_eq in G1. subst n.
    assert (K : forall g s0, ops s0 = upd_nth (length (ops s)) g (ops s ++ [mkOp k specs [] PDone None None]) ->
                ne_ok (g (mkOp k specs [] PDone None None)) -> NE s -> NE s0).
    { intros g s0 E0 Hg. rewrite upd_nth_last in E0. eapply ne_app; eauto. }
    destruct k.
    1-3: destruct (is_nil specs) eqn:En;
         [injection E as <-; eapply K; [reflexivity|intros Hp; discriminate Hp]|];
         destruct (scan specs 0); injection E as <-;
         (eapply K; [reflexivity|]); intros Hp; cbn; try discriminate Hp; destruct specs; [discriminate En|discriminate].
    injection E as <-. eapply K; [reflexivity|]. intros Hp; discriminate Hp.
  - injection E as <-. apply ne_same; reflexivity.
  - injection E as <-. apply ne_same; reflexivity.
  - (* LCtxEnd *)
    destruct (op_at s n) as [o|]; [|discriminate]. destruct (o_ctx o); injection E as <-; [apply ne_same; reflexivity|].
    eapply ne_upd; [reflexivity|]. intros o'. cbn. auto.
  - destruct (find_idx _ 0 (cbs s)); [|discriminate]. injection E as <-. apply ne_same; reflexivity.
  - (* LRelReq *)
    destruct (op_at s n) as [o|] eqn:Eo; [|discriminate]. destruct (o_pc o) eqn:Epc; try discriminate.
    assert (Hp : presend o = true) by (unfold presend; rewrite Epc; reflexivity).
    match type of E with (match ?x with Some _ => _ | None => _ end) = _ => destruct x as [pc|] end; injection E as <-;
      (eapply ne_at; [|exact Eo|exact Hp|]); [cbn; rewrite upd_nth_twice; reflexivity|reflexivity
                                             |cbn; rewrite upd_nth_twice; reflexivity|reflexivity].
  - (* LRelSend *)
    destruct (op_at s n) as [o|] eqn:Eo; [|discriminate]. destruct (o_pc o) eqn:Epc; try discriminate.
    assert (Hp : presend o = true) by (unfold presend; rewrite Epc; reflexivity).
    destruct (err s); [injection E as <-; eapply ne_at; [reflexivity|exact Eo|exact Hp|reflexivity]|].
    destruct (negb (send_fail s)); injection E as <-.
    + eapply ne_at; [|exact Eo|exact Hp|].
      * cbn.
        match goal with |- context [fold_left _ ?L ?s1] => destruct (env_register_fold (o_ctx o) L s1) as (_ & _ & _ & A) end.
        rewrite A. reflexivity.
      * reflexivity.
    + eapply ne_at; [reflexivity|exact Eo|exact Hp|reflexivity].
  - (* LRelDeliver *)
    destruct (nth_error (delivs s) j) as [d|]; [|discriminate]. destruct (d_st d); [|discriminate].
    destruct (env_deliver_all j (d_msgs d) 0 s) as (_ & _ & _ & A).
    destruct (crash (deliver_all j 0 (d_msgs d) s)); injection E as <-; apply ne_same; auto.
  - (* LRelWatch *)
    destruct (slot_at s i) as [sl|]; [|discriminate]. destruct (sl_watch sl); try discriminate.
    set (s1 := set_slot i (fun sl0 => sl0 <| sl_watch := WDone |>) s) in *.
    destruct (assoc (id_text (sl_id sl)) (pending s)) as [i'|]; [|injection E as <-; apply ne_same; reflexivity].
    match type of E with context [write_slot ?i ?v ?s0] => destruct (env_write_slot i v s0) as (_ & _ & _ & A); set (s2 := write_slot i v s0) in * end.
    destruct (crash s2); [injection E as <-; apply ne_same; exact A|].
    destruct (c_oncancel s2); [|injection E as <-; apply ne_same; exact A].
    destruct (env_settle_slot i s2) as (_ & _ & _ & A2).
    destruct (crash (settle_slot i s2)); injection E as <-; apply ne_same; cbn; rewrite A2; exact A.
  - (* LRelRecvErr *)
    destruct (rd s); try discriminate. destruct (stop_locked c s) as [s1 first] eqn:Est.
    destruct (stop_locked_frame _ _ _ _ Est) as (_ & _ & _ & _ & _ & F6 & _).
    injection E as <-. apply ne_same. destruct first; exact F6.
  - (* LRelClose *)
    destruct (op_at s n) as [o|]; [|discriminate]. destruct (o_pc o); try discriminate.
    destruct (stop_locked SCClosed s) as [s1 first] eqn:Est.
    destruct (stop_locked_frame _ _ _ _ Est) as (_ & _ & _ & _ & _ & F6 & _).
    injection E as <-. eapply ne_upd; [cbn; rewrite F6; reflexivity|]. intros o'. cbn. split; [reflexivity|discriminate].
  - (* LRelCbReply *)
    destruct (nth_error (cbs s) c) as [cb|]; [|discriminate]. destruct (cb_st cb); try discriminate.
    injection E as <-. apply ne_same. destruct (err s); reflexivity.
Qed.

Lemma settle1_ne s s' : settle1 s = Some s' -> NE s -> NE s'.
Proof.
  intros E. unfold settle1 in E. destruct (crash s); [discriminate|].
  assert (Hops : match find_idx (op_ready s) 0 (ops s) with
                 | Some n => match op_at s n with Some o => Some (op_advance n o s) | None => None end
                 | None => None end = Some s' -> NE s -> NE s').
  { clear E. intros E. destruct (find_idx (op_ready s) 0 (ops s)) as [n|]; [|discriminate].
    destruct (op_at s n) as [o|]; [|discriminate]. injection E as <-.
    unfold op_advance. destruct (o_pc o); try (apply ne_same; reflexivity).
    - destruct (nth_error (o_slots o) k) as [i|].
      + destruct (env_settle_slot i s) as (_ & _ & _ & A).
        eapply ne_upd; [cbn; rewrite A; reflexivity|]. intros o'. cbn. split; [reflexivity|discriminate].
      + eapply ne_upd; [reflexivity|]. intros o'. cbn. split; [reflexivity|discriminate].
    - destruct stopper; [destruct (err s)|]; (eapply ne_upd; [reflexivity|]; intros o'; cbn; split; [reflexivity|discriminate]). }
  destruct (rd s); auto. destruct (ch_in s) as [|f q]; auto.
  destruct f as [[|b ms]|c]; injection E as <-; apply ne_same; reflexivity.
Qed.

Lemma step_ne s l s' os : step s l = Some (s', os) -> NE s -> NE s'.
Proof.
  intros E H. unfold step in E. destruct (crash s); [discriminate|].
  destruct (step_raw s l) as [s1|] eqn:E1; [|discriminate].
  assert (Es : settle (settle_fuel s1) s1 = s') by congruence. rewrite <- Es.
  apply (settle_inv NE).
  - intros a b Ha Hb. eapply settle1_ne; eauto.
  - eapply step_raw_ne; eauto.
Qed.

Lemma NE_init c : NE (init_of c).
Proof. intros n o Ho. unfold op_at in Ho. destruct n; discriminate. Qed.

(* the log of operations that sent: each is past Send and has at least one request *)
Definition log_ne (s : state) (log : list nat) : Prop :=
  forall n, In n log -> exists o, op_at s n = Some o /\ presend o = false /\ o_specs o <> [].

Lemma log_ne_keeps s s' log : keeps s s' -> log_ne s log -> log_ne s' log.
Proof.
  intros K H n Hn. destruct (H n Hn) as (o & A & B & C).
  destruct (K n o A B) as (o' & A' & B' & _ & D'). exists o'. repeat split; auto. congruence.
Qed.

Lemma log_ne_step_raw s l s' log : NE s -> log_ne s log -> step_raw s l = Some s' -> log_ne s' (log ++ send_raw s l).
Proof.
  intros HN L E. assert (K := step_raw_keeps s l s' E).
  assert (Hnil : send_raw s l = [] -> log_ne s' (log ++ send_raw s l)).
  { intros ->. rewrite app_nil_r. eapply log_ne_keeps; eauto. }
  destruct l; try (apply Hnil; reflexivity).
  unfold send_raw in *. destruct (op_at s n) as [o|] eqn:Eo; [|apply Hnil; reflexivity].
  destruct (o_pc o) eqn:Epc; try (apply Hnil; reflexivity).
  destruct (err s) eqn:Ee; [apply Hnil; reflexivity|].
  destruct (send_fail s) eqn:Ef; [apply Hnil; reflexivity|]. clear Hnil.
  assert (Hp : presend o = true) by (unfold presend; rewrite Epc; reflexivity).
  intros m Hm. apply in_app_or in Hm. destruct Hm as [Hm|[<-|[]]]; [exact (log_ne_keeps _ _ _ K L m Hm)|].
  cbn in E. rewrite Eo, Epc, Ee, Ef in E. cbn in E. injection E as <-.
  exists (o <| o_pc := PWait 0 |>). split; [|split; [reflexivity|exact (HN n o Eo Hp)]].
  rewrite op_at_set_op, Nat.eqb_refl.
  match goal with |- context [fold_left _ ?L ?s1] => destruct (env_register_fold (o_ctx o) L s1) as (_ & _ & _ & A) end.
  unfold op_at at 1. rewrite A. fold (op_at s n). cbn. unfold op_at in Eo. unfold op_at. cbn. rewrite Eo. reflexivity.
Qed.

Lemma log_ne_step s l s' os log : NE s -> log_ne s log -> step s l = Some (s', os) -> log_ne s' (log ++ send_raw s l).
Proof.
  intros HN L E. unfold step in E. destruct (crash s); [discriminate|].
  destruct (step_raw s l) as [s1|] eqn:E1; [|discriminate].
  assert (Es : settle (settle_fuel s1) s1 = s') by congruence. rewrite <- Es.
  apply (settle_inv (fun st => log_ne st (log ++ send_raw s l))).
  - intros a b Ha Hb. eapply log_ne_keeps; [eapply settle1_keeps; eauto|auto].
  - eapply log_ne_step_raw; eauto.
Qed.

Lemma log_ne_run tr : forall s s' oss log, NE s -> log_ne s log -> run s tr = Some (s', oss) -> log_ne s' (log ++ sendlog s tr).
Proof.
  induction tr as [|l r IH]; cbn; intros s s' oss log HN L H.
  - injection H as <- <-. rewrite app_nil_r. auto.
  - destruct (step s l) as [[s1 os]|] eqn:E; [|discriminate].
    destruct (run s1 r) as [[s2 oss2]|] eqn:E2; [|discriminate]. injection H as <- <-.
    rewrite app_assoc. eapply IH; [eapply step_ne; eauto|eapply log_ne_step; eauto|exact E2].
Qed.

Theorem sendlog_nonempty c tr s : traces_to c tr s ->
  forall n, In n (sendlog (init_of c) tr) -> exists o, op_at s n = Some o /\ o_specs o <> [].
Proof.
  intros [oss H] n Hn.
  destruct (log_ne_run tr _ _ _ [] (NE_init c) (fun m (F : In m []) => match F with end) H n Hn) as (o & A & _ & B).
  exists o. split; assumption.
Qed.

Lemma req_members_nonempty specs sls s : specs <> [] -> req_members specs sls s <> [].
Proof. destruct specs as [|sp r]; [contradiction|]. intros _. cbn [req_members]. destruct (sp_notify sp); [discriminate|]. destruct sls; discriminate. Qed.

(** * the client over the Bridge vs the client over a direct server *)
(* the coupling of SameResultsBridge.sends_answered_by_bridge with its witnesses named *)
Definition answered_by_bridge_with (inner : N -> list Bridge.spec -> list Bridge.reply) (next : nat -> N) (bflag : nat -> bool)
           (c : config) (tr : list CliModel.label) (s : CliModel.state) (htr : list HttpChan.label) (body : nat -> inbound) : Prop :=
  BridgeProofs.inner_ok inner
  /\ length (sendlog (init_of c) tr) = n_send htr
  /\ forall j n, nth_error (sendlog (init_of c) tr) j = Some n ->
       exists o st, op_at s n = Some o
         /\ bridge_answer inner (next j) (op_request (bflag j) s o) = Some (st, body j)
         /\ do_result htr j = DoStatus st.

(* what a direct server (same handlers: same [inner], [next j], same batch flag) sends for the j-th record the
   client sent, the record of operation n: one record, or nothing *)
Definition direct_record inner (next : nat -> N) (bflag : nat -> bool) (s : CliModel.state) (j n : nat) : list feed :=
  match op_at s n with
  | Some o => match direct_answer inner (next j) (op_request (bflag j) s o) with Some r => [FMsg r] | None => [] end
  | None => []
  end.

Fixpoint direct_records_from inner next bflag (s : CliModel.state) (j : nat) (log : list nat) : list feed :=
  match log with
  | [] => []
  | n :: r => direct_record inner next bflag s j n ++ direct_records_from inner next bflag s (S j) r
  end.

(* ... for all the records the client sent, in the order it sent them *)
Definition direct_server_feeds inner next bflag (c : config) (tr : list CliModel.label) (s : CliModel.state) : list feed :=
  direct_records_from inner next bflag s 0 (sendlog (init_of c) tr).

Lemma in_direct_records inner next bflag s f : forall log j0,
  In f (direct_records_from inner next bflag s j0 log) ->
  exists j n, nth_error log j = Some n /\ In f (direct_record inner next bflag s (j0 + j) n).
Proof.
  induction log as [|n r IH]; intros j0 H; cbn [direct_records_from] in H; [destruct H|].
  apply in_app_or in H. destruct H as [H|H].
  - exists 0, n. rewrite Nat.add_0_r. split; [reflexivity|exact H].
  - destruct (IH (S j0) H) as (j & m & Hj & Hf). exists (S j), m. split; [exact Hj|].
    now replace (j0 + S j) with (S j0 + j) by lia.
Qed.

Lemma direct_answer_msgs inner next req r : direct_answer inner next req = Some r -> exists b ms, r = InMsgs b ms.
Proof.
  unfold direct_answer, top_error. destruct req as [|b [|m ms]].
  - intros [= <-]. eauto.
  - intros [= <-]. eauto.
  - destruct (direct_objs _ _); [discriminate|]. intros [= <-]. eauto.
Qed.

Lemma direct_feeds_good inner next bflag c tr s : Forall good_feed (direct_server_feeds inner next bflag c tr s).
Proof.
  apply Forall_forall. intros f Hf. apply in_direct_records in Hf. destruct Hf as (j & n & _ & Hf).
  unfold direct_record in Hf. destruct (op_at s n) as [o|]; [|destruct Hf].
  destruct (direct_answer _ _ _) as [r|] eqn:E; [|destruct Hf]. destruct Hf as [<-|[]].
  destruct (direct_answer_msgs _ _ _ _ E) as (b & ms & ->). exists b, ms. reflexivity.
Qed.

(* every record the direct server sends is one of the reply records Recv yielded over the channel *)
Lemma direct_records_among_http inner next bflag c tr s htr hs body :
  traces_to c tr s ->
  HttpChan.run HttpChan.init htr = Some hs -> ~ In HClose htr -> forallb is_done (gs hs) = true ->
  answered_by_bridge_with inner next bflag c tr s htr body ->
  forall ms, In ms (recs_of (direct_server_feeds inner next bflag c tr s)) -> In ms (recs_of (http_feeds body htr)).
Proof.
  intros T R NC AD (Hin & Len & Rt) ms Hms.
  unfold recs_of in Hms. apply in_flat_map in Hms. destruct Hms as (f & Hf & Hmsf).
  apply in_direct_records in Hf. destruct Hf as (j & n & Hj & Hf). cbn [Nat.add] in Hf.
  destruct (Rt j n Hj) as (o & st & Ho & Ea & Ed).
  unfold direct_record in Hf. rewrite Ho in Hf.
  destruct (direct_answer inner (next j) (op_request (bflag j) s o)) as [r|] eqn:Er; [|destruct Hf].
  destruct Hf as [<-|[]].
  (* the record is not empty and all its members are valid *)
  destruct (sendlog_nonempty c tr s T n (nth_error_In _ _ Hj)) as (o' & Ho' & Hne). rewrite Ho in Ho'. injection Ho' as <-.
  assert (Hrec : op_record s o <> []).
  { unfold op_record. intros E. apply map_eq_nil in E. revert E. now apply req_members_nonempty. }
  destruct (direct_vs_bridge inner (next j) (bflag j) (op_record s o) Hin Hrec)
    as (st' & body' & Ea' & _ & _ & Heq & H204 & _ & _ & Hshape).
  unfold op_request in Ea. rewrite Ea in Ea'. injection Ea' as <- <-.
  specialize (Heq (op_record_valid s o)). unfold direct_members, op_request in *. rewrite Er in Heq.
  assert (Hst : st = 200%Z).
  { destruct (bridge_status _ _ _ _ _ Ea) as [[-> _]|[-> _]]; [reflexivity|].
    exfalso. assert (X : direct_answer inner (next j) (InMsgs (bflag j) (op_record s o)) = None) by (now apply H204).
    congruence. }
  subst st.
  destruct (direct_answer_msgs _ _ _ _ Er) as (b & ms' & ->). cbn [feed_msgs] in Hmsf. destruct Hmsf as [<-|[]].
  cbn [body_msgs] in Heq.
  (* round trip j was handed to Recv *)
  assert (Hjn : j < n_send htr). { rewrite <- Len. apply nth_error_Some. congruence. }
  assert (Hrecvd : In j (recvd htr)).
  { apply (recvd_in _ _ R NC AD). apply filter_In. split; [apply in_seq; lia|].
    unfold nonempty_reply. rewrite Ed. reflexivity. }
  rewrite recs_of_http. apply in_flat_map. exists j. split; [exact Hrecvd|].
  unfold feed_of, reply_of. cbn [fst snd]. rewrite Ed. cbn [recv_result Z.eqb Pos.eqb].
  rewrite Hshape. cbn [feed_msgs]. left. exact Heq.
Qed.

(* SAME RESULTS against a direct server.  [tr1]: the client over jhttp.Channel ([htr]) against the Bridge (its
   j-th Send is round trip j, answered by the Bridge model with inner client+server [inner]); [tr2]: ANY run of the
   client model that is fed, in the order the requests were sent, the records a jrpc2 server with the same
   handlers sends on a direct connection for those same request records ([direct_answer]: ids as sent, request
   order, array iff batch, NO record for a record of notifications only).  Neither run closes the client.  An
   operation that carried the same ids in both runs and whose context did not end returned the same value in
   both, if it returned in both. *)
Theorem same_results_direct_server inner next bflag body htr hs c1 tr1 s1 c2 tr2 s2 :
  HttpChan.run HttpChan.init htr = Some hs -> ~ In HClose htr -> forallb is_done (gs hs) = true ->
  traces_to c1 tr1 s1 -> traces_to c2 tr2 s2 ->
  feeds tr1 = http_feeds body htr ->
  answered_by_bridge_with inner next bflag c1 tr1 s1 htr body ->
  feeds tr2 = direct_server_feeds inner next bflag c1 tr1 s1 ->
  Forall not_close tr1 -> Forall not_close tr2 ->
  forall n o1 o2, op_at s1 n = Some o1 -> op_at s2 n = Some o2 ->
    o_ctx o1 = None -> o_ctx o2 = None ->
    op_ids s1 n = op_ids s2 n ->
    (forall r1 r2, In (ORet n (RetCall r1)) (hist s1) -> In (ORet n (RetCall r2)) (hist s2) -> r1 = r2)
    /\ (forall rs1 rs2, In (ORet n (RetBatch rs1)) (hist s1) -> In (ORet n (RetBatch rs2)) (hist s2) -> rs1 = rs2).
Proof.
  intros R NC AD T1 T2 F1 B F2 C1 C2 n o1 o2 Ho1 Ho2 X1 X2 Ids.
  assert (B' : sends_answered_by_bridge c1 tr1 s1 htr body).
  { destruct B as (Hin & Len & Rt). exists inner, next, bflag. auto. }
  pose proof (sends_are_round_trips c1 tr1 s1 htr body T1 B') as RT.
  pose proof (bridge_answers_own_requests c1 tr1 s1 htr body T1 RT) as Own.
  pose proof (own_requests_nodup c1 tr1 s1 htr hs body T1 R NC AD Own) as ND.
  destruct (bridge_feeds_good s1 htr hs body R NC AD RT) as [G1 _].
  assert (E1 : err s1 = None).
  { apply (never_closed_never_stops c1 tr1 s1 T1). apply good_labels; auto. rewrite F1. exact G1. }
  assert (E2 : err s2 = None).
  { apply (never_closed_never_stops c2 tr2 s2 T2). apply good_labels; auto. rewrite F2. apply direct_feeds_good. }
  assert (Sub : forall ms, In ms (fed tr2) -> In ms (fed tr1)).
  { intros ms Hin. rewrite fed_feeds, F1. rewrite fed_feeds, F2 in Hin.
    exact (direct_records_among_http inner next bflag c1 tr1 s1 htr hs body T1 R NC AD B ms Hin). }
  assert (ND' : NoDup (stream_ids (fed tr1))) by (rewrite fed_feeds, F1; exact ND).
  exact (same_results_any_order c1 tr1 s1 c2 tr2 s2 T1 T2 Sub ND' n o1 o2 Ho1 Ho2 X1 X2 E1 E2 Ids).
Qed.

(** * non-vacuity *)
(* a record with a notification, two invalid members (one without id) and two calls using the same id text *)
Definition exd_ms : list jmsg := BridgeProofs.ex_ms.

Example direct_vs_bridge_nonvacuous :
  (* the Bridge: static errors first *)
  bridge_answer BridgeProofs.ex_inner 10 (InMsgs true exd_ms) =
    Some (200%Z, InMsgs true (map msg_of_robj
      [ {| Bridge.ro_id := [55%N]; Bridge.ro_body := Bridge.RError (Bridge.err_code InvalidRequest) |};
        {| Bridge.ro_id := null_bytes; Bridge.ro_body := Bridge.RError (Bridge.err_code ParseError) |};
        {| Bridge.ro_id := [49; 101; 51]%N; Bridge.ro_body := Bridge.RResult [51%N] |};
        {| Bridge.ro_id := [34; 97; 34]%N; Bridge.ro_body := Bridge.RError (Bridge.err_code MethodNotFound) |};
        {| Bridge.ro_id := [34; 97; 34]%N; Bridge.ro_body := Bridge.RError (Bridge.err_code 5%Z) |} ])) /\
  (* the direct server: request order *)
  direct_answer BridgeProofs.ex_inner 10 (InMsgs true exd_ms) =
    Some (InMsgs true (map msg_of_robj
      [ {| Bridge.ro_id := [55%N]; Bridge.ro_body := Bridge.RError (Bridge.err_code InvalidRequest) |};
        {| Bridge.ro_id := [49; 101; 51]%N; Bridge.ro_body := Bridge.RResult [51%N] |};
        {| Bridge.ro_id := null_bytes; Bridge.ro_body := Bridge.RError (Bridge.err_code ParseError) |};
        {| Bridge.ro_id := [34; 97; 34]%N; Bridge.ro_body := Bridge.RError (Bridge.err_code MethodNotFound) |};
        {| Bridge.ro_id := [34; 97; 34]%N; Bridge.ro_body := Bridge.RError (Bridge.err_code 5%Z) |} ])) /\
  exd_ms <> [] /\
  (* a batch of one call: single object over HTTP, array of one on the direct connection *)
  bridge_answer BridgeProofs.ex_inner 1 (InMsgs true [BridgeProofs.jm [55%N] BridgeProofs.b_g [91; 51; 93]%N None]) =
    Some (200%Z, InMsgs false [msg_of_robj {| Bridge.ro_id := [55%N]; Bridge.ro_body := Bridge.RResult [51%N] |}]) /\
  direct_answer BridgeProofs.ex_inner 1 (InMsgs true [BridgeProofs.jm [55%N] BridgeProofs.b_g [91; 51; 93]%N None]) =
    Some (InMsgs true [msg_of_robj {| Bridge.ro_id := [55%N]; Bridge.ro_body := Bridge.RResult [51%N] |}]) /\
  (* notifications only: 204 / no record *)
  bridge_answer BridgeProofs.ex_inner 1 (InMsgs true [BridgeProofs.jm [] BridgeProofs.b_g [91; 49; 93]%N None]) =
    Some (204%Z, InMsgs false []) /\
  direct_answer BridgeProofs.ex_inner 1 (InMsgs true [BridgeProofs.jm [] BridgeProofs.b_g [91; 49; 93]%N None]) = None.
Proof. vm_compute. repeat split; discriminate. Qed.

(* the run of SameResultsBridge's example: its direct run IS fed what the direct server sends *)
Example same_results_direct_server_nonvacuous :
  exists hs s1 s2,
    HttpChan.run HttpChan.init ex_htr = Some hs /\ ~ In HClose ex_htr /\ forallb is_done (gs hs) = true
    /\ traces_to ex_cfg ex_tr_http s1 /\ traces_to ex_cfg ex_tr_direct s2
    /\ feeds ex_tr_http = http_feeds ex_body ex_htr
    /\ answered_by_bridge_with ex_inner (fun j => N.of_nat (2 * j + 1)) (fun j => negb (j =? 0)) ex_cfg ex_tr_http s1 ex_htr ex_body
    /\ feeds ex_tr_direct = direct_server_feeds ex_inner (fun j => N.of_nat (2 * j + 1)) (fun j => negb (j =? 0)) ex_cfg ex_tr_http s1
    /\ Forall not_close ex_tr_http /\ Forall not_close ex_tr_direct.
Proof.
  destruct (HttpChan.run HttpChan.init ex_htr) as [hs|] eqn:Eh; [|revert Eh; vm_compute; discriminate].
  destruct (run (init_of ex_cfg) ex_tr_http) as [[s1 oss1]|] eqn:E1; [|revert E1; vm_compute; discriminate].
  destruct (run (init_of ex_cfg) ex_tr_direct) as [[s2 oss2]|] eqn:E2; [|revert E2; vm_compute; discriminate].
  exists hs, s1, s2. revert Eh E1 E2. vm_compute. intros Eh E1 E2. injection Eh as <-. injection E1 as <- <-. injection E2 as <- <-.
  split; [reflexivity|]. split; [intros H; repeat (destruct H as [H|H]; [discriminate|]); exact H|].
  split; [reflexivity|]. split; [eexists; reflexivity|]. split; [eexists; reflexivity|].
  split; [reflexivity|].
  split.
  { split; [apply BridgeProofs.table_inner_ok|]. split; [reflexivity|].
    intros j n Hj. destruct j as [|[|j]]; cbn in Hj; [| |destruct j; discriminate]; injection Hj as <-.
    - eexists; eexists. split; [reflexivity|]. split; vm_compute; reflexivity.
    - eexists; eexists. split; [reflexivity|]. split; vm_compute; reflexivity. }
  split; [reflexivity|].
  split; repeat constructor.
Qed.

(* a batch of one call and a notification: over HTTP a single object and a 204; on the direct connection an
   array of one and nothing; the Batch returns the same *)
Definition exd_htr : list HttpChan.label := [HSend; HSend; HDo 0 (DoStatus 200); HDo 1 (DoStatus 204); HRecv 0].
Definition exd_ops : list CliModel.label :=
  [LOp 0 KBatch [ex_spec 49]; LOp 1 KNotify [ex_nspec]; LRelReq 0; LRelSend 0; LRelSend 1].
Definition exd_body (j : nat) : inbound :=
  match j with 0 => InMsgs false [ex_rmsg [49%N] None [55%N]] | _ => InMsgs false [] end.
Definition exd_tr_http : list CliModel.label := exd_ops ++ [LFeed (FMsg (exd_body 0)); LRelDeliver 0].
Definition exd_tr_direct : list CliModel.label :=
  exd_ops ++ [LFeed (FMsg (InMsgs true [ex_rmsg [49%N] None [55%N]])); LRelDeliver 0].

Example same_results_direct_server_shapes :
  exists hs s1 s2,
    HttpChan.run HttpChan.init exd_htr = Some hs /\ ~ In HClose exd_htr /\ forallb is_done (gs hs) = true
    /\ traces_to ex_cfg exd_tr_http s1 /\ traces_to ex_cfg exd_tr_direct s2
    /\ feeds exd_tr_http = http_feeds exd_body exd_htr
    /\ answered_by_bridge_with ex_inner (fun j => N.of_nat (j + 1)) (fun j => j =? 0) ex_cfg exd_tr_http s1 exd_htr exd_body
    /\ feeds exd_tr_direct = direct_server_feeds ex_inner (fun j => N.of_nat (j + 1)) (fun j => j =? 0) ex_cfg exd_tr_http s1
    /\ feeds exd_tr_direct <> feeds exd_tr_http
    /\ Forall not_close exd_tr_http /\ Forall not_close exd_tr_direct
    /\ In (ORet 0 (RetBatch [([49%N], RRes [55%N])])) (hist s1) /\ In (ORet 0 (RetBatch [([49%N], RRes [55%N])])) (hist s2)
    /\ In (ORet 1 RetNotify) (hist s1) /\ In (ORet 1 RetNotify) (hist s2).
Proof.
  destruct (HttpChan.run HttpChan.init exd_htr) as [hs|] eqn:Eh; [|revert Eh; vm_compute; discriminate].
  destruct (run (init_of ex_cfg) exd_tr_http) as [[s1 oss1]|] eqn:E1; [|revert E1; vm_compute; discriminate].
  destruct (run (init_of ex_cfg) exd_tr_direct) as [[s2 oss2]|] eqn:E2; [|revert E2; vm_compute; discriminate].
  exists hs, s1, s2. revert Eh E1 E2. vm_compute. intros Eh E1 E2. injection Eh as <-. injection E1 as <- <-. injection E2 as <- <-.
  split; [reflexivity|]. split; [intros H; repeat (destruct H as [H|H]; [discriminate|]); exact H|].
  split; [reflexivity|]. split; [eexists; reflexivity|]. split; [eexists; reflexivity|].
  split; [reflexivity|].
  split.
  { split; [apply BridgeProofs.table_inner_ok|]. split; [reflexivity|].
    intros j n Hj. destruct j as [|[|j]]; cbn in Hj; [| |destruct j; discriminate]; injection Hj as <-.
    - eexists; eexists. split; [reflexivity|]. split; vm_compute; reflexivity.
    - eexists; eexists. split; [reflexivity|]. split; vm_compute; reflexivity. }
  split; [reflexivity|].
  split; [vm_compute; discriminate|].
  split; [repeat constructor|]. split; [repeat constructor|].
  vm_compute. repeat split; auto 12.
Qed.
