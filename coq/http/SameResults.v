(* SameResults: the channel-level half of "a Client over jhttp.Channel observes the
   same results as over a direct connection", prepared for c04_order_irrelevant.

   While the channel is open and every request goroutine has returned, the stream
   of replies that Recv has yielded (in the order Recv yielded them) is a
   permutation of the non-empty replies in the order the requests were sent --
   which is the stream a direct connection delivers when the peer answers the
   requests in order -- and no request occurs in it twice.  Hence any client
   whose results do not depend on the order of a reply stream that answers each
   request once (the shape of c04_order_irrelevant) returns the same results over
   both.  The client property is a Section hypothesis here; after the Section it
   is an ordinary universally quantified premise, to be instantiated with the
   client model's theorem. *)
From Coq Require Import List NArith ZArith Bool Arith Lia Permutation.
From JV Require Import HttpChan HttpChanProofs.
Import ListNotations.

(* a reply as the client sees it: which request it answers and what cli.Do returned *)
Definition reply : Type := (nat * dores)%type.

Definition recv_ix (l : label) : list nat := match l with HRecv j => [j] | _ => [] end.
(* request numbers in the order Recv yielded their replies *)
Definition recvd (tr : list label) : list nat := flat_map recv_ix tr.

Definition do_result (tr : list label) (j : nat) : dores := hd DoErr (dos j tr).
Definition reply_of (tr : list label) (j : nat) : reply := (j, do_result tr j).

(* what Recv yielded over the HTTP channel, in order *)
Definition recv_stream (tr : list label) : list reply := map (reply_of tr) (recvd tr).
(* what a direct connection yields when the peer answers in request order: every
   reply except the empty acknowledgements of notifications (HTTP: 204) *)
Definition nonempty_reply (tr : list label) (j : nat) : bool := negb (is204 (do_result tr j)).
Definition direct_stream (tr : list label) : list reply :=
  map (reply_of tr) (filter (nonempty_reply tr) (seq 0 (n_send tr))).

Lemma count_recvd j tr : count_occ Nat.eq_dec (recvd tr) j = n_recv j tr.
Proof.
  unfold recvd, n_recv, countl. induction tr as [|l tr IH]; [reflexivity|].
  cbn [flat_map filter]. rewrite count_occ_app, IH.
  destruct l; cbn; try reflexivity.
  destruct (Nat.eq_dec j0 j) as [->|N].
  - rewrite Nat.eqb_refl. reflexivity.
  - apply Nat.eqb_neq in N. rewrite N. reflexivity.
Qed.

Lemma recvd_nodup tr s : run init tr = Some s -> NoDup (recvd tr).
Proof.
  intros R. apply (NoDup_count_occ Nat.eq_dec). intros j. rewrite count_recvd.
  destruct (chan_accounting _ _ R) as (_ & _ & H). destruct (H j) as (A & _). lia.
Qed.

Lemma recvd_in tr s :
  run init tr = Some s -> ~ In HClose tr -> forallb is_done (gs s) = true ->
  forall j, In j (recvd tr) <-> In j (filter (nonempty_reply tr) (seq 0 (n_send tr))).
Proof.
  intros R NC AD j. rewrite (count_occ_In Nat.eq_dec), count_recvd, filter_In, in_seq.
  destruct (Nat.lt_ge_cases j (n_send tr)) as [L|L].
  - destruct (chan_delivers_all _ _ R NC AD j L) as (r & D & _ & Hr).
    unfold nonempty_reply, do_result. rewrite D. cbn [hd]. rewrite Hr.
    destruct (is204 r); cbn; split; intros H; try lia; try (split; [lia|reflexivity]); try (destruct H; discriminate).
  - destruct (run_tinv _ _ R) as [Hl Hf]. specialize (Hf j).
    assert (E : nth_error (gs s) j = None) by (apply nth_error_None; lia).
    rewrite E in Hf. cbn in Hf. destruct Hf as (_ & Hr & _). rewrite Hr. split; intros H; lia.
Qed.

Theorem recv_is_permutation_of_direct tr s :
  run init tr = Some s -> ~ In HClose tr -> forallb is_done (gs s) = true ->
  Permutation (recv_stream tr) (direct_stream tr) /\
  NoDup (map fst (recv_stream tr)) /\ NoDup (map fst (direct_stream tr)).
Proof.
  intros R NC AD.
  assert (ND1 : NoDup (recvd tr)) by (eapply recvd_nodup; eauto).
  assert (ND2 : NoDup (filter (nonempty_reply tr) (seq 0 (n_send tr)))) by (apply NoDup_filter, seq_NoDup).
  assert (Fst : forall l, map fst (map (reply_of tr) l) = l).
  { intros l. rewrite map_map. cbn. apply map_id. }
  split; [|split].
  - apply Permutation_map. apply NoDup_Permutation; auto. eapply recvd_in; eauto.
  - unfold recv_stream. rewrite Fst. exact ND1.
  - unfold direct_stream. rewrite Fst. exact ND2.
Qed.

Section SameResults.
  (* what the client's operations return, as a function of the reply stream its channel's
     Recv yields (its requests being fixed) *)
  Variable outcome : Type.
  Variable client_results : list reply -> outcome.
  (* the shape of c04_order_irrelevant: the results are the same for every permutation of a
     reply stream in which each request is answered at most once *)
  Hypothesis order_irrelevant :
    forall a b : list reply, NoDup (map fst a) -> Permutation a b -> client_results a = client_results b.

  Theorem same_results_given_order_irrelevance tr s :
    run init tr = Some s -> ~ In HClose tr -> forallb is_done (gs s) = true ->
    client_results (recv_stream tr) = client_results (direct_stream tr).
  Proof.
    intros R NC AD. destruct (recv_is_permutation_of_direct _ _ R NC AD) as (P & N1 & _).
    apply order_irrelevant; assumption.
  Qed.
End SameResults.

(* non-vacuity: replies arriving out of order, a notification in between *)
Example ex_streams :
  let tr := [HSend; HSend; HSend; HDo 2 (DoStatus 200); HDo 0 (DoStatus 500); HRecv 2; HDo 1 (DoStatus 204); HRecv 0] in
  recv_stream tr = [(2, DoStatus 200); (0, DoStatus 500)] /\
  direct_stream tr = [(0, DoStatus 500); (2, DoStatus 200)] /\
  exists s, run init tr = Some s /\ forallb is_done (gs s) = true.
Proof. cbn. split; [reflexivity|]. split; [reflexivity|]. eexists. split; [vm_compute; reflexivity|reflexivity]. Qed.
(* the hypothesis is satisfiable by a non-constant function: the multiset of replies, as a sorted-by-request list
   would be; here simply membership counting *)
Example ex_hypothesis_nonvacuous :
  forall a b : list reply, NoDup (map fst a) -> Permutation a b -> length a = length b.
Proof. intros a b _ P. apply Permutation_length; exact P. Qed.
