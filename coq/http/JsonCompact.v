(* JsonCompact: json.Compact / json.Marshal(json.RawMessage) (Json.compact: white space removed, <, >, &,
   U+2028, U+2029 escaped inside strings) turns valid JSON into valid JSON, at the same nesting depth.
   Used by GetterMore.v (the 200 body of the Getter, the data member of an error object). *)
From Coq Require Import List NArith Bool Arith Lia.
From JV Require Import Bytes Json JsonProofs JsonPrint Wire WireProofs WireSpecs.
Import ListNotations.
Local Open Scope N_scope.

(* ------------------------------------------------------------------------- *)
(* 1. a number literal is lexed the same when what follows it is cut off *)

Definition nd (X : bytes) : Prop := match X with [] => True | x :: _ => is_digit x = false end.

Lemma digits_trunc s : forall d r, digits s = (d, r) -> forall X, nd X -> digits (d ++ X) = (d, X).
Proof.
  induction s as [|c s IH]; intros d r H X HX; cbn [digits] in H.
  - injection H as <- <-. cbn [app]. destruct X as [|x X']; [reflexivity|]. cbn [digits]. cbn [nd] in HX. now rewrite HX.
  - destruct (is_digit c) eqn:Ec.
    + destruct (digits s) as [d' r'] eqn:E. injection H as <- <-. cbn [app digits]. rewrite Ec, (IH _ _ eq_refl X HX). reflexivity.
    + injection H as <- <-. cbn [app]. destruct X as [|x X']; [reflexivity|]. cbn [digits]. cbn [nd] in HX. now rewrite HX.
Qed.

Lemma p_int_trunc s ip s2 : p_int s = Some (ip, s2) -> forall X, nd X -> p_int (ip ++ X) = Some (ip, X).
Proof.
  unfold p_int. destruct s as [|c r]; [discriminate|].
  destruct (c =? 48) eqn:E0.
  - intros H; injection H as <- <-. intros X _. cbn [app]. now rewrite E0.
  - destruct (is_digit c) eqn:Ec; [|discriminate]. destruct (digits r) as [d r'] eqn:E. intros H; injection H as <- <-.
    intros X HX. cbn [app]. rewrite E0, Ec, (digits_trunc _ _ _ E X HX). reflexivity.
Qed.

Lemma p_int_head s ip s2 : p_int s = Some (ip, s2) -> exists x t, ip = x :: t /\ is_digit x = true.
Proof.
  unfold p_int. destruct s as [|c r]; [discriminate|].
  destruct (c =? 48) eqn:E0.
  - intros H; injection H as <- <-. apply N.eqb_eq in E0. subst c. exists 48, []. split; reflexivity.
  - destruct (is_digit c) eqn:Ec; [|discriminate]. destruct (digits r) as [d r']. intros H; injection H as <- <-.
    exists c, d. split; [reflexivity|exact Ec].
Qed.

Definition not46 (X : bytes) : Prop := match X with [] => True | x :: _ => (x =? 46) = false end.
Definition not_e (X : bytes) : Prop := match X with [] => True | x :: _ => ((x =? 101) || (x =? 69)) = false end.

Lemma p_frac_nil X : not46 X -> p_frac X = Some ([], X).
Proof. unfold p_frac. destruct X as [|x X']; [reflexivity|]. cbn [not46]. now intros ->. Qed.

Lemma p_frac_trunc s fp s3 : p_frac s = Some (fp, s3) -> forall X, nd X -> (fp = [] -> not46 X) ->
  p_frac (fp ++ X) = Some (fp, X).
Proof.
  intros H X HX H46. unfold p_frac in H.
  destruct s as [|c r]; [injection H as <- <-; cbn [app]; now apply p_frac_nil, H46|].
  destruct (c =? 46) eqn:E.
  - destruct (digits r) as [d r'] eqn:Ed. destruct d as [|d0 d']; [discriminate|]. injection H as <- <-.
    cbn [app]. unfold p_frac. rewrite E. change (d0 :: d' ++ X) with ((d0 :: d') ++ X). rewrite (digits_trunc _ _ _ Ed X HX). reflexivity.
  - injection H as <- <-. cbn [app]. now apply p_frac_nil, H46.
Qed.

Lemma p_frac_shape s fp s3 : p_frac s = Some (fp, s3) -> fp = [] \/ exists t, fp = 46 :: t.
Proof.
  unfold p_frac. destruct s as [|c r]; [intros H; injection H as <- <-; now left|].
  destruct (c =? 46) eqn:E.
  - destruct (digits r) as [d r']. destruct d; [discriminate|]. intros H; injection H as <- <-.
    apply N.eqb_eq in E. subst c. right. eexists; reflexivity.
  - intros H; injection H as <- <-. now left.
Qed.

Lemma p_exp_nil X : not_e X -> p_exp X = Some ([], X).
Proof. unfold p_exp. destruct X as [|x X']; [reflexivity|]. cbn [not_e]. now intros ->. Qed.

Lemma p_exp_trunc s ep s4 : p_exp s = Some (ep, s4) -> forall X, nd X -> (ep = [] -> not_e X) ->
  p_exp (ep ++ X) = Some (ep, X).
Proof.
  intros H X HX He. unfold p_exp in H.
  destruct s as [|c r]; [injection H as <- <-; cbn [app]; now apply p_exp_nil, He|].
  destruct ((c =? 101) || (c =? 69)) eqn:E.
  - destruct (p_esign r) as [sg r1] eqn:Es. destruct (digits r1) as [d r'] eqn:Ed. destruct d as [|d0 d']; [discriminate|].
    injection H as <- <-. cbn [app]. unfold p_exp. rewrite E.
    assert (Hd0 : is_digit d0 = true).
    { destruct r1 as [|y r1']; cbn [digits] in Ed; [discriminate|]. destruct (is_digit y) eqn:Ey; [|discriminate].
      destruct (digits r1'). injection Ed as <- _ _. exact Ey. }
    assert (Hs : p_esign (sg ++ (d0 :: d') ++ X) = (sg, (d0 :: d') ++ X)).
    { unfold p_esign in Es |- *. destruct r as [|y r0].
      - injection Es as <- <-. cbn [app]. apply is_digit_rng in Hd0.
        replace ((d0 =? 43) || (d0 =? 45)) with false; [reflexivity|].
        symmetry. apply orb_false_iff. split; apply N.eqb_neq; lia.
      - destruct ((y =? 43) || (y =? 45)) eqn:Ey.
        + injection Es as <- <-. cbn [app]. now rewrite Ey.
        + injection Es as <- <-. cbn [app]. apply is_digit_rng in Hd0.
          replace ((d0 =? 43) || (d0 =? 45)) with false; [reflexivity|].
          symmetry. apply orb_false_iff. split; apply N.eqb_neq; lia. }
    rewrite <- app_assoc, Hs, (digits_trunc _ _ _ Ed X HX). reflexivity.
  - injection H as <- <-. cbn [app]. now apply p_exp_nil, He.
Qed.

Lemma p_exp_shape s ep s4 : p_exp s = Some (ep, s4) -> ep = [] \/ exists c t, ep = c :: t /\ ((c =? 101) || (c =? 69)) = true.
Proof.
  unfold p_exp. destruct s as [|c r]; [intros H; injection H as <- <-; now left|].
  destruct ((c =? 101) || (c =? 69)) eqn:E.
  - destruct (p_esign r) as [sg r1]. destruct (digits r1) as [d r']. destruct d; [discriminate|].
    intros H; injection H as <- <-. right. eexists; eexists. split; [reflexivity|exact E].
  - intros H; injection H as <- <-. now left.
Qed.

Lemma pnum_trunc s n r : pnum s = Some (n, r) -> pnum n = Some (n, []).
Proof.
  unfold pnum. destruct (p_sign s) as [sg s1] eqn:E1.
  destruct (p_int s1) as [[ip s2]|] eqn:E2; [|discriminate].
  destruct (p_frac s2) as [[fp s3]|] eqn:E3; [|discriminate].
  destruct (p_exp s3) as [[ep s4]|] eqn:E4; [|discriminate].
  intros H; injection H as <- <-.
  destruct (p_int_head _ _ _ E2) as (x & t & Hip & Hx).
  assert (Hsg : p_sign (sg ++ ip ++ fp ++ ep) = (sg, ip ++ fp ++ ep)).
  { unfold p_sign in E1 |- *. destruct s as [|y s'].
    - injection E1 as <- <-. subst ip. cbn [app]. apply is_digit_rng in Hx.
      replace (x =? 45) with false by (symmetry; apply N.eqb_neq; lia). reflexivity.
    - destruct (y =? 45) eqn:Ey.
      + injection E1 as <- <-. cbn [app]. now rewrite Ey.
      + injection E1 as <- <-. subst ip. cbn [app]. apply is_digit_rng in Hx.
        replace (x =? 45) with false by (symmetry; apply N.eqb_neq; lia). reflexivity. }
  rewrite Hsg.
  assert (Hnd_ep : nd ep).
  { destruct (p_exp_shape _ _ _ E4) as [->|(c & t' & -> & Hc)]; [exact I|]. cbn [nd].
    apply orb_true_iff in Hc. destruct Hc as [Hc|Hc]; apply N.eqb_eq in Hc; subst c; reflexivity. }
  assert (Hnd_fe : nd (fp ++ ep)).
  { destruct (p_frac_shape _ _ _ E3) as [->|(t' & ->)]; [exact Hnd_ep|reflexivity]. }
  rewrite (p_int_trunc _ _ _ E2 (fp ++ ep) Hnd_fe).
  assert (H46 : fp = [] -> not46 ep).
  { intros _. destruct (p_exp_shape _ _ _ E4) as [->|(c & t' & -> & Hc)]; [exact I|]. cbn [not46].
    apply orb_true_iff in Hc. destruct Hc as [Hc|Hc]; apply N.eqb_eq in Hc; subst c; reflexivity. }
  rewrite (p_frac_trunc _ _ _ E3 ep Hnd_ep H46).
  pose proof (p_exp_trunc _ _ _ E4 [] I (fun _ => I)) as He. rewrite app_nil_r in He. rewrite He.
  reflexivity.
Qed.

Lemma num_PV d s n r : pnum s = Some (n, r) -> PV d n (CNum n) [].
Proof.
  intros H. apply pnum_trunc in H. apply (pval_PV (fuel_of n)). apply num_lit_value.
  unfold is_num_lit. now rewrite H.
Qed.

(* ------------------------------------------------------------------------- *)
(* 2. HTML-escaping a string body keeps it a string body *)

Lemma html_esc_keep c t : (c =? 60) = false -> (c =? 62) = false -> (c =? 38) = false -> (c =? 226) = false ->
  html_esc (c :: t) = c :: html_esc t.
Proof. intros A B C D. cbn [html_esc]. rewrite A, B, C, D. reflexivity. Qed.

Lemma hex_keep h t : is_hex h = true -> html_esc (h :: t) = h :: html_esc t.
Proof.
  intros H. unfold is_hex, is_digit in H.
  apply html_esc_keep; apply N.eqb_neq; intros ->; vm_compute in H; discriminate.
Qed.

Lemma simple_keep e t : eclass_of e = ESimple -> html_esc (e :: t) = e :: html_esc t.
Proof.
  intros H. apply html_esc_keep; apply N.eqb_neq; intros ->; vm_compute in H; discriminate.
Qed.

Lemma html_body_len m : forall s b r, (length s <= m)%nat -> pstr s = Some (b, r) ->
  forall r', pstr (html_esc b ++ 34 :: r') = Some (html_esc b, r').
Proof.
  induction m as [|m IH]; intros s b r Hl H r'.
  - destruct s; [discriminate|cbn in Hl; lia].
  - destruct s as [|c s1]; [discriminate|]. cbn [length] in Hl. cbn [pstr] in H.
    destruct (sclass_of c) eqn:Sc.
    + (* closing quote *) injection H as <- <-. reflexivity.
    + (* backslash *)
      destruct s1 as [|e s2]; [discriminate|]. cbn [length] in Hl.
      assert (K92 : forall t, html_esc (c :: t) = c :: html_esc t).
      { intros t. assert (c = 92).
        { unfold sclass_of in Sc. destruct (c =? 34); [discriminate|]. destruct (c =? 92) eqn:E; [now apply N.eqb_eq in E|].
          destruct (c <? 32); discriminate. }
        subst c. reflexivity. }
      assert (C92 : c = 92).
      { unfold sclass_of in Sc. destruct (c =? 34); [discriminate|]. destruct (c =? 92) eqn:E; [now apply N.eqb_eq in E|].
        destruct (c <? 32); discriminate. }
      destruct (eclass_of e) eqn:Ee; [| |discriminate].
      * destruct (pstr s2) as [[b2 r2]|] eqn:E2; [|discriminate]. injection H as <- <-.
        rewrite K92, (simple_keep _ _ Ee). subst c. cbn [app]. rewrite (pstr_simple _ _ Ee).
        rewrite (IH s2 b2 r2) by (try lia; exact E2). reflexivity.
      * destruct s2 as [|h1 [|h2 [|h3 [|h4 s3]]]]; try discriminate.
        destruct (is_hex h1 && is_hex h2 && is_hex h3 && is_hex h4) eqn:Eh; [|discriminate].
        destruct (pstr s3) as [[b3 r3]|] eqn:E3; [|discriminate]. injection H as <- <-.
        assert (E117 : e = 117).
        { unfold eclass_of in Ee. destruct ((e =? 98) || (e =? 102) || (e =? 110) || (e =? 114) || (e =? 116) || (e =? 92) || (e =? 47) || (e =? 34)); [discriminate|].
          destruct (e =? 117) eqn:E; [now apply N.eqb_eq in E|discriminate]. }
        subst e c.
        pose proof Eh as Eh'. apply andb_true_iff in Eh' as [Eh' X4]. apply andb_true_iff in Eh' as [Eh' X3]. apply andb_true_iff in Eh' as [X1 X2].
        change (html_esc (92 :: 117 :: h1 :: h2 :: h3 :: h4 :: b3)) with (92 :: 117 :: html_esc (h1 :: h2 :: h3 :: h4 :: b3)).
        rewrite (hex_keep _ _ X1), (hex_keep _ _ X2), (hex_keep _ _ X3), (hex_keep _ _ X4).
        cbn [app]. rewrite (pstr_u _ _ _ _ _ Eh). cbn [length] in Hl.
        rewrite (IH s3 b3 r3) by (try lia; exact E3). reflexivity.
    + discriminate.
    + (* plain byte *)
      destruct (pstr s1) as [[b1 r1]|] eqn:E1; [|discriminate]. injection H as <- <-.
      assert (IH1 : forall r', pstr (html_esc b1 ++ 34 :: r') = Some (html_esc b1, r')).
      { intros r0. apply (IH s1 b1 r1); [lia|exact E1]. }
      assert (Hkeep : pstr ((c :: html_esc b1) ++ 34 :: r') = Some (c :: html_esc b1, r')).
      { cbn [app]. rewrite (pstr_plain _ _ Sc), IH1. reflexivity. }
      cbn [html_esc].
      destruct ((c =? 60) || (c =? 62) || (c =? 38)) eqn:Ehtml.
      * assert (Hc : c < 256).
        { apply orb_true_iff in Ehtml as [Ehtml|Ehtml]; [apply orb_true_iff in Ehtml as [Ehtml|Ehtml]|]; apply N.eqb_eq in Ehtml; subst c; reflexivity. }
        rewrite <- app_assoc, (pstr_u00 _ _ Hc), IH1. reflexivity.
      * destruct (c =? 226) eqn:E226; [|exact Hkeep].
        destruct b1 as [|c2 [|c3 r3]]; try exact Hkeep.
        destruct ((c2 =? 128) && ((c3 =? 168) || (c3 =? 169))) eqn:Ell; [|exact Hkeep].
        apply andb_true_iff in Ell as [Ec2 Ec3]. apply N.eqb_eq in Ec2. subst c2.
        assert (Hc3 : c3 = 168 \/ c3 = 169) by (apply orb_true_iff in Ec3 as [X|X]; apply N.eqb_eq in X; auto).
        (* the body after the three bytes is itself a parsed body *)
        destruct (pstr_props _ _ _ E1) as [Hs1 _].
        assert (P3 : pstr (r3 ++ 34 :: r1) = Some (r3, r1)).
        { rewrite Hs1 in E1. cbn [app] in E1.
          rewrite (pstr_plain 128) in E1 by reflexivity.
          rewrite (pstr_plain c3) in E1 by (apply high_plain; destruct Hc3; subst; lia).
          destruct (pstr (r3 ++ 34 :: r1)) as [[b' r'']|]; [|discriminate]. injection E1 as -> ->. reflexivity. }
        assert (L3 : (length (r3 ++ (34 :: r1)%N) <= m)%nat).
        { assert (length s1 = length (128 :: c3 :: r3 ++ 34 :: r1)) by (now rewrite Hs1). cbn [length] in H. lia. }
        rewrite <- app_assoc. unfold esc_202x. cbn [app]. rewrite pstr_u.
        -- rewrite (IH _ _ _ L3 P3). reflexivity.
        -- assert (H2 : c3 mod 16 < 16) by (apply N.mod_lt; lia). rewrite (is_hex_hexdig _ H2). reflexivity.
Qed.

(* a raw string body as the parser accepts it: closing it with a quote reads it back, whatever follows *)
Definition str_body (k : bytes) : Prop := forall r, pstr (k ++ 34 :: r) = Some (k, r).

Lemma html_str_body s b r : pstr s = Some (b, r) -> str_body (html_esc b).
Proof. intros H r'. exact (html_body_len (length s) s b r (le_n _) H r'). Qed.

Lemma str_PV d b acc : str_body b -> PV d (34 :: b ++ 34 :: acc) (CStr b) acc.
Proof.
  intros H g d' Hg _. destruct g as [|g]; [cbn [length] in Hg; lia|].
  cbn [pval tk]. change (tok_of 34) with TQuote. cbv iota. rewrite H. reflexivity.
Qed.

(* ------------------------------------------------------------------------- *)
(* 3. objects printed without white space, with ARBITRARY well-formed raw keys (WireSpecs.obj_PV has
   lower-case keys only) *)

Notation item := (bytes * bytes * cst)%type (only parsing).
Definition gitem_ok (d : N) (i : item) : Prop := str_body (fst (fst i)) /\ PV d (snd (fst i)) (snd i) [].

Section GStep.
  Variables (d : N) (rest : bytes).
  Hypothesis Hrest : match rest with [] => False | x :: _ => delim x end.

  Lemma grest_nice : nice rest.
  Proof. unfold nice. destruct rest; [exact I | exact Hrest]. Qed.

  Lemma grest_nows : split_ws rest = ([], rest).
  Proof. destruct rest as [|x r]; [contradiction|]. apply split_ws_nows. apply (delim_facts x Hrest). Qed.

  Lemma gpmems_step g w k v c :
    str_body k -> PV d v c [] -> (2 * length (v ++ rest) <= g)%nat ->
    forall d', d' <= d ->
    pmems (S g) d' w (34 :: k ++ 34 :: 58 :: v ++ rest) =
    match tk rest with
    | (TComma, r7) =>
      let (wb, r8) := split_ws r7 in
      match pmems g d' wb r8 with
      | Some (ms, r9) => Some (((w, k, []), ([], c, [])) :: ms, r9)
      | None => None
      end
    | (TRBrace, r7) => Some ([((w, k, []), ([], c, []))], r7)
    | _ => None
    end.
  Proof.
    intros Hk Hv Hg d' Hd. cbn [pmems tk]. change (tok_of 34) with TQuote. cbv iota.
    rewrite (Hk _). rewrite split_ws_nows by reflexivity.
    cbn [tk]. change (tok_of 58) with TColon. cbv iota.
    rewrite (PV_not_ws_app _ _ _ _ rest Hv).
    pose proof (PV_ext rest grest_nice _ _ _ _ Hv) as He. cbn [app] in He.
    rewrite (He g d' Hg Hd). rewrite grest_nows. reflexivity.
  Qed.
End GStep.

Lemma gpmems_items d : forall items, items <> [] -> Forall (gitem_ok d) items ->
  forall acc g d', (2 * length (obj_body items ++ (125 :: acc)%N) <= g)%nat -> d' <= d ->
  pmems g d' [] (obj_body items ++ 125 :: acc) = Some (map item_mem items, acc).
Proof.
  induction items as [|i items IH]; [contradiction|]. intros _ HF acc g d' Hg Hd.
  inversion HF as [|? ? [Hk Hv] HF']; subst. destruct i as [[k v] c]. cbn [fst snd] in Hk, Hv.
  destruct items as [|i2 items'].
  - unfold obj_body, item_kv in *. cbn [map join_with fst snd] in *. rewrite fld_app in *.
    destruct g as [|g]; [cbn [length] in Hg; lia|].
    rewrite (gpmems_step d (125 :: acc) (or_intror (or_intror eq_refl)) g [] k v c Hk Hv); [reflexivity | | exact Hd].
    cbn [length] in Hg. rewrite app_length in Hg. cbn [length] in Hg. lia.
  - assert (Hne : i2 :: items' <> []) by discriminate.
    assert (Hb : obj_body ((k, v, c) :: i2 :: items') ++ 125 :: acc = 34 :: k ++ 34 :: 58 :: v ++ 44 :: (obj_body (i2 :: items') ++ 125 :: acc)).
    { unfold obj_body, item_kv. cbn [map fst snd]. rewrite join_cons_ne by discriminate.
      rewrite <- app_assoc, fld_app. cbn [app]. reflexivity. }
    rewrite Hb. rewrite Hb in Hg.
    destruct g as [|g]; [cbn [length] in Hg; lia|].
    assert (Hg' : (2 * length (v ++ (44 :: obj_body (i2 :: items') ++ 125 :: acc)%N) <= g)%nat).
    { cbn [length] in Hg. rewrite app_length in Hg. cbn [length] in Hg. lia. }
    rewrite (gpmems_step d (44 :: obj_body (i2 :: items') ++ 125 :: acc) (or_introl eq_refl) g [] k v c Hk Hv Hg' d' Hd).
    cbn [tk]. change (tok_of 44) with TComma. cbv iota.
    destruct (obj_body_head (i2 :: items') (125 :: acc) Hne) as [t Ht]. rewrite Ht.
    rewrite split_ws_nows by reflexivity. rewrite <- Ht.
    rewrite (IH Hne HF' acc g d'); [reflexivity | | exact Hd].
    rewrite app_length in Hg'. cbn [length] in Hg'. lia.
Qed.

Lemma gobj_PV d items acc : items <> [] -> N.succ d <= max_depth -> Forall (gitem_ok (N.succ d)) items ->
  PV d (obj_text (map item_kv items) ++ acc) (CObj [] (map item_mem items)) acc.
Proof.
  intros Hne Hd HF g d' Hg Hd'.
  assert (Ht : obj_text (map item_kv items) ++ acc = 123 :: obj_body items ++ 125 :: acc).
  { unfold obj_text, obj_open, obj_body. cbn [app]. rewrite <- app_assoc. reflexivity. }
  rewrite Ht in *. destruct g as [|g]; [cbn [length] in Hg; lia|].
  cbn [pval tk]. change (tok_of 123) with TLBrace. cbv iota.
  replace (max_depth <=? d') with false by (symmetry; apply N.leb_gt; lia).
  destruct (obj_body_head items (125 :: acc) Hne) as [t Hh]. rewrite Hh.
  rewrite split_ws_nows by reflexivity. cbn [tk]. change (tok_of 34) with TQuote. cbv iota. rewrite <- Hh.
  rewrite (gpmems_items (N.succ d) items Hne HF acc g (N.succ d')); [reflexivity | | lia].
  cbn [length] in Hg. lia.
Qed.

(* the empty object *)
Lemma empty_obj_PV d acc : N.succ d <= max_depth -> PV d (123 :: 125 :: acc) (CObj [] []) acc.
Proof.
  intros Hd g d' Hg Hd'. destruct g as [|g]; [cbn [length] in Hg; lia|].
  cbn [pval tk]. change (tok_of 123) with TLBrace. cbv iota.
  replace (max_depth <=? d') with false by (symmetry; apply N.leb_gt; lia).
  cbn [split_ws]. change (is_ws 125) with false. cbv iota. cbn [tk]. change (tok_of 125) with TRBrace. reflexivity.
Qed.

(* ------------------------------------------------------------------------- *)
(* 4. the compacted text of a parsed tree is one value at the same depth *)

Lemma lit_true_PV d : PV d lit_true CTrue [].
Proof. intros g d' Hg _. destruct g as [|g]; [cbn in Hg; lia|]. reflexivity. Qed.
Lemma lit_false_PV d : PV d lit_false CFalse [].
Proof. intros g d' Hg _. destruct g as [|g]; [cbn in Hg; lia|]. reflexivity. Qed.
Lemma lit_null_PV d : PV d lit_null CNull [].
Proof. intros g d' Hg _. destruct g as [|g]; [cbn in Hg; lia|]. reflexivity. Qed.

Lemma scalar_reparse d s c r : pscalar s = Some (c, r) ->
  exists q c', (forall acc, ccompact_html c acc = q ++ acc) /\ PV d q c' [].
Proof.
  unfold pscalar. intros H.
  destruct (strip_prefix lit_true s) as [r1|]; [injection H as <- <-; exists lit_true, CTrue; split; [reflexivity|apply lit_true_PV]|].
  destruct (strip_prefix lit_false s) as [r2|]; [injection H as <- <-; exists lit_false, CFalse; split; [reflexivity|apply lit_false_PV]|].
  destruct (strip_prefix lit_null s) as [r3|]; [injection H as <- <-; exists lit_null, CNull; split; [reflexivity|apply lit_null_PV]|].
  destruct (pnum s) as [[n r4]|] eqn:E; [|discriminate]. injection H as <- <-.
  exists n, (CNum n). split; [reflexivity|exact (num_PV d s n r4 E)].
Qed.

Definition cel := elems_text (fun _ : bytes => @nil N) ccompact_html.
Definition cme := mems_text html_esc (fun _ : bytes => @nil N) ccompact_html.

Lemma compact_reparse f :
  (forall d s c r, pval f d s = Some (c, r) ->
     exists q c', (forall acc, ccompact_html c acc = q ++ acc) /\ PV d q c' []) /\
  (forall d w s es r, pelems f d w s = Some (es, r) ->
     es <> [] /\ exists vs, vs <> [] /\ Forall (fun vc : bytes * cst => PV d (fst vc) (snd vc) []) vs /\
       forall acc, cel es acc = arr_body vs ++ 93 :: acc) /\
  (forall d w s ms r, pmems f d w s = Some (ms, r) ->
     ms <> [] /\ exists items, items <> [] /\ Forall (gitem_ok d) items /\
       forall acc, cme ms acc = obj_body items ++ 125 :: acc).
Proof.
  induction f as [|f (IHv & IHe & IHm)]; [repeat split; intros; discriminate|].
  split; [|split].
  - intros d s c r H. cbn [pval] in H.
    destruct (tk s) as [t r0] eqn:Et. destruct t; try discriminate.
    + (* string *)
      destruct (pstr r0) as [[b r']|] eqn:Ep; [|discriminate]. injection H as <- <-.
      exists (34 :: html_esc b ++ [34]), (CStr (html_esc b)). split.
      * intros acc. unfold ccompact_html. cbn [cprint app]. rewrite <- app_assoc. reflexivity.
      * exact (str_PV d (html_esc b) [] (html_str_body _ _ _ Ep)).
    + (* array *)
      destruct (max_depth <=? d) eqn:Ed; [discriminate|]. apply N.leb_gt in Ed.
      assert (Hd : N.succ d <= max_depth) by lia.
      destruct (split_ws r0) as [w r1] eqn:Ew. destruct (tk r1) as [t1 r2] eqn:Et1.
      assert (Hgen : match pelems f (N.succ d) w r1 with Some (es, r3) => Some (CArr [] es, r3) | None => None end = Some (c, r) ->
                     exists q c', (forall acc, ccompact_html c acc = q ++ acc) /\ PV d q c' []).
      { destruct (pelems f (N.succ d) w r1) as [[es r3]|] eqn:Ee; [|discriminate]. intros H'. injection H' as <- <-.
        destruct (IHe _ _ _ _ _ Ee) as (Hne & vs & Hvs & HF & Htx).
        exists (arr_text (map fst vs)), (CArr [] (map velem vs)). split.
        - intros acc. unfold ccompact_html. cbn [cprint]. destruct es as [|e es']; [contradiction|].
          fold ccompact_html. change (elems_text (fun _ : bytes => []) ccompact_html (e :: es') acc) with (cel (e :: es') acc).
          rewrite Htx. unfold arr_text, arr_body. cbn [app]. rewrite <- app_assoc. reflexivity.
        - pose proof (arr_PV d vs [] Hd HF) as P. rewrite app_nil_r in P. exact P. }
      destruct t1; try exact (Hgen H).
      injection H as <- <-. exists [91; 93], (CArr [] []). split; [reflexivity|].
      pose proof (arr_PV d [] [] Hd (Forall_nil _)) as P. exact P.
    + (* object *)
      destruct (max_depth <=? d) eqn:Ed; [discriminate|]. apply N.leb_gt in Ed.
      assert (Hd : N.succ d <= max_depth) by lia.
      destruct (split_ws r0) as [w r1] eqn:Ew. destruct (tk r1) as [t1 r2] eqn:Et1.
      assert (Hgen : match pmems f (N.succ d) w r1 with Some (ms, r3) => Some (CObj [] ms, r3) | None => None end = Some (c, r) ->
                     exists q c', (forall acc, ccompact_html c acc = q ++ acc) /\ PV d q c' []).
      { destruct (pmems f (N.succ d) w r1) as [[ms r3]|] eqn:Ee; [|discriminate]. intros H'. injection H' as <- <-.
        destruct (IHm _ _ _ _ _ Ee) as (Hne & items & Hit & HF & Htx).
        exists (obj_text (map item_kv items)), (CObj [] (map item_mem items)). split.
        - intros acc. unfold ccompact_html. cbn [cprint]. destruct ms as [|e ms']; [contradiction|].
          fold ccompact_html. change (mems_text html_esc (fun _ : bytes => []) ccompact_html (e :: ms') acc) with (cme (e :: ms') acc).
          rewrite Htx. unfold obj_text, obj_open, obj_body. cbn [app]. rewrite <- app_assoc. reflexivity.
        - pose proof (gobj_PV d items [] Hit Hd HF) as P. rewrite app_nil_r in P. exact P. }
      destruct t1; try exact (Hgen H).
      injection H as <- <-. exists [123; 125], (CObj [] []). split; [reflexivity|].
      exact (empty_obj_PV d [] Hd).
    + exact (scalar_reparse d s c r H).
  - intros d w s es r H. cbn [pelems] in H.
    destruct (pval f d s) as [[c r1]|] eqn:Ev; [|discriminate]. destruct (IHv _ _ _ _ Ev) as (q & c' & Hq & Pq).
    destruct (split_ws r1) as [wa r2] eqn:Ew. destruct (tk r2) as [t r3] eqn:Et. destruct t; try discriminate.
    + injection H as <- <-. split; [discriminate|]. exists [(q, c')]. split; [discriminate|]. split; [constructor; [exact Pq|constructor]|].
      intros acc. unfold cel. cbn [elems_text app]. rewrite Hq. unfold arr_body. cbn [map join_with fst]. reflexivity.
    + destruct (split_ws r3) as [wb r4] eqn:Ew2.
      destruct (pelems f d wb r4) as [[es' r5]|] eqn:Ee; [|discriminate]. injection H as <- <-.
      destruct (IHe _ _ _ _ _ Ee) as (Hne & vs & Hvs & HF & Htx).
      split; [discriminate|]. exists ((q, c') :: vs). split; [discriminate|]. split; [constructor; [exact Pq|exact HF]|].
      intros acc. unfold cel. cbn [elems_text app]. destruct es' as [|e' es'']; [contradiction|].
      change (elems_text (fun _ : bytes => []) ccompact_html (e' :: es'') acc) with (cel (e' :: es'') acc).
      rewrite Hq, Htx. unfold arr_body. cbn [map fst]. rewrite join_cons_ne by (destruct vs; [contradiction|discriminate]).
      rewrite <- !app_assoc. reflexivity.
  - intros d w s ms r H. cbn [pmems] in H.
    destruct (tk s) as [t r0] eqn:Et. destruct t; try discriminate.
    destruct (pstr r0) as [[k r1]|] eqn:Ep; [|discriminate]. pose proof (html_str_body _ _ _ Ep) as Hk.
    destruct (split_ws r1) as [wc r2] eqn:Ew. destruct (tk r2) as [t r3] eqn:Et2. destruct t; try discriminate.
    destruct (split_ws r3) as [wv r4] eqn:Ew3.
    destruct (pval f d r4) as [[c r5]|] eqn:Ev; [|discriminate]. destruct (IHv _ _ _ _ Ev) as (q & c' & Hq & Pq).
    destruct (split_ws r5) as [wa r6] eqn:Ew5. destruct (tk r6) as [t r7] eqn:Et6. destruct t; try discriminate.
    + injection H as <- <-. split; [discriminate|]. exists [(html_esc k, q, c')]. split; [discriminate|].
      split; [constructor; [split; assumption|constructor]|].
      intros acc. unfold cme. cbn [mems_text app]. rewrite Hq. unfold obj_body, item_kv. cbn [map join_with fst snd].
      rewrite fld_app. reflexivity.
    + destruct (split_ws r7) as [wb r8] eqn:Ew7.
      destruct (pmems f d wb r8) as [[ms' r9]|] eqn:Em; [|discriminate]. injection H as <- <-.
      destruct (IHm _ _ _ _ _ Em) as (Hne & items & Hit & HF & Htx).
      split; [discriminate|]. exists ((html_esc k, q, c') :: items). split; [discriminate|].
      split; [constructor; [split; assumption|exact HF]|].
      intros acc. unfold cme. cbn [mems_text app]. destruct ms' as [|m' ms'']; [contradiction|].
      change (mems_text html_esc (fun _ : bytes => []) ccompact_html (m' :: ms'') acc) with (cme (m' :: ms'') acc).
      rewrite Hq, Htx. unfold obj_body, item_kv. cbn [map fst snd].
      rewrite join_cons_ne by (destruct items; [contradiction|discriminate]).
      rewrite <- !app_assoc, fld_app. cbn [app]. rewrite <- ?app_assoc. reflexivity.
Qed.

(* json.Compact / Marshal(RawMessage) of one tight value is one tight value at the same depth *)
Theorem compact_tight d s : tight_at d s = true -> exists q, compact s = Some q /\ tight_at d q = true.
Proof.
  intros H. destruct (tight_PV _ _ H) as [c Pc].
  pose proof (PV_value_at _ _ _ _ Pc) as Hv. unfold value_at in Hv.
  destruct (proj1 (compact_reparse _) _ _ _ _ Hv) as (q & c' & Hq & Pq).
  exists q. split.
  - unfold compact. rewrite (parse_doc_PV _ _ (PV_depth _ 0 _ _ _ Pc (N.le_0_l d))). rewrite Hq, app_nil_r. reflexivity.
  - exact (PV_tight _ _ _ Pq).
Qed.

(* ... and of any valid JSON document (white space around it allowed) is valid JSON *)
Theorem compact_valid s q : compact s = Some q -> valid q = true /\ tight_at 0 q = true.
Proof.
  unfold compact, parse_doc, parse_prefix. destruct (split_ws s) as [w s1]. unfold value_at.
  destruct (pval (fuel_of s1) 0 s1) as [[c r]|] eqn:Hv; [|discriminate].
  destruct (split_ws r) as [w1 r1]. destruct r1; [|discriminate]. intros H. injection H as <-.
  destruct (proj1 (compact_reparse _) _ _ _ _ Hv) as (q & c' & Hq & Pq).
  rewrite Hq, app_nil_r. split; [|exact (PV_tight _ _ _ Pq)].
  unfold valid. rewrite (parse_doc_PV _ _ Pq). reflexivity.
Qed.

Example compact_valid_nonvacuous :
  compact [32; 123; 32; 34; 60; 226; 128; 168; 34; 32; 58; 32; 91; 32; 49; 46; 53; 101; 43; 50; 32; 44; 32; 110; 117; 108; 108; 32; 93; 32; 125; 10]
  = Some [123; 34; 92; 117; 48; 48; 51; 99; 92; 117; 50; 48; 50; 56; 34; 58; 91; 49; 46; 53; 101; 43; 50; 44; 110; 117; 108; 108; 93; 125].
Proof. vm_compute. reflexivity. Qed.
