(* More theorems about the bridge model (coq/http/Bridge.v): handler invocations of the
   concrete inner server [table_inner], the status iff, and n-party isolation.
   Restated in coq/props/C18.v. *)
From Coq Require Import List NArith ZArith Bool Lia Permutation.
From JV Require Import Bytes Msg Bridge BridgeProofs.
Import ListNotations.
Local Open Scope N_scope.

(* ------------------------------------------------------------------------- *)
(* 1. handler invocations of the concrete inner server *)

(* does the local server run a handler for this spec: valid request or notification to a
   known (non-empty) method - the condition under which [answer] consults the table *)
Definition spec_runs (known : list bytes) (s : spec) : bool :=
  negb (beq (sp_method s) []) && is_known known (sp_method s).

(* [table_inner] instrumented with the log of the handler invocations it performs
   (method, params), in spec order: the same recursion, the same replies *)
Fixpoint table_run (known : list bytes) (tbl : list (bytes * rbody)) (next : N) (specs : list spec)
  : list reply * list (bytes * bytes) :=
  match specs with
  | [] => ([], [])
  | s :: r =>
    let '(rs, lg) := table_run known tbl (if sp_notify s then next else N.succ next) r in
    (if sp_notify s then rs else {| rp_id := next; rp_body := answer known tbl s |} :: rs,
     if spec_runs known s then (sp_method s, sp_params s) :: lg else lg)
  end.

Lemma table_run_replies known tbl specs : forall next,
  fst (table_run known tbl next specs) = table_inner known tbl next specs.
Proof.
  induction specs as [|s r IH]; intros next; [reflexivity|].
  cbn [table_run table_inner].
  destruct (table_run known tbl (if sp_notify s then next else N.succ next) r) as [rs lg] eqn:E.
  cbn [fst]. pose proof (IH (if sp_notify s then next else N.succ next)) as H.
  rewrite E in H. cbn [fst] in H.
  destruct (sp_notify s); rewrite H; reflexivity.
Qed.

Lemma table_run_log known tbl specs : forall next,
  snd (table_run known tbl next specs) =
  map (fun s => (sp_method s, sp_params s)) (filter (spec_runs known) specs).
Proof.
  induction specs as [|s r IH]; intros next; [reflexivity|].
  cbn [table_run filter].
  destruct (table_run known tbl (if sp_notify s then next else N.succ next) r) as [rs lg] eqn:E.
  cbn [snd]. pose proof (IH (if sp_notify s then next else N.succ next)) as H.
  rewrite E in H. cbn [snd] in H.
  destruct (spec_runs known s); cbn [map]; rewrite H; reflexivity.
Qed.

Lemma table_run_invoked known tbl next specs :
  map snd (snd (table_run known tbl next specs)) = invoked known specs.
Proof.
  rewrite table_run_log, map_map. unfold invoked, spec_runs. reflexivity.
Qed.

(* the handler invocations of one HTTP request served by the bridge over the concrete inner
   server: those of the Batch it issued (none when Batch was not called) *)
Definition handler_log (known : list bytes) (tbl : list (bytes * rbody)) (next : N)
           (meth : bytes) (ct : mediatype) (has_hook has_get : bool) (body : inbound) : list (bytes * bytes) :=
  snd (table_run known tbl next (sv_specs (serve_table known tbl next meth ct has_hook has_get body))).

(* the members of a POST whose handler runs *)
Definition runs (known : list bytes) (p : preq) : bool :=
  is_valid p && (negb (beq (pr_method p) []) && is_known known (pr_method p)).

Lemma filter_map_comm {A B} (f : A -> B) (g : B -> bool) l :
  filter g (map f l) = map f (filter (fun x => g (f x)) l).
Proof.
  induction l as [|x l IH]; [reflexivity|]. cbn [map filter].
  destruct (g (f x)); cbn [map]; now rewrite IH.
Qed.

Lemma filter_ext_in' {A} (f g : A -> bool) l :
  (forall x, In x l -> f x = g x) -> filter f l = filter g l.
Proof.
  induction l as [|x l IH]; intros H; [reflexivity|]. cbn [filter].
  rewrite (H x) by now left. rewrite IH; [reflexivity|]. intros y Hy; apply H; now right.
Qed.

Lemma runs_filter known ps :
  filter (spec_runs known) (map spec_of (filter is_valid ps)) = map spec_of (filter (runs known) ps).
Proof.
  rewrite filter_map_comm. f_equal. unfold runs. rewrite filter_andb. reflexivity.
Qed.

Lemma nth_filter_firstn {A} (f : A -> bool) l : forall i x,
  nth_error l i = Some x -> f x = true ->
  nth_error (filter f l) (length (filter f (firstn i l))) = Some x.
Proof.
  induction l as [|y l IH]; intros [|i] x H Hf; cbn in H; try discriminate.
  - injection H as ->. cbn [firstn filter length]. rewrite Hf. reflexivity.
  - cbn [firstn filter]. destruct (f y); cbn [length nth_error]; now apply IH.
Qed.

Lemma invoked_once known tbl next meth ct has_hook has_get body :
  let log := handler_log known tbl next meth ct has_hook has_get body in
  (gate meth ct has_hook has_get <> GPass -> log = []) /\
  (parse_requests body = None -> log = []) /\
  (forall ps, gate meth ct has_hook has_get = GPass -> parse_requests body = Some ps ->
     log = map (fun p => (pr_method p, pr_params p)) (filter (runs known) ps) /\
     length log = length (filter (runs known) ps) /\
     (forall i p, nth_error ps i = Some p -> runs known p = true ->
        nth_error log (length (filter (runs known) (firstn i ps))) = Some (pr_method p, pr_params p)) /\
     (forall p, In p ps -> pr_error p <> None -> ~ In p (filter (runs known) ps)) /\
     (forall p, In p ps -> pr_error p = None -> pr_method p <> [] -> is_known known (pr_method p) = true ->
        In p (filter (runs known) ps))).
Proof.
  intros log. unfold log, handler_log, serve_table.
  split; [|split].
  - intros Hg. destruct (gated_no_spec (table_inner known tbl) next meth ct has_hook has_get body Hg) as [-> _].
    reflexivity.
  - intros Hp. unfold serve. destruct (gate meth ct has_hook has_get); try reflexivity.
    unfold serve_internal. rewrite Hp. reflexivity.
  - intros ps Hg Hp. unfold serve. rewrite Hg.
    rewrite (serve_internal_specs _ _ _ _ Hp (table_inner_ok known tbl)).
    rewrite table_run_log, runs_filter, map_map.
    assert (E : map (fun x => (sp_method (spec_of x), sp_params (spec_of x))) (filter (runs known) ps)
                = map (fun p => (pr_method p, pr_params p)) (filter (runs known) ps)) by reflexivity.
    rewrite E. split; [reflexivity|]. split; [apply map_length|]. split; [|split].
    + intros i p Hi Hr. apply (map_nth_error (fun p => (pr_method p, pr_params p))).
      now apply nth_filter_firstn.
    + intros p _ He Hin. apply filter_In in Hin. destruct Hin as [_ Hr]. unfold runs in Hr.
      apply andb_true_iff in Hr. destruct Hr as [Hv _]. apply is_valid_error in Hv. congruence.
    + intros p Hin He Hm Hk. apply filter_In. split; [exact Hin|]. unfold runs.
      apply is_valid_error in He. rewrite He, Hk. apply beq_neq in Hm. now rewrite Hm.
Qed.

(* ------------------------------------------------------------------------- *)
(* 2. status iff *)

Lemma status_iff inner : inner_ok inner ->
  forall next body ps st b, parse_requests body = Some ps ->
  sv_out (serve_internal inner next body) = OResp st b ->
  (st = 204%Z <-> filter is_invalid ps = [] /\ filter is_call ps = []) /\
  (st = 200%Z <-> shape_objs b <> []) /\
  (st = 200%Z <-> (exists p, In p ps /\ (is_invalid p = true \/ is_call p = true))) /\
  (st = 204%Z -> b = BEmpty) /\
  (st = 200%Z \/ st = 204%Z).
Proof.
  intros Hin next body ps st b Hp Ho.
  destruct (own_responses inner Hin next body ps Hp) as (st' & b' & Ho' & Hobjs & Hlen & _ & Hcnt).
  rewrite Ho in Ho'. injection Ho' as <- <-.
  set (calls := filter is_call ps) in *. set (rs := inner next (map spec_of (filter is_valid ps))) in *.
  (* status from the shape *)
  assert (Hst : (shape_objs b = [] /\ st = 204%Z /\ b = BEmpty) \/ (shape_objs b <> [] /\ st = 200%Z)).
  { revert Ho. unfold serve_internal. rewrite Hp.
    assert (A : forall s m st b, assemble s m = (st, b) ->
                (shape_objs b = [] /\ st = 204%Z /\ b = BEmpty) \/ (shape_objs b <> [] /\ st = 200%Z)).
    { intros s m st0 b0. unfold assemble. destruct (s ++ m) as [|o [|o' l]]; intros [= <- <-]; cbn [shape_objs].
      - left; repeat split.
      - right; split; [discriminate|reflexivity].
      - right; split; [discriminate|reflexivity]. }
    destruct (pl_specs (plan ps)) as [|s specs].
    - destruct (assemble (pl_static (plan ps)) []) as [st0 b0] eqn:Ea. cbn [sv_out].
      intros [= <- <-]. exact (A _ _ _ _ Ea).
    - destruct (map_back _ _) as [mapped|]; [|discriminate].
      destruct (assemble (pl_static (plan ps)) mapped) as [st0 b0] eqn:Ea. cbn [sv_out].
      intros [= <- <-]. exact (A _ _ _ _ Ea). }
  assert (Hnil : shape_objs b = [] <-> filter is_invalid ps = [] /\ calls = []).
  { split.
    - intros E. rewrite E in Hcnt. cbn [length] in Hcnt.
      split; [destruct (filter is_invalid ps)|destruct calls]; try reflexivity; cbn [length] in Hcnt; lia.
    - intros [E1 E2]. rewrite E1, E2 in Hcnt. cbn [length] in Hcnt.
      destruct (shape_objs b); [reflexivity|discriminate]. }
  assert (Hex : shape_objs b <> [] <-> exists p, In p ps /\ (is_invalid p = true \/ is_call p = true)).
  { split.
    - intros Hne. destruct (filter is_invalid ps) as [|p l] eqn:E1.
      + destruct calls as [|p l] eqn:E2; [exfalso; apply Hne, Hnil; now split|].
        assert (Hi : In p (filter is_call ps)) by (fold calls; rewrite E2; now left).
        apply filter_In in Hi. exists p. tauto.
      + assert (Hi : In p (filter is_invalid ps)) by (rewrite E1; now left).
        apply filter_In in Hi. exists p. tauto.
    - intros (p & Hp' & [Hi|Hc]) E; apply Hnil in E; destruct E as [E1 E2].
      + assert (In p (filter is_invalid ps)) as X by (apply filter_In; now split). now rewrite E1 in X.
      + assert (In p calls) as X by (apply filter_In; now split). now rewrite E2 in X. }
  destruct Hst as [(E & -> & ->) | (E & ->)].
  - split; [split; [intros _; now apply Hnil|reflexivity]|].
    split; [split; [discriminate|intros H; now rewrite E in H]|].
    split; [split; [discriminate|intros H; apply Hex in H; now rewrite E in H]|].
    split; [reflexivity|now right].
  - split; [split; [discriminate|intros H; apply Hnil in H; contradiction]|].
    split; [split; [intros _; exact E|reflexivity]|].
    split; [split; [intros _; now apply Hex|reflexivity]|].
    split; [discriminate|now left].
Qed.

(* ------------------------------------------------------------------------- *)
(* 3. n-party isolation *)

(* party i takes one id: its remaining need decreases (None: out of range or needs none) *)
Fixpoint dec_nth (i : nat) (need : list nat) : option (list nat) :=
  match need with
  | [] => None
  | n :: r =>
    match i with
    | O => match n with O => None | S n' => Some (n' :: r) end
    | S i' => match dec_nth i' r with Some r' => Some (n :: r') | None => None end
    end
  end.

Fixpoint push_nth {A} (i : nat) (x : A) (ls : list (list A)) : list (list A) :=
  match ls, i with
  | [], _ => []
  | l :: r, O => (x :: l) :: r
  | l :: r, S i' => l :: push_nth i' x r
  end.

(* the schedule ran out: the remaining needs are allocated party by party *)
Fixpoint rest_alloc (next : N) (need : list nat) : list (list N) * N :=
  match need with
  | [] => ([], next)
  | n :: r => let '(l, nx) := rest_alloc (next + N.of_nat n) r in (seqN next n :: l, nx)
  end.

(* Any number of concurrent Batch calls allocating [need] ids from one counter; each
   allocation is its own critical section (Client.req): [sched] says which party
   allocates next; a step for a party that needs no more ids (or does not exist) is
   skipped; when the schedule runs out the rest is allocated party by party. *)
Fixpoint allocN (next : N) (need : list nat) (sched : list nat) : list (list N) * N :=
  match sched with
  | [] => rest_alloc next need
  | i :: s' =>
    match dec_nth i need with
    | None => allocN next need s'
    | Some need' => let '(idss, n) := allocN (N.succ next) need' s' in (push_nth i next idss, n)
    end
  end.

Fixpoint sum_nat (l : list nat) : nat := match l with [] => O | n :: r => (n + sum_nat r)%nat end.

Lemma dec_nth_sum i : forall need need', dec_nth i need = Some need' ->
  sum_nat need = S (sum_nat need') /\ length need' = length need /\ (i < length need)%nat.
Proof.
  induction i as [|i IH]; intros [|n r] need' H; cbn [dec_nth] in H; try discriminate.
  - destruct n; [discriminate|]. injection H as <-. cbn [sum_nat length]. lia.
  - destruct (dec_nth i r) as [r'|] eqn:E; [|discriminate]. injection H as <-.
    apply IH in E. cbn [sum_nat length]. lia.
Qed.

Lemma push_nth_length {A} i (x : A) : forall ls, length (push_nth i x ls) = length ls.
Proof. induction i as [|i IH]; intros [|l r]; cbn [push_nth length]; try reflexivity. now rewrite IH. Qed.

Lemma push_nth_perm {A} i (x : A) : forall ls, (i < length ls)%nat ->
  Permutation (concat (push_nth i x ls)) (x :: concat ls).
Proof.
  induction i as [|i IH]; intros [|l r] H; cbn [length] in H; try lia; cbn [push_nth concat].
  - reflexivity.
  - rewrite IH by lia. symmetry. apply Permutation_middle.
Qed.

(* the lengths after one allocation: party i's list is one longer *)
Lemma push_nth_lengths {A} i (x : A) : forall ls need need',
  dec_nth i need = Some need' -> map (@length A) ls = need' ->
  map (@length A) (push_nth i x ls) = need.
Proof.
  induction i as [|i IH]; intros ls [|n r] need' H Hl; cbn [dec_nth] in H; try discriminate.
  - destruct n; [discriminate|]. injection H as <-. destruct ls as [|l ls]; [discriminate|].
    cbn [map] in Hl. injection Hl as Hl1 Hl2. cbn [push_nth map length]. now rewrite Hl1, Hl2.
  - destruct (dec_nth i r) as [r'|] eqn:E; [|discriminate]. injection H as <-.
    destruct ls as [|l ls]; [discriminate|]. cbn [map] in Hl. injection Hl as Hl1 Hl2.
    cbn [push_nth map]. rewrite Hl1. f_equal. now apply (IH ls r r').
Qed.

Lemma NoDup_app_iff' {A} (a b : list A) :
  NoDup (a ++ b) <-> NoDup a /\ NoDup b /\ (forall x, In x a -> ~ In x b).
Proof.
  induction a as [|y a IH]; cbn [app].
  - split; [intros H; split; [constructor|split; [exact H|intros x []]]|tauto].
  - split.
    + intros H. inversion H as [|? ? Hy H']; subst. apply IH in H'. destruct H' as (Ha & Hb & Hd).
      split; [constructor; [intros Hi; apply Hy, in_or_app; now left|exact Ha]|]. split; [exact Hb|].
      intros x [<-|Hx]; [intros Hi; apply Hy, in_or_app; now right|now apply Hd].
    + intros (Ha & Hb & Hd). inversion Ha as [|? ? Hy Ha']; subst. constructor.
      * intros Hi. apply in_app_or in Hi. destruct Hi as [Hi|Hi]; [tauto|]. apply (Hd y); [now left|exact Hi].
      * apply IH. split; [exact Ha'|]. split; [exact Hb|]. intros x Hx. apply Hd. now right.
Qed.

Lemma rest_alloc_spec need : forall next idss n,
  rest_alloc next need = (idss, n) ->
  map (@length N) idss = need /\ n = next + N.of_nat (sum_nat need) /\
  (forall x, In x (concat idss) -> next <= x < n) /\ NoDup (concat idss).
Proof.
  induction need as [|k r IH]; intros next idss n H; cbn [rest_alloc] in H.
  - injection H as <- <-. cbn. repeat split; try lia; try tauto. constructor.
  - destruct (rest_alloc (next + N.of_nat k) r) as [l nx] eqn:E. injection H as <- <-.
    apply IH in E. destruct E as (Hl & Hn & Hb & Hd). cbn [map concat sum_nat].
    rewrite seqN_length, Hl. split; [reflexivity|]. split; [lia|]. split.
    + intros x Hx. apply in_app_or in Hx. destruct Hx as [Hx|Hx].
      * apply seqN_in in Hx. lia.
      * apply Hb in Hx. lia.
    + apply NoDup_app_iff'. split; [apply seqN_NoDup|]. split; [exact Hd|]. intros x Hx Hx'. apply seqN_in in Hx. apply Hb in Hx'. lia.
Qed.

Lemma allocN_spec sched : forall next need idss n,
  allocN next need sched = (idss, n) ->
  map (@length N) idss = need /\ n = next + N.of_nat (sum_nat need) /\
  (forall x, In x (concat idss) -> next <= x < n) /\ NoDup (concat idss).
Proof.
  induction sched as [|i s IH]; intros next need idss n H; cbn [allocN] in H.
  - now apply rest_alloc_spec.
  - destruct (dec_nth i need) as [need'|] eqn:D; [|now apply IH].
    destruct (allocN (N.succ next) need' s) as [idss' n'] eqn:E. injection H as <- <-.
    apply IH in E. destruct E as (Hl & Hn & Hb & Hd).
    destruct (dec_nth_sum _ _ _ D) as (Hs & Hlen & Hi).
    assert (Hi' : (i < length idss')%nat).
    { rewrite <- (map_length (@length N)), Hl, Hlen. exact Hi. }
    pose proof (push_nth_perm i next idss' Hi') as P.
    split; [now apply (push_nth_lengths i next idss' need need')|]. split; [lia|]. split.
    + intros x Hx. apply (Permutation_in _ P) in Hx. destruct Hx as [<-|Hx]; [lia|]. apply Hb in Hx. lia.
    + apply (Permutation_NoDup (Permutation_sym P)). constructor; [|exact Hd].
      intros Hx. apply Hb in Hx. lia.
Qed.

Lemma NoDup_concat_parts {A} (ls : list (list A)) : NoDup (concat ls) ->
  (forall k l, nth_error ls k = Some l -> NoDup l) /\
  (forall k k' l l' x, k <> k' -> nth_error ls k = Some l -> nth_error ls k' = Some l' -> In x l -> ~ In x l').
Proof.
  induction ls as [|a ls IH]; intros H.
  - split; intros; destruct k; discriminate.
  - cbn [concat] in H.
    apply NoDup_app_iff' in H. destruct H as (Ha & Hls & Hd).
    destruct (IH Hls) as [IH1 IH2].
    assert (Hin : forall k l x, nth_error ls k = Some l -> In x l -> In x (concat ls)).
    { intros k l x Hk Hx. apply in_concat. exists l. split; [eapply nth_error_In; eassumption|exact Hx]. }
    split.
    + intros [|k] l Hk; cbn [nth_error] in Hk; [now injection Hk as <-|]. now apply (IH1 k).
    + intros [|k] [|k'] l l' x Hne Hk Hk' Hx; cbn [nth_error] in Hk, Hk'; try congruence.
      * injection Hk as <-. intros Hx'. apply (Hd x Hx). now apply (Hin k' l').
      * injection Hk' as <-. intros Hx'. apply (Hd x Hx'). now apply (Hin k l).
      * apply (IH2 k k' l l' x); congruence.
Qed.

Lemma nth_error_map_some {A B} (f : A -> B) l k y :
  nth_error (map f l) k = Some y -> exists x, nth_error l k = Some x /\ f x = y.
Proof.
  revert k; induction l as [|a l IH]; intros [|k] H; cbn in H; try discriminate.
  - injection H as <-. exists a. split; reflexivity.
  - now apply IH.
Qed.

Definition need_of (ps : list preq) : nat := call_count (pl_specs (plan ps)).

Lemma isolation_n pss next sched pool idss next' :
  allocN next (map need_of pss) sched = (idss, next') ->
  (forall i, In i (concat idss) -> In i (map rp_id pool)) ->
  length idss = length pss /\ NoDup (concat idss) /\
  (forall x, In x (concat idss) -> next <= x < next') /\
  forall k ps, nth_error pss k = Some ps ->
    exists ids rs,
      nth_error idss k = Some ids /\ NoDup ids /\ length ids = length (filter is_call ps) /\
      route ids pool = Some rs /\ map rp_id rs = ids /\
      (forall r, In r rs -> In r pool /\ In (rp_id r) ids /\
         forall k' ids', k' <> k -> nth_error idss k' = Some ids' -> ~ In (rp_id r) ids') /\
      exists st b, post_routed ps ids pool = Some (OResp st b) /\
        shape_objs b = map err_obj (filter is_invalid ps) ++ call_objs (filter is_call ps) rs.
Proof.
  intros Ha Hpool. apply allocN_spec in Ha. destruct Ha as (Hl & _ & Hb & Hd).
  assert (Hlen : length idss = length pss).
  { rewrite <- (map_length (@length N)), Hl. apply map_length. }
  split; [exact Hlen|]. split; [exact Hd|]. split; [exact Hb|].
  destruct (NoDup_concat_parts idss Hd) as [Hnd Hdis].
  intros k ps Hk.
  destruct (nth_error idss k) as [ids|] eqn:Ek.
  2:{ apply nth_error_None in Ek. assert (k < length pss)%nat by (apply nth_error_Some; congruence). lia. }
  assert (Hlk : length ids = length (filter is_call ps)).
  { pose proof (map_nth_error (@length N) _ _ Ek) as E1. rewrite Hl in E1.
    pose proof (map_nth_error need_of _ _ Hk) as E2. rewrite E2 in E1. injection E1 as E1.
    unfold need_of in E1. rewrite call_count_specs in E1. congruence. }
  assert (Hin : forall i, In i ids -> In i (map rp_id pool)).
  { intros i Hi. apply Hpool. apply in_concat. exists ids. split; [eapply nth_error_In; eassumption|exact Hi]. }
  destruct (route_ok ids pool Hin) as (rs & Hr & Hm & Hp).
  exists ids, rs. split; [reflexivity|]. split; [now apply (Hnd k)|]. split; [exact Hlk|].
  split; [exact Hr|]. split; [exact Hm|]. split.
  - intros r Hrin. assert (Hri : In (rp_id r) ids) by (rewrite <- Hm; now apply in_map).
    split; [now apply Hp|]. split; [exact Hri|].
    intros k' ids' Hne Hk'. apply (Hdis k k' ids ids'); auto.
  - apply (post_routed_objs ps ids pool rs Hr). rewrite <- Hlk, <- Hm. symmetry; apply map_length.
Qed.

(* ------------------------------------------------------------------------- *)
(* 3b. the same with the reply stream produced by the server: every request sent by any
   of the POSTs (internal id, spec) is answered once, [ans i s] being whatever the handler
   of that request answered; the replies arrive in any order *)

Definition call_specs (ps : list preq) : list spec := map spec_of (filter is_call ps).
Definition sent (ps : list preq) (ids : list N) : list (N * spec) := combine ids (call_specs ps).
Definition all_sent (pss : list (list preq)) (idss : list (list N)) : list (N * spec) :=
  concat (map (fun pi => sent (fst pi) (snd pi)) (combine pss idss)).
Definition answer_of (ans : N -> spec -> rbody) (q : N * spec) : reply :=
  {| rp_id := fst q; rp_body := ans (fst q) (snd q) |}.
(* what caller k is owed for its calls: own id text, the answer to its own request *)
Definition owed_calls (ans : N -> spec -> rbody) (ps : list preq) (ids : list N) : list robj :=
  map (fun ci => {| ro_id := pr_id (fst ci); ro_body := ans (snd ci) (spec_of (fst ci)) |})
      (combine (filter is_call ps) ids).

Lemma map_fst_combine {A B} (a : list A) (b : list B) : length a = length b -> map fst (combine a b) = a.
Proof.
  revert b; induction a as [|x a IH]; intros [|y b] H; cbn in *; try discriminate; try reflexivity.
  injection H as H. now rewrite IH.
Qed.

Lemma all_sent_ids pss : forall idss,
  map (@length N) idss = map need_of pss -> map fst (all_sent pss idss) = concat idss.
Proof.
  unfold all_sent. induction pss as [|ps pss IH]; intros [|ids idss] H; cbn [map] in H; try discriminate; [reflexivity|].
  injection H as H1 H2. cbn [combine map concat fst snd]. rewrite map_app, IH by exact H2. f_equal.
  unfold sent. apply map_fst_combine. unfold call_specs. rewrite map_length, H1.
  unfold need_of. apply call_count_specs.
Qed.

Lemma all_sent_in pss : forall idss k ps ids q,
  nth_error pss k = Some ps -> nth_error idss k = Some ids -> In q (sent ps ids) -> In q (all_sent pss idss).
Proof.
  unfold all_sent. induction pss as [|p0 pss IH]; intros [|i0 idss] [|k] ps ids q Hk Hi Hq; cbn [nth_error] in Hk, Hi; try discriminate.
  - injection Hk as ->. injection Hi as ->. cbn [combine map concat fst snd]. apply in_or_app. now left.
  - cbn [combine map concat]. apply in_or_app. right. now apply (IH idss k ps ids).
Qed.

Lemma inj_on_pool {A B} (f : A -> B) pool : NoDup (map f pool) ->
  forall x y, In x pool -> In y pool -> f x = f y -> x = y.
Proof.
  induction pool as [|z pool IH]; intros H x y Hx Hy E; [destruct Hx|].
  cbn [map] in H. inversion H as [|? ? Hz H']; subst.
  destruct Hx as [<-|Hx], Hy as [<-|Hy].
  - reflexivity.
  - exfalso. apply Hz. rewrite E. now apply in_map.
  - exfalso. apply Hz. rewrite <- E. now apply in_map.
  - now apply IH.
Qed.

Lemma eq_by_keys {A B} (f : A -> B) pool : NoDup (map f pool) ->
  forall l1 l2, (forall x, In x l1 -> In x pool) -> (forall x, In x l2 -> In x pool) ->
  map f l1 = map f l2 -> l1 = l2.
Proof.
  intros H. induction l1 as [|x l1 IH]; intros [|y l2] H1 H2 E; cbn [map] in E; try discriminate; [reflexivity|].
  injection E as E1 E2. f_equal.
  - apply (inj_on_pool f pool H); [apply H1; now left|apply H2; now left|exact E1].
  - apply IH; [intros z Hz; apply H1; now right|intros z Hz; apply H2; now right|exact E2].
Qed.

Lemma owed_calls_objs ans calls : forall ids, length ids = length calls ->
  call_objs calls (map (answer_of ans) (combine ids (map spec_of calls))) =
  map (fun ci => {| ro_id := pr_id (fst ci); ro_body := ans (snd ci) (spec_of (fst ci)) |}) (combine calls ids).
Proof.
  unfold call_objs. induction calls as [|c calls IH]; intros [|i ids] H; cbn [length] in H; try discriminate; [reflexivity|].
  injection H as H. cbn [map combine fst snd]. rewrite IH by exact H. reflexivity.
Qed.

Lemma isolation_n_answers ans pss next sched pool idss next' :
  allocN next (map need_of pss) sched = (idss, next') ->
  Permutation pool (map (answer_of ans) (all_sent pss idss)) ->
  forall k ps, nth_error pss k = Some ps ->
    exists ids st b,
      nth_error idss k = Some ids /\ length ids = length (filter is_call ps) /\
      post_routed ps ids pool = Some (OResp st b) /\
      shape_objs b = map err_obj (filter is_invalid ps) ++ owed_calls ans ps ids /\
      map ro_id (shape_objs b) = map ro_id (map err_obj (filter is_invalid ps)) ++ map pr_id (filter is_call ps).
Proof.
  intros Ha Hperm k ps Hk.
  pose proof (allocN_spec _ _ _ _ _ Ha) as (Hl & _ & _ & Hd).
  assert (Hpi : Permutation (map rp_id pool) (concat idss)).
  { rewrite (Permutation_map rp_id Hperm), map_map.
    replace (map (fun x => rp_id (answer_of ans x)) (all_sent pss idss)) with (map fst (all_sent pss idss)) by reflexivity.
    now rewrite all_sent_ids. }
  assert (Hnd : NoDup (map rp_id pool)) by (apply (Permutation_NoDup (Permutation_sym Hpi)); exact Hd).
  assert (Hpool : forall i, In i (concat idss) -> In i (map rp_id pool)).
  { intros i Hi. apply (Permutation_in _ (Permutation_sym Hpi)). exact Hi. }
  destruct (isolation_n pss next sched pool idss next' Ha Hpool) as (_ & _ & _ & Hall).
  destruct (Hall k ps Hk) as (ids & rs & Ek & _ & Hlk & Hr & Hm & Hrs & st & b & Hpost & Hobjs).
  exists ids, st, b. split; [exact Ek|]. split; [exact Hlk|]. split; [exact Hpost|].
  assert (Ers : rs = map (answer_of ans) (sent ps ids)).
  { apply (eq_by_keys rp_id pool Hnd).
    - intros r Hrin. now apply Hrs.
    - intros r Hrin. apply (Permutation_in _ (Permutation_sym Hperm)).
      apply in_map_iff in Hrin. destruct Hrin as (q & <- & Hq). apply in_map.
      now apply (all_sent_in pss idss k ps ids).
    - rewrite Hm, map_map.
      replace (map (fun x => rp_id (answer_of ans x)) (sent ps ids)) with (map fst (sent ps ids)) by reflexivity.
      unfold sent, call_specs. symmetry. apply map_fst_combine. now rewrite map_length. }
  assert (Hown : shape_objs b = map err_obj (filter is_invalid ps) ++ owed_calls ans ps ids).
  { rewrite Hobjs, Ers. f_equal. unfold sent, call_specs, owed_calls. now apply owed_calls_objs. }
  split; [exact Hown|].
  rewrite Hown, map_app. f_equal. unfold owed_calls. rewrite map_map. cbn [ro_id].
  rewrite <- (map_map fst pr_id). f_equal. apply map_fst_combine. now symmetry.
Qed.

(* non-vacuity: three POSTs using the same caller ids; allocation order C A B A, then the
   rest; replies in reverse order *)
Definition ex_C := [mkp [55] b_g [91; 53; 93] None; ex_badnull].
Definition ex_ans : N -> spec -> rbody := fun i s => RResult (sp_params s ++ [48 + i]).

Example isolation_n_nonvacuous :
  map need_of [ex_A; ex_B; ex_C] = [2; 2; 1]%nat /\
  allocN 1 [2; 2; 1]%nat [2; 0; 1; 0]%nat = ([[2; 4]; [3; 5]; [1]], 6) /\
  let pool := rev (map (answer_of ex_ans) (all_sent [ex_A; ex_B; ex_C] [[2; 4]; [3; 5]; [1]])) in
  post_routed ex_A [2; 4] pool =
    Some (OResp 200%Z (BArray [ {| ro_id := [34; 97; 34]; ro_body := RResult [91; 49; 93; 50] |};
                                {| ro_id := [55]; ro_body := RResult [91; 50; 93; 52] |} ])) /\
  post_routed ex_B [3; 5] pool =
    Some (OResp 200%Z (BArray [ {| ro_id := [55]; ro_body := RError (err_code InvalidRequest) |};
                                {| ro_id := [55]; ro_body := RResult [91; 51; 93; 51] |};
                                {| ro_id := [34; 97; 34]; ro_body := RResult [91; 52; 93; 53] |} ])) /\
  post_routed ex_C [1] pool =
    Some (OResp 200%Z (BArray [ {| ro_id := null_bytes; ro_body := RError (err_code ParseError) |};
                                {| ro_id := [55]; ro_body := RResult [91; 53; 93; 49] |} ])).
Proof. vm_compute. repeat split. Qed.

Example isolation_n_perm_nonvacuous :
  Permutation (rev (map (answer_of ex_ans) (all_sent [ex_A; ex_B; ex_C] [[2; 4]; [3; 5]; [1]])))
              (map (answer_of ex_ans) (all_sent [ex_A; ex_B; ex_C] [[2; 4]; [3; 5]; [1]])).
Proof. symmetry. apply Permutation_rev. Qed.

(* non-vacuity of invoked_once / status_iff *)
Example invoked_once_nonvacuous :
  handler_log [b_g] ex_tbl 10 s_POST ct_json false false (InMsgs true ex_ms)
    = [(b_g, [91; 49; 93]); (b_g, [91; 51; 93]); (b_g, [91; 53; 93])] /\
  filter (runs [b_g]) ex_ps = [ex_note; ex_c1; ex_c3] /\
  gate s_POST ct_json false false = GPass /\
  handler_log [b_g] ex_tbl 10 s_PUT ct_json false false (InMsgs true ex_ms) = [] /\
  handler_log [b_g] ex_tbl 10 s_POST ct_json false false InBad = [] /\
  handler_log [b_g] ex_tbl 10 s_POST ct_json false false
     (InMsgs true [jm [55] b_g [91; 50; 93] (Some (err_code InvalidRequest))]) = [].
Proof. vm_compute. repeat split. Qed.

Example status_iff_nonvacuous :
  sv_out (serve_internal ex_inner 1 (InMsgs true [jm [] b_g [91; 49; 93] None])) = OResp 204%Z BEmpty /\
  filter is_invalid [parsed (jm [] b_g [91; 49; 93] None)] = [] /\
  filter is_call [parsed (jm [] b_g [91; 49; 93] None)] = [] /\
  (exists b, sv_out (serve_internal ex_inner 10 (InMsgs true ex_ms)) = OResp 200%Z b) /\
  filter is_invalid ex_ps <> [] /\ filter is_call ex_ps <> [].
Proof. vm_compute. repeat split; try discriminate. eexists; reflexivity. Qed.

Lemma table_run_is_table_inner known tbl specs next :
  fst (table_run known tbl next specs) = table_inner known tbl next specs /\
  map snd (snd (table_run known tbl next specs)) = invoked known specs.
Proof. split; [apply table_run_replies|apply table_run_invoked]. Qed.

(* the two-party allocation of Bridge.v is the n = 2 instance *)
Lemma alloc2_is_allocN sched : forall next na nb a b n,
  alloc2 next na nb sched = (a, b, n) ->
  allocN next [na; nb] (map (fun w : bool => if w then 0%nat else 1%nat) sched) = ([a; b], n).
Proof.
  induction sched as [|w s IH]; intros next na nb a b n H; cbn [alloc2] in H.
  - injection H as <- <- <-. cbn [map allocN rest_alloc]. reflexivity.
  - cbn [map allocN]. destruct w.
    + destruct na as [|na']; cbn [dec_nth].
      * now apply IH.
      * destruct (alloc2 (N.succ next) na' nb s) as [[a' b'] n'] eqn:E. injection H as <- <- <-.
        rewrite (IH _ _ _ _ _ _ E). reflexivity.
    + destruct nb as [|nb']; cbn [dec_nth].
      * now apply IH.
      * destruct (alloc2 (N.succ next) na nb' s) as [[a' b'] n'] eqn:E. injection H as <- <- <-.
        rewrite (IH _ _ _ _ _ _ E). reflexivity.
Qed.
