(* Proofs about http/HttpChan.v: for every label sequence (every interleaving of
   Send / Do-returns / Recv / Close and the library's own steps) the channel
   leaks neither goroutines nor response bodies once Close has returned, and
   every reply is consumed exactly once in the right way. *)
From Coq Require Import List NArith ZArith Bool Arith Lia.
From JV Require Import HttpChan.
Import ListNotations.

(** * Lists of goroutines *)
Fixpoint sum (f : gstate -> nat) (l : list gstate) : nat :=
  match l with [] => 0 | g :: t => f g + sum f t end.

Lemma sum_app f a b : sum f (a ++ b) = sum f a + sum f b.
Proof. induction a as [|g a IH]; cbn; [reflexivity|]. rewrite IH. lia. Qed.

Lemma sum_upd f l j old g : nth_error l j = Some old -> sum f (upd j g l) + f old = sum f l + f g.
Proof.
  revert j; induction l as [|x l IH]; intros [|j]; cbn; try discriminate.
  - intros [= ->]. lia.
  - intros H. specialize (IH j H). lia.
Qed.

Lemma sum_ge f l j g : nth_error l j = Some g -> f g <= sum f l.
Proof.
  revert j; induction l as [|x l IH]; intros [|j]; cbn; try discriminate.
  - intros [= ->]. lia.
  - intros H. specialize (IH j H). lia.
Qed.

Lemma nth_error_upd_same l j old g : nth_error l j = Some old -> nth_error (upd j g l) j = Some g.
Proof.
  revert j; induction l as [|x l IH]; intros [|j]; cbn; try discriminate; auto.
Qed.

Lemma nth_error_upd_other l j k g : j <> k -> nth_error (upd j g l) k = nth_error l k.
Proof.
  revert j k; induction l as [|x l IH]; intros [|j] [|k] H; cbn; auto; try congruence.
Qed.

Lemma length_upd l j g : length (upd j g l) = length l.
Proof. revert j; induction l as [|x l IH]; intros [|j]; cbn; auto. Qed.

Definition live1 (g : gstate) : nat := match g with Done _ _ => 0 | _ => 1 end.
Definition hbody1 (g : gstate) : nat := match g with Holding r => has_body r | _ => 0 end.

Lemma sum_live_zero l : sum live1 l = 0 ->
  sum hbody1 l = 0 /\ forallb is_done l = true /\
  forall j g, nth_error l j = Some g -> exists r d, g = Done r d.
Proof.
  induction l as [|x l IH]; cbn.
  - intros _. repeat split; auto. intros [|j] g; discriminate.
  - intros H. destruct x as [|r|r d]; cbn in H; try lia.
    destruct (IH H) as (A & B & C). repeat split; auto.
    intros [|j] g; cbn; [intros [= <-]; eauto|apply C].
Qed.

Lemma sum_live_pos l : sum live1 l > 0 ->
  exists j, nth_error l j = Some Doing \/ exists r, nth_error l j = Some (Holding r).
Proof.
  induction l as [|x l IH]; cbn; [lia|].
  destruct x as [|r|r d]; cbn.
  - intros _. exists 0. left; reflexivity.
  - intros _. exists 0. right; exists r; reflexivity.
  - intros H. destruct (IH H) as [j Hj]. exists (S j). exact Hj.
Qed.

(** * The state invariant (fields = what the history implies) *)
Definition sinv (s : state) : Prop :=
  wg s = sum live1 (gs s) /\
  opened s = closedb s + sum hbody1 (gs s) /\
  (match phase s with CRspClosed | CReturned => sum live1 (gs s) = 0 | _ => True end) /\
  (forall j r, nth_error (gs s) j = Some (Holding r) -> is204 r = false).

Lemma sinv_init : sinv init.
Proof. repeat split; auto. intros [|j] r; discriminate. Qed.

Lemma holding_preserved l j k g r :
  (forall j r, nth_error l j = Some (Holding r) -> is204 r = false) ->
  (forall r', g = Holding r' -> is204 r' = false) ->
  nth_error (upd k g l) j = Some (Holding r) -> is204 r = false.
Proof.
  intros H Hg E. destruct (Nat.eq_dec k j) as [->|N].
  - destruct (nth_error l j) as [old|] eqn:O.
    + rewrite (nth_error_upd_same _ _ _ _ O) in E. injection E as ->. apply Hg; reflexivity.
    + assert (nth_error (upd j g l) j = None).
      { apply nth_error_None. rewrite length_upd. apply nth_error_None. exact O. }
      congruence.
  - rewrite nth_error_upd_other in E by exact N. eapply H; eauto.
Qed.

Lemma step_sinv s l s' : sinv s -> step s l = Some s' -> sinv s'.
Proof.
  intros I St. pose proof I as (Hw & Hb & Hp & Hh).
  unfold step in St. destruct l as [| |j r|j| | |j| |]; cbn in St.
  - (* HSend *)
    destruct (phase s) eqn:P; try discriminate. injection St as <-. unfold sinv; cbn.
    rewrite !sum_app; cbn. repeat split; try lia.
    intros j r E. destruct (Nat.lt_ge_cases j (length (gs s))) as [L|L].
    + rewrite nth_error_app1 in E by exact L. eapply Hh; eauto.
    + rewrite nth_error_app2 in E by exact L. destruct (j - length (gs s)) as [|[|n]]; cbn in E; discriminate.
  - (* HSendClosed *)
    destruct (phase s); try discriminate; injection St as <-; exact I.
  - (* HDo *)
    destruct (nth_error (gs s) j) as [[|r0|r0 d0]|] eqn:E; try discriminate.
    pose proof (sum_upd live1 _ _ _ (if is204 r then Done r DAck else Holding r) E) as L.
    pose proof (sum_upd hbody1 _ _ _ (if is204 r then Done r DAck else Holding r) E) as B.
    assert (Pos : sum live1 (gs s) > 0) by (pose proof (sum_ge live1 _ _ _ E); cbn in *; lia).
    destruct (is204 r) eqn:R; injection St as <-; unfold sinv, with_g; cbn in *.
    + assert (phase s <> CRspClosed /\ phase s <> CReturned) as [N1 N2]
          by (split; intros X; rewrite X in Hp; lia).
      repeat split; try lia.
      * destruct (phase s); try congruence; auto.
      * intros k r' X. eapply holding_preserved; [exact Hh| |exact X]. discriminate.
    + assert (phase s <> CRspClosed /\ phase s <> CReturned) as [N1 N2]
          by (split; intros X; rewrite X in Hp; lia).
      repeat split; try lia.
      * destruct (phase s); try congruence; auto.
      * intros k r' X. eapply holding_preserved; [exact Hh| |exact X]. intros r'' [= <-]. exact R.
  - (* HRecv *)
    destruct (nth_error (gs s) j) as [[|r0|r0 d0]|] eqn:E; try discriminate.
    pose proof (sum_upd live1 _ _ _ (Done r0 DRecv) E) as L.
    pose proof (sum_upd hbody1 _ _ _ (Done r0 DRecv) E) as B.
    injection St as <-; unfold sinv, with_g; cbn in *.
    assert (phase s <> CRspClosed /\ phase s <> CReturned) as [N1 N2]
        by (split; intros X; rewrite X in Hp; lia).
    repeat split; try lia.
    + destruct (phase s); try congruence; auto.
    + intros k r' X. eapply holding_preserved; [exact Hh| |exact X]. discriminate.
  - (* HRecvEOF *)
    destruct (phase s); try discriminate; injection St as <-; exact I.
  - (* HClose *)
    destruct (phase s) eqn:P; try discriminate. injection St as <-. unfold sinv; cbn. repeat split; auto.
  - (* HDrain *)
    destruct (phase s) eqn:P; try discriminate.
    destruct (nth_error (gs s) j) as [[|r0|r0 d0]|] eqn:E; try discriminate.
    pose proof (sum_upd live1 _ _ _ (Done r0 DDrained) E) as L.
    pose proof (sum_upd hbody1 _ _ _ (Done r0 DDrained) E) as B.
    injection St as <-; unfold sinv, with_g; cbn in *. rewrite P.
    repeat split; try lia.
    intros k r' X. eapply holding_preserved; [exact Hh| |exact X]. discriminate.
  - (* HRspClose *)
    destruct (phase s) eqn:P; try discriminate. destruct (wg s) eqn:W; try discriminate.
    injection St as <-. unfold sinv; cbn. repeat split; auto; lia.
  - (* HCloseDone *)
    destruct (phase s) eqn:P; try discriminate. injection St as <-. unfold sinv; cbn. repeat split; auto.
Qed.

Lemma run_app f s a b :
  run_cfg f s (a ++ b) = match run_cfg f s a with Some s' => run_cfg f s' b | None => None end.
Proof.
  revert s; induction a as [|l a IH]; intros s; cbn; [reflexivity|].
  destruct (step_cfg f s l); [apply IH|reflexivity].
Qed.

Lemma run_snoc tr l s' :
  run init (tr ++ [l]) = Some s' -> exists s, run init tr = Some s /\ step s l = Some s'.
Proof.
  unfold run. rewrite run_app. destruct (run_cfg true init tr) as [s|]; [|discriminate].
  cbn. fold (step s l). destruct (step s l) as [s''|] eqn:St; [|discriminate]. intros [= <-].
  exists s. split; [reflexivity|exact St].
Qed.

Lemma run_sinv tr s : run init tr = Some s -> sinv s.
Proof.
  revert s; induction tr as [|l tr IH] using rev_ind; intros s.
  - intros [= <-]. apply sinv_init.
  - intros H. apply run_snoc in H as (s0 & R & St). eapply step_sinv; eauto.
Qed.

(** * What the trace says about each goroutine *)
Fixpoint dos (j : nat) (tr : list label) : list dores :=
  match tr with
  | [] => []
  | HDo k r :: t => if k =? j then r :: dos j t else dos j t
  | _ :: t => dos j t
  end.

Definition is_recv (j : nat) (l : label) : bool := match l with HRecv k => k =? j | _ => false end.
Definition is_drain (j : nat) (l : label) : bool := match l with HDrain k => k =? j | _ => false end.
Definition is_send (l : label) : bool := match l with HSend => true | _ => false end.
Definition countl (p : label -> bool) (tr : list label) : nat := length (filter p tr).
Definition n_recv (j : nat) (tr : list label) : nat := countl (is_recv j) tr.    (* Recv calls that returned goroutine j's reply *)
Definition n_drain (j : nat) (tr : list label) : nat := countl (is_drain j) tr.  (* times Close's loop took it *)
Definition n_send (tr : list label) : nat := countl is_send tr.                 (* successful Sends = goroutines started *)

Lemma countl_app p a b : countl p (a ++ b) = countl p a + countl p b.
Proof. unfold countl. rewrite filter_app, app_length. reflexivity. Qed.

Lemma dos_app j a b : dos j (a ++ b) = dos j a ++ dos j b.
Proof.
  induction a as [|l a IH]; cbn; [reflexivity|].
  destruct l; auto. destruct (j0 =? j); cbn; rewrite IH; reflexivity.
Qed.

(* does label l concern goroutine j? *)
Definition about (j : nat) (l : label) : bool :=
  match l with HDo k _ | HRecv k | HDrain k => k =? j | _ => false end.

Lemma not_about j l tr : about j l = false ->
  dos j (tr ++ [l]) = dos j tr /\ n_recv j (tr ++ [l]) = n_recv j tr /\ n_drain j (tr ++ [l]) = n_drain j tr.
Proof.
  intros H. unfold n_recv, n_drain. rewrite dos_app, !countl_app.
  destruct l; cbn in *; try rewrite H; cbn; rewrite ?app_nil_r; repeat split; lia.
Qed.

Definition gfact (tr : list label) (j : nat) (o : option gstate) : Prop :=
  match o with
  | None | Some Doing => dos j tr = [] /\ n_recv j tr = 0 /\ n_drain j tr = 0
  | Some (Holding r) => dos j tr = [r] /\ is204 r = false /\ n_recv j tr = 0 /\ n_drain j tr = 0
  | Some (Done r DAck) => dos j tr = [r] /\ is204 r = true /\ n_recv j tr = 0 /\ n_drain j tr = 0
  | Some (Done r DRecv) => dos j tr = [r] /\ is204 r = false /\ n_recv j tr = 1 /\ n_drain j tr = 0
  | Some (Done r DDrained) => dos j tr = [r] /\ is204 r = false /\ n_recv j tr = 0 /\ n_drain j tr = 1
  end.

Definition tinv (tr : list label) (s : state) : Prop :=
  length (gs s) = n_send tr /\ forall j, gfact tr j (nth_error (gs s) j).

Lemma gfact_skip tr l j o : about j l = false -> gfact tr j o -> gfact (tr ++ [l]) j o.
Proof.
  intros H. destruct (not_about j l tr H) as (A & B & C). unfold gfact. rewrite A, B, C. auto.
Qed.

Lemma n_send_snoc tr l : n_send (tr ++ [l]) = n_send tr + (if is_send l then 1 else 0).
Proof. unfold n_send. rewrite countl_app. unfold countl at 2. cbn. destruct (is_send l); reflexivity. Qed.

(* a step that rewrites goroutine k and is the only label about k *)
Lemma tinv_upd tr s l k old g dopen dclose dn :
  tinv tr s -> nth_error (gs s) k = Some old -> is_send l = false ->
  (forall j, j <> k -> about j l = false) ->
  gfact (tr ++ [l]) k (Some g) ->
  tinv (tr ++ [l]) (with_g s k g dopen dclose dn).
Proof.
  intros [Hl Hf] E Hs Ho Hk. split.
  - cbn. rewrite length_upd, n_send_snoc, Hs. lia.
  - intros j. cbn. destruct (Nat.eq_dec k j) as [<-|N].
    + rewrite (nth_error_upd_same _ _ _ _ E). exact Hk.
    + rewrite nth_error_upd_other by exact N. apply gfact_skip; [apply Ho; congruence|apply Hf].
Qed.

Lemma tinv_same tr s l s' :
  tinv tr s -> gs s' = gs s -> is_send l = false -> (forall j, about j l = false) -> tinv (tr ++ [l]) s'.
Proof.
  intros [Hl Hf] E Hs Ho. split.
  - rewrite E, n_send_snoc, Hs. lia.
  - intros j. rewrite E. apply gfact_skip; auto.
Qed.

Lemma step_tinv tr s l s' : tinv tr s -> step s l = Some s' -> tinv (tr ++ [l]) s'.
Proof.
  intros T St. pose proof T as [Hl Hf].
  unfold step in St. destruct l as [| |k r|k| | |k| |]; cbn in St.
  - (* HSend *)
    destruct (phase s); try discriminate. injection St as <-. split.
    + cbn. rewrite app_length, n_send_snoc. cbn. lia.
    + intros j. cbn. apply gfact_skip; [reflexivity|].
      destruct (Nat.lt_ge_cases j (length (gs s))) as [L|L].
      * rewrite nth_error_app1 by exact L. apply Hf.
      * rewrite nth_error_app2 by exact L. specialize (Hf j).
        assert (N : nth_error (gs s) j = None) by (apply nth_error_None; exact L).
        rewrite N in Hf. destruct (j - length (gs s)) as [|[|n]]; cbn; exact Hf.
  - destruct (phase s); try discriminate; injection St as <-; eapply tinv_same; eauto.
  - (* HDo *)
    destruct (nth_error (gs s) k) as [[|r0|r0 d0]|] eqn:E; try discriminate.
    pose proof (Hf k) as Fk. rewrite E in Fk. cbn in Fk. destruct Fk as (D & R & Dr).
    assert (D' : dos k (tr ++ [HDo k r]) = [r]) by (rewrite dos_app, D; cbn; rewrite Nat.eqb_refl; reflexivity).
    assert (R' : n_recv k (tr ++ [HDo k r]) = 0) by (unfold n_recv; rewrite countl_app; fold (n_recv k tr); rewrite R; reflexivity).
    assert (Dr' : n_drain k (tr ++ [HDo k r]) = 0) by (unfold n_drain; rewrite countl_app; fold (n_drain k tr); rewrite Dr; reflexivity).
    destruct (is204 r) eqn:R2; injection St as <-.
    + eapply tinv_upd; eauto. { intros j N; cbn. apply Nat.eqb_neq; congruence. } cbn; auto.
    + eapply tinv_upd; eauto. { intros j N; cbn. apply Nat.eqb_neq; congruence. } cbn; auto.
  - (* HRecv *)
    destruct (nth_error (gs s) k) as [[|r0|r0 d0]|] eqn:E; try discriminate.
    pose proof (Hf k) as Fk. rewrite E in Fk. cbn in Fk. destruct Fk as (D & R2 & R & Dr).
    assert (D' : dos k (tr ++ [HRecv k]) = [r0]) by (rewrite dos_app, D; reflexivity).
    assert (R' : n_recv k (tr ++ [HRecv k]) = 1).
    { unfold n_recv; rewrite countl_app; fold (n_recv k tr); rewrite R. unfold countl; cbn. rewrite Nat.eqb_refl. reflexivity. }
    assert (Dr' : n_drain k (tr ++ [HRecv k]) = 0) by (unfold n_drain; rewrite countl_app; fold (n_drain k tr); rewrite Dr; reflexivity).
    injection St as <-. eapply tinv_upd; eauto. { intros j N; cbn. apply Nat.eqb_neq; congruence. } cbn; auto.
  - destruct (phase s); try discriminate; injection St as <-; eapply tinv_same; eauto.
  - destruct (phase s); try discriminate; injection St as <-; eapply tinv_same; eauto.
  - (* HDrain *)
    destruct (phase s); try discriminate.
    destruct (nth_error (gs s) k) as [[|r0|r0 d0]|] eqn:E; try discriminate.
    pose proof (Hf k) as Fk. rewrite E in Fk. cbn in Fk. destruct Fk as (D & R2 & R & Dr).
    assert (D' : dos k (tr ++ [HDrain k]) = [r0]) by (rewrite dos_app, D; reflexivity).
    assert (R' : n_recv k (tr ++ [HDrain k]) = 0) by (unfold n_recv; rewrite countl_app; fold (n_recv k tr); rewrite R; reflexivity).
    assert (Dr' : n_drain k (tr ++ [HDrain k]) = 1).
    { unfold n_drain; rewrite countl_app; fold (n_drain k tr); rewrite Dr. unfold countl; cbn. rewrite Nat.eqb_refl. reflexivity. }
    injection St as <-. eapply tinv_upd; eauto. { intros j N; cbn. apply Nat.eqb_neq; congruence. } cbn; auto.
  - destruct (phase s); try discriminate. destruct (wg s); try discriminate.
    injection St as <-; eapply tinv_same; eauto.
  - destruct (phase s); try discriminate; injection St as <-; eapply tinv_same; eauto.
Qed.

Lemma run_tinv tr s : run init tr = Some s -> tinv tr s.
Proof.
  revert s; induction tr as [|l tr IH] using rev_ind; intros s.
  - intros [= <-]. split; [reflexivity|]. intros [|j]; cbn; auto.
  - intros H. apply run_snoc in H as (s0 & R & St). eapply step_tinv; eauto.
Qed.

(** * Close returned *)
Lemma step_returned s l s' : phase s = CReturned -> step s l = Some s' -> phase s' = CReturned.
Proof.
  intros P St. unfold step in St. destruct l; cbn in St; rewrite ?P in St; try discriminate.
  - injection St as <-; exact P.
  - destruct (nth_error (gs s) j) as [[| |]|]; try discriminate.
    destruct (is204 r); injection St as <-; exact P.
  - destruct (nth_error (gs s) j) as [[| |]|]; try discriminate. injection St as <-; exact P.
  - injection St as <-; exact P.
Qed.

Lemma run_returned_from s tr s' :
  run s tr = Some s' -> phase s = CReturned \/ In HCloseDone tr -> phase s' = CReturned.
Proof.
  revert s; induction tr as [|l tr IH]; intros s; cbn.
  - intros [= <-] [H|[]]; exact H.
  - unfold run; cbn. fold (step s l). destruct (step s l) as [s1|] eqn:St; [|discriminate].
    intros R H. apply (IH s1 R). destruct H as [H|[->|H]]; auto.
    + left. eapply step_returned; eauto.
    + left. unfold step in St; cbn in St. destruct (phase s); try discriminate. injection St as <-; reflexivity.
Qed.

Lemma close_done_phase tr s : run init tr = Some s -> In HCloseDone tr -> phase s = CReturned.
Proof. intros R H. eapply run_returned_from; eauto. Qed.

(* The property: for ALL label sequences, once Close has returned
   - no goroutine is left (all Done, wg = 0), every opened body is closed;
   - there is one goroutine per successful Send, each saw exactly one Do result;
   - a 204 reply was consumed by the goroutine itself: no Recv and no drain ever took it;
   - every other reply (or Do error) was taken exactly once: by one Recv, or by the drain loop. *)
Theorem chan_no_leak tr s :
  run init tr = Some s -> In HCloseDone tr ->
  no_leak s = true /\
  length (gs s) = n_send tr /\
  (forall j g, nth_error (gs s) j = Some g -> exists r d, g = Done r d) /\
  forall j, j < n_send tr ->
    exists r, dos j tr = [r] /\
      if is204 r then n_recv j tr = 0 /\ n_drain j tr = 0
      else n_recv j tr + n_drain j tr = 1.
Proof.
  intros R H. pose proof (close_done_phase _ _ R H) as P.
  destruct (run_sinv _ _ R) as (Hw & Hb & Hp & _). rewrite P in Hp.
  destruct (sum_live_zero _ Hp) as (B0 & AD & Dn).
  destruct (run_tinv _ _ R) as [Hl Hf].
  split; [|split; [exact Hl|split; [exact Dn|]]].
  - unfold no_leak. rewrite AD. cbn.
    assert (opened s = closedb s) as -> by lia. rewrite Nat.eqb_refl.
    assert (wg s = 0) as -> by lia. reflexivity.
  - intros j Hj. rewrite <- Hl in Hj.
    destruct (nth_error (gs s) j) as [g|] eqn:E; [|apply nth_error_None in E; lia].
    destruct (Dn _ _ E) as (r & d & ->). specialize (Hf j). rewrite E in Hf. cbn in Hf.
    exists r. destruct d; destruct Hf as (D & R2 & A & B); rewrite R2; split; auto; lia.
Qed.

(* At every reachable state (closed or not): bodies opened = bodies closed + bodies
   held by goroutines waiting for a receiver; nobody is taken twice; a 204 is never
   handed to Recv or to the drain loop. *)
Theorem chan_accounting tr s :
  run init tr = Some s ->
  opened s = closedb s + sum hbody1 (gs s) /\ wg s = sum live1 (gs s) /\
  forall j, n_recv j tr + n_drain j tr <= 1 /\
            (forall r, In r (dos j tr) -> is204 r = true -> n_recv j tr + n_drain j tr = 0) /\
            length (dos j tr) <= 1.
Proof.
  intros R. destruct (run_sinv _ _ R) as (Hw & Hb & _ & _). destruct (run_tinv _ _ R) as [_ Hf].
  repeat split; auto; specialize (Hf j); destruct (nth_error (gs s) j) as [[|r0|r0 []]|]; cbn in Hf;
    try (destruct Hf as (D & A & B)); try (destruct B as (B & C)); try lia;
    try (rewrite D; cbn; lia); try (rewrite D; intros r [<-|[]] X; congruence);
    try (rewrite D; intros r []).
Qed.

(* Close can always finish: while it has not returned, either some goroutine is
   still inside cli.Do (the HTTP client owes an answer) or one of the library's own
   steps is enabled. *)
Lemma holding_from_in l i j :
  In j (holding_from i l) <-> exists r, i <= j /\ nth_error l (j - i) = Some (Holding r).
Proof.
  revert i; induction l as [|g l IH]; intros i; cbn.
  - split; [intros []|]. intros (r & _ & H). destruct (j - i); discriminate.
  - assert (Tail : In j (holding_from (S i) l) <-> exists r, S i <= j /\ nth_error l (j - S i) = Some (Holding r))
      by apply IH.
    assert (Shift : forall r, i < j -> (nth_error (g :: l) (j - i) = Some (Holding r) <-> nth_error l (j - S i) = Some (Holding r))).
    { intros r L. replace (j - i) with (S (j - S i)) by lia. reflexivity. }
    destruct g as [|r0|r0 d0]; cbn.
    + rewrite Tail. split.
      * intros (r & L & H). exists r. split; [lia|]. apply Shift; [lia|exact H].
      * intros (r & L & H). destruct (Nat.eq_dec i j) as [<-|N].
        -- rewrite Nat.sub_diag in H. discriminate.
        -- exists r. split; [lia|]. apply Shift; [lia|exact H].
    + rewrite Tail. split.
      * intros [<-|(r & L & H)].
        -- exists r0. split; [lia|]. rewrite Nat.sub_diag. reflexivity.
        -- exists r. split; [lia|]. apply Shift; [lia|exact H].
      * intros (r & L & H). destruct (Nat.eq_dec i j) as [<-|N]; [left; reflexivity|right].
        exists r. split; [lia|]. apply Shift; [lia|exact H].
    + rewrite Tail. split.
      * intros (r & L & H). exists r. split; [lia|]. apply Shift; [lia|exact H].
      * intros (r & L & H). destruct (Nat.eq_dec i j) as [<-|N].
        -- rewrite Nat.sub_diag in H. discriminate.
        -- exists r. split; [lia|]. apply Shift; [lia|exact H].
Qed.

Theorem close_progress tr s :
  run init tr = Some s -> phase s = CDraining \/ phase s = CRspClosed ->
  (exists j, nth_error (gs s) j = Some Doing) \/
  exists l s', In l (enabled_internal s) /\ step s l = Some s'.
Proof.
  intros R [P|P]; destruct (run_sinv _ _ R) as (Hw & _ & _ & _).
  - unfold enabled_internal. rewrite P. destruct (wg s) eqn:W.
    + right. exists HRspClose. eexists. split; [left; reflexivity|].
      unfold step; cbn. rewrite P, W. reflexivity.
    + assert (Pos : sum live1 (gs s) > 0) by lia.
      destruct (sum_live_pos _ Pos) as [j [H|[r H]]]; [left; eauto|right].
      exists (HDrain j). eexists. split.
      * apply in_map. unfold holding_ix. apply holding_from_in. exists r. split; [lia|].
        rewrite Nat.sub_0_r. exact H.
      * unfold step; cbn. rewrite P, H. reflexivity.
  - right. exists HCloseDone. eexists. unfold enabled_internal. rewrite P. split; [left; reflexivity|].
    unfold step; cbn. rewrite P. reflexivity.
Qed.

(* Without fix F11 (the drain loop discards responses without closing them): one
   call whose reply is still queued when Close runs leaves its body open. *)
Definition f11_witness : list label :=
  [HSend; HDo 0 (DoStatus 200); HClose; HDrain 0; HRspClose; HCloseDone].

Theorem refuted_without_F11 :
  exists s, run_cfg false init f11_witness = Some s /\ In HCloseDone f11_witness /\
            opened s = 1 /\ closedb s = 0 /\ no_leak s = false.
Proof. eexists. split; [vm_compute; reflexivity|]. split; [cbn; tauto|]. repeat split. Qed.

(** * Non-vacuity *)
(* three Sends: a notification (204), a call received normally, a call drained by
   Close while a fourth request fails in Do and is drained as well *)
Example ex_trace : list label :=
  [HSend; HSend; HDo 0 (DoStatus 204); HDo 1 (DoStatus 200); HRecv 1; HSend; HSend;
   HDo 2 (DoStatus 500); HClose; HSendClosed; HDrain 2; HDo 3 DoErr; HDrain 3; HRspClose; HRecvEOF; HCloseDone].
Example ex_trace_runs : exists s, run init ex_trace = Some s /\ In HCloseDone ex_trace /\
                                  no_leak s = true /\ opened s = 3 /\ closedb s = 3 /\ n_send ex_trace = 4.
Proof. eexists. split; [vm_compute; reflexivity|]. split; [cbn; tauto|]. repeat split. Qed.
Example ex_same_trace_with_F11_off_leaks :
  exists s, run_cfg false init ex_trace = Some s /\ opened s = 3 /\ closedb s = 2.
Proof. eexists. split; [vm_compute; reflexivity|]. split; reflexivity. Qed.
Example ex_progress_nonvacuous :
  exists s, run init [HSend; HDo 0 (DoStatus 200); HClose] = Some s /\ phase s = CDraining /\
            enabled_internal s = [HDrain 0].
Proof. eexists. split; [vm_compute; reflexivity|]. split; reflexivity. Qed.
(* Close cannot return while a request is still inside cli.Do *)
Example ex_close_waits : run init [HSend; HClose; HRspClose] = None /\ run init [HSend; HClose; HCloseDone] = None.
Proof. split; vm_compute; reflexivity. Qed.
(* a 204 cannot be received, a reply cannot be received twice *)
Example ex_no_double : run init [HSend; HDo 0 (DoStatus 204); HRecv 0] = None /\
                       run init [HSend; HDo 0 (DoStatus 200); HRecv 0; HRecv 0] = None.
Proof. split; vm_compute; reflexivity. Qed.

(** * The channel as seen by a client while it is open (part of "same results as
      over a direct connection"): as long as Close has not been called, nothing is
      drained, and once every request goroutine has returned, every reply that is
      not an empty 204 acknowledgement has been returned by exactly one Recv and
      no 204 by any -- i.e. Recv yields exactly the non-empty replies, each once,
      in some order. *)
Lemma step_open s l s' : phase s = COpen -> l <> HClose -> step s l = Some s' ->
  phase s' = COpen /\ forall j, is_drain j l = false.
Proof.
  intros P NC St. unfold step in St. destruct l; cbn in St; rewrite ?P in St; try discriminate; try congruence.
  - injection St as <-. split; [reflexivity|]. intros; reflexivity.
  - destruct (nth_error (gs s) j) as [[| |]|]; try discriminate.
    destruct (is204 r); injection St as <-; (split; [exact P|intros; reflexivity]).
  - destruct (nth_error (gs s) j) as [[| |]|]; try discriminate. injection St as <-.
    split; [exact P|intros; reflexivity].
Qed.

Lemma open_no_drain tr s : run init tr = Some s -> ~ In HClose tr ->
  phase s = COpen /\ forall j, n_drain j tr = 0.
Proof.
  revert s; induction tr as [|l tr IH] using rev_ind; intros s.
  - intros [= <-] _. split; reflexivity.
  - intros H NI. apply run_snoc in H as (s0 & R & St).
    assert (NI0 : ~ In HClose tr) by (intros X; apply NI; apply in_or_app; left; exact X).
    assert (NL : l <> HClose) by (intros ->; apply NI; apply in_or_app; right; left; reflexivity).
    destruct (IH s0 R NI0) as [P0 D0]. destruct (step_open _ _ _ P0 NL St) as [P1 D1].
    split; [exact P1|]. intros j. unfold n_drain. rewrite countl_app. fold (n_drain j tr). rewrite D0.
    unfold countl; cbn. rewrite D1. reflexivity.
Qed.

Theorem chan_delivers_all tr s :
  run init tr = Some s -> ~ In HClose tr -> forallb is_done (gs s) = true ->
  forall j, j < n_send tr ->
    exists r, dos j tr = [r] /\ n_drain j tr = 0 /\ n_recv j tr = (if is204 r then 0 else 1).
Proof.
  intros R NC AD j Hj. destruct (open_no_drain _ _ R NC) as [_ ND].
  destruct (run_tinv _ _ R) as [Hl Hf]. rewrite <- Hl in Hj.
  destruct (nth_error (gs s) j) as [g|] eqn:E; [|apply nth_error_None in E; lia].
  assert (Dg : is_done g = true).
  { rewrite forallb_forall in AD. apply AD. eapply nth_error_In; eauto. }
  destruct g as [|r|r d]; try discriminate. specialize (Hf j). rewrite E in Hf. cbn in Hf.
  exists r. specialize (ND j).
  destruct d; destruct Hf as (D & R2 & A & B); rewrite R2; repeat split; auto; lia.
Qed.

Example ex_delivers_all_nonvacuous :
  exists s, run init [HSend; HSend; HDo 1 (DoStatus 200); HDo 0 (DoStatus 204); HSend; HRecv 1; HDo 2 DoErr; HRecv 2] = Some s /\
            forallb is_done (gs s) = true /\ phase s = COpen.
Proof. eexists. split; [vm_compute; reflexivity|]. split; reflexivity. Qed.

(** * Close waits for every Send (explicit form of the mechanism behind chan_no_leak).
      In the model HSend appends the goroutine AND increments wg in one label
      (Go: c.wg.Add(1) executed by Send itself, before the go statement), so the
      closer's wg.Wait cannot pass while any goroutine started by an accepted Send
      has not returned: from the moment c.rsp is closed -- a fortiori once Close has
      returned -- every accepted Send has a goroutine, that goroutine made its round
      trip (exactly one Do result) and is Done; none is Doing or Holding. *)
Theorem close_waits_for_every_send tr s :
  run init tr = Some s -> phase s = CRspClosed \/ phase s = CReturned ->
  wg s = 0 /\ length (gs s) = n_send tr /\
  forall j, j < n_send tr ->
    exists r d, nth_error (gs s) j = Some (Done r d) /\ dos j tr = [r].
Proof.
  intros R P. destruct (run_sinv _ _ R) as (Hw & _ & Hp & _).
  assert (Z : sum live1 (gs s) = 0) by (destruct P as [P|P]; rewrite P in Hp; exact Hp).
  destruct (sum_live_zero _ Z) as (_ & _ & Dn). destruct (run_tinv _ _ R) as [Hl Hf].
  split; [lia|]. split; [exact Hl|]. intros j Hj. rewrite <- Hl in Hj.
  destruct (nth_error (gs s) j) as [g|] eqn:E; [|apply nth_error_None in E; lia].
  destruct (Dn _ _ E) as (r & d & ->). exists r, d. split; [reflexivity|].
  specialize (Hf j). rewrite E in Hf. cbn in Hf. destruct d; tauto.
Qed.

(* c.rsp is closed only when the WaitGroup counter is zero, and the counter is the
   number of request goroutines that have not returned -- at every reachable state *)
Theorem rsp_closed_only_when_idle tr s s' :
  run init tr = Some s -> step s HRspClose = Some s' ->
  wg s = 0 /\ forall j g, nth_error (gs s) j = Some g -> exists r d, g = Done r d.
Proof.
  intros R St. destruct (run_sinv _ _ R) as (Hw & _ & _ & _).
  unfold step in St; cbn in St. destruct (phase s); try discriminate.
  destruct (wg s) eqn:W; [|discriminate]. split; [reflexivity|].
  assert (Z : sum live1 (gs s) = 0) by lia. destruct (sum_live_zero _ Z) as (_ & _ & Dn). exact Dn.
Qed.

(* a Close that is called right after k Sends, before any round trip has been made,
   cannot return: neither the closer nor the drain loop has an enabled step *)
Example ex_close_right_after_sends :
  exists s, run init [HSend; HSend; HClose] = Some s /\ enabled_internal s = [] /\
            step s HRspClose = None /\ step s HCloseDone = None /\ wg s = 2.
Proof. eexists. split; [vm_compute; reflexivity|]. repeat split. Qed.
