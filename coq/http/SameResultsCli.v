(* SameResultsCli: "a Client over jhttp.Channel against a Bridge observes the same results as
   over a direct connection", for the CLIENT MODEL (coq/cli/CliModel.v) -- no abstract client.

   Setting.  [htr] is a label sequence of the jhttp.Channel model (HttpChan.v): the channel stays
   open and every request goroutine has returned.  Round trip j (the j-th Send) came back with
   [do_result htr j]; [body j] is what jmessages.parseJSON makes of the body of that HTTP response.
   What Recv hands to the client for round trip j is [feed_of body (j, r)]: the parsed body for a
   200, a transport error for any other status or for a failed cli.Do (channel.go Recv).
   Over the channel the client is fed [map (feed_of body) (recv_stream htr)]: the replies in the
   order the HTTP responses were handed to Recv (any order); over a direct connection to a peer
   that answers the same request records with the same reply records, in request order, it is fed
   [map (feed_of body) (direct_stream htr)].

   [same_results_streams]: two runs of the client model (ANY two configurations and schedules) whose
   fed records are these two streams, in which operation n put the same ids on its request, did not
   have its context ended and the client did not stop: if n returned in both, it returned the same
   value (Call: the same result / error; Batch: the same list of responses).

   The one thing needed of the peer is that no id is answered twice in the reply stream
   ([NoDup (stream_ids ...)]).  [replies_answer_own_requests] states what the Bridge guarantees
   (C18, c18_own_responses): the reply record of round trip j answers exactly the ids of the request
   record it carried, the request record of one operation of the client; distinct round trips carry
   the records of distinct operations.  With the client's own id discipline (c04_ids_fresh: the
   invariant inv1) this gives the NoDup: [own_requests_nodup].
   SameResultsBridge.v discharges [replies_answer_own_requests] for bodies computed by the Bridge
   model from the request records of the client model. *)
From Coq Require Import List NArith ZArith Bool Arith Lia Permutation.
From JV Require Import HttpChan HttpChanProofs SameResults.
From JV Require Import Bytes Msg CliModel CliLemmas CliInv CliProofs CliCtx CliOps CliHist CliSend CliFed.
Import ListNotations.

(** * lists *)
Lemma nodup_map_inj {A B} (g : A -> B) l x y :
  NoDup (map g l) -> In x l -> In y l -> g x = g y -> x = y.
Proof.
  induction l as [|a l IH]; cbn; intros ND Hx Hy E; [destruct Hx|].
  inversion ND as [|b r Hn ND']; subst.
  destruct Hx as [->|Hx], Hy as [->|Hy]; auto.
  - exfalso. apply Hn. rewrite E. apply in_map; auto.
  - exfalso. apply Hn. rewrite <- E. apply in_map; auto.
Qed.

Lemma list_eq_by_keys {K V} (l1 l2 : list (K * V)) :
  map fst l1 = map fst l2 ->
  (forall k v1 v2, In (k, v1) l1 -> In (k, v2) l2 -> v1 = v2) ->
  l1 = l2.
Proof.
  revert l2; induction l1 as [|[k1 v1] l1 IH]; intros [|[k2 v2] l2]; cbn; intros E H; try discriminate; auto.
  injection E as -> E. f_equal.
  - f_equal. apply (H k2); left; reflexivity.
  - apply IH; auto. intros k a b Ha Hb. apply (H k); right; auto.
Qed.

(** * the records fed to the client along a label sequence *)
Definition feed_of_label (l : CliModel.label) : list feed := match l with LFeed f => [f] | _ => [] end.
Definition feeds (tr : list CliModel.label) : list feed := flat_map feed_of_label tr.

Lemma fed_feeds tr : fed tr = flat_map feed_msgs (feeds tr).
Proof.
  unfold fed, feeds. induction tr as [|l tr IH]; cbn; auto.
  rewrite flat_map_app, <- IH. destruct l; cbn; auto. rewrite app_nil_r. reflexivity.
Qed.

(** * the ids answered by a reply stream *)
Definition is_reply (m : jmsg) : bool := negb (is_req_or_notif m).
(* the id under which deliverLocked looks a reply-shaped member up *)
Definition rid (m : jmsg) : bytes := fix_id (j_id m).
Definition reply_ids (ms : list jmsg) : list bytes := map rid (filter is_reply ms).
Definition stream_ids (recs : list (list jmsg)) : list bytes := flat_map reply_ids recs.

Lemma stream_ids_concat recs : stream_ids recs = map rid (filter is_reply (concat recs)).
Proof.
  unfold stream_ids. induction recs as [|ms recs IH]; cbn; auto.
  rewrite filter_app, map_app, IH. reflexivity.
Qed.

(* if no id is answered twice, every id has one payload *)
Lemma one_answer recs (f : jmsg -> res1) key : NoDup (stream_ids recs) ->
  exists a, forall ms m, In ms recs -> In m ms -> is_req_or_notif m = false -> rid m = key -> f m = a.
Proof.
  intros ND. rewrite stream_ids_concat in ND. set (L := filter is_reply (concat recs)) in *.
  assert (HL : forall ms m, In ms recs -> In m ms -> is_req_or_notif m = false -> In m L).
  { intros ms m H1 H2 H3. apply filter_In. split; [apply in_concat; eauto|]. unfold is_reply. rewrite H3. reflexivity. }
  destruct (find (fun m => beq (rid m) key) L) as [m0|] eqn:F.
  - destruct (find_some _ _ F) as [H0 E0]. apply beq_eq in E0. exists (f m0).
    intros ms m H1 H2 H3 H4. f_equal. apply (nodup_map_inj rid L); auto; [eapply HL; eauto|congruence].
  - exists (RRes []). intros ms m H1 H2 H3 H4. exfalso.
    assert (Hf := find_none _ _ F m (HL _ _ H1 H2 H3)). cbn in Hf. rewrite H4, beq_refl in Hf. discriminate.
Qed.

(** * the client model returns the same values for any two orders of a reply stream *)
Lemma peer_members_fed c tr s m : traces_to c tr s -> In m (peer_members s) -> exists ms, In ms (fed tr) /\ In m ms.
Proof.
  intros T Hin. destruct (delivered_are_fed c tr s T) as [E _].
  unfold peer_members in Hin. apply in_flat_map in Hin. destruct Hin as (d & H1 & H2).
  exists (d_msgs d). split; auto. rewrite E. apply in_or_app. left. apply in_map; auto.
Qed.

Lemma answers_of_fed c tr s key f a : traces_to c tr s ->
  (forall ms m, In ms (fed tr) -> In m ms -> is_req_or_notif m = false -> rid m = key -> f m = a) ->
  answers s key f a.
Proof.
  intros T H. unfold answers. apply Forall_forall. intros m Hin Hr Hk.
  destruct (peer_members_fed c tr s m T Hin) as (ms & H1 & H2). eapply H; eauto.
Qed.

Lemma batch_keys c tr s n rs : traces_to c tr s -> In (ORet n (RetBatch rs)) (hist s) -> map fst rs = op_ids s n.
Proof.
  intros T Hin. destruct (reply_is_peers c tr s T) as [_ RB]. destruct (RB n rs Hin) as (o & Ho & _ & F).
  unfold op_ids. rewrite Ho. clear Ho Hin. induction F as [|i p sls rs' (sl & v & e & Hs & _ & _ & ->) F IH]; cbn; auto.
  rewrite IH. unfold slot_text. rewrite Hs. reflexivity.
Qed.

Lemma call_key c tr s n r : traces_to c tr s -> In (ORet n (RetCall r)) (hist s) -> exists key, hd_error (op_ids s n) = Some key.
Proof.
  intros T Hin. destruct (reply_is_peers c tr s T) as [RC _].
  destruct (RC n r Hin) as (o & i & rest & sl & v & e & Ho & _ & Es & _).
  unfold op_ids. rewrite Ho, Es. cbn. eauto.
Qed.

(* Two runs of the client model, any two configurations and schedules.  The records fed in the second are among the
   records fed in the first (e.g. a permutation of them), and the first stream answers no id twice.  An operation n
   that carried the same ids in both, whose context did not end and whose client did not stop, returned the same. *)
Theorem same_results_any_order c1 tr1 s1 c2 tr2 s2 :
  traces_to c1 tr1 s1 -> traces_to c2 tr2 s2 ->
  (forall ms, In ms (fed tr2) -> In ms (fed tr1)) ->
  NoDup (stream_ids (fed tr1)) ->
  forall n o1 o2, op_at s1 n = Some o1 -> op_at s2 n = Some o2 ->
    o_ctx o1 = None -> o_ctx o2 = None -> err s1 = None -> err s2 = None ->
    op_ids s1 n = op_ids s2 n ->
    (forall r1 r2, In (ORet n (RetCall r1)) (hist s1) -> In (ORet n (RetCall r2)) (hist s2) -> r1 = r2)
    /\ (forall rs1 rs2, In (ORet n (RetBatch rs1)) (hist s1) -> In (ORet n (RetBatch rs2)) (hist s2) -> rs1 = rs2).
Proof.
  intros T1 T2 Sub ND n o1 o2 Ho1 Ho2 Hc1 Hc2 He1 He2 Ids.
  destruct (order_irrelevant c1 tr1 s1 c2 tr2 s2 T1 T2 n o1 o2 Ho1 Ho2 Hc1 Hc2 He1 He2) as [OC OB].
  split.
  - intros r1 r2 R1 R2. destruct (call_key _ _ _ _ _ T1 R1) as (key & K1).
    assert (K2 : hd_error (op_ids s2 n) = Some key) by (rewrite <- Ids; exact K1).
    destruct (one_answer (fed tr1) member_res key ND) as (a & Ha).
    apply (OC key a r1 r2 K1 K2); auto.
    + eapply answers_of_fed; eauto.
    + eapply answers_of_fed; eauto.
  - intros rs1 rs2 R1 R2. apply list_eq_by_keys.
    + rewrite (batch_keys _ _ _ _ _ T1 R1), (batch_keys _ _ _ _ _ T2 R2). exact Ids.
    + intros key r1 r2 I1 I2. destruct (one_answer (fed tr1) member_bres key ND) as (a & Ha).
      apply (OB rs1 rs2 key a r1 r2 R1 R2 I1 I2).
      * eapply answers_of_fed; eauto.
      * eapply answers_of_fed; eauto.
Qed.

(** * the two reply streams of a jhttp.Channel run *)
(* what Recv hands to the client for one round trip (channel.go Recv) *)
Definition feed_of (body : nat -> inbound) (p : reply) : feed :=
  match recv_result (snd p) with
  | RecvData => FMsg (body (fst p))
  | RecvBadStatus | RecvDoErr => FErr SCOther
  end.

(* over jhttp.Channel / over a direct connection whose peer answers in request order *)
Definition http_feeds (body : nat -> inbound) (htr : list HttpChan.label) : list feed := map (feed_of body) (recv_stream htr).
Definition direct_feeds (body : nat -> inbound) (htr : list HttpChan.label) : list feed := map (feed_of body) (direct_stream htr).

Definition recs_of (fs : list feed) : list (list jmsg) := flat_map feed_msgs fs.

Lemma recs_perm body htr hs :
  HttpChan.run HttpChan.init htr = Some hs -> ~ In HClose htr -> forallb is_done (gs hs) = true ->
  Permutation (recs_of (http_feeds body htr)) (recs_of (direct_feeds body htr)).
Proof.
  intros R NC AD. destruct (recv_is_permutation_of_direct _ _ R NC AD) as (P & _).
  unfold recs_of, http_feeds, direct_feeds.
  apply Permutation_flat_map. apply Permutation_map. exact P.
Qed.

(* THE CLIENT MODEL OVER THE TWO STREAMS.  [tr1]: a run of the client model fed what jhttp.Channel's Recv yields;
   [tr2]: a run fed what a direct connection yields.  Any configurations, any schedules of callers, reader,
   delivery goroutines and watchers in either. *)
Theorem same_results_streams body htr hs c1 tr1 s1 c2 tr2 s2 :
  HttpChan.run HttpChan.init htr = Some hs -> ~ In HClose htr -> forallb is_done (gs hs) = true ->
  traces_to c1 tr1 s1 -> traces_to c2 tr2 s2 ->
  feeds tr1 = http_feeds body htr -> feeds tr2 = direct_feeds body htr ->
  NoDup (stream_ids (recs_of (http_feeds body htr))) ->
  forall n o1 o2, op_at s1 n = Some o1 -> op_at s2 n = Some o2 ->
    o_ctx o1 = None -> o_ctx o2 = None -> err s1 = None -> err s2 = None ->
    op_ids s1 n = op_ids s2 n ->
    (forall r1 r2, In (ORet n (RetCall r1)) (hist s1) -> In (ORet n (RetCall r2)) (hist s2) -> r1 = r2)
    /\ (forall rs1 rs2, In (ORet n (RetBatch rs1)) (hist s1) -> In (ORet n (RetBatch rs2)) (hist s2) -> rs1 = rs2).
Proof.
  intros R NC AD T1 T2 F1 F2 ND.
  assert (P := recs_perm body htr hs R NC AD).
  apply (same_results_any_order c1 tr1 s1 c2 tr2 s2 T1 T2).
  - intros ms Hin. rewrite fed_feeds, F1. rewrite fed_feeds, F2 in Hin.
    eapply Permutation_in; [apply Permutation_sym; exact P|exact Hin].
  - rewrite fed_feeds, F1. exact ND.
Qed.

(** * what the Bridge guarantees, and why it makes the ids of the reply stream distinct *)
Definition body_msgs (i : inbound) : list jmsg := match i with InMsgs _ ms => ms | InBad => [] end.

(* [s]: the client over the channel.  Round trip j carried the request record of one operation [sender j] of
   the client (Send is called once per operation, by its LRelSend), distinct round trips those of distinct
   operations; if it came back 200, the reply-shaped members of its body carry exactly the ids of that
   operation's requests, in order (C18: c18_own_responses, see SameResultsBridge.v). *)
Definition replies_answer_own_requests (s : CliModel.state) (htr : list HttpChan.label) (body : nat -> inbound) : Prop :=
  exists sender : nat -> nat,
    (forall j j', j < n_send htr -> j' < n_send htr -> sender j = sender j' -> j = j')
    /\ (forall j, j < n_send htr -> do_result htr j = DoStatus 200 ->
          reply_ids (body_msgs (body j)) = op_ids s (sender j)).

Lemma nodup_app {A} (a b : list A) : NoDup a -> NoDup b -> (forall x, In x a -> ~ In x b) -> NoDup (a ++ b).
Proof.
  induction a as [|x a IH]; cbn; intros Na Nb D; auto. inversion Na as [|y r Hn Na']; subst. constructor.
  - rewrite in_app_iff. intros [H|H]; [auto|]. apply (D x); auto.
  - apply IH; auto; intros y Hy; apply D; right; auto.
Qed.

Lemma nodup_flat_map {A B} (g : A -> list B) L :
  NoDup L -> (forall j, In j L -> NoDup (g j)) ->
  (forall j j' x, In j L -> In j' L -> In x (g j) -> In x (g j') -> j = j') ->
  NoDup (flat_map g L).
Proof.
  induction L as [|j L IH]; cbn; intros ND Hg Hd; [constructor|]. inversion ND as [|y r Hn ND']; subst.
  apply nodup_app.
  - apply Hg; auto.
  - apply IH; auto. intros a b x Ha Hb. apply Hd; auto.
  - intros x Hx Hin. apply in_flat_map in Hin. destruct Hin as (j' & Hj' & Hx').
    assert (j = j') by (apply (Hd j j' x); auto). subst j'. auto.
Qed.

(* the client's ids: one operation's ids are pairwise distinct, two operations share none (inv1: c04_ids_fresh) *)
Lemma op_ids_in s n x : inv1 s -> In x (op_ids s n) ->
  exists o i sl, op_at s n = Some o /\ In i (o_slots o) /\ slot_at s i = Some sl /\ sl_op sl = n /\ x = id_text (S i).
Proof.
  intros [I _] Hin. unfold op_ids in Hin. destruct (op_at s n) as [o|] eqn:Ho; [|destruct Hin].
  apply in_map_iff in Hin. destruct Hin as (i & <- & Hi).
  destruct (i_own _ I _ _ _ Ho Hi) as (sl & Hs & Hop). exists o, i, sl. splits; auto.
  unfold slot_text. rewrite Hs, (i_ids _ I _ _ Hs). reflexivity.
Qed.

Lemma op_ids_nodup s n : inv1 s -> NoDup (op_ids s n).
Proof.
  intros I. assert (Iw := proj1 I). unfold op_ids. destruct (op_at s n) as [o|] eqn:Ho; [|constructor].
  assert (ND := i_nd _ Iw _ _ Ho).
  assert (Ex : forall i, In i (o_slots o) -> slot_text s i = id_text (S i)).
  { intros i Hi. destruct (i_own _ Iw _ _ _ Ho Hi) as (sl & Hs & _). unfold slot_text. rewrite Hs, (i_ids _ Iw _ _ Hs). reflexivity. }
  induction (o_slots o) as [|i sls IH]; cbn; [constructor|]. inversion ND as [|y r Hn ND']; subst. constructor.
  - intros Hin. apply in_map_iff in Hin. destruct Hin as (i' & E & Hi').
    rewrite (Ex i), (Ex i') in E by (cbn; auto). apply id_text_inj in E. injection E as ->. auto.
  - apply IH; auto. intros i' Hi'. apply Ex. right; auto.
Qed.

Lemma op_ids_disjoint s n n' x : inv1 s -> In x (op_ids s n) -> In x (op_ids s n') -> n = n'.
Proof.
  intros I H1 H2.
  destruct (op_ids_in _ _ _ I H1) as (o & i & sl & _ & _ & Hs & Hop & ->).
  destruct (op_ids_in _ _ _ I H2) as (o' & i' & sl' & _ & _ & Hs' & Hop' & E).
  apply id_text_inj in E. injection E as ->. congruence.
Qed.

Lemma recs_of_http body htr :
  recs_of (http_feeds body htr) = flat_map (fun j => feed_msgs (feed_of body (reply_of htr j))) (recvd htr).
Proof.
  unfold recs_of, http_feeds, recv_stream. rewrite map_map, flat_map_concat_map, map_map, <- flat_map_concat_map. reflexivity.
Qed.

Lemma stream_ids_flat {A} (g : A -> list (list jmsg)) L :
  stream_ids (flat_map g L) = flat_map (fun j => stream_ids (g j)) L.
Proof. unfold stream_ids. induction L as [|j L IH]; cbn; auto. rewrite flat_map_app, IH. reflexivity. Qed.

Lemma recv_200 r : recv_result r = RecvData -> r = DoStatus 200.
Proof.
  destruct r as [c|]; cbn; [|discriminate]. destruct (Z.eqb_spec c 200); [congruence|discriminate].
Qed.

(* the ids of the reply stream are pairwise distinct *)
Theorem own_requests_nodup c tr s htr hs body :
  traces_to c tr s ->
  HttpChan.run HttpChan.init htr = Some hs -> ~ In HClose htr -> forallb is_done (gs hs) = true ->
  replies_answer_own_requests s htr body ->
  NoDup (stream_ids (recs_of (http_feeds body htr))).
Proof.
  intros T R NC AD (sender & Inj & Own).
  assert (I : inv1 s) by (apply (inv1_reach c), (traces_reach c tr); exact T).
  rewrite recs_of_http, stream_ids_flat.
  assert (Lt : forall j, In j (recvd htr) -> j < n_send htr).
  { intros j Hj. apply (recvd_in _ _ R NC AD) in Hj. apply filter_In in Hj. destruct Hj as [Hj _]. apply in_seq in Hj. lia. }
  assert (Sub : forall j x, In j (recvd htr) -> In x (stream_ids (feed_msgs (feed_of body (reply_of htr j)))) ->
                           stream_ids (feed_msgs (feed_of body (reply_of htr j))) = op_ids s (sender j)).
  { intros j x Hj Hx. unfold feed_of, reply_of in *. cbn [fst snd] in *.
    destruct (recv_result (do_result htr j)) eqn:Er; cbn in Hx; try contradiction.
    apply recv_200 in Er. rewrite <- (Own j (Lt j Hj) Er).
    destruct (body j) as [|b ms]; cbn in *; [contradiction|]. rewrite app_nil_r. reflexivity. }
  apply nodup_flat_map.
  - eapply recvd_nodup; eauto.
  - intros j Hj. destruct (stream_ids (feed_msgs (feed_of body (reply_of htr j)))) as [|x l] eqn:E; [constructor|].
    rewrite <- E. rewrite (Sub j x Hj) by (rewrite E; left; reflexivity). apply op_ids_nodup; auto.
  - intros j j' x Hj Hj' Hx Hx'. apply Inj; auto.
    rewrite (Sub j x Hj Hx) in Hx. rewrite (Sub j' x Hj' Hx') in Hx'. eapply op_ids_disjoint; eauto.
Qed.

(* THE COMPOSITION: client model over jhttp.Channel, whose reply records answer their own request records,
   against the client model over a direct connection delivering the same reply records in request order. *)
Theorem same_results_cli body htr hs c1 tr1 s1 c2 tr2 s2 :
  HttpChan.run HttpChan.init htr = Some hs -> ~ In HClose htr -> forallb is_done (gs hs) = true ->
  traces_to c1 tr1 s1 -> traces_to c2 tr2 s2 ->
  feeds tr1 = http_feeds body htr -> feeds tr2 = direct_feeds body htr ->
  replies_answer_own_requests s1 htr body ->
  forall n o1 o2, op_at s1 n = Some o1 -> op_at s2 n = Some o2 ->
    o_ctx o1 = None -> o_ctx o2 = None -> err s1 = None -> err s2 = None ->
    op_ids s1 n = op_ids s2 n ->
    (forall r1 r2, In (ORet n (RetCall r1)) (hist s1) -> In (ORet n (RetCall r2)) (hist s2) -> r1 = r2)
    /\ (forall rs1 rs2, In (ORet n (RetBatch rs1)) (hist s1) -> In (ORet n (RetBatch rs2)) (hist s2) -> rs1 = rs2).
Proof.
  intros R NC AD T1 T2 F1 F2 Own.
  apply (same_results_streams body htr hs c1 tr1 s1 c2 tr2 s2 R NC AD T1 T2 F1 F2).
  exact (own_requests_nodup c1 tr1 s1 htr hs body T1 R NC AD Own).
Qed.

(** * non-vacuity *)
(* two calls (ids "1", "2"); the HTTP responses are handed to Recv in the reverse order; the client over the channel
   is fed the reply for "2" first and delivers in yet another order, the client over the direct connection is fed
   them in request order; a third round trip is a notification's 204 and never reaches Recv *)
Definition exc_htr : list HttpChan.label :=
  [HSend; HSend; HSend; HDo 1 (DoStatus 200); HDo 2 (DoStatus 204); HDo 0 (DoStatus 200); HRecv 1; HRecv 0].
Definition exc_body (j : nat) : inbound :=
  match j with 0 => InMsgs false [ex_reply [49%N] [55%N]] | 1 => InMsgs false [ex_reply [50%N] [56%N]] | _ => InBad end.
Definition exc_ops : list CliModel.label :=
  [LOp 0 KCall [ex_spec 49]; LOp 1 KCall [ex_spec 50]; LOp 2 KNotify [ex_nspec]; LRelReq 0; LRelReq 1; LRelSend 0; LRelSend 1; LRelSend 2].
Definition exc_tr_http : list CliModel.label :=
  exc_ops ++ [LFeed (FMsg (exc_body 1)); LFeed (FMsg (exc_body 0)); LRelDeliver 1; LRelDeliver 0].
Definition exc_tr_direct : list CliModel.label :=
  exc_ops ++ [LFeed (FMsg (exc_body 0)); LRelDeliver 0; LFeed (FMsg (exc_body 1)); LRelDeliver 1].

Example same_results_cli_nonvacuous :
  exists hs s1 s2 o1 o2,
    HttpChan.run HttpChan.init exc_htr = Some hs /\ ~ In HClose exc_htr /\ forallb is_done (gs hs) = true
    /\ traces_to ex_cfg exc_tr_http s1 /\ traces_to ex_cfg exc_tr_direct s2
    /\ feeds exc_tr_http = http_feeds exc_body exc_htr /\ feeds exc_tr_direct = direct_feeds exc_body exc_htr
    /\ http_feeds exc_body exc_htr <> direct_feeds exc_body exc_htr
    /\ replies_answer_own_requests s1 exc_htr exc_body
    /\ stream_ids (recs_of (http_feeds exc_body exc_htr)) = [[50%N]; [49%N]]
    /\ (forall ms, In ms (fed exc_tr_direct) -> In ms (fed exc_tr_http))
    /\ op_at s1 1 = Some o1 /\ op_at s2 1 = Some o2 /\ o_ctx o1 = None /\ o_ctx o2 = None
    /\ err s1 = None /\ err s2 = None /\ op_ids s1 1 = op_ids s2 1
    /\ In (ORet 1 (RetCall (RRes [56%N]))) (hist s1) /\ In (ORet 1 (RetCall (RRes [56%N]))) (hist s2)
    /\ In (ORet 2 RetNotify) (hist s1).
Proof.
  destruct (HttpChan.run HttpChan.init exc_htr) as [hs|] eqn:Eh; [|revert Eh; vm_compute; discriminate].
  destruct (run (init_of ex_cfg) exc_tr_http) as [[s1 oss1]|] eqn:E1; [|revert E1; vm_compute; discriminate].
  destruct (run (init_of ex_cfg) exc_tr_direct) as [[s2 oss2]|] eqn:E2; [|revert E2; vm_compute; discriminate].
  exists hs, s1, s2. revert Eh E1 E2. vm_compute. intros Eh E1 E2. injection Eh as <-. injection E1 as <- <-. injection E2 as <- <-.
  do 2 eexists. split; [reflexivity|]. split; [intros H; repeat (destruct H as [H|H]; [discriminate|]); exact H|].
  split; [reflexivity|]. split; [eexists; reflexivity|]. split; [eexists; reflexivity|].
  split; [reflexivity|]. split; [reflexivity|]. split; [discriminate|].
  split.
  { exists (fun j => j). split; [auto|]. intros j Hj Hd. destruct j as [|[|[|j]]]; try reflexivity; try discriminate; try lia. }
  split; [reflexivity|].
  split; [intros ms [<-|[<-|[]]]; auto|].
  repeat (split; [reflexivity|]). repeat split; auto 12.
Qed.
