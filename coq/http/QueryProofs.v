(* Proofs about http/Query.v: the typing rules of ParseQuery as iff
   characterisations on the byte string, marshalability, method names, getter
   status.  Restated in props/C19.v. *)
From Coq Require Import List NArith ZArith Bool Lia Arith.
From JV Require Import Bytes QStr Query.
Import ListNotations.
Local Open Scope N_scope.

(** * Ends of a string *)
Lemma unsnoc_none s : unsnoc s = None <-> s = [].
Proof.
  destruct s as [|x r]; cbn; [tauto|].
  destruct (unsnoc r) as [[m b]|]; split; discriminate.
Qed.

Lemma unsnoc_some s m b : unsnoc s = Some (m, b) <-> s = m ++ [b].
Proof.
  revert m b; induction s as [|x r IH]; intros m b; cbn.
  - split; [discriminate|]. destruct m; discriminate.
  - destruct (unsnoc r) as [[m' b']|] eqn:E.
    + split.
      * intros [= <- <-]. cbn. f_equal. apply IH; reflexivity.
      * intros H. destruct m as [|y m]; cbn in H.
        -- injection H as -> ->. cbn in E. discriminate.
        -- injection H as -> H. apply IH in H. injection H as -> ->. reflexivity.
    + apply unsnoc_none in E; subst r. split.
      * intros [= <- <-]; reflexivity.
      * intros H. destruct m as [|y m]; cbn in H.
        -- injection H as ->; reflexivity.
        -- injection H as _ H. destruct m; discriminate.
Qed.

Lemma quoted_spec q s m : quoted q s = Some m <-> s = q :: m ++ [q].
Proof.
  unfold quoted. destruct s as [|a r]; [split; discriminate|].
  destruct (unsnoc r) as [[m' b]|] eqn:E.
  - apply unsnoc_some in E; subst r.
    destruct (N.eqb_spec a q) as [->|Na]; cbn.
    + destruct (N.eqb_spec b q) as [->|Nb]; cbn.
      * split; [intros [= ->]; reflexivity|]. intros [= H]. apply app_inj_tail in H as [-> _]; reflexivity.
      * split; [discriminate|]. intros [= H]. apply app_inj_tail in H as [_ ->]; congruence.
    + split; [discriminate|]. intros [= -> _]; congruence.
  - apply unsnoc_none in E; subst r. split; [discriminate|]. intros [= _ H]. destruct m; discriminate.
Qed.

Definition starts_with (q : N) (s : bytes) : Prop := exists r, s = q :: r.
Definition ends_with (q : N) (s : bytes) : Prop := exists m, s = m ++ [q].
(* len(s) >= 2, first and last byte are q *)
Definition enclosed (q : N) (s inner : bytes) : Prop := s = q :: inner ++ [q].

Lemma touches_spec q s : touches q s = true <-> starts_with q s \/ ends_with q s.
Proof.
  unfold touches, starts_with, ends_with. destruct s as [|a r].
  - split; [discriminate|]. intros [[r H]|[m H]]; [discriminate|destruct m; discriminate].
  - rewrite orb_true_iff, N.eqb_eq. destruct (unsnoc r) as [[m b]|] eqn:E.
    + apply unsnoc_some in E; subst r. rewrite N.eqb_eq. split.
      * intros [-> | ->]; [left; eauto|right; exists (a :: m); reflexivity].
      * intros [[r0 E0]|[m' H]]; [left; injection E0 as -> _; reflexivity|right].
        change (a :: m ++ [b]) with ((a :: m) ++ [b]) in H. apply app_inj_tail in H as [_ ->]; reflexivity.
    + apply unsnoc_none in E; subst r. split.
      * intros [-> | H]; [left; eauto|discriminate].
      * intros [[r0 E0]|[m' H]]; [left; injection E0 as -> _; reflexivity|left].
        destruct m' as [|y m']; cbn in H; [congruence|]. injection H as _ H. destruct m'; discriminate.
Qed.

Lemma touches_in q s : touches q s = true -> In q s.
Proof.
  intros H. apply touches_spec in H as [[r ->]|[m ->]]; [left; reflexivity|].
  apply in_or_app; right; left; reflexivity.
Qed.

Lemma quoted_touches q s m : quoted q s = Some m -> touches q s = true.
Proof. intros H. apply quoted_spec in H. apply touches_spec. left. exists (m ++ [q]). exact H. Qed.

Lemma enclosed_not_touch q q' s inner : enclosed q s inner -> q <> q' -> touches q' s = false.
Proof.
  intros -> Hq. destruct (touches q' (q :: inner ++ [q])) eqn:E; [|reflexivity].
  apply touches_spec in E as [[r E0]|[m H]]; [injection E0 as E0 _; congruence|].
  change (q :: inner ++ [q]) with ((q :: inner) ++ [q]) in H. apply app_inj_tail in H as [_ H]; congruence.
Qed.

(** * The two quoted forms share one shape *)
Definition qparse (q : N) (f : bytes -> option bytes) (s : bytes) : tri :=
  match quoted q s with
  | Some inner => match f inner with Some v => TOk v | None => TErr end
  | None => if touches q s then TErr else TNo
  end.

Lemma pjs_qparse s : parse_json_string s = qparse 34 unq s.
Proof. reflexivity. Qed.
Lemma pq64_qparse s : parse_quoted64 s = qparse 39 (fun i => b64_decode (trim_right 61 i)) s.
Proof. reflexivity. Qed.

Lemma qparse_no q f s : qparse q f s = TNo <-> touches q s = false.
Proof.
  unfold qparse. destruct (quoted q s) as [m|] eqn:E.
  - rewrite (quoted_touches _ _ _ E). destruct (f m); split; discriminate.
  - destruct (touches q s); split; congruence.
Qed.

Lemma qparse_ok q f s v : qparse q f s = TOk v <-> exists inner, enclosed q s inner /\ f inner = Some v.
Proof.
  unfold qparse, enclosed. destruct (quoted q s) as [m|] eqn:E.
  - apply quoted_spec in E. destruct (f m) as [v'|] eqn:U; split.
    + intros [= <-]; eauto.
    + intros (inner & H & U'). rewrite E in H. injection H as H. apply app_inj_tail in H as [-> _]. congruence.
    + discriminate.
    + intros (inner & H & U'). rewrite E in H. injection H as H. apply app_inj_tail in H as [-> _]. congruence.
  - split; [destruct (touches q s); discriminate|].
    intros (inner & H & _). apply quoted_spec in H. congruence.
Qed.

Lemma qparse_err q f s : qparse q f s = TErr <->
  (exists inner, enclosed q s inner /\ f inner = None) \/
  ((starts_with q s \/ ends_with q s) /\ ~ exists inner, enclosed q s inner).
Proof.
  unfold qparse, enclosed. destruct (quoted q s) as [m|] eqn:E.
  - apply quoted_spec in E. destruct (f m) as [v'|] eqn:U; split.
    + discriminate.
    + intros [(inner & H & U')|[_ H]].
      * rewrite E in H. injection H as H. apply app_inj_tail in H as [-> _]. congruence.
      * exfalso; apply H; eauto.
    + intros _; left; eauto.
    + reflexivity.
  - rewrite <- touches_spec. destruct (touches q s); split; try discriminate; try reflexivity.
    + intros _. right. split; [reflexivity|]. intros (inner & H). apply quoted_spec in H. congruence.
    + intros [(inner & H & _)|[H _]]; [apply quoted_spec in H; congruence|discriminate].
Qed.

(** * Numerals *)
Definition is_numch (c : N) : bool := is_digit c || (c =? 43) || (c =? 45) || (c =? 46).

Definition sign_of (sg : bytes) (neg : bool) : Prop :=
  (sg = [] /\ neg = false) \/ (sg = [43] /\ neg = false) \/ (sg = [45] /\ neg = true).

Definition all_digits (d : bytes) : Prop := forallb is_digit d = true.

(* s is an optionally signed, non-empty digit string denoting z *)
Definition IntNumeral (s : bytes) (z : Z) : Prop :=
  exists sg neg d, s = sg ++ d /\ sign_of sg neg /\ d <> [] /\ all_digits d /\
                   z = (if neg then - dec_val 0 d else dec_val 0 d)%Z.

(* s is [+-]? ip [ . fp ]  with at least one digit in ip, fp *)
Definition frac_text (frac : option bytes) : bytes := match frac with Some f => 46 :: f | None => [] end.
Definition frac_digits (frac : option bytes) : bytes := match frac with Some f => f | None => [] end.
Definition DecNumeral (s ip : bytes) (frac : option bytes) : Prop :=
  exists sg neg, s = sg ++ ip ++ frac_text frac /\ sign_of sg neg /\
                 all_digits ip /\ all_digits (frac_digits frac) /\ ip ++ frac_digits frac <> [].

Definition in_int64 (z : Z) : Prop := (int64_min <= z <= int64_max)%Z.

Lemma digit_not_sign c : is_digit c = true -> (c =? 43) = false /\ (c =? 45) = false /\ (c =? 46) = false.
Proof.
  unfold is_digit. rewrite andb_true_iff, !N.leb_le. intros [H1 H2].
  repeat split; apply N.eqb_neq; lia.
Qed.

Lemma split_sign_digits d : d <> [] -> all_digits d -> split_sign d = (false, d).
Proof.
  destruct d as [|c r]; [congruence|]. intros _ H. unfold all_digits in H; cbn in H.
  apply andb_true_iff in H as [H _]. apply digit_not_sign in H as (H1 & H2 & _).
  unfold split_sign. rewrite H1, H2. reflexivity.
Qed.

Lemma split_sign_cases s :
  (exists r, s = 43 :: r /\ split_sign s = (false, r)) \/
  (exists r, s = 45 :: r /\ split_sign s = (true, r)) \/
  (split_sign s = (false, s) /\ ~ starts_with 43 s /\ ~ starts_with 45 s).
Proof.
  destruct s as [|c r]; cbn.
  - right; right. repeat split; intros [r H]; discriminate.
  - destruct (N.eqb_spec c 43) as [->|N1]; [left; eauto|].
    destruct (N.eqb_spec c 45) as [->|N2]; [right; left; eauto|].
    right; right. repeat split; intros [r' E0]; injection E0 as E0 _; congruence.
Qed.

Lemma split_sign_app sg neg b :
  sign_of sg neg -> ~ starts_with 43 b -> ~ starts_with 45 b -> split_sign (sg ++ b) = (neg, b).
Proof.
  intros [[-> ->]|[[-> ->]|[-> ->]]] H1 H2; cbn; try reflexivity.
  destruct b as [|c r]; [reflexivity|]. cbn.
  destruct (N.eqb_spec c 43) as [->|_]; [exfalso; apply H1; eexists; reflexivity|].
  destruct (N.eqb_spec c 45) as [->|_]; [exfalso; apply H2; eexists; reflexivity|reflexivity].
Qed.

Lemma split_sign_inv s neg b :
  split_sign s = (neg, b) -> exists sg, s = sg ++ b /\ sign_of sg neg.
Proof.
  unfold sign_of.
  destruct (split_sign_cases s) as [(r & -> & E)|[(r & -> & E)|(E & _)]]; rewrite E; intros [= <- <-].
  - exists [43]; auto.
  - exists [45]; auto.
  - exists []; auto.
Qed.

(* parse_int64 *)
Lemma parse_int64_spec s z : parse_int64 s = Some z <-> IntNumeral s z /\ in_int64 z.
Proof.
  unfold parse_int64, IntNumeral, in_int64. split.
  - destruct (split_sign s) as [neg d] eqn:E. destruct d as [|c r] eqn:Ed; [discriminate|]. rewrite <- Ed in *.
    destruct (forallb is_digit d) eqn:F; [|discriminate].
    destruct ((int64_min <=? _)%Z && _) eqn:R; [|discriminate]. intros [= <-].
    apply andb_true_iff in R as [R1 R2]. apply Z.leb_le in R1, R2.
    apply split_sign_inv in E as (sg & -> & Hs). split; [|lia].
    exists sg, neg, d. repeat split; auto. congruence.
  - intros [(sg & neg & d & -> & Hs & Hd & Hf & ->) [R1 R2]].
    assert (E : split_sign (sg ++ d) = (neg, d)).
    { apply split_sign_app; auto; intros [r ->]; unfold all_digits in Hf; cbn in Hf; discriminate. }
    rewrite E. destruct d as [|c r] eqn:Ed; [congruence|]. rewrite <- Ed in *.
    unfold all_digits in Hf. rewrite Hf.
    apply Z.leb_le in R1, R2. rewrite R1, R2. reflexivity.
Qed.

Lemma IntNumeral_unique s z z' : IntNumeral s z -> IntNumeral s z' -> z = z'.
Proof.
  intros (sg & neg & d & -> & Hs & Hd & Hf & ->) (sg' & neg' & d' & E & Hs' & Hd' & Hf' & ->).
  assert (A : split_sign (sg ++ d) = (neg, d)).
  { apply split_sign_app; auto; intros [r ->]; unfold all_digits in Hf; cbn in Hf; discriminate. }
  assert (B : split_sign (sg' ++ d') = (neg', d')).
  { apply split_sign_app; auto; intros [r ->]; unfold all_digits in Hf'; cbn in Hf'; discriminate. }
  rewrite E in A. rewrite A in B. injection B as -> ->. reflexivity.
Qed.

(* count_dd *)
Lemma count_dd_digits d : all_digits d -> count_dd d = Some (length d, 0%nat).
Proof.
  unfold all_digits. induction d as [|c r IH]; cbn; [reflexivity|].
  rewrite andb_true_iff. intros [Hc Hr]. rewrite (IH Hr), Hc. reflexivity.
Qed.

Lemma count_dd_app a b da pa db pb :
  count_dd a = Some (da, pa) -> count_dd b = Some (db, pb) -> count_dd (a ++ b) = Some ((da + db)%nat, (pa + pb)%nat).
Proof.
  revert da pa; induction a as [|c r IH]; intros da pa; cbn.
  - intros [= <- <-] H; exact H.
  - destruct (count_dd r) as [[d p]|] eqn:E; [|discriminate]. intros H Hb.
    rewrite (IH d p eq_refl Hb).
    destruct (is_digit c); [injection H as <- <-; reflexivity|].
    destruct (c =? 46); [injection H as <- <-; reflexivity|discriminate].
Qed.

Lemma count_dd_nodot r d : count_dd r = Some (d, 0%nat) -> all_digits r /\ d = length r.
Proof.
  revert d; induction r as [|x r IH]; intros d E; cbn in *.
  - injection E as <-. split; reflexivity.
  - destruct (count_dd r) as [[d2 p2]|] eqn:C; [|discriminate].
    destruct (is_digit x) eqn:Hx.
    + injection E as <- ->. destruct (IH d2 eq_refl) as [A ->]. split; [|reflexivity].
      unfold all_digits in *; cbn; rewrite Hx; exact A.
    + destruct (x =? 46); discriminate.
Qed.

(* a string of digits and dots with at most one dot splits as ip [. fp] *)
Lemma count_dd_split b d p :
  count_dd b = Some (d, p) -> (p <= 1)%nat ->
  exists ip frac, b = ip ++ frac_text frac /\ all_digits ip /\ all_digits (frac_digits frac) /\
                  d = length (ip ++ frac_digits frac).
Proof.
  revert d p; induction b as [|c r IH]; intros d p; cbn.
  - intros [= <- <-] _. exists [], None. repeat split.
  - destruct (count_dd r) as [[d' p']|] eqn:E; [|discriminate].
    destruct (is_digit c) eqn:Hc.
    + intros [= <- <-] Hp. destruct (IH d' p' eq_refl Hp) as (ip & frac & -> & H1 & H2 & ->).
      exists (c :: ip), frac. repeat split; auto. unfold all_digits in *; cbn; rewrite Hc; exact H1.
    + destruct (N.eqb_spec c 46) as [->|_]; [|discriminate].
      intros [= <- <-] Hp. assert (p' = 0)%nat by lia. subst p'.
      assert (Hr : all_digits r /\ d' = length r) by (apply count_dd_nodot; exact E).
      destruct Hr as [Hr ->]. exists [], (Some r). repeat split; auto.
Qed.

Lemma is_decimal_spec s : is_decimal s = true <-> exists ip frac, DecNumeral s ip frac.
Proof.
  unfold is_decimal, DecNumeral. split.
  - destruct (split_sign s) as [neg b] eqn:E. cbn [snd].
    destruct (count_dd b) as [[d p]|] eqn:C; [|discriminate].
    rewrite andb_true_iff, Nat.ltb_lt, Nat.leb_le. intros [Hd Hp].
    destruct (count_dd_split _ _ _ C Hp) as (ip & frac & -> & H1 & H2 & ->).
    apply split_sign_inv in E as (sg & -> & Hs).
    exists ip, frac, sg, neg. repeat split; auto.
    intros H; rewrite H in Hd; cbn in Hd; lia.
  - intros (ip & frac & sg & neg & -> & Hs & H1 & H2 & Hn).
    assert (E : split_sign (sg ++ ip ++ frac_text frac) = (neg, ip ++ frac_text frac)).
    { apply split_sign_app; auto; intros [r H].
      - destruct ip as [|c ip]; cbn in H.
        + destruct frac; cbn in H; discriminate.
        + injection H as -> _. unfold all_digits in H1; cbn in H1; discriminate.
      - destruct ip as [|c ip]; cbn in H.
        + destruct frac; cbn in H; discriminate.
        + injection H as -> _. unfold all_digits in H1; cbn in H1; discriminate. }
    rewrite E; cbn [snd].
    assert (C : count_dd (frac_text frac) = Some (length (frac_digits frac), match frac with Some _ => 1 | None => 0 end)%nat).
    { destruct frac as [f|]; cbn; [|reflexivity]. cbn in H2. rewrite (count_dd_digits _ H2). reflexivity. }
    rewrite (count_dd_app _ _ _ _ _ _ (count_dd_digits _ H1) C).
    rewrite andb_true_iff, Nat.ltb_lt, Nat.leb_le. split.
    + rewrite <- app_length. destruct (ip ++ frac_digits frac); [congruence|cbn; lia].
    + destruct frac; lia.
Qed.

Lemma take_digits_app ip rest :
  all_digits ip -> (forall c r, rest = c :: r -> is_digit c = false) -> take_digits (ip ++ rest) = ip.
Proof.
  unfold all_digits. induction ip as [|c r IH]; cbn; intros H Hr.
  - destruct rest as [|c r]; [reflexivity|]. cbn. rewrite (Hr c r eq_refl). reflexivity.
  - apply andb_true_iff in H as [Hc H]. rewrite Hc. f_equal. apply IH; auto.
Qed.

Lemma DecNumeral_int_part s ip frac :
  DecNumeral s ip frac -> take_digits (snd (split_sign s)) = ip.
Proof.
  intros (sg & neg & -> & Hs & H1 & H2 & Hn).
  assert (E : split_sign (sg ++ ip ++ frac_text frac) = (neg, ip ++ frac_text frac)).
  { apply split_sign_app; auto; intros [r H].
    - destruct ip as [|c ip]; cbn in H.
      + destruct frac; cbn in H; discriminate.
      + injection H as -> _. unfold all_digits in H1; cbn in H1; discriminate.
    - destruct ip as [|c ip]; cbn in H.
      + destruct frac; cbn in H; discriminate.
      + injection H as -> _. unfold all_digits in H1; cbn in H1; discriminate. }
  rewrite E; cbn [snd]. apply take_digits_app; auto.
  intros c r H. destruct frac; cbn in H; [injection H as <- _; reflexivity|discriminate].
Qed.

Lemma DecNumeral_unique_ip s ip frac ip' frac' : DecNumeral s ip frac -> DecNumeral s ip' frac' -> ip = ip'.
Proof. intros A B. apply DecNumeral_int_part in A, B. congruence. Qed.

Lemma IntNumeral_Dec s z : IntNumeral s z -> exists d, DecNumeral s d None /\ Z.abs z = dec_val 0 d.
Proof.
  intros (sg & neg & d & -> & Hs & Hd & Hf & ->). exists d. split.
  - exists sg, neg. cbn. rewrite !app_nil_r. repeat split; auto.
  - assert (0 <= dec_val 0 d)%Z.
    { assert (G : forall a, (0 <= a)%Z -> (0 <= dec_val a d)%Z).
      { clear Hd. unfold all_digits in Hf. induction d as [|c r IH]; cbn; intros a Ha; [exact Ha|].
        cbn in Hf. apply andb_true_iff in Hf as [Hc Hr]. apply IH; auto.
        unfold is_digit in Hc. apply andb_true_iff in Hc as [H1 H2]. apply N.leb_le in H1, H2. lia. }
      apply G; lia. }
    destruct neg; lia.
Qed.

Lemma DecNumeral_None_Int s ip : DecNumeral s ip None -> exists z, IntNumeral s z.
Proof.
  intros (sg & neg & -> & Hs & H1 & _ & Hn). cbn in *. rewrite app_nil_r in *.
  eexists. exists sg, neg, ip. repeat split; auto.
Qed.

Lemma int64_below_bound z : in_int64 z -> (Z.abs z < float_overflow_bound)%Z.
Proof.
  unfold in_int64, int64_min, int64_max, float_overflow_bound. intros [H1 H2].
  assert (2 ^ 64 < 2 ^ 1024 - 2 ^ 970)%Z by (vm_compute; reflexivity). lia.
Qed.

(** * parse_number, characterised *)
Definition finite_dec (s : bytes) : Prop :=
  exists ip frac, DecNumeral s ip frac /\ (dec_val 0 ip < float_overflow_bound)%Z.

Lemma float_finite_spec s ip frac :
  DecNumeral s ip frac -> (float_finite s = true <-> (dec_val 0 ip < float_overflow_bound)%Z).
Proof. intros H. unfold float_finite. rewrite (DecNumeral_int_part _ _ _ H). apply Z.ltb_lt. Qed.

Lemma parse_number_int s z : parse_number true s = Some (QInt z) <-> IntNumeral s z /\ in_int64 z.
Proof.
  rewrite <- parse_int64_spec. unfold parse_number.
  destruct (parse_int64 s) as [z'|]; [split; congruence|].
  cbn [negb andb]. destruct (is_decimal s); [destruct (float_finite s)|]; split; discriminate.
Qed.

Lemma parse_number_float s t : parse_number true s = Some (QFloat t) <->
  t = s /\ finite_dec s /\ ~ (exists z, IntNumeral s z /\ in_int64 z).
Proof.
  unfold parse_number, finite_dec. destruct (parse_int64 s) as [z'|] eqn:P.
  - split; [discriminate|]. intros (_ & _ & H). exfalso; apply H. exists z'. apply parse_int64_spec; exact P.
  - cbn [negb andb]. assert (NI : ~ (exists z, IntNumeral s z /\ in_int64 z)).
    { intros [z H]. apply parse_int64_spec in H. congruence. }
    destruct (is_decimal s) eqn:D.
    + apply is_decimal_spec in D as (ip & frac & D).
      destruct (float_finite s) eqn:F.
      * split; [intros [= <-]; repeat split; auto|intros (-> & _); reflexivity].
        exists ip, frac; split; auto. apply (float_finite_spec _ _ _ D); exact F.
      * split; [discriminate|]. intros (_ & (ip' & frac' & D' & H) & _).
        apply (float_finite_spec _ _ _ D') in H. congruence.
    + split; [discriminate|]. intros (_ & (ip' & frac' & D' & _) & _).
      assert (is_decimal s = true) by (apply is_decimal_spec; eauto). congruence.
Qed.

Lemma parse_number_kind f s r : parse_number f s = Some r -> (exists z, r = QInt z) \/ r = QFloat s.
Proof.
  unfold parse_number. destruct (parse_int64 s); [intros [= <-]; eauto|].
  destruct (is_decimal s); [destruct (float_finite s); [intros [= <-]; auto|discriminate]|].
  destruct (negb f && float_special s); [intros [= <-]; auto|discriminate].
Qed.

Lemma parse_number_none s : parse_number true s = None <-> ~ finite_dec s.
Proof.
  split.
  - intros H (ip & frac & D & F).
    destruct (parse_int64 s) as [z|] eqn:P; [unfold parse_number in H; rewrite P in H; discriminate|].
    assert (X : parse_number true s = Some (QFloat s)).
    { apply parse_number_float. split; [reflexivity|]. split; [exists ip, frac; auto|].
      intros [z Hz]. apply parse_int64_spec in Hz. congruence. }
    congruence.
  - intros H. destruct (parse_number true s) as [r|] eqn:P; [|reflexivity]. exfalso; apply H.
    destruct (parse_number_kind _ _ _ P) as [[z ->]| ->].
    + apply parse_number_int in P as [I R]. destruct (IntNumeral_Dec _ _ I) as (d & D & A).
      exists d, None. split; auto. rewrite <- A. apply int64_below_bound; exact R.
    + apply parse_number_float in P as (_ & F & _). exact F.
Qed.

(* every byte of a numeral is a sign, a digit or a dot *)
Lemma all_digits_numch d : all_digits d -> forallb is_numch d = true.
Proof.
  unfold all_digits. induction d as [|c r IH]; cbn; [reflexivity|].
  rewrite !andb_true_iff. intros [Hc Hr]. split; auto. unfold is_numch. rewrite Hc. reflexivity.
Qed.

Lemma DecNumeral_numch s ip frac : DecNumeral s ip frac -> forallb is_numch s = true.
Proof.
  intros (sg & neg & -> & Hs & H1 & H2 & _). rewrite !forallb_app.
  rewrite (all_digits_numch _ H1).
  assert (forallb is_numch sg = true) as -> by (destruct Hs as [[-> _]|[[-> _]|[-> _]]]; reflexivity).
  destruct frac as [f|]; cbn in *; [rewrite (all_digits_numch _ H2)|]; reflexivity.
Qed.

Lemma parse_number_numch s r : parse_number true s = Some r -> forallb is_numch s = true.
Proof.
  intros P. destruct (parse_number true s) as [r'|] eqn:E; [|discriminate].
  assert (F : finite_dec s).
  { destruct (parse_number_none s) as [_ H]. destruct (is_decimal s) eqn:D.
    - clear H. destruct (parse_number_kind _ _ _ E) as [[z ->]| ->].
      + apply parse_number_int in E as [I R]. destruct (IntNumeral_Dec _ _ I) as (d & D' & A).
        exists d, None; split; auto. rewrite <- A. apply int64_below_bound; exact R.
      + apply parse_number_float in E as (_ & F & _); exact F.
    - exfalso. unfold parse_number in E. destruct (parse_int64 s) as [z|] eqn:P64.
      + apply parse_int64_spec in P64 as [I _]. destruct (IntNumeral_Dec _ _ I) as (d & D' & _).
        assert (is_decimal s = true) by (apply is_decimal_spec; eauto). congruence.
      + rewrite D in E. cbn [negb andb] in E. discriminate. }
  destruct F as (ip & frac & D & _). eapply DecNumeral_numch; eauto.
Qed.

Lemma numch_no_touch q s : is_numch q = false -> forallb is_numch s = true -> touches q s = false.
Proof.
  intros Hq H. destruct (touches q s) eqn:T; [|reflexivity].
  apply touches_in in T. rewrite forallb_forall in H. apply H in T. congruence.
Qed.

(** * Constants *)
Lemma parse_constant_spec s r : parse_constant s = Some r <->
  (s = w_true /\ r = QBool true) \/ (s = w_false /\ r = QBool false) \/ (s = w_null /\ r = QNull).
Proof.
  unfold parse_constant.
  destruct (beq_spec s w_true) as [->|N1].
  { split; [intros [= <-]; auto|]. intros [[_ ->]|[[E _]|[E _]]]; [reflexivity|discriminate E|discriminate E]. }
  destruct (beq_spec s w_false) as [->|N2].
  { split; [intros [= <-]; auto|]. intros [[E _]|[[_ ->]|[E _]]]; [discriminate E|reflexivity|discriminate E]. }
  destruct (beq_spec s w_null) as [->|N3].
  { split; [intros [= <-]; auto|]. intros [[E _]|[[E _]|[_ ->]]]; [discriminate E|discriminate E|reflexivity]. }
  split; [discriminate|]. intros [[E _]|[[E _]|[E _]]]; congruence.
Qed.

Lemma parse_constant_none s : parse_constant s = None <-> s <> w_true /\ s <> w_false /\ s <> w_null.
Proof.
  split.
  - intros H. repeat split; intros ->; discriminate H.
  - intros (H1 & H2 & H3). destruct (parse_constant s) as [r|] eqn:E; [|reflexivity].
    apply parse_constant_spec in E as [[E _]|[[E _]|[E _]]]; congruence.
Qed.

Lemma constant_alone s r : parse_constant s = Some r ->
  parse_json_string s = TNo /\ parse_number true s = None.
Proof.
  intros H. apply parse_constant_spec in H as [[-> _]|[[-> _]|[-> _]]]; split; vm_compute; reflexivity.
Qed.

(* a value with a single quote at either end is neither a number nor a constant *)
Lemma sq_alone s : touches 39 s = true -> parse_number true s = None /\ parse_constant s = None.
Proof.
  intros T. split.
  - destruct (parse_number true s) as [r|] eqn:P; [|reflexivity].
    apply parse_number_numch in P. rewrite (numch_no_touch 39 s eq_refl P) in T. discriminate.
  - destruct (parse_constant s) as [r|] eqn:C; [|reflexivity]. apply touches_in in T.
    apply parse_constant_spec in C as [[-> _]|[[-> _]|[-> _]]]; cbn in T; intuition discriminate.
Qed.

Lemma number_alone s r : parse_number true s = Some r -> parse_json_string s = TNo.
Proof.
  intros P. rewrite pjs_qparse. apply qparse_no. apply parse_number_numch in P.
  apply numch_no_touch; auto.
Qed.

(** * The cascade *)
Lemma classify_cascade s :
  classify s =
  match parse_json_string s with
  | TErr => QErr EString
  | TOk v => QStr v
  | TNo =>
    match parse_number true s with
    | Some r => r
    | None =>
      match parse_constant s with
      | Some r => r
      | None => match parse_quoted64 s with TErr => QErr EBytes | TOk v => QBytes v | TNo => QLit s end
      end
    end
  end.
Proof. reflexivity. Qed.

(* ten-way case split on the stages of the cascade *)
Ltac stages s :=
  rewrite (classify_cascade s);
  destruct (parse_json_string s) as [| |vj] eqn:J;
  [ destruct (parse_number true s) as [rn|] eqn:P;
    [ destruct (parse_number_kind _ _ _ P) as [[zn ->]| ->]
    | destruct (parse_constant s) as [rc|] eqn:C;
      [ apply parse_constant_spec in C as [[Ec ->]|[[Ec ->]|[Ec ->]]]
      | destruct (parse_quoted64 s) as [| |vq] eqn:Q ] ]
  | | ].

Definition quote_at_end (q : N) (s : bytes) : Prop := starts_with q s \/ ends_with q s.

Theorem classify_str s v :
  classify s = QStr v <-> exists inner, enclosed 34 s inner /\ unq inner = Some v.
Proof.
  rewrite <- (qparse_ok 34 unq), <- pjs_qparse. split.
  - stages s; try discriminate. intros [= ->]; reflexivity.
  - intros H. rewrite classify_cascade, H. reflexivity.
Qed.

Theorem classify_err_string s :
  classify s = QErr EString <->
  (exists inner, enclosed 34 s inner /\ unq inner = None) \/
  (quote_at_end 34 s /\ ~ exists inner, enclosed 34 s inner).
Proof.
  unfold quote_at_end. rewrite <- (qparse_err 34 unq), <- pjs_qparse. split.
  - stages s; try discriminate. reflexivity.
  - intros H. rewrite classify_cascade, H. reflexivity.
Qed.

Theorem classify_int s z : classify s = QInt z <-> IntNumeral s z /\ in_int64 z.
Proof.
  split.
  - stages s; try discriminate. intros [= ->]. apply parse_number_int. exact P.
  - intros P. apply parse_number_int in P. rewrite classify_cascade, (number_alone _ _ P), P. reflexivity.
Qed.

Theorem classify_float s t :
  classify s = QFloat t <->
  t = s /\ finite_dec s /\ ~ (exists z, IntNumeral s z /\ in_int64 z).
Proof.
  split.
  - stages s; try discriminate. intros [= <-]. apply parse_number_float. exact P.
  - intros P. apply parse_number_float in P. rewrite classify_cascade, (number_alone _ _ P), P. reflexivity.
Qed.

Theorem classify_bool s b : classify s = QBool b <-> s = (if b then w_true else w_false).
Proof.
  split.
  - stages s; try discriminate; intros [= <-]; exact Ec.
  - intros ->. destruct b; vm_compute; reflexivity.
Qed.

Theorem classify_null s : classify s = QNull <-> s = w_null.
Proof.
  split.
  - stages s; try discriminate; intros _; exact Ec.
  - intros ->. vm_compute; reflexivity.
Qed.

Theorem classify_bytes s v :
  classify s = QBytes v <->
  exists inner, enclosed 39 s inner /\ b64_decode (trim_right 61 inner) = Some v.
Proof.
  rewrite <- (qparse_ok 39 (fun i => b64_decode (trim_right 61 i))), <- pq64_qparse. split.
  - stages s; try discriminate. intros [= ->]; reflexivity.
  - intros Q. assert (T : touches 39 s = true).
    { rewrite pq64_qparse in Q. destruct (touches 39 s) eqn:T; [reflexivity|].
      apply (qparse_no 39 (fun i => b64_decode (trim_right 61 i))) in T. congruence. }
    destruct (sq_alone _ T) as [P C].
    assert (J : parse_json_string s = TNo).
    { rewrite pq64_qparse in Q. apply qparse_ok in Q as (inner & E & _).
      rewrite pjs_qparse. apply qparse_no. eapply enclosed_not_touch; [exact E|discriminate]. }
    rewrite classify_cascade, J, P, C, Q. reflexivity.
Qed.

Theorem classify_err_bytes s :
  classify s = QErr EBytes <->
  ~ quote_at_end 34 s /\
  ((exists inner, enclosed 39 s inner /\ b64_decode (trim_right 61 inner) = None) \/
   (quote_at_end 39 s /\ ~ exists inner, enclosed 39 s inner)).
Proof.
  unfold quote_at_end.
  rewrite <- (qparse_err 39 (fun i => b64_decode (trim_right 61 i))), <- pq64_qparse, <- touches_spec.
  split.
  - stages s; try discriminate. intros _. split; [|reflexivity].
    rewrite pjs_qparse in J. apply qparse_no in J. rewrite J. discriminate.
  - intros [NJ Q]. assert (T : touches 39 s = true).
    { rewrite pq64_qparse in Q. destruct (touches 39 s) eqn:T; [reflexivity|].
      apply (qparse_no 39 (fun i => b64_decode (trim_right 61 i))) in T. congruence. }
    destruct (sq_alone _ T) as [P C].
    assert (J : parse_json_string s = TNo).
    { rewrite pjs_qparse. apply qparse_no. destruct (touches 34 s); [exfalso; apply NJ; reflexivity|reflexivity]. }
    rewrite classify_cascade, J, P, C, Q. reflexivity.
Qed.

Theorem classify_lit s t :
  classify s = QLit t <->
  t = s /\ ~ quote_at_end 34 s /\ ~ quote_at_end 39 s /\ ~ finite_dec s /\
  s <> w_true /\ s <> w_false /\ s <> w_null.
Proof.
  unfold quote_at_end. rewrite <- !touches_spec, <- parse_number_none, <- parse_constant_none. split.
  - stages s; try discriminate. intros [= <-].
    rewrite pjs_qparse in J. apply qparse_no in J. rewrite pq64_qparse in Q. apply qparse_no in Q.
    rewrite J, Q. repeat split; auto; discriminate.
  - intros (-> & NJ & NQ & P & C).
    assert (J : parse_json_string s = TNo).
    { rewrite pjs_qparse. apply qparse_no. destruct (touches 34 s); [exfalso; apply NJ; reflexivity|reflexivity]. }
    assert (Q : parse_quoted64 s = TNo).
    { rewrite pq64_qparse. apply qparse_no. destruct (touches 39 s); [exfalso; apply NQ; reflexivity|reflexivity]. }
    rewrite classify_cascade, J, P, C, Q. reflexivity.
Qed.

(* the documented typing, all clauses *)
Theorem classify_rules s :
  (forall v, classify s = QStr v <-> exists inner, enclosed 34 s inner /\ unq inner = Some v) /\
  (classify s = QErr EString <->
     (exists inner, enclosed 34 s inner /\ unq inner = None) \/
     (quote_at_end 34 s /\ ~ exists inner, enclosed 34 s inner)) /\
  (forall z, classify s = QInt z <-> IntNumeral s z /\ in_int64 z) /\
  (forall t, classify s = QFloat t <->
     t = s /\ finite_dec s /\ ~ (exists z, IntNumeral s z /\ in_int64 z)) /\
  (forall b, classify s = QBool b <-> s = (if b then w_true else w_false)) /\
  (classify s = QNull <-> s = w_null) /\
  (forall v, classify s = QBytes v <->
     exists inner, enclosed 39 s inner /\ b64_decode (trim_right 61 inner) = Some v) /\
  (classify s = QErr EBytes <->
     ~ quote_at_end 34 s /\
     ((exists inner, enclosed 39 s inner /\ b64_decode (trim_right 61 inner) = None) \/
      (quote_at_end 39 s /\ ~ exists inner, enclosed 39 s inner))) /\
  (forall t, classify s = QLit t <->
     t = s /\ ~ quote_at_end 34 s /\ ~ quote_at_end 39 s /\ ~ finite_dec s /\
     s <> w_true /\ s <> w_false /\ s <> w_null).
Proof.
  split; [intros; apply classify_str|]. split; [apply classify_err_string|].
  split; [intros; apply classify_int|]. split; [intros; apply classify_float|].
  split; [intros; apply classify_bool|]. split; [apply classify_null|].
  split; [intros; apply classify_bytes|]. split; [apply classify_err_bytes|].
  intros; apply classify_lit.
Qed.

(** * Marshalability *)
Theorem classify_marshalable s : (forall k, classify s <> QErr k) -> marshalable (classify s) = true.
Proof.
  intros H. destruct (classify s) as [k| | |t| | | |] eqn:E; try reflexivity.
  - exfalso; apply (H k); reflexivity.
  - apply classify_float in E as (-> & (ip & frac & D & F) & _). cbn [marshalable].
    apply andb_true_iff. split; [apply is_decimal_spec; eauto|apply (float_finite_spec _ _ _ D); exact F].
Qed.

Lemma marshalable_not_err r : is_qerr r = false -> (forall k, r <> QErr k).
Proof. intros H k ->. discriminate. Qed.

Lemma no_err_marshalable (f : list (bytes * bytes)) :
  existsb (fun p => is_qerr (snd p)) (map (fun p => (fst p, classify_cfg true (snd p))) f) = false ->
  forallb (fun x => marshalable (snd x)) (map (fun p => (fst p, classify_cfg true (snd p))) f) = true.
Proof.
  induction f as [|[k v] f IH]; cbn [map existsb forallb fst snd]; [reflexivity|].
  intros H. apply orb_false_iff in H as [Hv Hf]. rewrite (IH Hf), andb_true_r.
  apply (classify_marshalable v). apply marshalable_not_err. exact Hv.
Qed.

Theorem parse_query_marshalable r m ps : parse_query r = PROk m ps -> params_marshalable ps = true.
Proof.
  unfold parse_query, parse_query_cfg. destruct (hq_form r) as [f|]; [|discriminate].
  destruct (method_of_path (hq_path r)) as [m'|]; [|discriminate].
  destruct f as [|kv f]; [intros [= _ <-]; reflexivity|].
  destruct (existsb _ _) eqn:X; [discriminate|]. intros [= _ <-].
  exact (no_err_marshalable (kv :: f) X).
Qed.

(* Without fix F8 (no isDecimal gate before ParseFloat): NaN is typed as a float64 that
   json.Marshal rejects. *)
Definition nan_text : bytes := [78; 97; 78].
Theorem refuted_without_F8 :
  classify_cfg false nan_text = QFloat nan_text /\
  marshalable (classify_cfg false nan_text) = false /\
  exists m ps, parse_query_cfg false {| hq_path := [47; 109]; hq_form := Some [([120], nan_text)] |} = PROk m ps /\
               params_marshalable ps = false.
Proof.
  split; [vm_compute; reflexivity|]. split; [vm_compute; reflexivity|].
  exists [109], (PMap [([120], QFloat nan_text)]). split; [vm_compute; reflexivity|vm_compute; reflexivity].
Qed.

(** * Method names *)
Lemma trim_left_spec c s :
  exists a, s = a ++ trim_left c s /\ Forall (eq c) a /\ ~ starts_with c (trim_left c s).
Proof.
  induction s as [|x r IH]; cbn.
  - exists []. repeat split; auto. intros [r H]; discriminate.
  - destruct (N.eqb_spec x c) as [->|Nx].
    + destruct IH as (a & E & F & S). exists (c :: a). repeat split; auto. cbn; congruence.
    + exists []. repeat split; auto. intros [r' H]. injection H as H _. congruence.
Qed.

Lemma trim_right_spec c s :
  exists b, s = trim_right c s ++ b /\ Forall (eq c) b /\ ~ ends_with c (trim_right c s).
Proof.
  induction s as [|x r IH]; cbn.
  - exists []. repeat split; auto. intros [m H]; destruct m; discriminate.
  - destruct IH as (b & E & F & S). destruct (trim_right c r) as [|y t] eqn:T.
    + cbn in E; subst r. destruct (N.eqb_spec x c) as [->|Nx].
      * exists (c :: b). repeat split; auto.
      * exists b. repeat split; auto. intros [m H]. destruct m as [|z m]; cbn in H.
        -- injection H as H; congruence.
        -- injection H as _ H. destruct m; discriminate.
    + exists b. repeat split; auto.
      * cbn. rewrite E at 1. reflexivity.
      * intros [m H]. destruct m as [|z m]; cbn in H; [discriminate|].
        injection H as _ H. apply S. exists m. exact H.
Qed.

Lemma trim_right_keeps_head c s : ~ starts_with c s -> ~ starts_with c (trim_right c s).
Proof.
  intros H [r E]. destruct (trim_right_spec c s) as (b & Es & _). rewrite E in Es.
  apply H. exists (r ++ b). exact Es.
Qed.

Definition only (c : N) (s : bytes) : Prop := Forall (eq c) s.

Theorem method_of_path_some p m :
  method_of_path p = Some m ->
  m <> [] /\ m = trim 47 p /\ ~ starts_with 47 m /\ ~ ends_with 47 m /\
  exists a b, p = a ++ m ++ b /\ only 47 a /\ only 47 b.
Proof.
  unfold method_of_path. destruct (trim 47 p) as [|x t] eqn:T; [discriminate|]. intros [= <-].
  rewrite <- T. split; [rewrite T; discriminate|]. split; [reflexivity|]. unfold trim in *.
  destruct (trim_left_spec 47 p) as (a & Ea & Fa & Sa).
  destruct (trim_right_spec 47 (trim_left 47 p)) as (b & Eb & Fb & Sb).
  split; [apply trim_right_keeps_head; exact Sa|]. split; [exact Sb|].
  exists a, b. split; [|split; assumption]. rewrite <- Eb. exact Ea.
Qed.

Lemma only_trim_left c s : only c s -> trim_left c s = [].
Proof. induction 1 as [|x r <- _ IH]; cbn; [reflexivity|]. rewrite N.eqb_refl. exact IH. Qed.

Theorem method_of_path_none p : method_of_path p = None <-> only 47 p.
Proof.
  unfold method_of_path, only. split.
  - destruct (trim 47 p) as [|x t] eqn:T; [|discriminate]. intros _. unfold trim in T.
    destruct (trim_left_spec 47 p) as (a & Ea & Fa & _).
    destruct (trim_right_spec 47 (trim_left 47 p)) as (b & Eb & Fb & _).
    rewrite T in Eb. cbn in Eb. rewrite Ea, Eb. apply Forall_app; auto.
  - intros H. unfold trim. rewrite (only_trim_left _ _ H). reflexivity.
Qed.

Theorem parse_query_method r m ps :
  parse_query r = PROk m ps -> method_of_path (hq_path r) = Some m /\ m <> [].
Proof.
  unfold parse_query, parse_query_cfg. destruct (hq_form r) as [f|]; [|discriminate].
  destruct (method_of_path (hq_path r)) as [m'|] eqn:M; [|discriminate].
  assert (m' <> []) by (apply method_of_path_some in M; tauto).
  destruct f as [|kv f]; [intros [= <- _]; auto|].
  destruct (existsb _ _); [discriminate|]. intros [= <- _]; auto.
Qed.

Theorem parse_basic_method r m ps :
  parse_basic r = PROk m ps -> method_of_path (hq_path r) = Some m /\ m <> [] /\ params_marshalable ps = true.
Proof.
  unfold parse_basic. destruct (hq_form r) as [f|]; [|discriminate].
  destruct (method_of_path (hq_path r)) as [m'|] eqn:M; [|discriminate].
  assert (m' <> []) by (apply method_of_path_some in M; tauto).
  intros [= <- <-]. repeat split; auto. cbn. apply forallb_forall.
  intros [k v] Hin. apply in_map_iff in Hin as (x & [= _ <-] & _). reflexivity.
Qed.

(* the method-name theorem in one statement, for both parsers *)
Theorem method_nonempty r m ps :
  parse_query r = PROk m ps \/ parse_basic r = PROk m ps ->
  m <> [] /\ m = trim 47 (hq_path r) /\ ~ starts_with 47 m /\ ~ ends_with 47 m /\
  (exists a b, hq_path r = a ++ m ++ b /\ only 47 a /\ only 47 b) /\
  params_marshalable ps = true.
Proof.
  intros [H|H].
  - destruct (parse_query_method _ _ _ H) as [M _]. apply method_of_path_some in M.
    pose proof (parse_query_marshalable _ _ _ H). tauto.
  - destruct (parse_basic_method _ _ _ H) as (M & _ & P). apply method_of_path_some in M. tauto.
Qed.

(* totality on the error side: the parsers fail exactly when the form is bad, the
   path has no non-slash byte, or (ParseQuery only) some value is ill-quoted *)
Theorem parse_query_err r :
  parse_query r = PRErr <->
  hq_form r = None \/ only 47 (hq_path r) \/
  exists f k v e, hq_form r = Some f /\ In (k, v) f /\ classify v = QErr e.
Proof.
  unfold parse_query, parse_query_cfg. destruct (hq_form r) as [f|].
  - destruct (method_of_path (hq_path r)) as [m|] eqn:M.
    + assert (NM : ~ only 47 (hq_path r)) by (intros H; apply method_of_path_none in H; congruence).
      destruct f as [|kv f].
      * split; [discriminate|]. intros [H|[H|(f & k & v & e & [= <-] & [] & _)]]; [discriminate|tauto].
      * destruct (existsb _ _) eqn:X.
        -- split; [intros _|reflexivity]. right; right.
           apply existsb_exists in X as ([k q] & Hin & Hq). cbn in Hq.
           apply in_map_iff in Hin as ([k0 v0] & [= <- <-] & Hin).
           cbn [snd] in Hq. destruct (classify_cfg true v0) as [e| | | | | | |] eqn:Ev; try discriminate.
           exists (kv :: f), k0, v0, e. auto.
        -- split; [discriminate|]. intros [H|[H|(f' & k & v & e & [= <-] & Hin & Ev)]]; [discriminate|tauto|].
           assert (existsb (fun p => is_qerr (snd p))
                     (map (fun p => (fst p, classify_cfg true (snd p))) (kv :: f)) = true).
           { apply existsb_exists. exists (k, classify v). split.
             - apply in_map_iff. exists (k, v). auto.
             - cbn. rewrite Ev. reflexivity. }
           congruence.
    + split; [intros _|reflexivity]. right; left. apply method_of_path_none; exact M.
  - split; auto.
Qed.

(** * Getter status *)
Theorem getter_status_rules p srv :
  match p with
  | PRErr => getter_status p srv = (400%Z, BError (-32700)%Z)
  | PROk m ps =>
    params_marshalable ps = true ->
    match srv m ps with
    | CallOk res => getter_status p srv = (200%Z, BResult res)
    | CallErr c => (c = (-32601)%Z -> getter_status p srv = (404%Z, BError c)) /\
                   (c <> (-32601)%Z -> getter_status p srv = (500%Z, BError c))
    | CallFail => getter_status p srv = (500%Z, BOther)
    end
  end.
Proof.
  destruct p as [|m ps]; cbn; [reflexivity|]. intros ->.
  destruct (srv m ps) as [res|c|]; try reflexivity.
  unfold code_method_not_found. split.
  - intros ->. reflexivity.
  - intros H. destruct (Z.eqb_spec c (-32601)); [contradiction|reflexivity].
Qed.

(* the whole Getter on a request parsed by ParseQuery: the unmarshalable branch is dead *)
Theorem getter_rules r srv :
  match parse_query r with
  | PRErr => getter r srv = (400%Z, BError (-32700)%Z)
  | PROk m ps =>
    m <> [] /\
    match srv m ps with
    | CallOk res => getter r srv = (200%Z, BResult res)
    | CallErr c => getter r srv = ((if (c =? -32601)%Z then 404 else 500)%Z, BError c)
    | CallFail => getter r srv = (500%Z, BOther)
    end
  end.
Proof.
  unfold getter. destruct (parse_query r) as [|m ps] eqn:E; [reflexivity|].
  split; [apply (parse_query_method _ _ _ E)|].
  cbn. rewrite (parse_query_marshalable _ _ _ E). destruct (srv m ps); reflexivity.
Qed.

Theorem getter_status_codes p srv :
  In (fst (getter_status p srv)) [200; 400; 404; 500]%Z.
Proof.
  destruct p as [|m ps]; cbn; [auto|].
  destruct (params_marshalable ps); [|cbn; auto].
  destruct (srv m ps) as [res|c|]; cbn; auto.
  destruct (c =? code_method_not_found)%Z; auto.
Qed.

(** * Non-vacuity examples (each clause has a concrete, non-trivial instance) *)
Example ex_int : classify [45; 49; 50] = QInt (-12) /\ IntNumeral [45; 49; 50] (-12) /\ in_int64 (-12).
Proof.
  split; [vm_compute; reflexivity|]. split.
  - exists [45], true, [49; 50]. repeat split; try discriminate. right; right; auto.
  - unfold in_int64, int64_min, int64_max; lia.
Qed.
Example ex_int_bounds :
  classify [57;50;50;51;51;55;50;48;51;54;56;53;52;55;55;53;56;48;55] = QInt 9223372036854775807 /\
  classify [57;50;50;51;51;55;50;48;51;54;56;53;52;55;55;53;56;48;56] =
    QFloat [57;50;50;51;51;55;50;48;51;54;56;53;52;55;55;53;56;48;56] /\
  classify [45;57;50;50;51;51;55;50;48;51;54;56;53;52;55;55;53;56;48;56] = QInt (-9223372036854775808).
Proof. repeat split; vm_compute; reflexivity. Qed.
Example ex_float : classify [51; 46; 50] = QFloat [51; 46; 50] /\ finite_dec [51; 46; 50].    (* 3.2 *)
Proof.
  split; [vm_compute; reflexivity|]. exists [51], (Some [50]). split.
  - exists [], false. repeat split; try discriminate. left; auto.
  - vm_compute; reflexivity.
Qed.
(* a 400-digit integer overflows float64: not a number at all, hence a literal string *)
Example ex_huge : classify (repeat 57 400) = QLit (repeat 57 400) /\ ~ finite_dec (repeat 57 400).
Proof.
  assert (H : classify (repeat 57 400) = QLit (repeat 57 400)) by (vm_compute; reflexivity).
  split; [exact H|]. apply classify_lit in H. tauto.
Qed.
(* around the largest finite float64 (1.797...e308): 1e308 written out is a number, 2e308 written out is not *)
Example ex_float_edge :
  classify (49 :: repeat 48 308) = QFloat (49 :: repeat 48 308) /\
  classify (50 :: repeat 48 308) = QLit (50 :: repeat 48 308).
Proof. split; vm_compute; reflexivity. Qed.
Example ex_str : classify [34; 97; 92; 110; 34] = QStr [97; 10]                       (* "a\n" with the escape *)
              /\ classify [34; 92; 117; 100; 56; 51; 100; 34] = QStr [239; 191; 189]  (* lone surrogate *)
              /\ classify [34; 97; 34; 98; 34] = QErr EString                         (* quote inside *)
              /\ classify [34; 97] = QErr EString.                                    (* one-sided *)
Proof. repeat split; vm_compute; reflexivity. Qed.
Example ex_bytes : classify [39; 89; 81; 61; 61; 39] = QBytes [97]        (* 'YQ==' *)
                /\ classify [39; 89; 82; 39] = QBytes [97]                 (* 'YR': trailing bits ignored *)
                /\ classify [39; 89; 39] = QErr EBytes                     (* one character *)
                /\ classify [39; 89; 81] = QErr EBytes.                    (* one-sided *)
Proof. repeat split; vm_compute; reflexivity. Qed.
Example ex_consts : classify w_true = QBool true /\ classify [84; 114; 117; 101] = QLit [84; 114; 117; 101]
                 /\ classify nan_text = QLit nan_text /\ classify [49; 101; 53] = QLit [49; 101; 53]
                 /\ classify [49; 95; 48] = QLit [49; 95; 48] /\ classify [] = QLit [].
Proof. repeat split; vm_compute; reflexivity. Qed.
Example ex_method : method_of_path [47; 47; 97; 47; 98; 47] = Some [97; 47; 98]   (* //a/b/ *)
                 /\ method_of_path [47; 47] = None /\ method_of_path [] = None.
Proof. repeat split; vm_compute; reflexivity. Qed.
Example ex_req : hreq := {| hq_path := [47; 109]; hq_form := Some [([120], [53]); ([121], [34; 97; 34])] |}.
Example ex_parse_query : parse_query ex_req = PROk [109] (PMap [([120], QInt 5); ([121], QStr [97])]).
Proof. vm_compute; reflexivity. Qed.
Example ex_parse_query_err :
  parse_query {| hq_path := [47; 109]; hq_form := Some [([120], [53]); ([121], [34; 97])] |} = PRErr.
Proof. vm_compute; reflexivity. Qed.
Example ex_getter :
  let srv := fun (m : bytes) (_ : params) =>
               if beq m [109] then CallOk [49] else if beq m [101] then CallErr (-32602) else CallErr (-32601) in
  getter ex_req srv = (200%Z, BResult [49]) /\
  getter {| hq_path := [47; 101]; hq_form := Some [] |} srv = (500%Z, BError (-32602)%Z) /\
  getter {| hq_path := [47; 122]; hq_form := Some [] |} srv = (404%Z, BError (-32601)%Z) /\
  getter {| hq_path := [47]; hq_form := Some [] |} srv = (400%Z, BError (-32700)%Z) /\
  getter {| hq_path := [47; 109]; hq_form := None |} srv = (400%Z, BError (-32700)%Z).
Proof. repeat split; vm_compute; reflexivity. Qed.
