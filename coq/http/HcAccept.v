(* HcAccept: replays the log of a quiescent-stepping run of the real jhttp.Channel
   (harness/conc/hc.go) through the HttpChan transition model.

   A log is a list of windows.  A window is one environment action (Send with its
   return value, cli.Do of goroutine j returning, Close being called, a Recv call
   being started -- the latter is no model label), the outputs observed until
   the system was quiescent again (Recv returns, Close returns; compared as a
   multiset, because they are logged by different goroutines) and the counters
   read at the quiescent point (response bodies handed out / closed).

   The set of model states consistent with the log so far is carried along; the
   library's own steps (HDrain, HRspClose) are unobservable and closed under.
   Definitions only; extracted. *)
From Coq Require Import List NArith ZArith Bool Arith.
From JV Require Import HttpChan.
Import ListNotations.

Inductive ev :=
| VSend (ok : bool)                 (* Send returned nil / "channel is closed" *)
| VDo (j : nat) (r : dores)         (* the harness lets cli.Do of goroutine j return r *)
| VClose                            (* Close called *)
| VRecv (j : nat) (k : recv_out)    (* a Recv returned goroutine j's reply, reported as k *)
| VRecvEOF                          (* a Recv returned io.EOF *)
| VCloseRet.                        (* Close returned *)

Record window := {
  w_env : option ev;                (* None: a Recv call was started *)
  w_outs : list ev;
  w_opened : nat;
  w_closed : nat
}.

Definition recv_out_eqb (a b : recv_out) : bool :=
  match a, b with
  | RecvData, RecvData | RecvBadStatus, RecvBadStatus | RecvDoErr, RecvDoErr => true
  | _, _ => false
  end.

Definition apply_ev (f11 : bool) (s : state) (e : ev) : option state :=
  match e with
  | VSend true => step_cfg f11 s HSend
  | VSend false => step_cfg f11 s HSendClosed
  | VDo j r => step_cfg f11 s (HDo j r)
  | VClose => step_cfg f11 s HClose
  | VRecv j k =>
    match nth_error (gs s) j with
    | Some (Holding r) => if recv_out_eqb (recv_result r) k then step_cfg f11 s (HRecv j) else None
    | _ => None
    end
  | VRecvEOF => step_cfg f11 s HRecvEOF
  | VCloseRet => step_cfg f11 s HCloseDone
  end.

(** state equality (for deduplication) *)
Definition dores_eqb (a b : dores) : bool :=
  match a, b with
  | DoStatus x, DoStatus y => (x =? y)%Z
  | DoErr, DoErr => true
  | _, _ => false
  end.
Definition disp_eqb (a b : disp) : bool :=
  match a, b with DAck, DAck | DRecv, DRecv | DDrained, DDrained => true | _, _ => false end.
Definition gstate_eqb (a b : gstate) : bool :=
  match a, b with
  | Doing, Doing => true
  | Holding x, Holding y => dores_eqb x y
  | Done x d, Done y e => dores_eqb x y && disp_eqb d e
  | _, _ => false
  end.
Definition phase_eqb (a b : cphase) : bool :=
  match a, b with
  | COpen, COpen | CDraining, CDraining | CRspClosed, CRspClosed | CReturned, CReturned => true
  | _, _ => false
  end.
Fixpoint list_eqb {A} (f : A -> A -> bool) (a b : list A) : bool :=
  match a, b with
  | [], [] => true
  | x :: a', y :: b' => f x y && list_eqb f a' b'
  | _, _ => false
  end.
Definition state_eqb (a b : state) : bool :=
  phase_eqb (phase a) (phase b) && list_eqb gstate_eqb (gs a) (gs b) &&
  Nat.eqb (opened a) (opened b) && Nat.eqb (closedb a) (closedb b) && Nat.eqb (wg a) (wg b).

Fixpoint add_state (s : state) (l : list state) : list state :=
  match l with
  | [] => [s]
  | x :: t => if state_eqb s x then l else x :: add_state s t
  end.
Definition union (a b : list state) : list state := fold_right add_state b a.

(** the library's unobservable steps: everything enabled_internal lists except
    Close returning, which the harness sees *)
Definition is_close_done (l : label) : bool := match l with HCloseDone => true | _ => false end.
Definition hidden (s : state) : list label := filter (fun l => negb (is_close_done l)) (enabled_internal s).

Definition succs (f11 : bool) (s : state) : list state :=
  flat_map (fun l => match step_cfg f11 s l with Some s' => [s'] | None => [] end) (hidden s).

Fixpoint closure (f11 : bool) (fuel : nat) (ss : list state) : list state :=
  match fuel with
  | O => ss
  | S n => closure f11 n (union (flat_map (succs f11) ss) ss)
  end.

Definition apply_all (f11 : bool) (ss : list state) (e : ev) : list state :=
  fold_right (fun s acc => match apply_ev f11 s e with Some s' => add_state s' acc | None => acc end) [] ss.

(* remove the i-th element *)
Fixpoint remove_nth {A} (i : nat) (l : list A) : list A :=
  match l, i with
  | [], _ => []
  | _ :: t, O => t
  | x :: t, S k => x :: remove_nth k t
  end.

(* all interleavings of the outputs (any order) with hidden steps; fuel = number of outputs *)
Fixpoint explore (f11 : bool) (cf : nat) (fuel : nat) (ss : list state) (outs : list ev) : list state :=
  let ss := closure f11 cf ss in
  match fuel, outs with
  | _, [] => ss
  | O, _ => []
  | S n, _ =>
    fold_right (fun i acc =>
                  match nth_error outs i with
                  | Some e => union (explore f11 cf n (apply_all f11 ss e) (remove_nth i outs)) acc
                  | None => acc
                  end) [] (seq 0 (length outs))
  end.

(* at a quiescent point nothing the library can do on its own is left, and the counters agree *)
Definition snap_ok (w : window) (s : state) : bool :=
  match enabled_internal s with [] => true | _ => false end &&
  Nat.eqb (opened s) (w_opened w) && Nat.eqb (closedb s) (w_closed w).

Inductive stage := StEnv | StOuts | StSnap.
Inductive verdict :=
| Accepted (final : list state)
| Rejected (idx : nat) (st : stage) (before : list state).   (* window number, where the state set became empty *)

(* the new state set, or the stage at which it became empty together with the last non-empty set *)
Definition step_window (f11 : bool) (cf : nat) (ss : list state) (w : window) : list state * option stage :=
  let s1 := match w_env w with Some e => apply_all f11 ss e | None => ss end in
  match s1 with
  | [] => (ss, Some StEnv)
  | _ =>
    let s2 := explore f11 cf (length (w_outs w)) s1 (w_outs w) in
    match s2 with
    | [] => (s1, Some StOuts)
    | _ => match filter (snap_ok w) s2 with
           | [] => (s2, Some StSnap)
           | s3 => (s3, None)
           end
    end
  end.

Fixpoint accept_from (f11 : bool) (cf : nat) (idx : nat) (ss : list state) (ws : list window) : verdict :=
  match ws with
  | [] => Accepted ss
  | w :: ws' =>
    match step_window f11 cf ss w with
    | (ss', None) => accept_from f11 cf (S idx) ss' ws'
    | (before, Some st) => Rejected idx st before
    end
  end.

(* cf: closure fuel, at least the number of Sends + 2 (each hidden step retires a goroutine or closes c.rsp) *)
Definition accept (f11 : bool) (cf : nat) (ws : list window) : verdict := accept_from f11 cf 0 [init] ws.

(* all final states leak-free (when Close has returned) *)
Definition all_no_leak (ss : list state) : bool := forallb no_leak ss.
