(* GetterMore: the bytes Getter.ServeHTTP writes (jhttp/getter.go writeJSON) and their
   validity as JSON.  Query.v keeps the response body abstract (BError c / BOther /
   BResult r); here it is rendered:

     400   json.Marshal(&jrpc2.Error{Code: ParseError, Message: err.Error()})
     404/500 for a *jrpc2.Error from CallResult: json.Marshal of that error
             ({"code":..,"message":..,"data":..}, message/data omitted when empty: Wire.marshal_error)
     500   for any other Go error value: json.Marshal of it (input: its marshalled text)
     200   json.Marshal(json.RawMessage(result)) = the compacted, HTML-escaped result (Json.compact)
     and the fallback of writeJSON: when json.Marshal fails, 500 + text/plain + err.Error().

   JSON validity is Json.valid (= json.Valid, nesting limit included). *)
From Coq Require Import List NArith ZArith Bool Lia String.
From JV Require Import Bytes Json JsonProofs JsonPrint Msg Wire WireProofs WireSpecs JsonCompact QStr Query QueryProofs.
Import ListNotations.
Local Open Scope N_scope.

(* ------------------------------------------------------------------------- *)
(* definitions *)

(* What Client.CallResult returns, with its payload *)
Inductive call_result_c :=
| CROk (result : bytes)              (* the raw JSON result *)
| CRErr (e : werr)                   (* a *jrpc2.Error (from the server or the handler) *)
| CRFail (marshalled : option bytes). (* any other Go error value; json.Marshal of it (None: Marshal fails) *)

Definition abs_result (c : call_result_c) : call_result :=
  match c with CROk r => CallOk r | CRErr e => CallErr (we_code e) | CRFail _ => CallFail end.

Inductive http_reply :=
| HJson (status : Z) (body : bytes)  (* Content-Type: application/json, the marshalled value *)
| HFallback.                         (* json.Marshal failed: 500, text/plain, err.Error() *)

Definition write_json (code : Z) (bits : option bytes) : http_reply :=
  match bits with Some b => HJson code b | None => HFallback end.

Definition parse_error_obj (msg : bytes) : werr := mk_err ParseError msg.

(* [perr]: err.Error() of the request parser's error; [pm_other]: json.Marshal of the error
   CallResult returns when it cannot marshal the parameters (unreachable from ParseQuery/ParseBasic) *)
Definition getter_reply (p : pres) (perr : bytes) (pm_other : option bytes)
           (srv : bytes -> params -> call_result_c) : http_reply :=
  match p with
  | PRErr => write_json 400%Z (Wire.marshal_error (parse_error_obj perr))
  | PROk m ps =>
    if params_marshalable ps then
      match srv m ps with
      | CROk r => write_json 200%Z (compact r)
      | CRErr e => write_json (if (we_code e =? code_method_not_found)%Z then 404 else 500)%Z (Wire.marshal_error e)
      | CRFail o => write_json 500%Z o
      end
    else write_json 500%Z pm_other
  end.

Definition abs_srv (srv : bytes -> params -> call_result_c) : bytes -> params -> call_result :=
  fun m ps => abs_result (srv m ps).

(* [bits] renders the abstract body [b] of Query.getter_status *)
Definition renders (b : body) (bits : bytes) : Prop :=
  match b with
  | BError c => exists e, we_code e = c /\ Wire.marshal_error e = Some bits
  | BResult r => compact r = Some bits
  | BOther => True
  end.

(* the error's data, if any, are one JSON value that fits one container deep (they arrived as the "data"
   member of the error object of a response record, i.e. two containers deep: exact value text, Wire.unmarshal_error) *)
Definition data_fits (e : werr) : Prop := we_data e = [] \/ tight_at 1 (we_data e) = true.

(* what the call results must satisfy for writeJSON's fallback to be unreachable: results and error data are
   JSON, other error values marshal *)
Definition srv_marshals (srv : bytes -> params -> call_result_c) : Prop :=
  (forall m ps r, srv m ps = CROk r -> valid r = true) /\
  (forall m ps e, srv m ps = CRErr e -> we_data e = [] \/ valid (we_data e) = true) /\
  (forall m ps o, srv m ps = CRFail o -> o <> None).

(* ... and for the bytes written to be valid JSON: the error data fit, and json.Marshal of another error value
   yields JSON (contract of encoding/json).  Nothing is asked of the results: compaction of JSON is JSON
   (JsonCompact.compact_valid). *)
Definition srv_json (srv : bytes -> params -> call_result_c) : Prop :=
  (forall m ps e, srv m ps = CRErr e -> data_fits e) /\
  (forall m ps t, srv m ps = CRFail (Some t) -> valid t = true).

(* ------------------------------------------------------------------------- *)
(* JSON facts *)

Lemma tight_valid s : tight_at 0 s = true -> valid s = true.
Proof.
  intros H. destruct (tight_PV _ _ H) as [c Hc]. unfold valid. now rewrite (parse_doc_PV _ _ Hc).
Qed.

Lemma compact_some_valid r : valid r = true -> exists q, compact r = Some q.
Proof. unfold valid, compact. destruct (parse_doc r) as [[[w c] w1]|]; [eauto|discriminate]. Qed.

Lemma data_fits_compact e : data_fits e ->
  we_data e = [] \/ exists q, compact (we_data e) = Some q /\ tight_at 1 q = true.
Proof. intros [H|H]; [now left|right; exact (compact_tight 1 _ H)]. Qed.

(* an error object is one JSON value (no condition on the code) *)
Lemma marshal_error_tight d e b : N.succ d <= max_depth ->
  (we_data e = [] \/ exists q, compact (we_data e) = Some q /\ tight_at (N.succ d) q = true) ->
  Wire.marshal_error e = Some b -> tight_at d b = true.
Proof.
  intros Hd Hdat Hm.
  destruct (marshal_error_text e b Hm) as (q & Hq & Hb).
  assert (Hcq : exists cq, beq (we_data e) [] = false -> PV (N.succ d) q cq []).
  { destruct (beq (we_data e) []) eqn:Ed; [exists CNull; discriminate|].
    destruct Hdat as [Hdat|(q' & Hq' & Ht)]; [rewrite Hdat in Ed; discriminate Ed|].
    rewrite (Hq eq_refl) in Hq'. injection Hq' as <-. destruct (tight_PV _ _ Ht) as [cq Hcq]. exists cq. intros _. exact Hcq. }
  destruct Hcq as [cq Hcq]. specialize (Hb cq).
  assert (HF : Forall (item_ok (N.succ d)) (err_items e q cq)).
  { unfold err_items. apply Forall_app. split; [|apply Forall_app; split].
    - constructor; [|constructor]. split; [reflexivity | apply z_dec_PV].
    - destruct (beq (we_msg e) []); constructor; [|constructor]. split; [reflexivity|].
      pose proof (escape_string_PV (we_msg e) (N.succ d) []) as H. rewrite app_nil_r in H. exact H.
    - destruct (beq (we_data e) []) eqn:Ed; constructor; [|constructor]. split; [reflexivity | exact (Hcq eq_refl)]. }
  assert (Hne : err_items e q cq <> []) by (unfold err_items; discriminate).
  pose proof (obj_PV d _ [] Hne Hd HF) as Hpv. rewrite app_nil_r, <- Hb in Hpv.
  exact (PV_tight _ _ _ Hpv).
Qed.

Lemma marshal_error_valid e b : data_fits e -> Wire.marshal_error e = Some b -> valid b = true.
Proof.
  intros Hd Hm. apply tight_valid. apply (marshal_error_tight 0 e b depth_le_1 (data_fits_compact e Hd) Hm).
Qed.

(* a Go string after a trip through json.Marshal / json.Unmarshal: itself when it is UTF-8
   (otherwise with the invalid bytes replaced by U+FFFD) *)
Definition readback (s : bytes) : bytes :=
  if valid_utf8 s then s else match unmarshal_string (escape_string s) with Some (Some x) => x | _ => [] end.

(* the 400 body: always marshals, always JSON, and reads back as code -32700 + the message
   (as encoding/json reads it: invalid UTF-8 replaced) *)
Lemma parse_error_body perr :
  exists b, Wire.marshal_error (parse_error_obj perr) = Some b /\ valid b = true /\
    unmarshal_error b =
      (Some {| we_code := ParseError;
               we_msg := readback perr; we_data := [] |}, true).
Proof.
  destruct (marshal_error_no_data (parse_error_obj perr) eq_refl) as [b Hb].
  exists b. split; [exact Hb|].
  assert (Hrt : err_rt_at 0 (parse_error_obj perr)).
  { split; [unfold int32_ok, parse_error_obj, mk_err, ParseError; cbn [we_code]; lia|now left]. }
  destruct (error_codec_spec 0 _ b depth_le_1 Hrt Hb) as [Ht Hu].
  split; [now apply tight_valid|]. rewrite Hu. reflexivity.
Qed.

(* ------------------------------------------------------------------------- *)
(* the theorems *)

(* status: whenever JSON is written, its status is the one of the abstract model (total:
   every request, every parser result, every call result), and the bytes render the
   abstract body *)
Lemma getter_reply_refines p perr o srv st bits :
  getter_reply p perr o srv = HJson st bits ->
  st = fst (getter_status p (abs_srv srv)) /\ renders (snd (getter_status p (abs_srv srv))) bits /\
  In st [200; 400; 404; 500]%Z.
Proof.
  unfold getter_reply, getter_status, abs_srv, write_json.
  destruct p as [|m ps].
  - destruct (Wire.marshal_error (parse_error_obj perr)) as [b|] eqn:E; [|discriminate].
    intros [= <- <-]. cbn [fst snd renders]. split; [reflexivity|]. split; [|cbn; tauto].
    exists (parse_error_obj perr). split; [reflexivity|exact E].
  - destruct (params_marshalable ps).
    + destruct (srv m ps) as [r|e|o']; cbn [abs_result].
      * destruct (compact r) as [q|] eqn:E; [|discriminate]. intros [= <- <-]. cbn [fst snd renders].
        split; [reflexivity|]. split; [exact E|cbn; tauto].
      * destruct (Wire.marshal_error e) as [b|] eqn:E; [|discriminate]. intros [= <- <-]. cbn [fst snd renders].
        split; [reflexivity|]. split; [exists e; split; [reflexivity|exact E]|].
        destruct (we_code e =? code_method_not_found)%Z; cbn; tauto.
      * destruct o' as [t|]; [|discriminate]. intros [= <- <-]. cbn. tauto.
    + destruct o as [t|]; [|discriminate]. intros [= <- <-]. cbn. tauto.
Qed.

(* the fallback is reached only when json.Marshal fails on the value to write *)
Lemma getter_reply_no_fallback p perr o srv :
  srv_marshals srv -> (match p with PROk _ ps => params_marshalable ps = true | PRErr => True end) ->
  exists st bits, getter_reply p perr o srv = HJson st bits.
Proof.
  intros (Hr & He & Hf) Hp. unfold getter_reply, write_json. destruct p as [|m ps].
  - destruct (marshal_error_no_data (parse_error_obj perr) eq_refl) as [b ->]. eauto.
  - rewrite Hp. destruct (srv m ps) as [r|e|o'] eqn:E.
    + destruct (compact_some_valid r (Hr _ _ _ E)) as [q ->]. eauto.
    + destruct (Wire.marshal_error e) as [b|] eqn:Em; [eauto|].
      apply marshal_error_none in Em. destruct Em as [Hne Hc].
      destruct (He _ _ _ E) as [H|H]; [congruence|]. destruct (compact_some_valid _ H) as [q Hq]. congruence.
    + destruct o' as [t|]; [eauto|]. exfalso. now apply (Hf _ _ _ E).
Qed.

(* ALWAYS VALID JSON: whatever is written with Content-Type application/json is valid JSON *)
Lemma getter_reply_valid p perr o srv st bits :
  srv_json srv -> (forall t, o = Some t -> valid t = true) ->
  getter_reply p perr o srv = HJson st bits -> valid bits = true.
Proof.
  intros (He & Hf) Ho. unfold getter_reply, write_json. destruct p as [|m ps].
  - destruct (parse_error_body perr) as (b & Hb & Hv & _). rewrite Hb. now intros [= <- <-].
  - destruct (params_marshalable ps).
    + destruct (srv m ps) as [r|e|o'] eqn:E.
      * destruct (compact r) as [q|] eqn:Ec; [|discriminate]. intros [= <- <-]. exact (proj1 (compact_valid _ _ Ec)).
      * destruct (Wire.marshal_error e) as [b|] eqn:Em; [|discriminate]. intros [= <- <-].
        apply (marshal_error_valid e); [now apply (He _ _ _ E)|exact Em].
      * destruct o' as [t|]; [|discriminate]. intros [= <- <-]. now apply (Hf _ _ _ E).
    + destruct o as [t|]; [|discriminate]. intros [= <- <-]. now apply Ho.
Qed.

(* for the requests ParseQuery / ParseBasic accept or reject (the parameters are always
   marshalable: c19_method_nonempty), per status *)
Lemma getter_bytes_rules r perr o srv :
  srv_json srv -> srv_marshals srv ->
  match parse_query r with
  | PRErr => exists b, getter_reply (parse_query r) perr o srv = HJson 400%Z b /\ valid b = true /\
                       unmarshal_error b = (Some {| we_code := (-32700)%Z; we_msg := readback perr; we_data := [] |}, true)
  | PROk m ps =>
    match srv m ps with
    | CROk res => exists b, getter_reply (parse_query r) perr o srv = HJson 200%Z b /\ valid b = true /\ compact res = Some b
    | CRErr e => exists b, getter_reply (parse_query r) perr o srv = HJson (if (we_code e =? -32601)%Z then 404 else 500)%Z b /\
                           valid b = true /\ Wire.marshal_error e = Some b
    | CRFail t => exists b, getter_reply (parse_query r) perr o srv = HJson 500%Z b /\ valid b = true /\ t = Some b
    end
  end.
Proof.
  intros Hj Hm.
  destruct (parse_query r) as [|m ps] eqn:Ep.
  - destruct (parse_error_body perr) as (b & Hb & Hv & Hu). exists b.
    unfold getter_reply, write_json. rewrite Hb. split; [reflexivity|]. split; [exact Hv|].
    exact Hu.
  - pose proof (parse_query_marshalable _ _ _ Ep) as Hpm.
    destruct (getter_reply_no_fallback (PROk m ps) perr o srv Hm Hpm) as (st & bits & Hg).
    revert Hg. unfold getter_reply, write_json. rewrite Hpm.
    destruct Hj as (He & Hf).
    destruct (srv m ps) as [res|e|t] eqn:E.
    + destruct (compact res) as [q|] eqn:Ec; [|discriminate]. intros _. exists q.
      split; [reflexivity|]. split; [exact (proj1 (compact_valid _ _ Ec))|reflexivity].
    + destruct (Wire.marshal_error e) as [b|] eqn:Em; [|discriminate]. intros _. exists b.
      split; [reflexivity|]. split; [|reflexivity]. apply (marshal_error_valid e); [now apply (He _ _ _ E)|exact Em].
    + destruct t as [t|]; [|discriminate]. intros _. exists t.
      split; [reflexivity|]. split; [now apply (Hf _ _ _ E)|reflexivity].
Qed.

(* one JSON-RPC call per request, none for a request the parser rejects: the reply depends on the server only
   through the result of the single call (method, params) the parser produced *)
Lemma getter_call_locality p perr o srv1 srv2 :
  (match p with PRErr => True | PROk m ps => srv1 m ps = srv2 m ps end) ->
  getter_reply p perr o srv1 = getter_reply p perr o srv2.
Proof. destruct p as [|m ps]; [reflexivity|]. intros H. unfold getter_reply. now rewrite H. Qed.

(* ------------------------------------------------------------------------- *)
(* non-vacuity *)

Definition ex_m_ok : bytes := [111; 107].          (* "ok" *)
Definition ex_m_err : bytes := [101].              (* "e" *)
Definition ex_m_fail : bytes := [102].             (* "f" *)
Definition ex_srv_c (m : bytes) (_ : params) : call_result_c :=
  if beq m ex_m_ok then CROk [123; 32; 34; 60; 34; 58; 49; 32; 125]            (* { "<":1 } *)
  else if beq m ex_m_err then CRErr {| we_code := (-32602)%Z; we_msg := [98; 97; 100]; we_data := [91; 49; 44; 32; 50; 93] |}
  else if beq m ex_m_fail then CRFail (Some [123; 125])                        (* {} *)
  else CRErr (mk_err MethodNotFound [110; 111]).

Definition ex_rq (m : bytes) : hreq := {| hq_path := 47 :: m; hq_form := Some [] |}.

Example getter_bytes_nonvacuous :
  getter_reply (parse_query (ex_rq ex_m_ok)) [] None ex_srv_c
    = HJson 200%Z [123; 34; 92; 117; 48; 48; 51; 99; 34; 58; 49; 125] /\             (* {"<":1} *)
  getter_reply (parse_query (ex_rq ex_m_err)) [] None ex_srv_c
    = HJson 500%Z (bs "{""code"":-32602,""message"":""bad"",""data"":[1,2]}"%string) /\
  getter_reply (parse_query (ex_rq ex_m_fail)) [] None ex_srv_c = HJson 500%Z [123; 125] /\
  getter_reply (parse_query (ex_rq [122])) [] None ex_srv_c
    = HJson 404%Z (bs "{""code"":-32601,""message"":""no""}"%string) /\
  getter_reply (parse_query {| hq_path := [47]; hq_form := Some [] |}) (bs "empty method name"%string) None ex_srv_c
    = HJson 400%Z (bs "{""code"":-32700,""message"":""empty method name""}"%string) /\
  valid [123; 34; 92; 117; 48; 48; 51; 99; 34; 58; 49; 125] = true /\
  valid (bs "{""code"":-32602,""message"":""bad"",""data"":[1,2]}"%string) = true.
Proof. vm_compute. repeat split. Qed.

Example srv_json_nonvacuous : srv_json ex_srv_c /\ srv_marshals ex_srv_c.
Proof.
  unfold srv_json, srv_marshals, ex_srv_c. repeat split.
  - intros m ps e H. destruct (beq m ex_m_ok); [discriminate|]. destruct (beq m ex_m_err).
    + injection H as <-. right. vm_compute. reflexivity.
    + destruct (beq m ex_m_fail); [discriminate|]. injection H as <-. now left.
  - intros m ps t H. destruct (beq m ex_m_ok); [|destruct (beq m ex_m_err); [|destruct (beq m ex_m_fail)]]; try discriminate.
    injection H as <-. reflexivity.
  - intros m ps r H. destruct (beq m ex_m_ok); [|destruct (beq m ex_m_err); [|destruct (beq m ex_m_fail)]]; try discriminate.
    injection H as <-. vm_compute. reflexivity.
  - intros m ps e H. destruct (beq m ex_m_ok); [discriminate|]. destruct (beq m ex_m_err).
    + injection H as <-. right. vm_compute; reflexivity.
    + destruct (beq m ex_m_fail); [discriminate|]. injection H as <-. now left.
  - intros m ps o H. destruct (beq m ex_m_ok); [|destruct (beq m ex_m_err); [|destruct (beq m ex_m_fail)]]; try discriminate.
    injection H as <-. discriminate.
Qed.

(* the fallback of writeJSON (not in Query.getter_status, which says 200 / 500 + object
   there) is what a non-JSON result or non-JSON error data produce *)
Example fallback_needs_non_json :
  getter_reply (PROk [109] PNil) [] None (fun _ _ => CROk [123]) = HFallback /\
  getter_reply (PROk [109] PNil) [] None (fun _ _ => CRErr {| we_code := 1%Z; we_msg := []; we_data := [123] |}) = HFallback /\
  getter_status (PROk [109] PNil) (abs_srv (fun _ _ => CROk [123])) = (200%Z, BResult [123]).
Proof. vm_compute. repeat split. Qed.
