(* Sanity examples for the log acceptor http/HcAccept.v (kept out of the model file). *)
From Coq Require Import List NArith ZArith Bool Arith.
From JV Require Import HttpChan HcAccept.
Import ListNotations.

(** sanity examples (not proofs of anything about the Go code) *)
Example ex_accept_ok :
  accept true 6
    [ {| w_env := Some (VSend true); w_outs := []; w_opened := 0; w_closed := 0 |};
      {| w_env := Some (VSend true); w_outs := []; w_opened := 0; w_closed := 0 |};
      {| w_env := Some (VDo 0 (DoStatus 200)); w_outs := []; w_opened := 1; w_closed := 0 |};
      {| w_env := Some (VDo 1 (DoStatus 500)); w_outs := []; w_opened := 2; w_closed := 0 |};
      {| w_env := None; w_outs := [VRecv 1 RecvBadStatus]; w_opened := 2; w_closed := 1 |};
      {| w_env := Some VClose; w_outs := [VCloseRet]; w_opened := 2; w_closed := 2 |} ]
  = Accepted [ {| phase := CReturned; gs := [Done (DoStatus 200) DDrained; Done (DoStatus 500) DRecv];
                  opened := 2; closedb := 2; wg := 0 |} ].
Proof. vm_compute. reflexivity. Qed.

(* the F11 behaviour (body of a drained response left open) is rejected at the snapshot ... *)
Example ex_accept_rejects_F11 :
  match accept true 6
    [ {| w_env := Some (VSend true); w_outs := []; w_opened := 0; w_closed := 0 |};
      {| w_env := Some (VDo 0 (DoStatus 200)); w_outs := []; w_opened := 1; w_closed := 0 |};
      {| w_env := Some VClose; w_outs := [VCloseRet]; w_opened := 1; w_closed := 0 |} ]
  with Rejected 2 StSnap _ => True | _ => False end.
Proof. vm_compute. exact I. Qed.
(* ... and accepted by the model with the fix switched off *)
Example ex_accept_F11_off :
  match accept false 6
    [ {| w_env := Some (VSend true); w_outs := []; w_opened := 0; w_closed := 0 |};
      {| w_env := Some (VDo 0 (DoStatus 200)); w_outs := []; w_opened := 1; w_closed := 0 |};
      {| w_env := Some VClose; w_outs := [VCloseRet]; w_opened := 1; w_closed := 0 |} ]
  with Accepted _ => True | _ => False end.
Proof. vm_compute. exact I. Qed.
(* Close that returns while a request is still inside cli.Do is rejected *)
Example ex_accept_rejects_early_return :
  match accept true 6
    [ {| w_env := Some (VSend true); w_outs := []; w_opened := 0; w_closed := 0 |};
      {| w_env := Some VClose; w_outs := [VCloseRet]; w_opened := 0; w_closed := 0 |} ]
  with Rejected 1 StOuts _ => True | _ => False end.
Proof. vm_compute. exact I. Qed.
