(* QStr: a small self-contained model of what encoding/json does when
   jhttp.parseJSONString calls json.Unmarshal([]byte(s), &string) on a value
   that starts and ends with a double quote (DQ, byte 34): the scanner accepts
   exactly one string literal (escapes backslash + one of DQ, backslash, slash,
   b, f, n, r, t, or uXXXX; no raw byte below 0x20, no raw DQ), and the decoder
   unquotes it (UTF-16 surrogate pairs combined, lone
   surrogates and every byte that does not start a well-formed UTF-8 sequence
   replaced by U+FFFD).  Definitions only; structural recursion, no fuel. *)
From Coq Require Import List NArith Bool.
From JV Require Import Bytes.
Import ListNotations.
Local Open Scope N_scope.

Definition in_range (lo hi c : N) : bool := (lo <=? c) && (c <=? hi).

(* ---- UTF-8 (Go's utf8.DecodeRune acceptance table; RFC 3629) ------------- *)
Definition is_cont (b : N) : bool := in_range 128 191 b.
Definition utf8_ok2 (b0 b1 : N) : bool := in_range 194 223 b0 && is_cont b1.
Definition utf8_ok3 (b0 b1 b2 : N) : bool :=
  in_range 224 239 b0 &&
  in_range (if b0 =? 224 then 160 else 128) (if b0 =? 237 then 159 else 191) b1 && is_cont b2.
Definition utf8_ok4 (b0 b1 b2 b3 : N) : bool :=
  in_range 240 244 b0 &&
  in_range (if b0 =? 240 then 144 else 128) (if b0 =? 244 then 143 else 191) b1 &&
  is_cont b2 && is_cont b3.

(* utf8.EncodeRune for a scalar value (callers never pass a surrogate) *)
Definition encode_rune (u : N) : bytes :=
  if u <? 128 then [u]
  else if u <? 2048 then [192 + u / 64; 128 + u mod 64]
  else if u <? 65536 then [224 + u / 4096; 128 + (u / 64) mod 64; 128 + u mod 64]
  else [240 + u / 262144; 128 + (u / 4096) mod 64; 128 + (u / 64) mod 64; 128 + u mod 64].

Definition repl : bytes := [239; 191; 189].            (* U+FFFD *)

(* ---- escapes ------------------------------------------------------------- *)
Definition hexval (c : N) : option N :=
  if in_range 48 57 c then Some (c - 48)
  else if in_range 97 102 c then Some (c - 87)
  else if in_range 65 70 c then Some (c - 55)
  else None.

Definition hex4 (a b c d : N) : option N :=
  match hexval a, hexval b, hexval c, hexval d with
  | Some x, Some y, Some z, Some w => Some (((x * 16 + y) * 16 + z) * 16 + w)
  | _, _, _, _ => None
  end.

Definition simple_escape (e : N) : option N :=
  if e =? 34 then Some 34            (* DQ *)
  else if e =? 92 then Some 92       (* backslash *)
  else if e =? 47 then Some 47       (* slash *)
  else if e =? 98 then Some 8        (* \b *)
  else if e =? 102 then Some 12      (* \f *)
  else if e =? 110 then Some 10      (* \n *)
  else if e =? 114 then Some 13      (* \r *)
  else if e =? 116 then Some 9       (* \t *)
  else None.

Definition is_surrogate (u : N) : bool := in_range 55296 57343 u.
Definition is_hi_surrogate (u : N) : bool := in_range 55296 56319 u.
Definition is_lo_surrogate (u : N) : bool := in_range 56320 57343 u.
Definition combine_surrogates (h l : N) : N := 65536 + (h - 55296) * 1024 + (l - 56320).

Definition pre (p : bytes) (o : option bytes) : option bytes := option_map (app p) o.

(* [unq inner]: the decoded string for the text between the quotes, None when
   encoding/json rejects it. *)
Fixpoint unq (s : bytes) : option bytes :=
  match s with
  | [] => Some []
  | c :: r =>
    if c =? 92 then
      match r with
      | [] => None
      | e :: r1 =>
        if e =? 117 then
          match r1 with
          | a :: b :: c' :: d :: r2 =>
            match hex4 a b c' d with
            | None => None
            | Some u =>
              if is_surrogate u then
                match r2 with
                | b1 :: u1 :: a2 :: b2 :: c2 :: d2 :: r3 =>
                  if (b1 =? 92) && (u1 =? 117) then
                    match hex4 a2 b2 c2 d2 with
                    | Some u2 =>
                      if is_hi_surrogate u && is_lo_surrogate u2
                      then pre (encode_rune (combine_surrogates u u2)) (unq r3)
                      else pre repl (unq r2)
                    | None => None
                    end
                  else pre repl (unq r2)
                | _ => pre repl (unq r2)
                end
              else pre (encode_rune u) (unq r2)
            end
          | _ => None
          end
        else match simple_escape e with
             | Some x => pre [x] (unq r1)
             | None => None
             end
      end
    else if (c <? 32) || (c =? 34) then None
    else if c <? 128 then pre [c] (unq r)
    else
      match r with
      | b1 :: r1 =>
        if utf8_ok2 c b1 then pre [c; b1] (unq r1)
        else match r1 with
             | b2 :: r2 =>
               if utf8_ok3 c b1 b2 then pre [c; b1; b2] (unq r2)
               else match r2 with
                    | b3 :: r3 =>
                      if utf8_ok4 c b1 b2 b3 then pre [c; b1; b2; b3] (unq r3)
                      else pre repl (unq r)
                    | [] => pre repl (unq r)
                    end
             | [] => pre repl (unq r)
             end
      | [] => pre repl (unq r)
      end
  end.
