(* SameResultsBridge: the hypothesis [replies_answer_own_requests] of SameResultsCli.v is what the
   Bridge model (Bridge.v, C18 own_responses) guarantees for the request records of the client model.

   Glue between the three models (each tied to the Go code by its own correspondence check; the glue
   itself is the reading of one model's output as another model's input and is stated here as
   definitions, not proved against Go):
     [req_msg]      what jmessages.parseJSON makes of a request member the client marshalled: its id, method
                    and params, no result, no error, no deferred validation error (client.go marshals
                    "jsonrpc":"2.0", a decimal id and params that passed marshalParams);
     [op_request]   the POST body of the round trip of operation n: the members [req_members] put on the wire;
     [msg_of_robj]  what the client's parseJSON makes of one response object the Bridge wrote: the object's id
                    text, its result or its error object;
     [resp_body]    the parsed body of the Bridge's HTTP response (single object / array; 204: nothing).

   [bridge_round_trips]: round trip j carried the request of operation [sender j] (an operation that reached
   Send: it has allocated one id per call), distinct round trips those of distinct operations, and its response body is what the Bridge model
   computes for it with ANY inner client+server satisfying inner_ok (whatever the handlers answer, whatever id
   the shared client has reached, whatever the batch flag).  Then every reply record answers exactly the ids of
   its own request record: [bridge_answers_own_requests]; and the composed theorem [same_results_bridge].
   [sends_answered_by_bridge] states the same coupling on the runs themselves: round trip j is the j-th successful
   Send of the client's run ([sendlog], CliSendLog.v: an operation sends at most once, so the assignment is
   injective by theorem, not by hypothesis).  [same_results]: the final theorem, which also drops the premise "the
   client did not stop" (CliNoStop.v: a client that is never closed and only handed JSON records does not stop;
   [bridge_status]: a Bridge answers 200 or 204 only).  What is NOT proved here: that operations return at all
   (liveness), and the glue definitions above against Go. *)
From Coq Require Import List NArith ZArith Bool Arith Lia Permutation DecimalFacts DecimalNat.
From JV Require Bridge BridgeProofs.
From JV Require Import HttpChan HttpChanProofs SameResults.
From JV Require Import Bytes Msg CliModel CliLemmas CliInv CliProofs CliCtx CliOps CliHist CliSend CliFed CliNoStop CliSendLog SameResultsCli.
Import ListNotations.

(** * glue *)
Definition req_msg (t : bytes * bytes * bytes) : jmsg :=
  {| j_id := fst (fst t); j_method := snd (fst t); j_params := snd t; j_error := None; j_result := []; j_err := None |}.

Definition op_record (s : CliModel.state) (o : oprec) : list jmsg :=
  map req_msg (req_members (o_specs o) (o_slots o) s).
Definition op_request (bflag : bool) (s : CliModel.state) (o : oprec) : inbound := InMsgs bflag (op_record s o).

Definition msg_of_robj (o : Bridge.robj) : jmsg :=
  {| j_id := Bridge.ro_id o; j_method := []; j_params := [];
     j_error := match Bridge.ro_body o with Bridge.RError e => Some e | Bridge.RResult _ => None end;
     j_result := match Bridge.ro_body o with Bridge.RResult r => r | Bridge.RError _ => [] end;
     j_err := None |}.

Definition resp_body (b : Bridge.shape) : inbound :=
  match b with
  | Bridge.BEmpty => InMsgs false []
  | Bridge.BSingle o => InMsgs false [msg_of_robj o]
  | Bridge.BArray l => InMsgs true (map msg_of_robj l)
  end.

(* status and parsed body of the Bridge's answer to a POST (past the gate) *)
Definition bridge_answer (inner : N -> list Bridge.spec -> list Bridge.reply) (next : N) (req : inbound) : option (Z * inbound) :=
  match Bridge.sv_out (Bridge.serve_internal inner next req) with
  | Bridge.OResp st sh => Some (st, resp_body sh)
  | _ => None
  end.

(** * ids *)
Lemma id_text_nonempty n : id_text n <> [].
Proof.
  unfold id_text. assert (H : Nat.to_uint n <> Decimal.Nil).
  { rewrite <- (DecimalNat.Unsigned.of_to n), DecimalNat.Unsigned.to_of. apply unorm_nonnil. }
  destruct (Nat.to_uint n); cbn; congruence.
Qed.

Lemma fix_id_idem x : fix_id (fix_id x) = fix_id x.
Proof. unfold fix_id. destruct (is_null x) eqn:E; [reflexivity|]. rewrite E. reflexivity. Qed.

(* the ids of the calls ParseRequests finds in a request record *)
Definition call_ids (ms : list jmsg) : list bytes :=
  map Bridge.pr_id (filter Bridge.is_call (map Bridge.parsed ms)).

Lemma parsed_req_valid t : Bridge.pr_error (Bridge.parsed (req_msg t)) = None.
Proof. reflexivity. Qed.

Lemma is_call_req t : Bridge.is_call (Bridge.parsed (req_msg t)) = negb (beq (fix_id (fst (fst t))) []).
Proof. reflexivity. Qed.

Lemma call_ids_record specs : forall sls s, length sls = nn specs ->
  (forall i, In i sls -> exists sl, slot_at s i = Some sl) ->
  call_ids (map req_msg (req_members specs sls s)) = map (slot_text s) sls.
Proof.
  unfold call_ids. induction specs as [|sp r IH]; intros sls s L Ex; cbn [req_members].
  - destruct sls; [reflexivity|discriminate].
  - unfold nn in L. cbn [filter] in L. destruct (sp_notify sp) eqn:En; cbn [negb] in L.
    + cbn [map filter]. rewrite is_call_req. cbn [fst snd]. cbn [fix_id is_null beq]. cbn.
      apply IH; auto.
    + destruct sls as [|i sls']; [discriminate|]. cbn [length] in L. injection L as L.
      destruct (Ex i (or_introl eq_refl)) as (sl & Hs). rewrite Hs.
      cbn [map filter]. rewrite is_call_req. cbn [fst snd]. rewrite fix_id_text.
      destruct (beq (id_text (sl_id sl)) []) eqn:Eb; [apply beq_eq in Eb; destruct (id_text_nonempty _ Eb)|].
      cbn [negb map]. f_equal.
      * cbn. rewrite fix_id_text. unfold slot_text. rewrite Hs. reflexivity.
      * apply IH; auto. intros i' Hi'. apply Ex. right; auto.
Qed.

Lemma filter_all {A} (p : A -> bool) l : (forall x, In x l -> p x = true) -> filter p l = l.
Proof.
  induction l as [|x l IH]; cbn; intros H; auto. rewrite (H x (or_introl eq_refl)). f_equal. apply IH. intros y Hy. apply H; auto.
Qed.

Lemma filter_nothing {A} (p : A -> bool) l : (forall x, In x l -> p x = false) -> filter p l = [].
Proof.
  induction l as [|x l IH]; cbn; intros H; auto. rewrite (H x (or_introl eq_refl)). apply IH. intros y Hy. apply H; auto.
Qed.

Lemma call_objs_ids calls : forall rs, length rs = length calls ->
  map Bridge.ro_id (Bridge.call_objs calls rs) = map Bridge.pr_id calls.
Proof.
  unfold Bridge.call_objs. induction calls as [|c calls IH]; intros [|r rs] L; cbn in *; try discriminate; auto.
  f_equal. apply IH. lia.
Qed.

Lemma reply_ids_objs l : reply_ids (map msg_of_robj l) = map (fun o => fix_id (Bridge.ro_id o)) l.
Proof.
  unfold reply_ids. rewrite filter_all.
  - rewrite map_map. reflexivity.
  - intros m Hm. apply in_map_iff in Hm. destruct Hm as (o & <- & _). reflexivity.
Qed.

Lemma body_msgs_resp sh : body_msgs (resp_body sh) = map msg_of_robj (Bridge.shape_objs sh).
Proof. destruct sh; reflexivity. Qed.

(* C18 for a request record of the client: the Bridge answers, and the reply-shaped members of the answer carry
   exactly the ids of the calls of the record, in order *)
Lemma bridge_reply_ids inner next bflag ms :
  BridgeProofs.inner_ok inner -> (forall m, In m ms -> j_err m = None) ->
  exists st body, bridge_answer inner next (InMsgs bflag ms) = Some (st, body)
    /\ reply_ids (body_msgs body) = map fix_id (call_ids ms).
Proof.
  intros Hin Hv.
  destruct (BridgeProofs.own_responses inner Hin next (InMsgs bflag ms) (map Bridge.parsed ms) eq_refl)
    as (st & sh & Eo & Eobjs & Elen & _).
  exists st, (resp_body sh). unfold bridge_answer. rewrite Eo. split; [reflexivity|].
  rewrite body_msgs_resp, reply_ids_objs, Eobjs.
  rewrite (filter_nothing Bridge.is_invalid).
  - cbn [map app]. rewrite <- (map_map Bridge.ro_id fix_id), (call_objs_ids _ _ Elen). reflexivity.
  - intros p Hp. apply in_map_iff in Hp. destruct Hp as (m & <- & Hm). unfold Bridge.is_invalid, Bridge.parsed. cbn. rewrite (Hv m Hm). reflexivity.
Qed.

Lemma op_record_valid s o m : In m (op_record s o) -> j_err m = None.
Proof. unfold op_record. intros H. apply in_map_iff in H. destruct H as (t & <- & _). reflexivity. Qed.

(* ... for the request record of an operation of the client model that has allocated an id for each of its calls
   ([ids_allocated]: true of every operation that reached Send, whatever became of it later: cnt_ok in CliSend.v,
   [reached_send_ids_allocated] below): the ids of the answer are the ids of the operation *)
Definition ids_allocated (o : oprec) : Prop := length (o_slots o) = nn (o_specs o).

Lemma bridge_answers_op c tr s n o inner next bflag :
  traces_to c tr s -> op_at s n = Some o -> ids_allocated o -> BridgeProofs.inner_ok inner ->
  exists st body, bridge_answer inner next (op_request bflag s o) = Some (st, body)
    /\ reply_ids (body_msgs body) = op_ids s n.
Proof.
  intros T Ho L Hin. unfold ids_allocated in L.
  assert (R := traces_reach _ _ _ T). destruct (invS_reach c s R) as [I S].
  destruct (bridge_reply_ids inner next bflag (op_record s o) Hin (op_record_valid s o)) as (st & body & E1 & E2).
  exists st, body. split; [exact E1|]. rewrite E2. unfold op_record.
  rewrite (call_ids_record _ _ _ L (slots_exist s n o I Ho)).
  unfold op_ids. rewrite Ho. rewrite map_map. apply map_ext_in. intros i Hi.
  destruct (slots_exist s n o I Ho i Hi) as (sl & Hs). unfold slot_text. rewrite Hs. apply fix_id_text.
Qed.

Lemma reached_send_ids_allocated c tr s n o : traces_to c tr s -> op_at s n = Some o ->
  o_pc o = PSend \/ sent o = true -> ids_allocated o.
Proof.
  intros T Ho H. destruct (invS_reach c s (traces_reach _ _ _ T)) as [_ S]. destruct (S n o Ho) as (_ & Cnt & _).
  unfold ids_allocated, cnt_ok, sent in *. destruct H as [H|H]; [rewrite H in Cnt; exact Cnt|].
  destruct (o_pc o); try discriminate; auto.
Qed.

(** * the coupling of the channel run with the client run and the Bridge model *)
Definition bridge_round_trips (s : CliModel.state) (htr : list HttpChan.label) (body : nat -> inbound) : Prop :=
  exists (sender : nat -> nat) (inner : N -> list Bridge.spec -> list Bridge.reply) (next : nat -> N) (bflag : nat -> bool),
    BridgeProofs.inner_ok inner
    /\ (forall j j', j < n_send htr -> j' < n_send htr -> sender j = sender j' -> j = j')
    /\ (forall j, j < n_send htr ->
          exists o st, op_at s (sender j) = Some o /\ ids_allocated o
            /\ bridge_answer inner (next j) (op_request (bflag j) s o) = Some (st, body j)
            /\ do_result htr j = DoStatus st).

Theorem bridge_answers_own_requests c tr s htr body :
  traces_to c tr s -> bridge_round_trips s htr body -> replies_answer_own_requests s htr body.
Proof.
  intros T (sender & inner & next & bflag & Hin & Inj & Rt). exists sender. split; [exact Inj|].
  intros j Hj _. destruct (Rt j Hj) as (o & st & Ho & Hs & Ea & _).
  destruct (bridge_answers_op c tr s (sender j) o inner (next j) (bflag j) T Ho Hs Hin) as (st' & body' & Ea' & Eids).
  rewrite Ea in Ea'. injection Ea' as _ <-. exact Eids.
Qed.

(* the statuses the Bridge produces: 200 with at least one response object, 204 with none: so over the channel
   the client is never handed a transport error, and a 204 round trip answers an operation without calls *)
Lemma bridge_status inner next req st body :
  bridge_answer inner next req = Some (st, body) ->
  (st = 200%Z /\ body_msgs body <> []) \/ (st = 204%Z /\ body_msgs body = []).
Proof.
  unfold bridge_answer, Bridge.serve_internal. destruct (Bridge.parse_requests req) as [ps|]; cbn; [|discriminate].
  assert (A : forall s m st sh, Bridge.assemble s m = (st, sh) ->
            (st = 200%Z /\ body_msgs (resp_body sh) <> []) \/ (st = 204%Z /\ body_msgs (resp_body sh) = [])).
  { intros s m st0 sh. unfold Bridge.assemble. destruct (s ++ m) as [|x [|y l]]; intros [= <- <-]; cbn; auto; left; split; auto; discriminate. }
  destruct (Bridge.pl_specs (Bridge.plan ps)) as [|sp specs].
  - destruct (Bridge.assemble _ _) as [st0 sh] eqn:Ea. cbn. intros [= <- <-]. eapply A; eauto.
  - destruct (Bridge.map_back _ _) as [mapped|]; cbn; [|discriminate].
    destruct (Bridge.assemble _ _) as [st0 sh] eqn:Ea. cbn. intros [= <- <-]. eapply A; eauto.
Qed.

(* THE COMPOSED THEOREM: the client model over jhttp.Channel against the Bridge model returns what the client
   model returns over a direct connection that delivers the same reply records in request order. *)
Theorem same_results_bridge body htr hs c1 tr1 s1 c2 tr2 s2 :
  HttpChan.run HttpChan.init htr = Some hs -> ~ In HClose htr -> forallb is_done (gs hs) = true ->
  traces_to c1 tr1 s1 -> traces_to c2 tr2 s2 ->
  feeds tr1 = http_feeds body htr -> feeds tr2 = direct_feeds body htr ->
  bridge_round_trips s1 htr body ->
  forall n o1 o2, op_at s1 n = Some o1 -> op_at s2 n = Some o2 ->
    o_ctx o1 = None -> o_ctx o2 = None -> err s1 = None -> err s2 = None ->
    op_ids s1 n = op_ids s2 n ->
    (forall r1 r2, In (ORet n (RetCall r1)) (hist s1) -> In (ORet n (RetCall r2)) (hist s2) -> r1 = r2)
    /\ (forall rs1 rs2, In (ORet n (RetBatch rs1)) (hist s1) -> In (ORet n (RetBatch rs2)) (hist s2) -> rs1 = rs2).
Proof.
  intros R NC AD T1 T2 F1 F2 B.
  apply (same_results_cli body htr hs c1 tr1 s1 c2 tr2 s2 R NC AD T1 T2 F1 F2).
  exact (bridge_answers_own_requests c1 tr1 s1 htr body T1 B).
Qed.

(** * non-vacuity *)
(* two round trips whose responses are handed to Recv in the reverse order *)
Definition ex_htr : list HttpChan.label :=
  [HSend; HSend; HDo 1 (DoStatus 200); HDo 0 (DoStatus 200); HRecv 1; HRecv 0].
(* a Call (id 1) and a Batch of two calls (ids 2, 3) around a notification *)
Definition ex_ops : list CliModel.label :=
  [LOp 0 KCall [ex_spec 49]; LOp 1 KBatch [ex_spec 50; ex_nspec; ex_spec 51];
   LRelReq 0; LRelReq 1; LRelReq 1; LRelSend 0; LRelSend 1].
(* the local server behind the bridge: method "m" answers by params *)
Definition ex_inner := Bridge.table_inner [[109%N]]
  [([91;49;93]%N, Bridge.RResult [55%N]); ([91;50;93]%N, Bridge.RError (Bridge.err_code 7%Z)); ([91;51;93]%N, Bridge.RResult [57%N])].
Definition ex_rmsg (id : bytes) (e : option werr) (r : bytes) : jmsg :=
  {| j_id := id; j_method := []; j_params := []; j_error := e; j_result := r; j_err := None |}.
Definition ex_body (j : nat) : inbound :=
  match j with
  | 0 => InMsgs false [ex_rmsg [49%N] None [55%N]]
  | _ => InMsgs true [ex_rmsg [50%N] (Some (Bridge.err_code 7%Z)) []; ex_rmsg [51%N] None [57%N]]
  end.
(* over the channel: the batch's answer first; over the direct connection: in request order; different schedules *)
Definition ex_tr_http : list CliModel.label :=
  ex_ops ++ [LFeed (FMsg (ex_body 1)); LFeed (FMsg (ex_body 0)); LRelDeliver 0; LRelDeliver 1].
Definition ex_tr_direct : list CliModel.label :=
  ex_ops ++ [LFeed (FMsg (ex_body 0)); LRelDeliver 0; LFeed (FMsg (ex_body 1)); LRelDeliver 1].

Example same_results_bridge_nonvacuous :
  exists hs s1 s2 o1 o2 p1 p2,
    HttpChan.run HttpChan.init ex_htr = Some hs /\ ~ In HClose ex_htr /\ forallb is_done (gs hs) = true
    /\ traces_to ex_cfg ex_tr_http s1 /\ traces_to ex_cfg ex_tr_direct s2
    /\ feeds ex_tr_http = http_feeds ex_body ex_htr /\ feeds ex_tr_direct = direct_feeds ex_body ex_htr
    /\ http_feeds ex_body ex_htr <> direct_feeds ex_body ex_htr
    /\ bridge_round_trips s1 ex_htr ex_body
    /\ op_at s1 0 = Some o1 /\ op_at s2 0 = Some o2 /\ o_ctx o1 = None /\ o_ctx o2 = None
    /\ op_at s1 1 = Some p1 /\ op_at s2 1 = Some p2 /\ o_ctx p1 = None /\ o_ctx p2 = None
    /\ err s1 = None /\ err s2 = None /\ op_ids s1 0 = op_ids s2 0 /\ op_ids s1 1 = op_ids s2 1
    /\ In (ORet 0 (RetCall (RRes [55%N]))) (hist s1) /\ In (ORet 0 (RetCall (RRes [55%N]))) (hist s2)
    /\ In (ORet 1 (RetBatch [([50%N], RErr (Bridge.err_code 7%Z)); ([51%N], RRes [57%N])])) (hist s1)
    /\ In (ORet 1 (RetBatch [([50%N], RErr (Bridge.err_code 7%Z)); ([51%N], RRes [57%N])])) (hist s2).
Proof.
  destruct (HttpChan.run HttpChan.init ex_htr) as [hs|] eqn:Eh; [|revert Eh; vm_compute; discriminate].
  destruct (run (init_of ex_cfg) ex_tr_http) as [[s1 oss1]|] eqn:E1; [|revert E1; vm_compute; discriminate].
  destruct (run (init_of ex_cfg) ex_tr_direct) as [[s2 oss2]|] eqn:E2; [|revert E2; vm_compute; discriminate].
  exists hs, s1, s2. revert Eh E1 E2. vm_compute. intros Eh E1 E2. injection Eh as <-. injection E1 as <- <-. injection E2 as <- <-.
  do 4 eexists. split; [reflexivity|]. split; [intros H; repeat (destruct H as [H|H]; [discriminate|]); exact H|].
  split; [reflexivity|]. split; [eexists; reflexivity|]. split; [eexists; reflexivity|].
  split; [reflexivity|]. split; [reflexivity|]. split; [discriminate|].
  split.
  { exists (fun j => j), ex_inner, (fun j => N.of_nat (2 * j + 1)), (fun j => negb (j =? 0)).
    split; [apply BridgeProofs.table_inner_ok|]. split; [auto|].
    intros j Hj. assert (Hj' : j < 2) by exact Hj. destruct j as [|[|j]]; [| |lia].
    - eexists; eexists. split; [reflexivity|]. split; [vm_compute; reflexivity|]. split; vm_compute; reflexivity.
    - eexists; eexists. split; [reflexivity|]. split; [vm_compute; reflexivity|]. split; vm_compute; reflexivity. }
  vm_compute. repeat (split; [reflexivity|]).
  repeat split; auto 10.
Qed.

(** * against the Bridge the client does not stop unless it is closed *)
Lemma bridge_answer_msgs inner next req st body : bridge_answer inner next req = Some (st, body) -> exists b ms, body = InMsgs b ms.
Proof.
  unfold bridge_answer. destruct (Bridge.sv_out _) as [| | | |st0 sh]; try discriminate. intros [= _ <-].
  destruct sh; cbn; eauto.
Qed.

Lemma good_labels tr : Forall not_close tr -> Forall good_feed (feeds tr) -> Forall good_label tr.
Proof.
  induction tr as [|l tr IH]; cbn; intros H1 H2; constructor; inversion H1 as [|x y A1 A2]; subst.
  - destruct l; cbn in *; auto. inversion H2; auto.
  - apply IH; auto. unfold feeds in H2. cbn in H2. apply Forall_app in H2. apply H2.
Qed.

(* every reply handed to the client for a round trip answered by the Bridge is a parsed JSON record *)
Lemma bridge_feed_good s htr body j :
  bridge_round_trips s htr body -> j < n_send htr -> nonempty_reply htr j = true ->
  good_feed (feed_of body (reply_of htr j)).
Proof.
  intros (sender & inner & next & bflag & Hin & Inj & Rt) Hj Hne.
  destruct (Rt j Hj) as (o & st & Ho & Hs & Ea & Ed).
  unfold feed_of, reply_of. cbn [fst snd]. unfold nonempty_reply in Hne. rewrite Ed in *. cbn in Hne.
  destruct (bridge_status _ _ _ _ _ Ea) as [[-> _]|[-> _]]; [|discriminate]. cbn.
  destruct (bridge_answer_msgs _ _ _ _ _ Ea) as (b & ms & ->). exists b, ms. reflexivity.
Qed.

Lemma bridge_feeds_good s htr hs body :
  HttpChan.run HttpChan.init htr = Some hs -> ~ In HClose htr -> forallb is_done (gs hs) = true ->
  bridge_round_trips s htr body ->
  Forall good_feed (http_feeds body htr) /\ Forall good_feed (direct_feeds body htr).
Proof.
  intros R NC AD B.
  assert (D : Forall good_feed (direct_feeds body htr)).
  { unfold direct_feeds, direct_stream. rewrite map_map. apply Forall_forall. intros f Hf.
    apply in_map_iff in Hf. destruct Hf as (j & <- & Hj). apply filter_In in Hj. destruct Hj as [Hj Hne].
    apply in_seq in Hj. eapply bridge_feed_good; eauto. lia. }
  split; auto.
  unfold http_feeds, recv_stream. rewrite map_map. apply Forall_forall. intros f Hf.
  apply in_map_iff in Hf. destruct Hf as (j & <- & Hj). apply (recvd_in _ _ R NC AD) in Hj.
  apply filter_In in Hj. destruct Hj as [Hj Hne]. apply in_seq in Hj. eapply bridge_feed_good; eauto. lia.
Qed.

(* THE COMPOSED THEOREM without the premise "the client did not stop": neither run issues a Close.
   (A Bridge answers 200 or 204 only, so jhttp.Channel never reports a transport error to the client.) *)
Theorem same_results_bridge_open body htr hs c1 tr1 s1 c2 tr2 s2 :
  HttpChan.run HttpChan.init htr = Some hs -> ~ In HClose htr -> forallb is_done (gs hs) = true ->
  traces_to c1 tr1 s1 -> traces_to c2 tr2 s2 ->
  feeds tr1 = http_feeds body htr -> feeds tr2 = direct_feeds body htr ->
  bridge_round_trips s1 htr body ->
  Forall not_close tr1 -> Forall not_close tr2 ->
  forall n o1 o2, op_at s1 n = Some o1 -> op_at s2 n = Some o2 ->
    o_ctx o1 = None -> o_ctx o2 = None ->
    op_ids s1 n = op_ids s2 n ->
    (forall r1 r2, In (ORet n (RetCall r1)) (hist s1) -> In (ORet n (RetCall r2)) (hist s2) -> r1 = r2)
    /\ (forall rs1 rs2, In (ORet n (RetBatch rs1)) (hist s1) -> In (ORet n (RetBatch rs2)) (hist s2) -> rs1 = rs2).
Proof.
  intros R NC AD T1 T2 F1 F2 B C1 C2 n o1 o2 Ho1 Ho2 X1 X2 Ids.
  destruct (bridge_feeds_good s1 htr hs body R NC AD B) as [G1 G2].
  assert (E1 : err s1 = None).
  { apply (never_closed_never_stops c1 tr1 s1 T1). apply good_labels; auto. rewrite F1. exact G1. }
  assert (E2 : err s2 = None).
  { apply (never_closed_never_stops c2 tr2 s2 T2). apply good_labels; auto. rewrite F2. exact G2. }
  exact (same_results_bridge body htr hs c1 tr1 s1 c2 tr2 s2 R NC AD T1 T2 F1 F2 B n o1 o2 Ho1 Ho2 X1 X2 E1 E2 Ids).
Qed.

(** * the coupling stated on the runs: the j-th Send of the client's run is round trip j *)
(* [sendlog (init_of c) tr] (CliSendLog.v): the operations whose Send put a record on the transport, in order.
   One HSend per entry; the response of round trip j is the Bridge's answer to the record of the j-th entry. *)
Definition sends_answered_by_bridge (c : config) (tr : list CliModel.label) (s : CliModel.state)
           (htr : list HttpChan.label) (body : nat -> inbound) : Prop :=
  exists (inner : N -> list Bridge.spec -> list Bridge.reply) (next : nat -> N) (bflag : nat -> bool),
    BridgeProofs.inner_ok inner
    /\ length (sendlog (init_of c) tr) = n_send htr
    /\ forall j n, nth_error (sendlog (init_of c) tr) j = Some n ->
         exists o st, op_at s n = Some o
           /\ bridge_answer inner (next j) (op_request (bflag j) s o) = Some (st, body j)
           /\ do_result htr j = DoStatus st.

Theorem sends_are_round_trips c tr s htr body :
  traces_to c tr s -> sends_answered_by_bridge c tr s htr body -> bridge_round_trips s htr body.
Proof.
  intros T (inner & next & bflag & Hin & Len & Rt). destruct (sendlog_spec c tr s T) as [ND Hlog].
  set (log := sendlog (init_of c) tr) in *.
  exists (fun j => nth j log 0), inner, next, bflag. split; [exact Hin|]. split.
  - intros j j' Hj Hj' E. rewrite <- Len in Hj, Hj'. exact (proj1 (NoDup_nth log 0) ND j j' Hj Hj' E).
  - intros j Hj. rewrite <- Len in Hj. assert (E := nth_error_nth' log 0 Hj).
    destruct (Rt j _ E) as (o & st & Ho & Ea & Ed). exists o, st. split; [exact Ho|]. split; [|split; auto].
    destruct (Hlog _ (nth_error_In _ _ E)) as (o' & Ho' & _ & L). rewrite Ho in Ho'. injection Ho' as <-. exact L.
Qed.

(* C18 composed with the client's own discipline: every reply record answers exactly the ids of the request
   record its round trip carried, and these belong to one operation each *)
Theorem sends_answer_own_requests c tr s htr body :
  traces_to c tr s -> sends_answered_by_bridge c tr s htr body -> replies_answer_own_requests s htr body.
Proof.
  intros T B. apply (bridge_answers_own_requests c tr s htr body T). exact (sends_are_round_trips c tr s htr body T B).
Qed.

(* THE PROPERTY.  [htr]: any run of the jhttp.Channel model in which the channel stays open and all round trips
   are done (responses handed to Recv in ANY order).  [tr1]: any run of the client model (any configuration, any
   schedule) whose transport is that channel: its j-th successful Send is round trip j, answered by the Bridge
   model (any handlers: any inner_ok inner), and it is fed what Recv yields, in that order.  [tr2]: any run of the
   client model (any configuration, any schedule) fed the same reply records in request order, as over a direct
   connection.  Neither run closes the client.  Then every operation that put the same ids on its requests in
   both runs, and whose context did not end, returned in both runs the same value if it returned in both. *)
Theorem same_results body htr hs c1 tr1 s1 c2 tr2 s2 :
  HttpChan.run HttpChan.init htr = Some hs -> ~ In HClose htr -> forallb is_done (gs hs) = true ->
  traces_to c1 tr1 s1 -> traces_to c2 tr2 s2 ->
  feeds tr1 = http_feeds body htr -> feeds tr2 = direct_feeds body htr ->
  sends_answered_by_bridge c1 tr1 s1 htr body ->
  Forall not_close tr1 -> Forall not_close tr2 ->
  forall n o1 o2, op_at s1 n = Some o1 -> op_at s2 n = Some o2 ->
    o_ctx o1 = None -> o_ctx o2 = None ->
    op_ids s1 n = op_ids s2 n ->
    (forall r1 r2, In (ORet n (RetCall r1)) (hist s1) -> In (ORet n (RetCall r2)) (hist s2) -> r1 = r2)
    /\ (forall rs1 rs2, In (ORet n (RetBatch rs1)) (hist s1) -> In (ORet n (RetBatch rs2)) (hist s2) -> rs1 = rs2).
Proof.
  intros R NC AD T1 T2 F1 F2 B.
  apply (same_results_bridge_open body htr hs c1 tr1 s1 c2 tr2 s2 R NC AD T1 T2 F1 F2).
  exact (sends_are_round_trips c1 tr1 s1 htr body T1 B).
Qed.

(* the same with Close operations allowed, for operations that returned while the client was not stopped *)
Theorem same_results_if_not_stopped body htr hs c1 tr1 s1 c2 tr2 s2 :
  HttpChan.run HttpChan.init htr = Some hs -> ~ In HClose htr -> forallb is_done (gs hs) = true ->
  traces_to c1 tr1 s1 -> traces_to c2 tr2 s2 ->
  feeds tr1 = http_feeds body htr -> feeds tr2 = direct_feeds body htr ->
  sends_answered_by_bridge c1 tr1 s1 htr body ->
  forall n o1 o2, op_at s1 n = Some o1 -> op_at s2 n = Some o2 ->
    o_ctx o1 = None -> o_ctx o2 = None -> err s1 = None -> err s2 = None ->
    op_ids s1 n = op_ids s2 n ->
    (forall r1 r2, In (ORet n (RetCall r1)) (hist s1) -> In (ORet n (RetCall r2)) (hist s2) -> r1 = r2)
    /\ (forall rs1 rs2, In (ORet n (RetBatch rs1)) (hist s1) -> In (ORet n (RetBatch rs2)) (hist s2) -> rs1 = rs2).
Proof.
  intros R NC AD T1 T2 F1 F2 B.
  apply (same_results_bridge body htr hs c1 tr1 s1 c2 tr2 s2 R NC AD T1 T2 F1 F2).
  exact (sends_are_round_trips c1 tr1 s1 htr body T1 B).
Qed.

(* non-vacuity of the premises of [same_results] on the example above *)
Example same_results_nonvacuous :
  exists hs s1 s2,
    HttpChan.run HttpChan.init ex_htr = Some hs /\ ~ In HClose ex_htr /\ forallb is_done (gs hs) = true
    /\ traces_to ex_cfg ex_tr_http s1 /\ traces_to ex_cfg ex_tr_direct s2
    /\ feeds ex_tr_http = http_feeds ex_body ex_htr /\ feeds ex_tr_direct = direct_feeds ex_body ex_htr
    /\ sendlog (init_of ex_cfg) ex_tr_http = [0; 1]
    /\ sends_answered_by_bridge ex_cfg ex_tr_http s1 ex_htr ex_body
    /\ Forall not_close ex_tr_http /\ Forall not_close ex_tr_direct
    /\ recv_stream ex_htr = [(1, DoStatus 200); (0, DoStatus 200)]
    /\ direct_stream ex_htr = [(0, DoStatus 200); (1, DoStatus 200)].
Proof.
  destruct (HttpChan.run HttpChan.init ex_htr) as [hs|] eqn:Eh; [|revert Eh; vm_compute; discriminate].
  destruct (run (init_of ex_cfg) ex_tr_http) as [[s1 oss1]|] eqn:E1; [|revert E1; vm_compute; discriminate].
  destruct (run (init_of ex_cfg) ex_tr_direct) as [[s2 oss2]|] eqn:E2; [|revert E2; vm_compute; discriminate].
  exists hs, s1, s2. revert Eh E1 E2. vm_compute. intros Eh E1 E2. injection Eh as <-. injection E1 as <- <-. injection E2 as <- <-.
  split; [reflexivity|]. split; [intros H; repeat (destruct H as [H|H]; [discriminate|]); exact H|].
  split; [reflexivity|]. split; [eexists; reflexivity|]. split; [eexists; reflexivity|].
  split; [reflexivity|]. split; [reflexivity|].
  assert (L : sendlog (init_of ex_cfg) ex_tr_http = [0; 1]) by (vm_compute; reflexivity).
  split; [exact L|]. split.
  { exists ex_inner, (fun j => N.of_nat (2 * j + 1)), (fun j => negb (j =? 0)).
    split; [apply BridgeProofs.table_inner_ok|]. split; [reflexivity|].
    intros j n Hj. destruct j as [|[|j]]; cbn in Hj; [| |destruct j; discriminate]; injection Hj as <-.
    - eexists; eexists. split; [reflexivity|]. split; vm_compute; reflexivity.
    - eexists; eexists. split; [reflexivity|]. split; vm_compute; reflexivity. }
  split; [repeat constructor|]. split; [repeat constructor|]. split; reflexivity.
Qed.
