(* C13 - wire encoding: every emitted message is one-line valid JSON-RPC that parses back.
   Property theorems only; the lemmas are in json/JsonProofs.v, json/JsonPrint.v, wire/WireProofs.v
   and wire/WireSpecs.v.

   Domain (DESIGN.md section 7, "not findings"): method names valid UTF-8; ids JSON string / number
   literals, valid UTF-8; params / results = what json.Marshal returns for a marshalable value (a
   compact JSON text, valid UTF-8); error data valid JSON whose compaction is valid UTF-8, or not
   JSON at all (err_sendable: since fix F16/F17 jmessage.toJSON writes such an error WITHOUT its
   data instead of failing; c13_encoder_total, c13_undeliverable_error_data_dropped,
   c13_parse_back_undeliverable_error_data; the behaviour before the fix is enc_msg_gen false /
   enc_msgs_gen false: c13_refuted_without_F16); error messages are ARBITRARY byte strings.

   Nothing is _partial any more.  c13_parse_back, c13_independent and c13_parse_back_batch are
   unconditional: the JSON-level round-trip specifications they used to assume (spec_members,
   spec_string, spec_error_codec, spec_obj_tight, spec_raw_value, and spec_elements / spec_depth_mono)
   are proved for all inputs in wire/WireSpecs.v from the parse-of-print lemmas of json/JsonPrint.v
   (text of a parsed value, fuel sufficiency, depth monotonicity, prefix extension, pstr/unquote of
   the escaper).

   The round-trip domain msg_rt_at d (WireProofs.v; msg_rt = msg_rt_at 0) is the precise one:
   valid UTF-8 method, string/number id, params and result valid JSON values at the depth where
   they sit, and, for an error that is emitted, an int32 code and data whose compaction is valid at
   ITS depth.  Both conditions on the error are necessary (c13_error_domain_needed_code, c13_nesting_limit_counts_envelope_error_data): the first
   statement of spec_error_codec had neither and is refuted (WireSpecs.spec_error_codec_unrestricted_refuted),
   so the former _partial theorems were vacuous.  The depth conditions are encoding/json's nesting
   limit of 10000, which counts the envelope: a value nested 9999 deep is marshalled and then rejected
   inside the message that carries it (c13_nesting_limit_counts_envelope_error_data, c13_nesting_limit_counts_envelope_batch); hence the batch theorem
   asks for msg_rt_at 1 (members sit one container deep).

   Null ids and null params (wire/WireMore.v).  Every server reply to an invalid or id-less member
   carries "id":null and a client whose params value marshals to null writes "params":null; msg_ok
   and msg_rt exclude both.  The domains msg_ok' (id_ok' i := i = null_bytes \/ id_ok i) and
   msg_rt_at' (id null / string / number literal; params absent, null, or an array / object value)
   admit them: c13_single_line_null_ids, c13_parse_back_null_ids, c13_parse_back_batch_null_ids.
   The member parser keeps the null id (j_id = "null"), fixID reads it as absent (pr_id = [], the
   message counts as a notification when it is a request); null params are read as absent by the
   member parser: the message denoted is canon (norm m). *)
From Coq Require Import List NArith ZArith Bool.
From JV Require Import Bytes Json JsonProofs JsonPrint JsonTree JsonEq Msg Wire WireProofs WireSpecs WireMore WireLink WireBridge.
From JV Require SrvModel SrvLemmas CliModel CliLemmas ErrsMore.
Import ListNotations.
Local Open Scope N_scope.

Theorem c13_single_line : forall (batch : bool) (ms : list jmsg), Forall msg_ok ms ->
  exists b, enc_msgs batch ms = Some b /\ (forall c, In c b -> 32 <= c) /\ valid_utf8 b = true.
Proof. exact single_line_msgs. Qed.
Print Assumptions c13_single_line.

Theorem c13_single_line_response : forall (id : bytes) (err : option werr) (result : bytes),
  msg_ok {| j_id := id; j_method := []; j_params := []; j_error := err; j_result := result; j_err := None |} ->
  exists b, response_marshal id err result = Some b /\ (forall c, In c b -> 32 <= c) /\ valid_utf8 b = true.
Proof. exact single_line_response. Qed.
Print Assumptions c13_single_line_response.

Theorem c13_single_line_error : forall e : werr, err_ok e ->
  exists b, marshal_error e = Some b /\ (forall c, In c b -> 32 <= c) /\ valid_utf8 b = true.
Proof. exact single_line_error. Qed.
Print Assumptions c13_single_line_error.

Theorem c13_encoder_total :
  (forall m : jmsg, exists b, enc_msg m = Some b) /\
  (forall (batch : bool) (ms : list jmsg), exists b, enc_msgs batch ms = Some b).
Proof. exact (conj enc_msg_total enc_msgs_total). Qed.
Print Assumptions c13_encoder_total.

Theorem c13_undeliverable_error_data_dropped : forall (m : jmsg) (e : werr),
  j_error m = Some e -> marshal_error e = None ->
  enc_msg m = enc_msg (set_error (Some (drop_data e)) m).
Proof. exact enc_msg_drops_undeliverable_data. Qed.
Print Assumptions c13_undeliverable_error_data_dropped.

Theorem c13_undeliverable_error_data_domain : forall e : werr,
  marshal_error e = None <-> (we_data e <> [] /\ compact (we_data e) = None).
Proof. exact marshal_error_none. Qed.
Print Assumptions c13_undeliverable_error_data_domain.

Theorem c13_parse_back_undeliverable_error_data : forall (m : jmsg) (e : werr) (b : bytes),
  j_error m = Some e -> marshal_error e = None -> msg_rt (set_error (Some (drop_data e)) m) ->
  enc_msg m = Some b ->
  parse_member b = canon m /\ parse_msgs b = InMsgs false [canon m] /\
  parse_requests b = Parsed [to_parsed (canon m)].
Proof. exact parse_back_undeliverable_data. Qed.
Print Assumptions c13_parse_back_undeliverable_error_data.

Theorem c13_refuted_without_F16 :
  marshal_error bad_data_err = None /\
  enc_msg_gen false bad_data_rsp = None /\
  enc_msgs_gen false true [good_rsp; bad_data_rsp] = None /\
  (exists b, enc_msgs_gen false true [good_rsp] = Some b) /\
  (exists b, enc_msgs true [good_rsp; bad_data_rsp] = Some b /\
             parse_msgs b = InMsgs true [canon good_rsp; canon bad_data_rsp]) /\
  j_error (canon bad_data_rsp) = Some {| we_code := 7%Z; we_msg := [110; 111]; we_data := [] |}.
Proof. exact encoder_refuted_without_F16. Qed.
Print Assumptions c13_refuted_without_F16.

Theorem c13_compact_is_one_line : forall p q : bytes, compact p = Some q -> no_ctl q = true.
Proof. exact compact_no_ctl. Qed.
Print Assumptions c13_compact_is_one_line.

Theorem c13_escape_any_string : forall s : bytes,
  no_ctl (escape_string s) = true /\ valid_utf8 (escape_string s) = true.
Proof. exact (fun s => conj (escape_string_no_ctl s) (escape_string_valid s)). Qed.
Print Assumptions c13_escape_any_string.

Theorem c13_parse_back : forall (m : jmsg) (b : bytes), msg_rt m -> enc_msg m = Some b ->
  parse_member b = canon m /\ parse_msgs b = InMsgs false [canon m] /\
  parse_requests b = Parsed [to_parsed (canon m)].
Proof. exact parse_back. Qed.
Print Assumptions c13_parse_back.

Theorem c13_independent : forall (m : jmsg) (b : bytes), msg_rt m -> enc_msg m = Some b ->
  exists eb, raw_members b = Some (msg_fields m eb) /\ lookup k_jsonrpc (msg_fields m eb) = Some v20 /\
             unmarshal_string v20 = Some (Some version).
Proof. exact independent. Qed.
Print Assumptions c13_independent.

Theorem c13_parse_back_batch : forall (ms : list jmsg) (b : bytes),
  Forall (msg_rt_at 1) ms -> enc_msgs true ms = Some b ->
  parse_msgs b = InMsgs true (map canon ms) /\
  parse_requests b = Parsed (map (fun m => to_parsed (canon m)) ms).
Proof. exact parse_back_batch. Qed.
Print Assumptions c13_parse_back_batch.

Theorem c13_string_round_trip : forall s : bytes, valid_utf8 s = true ->
  unmarshal_string (escape_string s) = Some (Some s) /\ forall d, tight_at d (escape_string s) = true.
Proof. exact string_round_trip. Qed.
Print Assumptions c13_string_round_trip.

Theorem c13_error_round_trip : forall (d : N) (e : werr) (b : bytes),
  N.succ d <= max_depth -> err_rt_at d e -> marshal_error e = Some b ->
  tight_at d b = true /\
  unmarshal_error b = (Some {| we_code := we_code e;
                               we_msg := if valid_utf8 (we_msg e) then we_msg e else snd (true, match unmarshal_string (escape_string (we_msg e)) with Some (Some x) => x | _ => [] end);
                               we_data := match compact (we_data e) with Some q => if beq (we_data e) [] then [] else q | None => [] end |}, true).
Proof. exact error_codec_spec. Qed.
Print Assumptions c13_error_round_trip.

Theorem c13_error_domain_needed_code :
  exists m b, msg_rt_no_error m /\ enc_msg m = Some b /\ parse_member b <> canon m.
Proof. exact parse_back_refuted_without_rt_error. Qed.
Print Assumptions c13_error_domain_needed_code.

Theorem c13_nesting_limit_counts_envelope_error_data :
  msg_rt_no_error (deep_rsp 9999) /\ int32_ok (we_code (deep_err 9999)) /\
  compact (deep 9999) = Some (deep 9999) /\
  (exists b, enc_msg (deep_rsp 9999) = Some b /\ parse_msgs b = InBad /\ j_err (parse_member b) <> j_err (canon (deep_rsp 9999))) /\
  msg_rt (deep_rsp 9998).
Proof. exact parse_back_refuted_deep_error_data. Qed.
Print Assumptions c13_nesting_limit_counts_envelope_error_data.

Theorem c13_nesting_limit_counts_envelope_batch :
  msg_rt (deep_req 9999) /\
  (exists b, enc_msg (deep_req 9999) = Some b /\ parse_msgs b = InMsgs false [canon (deep_req 9999)]) /\
  (exists b, enc_msgs true [deep_req 9999] = Some b /\ parse_msgs b = InBad) /\
  msg_rt_at 1 (deep_req 9998).
Proof. exact parse_back_batch_refuted_at_depth_0. Qed.
Print Assumptions c13_nesting_limit_counts_envelope_batch.

Theorem c13_parse_requests_total : forall s : bytes,
  (parse s = None -> parse_requests s = TopError e_invalid_request) /\
  (parse s <> None -> exists batch raws, split_msgs s = Some (batch, raws) /\
                                         parse_requests s = Parsed (map (fun r => to_parsed (parse_member r)) raws)).
Proof. exact parse_requests_total. Qed.
Print Assumptions c13_parse_requests_total.

Theorem c13_flags_agree : forall (s : bytes) (batch : bool) (raws : list bytes),
  split_msgs s = Some (batch, raws) ->
  parse_msgs s = InMsgs batch (map parse_member raws) /\
  parse_requests s = Parsed (map (fun r => to_parsed (parse_member r)) raws) /\
  forall r, In r raws ->
    (pr_error (to_parsed (parse_member r)) = None <-> allowed_errs r = []) /\
    (forall e, pr_error (to_parsed (parse_member r)) = Some e ->
       In e (allowed_errs r) /\ (we_code e = ParseError \/ we_code e = InvalidRequest)).
Proof. exact flags_agree. Qed.
Print Assumptions c13_flags_agree.

(* -- null ids, null params ------------------------------------------------------------------ *)

Theorem c13_single_line_null_ids : forall (batch : bool) (ms : list jmsg), Forall msg_ok' ms ->
  exists b, enc_msgs batch ms = Some b /\ (forall c, In c b -> 32 <= c) /\ valid_utf8 b = true.
Proof. exact single_line_msgs'. Qed.
Print Assumptions c13_single_line_null_ids.

Theorem c13_parse_back_null_ids : forall (m : jmsg) (b : bytes), msg_rt' m -> enc_msg m = Some b ->
  parse_member b = canon (norm m) /\ parse_msgs b = InMsgs false [canon (norm m)] /\
  parse_requests b = Parsed [to_parsed (canon (norm m))] /\
  j_id (parse_member b) = j_id m /\
  (j_id m = null_bytes -> pr_id (to_parsed (parse_member b)) = [] /\
                          is_notification (parse_member b) = is_req_or_notif (parse_member b)) /\
  (j_params m = null_bytes -> j_params (parse_member b) = []).
Proof. exact parse_back'. Qed.
Print Assumptions c13_parse_back_null_ids.

Theorem c13_parse_back_batch_null_ids : forall (batch : bool) (ms : list jmsg) (b : bytes),
  (batch = true \/ length ms <> 1%nat) ->
  Forall (msg_rt_at' 1) ms -> enc_msgs batch ms = Some b ->
  parse_msgs b = InMsgs true (map (fun m => canon (norm m)) ms) /\
  parse_requests b = Parsed (map (fun m => to_parsed (canon (norm m))) ms).
Proof. exact parse_back_batch'. Qed.
Print Assumptions c13_parse_back_batch_null_ids.

(* a client whose params value marshals to null writes "params":null; it parses back as absent *)
Theorem c13_params_null_is_absent : forall (m : jmsg) (b : bytes),
  msg_rt' m -> j_method m <> [] -> j_params m = null_bytes -> enc_msg m = Some b ->
  (exists pre, b = pre ++ s_params ++ null_bytes ++ [125]) /\
  parse_member b = canon (set_params [] m) /\ j_params (parse_member b) = [] /\
  parse_msgs b = InMsgs false [canon (set_params [] m)].
Proof. exact params_null_is_absent. Qed.
Print Assumptions c13_params_null_is_absent.

(* client batches (flag unset) with zero or several members are arrays too *)
Theorem c13_parse_back_batch_flag : forall (ms : list jmsg) (b : bytes), length ms <> 1%nat ->
  Forall (msg_rt_at' 1) ms -> enc_msgs false ms = Some b ->
  enc_msgs true ms = Some b /\
  parse_msgs b = InMsgs true (map (fun m => canon (norm m)) ms) /\
  parse_requests b = Parsed (map (fun m => to_parsed (canon (norm m))) ms).
Proof. exact parse_back_batch_flag. Qed.
Print Assumptions c13_parse_back_batch_flag.

(* -- valid JSON, explicitly (Json.valid = json.Valid: the independent validator) ---------------- *)

Theorem c13_valid_json : forall (m : jmsg) (b : bytes), msg_rt' m -> enc_msg m = Some b -> Json.valid b = true.
Proof. exact valid_json_msg. Qed.
Print Assumptions c13_valid_json.

Theorem c13_valid_json_batch : forall (batch : bool) (ms : list jmsg) (b : bytes),
  Forall (msg_rt_at' 1) ms -> enc_msgs batch ms = Some b -> Json.valid b = true.
Proof. exact valid_json_msgs. Qed.
Print Assumptions c13_valid_json_batch.

(* what json.Marshal(RawMessage) / json.Compact returns is one tight JSON value ... *)
Theorem c13_compact_is_tight : forall p q : bytes, compact p = Some q -> tight_at 0 q = true /\ Json.valid q = true.
Proof. exact (fun p q H => conj (compact_tight p q H) (compact_valid p q H)). Qed.
Print Assumptions c13_compact_is_tight.

(* ... valid d containers down as long as its nesting depth leaves room (limit 10000, envelope counted) *)
Theorem c13_nesting_bound : forall (s : bytes) (d : N),
  tight_at 0 s = true -> nest s + d <= max_depth -> tight_at d s = true.
Proof. exact tight_shift. Qed.
Print Assumptions c13_nesting_bound.

(* on the single-line domain, under the nesting bound: produced, valid JSON, one line, valid UTF-8 *)
Theorem c13_valid_json_ok : forall (batch : bool) (ms : list jmsg), Forall msg_ok' ms -> Forall (nest_ok 1) ms ->
  exists b, enc_msgs batch ms = Some b /\ Json.valid b = true /\ (forall c, In c b -> 32 <= c) /\ valid_utf8 b = true.
Proof. exact valid_json_ok. Qed.
Print Assumptions c13_valid_json_ok.

(* every id the member parser accepts (every id a server can echo) is null, a string or a number literal *)
Theorem c13_ids_echoed_are_literals : forall data : bytes,
  let i := j_id (parse_member data) in
  i = [] \/ i = null_bytes \/ is_str_lit i = true \/ is_num_lit i = true.
Proof. exact ids_echoed_are_literals. Qed.
Print Assumptions c13_ids_echoed_are_literals.

(* -- bridge replies ------------------------------------------------------------------------------ *)

(* jhttp marshalError: the reply to a statically invalid member *)
Theorem c13_bridge_error_reply : forall (r : parsed_request) (e : werr) (b : bytes),
  pr_error r = Some e -> (pr_id r = [] \/ id_rt' (pr_id r)) -> err_rt_at 1 e -> bridge_marshal_error r = Some b ->
  Json.valid b = true /\
  parse_member b = canon (bridge_err_msg r e) /\ parse_msgs b = InMsgs false [canon (bridge_err_msg r e)] /\
  j_id (parse_member b) = (if beq (pr_id r) [] then null_bytes else pr_id r) /\
  j_error (parse_member b) = j_error (canon (bridge_err_msg r e)) /\
  (valid_utf8 (pr_id r) = true -> err_sendable e -> (forall c, In c b -> 32 <= c) /\ valid_utf8 b = true).
Proof. exact bridge_error_reply. Qed.
Print Assumptions c13_bridge_error_reply.

(* ... for every member ParseRequests flags, whatever the input *)
Theorem c13_bridge_error_reply_parsed : forall (data : bytes) (rs : list parsed_request) (r : parsed_request) (e : werr),
  parse_requests data = Parsed rs -> In r rs -> pr_error r = Some e ->
  exists b, bridge_marshal_error r = Some b /\ Json.valid b = true /\
    parse_member b = canon (bridge_err_msg r e) /\ parse_msgs b = InMsgs false [canon (bridge_err_msg r e)] /\
    j_id (parse_member b) = (if beq (pr_id r) [] then null_bytes else pr_id r) /\
    (valid_utf8 (pr_id r) = true -> we_data e = [] -> (forall c, In c b -> 32 <= c) /\ valid_utf8 b = true).
Proof. exact bridge_error_reply_parsed. Qed.
Print Assumptions c13_bridge_error_reply_parsed.

(* -- ParseRequests: one entry per batch member, in order, tied to the JSON value ------------------ *)

Theorem c13_member_correspondence : forall (s : bytes) (xs : list json), parse s = Some (JArr xs) ->
  exists raws, split_msgs s = Some (true, raws) /\ Forall2 (fun r x => parse r = Some x) raws xs.
Proof. exact member_correspondence. Qed.
Print Assumptions c13_member_correspondence.

Theorem c13_member_correspondence_single : forall (s : bytes) (x : json), parse s = Some x -> (forall xs, x <> JArr xs) ->
  exists raw, split_msgs s = Some (false, [raw]) /\ parse raw = Some x.
Proof. exact member_correspondence_single. Qed.
Print Assumptions c13_member_correspondence_single.

(* -- JSON-equality: compaction (json.Compact, json.Marshal of a RawMessage) keeps the VALUE ------- *)

Theorem c13_compact_json_equal : forall p q : bytes, compact p = Some q -> parse q = parse p.
Proof. exact compact_parse. Qed.
Print Assumptions c13_compact_json_equal.

Theorem c13_html_escape_keeps_string : forall b : bytes, body_okb b = true -> unquote (html_esc b) = unquote b.
Proof. exact unquote_html_esc. Qed.
Print Assumptions c13_html_escape_keeps_string.

Theorem c13_error_data_json_equal : forall (m : jmsg) (b : bytes) (e : werr), msg_rt' m -> enc_msg m = Some b ->
  j_error m = Some e -> j_method m = [] -> j_result m = [] ->
  exists e', j_error (parse_member b) = Some e' /\ we_code e' = we_code e /\
             (valid_utf8 (we_msg e) = true -> we_msg e' = we_msg e) /\
             (we_data e = [] -> we_data e' = []) /\
             (we_data e <> [] -> we_data e' <> [] /\ parse (we_data e') = parse (we_data e) /\ parse (we_data e) <> None).
Proof. exact error_data_json_equal. Qed.
Print Assumptions c13_error_data_json_equal.

(* -- "every message the library emits": the transition models linked to the encoder (wire/WireLink.v) -- *)

(* what the encoder writes for a non-empty list of messages is one complete JSON-RPC message: a JSON
   object or a non-empty array of objects (also C10's "whole messages", at byte level) *)
Theorem c13_emitted_record_is_message : forall (batch : bool) (ms : list jmsg) (b : bytes),
  ms <> [] -> Forall (msg_rt_at' 1) ms -> enc_msgs batch ms = Some b ->
  is_message_json b /\ Json.valid b = true /\
  parse_msgs b = InMsgs (batch || (1 <? length ms)%nat) (map (fun m => canon (norm m)) ms).
Proof. exact msgs_message_json. Qed.
Print Assumptions c13_emitted_record_is_message.

(* server responses: every OSend of every window of every reachable state *)
Theorem c13_server_sends_messages : forall wild c s l s' os ok b rs,
  SrvLemmas.reach c s -> SrvModel.step s l = Some (s', os) -> In (SrvModel.OSend ok b rs) os ->
  rs <> [] /\
  (Forall (rsp_rt wild) rs ->
   exists bytes, enc_msgs b (map (jmsg_of_rsp wild) rs) = Some bytes /\
     is_message_json bytes /\ Json.valid bytes = true /\
     parse_msgs bytes = InMsgs (b || (1 <? length rs)%nat) (map (fun r => canon (jmsg_of_rsp wild r)) rs)).
Proof. exact srv_send_bytes. Qed.
Print Assumptions c13_server_sends_messages.

(* server pushes: the id is absent (Notify) or a decimal number literal (Callback) *)
Theorem c13_server_pushes_messages : forall s l s' os ok id m p,
  SrvModel.step s l = Some (s', os) -> In (SrvModel.OSendReq ok id m p) os ->
  (id = [] \/ is_num_lit id = true) /\
  (req_rt 0 m p ->
   exists bytes, enc_msg (jmsg_of_req id m p) = Some bytes /\ is_message_json bytes /\ Json.valid bytes = true /\
     parse_msgs bytes = InMsgs false [canon (norm (jmsg_of_req id m p))]).
Proof. exact srv_sendreq_bytes. Qed.
Print Assumptions c13_server_pushes_messages.

(* client requests and batches: at least one member, flag = "not exactly one", ids absent or number literals *)
Theorem c13_client_sends_messages : forall c s l s' os ok batch ms,
  CliLemmas.reach c s -> CliModel.step s l = Some (s', os) -> In (CliModel.OSendReq ok batch ms) os ->
  ms <> [] /\ batch = negb (length ms =? 1)%nat /\
  Forall (fun mem => fst (fst mem) = [] \/ is_num_lit (fst (fst mem)) = true) ms /\
  (Forall (fun mem => req_rt 1 (snd (fst mem)) (snd mem)) ms ->
   exists bytes, enc_msgs batch (map jmsg_of_mem ms) = Some bytes /\
     is_message_json bytes /\ Json.valid bytes = true /\
     parse_msgs bytes = InMsgs batch (map (fun mem => canon (norm (jmsg_of_mem mem))) ms)).
Proof. exact cli_sendreq_bytes. Qed.
Print Assumptions c13_client_sends_messages.

(* client replies to server callbacks *)
Theorem c13_client_callback_replies : forall s l s' os ok id o,
  CliModel.step s l = Some (s', os) -> In (CliModel.OSendRsp ok id o) os ->
  id_rt' id -> cbout_rt o ->
  exists bytes, enc_msg (jmsg_of_cbout id o) = Some bytes /\ is_message_json bytes /\ Json.valid bytes = true /\
    parse_msgs bytes = InMsgs false [canon (jmsg_of_cbout id o)].
Proof. exact cli_sendrsp_bytes. Qed.
Print Assumptions c13_client_callback_replies.

(* -- bridge bodies (wire/WireBridge.v): json.Marshal of a Response = compaction of what the encoder writes;
      writeJSON = compaction of one reply, or an array of compacted replies ------------------------------- *)

Theorem c13_compact_keeps_utf8 : forall p q : bytes, compact p = Some q -> valid_utf8 p = true -> valid_utf8 q = true.
Proof. exact ErrsMore.compact_valid_utf8. Qed.
Print Assumptions c13_compact_keeps_utf8.

Theorem c13_bridge_member_reply : forall id err result t,
  let m := {| j_id := id; j_method := []; j_params := []; j_error := err; j_result := result; j_err := None |} in
  msg_rt_at' 1 m -> response_marshal id err result = Some t ->
  exists t', bridge_member_response id err result = Some t' /\
    tight_at 1 t' = true /\ no_ctl t' = true /\ parse t' = parse t /\ parse_member t = canon m /\
    (msg_ok' m -> valid_utf8 t' = true).
Proof. exact bridge_member_reply. Qed.
Print Assumptions c13_bridge_member_reply.

Theorem c13_bridge_body_reply : forall msgs : list bytes, msgs <> [] -> Forall (fun m => tight_at 1 m = true) msgs ->
  exists body, bridge_body msgs = Some body /\ no_ctl body = true /\ Json.valid body = true /\
    (Forall (fun m => valid_utf8 m = true) msgs -> valid_utf8 body = true) /\
    match msgs with
    | [m] => parse body = parse m
    | _ => exists xs, parse body = Some (JArr xs) /\ Forall2 (fun m x => parse m = Some x) msgs xs
    end.
Proof. exact bridge_body_reply. Qed.
Print Assumptions c13_bridge_body_reply.

(* finding (benign): an id holding < > & U+2028 U+2029 comes back JSON-equal, not byte-equal *)
Theorem c13_bridge_rewrites_html_ids :
  exists t t', response_marshal [34; 60; 34] None [49] = Some t /\ bridge_member_response [34; 60; 34] None [49] = Some t' /\
    t <> t' /\ parse t' = parse t /\
    j_id (parse_member t) = [34; 60; 34] /\ j_id (parse_member t') = [34; 92; 117; 48; 48; 51; 99; 34] /\
    parse [34; 92; 117; 48; 48; 51; 99; 34] = parse [34; 60; 34].
Proof. exact bridge_rewrites_html_ids. Qed.
Print Assumptions c13_bridge_rewrites_html_ids.
