(* C13 - wire encoding: every emitted message is one-line valid JSON-RPC that parses back.
   Property theorems only; the lemmas are in json/JsonProofs.v and wire/WireProofs.v.

   Domain (DESIGN.md section 7, "not findings"): method names valid UTF-8; ids JSON string / number
   literals, valid UTF-8; params / results = what json.Marshal returns for a marshalable value (a
   compact JSON text, valid UTF-8); error data valid JSON whose compaction is valid UTF-8; error
   messages are ARBITRARY byte strings.

   _partial theorems: c13_parse_back_partial and c13_independent_partial are proved at the wire level
   over explicit JSON-level round-trip specifications of the model's parser on printed object texts
   (WireProofs.spec_members, spec_string, spec_error_codec, spec_obj_tight,
   spec_raw_value; spec_lit_tight is proved: "parse o print" facts about coq/json/Json.v, instances closed by vm_compute in
   wire/WireExamples.v and exercised on every run by the differential harness, which feeds every
   captured encoding back to the real ParseRequests and to the model).  Full statement: the same
   conclusions without those five hypotheses, and for batches (enc_msgs true ms) as well; missing:
   the parse-of-print / prefix-extension / unquote-of-escape lemmas for Json.pval. *)
From Coq Require Import List NArith ZArith Bool.
From JV Require Import Bytes Json JsonProofs Msg Wire WireProofs.
Import ListNotations.
Local Open Scope N_scope.

Theorem c13_single_line : forall (batch : bool) (ms : list jmsg), Forall msg_ok ms ->
  exists b, enc_msgs batch ms = Some b /\ (forall c, In c b -> 32 <= c) /\ valid_utf8 b = true.
Proof. exact single_line_msgs. Qed.
Print Assumptions c13_single_line.

Theorem c13_single_line_response : forall (id : bytes) (err : option werr) (result : bytes),
  msg_ok {| j_id := id; j_method := []; j_params := []; j_error := err; j_result := result; j_err := None |} ->
  exists b, response_marshal id err result = Some b /\ (forall c, In c b -> 32 <= c) /\ valid_utf8 b = true.
Proof. exact single_line_response. Qed.
Print Assumptions c13_single_line_response.

Theorem c13_single_line_error : forall e : werr, err_ok e ->
  exists b, marshal_error e = Some b /\ (forall c, In c b -> 32 <= c) /\ valid_utf8 b = true.
Proof. exact single_line_error. Qed.
Print Assumptions c13_single_line_error.

Theorem c13_compact_is_one_line : forall p q : bytes, compact p = Some q -> no_ctl q = true.
Proof. exact compact_no_ctl. Qed.
Print Assumptions c13_compact_is_one_line.

Theorem c13_escape_any_string : forall s : bytes,
  no_ctl (escape_string s) = true /\ valid_utf8 (escape_string s) = true.
Proof. exact (fun s => conj (escape_string_no_ctl s) (escape_string_valid s)). Qed.
Print Assumptions c13_escape_any_string.

Theorem c13_parse_back_partial :
  spec_members -> spec_string -> spec_error_codec -> spec_obj_tight -> spec_raw_value ->
  forall (m : jmsg) (b : bytes), msg_rt m -> enc_msg m = Some b ->
    parse_member b = canon m /\ parse_msgs b = InMsgs false [canon m] /\
    parse_requests b = Parsed [to_parsed (canon m)].
Proof. exact parse_back_partial. Qed.
Print Assumptions c13_parse_back_partial.

Theorem c13_independent_partial :
  spec_members -> spec_string -> spec_error_codec ->
  forall (m : jmsg) (b : bytes), msg_rt m -> enc_msg m = Some b ->
    exists eb, raw_members b = Some (msg_fields m eb) /\ lookup k_jsonrpc (msg_fields m eb) = Some v20 /\
               unmarshal_string v20 = Some (Some version).
Proof. exact independent_partial. Qed.
Print Assumptions c13_independent_partial.

Theorem c13_parse_requests_total : forall s : bytes,
  (parse s = None -> parse_requests s = TopError e_invalid_request) /\
  (parse s <> None -> exists batch raws, split_msgs s = Some (batch, raws) /\
                                         parse_requests s = Parsed (map (fun r => to_parsed (parse_member r)) raws)).
Proof. exact parse_requests_total. Qed.
Print Assumptions c13_parse_requests_total.

Theorem c13_flags_agree : forall (s : bytes) (batch : bool) (raws : list bytes),
  split_msgs s = Some (batch, raws) ->
  parse_msgs s = InMsgs batch (map parse_member raws) /\
  parse_requests s = Parsed (map (fun r => to_parsed (parse_member r)) raws) /\
  forall r, In r raws ->
    (pr_error (to_parsed (parse_member r)) = None <-> allowed_errs r = []) /\
    (forall e, pr_error (to_parsed (parse_member r)) = Some e ->
       In e (allowed_errs r) /\ (we_code e = ParseError \/ we_code e = InvalidRequest)).
Proof. exact flags_agree. Qed.
Print Assumptions c13_flags_agree.
