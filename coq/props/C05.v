(* C05 - Client: every operation completes exactly once under cancel, Close and failure.
   Property theorems only; every proof is `exact <lemma>` (lemmas in coq/cli/CliC05.v, CliProofs.v, CliLive.v,
   CliHist.v, CliWg.v, CliStop.v, CliCloseWait.v, CliGo.v, CliFail.v, CliBatch.v, CliProgress.v, CliProgress2.v; invariants in coq/cli/CliInv.v, CliRet.v, CliCtx.v, CliOps.v, CliHist.v, CliWg.v,
   CliStop.v). *)
From Coq Require Import List NArith ZArith Bool Arith.
From RecordUpdate Require Import RecordUpdate.
From JV Require Import Bytes Msg CliModel CliLemmas CliInv CliRet CliProofs CliC05 CliCtx CliOps CliHist CliLive CliWg CliSend CliNoStop CliStep CliStop CliObs CliCloseWait CliGo CliOpTrans CliFail CliBatch CliProgress CliProgress2.
Import ListNotations.

(* EXACTLY ONE RETURN (full statement).  In every history of every schedule each operation (Call, Batch, Notify,
   Close) returns at most once, with one value, and is then finished; an unfinished operation has not returned.
   Liveness at quiescence ([quiescent s]: no goroutine is parked at a scheduling point and no unhooked progress is
   possible): an operation that has not returned is either [blocked_call] - a Call/Batch in wait() on a request
   that is still pending and unwritten, whose watcher is blocked on a live context, whose caller's context has not
   ended, on a client that has not stopped - or [blocked_close] - a Close in done.Wait() with wg <> 0 (reader,
   delivery or callback goroutines still alive).  Hence nothing blocks once the replies were delivered (all slots
   written), or the context ended, or the client stopped: such an operation has returned, exactly once; and a Close
   has returned exactly once as soon as wg = 0. *)
Theorem c05_returns_once : forall c tr s, traces_to c tr s ->
  (forall n, ret_count n (hist s) <= 1)
  /\ (forall n r r', In (ORet n r) (hist s) -> In (ORet n r') (hist s) -> r = r')
  /\ (forall n r, In (ORet n r) (hist s) -> exists o, op_at s n = Some o /\ o_ret o = Some r /\ o_pc o = PDone)
  /\ (forall n o, op_at s n = Some o -> o_pc o <> PDone -> ret_count n (hist s) = 0)
  /\ (quiescent s = true ->
        (forall n o, op_at s n = Some o -> o_pc o <> PDone -> blocked_call s o \/ blocked_close s o)
        /\ (forall n o, op_at s n = Some o -> o_kind o <> KClose ->
              (forall i, In i (o_slots o) -> slot_val s i <> None) \/ o_ctx o <> None \/ err s <> None ->
              o_pc o = PDone /\ ret_count n (hist s) = 1)
        /\ (forall n o, op_at s n = Some o -> o_kind o = KClose -> wg s = 0 -> o_pc o = PDone /\ ret_count n (hist s) = 1)).
Proof. exact returns_once_full. Qed.
Print Assumptions c05_returns_once.

(* Close at quiescence: the wait group counts exactly the reader, the parked deliveries and the live callback
   handlers; a Close still blocked in done.Wait() ([blocked_close], see c05_returns_once) is waiting for a reader that
   is blocked in Recv with nothing to read, on a channel whose Close does not unblock Recv (the peer has not closed
   its end) - so on a channel whose Close unblocks Recv, or once the reader has exited, no Close is left blocked *)
Theorem c05_close_returns : forall c tr s, traces_to c tr s -> quiescent s = true ->
  wg s = rdc s + cnt deliv_parked (delivs s) + cnt cb_alive (cbs s)
  /\ (forall n o, op_at s n = Some o -> blocked_close s o -> rd s = RIdle /\ ch_in s = [] /\ c_unblock s = false /\ err s <> None)
  /\ (forall n o b, op_at s n = Some o -> o_pc o = PCloseWait b -> c_unblock s = true \/ rd s = RExited -> False).
Proof. exact close_returns. Qed.
Print Assumptions c05_close_returns.

(* OUTCOME AND ONCANCEL (full statement, global counting form, every trace).
   For every allocated id the number of OnCancel observations in the whole history is 1 if the hook is configured
   and the slot with that id was written by its watcher, and 0 otherwise (never for an answered request); it is 0
   for ids that were never allocated; the hook sees the watcher's value.  The value returned by a Call is
   call_res of its slot's value v: if v came from a delivery (v_src = SPeer j k) it is the payload of member k of
   inbound record j, whose id is the request's id, and OnCancel never ran for it; if it came from the watcher
   (SWatch) then the slot's context ended with cause cw because the caller's context ended with cw or the client
   stopped ([cause]), v is the error of that cause - context.Canceled / DeadlineExceeded by cw, or an internal
   error carrying an interesting stop cause ([wval]) - and OnCancel ran exactly once iff configured. *)
Theorem c05_watch_outcome : forall c tr s, traces_to c tr s ->
  (forall i sl, slot_at s i = Some sl ->
     oc_count (id_text (sl_id sl)) (hist s) = if c_oncancel s && watch_written sl then 1 else 0)
  /\ (forall key, (forall i sl, slot_at s i = Some sl -> id_text (sl_id sl) <> key) -> oc_count key (hist s) = 0)
  /\ (forall key e, In (OOnCancel key e) (hist s) ->
        exists i sl v, slot_at s i = Some sl /\ id_text (sl_id sl) = key /\ sl_buf sl = Some v /\ v_src v = SWatch /\ v_err v = e)
  /\ (forall n r, In (ORet n (RetCall r)) (hist s) ->
        exists o i rest sl v, op_at s n = Some o /\ o_slots o = i :: rest /\ slot_at s i = Some sl /\ sl_buf sl = Some v
          /\ r = call_res v
          /\ match v_src v with
             | SPeer j k => exists m, member_at s j k m /\ is_req_or_notif m = false
                                      /\ fix_id (j_id m) = id_text (sl_id sl) /\ v = val_of_member j k m
                                      /\ oc_count (id_text (sl_id sl)) (hist s) = 0
             | SWatch => exists cw, sl_pctx sl = Some cw /\ cause s sl cw /\ wval s sl cw v
                                    /\ oc_count (id_text (sl_id sl)) (hist s) = if c_oncancel s then 1 else 0
             end).
Proof. exact watch_outcome. Qed.
Print Assumptions c05_watch_outcome.

(* local form (ingredient of c05_watch_outcome): the watcher's critical section in any reachable state: too late
   (request no longer pending) -> nothing written, no OnCancel; otherwise it removes exactly its own entry, writes
   the context's own error (context.Canceled / DeadlineExceeded by the slot context's first cause; an internal
   error after a transport failure), and OnCancel runs exactly once in that window iff configured *)
Theorem c05_watch_local : forall c tr s, traces_to c tr s -> forall i sl s',
  slot_at s i = Some sl -> step_raw s (LRelWatch i) = Some s' ->
  sl_watch sl = WParked
  /\ (assoc (id_text (sl_id sl)) (pending s) = None ->
        s' = set_slot i (fun sl => set sl_watch (fun _ => WDone) sl) s)
  /\ (forall i', assoc (id_text (sl_id sl)) (pending s) = Some i' ->
        let e := watch_werr (err s) (sl_pctx sl) in
        i' = i /\ crash s' = None
        /\ slot_val s' i = Some (mkVal (id_text (sl_id sl)) (Some e) [] SWatch)
        /\ assoc (id_text (sl_id sl)) (pending s') = None
        /\ hist s' = hist s ++ (if c_oncancel s then [OOnCancel (id_text (sl_id sl)) (Some e)] else [])).
Proof. exact (fun c tr s T i sl s' => watch_spec s i sl s' (inv1_reach c s (traces_reach c tr s T))). Qed.
Print Assumptions c05_watch_local.

(* Call maps the watcher's error back to the context sentinel *)
Theorem c05_ctx_sentinel : forall e w,
  call_res (mkVal e (Some (ctx_werr (Some w))) [] SWatch) = RCtx w
  /\ call_res (mkVal e (Some (ctx_werr None)) [] SWatch) = RCtx WCancel.
Proof. exact call_res_ctx. Qed.
Print Assumptions c05_ctx_sentinel.

(* an operation that reaches send on a stopped client returns the stop error, transmits nothing and
   registers nothing *)
Theorem c05_after_stop : forall s n c s', err s = Some c -> step_raw s (LRelSend n) = Some s' ->
  hist s' = hist s ++ [ORet n (RetFail (EStopped c))] /\ pending s' = pending s /\ slots s' = slots s.
Proof. exact send_after_stop. Qed.
Print Assumptions c05_after_stop.

(* THE FIRST STOP CAUSE WINS.  Once c.err is set no step of any kind changes it (one step; any continuation of
   the trace), and stopLocked closed the channel exactly if the client has stopped: [closes s] is 1 once stopped and 0
   before - never more than one Close of the channel. *)
Theorem c05_err_stable : forall c tr s, traces_to c tr s ->
  (forall l s' os c0, step s l = Some (s', os) -> err s = Some c0 -> err s' = Some c0)
  /\ (forall tr2 s2 c0, traces_to c (tr ++ tr2) s2 -> err s = Some c0 -> err s2 = Some c0)
  /\ closes s = (if is_some (err s) then 1 else 0) /\ closes s <= 1.
Proof. exact err_stable. Qed.
Print Assumptions c05_err_stable.

(* ONSTOP RUNS EXACTLY ONCE PER CLIENT, WITH THE FIRST STOP CAUSE (every trace).  [onstop_count h]: number of OnStop
   observations in h.  It is at most 1; it is 1 exactly when the client has stopped and no Close whose stopLocked
   recorded the cause is still in done.Wait() ([stopper_waiting]: pc = PCloseWait true; in Go OnStop runs in the
   goroutine that stopped the client - the reader right after stopLocked, a Close after done.Wait() returned); such a
   waiting Close means the cause is errClientStopped and OnStop has not run yet; once the reader stopped the client
   or the stopping Close has returned OnStop has run; and its argument is the recorded (first, c05_err_stable) cause. *)
Theorem c05_onstop_once : forall c tr s, traces_to c tr s ->
  onstop_count (hist s) <= 1
  /\ onstop_count (hist s) + cnt stopper_waiting (ops s) = (if is_some (err s) then 1 else 0)
  /\ (forall n o, op_at s n = Some o -> o_pc o = PCloseWait true -> err s = Some SCClosed /\ onstop_count (hist s) = 0)
  /\ (err s <> None -> (forall n o, op_at s n = Some o -> o_pc o <> PCloseWait true) -> onstop_count (hist s) = 1)
  /\ (forall c0, In (OOnStop c0) (hist s) -> err s = Some c0).
Proof. exact onstop_once. Qed.
Print Assumptions c05_onstop_once.

(* CLOSE RETURNS ONLY AFTER ALL CALLBACK HANDLERS HAVE RETURNED (every trace, no quiescence hypothesis).
   In every state the wait group counts exactly the reader (unless exited), the deliveries not yet run and the callback
   handlers that have not finished.  If some Close has returned then the wait group is 0: the reader has exited, every
   delivery is done, every callback handler is done (none alive), the client has stopped, and the value Close returned
   is the stop cause unless it is uninteresting ([close_ret]).  Ordered form: in the part of the history after the
   return of a Close there is no channel operation (OSendReq / OSendRsp / OClose), no callback handler start and no
   OnNotify ([after_close_forbidden]). *)
Theorem c05_close_waits : forall c tr s, traces_to c tr s ->
  wg s = rdc s + cnt deliv_parked (delivs s) + cnt cb_alive (cbs s)
  /\ (forall n r, In (ORet n (RetClose r)) (hist s) ->
        wg s = 0 /\ rd s = RExited /\ (forall d, In d (delivs s) -> d_st d = DDone) /\ (forall cb, In cb (cbs s) -> cb_st cb = CbDone)
        /\ err s <> None /\ RetClose r = close_ret s)
  /\ (forall h1 n r h2, hist s = h1 ++ ORet n (RetClose r) :: h2 -> forall o, In o h2 -> after_close_forbidden o = false).
Proof. exact close_waits. Qed.
Print Assumptions c05_close_waits.

(* LEAVING NO GOROUTINE BEHIND.  [gcount s] counts the logical goroutines alive: the reader unless exited, deliveries
   not yet run, callback handlers not finished, context watchers (waitComplete) blocked or parked, callers that have
   not returned.  In a quiescent state of a stopped client whose reader is able to exit - the channel's Close unblocks
   Recv (the property's assumption "the peer closes its end after seeing EOF"), or the reader has exited - there is
   none: the reader has exited, every operation has returned, every watcher has ended (the first wait() on a response
   settles it and cancels its context, and a returned operation has settled every request it registered), every
   delivery and every callback handler is done. *)
Theorem c05_no_goroutine_left : forall c tr s, traces_to c tr s -> quiescent s = true -> err s <> None ->
  (c_unblock s = true \/ rd s = RExited) ->
  gcount s = 0
  /\ rd s = RExited /\ (forall o, In o (ops s) -> o_pc o = PDone) /\ (forall sl, In sl (slots s) -> watch_alive sl = false)
  /\ (forall d, In d (delivs s) -> d_st d = DDone) /\ (forall cb, In cb (cbs s) -> cb_st cb = CbDone).
Proof. exact no_goroutine_left. Qed.
Print Assumptions c05_no_goroutine_left.

(* THE OUTCOME OF AN OPERATION THAT FAILED (every trace).  If operation n returned the error f then it is finished with
   that value; none of the ids it allocated is registered, pending, written or watched; no request record whose Send
   succeeded carries one of its ids ([no_record_with s o P]: no [OSendReq ok ..] of the history with P ok has a member
   whose id is the id of a slot of o); and by cases on f:
     EStopped c0 (operation on a stopped client): c0 is the recorded stop cause and NO request record at all carries
       its ids - it failed without transmitting;
     ESendFail ("a non-nil error if its channel failed"): its complete request record [req_obs false s o] is in the
       history with a failed Send - the transport refused it;
     EBadParams: one of its specs does not marshal, and nothing was transmitted;
     EEmptyBatch: it has no specs and allocated nothing. *)
Theorem c05_fail_outcome : forall c tr s, traces_to c tr s -> forall n f, In (ORet n (RetFail f)) (hist s) ->
  exists o, op_at s n = Some o /\ o_pc o = PDone /\ o_ret o = Some (RetFail f)
    /\ (forall i, In i (o_slots o) ->
          exists sl, slot_at s i = Some sl /\ sl_op sl = n /\ sl_reg sl = false /\ sl_buf sl = None /\ sl_watch sl = WNone
                     /\ assoc (id_text (sl_id sl)) (pending s) = None)
    /\ no_record_with s o (fun ok => ok = true)
    /\ match f with
       | EStopped c0 => err s = Some c0 /\ no_record_with s o (fun _ => True)
       | ESendFail => In (req_obs false s o) (hist s)
       | EBadParams => has_bad (o_specs o) /\ no_record_with s o (fun _ => True)
       | EEmptyBatch => o_specs o = [] /\ o_slots o = []
       end.
Proof. exact fail_outcome. Qed.
Print Assumptions c05_fail_outcome.

(* a Notify that returned nil: its notification (no id) was handed to the transport and the Send succeeded *)
Theorem c05_notify_outcome : forall c tr s, traces_to c tr s -> forall n, In (ORet n RetNotify) (hist s) ->
  exists o sp, op_at s n = Some o /\ o_kind o = KNotify /\ o_specs o = [sp] /\ sp_notify sp = true
               /\ In (OSendReq true false [([], sp_method sp, sp_params sp)]) (hist s).
Proof. exact notify_outcome. Qed.
Print Assumptions c05_notify_outcome.

(* OPERATIONS ON A STOPPED CLIENT FAIL WITHOUT TRANSMITTING (trace-level form of c05_after_stop).  If the client has
   stopped in s1 and the next label issues operation n, then in every later state: its Send never succeeded and never
   failed (it never reached the transport), no request record anywhere in the history carries one of its ids, and all
   it can have returned is the stop error or a local validation error (or, for a Close, Close's own result). *)
Theorem c05_after_stop_trace : forall c tr1 s1 n k specs tr2 s, traces_to c tr1 s1 -> err s1 <> None ->
  traces_to c (tr1 ++ LOp n k specs :: tr2) s ->
  forall o, op_at s n = Some o ->
    sent' o = false /\ send_failed o = false
    /\ no_record_with s o (fun _ => True)
    /\ (forall r, In (ORet n r) (hist s) ->
          match r with RetFail (EStopped _) | RetFail EBadParams | RetFail EEmptyBatch | RetClose _ => True | _ => False end).
Proof. exact after_stop_trace. Qed.
Print Assumptions c05_after_stop_trace.

(* BATCH OUTCOME (the Batch analogue of clause 4 of c05_watch_outcome, every trace).  The responses of a returned
   Batch are, per slot of the operation in allocation (= spec) order, the pair of the slot's id and batch_res of the
   slot's value v, and for each entry ([slot_outcome]): if v came from a delivery (v_src = SPeer j k) it is the payload of
   member k of inbound record j, whose id is that entry's id, and OnCancel never ran for it; if it came from the
   entry's watcher (SWatch) the entry's context ended with cause cw because the caller's context ended with cw or the
   client stopped, v is the error of that cause (context.Canceled / DeadlineExceeded, or an internal error carrying an
   interesting stop cause), and OnCancel ran exactly once iff configured. *)
Theorem c05_batch_outcome : forall c tr s, traces_to c tr s ->
  forall n rs, In (ORet n (RetBatch rs)) (hist s) ->
    exists o, op_at s n = Some o /\ o_kind o = KBatch
      /\ Forall2 (fun i p => exists sl v, slot_at s i = Some sl /\ sl_op sl = n /\ sl_buf sl = Some v
                               /\ p = (id_text (sl_id sl), batch_res v) /\ slot_outcome s sl v) (o_slots o) rs.
Proof. exact batch_outcome. Qed.
Print Assumptions c05_batch_outcome.

(* LIVENESS GROUNDWORK.  (a) Every release label offered by [enabled_rel] (a goroutine parked at a scheduling point) is
   enabled.  (b) Fuel adequacy of [settle]: after every step from a reachable state no unhooked micro step is left, so
   the state returned by [step] has run ALL consequences that happen without passing a scheduling point (a caller
   whose value arrived has taken it and returned, a Close whose wait group emptied has returned); hence a reachable
   state is quiescent iff nothing is parked. *)
Theorem c05_settle_adequate : forall c s, reach c s ->
  settle1 s = None
  /\ (quiescent s = true <-> enabled_rel s = [])
  /\ (forall l, In l (enabled_rel s) -> is_rel l = true /\ exists s' os, step s l = Some (s', os) /\ settle1 s' = None).
Proof. exact settle_adequate_all. Qed.
Print Assumptions c05_settle_adequate.

(* (c) PROGRESS: releasing any parked goroutine strictly decreases [potential] (work left at the scheduling points:
   specs still to be given an id, sends, watcher / delivery / callback-reply / reader-error / Close critical sections
   still to run, records still to be read, the stop still to happen); hence every history can be extended, by releases
   only - no new API call, no peer or transport event - to a quiescent one, in at most [potential s] steps: no
   goroutine of the client spins or stays runnable forever. *)
Theorem c05_release_progress : forall c s l s' os, reach c s -> is_rel l = true -> step s l = Some (s', os) ->
  potential s' < potential s.
Proof. exact release_decreases. Qed.
Print Assumptions c05_release_progress.

Theorem c05_quiescent_reachable : forall c tr s, traces_to c tr s ->
  exists tr2 s', Forall (fun l => is_rel l = true) tr2 /\ traces_to c (tr ++ tr2) s' /\ quiescent s' = true.
Proof. exact trace_drains. Qed.
Print Assumptions c05_quiescent_reachable.

(** * Monitors over the observation sequence of a run (cli/CliMonitors.v), extracted (extract/climon.list) and
    evaluated by ocaml/run_cli.ml on every harness log, racing ones included.  [env_of tr] = the environment labels
    of the trace in order (API calls, context ends, peer records, transport faults, callback handler returns),
    [concat oss] = the observations of the run in order.  No monitor has a hypothesis. *)
From JV Require CliMonitors.
Module Monitors.
Import CliMonitors.
(* (a) no operation number returns twice, and every operation number that returns was issued ([LOp n _ _] is among
   the environment labels) *)
Theorem c05_mon_return_once_sound : forall c tr s oss, run (init_of c) tr = Some (s, oss) ->
  mon_return_once (env_of tr) (concat oss) = true.
Proof. exact CliMonitors.mon_return_once_sound. Qed.
Print Assumptions c05_mon_return_once_sound.

Theorem c05_ret_was_issued : forall c tr s oss n r, run (init_of c) tr = Some (s, oss) -> In (ORet n r) (concat oss) ->
  In n (op_nums (env_of tr)).
Proof. exact CliMonitors.ret_was_issued. Qed.
Print Assumptions c05_ret_was_issued.

(* (c) OnStop is observed at most once, and no record - request or callback reply, transmitted or failed - is
   handed to the transport after it *)
Theorem c05_mon_onstop_once_sound : forall c tr s oss, run (init_of c) tr = Some (s, oss) ->
  mon_onstop_once (env_of tr) (concat oss) = true.
Proof. exact CliMonitors.mon_onstop_once_sound. Qed.
Print Assumptions c05_mon_onstop_once_sound.

(* (d) no record is handed to the transport after the channel was closed *)
Theorem c05_mon_close_seals_sound : forall c tr s oss, run (init_of c) tr = Some (s, oss) ->
  mon_close_seals (env_of tr) (concat oss) = true.
Proof. exact CliMonitors.mon_close_seals_sound. Qed.
Print Assumptions c05_mon_close_seals_sound.
End Monitors.
