(* C05 - Client: every operation completes exactly once under cancel, Close and failure.
   Property theorems only; every proof is `exact <lemma>` (lemmas in coq/cli/CliC05.v, CliProofs.v;
   invariants in coq/cli/CliInv.v, CliRet.v). *)
From Coq Require Import List NArith ZArith Bool Arith.
From RecordUpdate Require Import RecordUpdate.
From JV Require Import Bytes Msg CliModel CliLemmas CliInv CliRet CliProofs CliC05.
Import ListNotations.

(* in every history of every schedule each operation (Call, Batch, Notify, Close) returns at most once,
   with one value, and is then finished; an unfinished operation has not returned.
   FULL STATEMENT NOT YET PROVED (hence _partial): additionally "quiescent s = true -> every operation
   whose slots are all written, or whose context ended, or issued on a stopped client, has returned"
   (the liveness-at-quiescence half).  Missing: the invariant relating watcher states, slot contexts and
   the pending set (a blocked watcher has a live context; stop cancels every pending slot). The
   correspondence check observes this half (parked goroutines, goroutine count, exactly-one return). *)
Theorem c05_returns_once_partial : forall c tr s, traces_to c tr s ->
  (forall n, ret_count n (hist s) <= 1)
  /\ (forall n r r', In (ORet n r) (hist s) -> In (ORet n r') (hist s) -> r = r')
  /\ (forall n r, In (ORet n r) (hist s) -> exists o, op_at s n = Some o /\ o_ret o = Some r /\ o_pc o = PDone)
  /\ (forall n o, op_at s n = Some o -> o_pc o <> PDone -> ret_count n (hist s) = 0).
Proof. exact returns_once. Qed.
Print Assumptions c05_returns_once_partial.

(* the watcher's critical section in any reachable state: too late (request no longer pending) ->
   nothing written, no OnCancel; otherwise it removes exactly its own entry, writes the context's own
   error (context.Canceled / DeadlineExceeded by the slot context's first cause; an internal error after
   a transport failure), and OnCancel runs exactly once in that window iff configured.
   FULL STATEMENT NOT YET PROVED (hence _partial): "over every trace the number of OOnCancel id in the
   history is 1 if the slot with that id was written by its watcher and 0 otherwise; the value returned
   for an operation is the reply if the delivery removed the entry and this error if the watcher did".
   Missing: the global counting invariant over the history (no other label emits OOnCancel is by
   inspection of step_raw) and the stability of written slots. *)
Theorem c05_watch_outcome_partial : forall c tr s, traces_to c tr s -> forall i sl s',
  slot_at s i = Some sl -> step_raw s (LRelWatch i) = Some s' ->
  sl_watch sl = WParked
  /\ (assoc (id_text (sl_id sl)) (pending s) = None ->
        s' = set_slot i (fun sl => set sl_watch (fun _ => WDone) sl) s)
  /\ (forall i', assoc (id_text (sl_id sl)) (pending s) = Some i' ->
        let e := watch_werr (err s) (sl_pctx sl) in
        i' = i /\ crash s' = None
        /\ slot_val s' i = Some (mkVal (id_text (sl_id sl)) (Some e) [] SWatch)
        /\ assoc (id_text (sl_id sl)) (pending s') = None
        /\ hist s' = hist s ++ (if c_oncancel s then [OOnCancel (id_text (sl_id sl)) (Some e)] else [])).
Proof. exact (fun c tr s T i sl s' => watch_spec s i sl s' (inv1_reach c s (traces_reach c tr s T))). Qed.
Print Assumptions c05_watch_outcome_partial.

(* Call maps the watcher's error back to the context sentinel *)
Theorem c05_ctx_sentinel : forall e w,
  call_res (mkVal e (Some (ctx_werr (Some w))) [] SWatch) = RCtx w
  /\ call_res (mkVal e (Some (ctx_werr None)) [] SWatch) = RCtx WCancel.
Proof. exact call_res_ctx. Qed.
Print Assumptions c05_ctx_sentinel.

(* an operation that reaches send on a stopped client returns the stop error, transmits nothing and
   registers nothing *)
Theorem c05_after_stop : forall s n c s', err s = Some c -> step_raw s (LRelSend n) = Some s' ->
  hist s' = hist s ++ [ORet n (RetFail (EStopped c))] /\ pending s' = pending s /\ slots s' = slots s.
Proof. exact send_after_stop. Qed.
Print Assumptions c05_after_stop.
