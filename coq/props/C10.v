(* C10 — Channel discipline: one sender, one receiver, one Close, whole messages.
   This file only restates the property theorems; proofs are in chan/Discipline.v (trace
   theory of the lock discipline) and srv/SrvC10.v (server model).  The client half
   (c10_close_once_cli) lives with the client model. *)
From Coq Require Import List NArith ZArith Bool Arith.
From RecordUpdate Require Import RecordUpdate.
From JV Require Import Bytes Msg SrvModel SrvLemmas SrvC09 Discipline SrvC10.
Import ListNotations.

(* A. under mutex semantics the lock discipline implies the Channel contract: at every prefix
      at most one Send/Close interval is open (no Send overlaps a Send or a Close), it belongs
      to the lock holder, and at most one Recv interval is open; event lists of any length *)
Theorem c10_no_overlap : forall rdr es,
  well_locked es -> disciplined rdr es ->
  forall p r, es = p ++ r ->
    (forall i b i' b', open p i b -> is_wrB b -> open p i' b' -> is_wrB b' -> i = i' /\ b = b') /\
    (forall i b, open p i b -> is_wrB b -> holder p = Some (ev_g b)) /\
    (forall i b i' b', open p i b -> is_rdB b -> open p i' b' -> is_rdB b' -> i = i' /\ b = b').
Proof. exact no_overlap. Qed.
Print Assumptions c10_no_overlap.

(* B1. exactly one Close per Start *)
Theorem c10_close_once_srv : forall c s, reach c s -> closes s + (if running s then 1 else 0) = starts s.
Proof. exact close_once_reach. Qed.
Print Assumptions c10_close_once_srv.

Theorem c10_close_only_when_stopping : forall s l s' os,
  step s l = Some (s', os) ->
  (countb is_close os = 1 /\ running s = true /\ running s' = false /\ closes s' = S (closes s)) \/
  (countb is_close os = 0 /\ closes s' = closes s /\ (running s = true -> running s' = true)).
Proof. exact close_only_when_stopping. Qed.
Print Assumptions c10_close_only_when_stopping.

Theorem c10_close_once_trace : forall c tr s oss,
  run (init_of c) tr = Some (s, oss) -> count_close oss + (if running s then 1 else 0) = starts s.
Proof. exact close_once_trace. Qed.
Print Assumptions c10_close_once_trace.

(* B2. every Send / SendReq / Close observation of a window is produced by its critical section
       (never by a wake-up), at most one per window, and [chan_ops_of] says exactly which label
       makes which operation *)
Theorem c10_sends_in_critical_sections : forall s l s' os,
  step s l = Some (s', os) ->
  exists s1 os1, step_raw s l = Some (s1, os1) /\
    filter is_chan_op os = filter is_chan_op os1 /\ chan_ops_of l s (filter is_chan_op os) /\
    length (filter is_chan_op os) <= 1.
Proof. exact sends_in_critical_sections. Qed.
Print Assumptions c10_sends_in_critical_sections.

Theorem c10_chan_op_labels : forall l s os, chan_ops_of l s os -> os <> [] ->
  l = LRelRead \/ (exists u, l = LRelDeliver u) \/ (exists n, l = LRelStop n) \/ (exists n, l = LRelPush n).
Proof. exact chan_op_labels. Qed.
Print Assumptions c10_chan_op_labels.

(* B3. no empty record is ever passed to Send *)
Theorem c10_whole_messages_srv : forall c s l s' os ok b rs,
  reach c s -> step s l = Some (s', os) -> In (OSend ok b rs) os -> rs <> [].
Proof. exact whole_messages. Qed.
Print Assumptions c10_whole_messages_srv.

Theorem c10_deliver_nonempty : forall c s u un,
  reach c s -> nth_error (units s) u = Some un -> u_st un = UAtDeliver -> responses (unit_tasks s u) <> [].
Proof. exact deliver_nonempty. Qed.
Print Assumptions c10_deliver_nonempty.

(* B3, requests: a pushed request carries the method of a push call of the environment, hence
   a non-empty one whenever the environment's calls do *)
Theorem c10_sendreq_method_nonempty : forall c tr s oss,
  run (init_of c) tr = Some (s, oss) ->
  (forall n w m p, In (LCallPush n w m p) tr -> m <> []) ->
  forall ok id m p, In (OSendReq ok id m p) (concat oss) -> m <> [].
Proof. exact sendreq_method_nonempty. Qed.
Print Assumptions c10_sendreq_method_nonempty.
